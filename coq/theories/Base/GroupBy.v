(* GROUP BY over a list (a bag of rows), keyed by a total preorder given as a boolean
   function [leb] (for the truth table: [Qle_bool] on rational scores; key equality is the
   induced equivalence [eqk], which for Q is [Qeq], not Leibniz equality).

     group_keys key leb l      the distinct keys of l, ascending (GROUP BY k ORDER BY k)
     members key leb l k       the rows of l whose key is equivalent to k
     sum_by f l                sum(f) over the rows of l          (count( * ) = sum_by (fun _ => 1))

   Main lemmas:
     group_keys_sorted         strictly ascending (so: pairwise distinct)
     group_keys_cover / group_keys_from
     sum_over_groups           for a key predicate p compatible with eqk,
                               sum over the groups whose key satisfies p of sum_by f (members ..)
                               = sum_by f over the rows of l whose key satisfies p
   Definitions first (they are what models execute), lemmas after. *)
From Coq Require Import List Bool ZArith Lia Sorting.Sorted.
Import ListNotations.
Local Open Scope Z_scope.

Fixpoint sumZ (l : list Z) : Z := match l with [] => 0 | x :: t => x + sumZ t end.

Section GroupBy.
  Context {A K : Type}.
  Variable key : A -> K.
  Variable leb : K -> K -> bool.

  Definition eqk (a b : K) : bool := leb a b && leb b a.
  Definition ltk (a b : K) : bool := leb a b && negb (leb b a).

  Definition sum_by (f : A -> Z) (l : list A) : Z := sumZ (map f l).
  Definition countZ (p : A -> bool) (l : list A) : Z := Z.of_nat (length (filter p l)).

  (* distinct keys (first occurrence kept) *)
  Fixpoint nodupk (ks : list K) : list K :=
    match ks with
    | [] => []
    | k :: t => k :: filter (fun k' => negb (eqk k k')) (nodupk t)
    end.

  (* insertion sort, ascending *)
  Fixpoint insertk (k : K) (l : list K) : list K :=
    match l with
    | [] => [k]
    | h :: t => if leb k h then k :: l else h :: insertk k t
    end.
  Fixpoint isortk (l : list K) : list K :=
    match l with [] => [] | h :: t => insertk h (isortk t) end.

  Definition group_keys (l : list A) : list K := isortk (nodupk (map key l)).
  Definition members (l : list A) (k : K) : list A := filter (fun x => eqk k (key x)) l.

  (* ------------------------------------------------------------------ lemmas *)
  Hypothesis leb_total : forall a b, leb a b = true \/ leb b a = true.
  Hypothesis leb_trans : forall a b c, leb a b = true -> leb b c = true -> leb a c = true.

  Lemma leb_refl a : leb a a = true.
  Proof. destruct (leb_total a a); assumption. Qed.
  Lemma eqk_refl a : eqk a a = true.
  Proof. unfold eqk. rewrite leb_refl. reflexivity. Qed.
  Lemma eqk_sym a b : eqk a b = eqk b a.
  Proof. unfold eqk. apply andb_comm. Qed.
  Lemma eqk_trans a b c : eqk a b = true -> eqk b c = true -> eqk a c = true.
  Proof.
    unfold eqk. rewrite !andb_true_iff. intros [H1 H2] [H3 H4]. split; eapply leb_trans; eauto.
  Qed.
  Lemma eqk_leb_l a b c : eqk a b = true -> leb a c = leb b c.
  Proof.
    unfold eqk. rewrite andb_true_iff. intros [H1 H2].
    destruct (leb a c) eqn:E1, (leb b c) eqn:E2; try reflexivity.
    - rewrite (leb_trans _ _ _ H2 E1) in E2. discriminate.
    - rewrite (leb_trans _ _ _ H1 E2) in E1. discriminate.
  Qed.
  Lemma eqk_leb_r a b c : eqk a b = true -> leb c a = leb c b.
  Proof.
    unfold eqk. rewrite andb_true_iff. intros [H1 H2].
    destruct (leb c a) eqn:E1, (leb c b) eqn:E2; try reflexivity.
    - rewrite (leb_trans _ _ _ E1 H1) in E2. discriminate.
    - rewrite (leb_trans _ _ _ E2 H2) in E1. discriminate.
  Qed.
  Lemma ltk_leb a b : ltk a b = true -> leb a b = true.
  Proof. unfold ltk. rewrite andb_true_iff. tauto. Qed.
  Lemma ltk_not_leb a b : ltk a b = true -> leb b a = false.
  Proof. unfold ltk. rewrite andb_true_iff, negb_true_iff. tauto. Qed.
  Lemma not_leb_ltk a b : leb a b = false -> ltk b a = true.
  Proof.
    intros H. unfold ltk. rewrite H. destruct (leb_total a b) as [E|E]; [congruence|].
    rewrite E. reflexivity.
  Qed.
  Lemma ltk_trans a b c : ltk a b = true -> ltk b c = true -> ltk a c = true.
  Proof.
    unfold ltk. rewrite !andb_true_iff, !negb_true_iff. intros [H1 H2] [H3 H4]. split.
    - eapply leb_trans; eauto.
    - destruct (leb c a) eqn:E; [|reflexivity].
      rewrite (leb_trans _ _ _ E H1) in H4. discriminate.
  Qed.

  (* pairwise non-equivalent *)
  Definition NoDupK (ks : list K) : Prop :=
    ForallOrdPairs (fun a b => eqk a b = false) ks.

  Lemma nodupk_in ks k : In k (nodupk ks) -> In k ks.
  Proof.
    induction ks as [|a t IH]; cbn; [tauto|]. intros [H|H]; [left; exact H|].
    apply filter_In in H. right. apply IH. tauto.
  Qed.
  Lemma nodupk_cover ks k : In k ks -> exists k', In k' (nodupk ks) /\ eqk k' k = true.
  Proof.
    induction ks as [|a t IH]; cbn; [tauto|]. intros [H|H].
    - subst. exists k. split; [left; reflexivity|apply eqk_refl].
    - destruct (IH H) as (k' & Hin & He). destruct (eqk a k') eqn:E.
      + exists a. split; [left; reflexivity|]. eapply eqk_trans; eauto.
      + exists k'. split; [|exact He]. right. apply filter_In. rewrite E. tauto.
  Qed.
  Lemma NoDupK_filter p ks : NoDupK ks -> NoDupK (filter p ks).
  Proof.
    induction 1 as [|a l Ha Hl IH]; cbn; [constructor|].
    destruct (p a); [|exact IH]. constructor; [|exact IH].
    rewrite Forall_forall in *. intros x Hx. apply filter_In in Hx. apply Ha. tauto.
  Qed.
  Lemma nodupk_NoDupK ks : NoDupK (nodupk ks).
  Proof.
    induction ks as [|a t IH]; cbn; [constructor|]. constructor.
    - rewrite Forall_forall. intros x Hx. apply filter_In in Hx. destruct Hx as [_ Hx].
      rewrite negb_true_iff in Hx. exact Hx.
    - apply NoDupK_filter. exact IH.
  Qed.

  Lemma insertk_in k l x : In x (insertk k l) <-> x = k \/ In x l.
  Proof.
    induction l as [|h t IH]; cbn; [intuition|].
    destruct (leb k h); cbn; [intuition|]. rewrite IH. intuition.
  Qed.
  Lemma isortk_in l x : In x (isortk l) <-> In x l.
  Proof.
    induction l as [|h t IH]; cbn; [tauto|]. rewrite insertk_in, IH. intuition.
  Qed.

  Definition SortedK (l : list K) : Prop := StronglySorted (fun a b => ltk a b = true) l.

  Lemma insertk_sorted k l :
    SortedK l -> Forall (fun x => eqk k x = false) l -> SortedK (insertk k l).
  Proof.
    induction l as [|h t IH]; cbn; intros Hs Hne.
    - constructor; constructor.
    - inversion Hs as [|? ? Hst Hh]; subst. inversion Hne as [|? ? Hkh Hnet]; subst.
      destruct (leb k h) eqn:E.
      + assert (Hlt : ltk k h = true).
        { unfold ltk. rewrite E. unfold eqk in Hkh. rewrite E in Hkh. cbn in *. rewrite Hkh. reflexivity. }
        constructor; [exact Hs|]. constructor; [exact Hlt|].
        rewrite Forall_forall in *. intros x Hx. eapply ltk_trans; eauto.
      + constructor; [apply IH; assumption|].
        rewrite Forall_forall in *. intros x Hx. apply insertk_in in Hx. destruct Hx as [->|Hx].
        * apply not_leb_ltk. exact E.
        * apply Hh. exact Hx.
  Qed.
  Lemma isortk_sorted l : NoDupK l -> SortedK (isortk l).
  Proof.
    induction 1 as [|a l Ha Hl IH]; cbn; [constructor|].
    apply insertk_sorted; [exact IH|].
    rewrite Forall_forall in *. intros x Hx. apply Ha. apply isortk_in. exact Hx.
  Qed.

  Lemma SortedK_NoDupK l : SortedK l -> NoDupK l.
  Proof.
    induction 1 as [|a l Hs IH Ha]; [constructor|]. constructor; [|exact IH].
    rewrite Forall_forall in *. intros x Hx. specialize (Ha x Hx).
    unfold eqk. rewrite (ltk_not_leb _ _ Ha). apply andb_false_r.
  Qed.

  Lemma group_keys_sorted l : SortedK (group_keys l).
  Proof. apply isortk_sorted, nodupk_NoDupK. Qed.

  Lemma group_keys_from l k : In k (group_keys l) -> exists x, In x l /\ k = key x.
  Proof.
    unfold group_keys. rewrite isortk_in. intros H. apply nodupk_in in H.
    apply in_map_iff in H. destruct H as (x & <- & Hx). eauto.
  Qed.
  Lemma group_keys_cover l x : In x l -> exists k, In k (group_keys l) /\ eqk k (key x) = true.
  Proof.
    intros Hx. destruct (nodupk_cover (map key l) (key x)) as (k & Hk & He).
    { apply in_map. exact Hx. }
    exists k. split; [|exact He]. unfold group_keys. apply isortk_in. exact Hk.
  Qed.

  (* -------------------------------------------------------------- sums *)
  Lemma sumZ_app a b : sumZ (a ++ b) = sumZ a + sumZ b.
  Proof. induction a as [|x t IH]; cbn; [reflexivity|]. rewrite IH. lia. Qed.
  Lemma sum_by_app f a b : sum_by f (a ++ b) = sum_by f a + sum_by f b.
  Proof. unfold sum_by. rewrite map_app. apply sumZ_app. Qed.
  Lemma sum_by_cons f x l : sum_by f (x :: l) = f x + sum_by f l.
  Proof. reflexivity. Qed.
  Lemma sum_by_nonneg f l : (forall x, 0 <= f x) -> 0 <= sum_by f l.
  Proof. intros Hf. induction l as [|x t IH]; cbn; [lia|]. specialize (Hf x). unfold sum_by in IH. lia. Qed.
  Lemma sum_by_ind01 (p : A -> bool) l : sum_by (fun x => if p x then 1 else 0) l = countZ p l.
  Proof.
    unfold countZ. induction l as [|x t IH]; cbn [filter]; [reflexivity|].
    rewrite sum_by_cons, IH. destruct (p x); cbn [length]; lia.
  Qed.
  Lemma sum_by_filter_ind01 (p q : A -> bool) l :
    sum_by (fun x => if p x then 1 else 0) (filter q l) = countZ (fun x => p x && q x) l.
  Proof.
    unfold countZ. induction l as [|x t IH]; cbn [filter]; [reflexivity|].
    destruct (q x) eqn:Eq; [rewrite sum_by_cons, IH|rewrite IH]; destruct (p x); cbn [andb length]; lia.
  Qed.
  Lemma sum_by_one l : sum_by (fun _ => 1) l = Z.of_nat (length l).
  Proof. induction l as [|x t IH]; [reflexivity|]. rewrite sum_by_cons, IH. cbn [length]. lia. Qed.
  Lemma sum_by_split f (p : A -> bool) l :
    sum_by f l = sum_by f (filter p l) + sum_by f (filter (fun x => negb (p x)) l).
  Proof.
    induction l as [|x t IH]; [reflexivity|]. cbn [filter]. destruct (p x); cbn [negb];
      rewrite !sum_by_cons, IH; lia.
  Qed.
  Lemma sum_by_ext f g l : (forall x, In x l -> f x = g x) -> sum_by f l = sum_by g l.
  Proof.
    induction l as [|x t IH]; intros H; [reflexivity|]. rewrite !sum_by_cons, IH.
    - rewrite (H x); [reflexivity|left; reflexivity].
    - intros y Hy. apply H. right. exact Hy.
  Qed.
  Lemma sum_by_add f g l : sum_by (fun x => f x + g x) l = sum_by f l + sum_by g l.
  Proof. induction l as [|x t IH]; [reflexivity|]. rewrite !sum_by_cons, IH. lia. Qed.
  Lemma filter_filter_and (p q : A -> bool) l : filter p (filter q l) = filter (fun x => p x && q x) l.
  Proof.
    induction l as [|x t IH]; [reflexivity|]. cbn [filter]. destruct (q x) eqn:Eq; cbn [filter];
      destruct (p x); cbn [andb]; rewrite IH; reflexivity.
  Qed.

  (* Exactly one of pairwise non-equivalent keys is equivalent to a given covered key. *)
  Lemma one_group ks (g : K -> Z) k0 :
    NoDupK ks -> (exists k, In k ks /\ eqk k k0 = true) ->
    (forall k, eqk k k0 = true -> g k = g k0) ->
    sumZ (map (fun k => if eqk k k0 then g k else 0) ks) = g k0.
  Proof.
    intros Hnd. induction Hnd as [|a l Ha Hl IH]; intros (k & Hin & He) Hg.
    - destruct Hin.
    - cbn. destruct (eqk a k0) eqn:E.
      + assert (Hz : sumZ (map (fun k1 => if eqk k1 k0 then g k1 else 0) l) = 0).
        { clear IH Hl Hin. induction l as [|b t IHt]; [reflexivity|]. cbn.
          inversion Ha as [|? ? Hab Hat]; subst.
          destruct (eqk b k0) eqn:Eb.
          - rewrite eqk_sym in Eb. rewrite (eqk_trans _ _ _ E Eb) in Hab. discriminate.
          - rewrite IHt; [reflexivity|exact Hat]. }
        rewrite Hz, (Hg a E). lia.
      + destruct Hin as [->|Hin]; [congruence|]. rewrite IH; [lia| |exact Hg]. eauto.
  Qed.

  (* GROUP BY then re-aggregate = aggregate directly.  p is any key predicate that does not
     distinguish equivalent keys. *)
  Lemma sum_over_groups_gen ks (p : K -> bool) f l :
    NoDupK ks ->
    (forall a b, eqk a b = true -> p a = p b) ->
    (forall x, In x l -> exists k, In k ks /\ eqk k (key x) = true) ->
    sumZ (map (fun k => if p k then sum_by f (members l k) else 0) ks)
    = sum_by f (filter (fun x => p (key x)) l).
  Proof.
    intros Hnd Hp. induction l as [|x t IH]; intros Hc.
    - cbn. clear Hnd Hc. induction ks as [|k ks' IHk]; [reflexivity|]. cbn.
      rewrite IHk. destruct (p k); reflexivity.
    - assert (Hstep : forall ks0,
          sumZ (map (fun k => if p k then sum_by f (members (x :: t) k) else 0) ks0)
          = sumZ (map (fun k => if eqk k (key x) then (if p k then f x else 0) else 0) ks0)
            + sumZ (map (fun k => if p k then sum_by f (members t k) else 0) ks0)).
      { induction ks0 as [|k ks0 IHk]; [reflexivity|]. cbn [map sumZ]. rewrite IHk.
        unfold members at 1. cbn [filter]. fold (members t k).
        destruct (eqk k (key x)); destruct (p k); rewrite ?sum_by_cons; lia. }
      rewrite Hstep. rewrite IH by (intros y Hy; apply Hc; right; exact Hy).
      rewrite (one_group ks (fun k => if p k then f x else 0) (key x) Hnd).
      + cbn [filter]. destruct (p (key x)); rewrite ?sum_by_cons; lia.
      + apply Hc. left. reflexivity.
      + intros k Hk. rewrite (Hp _ _ Hk). reflexivity.
  Qed.

  Lemma sum_over_groups (p : K -> bool) f l :
    (forall a b, eqk a b = true -> p a = p b) ->
    sumZ (map (fun k => if p k then sum_by f (members l k) else 0) (group_keys l))
    = sum_by f (filter (fun x => p (key x)) l).
  Proof.
    intros Hp. apply sum_over_groups_gen; [|exact Hp|].
    - apply SortedK_NoDupK, group_keys_sorted.
    - intros x Hx. apply group_keys_cover. exact Hx.
  Qed.

  Lemma filter_true (l : list A) : filter (fun _ => true) l = l.
  Proof. induction l as [|x t IH]; [reflexivity|]. cbn. rewrite IH. reflexivity. Qed.

  Lemma sum_all_groups f l :
    sumZ (map (fun k => sum_by f (members l k)) (group_keys l)) = sum_by f l.
  Proof.
    pose proof (sum_over_groups (fun _ => true) f l (fun _ _ _ => eq_refl)) as H.
    rewrite filter_true in H. exact H.
  Qed.

End GroupBy.

Arguments NoDupK {K} leb ks.
Arguments SortedK {K} leb l.

(* Grouped tables: [map mk (group_keys key leb l)] whose rows carry their key ([kf]) and an
   aggregate [h] of their members. *)
Lemma sum_by_filter_sumZ {B} (h : B -> Z) (q : B -> bool) (l : list B) :
  sum_by h (filter q l) = sumZ (map (fun k => if q k then h k else 0) l).
Proof.
  induction l as [|x t IH]; [reflexivity|]. cbn [filter map sumZ].
  destruct (q x); [rewrite sum_by_cons|]; rewrite IH; lia.
Qed.
Lemma filter_map_swap {B C} (q : C -> bool) (g : B -> C) (l : list B) :
  filter q (map g l) = map g (filter (fun x => q (g x)) l).
Proof.
  induction l as [|x t IH]; [reflexivity|]. cbn. destruct (q (g x)); cbn; rewrite IH; reflexivity.
Qed.
Lemma sum_by_map_comp {B C} (h : C -> Z) (g : B -> C) (l : list B) :
  sum_by h (map g l) = sum_by (fun x => h (g x)) l.
Proof. unfold sum_by. rewrite map_map. reflexivity. Qed.

Section GroupedTable.
  Context {A K R : Type}.
  Variable key : A -> K.
  Variable leb : K -> K -> bool.
  Hypothesis leb_total : forall a b, leb a b = true \/ leb b a = true.
  Hypothesis leb_trans : forall a b c, leb a b = true -> leb b c = true -> leb a c = true.
  Variable mk : K -> R.
  Variable kf : R -> K.

  Lemma grouped_table_sum (h : R -> Z) (f : A -> Z) (p : K -> bool) l :
    (forall k, kf (mk k) = k) ->
    (forall k, h (mk k) = sum_by f (members key leb l k)) ->
    (forall a b, eqk leb a b = true -> p a = p b) ->
    sum_by h (filter (fun y => p (kf y)) (map mk (group_keys key leb l)))
    = sum_by f (filter (fun x => p (key x)) l).
  Proof.
    intros Hk Hh Hp. rewrite filter_map_swap, sum_by_map_comp, sum_by_filter_sumZ.
    rewrite <- (sum_over_groups key leb leb_total leb_trans p f l Hp).
    f_equal. apply map_ext. intros k. rewrite Hk, Hh. reflexivity.
  Qed.
  Lemma grouped_table_total (h : R -> Z) (f : A -> Z) l :
    (forall k, h (mk k) = sum_by f (members key leb l k)) ->
    sum_by h (map mk (group_keys key leb l)) = sum_by f l.
  Proof.
    intros Hh. rewrite sum_by_map_comp. rewrite <- (sum_all_groups key leb leb_total leb_trans f l).
    unfold sum_by. f_equal. apply map_ext. intros k. apply Hh.
  Qed.
End GroupedTable.

(* Lexicographic order on integer tuples: the group key of a GROUP BY over several columns. *)
Fixpoint lex_leb (a b : list Z) : bool :=
  match a, b with
  | [], _ => true
  | _ :: _, [] => false
  | x :: a', y :: b' => if x <? y then true else if y <? x then false else lex_leb a' b'
  end.
Lemma lex_total a : forall b, lex_leb a b = true \/ lex_leb b a = true.
Proof.
  induction a as [|x a IH]; intros [|y b]; cbn; auto.
  destruct (Z.ltb_spec x y), (Z.ltb_spec y x); auto; lia.
Qed.
Lemma lex_trans a : forall b c, lex_leb a b = true -> lex_leb b c = true -> lex_leb a c = true.
Proof.
  induction a as [|x a IH]; intros [|y b] [|z c]; cbn; auto; try discriminate.
  destruct (Z.ltb_spec x y), (Z.ltb_spec y x), (Z.ltb_spec y z), (Z.ltb_spec z y),
           (Z.ltb_spec x z), (Z.ltb_spec z x); auto; try discriminate; try lia.
  apply IH.
Qed.
Lemma lex_antisym a : forall b, lex_leb a b = true -> lex_leb b a = true -> a = b.
Proof.
  induction a as [|x a IH]; intros [|y b]; cbn; auto; try discriminate.
  destruct (Z.ltb_spec x y), (Z.ltb_spec y x); try discriminate; try lia.
  intros H1 H2. f_equal; [lia|apply IH; assumption].
Qed.
Lemma eqk_lex a b : eqk lex_leb a b = true <-> a = b.
Proof.
  unfold eqk. rewrite andb_true_iff. split.
  - intros [H1 H2]. apply lex_antisym; assumption.
  - intros ->. destruct (lex_total b b); tauto.
Qed.

(* ------------------------------------------------------------------ invariance under Permutation
   (SQL tables are bags: the order of the input rows must not matter) *)
From Coq Require Import Sorting.Permutation.

Lemma filter_perm {A} (p : A -> bool) l l' : Permutation l l' -> Permutation (filter p l) (filter p l').
Proof.
  induction 1 as [|x l l' H IH|x y l|l l' l'' H1 IH1 H2 IH2]; cbn.
  - constructor.
  - destruct (p x); [constructor|]; exact IH.
  - destruct (p x), (p y); try reflexivity. apply perm_swap.
  - eapply perm_trans; eauto.
Qed.
Lemma countZ_perm {A} (p : A -> bool) l l' : Permutation l l' -> countZ p l = countZ p l'.
Proof. intros H. unfold countZ. rewrite (Permutation_length (filter_perm p l l' H)). reflexivity. Qed.
Lemma sumZ_perm l l' : Permutation l l' -> sumZ l = sumZ l'.
Proof. induction 1; cbn; lia. Qed.
Lemma sum_by_perm {A} (f : A -> Z) l l' : Permutation l l' -> sum_by f l = sum_by f l'.
Proof. intros H. unfold sum_by. apply sumZ_perm. apply Permutation_map. exact H. Qed.
Lemma flat_map_perm {A B} (g : A -> list B) l l' : Permutation l l' -> Permutation (flat_map g l) (flat_map g l').
Proof.
  induction 1 as [|x l l' H IH|x y l|l l' l'' H1 IH1 H2 IH2]; cbn.
  - constructor.
  - apply Permutation_app_head. exact IH.
  - rewrite !app_assoc. apply Permutation_app_tail. apply Permutation_app_comm.
  - eapply perm_trans; eauto.
Qed.

(* two strictly sorted lists with the same elements are the same list *)
Lemma sorted_unique {A} (R : A -> A -> Prop) :
  (forall a, ~ R a a) -> (forall a b c, R a b -> R b c -> R a c) ->
  forall l1 l2, StronglySorted R l1 -> StronglySorted R l2 -> (forall x, In x l1 <-> In x l2) -> l1 = l2.
Proof.
  intros Hirr Htr. induction l1 as [|h1 t1 IH]; intros l2 H1 H2 Hin.
  - destruct l2 as [|h2 t2]; [reflexivity|]. exfalso. apply (Hin h2). left. reflexivity.
  - destruct l2 as [|h2 t2]; [exfalso; apply (Hin h1); left; reflexivity|].
    inversion H1 as [|? ? S1 F1]; subst. inversion H2 as [|? ? S2 F2]; subst.
    rewrite Forall_forall in F1, F2.
    assert (Hh : h1 = h2).
    { destruct (proj1 (Hin h1) (or_introl eq_refl)) as [E|E]; [symmetry; exact E|].
      destruct (proj2 (Hin h2) (or_introl eq_refl)) as [E'|E']; [exact E'|].
      exfalso. apply (Hirr h1). eapply Htr; [apply F1; exact E'|apply F2; exact E]. }
    subst h2. f_equal. apply IH; try assumption. intros x. split; intros Hx.
    + destruct (proj1 (Hin x) (or_intror Hx)) as [E|E]; [|exact E]. subst x. exfalso. apply (Hirr h1), F1, Hx.
    + destruct (proj2 (Hin x) (or_intror Hx)) as [E|E]; [|exact E]. subst x. exfalso. apply (Hirr h1), F2, Hx.
Qed.

Section GroupKeysPerm.
  Context {A K : Type}.
  Variable key : A -> K.
  Variable leb : K -> K -> bool.
  Hypothesis leb_total : forall a b, leb a b = true \/ leb b a = true.
  Hypothesis leb_trans : forall a b c, leb a b = true -> leb b c = true -> leb a c = true.
  Hypothesis eqk_eq : forall a b, eqk leb a b = true -> a = b.      (* key equality is Leibniz *)

  Lemma group_keys_in l k : In k (group_keys key leb l) <-> exists x, In x l /\ k = key x.
  Proof.
    split; [apply group_keys_from|]. intros (x & Hx & ->).
    destruct (group_keys_cover key leb leb_total leb_trans l x Hx) as (k & Hk & He).
    apply eqk_eq in He. subst k. exact Hk.
  Qed.
  Lemma group_keys_perm l l' : Permutation l l' -> group_keys key leb l = group_keys key leb l'.
  Proof.
    intros H. apply (sorted_unique (fun a b => ltk leb a b = true)).
    - intros a Ha. unfold ltk in Ha. destruct (leb a a); discriminate.
    - apply (ltk_trans leb leb_trans).
    - apply group_keys_sorted; assumption.
    - apply group_keys_sorted; assumption.
    - intros k. rewrite !group_keys_in. split; intros (x & Hx & ->); exists x; split; try reflexivity.
      + eapply Permutation_in; eauto.
      + eapply Permutation_in; [apply Permutation_sym|]; eauto.
  Qed.
  Lemma members_perm l l' k : Permutation l l' -> Permutation (members key leb l k) (members key leb l' k).
  Proof. apply filter_perm. Qed.
End GroupKeysPerm.
