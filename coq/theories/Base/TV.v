(* SQL three-valued logic. *)
From Coq Require Import Bool List.
Import ListNotations.

Inductive tv := T | F | U.

Definition isT (x : tv) : bool := match x with T => true | _ => false end.
Definition coalesce_false (x : tv) : bool := isT x.          (* coalesce(x,false) *)
Definition of_bool (b : bool) : tv := if b then T else F.

Definition and3 (a b : tv) : tv :=
  match a, b with
  | F, _ | _, F => F
  | T, T => T
  | _, _ => U
  end.
Definition or3 (a b : tv) : tv :=
  match a, b with
  | T, _ | _, T => T
  | F, F => F
  | _, _ => U
  end.
Definition not3 (a : tv) : tv := match a with T => F | F => T | U => U end.

Definition tv_eqb (a b : tv) : bool :=
  match a, b with T, T | F, F | U, U => true | _, _ => false end.

Definition all_tv : list tv := [T; F; U].

Lemma all_tv_complete x : In x all_tv.
Proof. destruct x; cbn; auto. Qed.

Lemma isT_and3 a b : isT (and3 a b) = isT a && isT b.
Proof. destruct a, b; reflexivity. Qed.
Lemma isT_or3 a b : isT (or3 a b) = isT a || isT b.
Proof. destruct a, b; reflexivity. Qed.
Lemma isT_of_bool b : isT (of_bool b) = b.
Proof. destruct b; reflexivity. Qed.
Lemma tv_eqb_eq a b : tv_eqb a b = true <-> a = b.
Proof. destruct a, b; cbn; split; congruence. Qed.
