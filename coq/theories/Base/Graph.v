(* Undirected graphs on integer node ids: connectivity, component minimum (the spec object of
   C05, C11, C19) and an executable, proved-correct `comp_min`.

   nodes : list Z           node table (ids; the harness maps the engine's id order to Z)
   E     : list (Z * Z)     edge table (already thresholded); direction, duplicates and self
                            loops are irrelevant (lemmas below); an edge with an endpoint that is
                            not a node is never usable. *)
From Coq Require Import ZArith List Bool Lia.
Import ListNotations.
Open Scope Z_scope.

(* ------------------------------------------------------------------------------------ *)
(* association lists keyed by Z *)
Fixpoint lookup {A : Type} (k : Z) (l : list (Z * A)) : option A :=
  match l with
  | [] => None
  | (k', x) :: t => if k' =? k then Some x else lookup k t
  end.

Lemma lookup_in {A} k (l : list (Z * A)) x : lookup k l = Some x -> In (k, x) l.
Proof.
  induction l as [|[k' y] t IH]; cbn; [discriminate|].
  destruct (Z.eqb_spec k' k); [intros [= ->]; subst; auto|auto].
Qed.

Lemma lookup_some {A} k (l : list (Z * A)) : In k (map fst l) -> exists x, lookup k l = Some x.
Proof.
  induction l as [|[k' y] t IH]; cbn; [tauto|].
  destruct (Z.eqb_spec k' k); [eauto|]. intros [H|H]; [congruence|auto].
Qed.

Lemma lookup_none {A} k (l : list (Z * A)) : ~ In k (map fst l) -> lookup k l = None.
Proof.
  induction l as [|[k' y] t IH]; cbn; [auto|].
  destruct (Z.eqb_spec k' k); [tauto|]. intros H. apply IH. tauto.
Qed.

Lemma lookup_nodup {A} k (l : list (Z * A)) x :
  NoDup (map fst l) -> In (k, x) l -> lookup k l = Some x.
Proof.
  induction l as [|[k' y] t IH]; cbn; [tauto|]. intros ND [H|H].
  - injection H as -> ->. now rewrite Z.eqb_refl.
  - inversion ND; subst. destruct (Z.eqb_spec k' k).
    + subst. exfalso. apply H2. change k with (fst (k, x)). now apply in_map.
    + auto.
Qed.

(* ------------------------------------------------------------------------------------ *)
Section Conn.
  Variable nodes : list Z.

  Definition adj (E : list (Z * Z)) (a b : Z) : Prop := In (a, b) E \/ In (b, a) E.

  (* reflexive, symmetric, transitive closure of the edge relation restricted to nodes *)
  Inductive conn (E : list (Z * Z)) : Z -> Z -> Prop :=
  | conn_refl v : In v nodes -> conn E v v
  | conn_step v w x : conn E v w -> In x nodes -> adj E w x -> conn E v x.

  Lemma adj_sym E a b : adj E a b -> adj E b a.
  Proof. unfold adj; tauto. Qed.

  Lemma conn_in_l E v w : conn E v w -> In v nodes.
  Proof. induction 1; auto. Qed.
  Lemma conn_in_r E v w : conn E v w -> In w nodes.
  Proof. induction 1; auto. Qed.

  Lemma conn_trans E a b c : conn E a b -> conn E b c -> conn E a c.
  Proof.
    intros H1 H2. induction H2 as [v Hv|v w x Hvw IH Hx Ha]; [exact H1|].
    eapply conn_step; [apply IH; exact H1|exact Hx|exact Ha].
  Qed.

  Lemma conn_edge E a b : In a nodes -> In b nodes -> adj E a b -> conn E a b.
  Proof. intros. eapply conn_step; [apply conn_refl|..]; eauto. Qed.

  Lemma conn_sym E a b : conn E a b -> conn E b a.
  Proof.
    induction 1 as [v Hv|v w x Hvw IH Hx Ha]; [now constructor|].
    eapply conn_trans; [|exact IH].
    apply conn_edge; auto using adj_sym. eapply conn_in_r; eauto.
  Qed.

  Lemma conn_mono E E' v w :
    (forall a b, adj E a b -> adj E' a b) -> conn E v w -> conn E' v w.
  Proof.
    intros H. induction 1; [now constructor|]. eapply conn_step; eauto.
  Qed.

  (* robustness: only the symmetric edge *set* matters (duplicates, reversed copies) *)
  Lemma conn_ext E E' v w :
    (forall a b, adj E a b <-> adj E' a b) -> (conn E v w <-> conn E' v w).
  Proof. intros H; split; apply conn_mono; intros a b; apply H. Qed.

  (* robustness: self loops in either edge list are irrelevant as well *)
  Lemma conn_mono_offdiag E E' v w :
    (forall a b, a <> b -> adj E a b -> adj E' a b) -> conn E v w -> conn E' v w.
  Proof.
    intros H. induction 1 as [v Hv|v w x C IH Hx Ha]; [now constructor|].
    destruct (Z.eq_dec w x) as [<-|Hne]; [exact IH|]. eapply conn_step; eauto.
  Qed.

  Lemma conn_ext_offdiag E E' v w :
    (forall a b, a <> b -> (adj E a b <-> adj E' a b)) -> (conn E v w <-> conn E' v w).
  Proof. intros H; split; apply conn_mono_offdiag; intros a b Hne; apply H, Hne. Qed.

  (* adding one edge between two nodes *)
  Lemma conn_cons E a b v w :
    In a nodes -> In b nodes ->
    (conn ((a, b) :: E) v w <->
     conn E v w \/ (conn E v a /\ conn E b w) \/ (conn E v b /\ conn E a w)).
  Proof.
    intros Ha Hb. split.
    - induction 1 as [v Hv|v w x Hvw IH Hx Hadj].
      + left; now constructor.
      + assert (Hxx : conn E x x) by now constructor.
        destruct Hadj as [[Heq|Hin]|[Heq|Hin]].
        * injection Heq as <- <-. destruct IH as [IH|[[H1 H2]|[H1 H2]]].
          -- right; left; split; [exact IH|now constructor].
          -- right; left; split; [exact H1|now constructor].
          -- left. exact H1.
        * assert (A : adj E w x) by (left; exact Hin).
          destruct IH as [IH|[[H1 H2]|[H1 H2]]].
          -- left. eapply conn_step; eauto.
          -- right; left; split; [exact H1|eapply conn_step; eauto].
          -- right; right; split; [exact H1|eapply conn_step; eauto].
        * injection Heq as <- <-. destruct IH as [IH|[[H1 H2]|[H1 H2]]].
          -- right; right; split; [exact IH|now constructor].
          -- left. exact H1.
          -- right; right; split; [exact H1|now constructor].
        * assert (A : adj E w x) by (right; exact Hin).
          destruct IH as [IH|[[H1 H2]|[H1 H2]]].
          -- left. eapply conn_step; eauto.
          -- right; left; split; [exact H1|eapply conn_step; eauto].
          -- right; right; split; [exact H1|eapply conn_step; eauto].
    - assert (M : forall x y, conn E x y -> conn ((a, b) :: E) x y).
      { intros x y. apply conn_mono. intros p q [H|H]; [left|right]; now right. }
      assert (AB : conn ((a, b) :: E) a b).
      { apply conn_edge; auto. left; now left. }
      intros [H|[[H1 H2]|[H1 H2]]].
      + now apply M.
      + eapply conn_trans; [apply M, H1|]. eapply conn_trans; [exact AB|apply M, H2].
      + eapply conn_trans; [apply M, H1|]. eapply conn_trans; [apply conn_sym, AB|apply M, H2].
  Qed.

  (* an edge with an endpoint outside the node table is never usable *)
  Lemma conn_cons_skip E a b v w :
    ~ (In a nodes /\ In b nodes) -> (conn ((a, b) :: E) v w <-> conn E v w).
  Proof.
    intros Hn. split.
    - induction 1 as [v Hv|v w x Hvw IH Hx Hadj]; [now constructor|].
      pose proof (conn_in_r _ _ _ IH) as Hw.
      destruct Hadj as [[Heq|Hin]|[Heq|Hin]].
      + injection Heq as <- <-. tauto.
      + eapply conn_step; eauto. now left.
      + injection Heq as <- <-. tauto.
      + eapply conn_step; eauto. now right.
    - apply conn_mono. intros p q [H|H]; [left|right]; now right.
  Qed.

  (* robustness: a self loop changes nothing *)
  Lemma conn_self_loop E a v w : conn ((a, a) :: E) v w <-> conn E v w.
  Proof.
    destruct (in_dec Z.eq_dec a nodes) as [Ha|Ha].
    - rewrite conn_cons by assumption. split; [|tauto].
      intros [H|[[H1 H2]|[H1 H2]]]; [exact H|eapply conn_trans; eauto..].
    - apply conn_cons_skip. tauto.
  Qed.

  (* ---------------------------------------------------------------------------------- *)
  (* component minimum as a relation *)
  Definition is_comp_min (E : list (Z * Z)) (v m : Z) : Prop :=
    conn E v m /\ forall w, conn E v w -> m <= w.

  Lemma is_comp_min_unique E v m m' : is_comp_min E v m -> is_comp_min E v m' -> m = m'.
  Proof. intros [C1 L1] [C2 L2]. specialize (L1 _ C2). specialize (L2 _ C1). lia. Qed.

  Lemma is_comp_min_conn E v w m m' :
    conn E v w -> is_comp_min E v m -> is_comp_min E w m' -> m = m'.
  Proof.
    intros C [C1 L1] [C2 L2].
    assert (m <= m') by (apply L1; eapply conn_trans; [exact C|exact C2]).
    assert (m' <= m) by (apply L2; eapply conn_trans; [apply conn_sym; exact C|exact C1]).
    lia.
  Qed.

  Lemma is_comp_min_same_conn E v w m :
    is_comp_min E v m -> is_comp_min E w m -> conn E v w.
  Proof. intros [C1 _] [C2 _]. eapply conn_trans; [exact C1|apply conn_sym, C2]. Qed.

  Lemma is_comp_min_le_self E v m : is_comp_min E v m -> m <= v.
  Proof. intros [C L]. apply L. constructor. eapply conn_in_l; eauto. Qed.

  (* ---------------------------------------------------------------------------------- *)
  (* executable component labels: start with label v for v, then for every edge merge the
     two label classes into the smaller label.  O(|E| * |nodes|). *)
  Definition relabel (la lb : Z) (l : list (Z * Z)) : list (Z * Z) :=
    let m := Z.min la lb in
    map (fun vx => (fst vx, if (snd vx =? la) || (snd vx =? lb) then m else snd vx)) l.

  Definition merge (e : Z * Z) (l : list (Z * Z)) : list (Z * Z) :=
    match lookup (fst e) l, lookup (snd e) l with
    | Some la, Some lb => if la =? lb then l else relabel la lb l
    | _, _ => l
    end.

  Definition comp_labels (E : list (Z * Z)) : list (Z * Z) :=
    fold_right merge (map (fun v => (v, v)) nodes) E.

  Definition comp_min (E : list (Z * Z)) (v : Z) : Z :=
    match lookup v (comp_labels E) with Some m => m | None => v end.

  Lemma relabel_keys la lb l : map fst (relabel la lb l) = map fst l.
  Proof. unfold relabel. rewrite map_map. reflexivity. Qed.

  Lemma comp_labels_keys E : map fst (comp_labels E) = nodes.
  Proof.
    induction E as [|e E IH]; cbn.
    - rewrite map_map. cbn. apply map_id.
    - fold (comp_labels E). unfold merge.
      destruct (lookup (fst e) (comp_labels E)), (lookup (snd e) (comp_labels E)); auto.
      destruct (_ =? _); auto. now rewrite relabel_keys.
  Qed.

  Lemma comp_labels_ok E v x : In (v, x) (comp_labels E) -> is_comp_min E v x.
  Proof.
    revert v x. induction E as [|[a b] E IH]; intros v x H.
    - cbn in H. apply in_map_iff in H. destruct H as [u [Hu Hin]]. injection Hu as <- <-.
      split; [now constructor|]. intros w C.
      assert (forall p q, conn [] p q -> p = q) as Hnil.
      { induction 1 as [|? ? ? ? ? ? [[]|[]]]; auto. }
      rewrite (Hnil _ _ C). lia.
    - cbn [comp_labels fold_right] in H. fold (comp_labels E) in H. unfold merge in H. cbn [fst snd] in H.
      destruct (lookup a (comp_labels E)) as [la|] eqn:La.
      2:{ assert (~ In a nodes).
          { intros Ha. rewrite <- (comp_labels_keys E) in Ha. apply lookup_some in Ha. destruct Ha; congruence. }
          specialize (IH _ _ H). destruct IH as [C L]. split.
          - apply conn_cons_skip; tauto.
          - intros w Cw. apply L. apply conn_cons_skip in Cw; tauto. }
      destruct (lookup b (comp_labels E)) as [lb|] eqn:Lb.
      2:{ assert (~ In b nodes).
          { intros Hb. rewrite <- (comp_labels_keys E) in Hb. apply lookup_some in Hb. destruct Hb; congruence. }
          specialize (IH _ _ H). destruct IH as [C L]. split.
          - apply conn_cons_skip; tauto.
          - intros w Cw. apply L. apply conn_cons_skip in Cw; tauto. }
      pose proof (IH _ _ (lookup_in _ _ _ La)) as Ma.
      pose proof (IH _ _ (lookup_in _ _ _ Lb)) as Mb.
      assert (Ha : In a nodes) by (eapply conn_in_l; apply Ma).
      assert (Hb : In b nodes) by (eapply conn_in_l; apply Mb).
      assert (Hx : exists x0, In (v, x0) (comp_labels E) /\
                  x = if (la =? lb) then x0 else if (x0 =? la) || (x0 =? lb) then Z.min la lb else x0).
      { destruct (la =? lb); [eauto|]. unfold relabel in H. apply in_map_iff in H.
        destruct H as [[v0 x0] [Heq Hin]]. cbn in Heq. injection Heq as <- <-. eauto. }
      clear H. destruct Hx as [x0 [Hin ->]]. pose proof (IH _ _ Hin) as Mv.
      destruct Ma as [Ca La'], Mb as [Cb Lb'], Mv as [Cv Lv].
      assert (Mv : is_comp_min E v x0) by (split; assumption).
      assert (Ma : is_comp_min E a la) by (split; assumption).
      assert (Mb : is_comp_min E b lb) by (split; assumption).
      assert (CASE : (x0 = la \/ x0 = lb) \/ (x0 <> la /\ x0 <> lb)) by lia.
      destruct CASE as [Hm|[N1 N2]].
      + (* v is in the component of a or of b: new component is the union *)
        assert (Cab : conn E v a \/ conn E v b).
        { destruct Hm; subst x0; [left|right]; eapply is_comp_min_same_conn; eauto. }
        assert (Res : is_comp_min ((a, b) :: E) v (Z.min la lb)).
        { split.
          - apply conn_cons; auto.
            destruct (Z.min_spec la lb) as [[_ ->]|[_ ->]]; destruct Cab as [Cva|Cvb].
            + left. eapply conn_trans; eauto.
            + right; right. split; auto.
            + right; left. split; auto.
            + left. eapply conn_trans; eauto.
          - intros w Cw. apply conn_cons in Cw; auto.
            assert (la <= w \/ lb <= w); [|lia].
            destruct Cab as [Cva|Cvb]; destruct Cw as [Cw|[[H1 H2]|[H1 H2]]].
            + left. apply La'. eapply conn_trans; [apply conn_sym, Cva|exact Cw].
            + right. now apply Lb'.
            + left. now apply La'.
            + right. apply Lb'. eapply conn_trans; [apply conn_sym, Cvb|exact Cw].
            + right. now apply Lb'.
            + left. now apply La'. }
        destruct (Z.eqb_spec la lb) as [Heq|Hne].
        * subst lb. rewrite Z.min_id in Res. destruct Hm; subst x0; exact Res.
        * destruct Hm; subst x0; rewrite ?Z.eqb_refl, ?orb_true_r; cbn [orb]; exact Res.
      + (* v is connected to neither endpoint: its component is unchanged *)
        assert (Na : ~ conn E v a).
        { intros C. apply N1. eapply is_comp_min_conn; eauto. }
        assert (Nb : ~ conn E v b).
        { intros C. apply N2. eapply is_comp_min_conn; eauto. }
        assert (Res : is_comp_min ((a, b) :: E) v x0).
        { split.
          - apply conn_cons; auto.
          - intros w Cw. apply conn_cons in Cw; auto. apply Lv. tauto. }
        destruct (la =? lb); [exact Res|].
        destruct (Z.eqb_spec x0 la); [contradiction|]. destruct (Z.eqb_spec x0 lb); [contradiction|].
        exact Res.
  Qed.

  Theorem comp_min_spec E v : In v nodes -> is_comp_min E v (comp_min E v).
  Proof.
    intros Hv. unfold comp_min.
    assert (H : In v (map fst (comp_labels E))) by now rewrite comp_labels_keys.
    apply lookup_some in H. destruct H as [x Hx]. rewrite Hx.
    apply comp_labels_ok. now apply lookup_in.
  Qed.

  Theorem comp_min_eq_iff_conn E v w :
    In v nodes -> In w nodes -> (comp_min E v = comp_min E w <-> conn E v w).
  Proof.
    intros Hv Hw. pose proof (comp_min_spec E v Hv) as Mv. pose proof (comp_min_spec E w Hw) as Mw.
    split.
    - intros Heq. rewrite Heq in Mv. eapply is_comp_min_same_conn; eauto.
    - intros C. eapply is_comp_min_conn; eauto.
  Qed.

  Lemma comp_min_unique E v m : In v nodes -> is_comp_min E v m -> m = comp_min E v.
  Proof. intros Hv M. eapply is_comp_min_unique; [exact M|now apply comp_min_spec]. Qed.

  Lemma comp_min_in_nodes E v : In v nodes -> In (comp_min E v) nodes.
  Proof. intros Hv. destruct (comp_min_spec E v Hv) as [C _]. eapply conn_in_r; eauto. Qed.

  Lemma comp_min_le E v : In v nodes -> comp_min E v <= v.
  Proof. intros Hv. eapply is_comp_min_le_self. now apply comp_min_spec. Qed.

  Lemma comp_min_idem E v : In v nodes -> comp_min E (comp_min E v) = comp_min E v.
  Proof.
    intros Hv. pose proof (comp_min_spec E v Hv) as [C L].
    pose proof (comp_min_in_nodes E v Hv) as Hm.
    pose proof (comp_min_le E _ Hm).
    assert (comp_min E v = comp_min E (comp_min E v)) by (apply comp_min_eq_iff_conn; auto).
    lia.
  Qed.

  (* spec-level robustness: comp_min depends only on the symmetric edge set *)
  Lemma comp_min_ext E E' v :
    In v nodes -> (forall a b, adj E a b <-> adj E' a b) -> comp_min E v = comp_min E' v.
  Proof.
    intros Hv H. apply comp_min_unique; auto.
    destruct (comp_min_spec E v Hv) as [C L]. split.
    - now apply (conn_ext E E').
    - intros w Cw. apply L. now apply (conn_ext E E').
  Qed.
  Lemma comp_min_ext_offdiag E E' v :
    In v nodes -> (forall a b, a <> b -> (adj E a b <-> adj E' a b)) -> comp_min E v = comp_min E' v.
  Proof.
    intros Hv H. apply comp_min_unique; auto.
    destruct (comp_min_spec E v Hv) as [C L]. split.
    - now apply (conn_ext_offdiag E E').
    - intros w Cw. apply L. now apply (conn_ext_offdiag E E').
  Qed.
End Conn.

Arguments conn_refl {nodes E}.
Arguments conn_step {nodes E}.

(* connectivity is monotone in the node table and in the (symmetric) edge set *)
Lemma conn_mono_nodes nodes nodes' E E' v w :
  (forall x, In x nodes -> In x nodes') -> (forall a b, adj E a b -> adj E' a b) ->
  conn nodes E v w -> conn nodes' E' v w.
Proof.
  intros Hn He. induction 1 as [v Hv|v w x C IH Hx Ha]; [constructor; auto|].
  eapply conn_step; eauto.
Qed.

(* ------------------------------------------------------------------------------------ *)
(* Re-presentation: relabelling of node ids, permutation of rows *)
Definition map_edges (f : Z -> Z) (E : list (Z * Z)) : list (Z * Z) :=
  map (fun e => (f (fst e), f (snd e))) E.

Lemma map_edges_in f E a b : In (a, b) E -> In (f a, f b) (map_edges f E).
Proof. intros H. unfold map_edges. apply in_map_iff. exists (a, b). auto. Qed.

Lemma adj_map f E a b : adj E a b -> adj (map_edges f E) (f a) (f b).
Proof. intros [H|H]; [left|right]; now apply map_edges_in. Qed.

Lemma adj_map_inv f E a b :
  (forall x y, f x = f y -> x = y) -> adj (map_edges f E) (f a) (f b) -> adj E a b.
Proof.
  intros Inj [H|H]; unfold map_edges in H; apply in_map_iff in H; destruct H as [[x y] [Eq Hin]];
    cbn in Eq; injection Eq as E1 E2; apply Inj in E1; apply Inj in E2; subst; [left|right]; exact Hin.
Qed.

(* any relabelling maps paths to paths *)
Lemma conn_map f nodes E v w :
  conn nodes E v w -> conn (map f nodes) (map_edges f E) (f v) (f w).
Proof.
  induction 1 as [v Hv|v w x C IH Hx Ha]; [constructor; now apply in_map|].
  eapply conn_step; [exact IH|now apply in_map|now apply adj_map].
Qed.

(* an injective relabelling creates no new paths *)
Lemma conn_map_inv f nodes E v' w' :
  (forall x y, f x = f y -> x = y) ->
  conn (map f nodes) (map_edges f E) v' w' ->
  forall v, v' = f v -> exists w, w' = f w /\ conn nodes E v w.
Proof.
  intros Inj. induction 1 as [v' Hv'|v' w' x' C IH Hx Ha]; intros v Ev.
  - exists v. split; [exact Ev|]. constructor. subst v'. apply in_map_iff in Hv'.
    destruct Hv' as [u [Eu Hu]]. apply Inj in Eu. now subst.
  - destruct (IH v Ev) as [w [Ew Cw]]. apply in_map_iff in Hx. destruct Hx as [x [Ex Hx]]. subst x' w'.
    exists x. split; [reflexivity|]. eapply conn_step; [exact Cw|exact Hx|]. eapply adj_map_inv; eauto.
Qed.

Lemma conn_map_iff f nodes E v w :
  (forall x y, f x = f y -> x = y) ->
  (conn (map f nodes) (map_edges f E) (f v) (f w) <-> conn nodes E v w).
Proof.
  intros Inj. split; [|apply conn_map]. intros C.
  destruct (conn_map_inv f nodes E _ _ Inj C v eq_refl) as [w0 [Ew Cw]]. apply Inj in Ew. now subst.
Qed.

(* the partition (same-component relation) is invariant under every injective relabelling *)
Theorem comp_min_relabel_partition f nodes E v w :
  (forall x y, f x = f y -> x = y) -> In v nodes -> In w nodes ->
  (comp_min (map f nodes) (map_edges f E) (f v) = comp_min (map f nodes) (map_edges f E) (f w) <->
   comp_min nodes E v = comp_min nodes E w).
Proof.
  intros Inj Hv Hw. rewrite !comp_min_eq_iff_conn by (auto using in_map). now apply conn_map_iff.
Qed.

(* a strictly order-preserving relabelling maps component minima to component minima *)
Theorem comp_min_relabel_monotone f nodes E v :
  (forall x y, x < y -> f x < f y) -> In v nodes ->
  comp_min (map f nodes) (map_edges f E) (f v) = f (comp_min nodes E v).
Proof.
  intros Mono Hv.
  assert (Inj : forall x y, f x = f y -> x = y).
  { intros x y Exy. destruct (Z.lt_trichotomy x y) as [H|[H|H]]; [apply Mono in H; lia|exact H|apply Mono in H; lia]. }
  assert (MonoLe : forall x y, x <= y -> f x <= f y).
  { intros x y H. destruct (Z.eq_dec x y) as [->|Hne]; [lia|]. assert (x < y) by lia. apply Mono in H0. lia. }
  symmetry. apply comp_min_unique; [now apply in_map|].
  destruct (comp_min_spec nodes E v Hv) as [C L]. split.
  - now apply conn_map.
  - intros w' Cw. destruct (conn_map_inv f nodes E _ _ Inj Cw v eq_refl) as [w [-> Cvw]].
    apply MonoLe. now apply L.
Qed.

(* the order of the rows of the node table and of the edge table is irrelevant *)
Theorem comp_min_rows_irrelevant nodes nodes2 E E2 v :
  (forall x, In x nodes <-> In x nodes2) -> (forall e, In e E <-> In e E2) -> In v nodes ->
  comp_min nodes E v = comp_min nodes2 E2 v.
Proof.
  intros Hn He Hv. apply comp_min_unique; [now apply Hn|].
  assert (A12 : forall a b, adj E a b -> adj E2 a b) by (intros a b [H|H]; [left|right]; now apply He).
  assert (A21 : forall a b, adj E2 a b -> adj E a b) by (intros a b [H|H]; [left|right]; now apply He).
  destruct (comp_min_spec nodes E v Hv) as [C L]. split.
  - eapply conn_mono_nodes; [| |exact C]; [intros; now apply Hn|exact A12].
  - intros w Cw. apply L. eapply conn_mono_nodes; [| |exact Cw]; [intros; now apply Hn|exact A21].
Qed.
