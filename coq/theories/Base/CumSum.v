(* Ordered window sums over a list that is already sorted ascending by key.

     cum_asc  f l   running sum of f down the list         = sum(f) over (order by k)
     cum_desc f l   running sum of f up the list from the end = sum(f) over (order by k desc)
                    (both reported in the row order of l)
     frames l       every row with the rows before and after it in sort order; a model builds
                    one output record per frame:  sum_by f (pre ++ [x]) is the ascending window
                    value of row x and sum_by f (x :: post) the descending one (frames_cum_asc,
                    frames_cum_desc prove that these ARE the running sums).

   Main lemmas (l strictly ascending by key, i.e. the output of a GROUP BY - no peers):
     frame_asc_is_filter    window value asc  of row x = sum_by f over the rows with key <= key x
     frame_desc_is_filter   window value desc of row x = sum_by f over the rows with key >= key x
   Definitions first, lemmas after. *)
From Coq Require Import List Bool ZArith Lia Sorting.Sorted.
From Splinkv Require Import Base.GroupBy.
Import ListNotations.
Local Open Scope Z_scope.

Section CumSum.
  Context {R K : Type}.
  Variable key : R -> K.
  Variable leb : K -> K -> bool.

  Fixpoint run_sum (f : R -> Z) (acc : Z) (l : list R) : list Z :=
    match l with
    | [] => []
    | x :: t => (acc + f x) :: run_sum f (acc + f x) t
    end.
  Definition cum_asc (f : R -> Z) (l : list R) : list Z := run_sum f 0 l.
  Definition cum_desc (f : R -> Z) (l : list R) : list Z := rev (run_sum f 0 (rev l)).

  Fixpoint frames_aux (pre l : list R) : list (list R * R * list R) :=
    match l with
    | [] => []
    | x :: t => (pre, x, t) :: frames_aux (pre ++ [x]) t
    end.
  Definition frames (l : list R) := frames_aux [] l.

  (* ------------------------------------------------------------------ lemmas *)
  Lemma frames_aux_spec pre l a x b :
    In (a, x, b) (frames_aux pre l) -> pre ++ l = a ++ x :: b.
  Proof using.
    revert pre. induction l as [|y t IH]; intros pre H; cbn [frames_aux In] in H.
    - destruct H.
    - destruct H as [H|H].
      + injection H as Ha Hx Hb. rewrite Ha, Hx, Hb. reflexivity.
      + apply IH in H. rewrite <- H, <- app_assoc. reflexivity.
  Qed.
  Lemma frames_spec l a x b : In (a, x, b) (frames l) -> l = a ++ x :: b.
  Proof using. intros H. exact (frames_aux_spec [] l a x b H). Qed.

  Lemma frames_aux_rows pre l : map (fun fr => snd (fst fr)) (frames_aux pre l) = l.
  Proof. revert pre. induction l as [|y t IH]; intros pre; cbn; [reflexivity|]. rewrite IH. reflexivity. Qed.
  Lemma frames_rows l : map (fun fr => snd (fst fr)) (frames l) = l.
  Proof. apply frames_aux_rows. Qed.

  Lemma frames_aux_complete pre l a x b :
    l = a ++ x :: b -> In (pre ++ a, x, b) (frames_aux pre l).
  Proof.
    revert pre l. induction a as [|y a IH]; intros pre l ->; cbn.
    - left. rewrite app_nil_r. reflexivity.
    - right. specialize (IH (pre ++ [y]) (a ++ x :: b) eq_refl).
      rewrite <- app_assoc in IH. exact IH.
  Qed.
  Lemma frames_complete l x : In x l -> exists a b, In (a, x, b) (frames l).
  Proof.
    intros H. apply in_split in H. destruct H as (a & b & ->). exists a, b.
    apply (frames_aux_complete [] _ a x b eq_refl).
  Qed.

  Lemma run_sum_frames f acc pre l :
    acc = sum_by f pre ->
    run_sum f acc l = map (fun fr => sum_by f (fst (fst fr) ++ [snd (fst fr)])) (frames_aux pre l).
  Proof.
    revert acc pre. induction l as [|y t IH]; intros acc pre Hacc; cbn [run_sum frames_aux map fst snd]; [reflexivity|].
    rewrite sum_by_app, <- Hacc. f_equal.
    - cbn. lia.
    - apply IH. rewrite sum_by_app, <- Hacc. cbn. lia.
  Qed.
  Lemma frames_cum_asc f l :
    cum_asc f l = map (fun fr => sum_by f (fst (fst fr) ++ [snd (fst fr)])) (frames l).
  Proof. apply run_sum_frames. reflexivity. Qed.

  Lemma run_sum_app f acc l x :
    run_sum f acc (l ++ [x]) = run_sum f acc l ++ [acc + sum_by f l + f x].
  Proof.
    revert acc. induction l as [|y t IH]; intros acc; cbn [run_sum app].
    - f_equal. cbn. lia.
    - rewrite IH. f_equal. f_equal. f_equal. rewrite sum_by_cons. lia.
  Qed.
  Lemma sum_by_rev f (l : list R) : sum_by f (rev l) = sum_by f l.
  Proof.
    induction l as [|y t IH]; [reflexivity|]. cbn [rev]. rewrite sum_by_app, IH, !sum_by_cons.
    change (sum_by f []) with 0. lia.
  Qed.
  Lemma cum_desc_cons f x l : cum_desc f (x :: l) = (f x + sum_by f l) :: cum_desc f l.
  Proof.
    unfold cum_desc. cbn [rev]. rewrite run_sum_app, rev_app_distr. cbn [rev app].
    rewrite sum_by_rev. f_equal. lia.
  Qed.
  Lemma frames_aux_cum_desc f pre l :
    cum_desc f l = map (fun fr => sum_by f (snd (fst fr) :: snd fr)) (frames_aux pre l).
  Proof.
    revert pre. induction l as [|y t IH]; intros pre; [reflexivity|].
    rewrite cum_desc_cons. cbn [frames_aux map]. f_equal. apply IH.
  Qed.
  Lemma frames_cum_desc f l :
    cum_desc f l = map (fun fr => sum_by f (snd (fst fr) :: snd fr)) (frames l).
  Proof. apply frames_aux_cum_desc. Qed.

  Hypothesis leb_total : forall a b, leb a b = true \/ leb b a = true.
  Hypothesis leb_trans : forall a b c, leb a b = true -> leb b c = true -> leb a c = true.

  Definition SortedR (l : list R) : Prop :=
    StronglySorted (fun a b => ltk leb (key a) (key b) = true) l.

  Lemma SortedR_app_inv a x b :
    SortedR (a ++ x :: b) ->
    (forall y, In y a -> ltk leb (key y) (key x) = true) /\
    (forall y, In y b -> ltk leb (key x) (key y) = true).
  Proof.
    induction a as [|z a IH]; cbn; intros H; inversion H as [|? ? Hs Hf]; subst.
    - split; [intros ? []|]. rewrite Forall_forall in Hf. exact Hf.
    - destruct (IH Hs) as [H1 H2]. split; [|exact H2]. intros y [<-|Hy]; [|apply H1; exact Hy].
      rewrite Forall_forall in Hf. apply Hf. apply in_or_app. right. left. reflexivity.
  Qed.

  Lemma filter_all (p : R -> bool) l : (forall y, In y l -> p y = true) -> filter p l = l.
  Proof.
    induction l as [|y t IH]; intros H; [reflexivity|]. cbn. rewrite (H y) by (left; reflexivity).
    rewrite IH; [reflexivity|]. intros z Hz. apply H. right. exact Hz.
  Qed.
  Lemma filter_none (p : R -> bool) l : (forall y, In y l -> p y = false) -> filter p l = [].
  Proof.
    induction l as [|y t IH]; intros H; [reflexivity|]. cbn. rewrite (H y) by (left; reflexivity).
    apply IH. intros z Hz. apply H. right. exact Hz.
  Qed.

  Lemma frame_asc_is_filter f l a x b :
    SortedR l -> In (a, x, b) (frames l) ->
    sum_by f (a ++ [x]) = sum_by f (filter (fun y => leb (key y) (key x)) l).
  Proof.
    intros Hs Hin. apply frames_spec in Hin. subst l. destruct (SortedR_app_inv _ _ _ Hs) as [Ha Hb].
    rewrite filter_app. cbn [filter]. rewrite (leb_refl leb leb_total).
    rewrite (filter_all _ a), (filter_none _ b).
    - rewrite !sum_by_app. reflexivity.
    - intros y Hy. apply (ltk_not_leb leb). apply Hb. exact Hy.
    - intros y Hy. apply (ltk_leb leb). apply Ha. exact Hy.
  Qed.

  Lemma frame_desc_is_filter f l a x b :
    SortedR l -> In (a, x, b) (frames l) ->
    sum_by f (x :: b) = sum_by f (filter (fun y => leb (key x) (key y)) l).
  Proof.
    intros Hs Hin. apply frames_spec in Hin. subst l. destruct (SortedR_app_inv _ _ _ Hs) as [Ha Hb].
    rewrite filter_app. cbn [filter]. rewrite (leb_refl leb leb_total).
    rewrite (filter_none _ a), (filter_all _ b).
    - reflexivity.
    - intros y Hy. apply (ltk_leb leb). apply Hb. exact Hy.
    - intros y Hy. apply (ltk_not_leb leb). apply Ha. exact Hy.
  Qed.

  (* strictly-below variant: window value asc minus the row's own contribution *)
  Lemma frame_below_is_filter f l a x b :
    SortedR l -> In (a, x, b) (frames l) ->
    sum_by f a = sum_by f (filter (fun y => negb (leb (key x) (key y))) l).
  Proof.
    intros Hs Hin. apply frames_spec in Hin. subst l. destruct (SortedR_app_inv _ _ _ Hs) as [Ha Hb].
    rewrite filter_app. cbn [filter]. rewrite (leb_refl leb leb_total). cbn [negb].
    rewrite (filter_all _ a), (filter_none _ b).
    - rewrite app_nil_r. reflexivity.
    - intros y Hy. rewrite (ltk_leb leb _ _ (Hb y Hy)). reflexivity.
    - intros y Hy. rewrite (ltk_not_leb leb _ _ (Ha y Hy)). reflexivity.
  Qed.
End CumSum.

Arguments SortedR {R K} key leb l.
