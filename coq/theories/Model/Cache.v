(* Cache.v - executable model of Splink's table cache (C07) and of the physical catalog it
   writes to (shared with C18, Model/Catalog.v).  Definitions only.

   What is modelled (splink/internals/database_api.py, cache_dict_with_logging.py,
   vertically_concatenate.py, term_frequencies.py, linker_components/*.py):

   * provenance terms [prov] stand for table contents: two tables with the same provenance
     hold the same rows (Input / Lookup / Records are the data handed in by the caller,
     [PDerived templ params children] is the result of the SQL called templ with the model
     parameters params over the children);
   * an SQL pipeline is a tree [sqlt]: [Leaf l] reads a registered table by its physical name,
     [Mat t] reads the materialised table that the pipeline t created (its physical name is
     templ_<sha256(sql + uid)>), [Cte n p ch] is a CTE;
   * the hash is a Section variable [hash : sqlt -> nat -> K]; its injectivity is a Section
     hypothesis of the proofs (Proofs/CacheP.v), nothing else is assumed about it;
   * [exec_pipeline] is the decision sequence of sql_to_splink_dataframe_checking_cache /
     _get_table_from_cache_or_db: named entry, hashed key, table exists in database, else
     DROP IF EXISTS + CREATE and insert into the cache; debug mode creates one physical
     table per CTE under its *templated* name and then clears the cache;
   * public operations are straight-line programs over a register file of table handles
     ([prog_of_op]); X (harness/c07.py) compares executed names, cache hits and the cache
     content after every operation of a real Linker with this model. *)
From Coq Require Import List Bool Arith String.
Import ListNotations.
Open Scope string_scope.
Open Scope list_scope.

(* ------------------------------------------------------------------ provenance, SQL trees *)
Inductive prov :=
| PInput (name : string) (ver : nat)
| PLookup (col : string) (ver : nat)
| PRecords (u : nat)
| PMissing
| PDerived (templ : string) (params : nat) (ch : list prov).

Inductive lname := LPlain (s : string) | LUid (s : string) (u : nat).

Inductive sqlt :=
| Leaf (l : lname)
| Mat (t : sqlt)
| Cte (name : string) (params : nat) (ch : list sqlt).

Definition lbase (l : lname) : string := match l with LPlain s => s | LUid s _ => s end.

Fixpoint name_of (t : sqlt) : string :=
  match t with Leaf l => lbase l | Mat t' => name_of t' | Cte n _ _ => n end.

Definition lname_eqb (a b : lname) : bool :=
  match a, b with
  | LPlain s, LPlain s' => String.eqb s s'
  | LUid s u, LUid s' u' => String.eqb s s' && Nat.eqb u u'
  | _, _ => false
  end.

Fixpoint sqlt_eqb (a b : sqlt) : bool :=
  match a, b with
  | Leaf l, Leaf l' => lname_eqb l l'
  | Mat t, Mat t' => sqlt_eqb t t'
  | Cte n p ch, Cte n' p' ch' =>
      String.eqb n n' && Nat.eqb p p' &&
      (fix go (x y : list sqlt) : bool :=
         match x, y with
         | [], [] => true
         | a :: x', b :: y' => sqlt_eqb a b && go x' y'
         | _, _ => false
         end) ch ch'
  | _, _ => false
  end.

(* templated names used by the code *)
Definition CONCAT := "__splink__df_concat".
Definition CWTF := "__splink__df_concat_with_tf".
Definition tfname (c : string) : string := String.append "__splink__df_tf_" c.
Definition BLOCKED := "__splink__blocked_id_pairs".
Definition PREDICT := "__splink__df_predict".
Definition CVV := "__splink__df_comparison_vectors".
Definition MWP := "__splink__df_match_weight_parts".
Definition COUNTC := "__splink__df_concat_count".
Definition SAMPLE := "__splink__df_concat_sample".
Definition TOTAL := "__splink__total_of_block_counts".
Definition DFCOUNT := "__splink__df_count".
Definition CUM := "__splink__df_count_cumulative_blocks".
Definition NEWREC := "__splink__df_new_records".
Definition FMP := "__splink__find_matches_predictions".
Definition C2L := "__splink__compare_two_records_left".
Definition C2R := "__splink__compare_two_records_right".
Definition FBBR := "__splink__found_by_blocking_rules".
Definition NODES := "__splink__df_nodes_with_composite_ids".
Definition EDGES := "__splink__df_edges_from_predict".
Definition CCFINAL := "__splink__clustering_output_final".
Definition CLUSTERED := "__splink__df_clustered_with_input_data".
Definition CART := "__splink__cartesian_product".
Definition TST := "__splink__truth_space_table".
Definition PFLC := "__splink__predictions_from_label_column_fp_fn_only".
Definition FPFN := "__splink__labels_with_fp_fn_status".
Definition LABELS := "__splink__df_labels".
Definition MU := "__splink__m_u_counts".
Definition SELFLINK := "__splink__df_self_link".
Definition UNLINK := "__splink__df_unlinkables_proportions_cumulative".
Definition FREQ := "__splink__df_all_column_value_frequencies".
Definition PCT := "__splink__df_percentiles".
Definition TOPN := "__splink__df_top_n".
Definition BOTN := "__splink__df_bottom_n".
Definition COMPL := "__splink__df_all_column_completeness_renames".
Definition POSTF := "__splink__comparions_post_filter".
Definition BLOCKCOUNTS := "__splink__block_counts".
Definition CAAT := "__splink__clusters_at_all_thresholds".
Definition GMN := "__splink__graph_metrics_nodes".
Definition NIM := "__splink__nodes_integer_mapping".
Definition TRUNC := "__splink__truncated_edges".
Definition EWM := "__splink__edges_with_mapped_ids".
Definition BRIDGES := "__splink__bridges".
Definition GME := "__splink__graph_metrics_edges".
Definition GMC := "__splink__graph_metrics_clusters".
Definition NODESTF := "nodes_tf__".     (* (select distinct col, tf_col from __splink__df_concat_with_tf) as nodes_tf__i *)

(* "select * from __splink__df_concat_with_tf" read under the name __splink__df_concat
   (enqueue_df_concat) has the rows and columns of __splink__df_concat: the left joins onto
   term-frequency tables with unique keys add columns only.  This is the one semantic
   identification the model makes; it is listed in the trusted base. *)
Definition derive (n : string) (p : nat) (ch : list prov) : prov :=
  if String.eqb n CONCAT then
    match ch with
    | [PDerived n' _ (c :: _)] => if String.eqb n' CWTF then c else PDerived n p ch
    | _ => PDerived n p ch
    end
  else PDerived n p ch.

Inductive origin := User | Caller | Splink.
Definition origin_eqb (a b : origin) : bool :=
  match a, b with User, User | Caller, Caller | Splink, Splink => true | _, _ => false end.

(* which repaired variant of the code the tree implements (probed by the harness on every run) *)
Record fixes := {
  fx77 : bool;    (* register_term_frequency_lookup evicts a Splink-computed concat_with_tf *)
  fx716 : bool;   (* estimate_u computes its blocked pairs with use_cache=False *)
  fx715 : bool;   (* realtime compare_records tracks the table created on the cached-SQL path (C18) *)
  fx718 : bool;   (* register_term_frequency_lookup(overwrite=True) over an existing lookup drops the derived tables *)
  fxba : bool;    (* blocking analysis (row counts, cumulative comparisons, n_largest_blocks) runs with use_cache=False *)
  fxco : bool     (* completeness_chart runs with use_cache=False *)
}.

Inductive event :=
| Exec (templ : string)
| Hit (templ phys : string)
| Refused (what : string).

Section Hash.
  Variable K : Type.
  Variable keqb : K -> K -> bool.
  Variable hash : sqlt -> nat -> K.

  Inductive pname := PL (l : lname) | PH (s : string) (k : K).

  Definition pname_eqb (a b : pname) : bool :=
    match a, b with
    | PL l, PL l' => lname_eqb l l'
    | PH s k, PH s' k' => String.eqb s s' && keqb k k'
    | _, _ => false
    end.

  Definition pbase (p : pname) : string := match p with PL l => lbase l | PH s _ => s end.
  Definition is_hashed (p : pname) : bool := match p with PH _ _ => true | _ => false end.

  Record dbent := { e_prov : prov; e_origin : origin }.
  Record handle := { h_templ : string; h_phys : pname; h_src : sqlt; h_cbs : bool }.

  (* association lists with dictionary semantics *)
  Fixpoint aget {V : Type} (l : list (pname * V)) (k : pname) : option V :=
    match l with
    | [] => None
    | (k', v) :: r => if pname_eqb k' k then Some v else aget r k
    end.
  Definition aremove {V : Type} (l : list (pname * V)) (k : pname) : list (pname * V) :=
    filter (fun kv => negb (pname_eqb (fst kv) k)) l.
  Definition aset {V : Type} (l : list (pname * V)) (k : pname) (v : V) : list (pname * V) :=
    (k, v) :: aremove l k.
  Definition amem {V : Type} (l : list (pname * V)) (k : pname) : bool :=
    match aget l k with Some _ => true | None => false end.

  Definition db_t := list (pname * dbent).
  Definition cache_t := list (pname * handle).

  Definition content (db : db_t) (p : pname) : prov :=
    match aget db p with Some e => e_prov e | None => PMissing end.

  (* physical name under which the table of a source is found *)
  Definition phys_of (uid : nat) (t : sqlt) : pname :=
    match t with
    | Leaf l => PL l
    | Mat t' => PH (name_of t') (hash t' uid)
    | Cte n _ _ => PL (LPlain n)                 (* not a table reference; never used *)
    end.

  (* what the SQL engine computes now: references are read from the database *)
  Fixpoint eval (uid : nat) (db : db_t) (t : sqlt) : prov :=
    match t with
    | Leaf l => content db (PL l)
    | Mat t' => content db (PH (name_of t') (hash t' uid))
    | Cte n p ch => derive n p (map (eval uid db) ch)
    end.

  (* tables an SQL text reads directly *)
  Fixpoint direct_refs (uid : nat) (t : sqlt) : list pname :=
    match t with
    | Leaf l => [PL l]
    | Mat t' => [PH (name_of t') (hash t' uid)]
    | Cte _ _ ch => flat_map (direct_refs uid) ch
    end.

  (* what the SQL text means under the current registered data: every materialised
     reference stands for the recomputation of the pipeline that created it *)
  Fixpoint denote (db : db_t) (t : sqlt) : prov :=
    match t with
    | Leaf l => content db (PL l)
    | Mat t' => denote db t'
    | Cte n p ch => derive n p (map (denote db) ch)
    end.

  Record state := {
    st_db : db_t;
    st_cache : cache_t;
    st_inputs : list lname;      (* physical names of the linker's input tables *)
    st_tfcols : list string;     (* settings: columns with term-frequency adjustments *)
    st_params : nat;             (* identity of the current model parameters (literals in SQL) *)
    st_uid : nat;                (* DatabaseAPI._cache_uid, hashed into every physical name *)
    st_luid : nat;               (* settings/linker uid: names of registered lookups *)
    st_ctr : nat;                (* source of fresh ascii_uid values *)
    st_debug : bool;
    st_fix : fixes
  }.

  Definition set_db (s : state) (d : db_t) : state :=
    {| st_db := d; st_cache := st_cache s; st_inputs := st_inputs s; st_tfcols := st_tfcols s;
       st_params := st_params s; st_uid := st_uid s; st_luid := st_luid s; st_ctr := st_ctr s;
       st_debug := st_debug s; st_fix := st_fix s |}.
  Definition set_cache (s : state) (c : cache_t) : state :=
    {| st_db := st_db s; st_cache := c; st_inputs := st_inputs s; st_tfcols := st_tfcols s;
       st_params := st_params s; st_uid := st_uid s; st_luid := st_luid s; st_ctr := st_ctr s;
       st_debug := st_debug s; st_fix := st_fix s |}.
  Definition set_params (s : state) (p : nat) : state :=
    {| st_db := st_db s; st_cache := st_cache s; st_inputs := st_inputs s; st_tfcols := st_tfcols s;
       st_params := p; st_uid := st_uid s; st_luid := st_luid s; st_ctr := st_ctr s;
       st_debug := st_debug s; st_fix := st_fix s |}.
  Definition set_luid_ctr (s : state) (l c : nat) : state :=
    {| st_db := st_db s; st_cache := st_cache s; st_inputs := st_inputs s; st_tfcols := st_tfcols s;
       st_params := st_params s; st_uid := st_uid s; st_luid := l; st_ctr := c;
       st_debug := st_debug s; st_fix := st_fix s |}.
  Definition set_inputs (s : state) (i : list lname) : state :=
    {| st_db := st_db s; st_cache := st_cache s; st_inputs := i; st_tfcols := st_tfcols s;
       st_params := st_params s; st_uid := st_uid s; st_luid := st_luid s; st_ctr := st_ctr s;
       st_debug := st_debug s; st_fix := st_fix s |}.
  Definition set_debug (s : state) (b : bool) : state :=
    {| st_db := st_db s; st_cache := st_cache s; st_inputs := st_inputs s; st_tfcols := st_tfcols s;
       st_params := st_params s; st_uid := st_uid s; st_luid := st_luid s; st_ctr := st_ctr s;
       st_debug := b; st_fix := st_fix s |}.

  Definition named (n : string) : pname := PL (LPlain n).

  (* remove_splinkdataframe_from_cache: every key whose frame has this physical name *)
  Definition cache_remove_phys (c : cache_t) (p : pname) : cache_t :=
    filter (fun kv => negb (pname_eqb (h_phys (snd kv)) p)) c.

  (* SplinkDataFrame.drop_table_from_database_and_remove_from_cache (force = False) *)
  Definition drop_handle (s : state) (h : handle) : state * list event :=
    if h_cbs h then
      (set_cache (set_db s (aremove (st_db s) (h_phys h))) (cache_remove_phys (st_cache s) (h_phys h)), [])
    else (s, [Refused (pbase (h_phys h))]).

  (* DatabaseAPI.delete_tables_created_by_splink_from_db *)
  Definition delete_step (s : state) (k : pname) : state :=
    match aget (st_cache s) k with
    | Some h => if h_cbs h && pname_eqb k (h_phys h) then fst (drop_handle s h) else s
    | None => s
    end.
  Definition delete_tables (s : state) : state :=
    fold_left delete_step (map fst (st_cache s)) s.

  (* LinkerTableManagement.invalidate_cache *)
  Definition invalidate (s : state) : state :=
    match st_cache s with
    | [] => s
    | _ => set_cache (delete_tables (set_luid_ctr s (st_ctr s) (S (st_ctr s)))) []
    end.

  (* CREATE TABLE physical AS sql, after DROP TABLE IF EXISTS physical *)
  Definition create_table (s : state) (p : pname) (v : prov) : state :=
    set_db s (aset (st_db s) p {| e_prov := v; e_origin := Splink |}).

  (* debug mode: one physical table per CTE, named by the CTE's templated name; only the
     last one carries the pipeline's result, the contents of the others are not tracked *)
  Fixpoint debug_ctes (s : state) (names : list string) : state :=
    match names with
    | [] => s
    | n :: r => debug_ctes (create_table s (named n) (PDerived n 0 [])) r
    end.

  (* DROP TABLE IF EXISTS physical; CREATE TABLE physical AS sql; cache[physical] = frame *)
  Definition exec_run (s : state) (templ : string) (tree : sqlt) : state * handle * list event :=
    let ph := PH templ (hash tree (st_uid s)) in
    if forallb (amem (st_db s)) (direct_refs (st_uid s) tree) then
      let h := {| h_templ := templ; h_phys := ph; h_src := Mat tree; h_cbs := true |} in
      let s1 := create_table s ph (eval (st_uid s) (st_db s) tree) in
      (set_cache s1 (aset (st_cache s1) ph h), h, [Exec templ])
    else
      (* the engine raises: a table the SQL reads does not exist *)
      (s, {| h_templ := templ; h_phys := ph; h_src := Mat tree; h_cbs := false |}, [Refused templ]).

  Definition exec_debug (s : state) (templ : string) (tree : sqlt) (aliases mids : list string)
    : state * handle * list event :=
    let s1 := debug_ctes s (aliases ++ mids) in
    let s2 := create_table s1 (named templ) (eval (st_uid s) (st_db s1) tree) in
    (set_cache s2 [],
     {| h_templ := templ; h_phys := named templ; h_src := Leaf (LPlain templ); h_cbs := true |},
     map Exec (aliases ++ mids ++ [templ])).

  Definition exec_pipeline (s : state) (templ : string) (tree : sqlt) (aliases mids : list string)
             (use_cache : bool) : state * handle * list event :=
    if st_debug s then exec_debug s templ tree aliases mids
    else
      let ph := PH templ (hash tree (st_uid s)) in
      if use_cache then
        match aget (st_cache s) (named templ) with
        | Some h => (s, h, [Hit (h_templ h) (pbase (h_phys h))])
        | None =>
            match aget (st_cache s) ph with
            | Some h => (s, h, [Hit (h_templ h) (pbase (h_phys h))])
            | None =>
                if amem (st_db s) ph
                then (s, {| h_templ := templ; h_phys := ph; h_src := Mat tree; h_cbs := false |}, [])
                else exec_run s templ tree
            end
        end
      else exec_run s templ tree.

  (* ---------------------------------------------------------------- operand resolution *)
  Inductive iref :=
  | RReg (i : nat)                      (* a frame obtained earlier in this operation *)
  | RConcatInline                       (* vertically_concatenate_sql over the input tables, as a CTE *)
  | RInputsRaw                          (* the input tables read by physical name *)
  | RBlockedInline (p : nat)            (* blocking CTE over the inline concat (blocking analysis) *)
  | RConcat                             (* vertically_concatenate.enqueue_df_concat *)
  | RTfOrInline (c : string)            (* term_frequencies.compute_all_term_frequencies_sqls *)
  | RTfIfNamed (c : string)             (* the named tf table as an input frame, if cached *)
  | RCwtfIfNamed                        (* the cached concat_with_tf as an input frame, if cached *)
  | RLeafPlain (n : string)             (* an existing table, read by its name *)
  | RCwtfHitOnly                        (* compare_two_records appends the cached concat_with_tf as an input frame; the
                                           SQL reads it only through RTfRoute *)
  | RTfRoute (c : string).              (* term_frequencies._join_new_table_to_df_concat_with_tf_sql: where the tf of a new
                                           record comes from - the cached tf table, else select distinct from the cached
                                           concat_with_tf, else NULL (EntryPoints.route_priority) *)

  Definition concat_tree (s : state) : sqlt := Cte CONCAT 0 (map Leaf (st_inputs s)).

  (* alias CTE needed for an input frame: templated name when it differs from the physical *)
  Definition alias_of (h : handle) : list string :=
    if pname_eqb (h_phys h) (named (h_templ h)) then [] else [h_templ h].

  Record resolved := { r_trees : list sqlt; r_events : list event; r_aliases : list string;
                       r_inline : list string }.
  Definition r_nil : resolved := {| r_trees := []; r_events := []; r_aliases := []; r_inline := [] |}.
  Definition r_app (a b : resolved) : resolved :=
    {| r_trees := r_trees a ++ r_trees b; r_events := r_events a ++ r_events b;
       r_aliases := r_aliases a ++ r_aliases b; r_inline := r_inline a ++ r_inline b |}.
  Definition r_handle (h : handle) (templ : string) : resolved :=
    {| r_trees := [h_src h]; r_events := [Hit templ (pbase (h_phys h))];
       r_aliases := alias_of h; r_inline := [] |}.
  Definition r_tree (t : sqlt) (inl : list string) : resolved :=
    {| r_trees := [t]; r_events := []; r_aliases := []; r_inline := inl |}.

  Definition resolve (s : state) (regs : list handle) (r : iref) : resolved :=
    match r with
    | RReg i =>
        match nth_error regs i with
        | Some h => {| r_trees := [h_src h]; r_events := []; r_aliases := alias_of h; r_inline := [] |}
        | None => r_nil
        end
    | RConcatInline => r_tree (concat_tree s) [CONCAT]
    | RInputsRaw => {| r_trees := map Leaf (st_inputs s); r_events := []; r_aliases := []; r_inline := [] |}
    | RBlockedInline p => r_tree (Cte BLOCKED p [concat_tree s]) [CONCAT; BLOCKED]
    | RConcat =>
        match aget (st_cache s) (named CONCAT) with
        | Some h => r_handle h CONCAT
        | None =>
            match aget (st_cache s) (named CWTF) with
            | Some h =>
                {| r_trees := [Cte CONCAT 0 [h_src h]]; r_events := [Hit CONCAT (pbase (h_phys h))];
                   r_aliases := [CONCAT]; r_inline := [] |}
            | None => r_tree (concat_tree s) [CONCAT]
            end
        end
    | RTfOrInline c =>
        match aget (st_cache s) (named (tfname c)) with
        | Some h => r_handle h (tfname c)
        | None => r_tree (Cte (tfname c) 0 [concat_tree s]) [tfname c]
        end
    | RTfIfNamed c =>
        match aget (st_cache s) (named (tfname c)) with
        | Some h => r_handle h (tfname c)
        | None => r_nil
        end
    | RCwtfIfNamed =>
        match aget (st_cache s) (named CWTF) with
        | Some h => r_handle h CWTF
        | None => r_nil
        end
    | RLeafPlain n => {| r_trees := [Leaf (LPlain n)]; r_events := []; r_aliases := [NEWREC]; r_inline := [] |}
    | RCwtfHitOnly =>
        match aget (st_cache s) (named CWTF) with
        | Some h => {| r_trees := []; r_events := [Hit CWTF (pbase (h_phys h))]; r_aliases := alias_of h; r_inline := [] |}
        | None => r_nil
        end
    | RTfRoute c =>
        match aget (st_cache s) (named (tfname c)) with
        | Some h => r_handle h (tfname c)
        | None =>
            match aget (st_cache s) (named CWTF) with
            | Some h => {| r_trees := [Cte NODESTF 0 [h_src h]]; r_events := []; r_aliases := []; r_inline := [] |}
            | None => r_nil
            end
        end
    end.

  Definition resolve_all (s : state) (regs : list handle) (ins : list iref) : resolved :=
    fold_right (fun x acc => r_app (resolve s regs x) acc) r_nil ins.

  (* ---------------------------------------------------------------- instructions *)
  Inductive instr :=
  | INamedOrExec (n : string) (p : nat) (ins : list iref) (mids : list string)
      (* compute_df_concat_with_tf / compute_tf_table: named entry, else run and store named *)
  | IExec (n : string) (p : nat) (ins : list iref) (mids : list string) (use_cache : bool)
  | IComputeConcat                             (* vertically_concatenate.compute_df_concat *)
  | IFreshUid                                  (* an ascii_uid(8) drawn for names inside the SQL text *)
  | IDrop (i : nat)
  | IRegisterTF (c : string) (ver : nat)       (* register_term_frequency_lookup, overwrite=False *)
  | IRegisterTFOverwrite (c : string) (ver : nat)  (* register_term_frequency_lookup, overwrite=True *)
  | IRegisterRecords (base : string)           (* register_table(records, base_<uid>, overwrite=True) *)
  | ISetParams (p : nat)
  | IInvalidate
  | IInvalidateKeepResults                     (* MODEL VARIANT of a defective tree, see InvalidateKeepingResults *)
  | IDeleteTables
  | IChangeInput (ver : nat)                   (* the caller replaces the rows of every input table *)
  | ISetLeaf (n : string) (ver : nat)          (* the caller creates / replaces the rows of one of its own tables *)
  | ISecondLinker (inputs : list lname) (tfcols : list string) (p : nat)
  | ISetDebug (b : bool).

  Definition the_tree (n : string) (p : nat) (r : resolved) : sqlt := Cte n p (r_trees r).

  (* eviction performed by the repaired register_term_frequency_lookup *)
  Definition evict_cwtf (s : state) : state :=
    match aget (st_cache s) (named CWTF) with
    | Some h => if h_cbs h then fst (drop_handle s h) else s
    | None => s
    end.

  Definition step_instr (sr : state * list handle * list event) (i : instr)
    : state * list handle * list event :=
    let '(s, regs, tr) := sr in
    match i with
    | INamedOrExec n p ins mids =>
        match aget (st_cache s) (named n) with
        | Some h => (s, regs ++ [h], tr ++ [Hit n (pbase (h_phys h))])
        | None =>
            let r := resolve_all s regs ins in
            let '(s1, h, ev) := exec_pipeline s n (the_tree n p r) (r_aliases r) (r_inline r ++ mids) true in
            (set_cache s1 (aset (st_cache s1) (named n) h), regs ++ [h], tr ++ r_events r ++ ev)
        end
    | IExec n p ins mids uc =>
        let r := resolve_all s regs ins in
        let '(s1, h, ev) := exec_pipeline s n (the_tree n p r) (r_aliases r) (r_inline r ++ mids) uc in
        (s1, regs ++ [h], tr ++ r_events r ++ ev)
    | IComputeConcat =>
        match aget (st_cache s) (named CONCAT) with
        | Some h => (s, regs ++ [h], tr ++ [Hit CONCAT (pbase (h_phys h))])
        | None =>
            match aget (st_cache s) (named CWTF) with
            | Some h =>
                (s, regs ++ [{| h_templ := CONCAT; h_phys := h_phys h; h_src := h_src h; h_cbs := h_cbs h |}],
                 tr ++ [Hit CONCAT (pbase (h_phys h))])
            | None =>
                let '(s1, h, ev) := exec_pipeline s CONCAT (concat_tree s) [] [] true in
                (set_cache s1 (aset (st_cache s1) (named CONCAT) h), regs ++ [h], tr ++ ev)
            end
        end
    | IFreshUid => (set_luid_ctr s (st_luid s) (S (st_ctr s)), regs, tr)
    | IDrop i =>
        match nth_error regs i with
        | Some h => let '(s1, ev) := drop_handle s h in (s1, regs, tr ++ ev)
        | None => (s, regs, tr)
        end
    | IRegisterTF c ver =>
        let l := LUid (tfname c) (st_luid s) in
        if amem (st_db s) (PL l) then (s, regs, tr ++ [Refused (tfname c)])
        else
          let h := {| h_templ := tfname c; h_phys := PL l; h_src := Leaf l; h_cbs := false |} in
          let s1 := set_db s (aset (st_db s) (PL l) {| e_prov := PLookup c ver; e_origin := Caller |}) in
          let s2 := set_cache s1 (aset (st_cache s1) (named (tfname c)) h) in
          ((if fx77 (st_fix s) then evict_cwtf s2 else s2), regs, tr)
    | IRegisterTFOverwrite c ver =>
        let l := LUid (tfname c) (st_luid s) in
        let existed := amem (st_db s) (PL l) in
        let h := {| h_templ := tfname c; h_phys := PL l; h_src := Leaf l; h_cbs := false |} in
        let s1 := set_db s (aset (st_db s) (PL l) {| e_prov := PLookup c ver; e_origin := Caller |}) in
        let s2 := set_cache s1 (aset (st_cache s1) (named (tfname c)) h) in
        let s3 := if fx77 (st_fix s) then evict_cwtf s2 else s2 in
        ((if existed && fx718 (st_fix s) then delete_tables s3 else s3), regs, tr)
    | IRegisterRecords base =>
        let u := st_ctr s in
        let l := LUid base u in
        let h := {| h_templ := base; h_phys := PL l; h_src := Leaf l; h_cbs := false |} in
        let s1 := set_db s (aset (st_db s) (PL l) {| e_prov := PRecords u; e_origin := Caller |}) in
        (set_luid_ctr s1 (st_luid s1) (S u), regs ++ [h], tr)
    | ISetParams p => (set_params s p, regs, tr)
    | IInvalidate => (invalidate s, regs, tr)
    | IInvalidateKeepResults =>
        let keep := filter (fun kv => negb (is_hashed (fst kv)) || String.eqb (pbase (fst kv)) PREDICT) (st_db s) in
        (set_cache (set_db (set_luid_ctr s (st_ctr s) (S (st_ctr s))) keep) [], regs, tr)
    | IDeleteTables => (delete_tables s, regs, tr)
    | IChangeInput ver =>
        (set_db s (fold_left (fun d l => aset d (PL l) {| e_prov := PInput (lbase l) ver; e_origin := User |})
                             (st_inputs s) (st_db s)), regs, tr)
    | ISetLeaf n ver =>
        (set_db s (aset (st_db s) (PL (LPlain n)) {| e_prov := PInput n ver; e_origin := User |}), regs, tr)
    | ISecondLinker inputs tfcols p =>
        let s1 := set_params (set_inputs s inputs) p in
        ({| st_db := st_db s1; st_cache := st_cache s1; st_inputs := st_inputs s1; st_tfcols := tfcols;
            st_params := st_params s1; st_uid := st_uid s1; st_luid := st_ctr s1; st_ctr := S (st_ctr s1);
            st_debug := st_debug s1; st_fix := st_fix s1 |}, regs, tr)
    | ISetDebug b => (set_debug s b, regs, tr)
    end.

  Definition run_prog (s : state) (p : list instr) : state * list handle * list event :=
    fold_left step_instr p (s, [], []).

  (* ---------------------------------------------------------------- public operations *)
  Inductive op :=
  | Predict
  | DeterministicLink
  | EstimateU (seedcode newparams : nat)          (* seeded (or full-sample) u estimation *)
  | EstimateEM (rule newparams : nat)
  | EstimatePrior (rule newparams : nat)
  | ComputeTF (c : string)
  | RegisterTF (c : string) (ver : nat)
  | RegisterTFOverwrite (c : string) (ver : nat)  (* overwrite=True: replaces the lookup's rows under the same name *)
  | FindMatches
  | FindMatchesTable (n : string) (ver : nat)     (* the caller (re)fills its table n, then find_matches_to_new_records(n) *)
  | CompareTwo (flag : bool)
  | Cluster (thr : nat)                           (* predict() then cluster_pairwise_predictions_at_threshold *)
  | AccuracyColumn                                (* evaluation.accuracy_analysis_from_labels_column (table output) *)
  | ErrorsColumn                                  (* evaluation.prediction_errors_from_labels_column *)
  | AccuracyTable                                 (* evaluation.accuracy_analysis_from_labels_table *)
  | ErrorsTable                                   (* evaluation.prediction_errors_from_labels_table *)
  | EstimateMColumn (newparams : nat)             (* training.estimate_m_from_label_column *)
  | EstimateMPairwise (newparams : nat)           (* training.estimate_m_from_pairwise_labels *)
  | Unlinkables                                   (* evaluation.unlinkables_chart *)
  | Profile                                       (* exploratory.profile_columns(table, db_api) *)
  | Completeness                                  (* exploratory.completeness_chart(table, db_api) *)
  | BlockingCount (rule : nat)                    (* blocking_analysis.count_comparisons_from_blocking_rule *)
  | BlockingCumulative                            (* blocking_analysis.cumulative_comparisons_to_be_scored_from_blocking_rules_data *)
  | BlockingLargest (rule : nat)                  (* blocking_analysis.n_largest_blocks *)
  | ClusterMulti                                  (* predict() then clustering.cluster_pairwise_predictions_at_multiple_thresholds *)
  | GraphMetrics (thr : nat)                      (* predict(), cluster, compute_graph_metrics (repaired tree, 7.17) *)
  | InvalidateCache
  | InvalidateKeepingResults                      (* NOT the code: a defective invalidate_cache that clears the cache but leaves
                                                     the __splink__df_predict tables in the database (same _cache_uid) *)
  | DeleteTables                                  (* delete_tables_created_by_splink_from_db *)
  | ChangeInput (ver : nat)                       (* caller changes the input rows, nothing else *)
  | ChangeInputInvalidate (ver : nat)             (* ... and calls invalidate_cache, as documented *)
  | SecondLinker (inputs : list lname) (tfcols : list string) (p : nat)
                                                  (* another Linker on the same DatabaseAPI *)
  | SetDebug (b : bool).

  Definition cwtf_instr (s : state) : instr :=
    INamedOrExec CWTF 0 (RConcatInline :: map RTfOrInline (st_tfcols s)) [].

  Definition predict_prog (s : state) : list instr :=
    [ cwtf_instr s;
      IExec BLOCKED 0 [RReg 0] [] true;
      IExec PREDICT (st_params s) [RReg 1; RReg 0] ["blocked_with_cols"; CVV; MWP] true;
      IDrop 1 ].

  (* predict() of the copy of the linker that blocks on the label column as well *)
  Definition label_predict_prog (s : state) (base : nat) : list instr :=
    [ cwtf_instr s;
      IExec BLOCKED 50 [RReg base] [] true;
      IExec PREDICT (st_params s) [RReg (S base); RReg base] ["blocked_with_cols"; CVV; MWP] true;
      IDrop (S base) ].

  Definition cluster_prog (s : state) (thr : nat) : list instr :=
    predict_prog s ++
    [ IExec NODES 0 [RConcat] [] true;
      IExec EDGES thr [RReg 2] [] true;
      IExec CCFINAL thr [RReg 4; RReg 3] [] true;
      IDrop 4;
      IDrop 3;
      IExec CLUSTERED thr [RReg 5; RConcat] [] true;
      IDrop 5 ].

  (* the exploratory / blocking-analysis functions register their input tables under fresh aliases
     (__splink__<uid>) when they get a list of tables; with more than one table the aliases are literals of the
     SQL ('alias' as source_dataset), so every call produces new SQL text *)
  (* rule numbers are 0 or 1: [rule + 2 * fsalt s] keeps (rule, call) pairs apart (rule + fsalt s made rule 1 of one
     call coincide with rule 0 of the next) *)
  Definition fsalt (s : state) : nat :=
    match st_inputs s with _ :: _ :: _ => 1000 + st_ctr s | _ => 0 end.

  Definition prog_of_op (s : state) (o : op) : list instr :=
    match o with
    | Predict => predict_prog s
    | AccuracyColumn =>
        [ IComputeConcat; IExec CART 0 [RReg 0] [] true; IDrop 1 ] ++ label_predict_prog s 2 ++
        [ IExec TST 0 [RReg 4] [] true ]
    | ErrorsColumn => label_predict_prog s 0 ++ [ IExec PFLC 0 [RReg 2] [] true ]
    | AccuracyTable =>
        [ IRegisterRecords LABELS; cwtf_instr s; IExec TST (S (st_params s)) [RReg 1; RReg 0] [] true ]
    | ErrorsTable =>
        [ IRegisterRecords LABELS; cwtf_instr s; IExec FPFN (st_params s) [RReg 1; RReg 0] [] true ]
    | EstimateMColumn p' =>
        [ cwtf_instr s; cwtf_instr s; IExec BLOCKED 60 [RReg 1] [] true; IExec MU 0 [RReg 2; RReg 1] [] true;
          ISetParams p' ]
    | EstimateMPairwise p' =>
        [ IRegisterRecords LABELS; cwtf_instr s; IExec MU 1 [RReg 1; RReg 0] [] true; ISetParams p' ]
    | Unlinkables =>
        [ cwtf_instr s; IExec BLOCKED 70 [RReg 0] [] true; IExec SELFLINK (st_params s) [RReg 1; RReg 0] [] true;
          IExec UNLINK 0 [RReg 2] [] false; IDrop 3 ]
    | Profile =>
        [ IFreshUid; IExec FREQ (fsalt s) [RConcatInline] [] true; IExec PCT 0 [RReg 0] [] true; IExec TOPN 0 [RReg 0] [] true;
          IExec BOTN 0 [RReg 0] [] true; IDeleteTables ]
    | Completeness => [ IFreshUid; IExec COMPL (fsalt s) [RConcatInline] [] (negb (fxco (st_fix s))) ]
    | BlockingCount rule =>
        [ IFreshUid; IExec TOTAL (200 + rule + 2 * fsalt s) [RConcatInline] [] true; IDrop 0;
          IExec POSTF (rule + 2 * fsalt s) [RConcatInline] [] true; IDrop 1 ]
    | BlockingCumulative =>
        [ IFreshUid; IExec TOTAL (200 + 2 * fsalt s) [RConcatInline] [] true; IDrop 0;
          IExec TOTAL (201 + 2 * fsalt s) [RConcatInline] [] true; IDrop 1;
          IExec DFCOUNT (fsalt s) [RConcatInline] [] (negb (fxba (st_fix s)));
          IExec CUM (300 + fsalt s) [RBlockedInline (300 + fsalt s)] [] (negb (fxba (st_fix s))) ]
    | BlockingLargest rule => [ IFreshUid; IExec BLOCKCOUNTS (rule + 2 * fsalt s) [RConcatInline] [] (negb (fxba (st_fix s))) ]
    | ClusterMulti =>
        predict_prog s ++ [ IFreshUid; IExec CAAT (1000 + st_ctr s) [RReg 2; RInputsRaw] [] true ]
    | GraphMetrics thr =>
        cluster_prog s thr ++
        [ IExec GMN thr [RReg 2; RReg 6] [] true;
          IExec NIM 0 [RReg 7] [] true;
          IExec TRUNC thr [RReg 2] [] true;
          IExec EWM 0 [RReg 8; RReg 9] [] true;
          IExec BRIDGES 0 [RReg 10] [] false;
          IExec GME 0 [RReg 8; RReg 11; RReg 9] [] true;
          IExec GMC 0 [RReg 7] [] true ]
    | DeterministicLink =>
        [ cwtf_instr s;
          IExec BLOCKED 0 [RReg 0] [] true;
          IExec CVV 1 [RReg 1; RReg 0] ["blocked_with_cols"] true;
          IDrop 1 ]
    | EstimateU seed p' =>
        [ IExec COUNTC 0 [RConcat] [] true;
          IDrop 0;
          IExec SAMPLE seed [RConcat] [] true;
          IExec BLOCKED 1 [RReg 1] [] (negb (fx716 (st_fix s)));
          IDrop 1;
          ISetParams p' ]
    | EstimateEM rule p' =>
        [ cwtf_instr s;
          cwtf_instr s;
          IExec BLOCKED (2 + rule) [RReg 1] [] true;
          IExec CVV (2 + rule) [RReg 2; RReg 1] ["blocked_with_cols"] true;
          ISetParams p' ]
    | EstimatePrior rule p' =>
        [ IExec TOTAL rule [RConcatInline]
                ["__splink__count_comparisons_from_blocking_l"; "__splink__count_comparisons_from_blocking_r";
                 "__splink__block_counts"] true;
          IDrop 0;
          IExec DFCOUNT 0 [RConcatInline] [] (negb (fxba (st_fix s)));
          IExec CUM rule [RBlockedInline (100 + rule)] [] (negb (fxba (st_fix s)));
          ISetParams p' ]
    | ComputeTF c => [ INamedOrExec (tfname c) 0 [RConcat] [] ]
    | RegisterTF c ver => [ IRegisterTF c ver ]
    | RegisterTFOverwrite c ver => [ IRegisterTFOverwrite c ver ]
    | FindMatches =>
        [ IRegisterRecords NEWREC;
          cwtf_instr s;
          IExec BLOCKED 9 [RReg 1; RReg 0] ["__splink__df_new_records_uid_fix"] true;
          IExec FMP (st_params s) ([RReg 2; RReg 0; RReg 1] ++ map RTfRoute (st_tfcols s))
                ["__splink__df_new_records_with_tf_before_uid_fix"; "__splink__df_new_records_with_tf";
                 "blocked_with_cols"; CVV; MWP; PREDICT] false;
          IDrop 2 ]
    | FindMatchesTable n ver =>
        [ ISetLeaf n ver;
          cwtf_instr s;
          IExec BLOCKED 9 [RReg 0; RLeafPlain n] ["__splink__df_new_records_uid_fix"] true;
          IExec FMP (st_params s) ([RReg 1; RLeafPlain n; RReg 0] ++ map RTfRoute (st_tfcols s))
                ["__splink__df_new_records_with_tf_before_uid_fix"; "__splink__df_new_records_with_tf";
                 "blocked_with_cols"; CVV; MWP; PREDICT] false;
          IDrop 1 ]
    | CompareTwo flag =>
        [ IRegisterRecords C2L;
          IRegisterRecords C2R;
          IExec (if flag then FBBR else PREDICT) (st_params s)
                ([RReg 0; RReg 1; RCwtfHitOnly] ++ map RTfRoute (st_tfcols s))
                (["__splink__compare_two_records_left_with_tf"; "__splink__compare_two_records_right_with_tf";
                  "__splink__compare_two_records_left_with_tf_uid_fix";
                  "__splink__compare_two_records_right_with_tf_uid_fix";
                  "__splink__compare_two_records_blocked"; CVV; MWP] ++ (if flag then [PREDICT] else [])) false ]
    | Cluster thr => cluster_prog s thr
    | InvalidateCache => [ IInvalidate ]
    | InvalidateKeepingResults => [ IInvalidateKeepResults ]
    | DeleteTables => [ IDeleteTables ]
    | ChangeInput ver => [ IChangeInput ver ]
    | ChangeInputInvalidate ver => [ IChangeInput ver; IInvalidate ]
    | SecondLinker inputs tfcols p => [ ISecondLinker inputs tfcols p ]
    | SetDebug b => [ ISetDebug b ]
    end.

  Definition run_op (s : state) (o : op) : state * list handle * list event :=
    run_prog s (prog_of_op s o).
  Definition step (s : state) (o : op) : state := fst (fst (run_op s o)).
  Definition run (s : state) (ops : list op) : state := fold_left step ops s.

  (* the table an operation returns (last register) and its content *)
  Definition result_prov (s : state) (o : op) : prov :=
    let '(s', regs, _) := run_op s o in
    match nth_error regs 2 with                 (* predict: register 2 is __splink__df_predict *)
    | Some h => content (st_db s') (h_phys h)
    | None => PMissing
    end.

  (* ---------------------------------------------------------------- initial and fresh states *)
  Definition input_db (inputs : list lname) (ver : nat) : db_t :=
    map (fun l => (PL l, {| e_prov := PInput (lbase l) ver; e_origin := User |})) inputs.

  Definition init_state (inputs : list lname) (ver : nat) (tfcols : list string) (params uid luid : nat)
             (fx : fixes) : state :=
    {| st_db := input_db inputs ver; st_cache := []; st_inputs := inputs; st_tfcols := tfcols;
       st_params := params; st_uid := uid; st_luid := luid; st_ctr := S luid; st_debug := false;
       st_fix := fx |}.

  (* registered lookups of a state: named entries that are not Splink-created hashed tables *)
  Definition lookups (s : state) : list (string * prov) :=
    flat_map (fun c => match aget (st_cache s) (named (tfname c)) with
                       | Some h => if is_hashed (h_phys h) then [] else [(c, content (st_db s) (h_phys h))]
                       | None => []
                       end) (st_tfcols s).

  (* a fresh Linker on a new DatabaseAPI: same input tables (same rows), the saved model, and the
     currently registered lookups registered again *)
  Definition fresh_of (s : state) (uid' luid' : nat) : state :=
    let leaves := filter (fun kv => existsb (fun l => pname_eqb (PL l) (fst kv)) (st_inputs s)) (st_db s) in
    let regs := lookups s in
    let db' := fold_left (fun d cv => aset d (PL (LUid (tfname (fst cv)) luid'))
                                        {| e_prov := snd cv; e_origin := Caller |}) regs leaves in
    let cache' := fold_left (fun c cv =>
                     let l := LUid (tfname (fst cv)) luid' in
                     aset c (named (tfname (fst cv)))
                          {| h_templ := tfname (fst cv); h_phys := PL l; h_src := Leaf l; h_cbs := false |})
                   regs [] in
    {| st_db := db'; st_cache := cache'; st_inputs := st_inputs s; st_tfcols := st_tfcols s;
       st_params := st_params s; st_uid := uid'; st_luid := luid'; st_ctr := S luid'; st_debug := false;
       st_fix := st_fix s |}.

  (* ---------------------------------------------------------------- guards (finding classes) *)
  Definition is_bare_input_change (o : op) : bool :=
    match o with ChangeInput _ | RegisterTFOverwrite _ _ | FindMatchesTable _ _ => true | _ => false end.
  Definition is_second_linker (o : op) : bool :=
    match o with SecondLinker _ _ _ => true | _ => false end.
  Definition is_debug_switch (o : op) : bool :=
    match o with SetDebug _ | InvalidateKeepingResults => true | _ => false end.
  (* finding (a): a lookup registered while a Splink-computed __splink__df_concat_with_tf is cached *)
  Definition stale_cwtf_risk (s : state) (o : op) : bool :=
    match o with
    | RegisterTF c _ =>
        negb (fx77 (st_fix s)) && amem (st_cache s) (named CWTF) &&
        negb (amem (st_db s) (PL (LUid (tfname c) (st_luid s)))) &&
        existsb (String.eqb c) (st_tfcols s)
    | _ => false
    end.
  Definition op_ok (s : state) (o : op) : bool :=
    negb (is_bare_input_change o) && negb (is_second_linker o) && negb (is_debug_switch o) &&
    negb (stale_cwtf_risk s o).
  Fixpoint hist_ok (s : state) (ops : list op) : bool :=
    match ops with
    | [] => true
    | o :: r => op_ok s o && hist_ok (step s o) r
    end.

  (* weaker guard for the soundness of hashed entries: only unannounced input changes,
     a second linker and debug mode are excluded *)
  Definition op_ok_hashed (o : op) : bool :=
    negb (is_bare_input_change o) && negb (is_second_linker o) && negb (is_debug_switch o).

  (* ---------------------------------------------------------------- observation for X *)
  Definition cache_listing (s : state) : list (string * bool * string * bool) :=
    map (fun kv => (pbase (fst kv), is_hashed (fst kv), pbase (h_phys (snd kv)), h_cbs (snd kv))) (st_cache s).
  Definition db_listing (s : state) : list (string * bool * origin) :=
    map (fun kv => (pbase (fst kv), is_hashed (fst kv), e_origin (snd kv))) (st_db s).
End Hash.

(* ------------------------------------------------------------------ realtime.SQLCache *)
(* compare_records(record_1, record_2, settings, db_api, use_sql_from_cache, include_found_by_blocking_rules).
   The module-level SQLCache maps a settings identity (+ the flag suffix, in the repaired tree) to the SQL generated at
   an uncached call, together with a weak reference to the SettingsCreator it was generated for.

   Settings values:  [RObj addr gen model]  a SettingsCreator object: CPython address (id()), identity of the object
                                            (gen: distinct objects have distinct gens, addresses are reused), its model;
                     [RDict base conf]      a settings dict: everything but the ComparisonCreator.configure() values
                                            (base) and those values (conf: m/u probabilities, tf adjustments);
                     [RStr p]               a settings file given by name (str or pathlib.Path): p stands for the file
                                            AND its content, which is fixed for the whole sequence.  A file rewritten
                                            between calls is outside this model (harness X: uncached-reference oracle
                                            only); likewise the SQL dialect (one DatabaseAPI per sequence here).
   The generated SQL is identified by the settings' model and the flag it was generated with ([rt_sql]).
   [rt_params] are the key ingredients that translators/c07_realtime.py reads off the source on every run. *)
Inductive rt_settings := RObj (addr gen model : nat) | RDict (base conf : nat) | RStr (p : nat).
Record rt_params := {
  rp_flag_in_key : bool;          (* include_found_by_blocking_rules is part of the key (7.8) *)
  rp_configured_in_key : bool;    (* the key of a dict holding creator objects contains the configure() values *)
  rp_liveness_called : bool;      (* SQLCache.get CALLS the weak reference before trusting an id()-keyed entry *)
  rp_content_in_key : bool        (* the key of a SettingsCreator object carries a fingerprint of what it describes now
                                     (a SettingsCreator is MUTABLE: id() alone keeps serving the SQL of its old content) *)
}.
Inductive rt_key := KAddr (a m : nat) | KDict (base conf : nat) | KStr (p : nat).
Definition rt_key_eqb (a b : rt_key) : bool :=
  match a, b with
  | KAddr x1 x2, KAddr y1 y2 => Nat.eqb x1 y1 && Nat.eqb x2 y2
  | KDict x1 x2, KDict y1 y2 => Nat.eqb x1 y1 && Nat.eqb x2 y2
  | KStr x, KStr y => Nat.eqb x y
  | _, _ => false
  end.
Definition rt_key_of (P : rt_params) (s : rt_settings) : rt_key :=
  match s with
  | RObj a _ m => KAddr a (if rp_content_in_key P then m else 0)     (* str(id(settings)) [+ fingerprint] *)
  | RDict b c => KDict b (if rp_configured_in_key P then c else 0)     (* json.dumps(settings dict) *)
  | RStr p => KStr p
  end.
Definition sqlid := (nat * nat * nat)%type.
Definition rt_sql (s : rt_settings) : sqlid :=
  match s with RObj _ _ m => (0, m, 0) | RDict b c => (1, b, c) | RStr p => (2, p, 0) end.
Definition sqlid_eqb (a b : sqlid) : bool :=
  match a, b with (a1, a2, a3), (b1, b2, b3) => Nat.eqb a1 b1 && Nat.eqb a2 b2 && Nat.eqb a3 b3 end.
Record rt_entry := { re_key : rt_key; re_fkey : bool; re_sql : sqlid; re_flag : bool; re_ref : option nat }.
Inductive rt_event :=
| RtCall (s : rt_settings) (use_cache flag : bool)
| RtDel (gen : nat).                                 (* the SettingsCreator object is garbage collected *)

Definition rt_match (k : rt_key) (fk : bool) (e : rt_entry) : bool := rt_key_eqb (re_key e) k && Bool.eqb (re_fkey e) fk.
Definition rt_find (m : list rt_entry) (k : rt_key) (fk : bool) : option rt_entry := find (rt_match k fk) m.
Definition rt_dead (dead : list nat) (e : rt_entry) : bool :=
  match re_ref e with Some g => existsb (Nat.eqb g) dead | None => false end.

(* one event: new cache, new list of dead objects, and for a call (sql executed, flag of that sql, cached path) *)
Definition rt_step (P : rt_params) (st : list rt_entry * list nat) (ev : rt_event)
  : (list rt_entry * list nat) * option (sqlid * bool * bool) :=
  let '(m, dead) := st in
  match ev with
  | RtDel g => ((m, g :: dead), None)
  | RtCall s uc f =>
      let k := rt_key_of P s in
      let fk := if rp_flag_in_key P then f else false in
      let fresh := {| re_key := k; re_fkey := fk; re_sql := rt_sql s; re_flag := f;
                      re_ref := match s with RObj _ g _ => Some g | _ => None end |} in
      let miss m' := ((fresh :: filter (fun e => negb (rt_match k fk e)) m', dead), Some (rt_sql s, f, false)) in
      if uc then
        match rt_find m k fk with
        | Some e =>
            if rp_liveness_called P && rt_dead dead e
            then miss m                                   (* dead reference: del self._cache[key]; return None *)
            else ((m, dead), Some (re_sql e, re_flag e, true))
        | None => miss m
        end
      else miss m
  end.
Fixpoint rt_run (P : rt_params) (st : list rt_entry * list nat) (evs : list rt_event) : list (option (sqlid * bool * bool)) :=
  match evs with
  | [] => []
  | ev :: r => let '(st', out) := rt_step P st ev in out :: rt_run P st' r
  end.

(* what Python guarantees about the objects: a call passes a live object; an address belongs to one live object at a
   time (it is reused only after the previous owner died); an object keeps its address and its model *)
Definition rt_wf_step (st : list (nat * nat * nat) * list nat) (ev : rt_event) : (list (nat * nat * nat) * list nat) * bool :=
  let '(owners, dead) := st in
  match ev with
  | RtDel g => ((filter (fun o => negb (Nat.eqb (snd (fst o)) g)) owners, g :: dead), true)
  | RtCall (RObj a g m) _ _ =>
      let ok := negb (existsb (Nat.eqb g) dead) &&
                forallb (fun o => match o with (a', g', m') =>
                           (negb (Nat.eqb a' a) || Nat.eqb g' g) && (negb (Nat.eqb g' g) || (Nat.eqb a' a && Nat.eqb m' m)) end) owners in
      (((a, g, m) :: owners, dead), ok)
  | RtCall _ _ _ => (st, true)
  end.
Fixpoint rt_wf (st : list (nat * nat * nat) * list nat) (evs : list rt_event) : bool :=
  match evs with
  | [] => true
  | ev :: r => let '(st', ok) := rt_wf_step st ev in ok && rt_wf st' r
  end.
Definition rt_good : rt_params :=
  {| rp_flag_in_key := true; rp_configured_in_key := true; rp_liveness_called := true; rp_content_in_key := true |}.
(* the tree before the fingerprint: sound only for objects that are never mutated (rt_wf) *)
Definition rt_nofp : rt_params :=
  {| rp_flag_in_key := true; rp_configured_in_key := true; rp_liveness_called := true; rp_content_in_key := false |}.
(* the ingredients that make the cache transparent for EVERY sequence (liveness is then only hygiene) *)
Definition rt_params_ok (P : rt_params) : bool := rp_flag_in_key P && rp_configured_in_key P && rp_content_in_key P.
Definition rt_params_ok_unmutated (P : rt_params) : bool := rp_flag_in_key P && rp_configured_in_key P && rp_liveness_called P.
(* the answer a call must give: the SQL of its own settings and flag *)
Definition rt_expected (ev : rt_event) : option (sqlid * bool) :=
  match ev with RtCall s _ f => Some (rt_sql s, f) | RtDel _ => None end.
Definition rt_out_okb (ev : rt_event) (out : option (sqlid * bool * bool)) : bool :=
  match rt_expected ev, out with
  | Some (q, f), Some (q', f', _) => sqlid_eqb q' q && Bool.eqb f' f
  | None, None => true
  | _, _ => false
  end.
Fixpoint rt_all_okb (evs : list rt_event) (outs : list (option (sqlid * bool * bool))) : bool :=
  match evs, outs with
  | [], [] => true
  | ev :: r, o :: r' => rt_out_okb ev o && rt_all_okb r r'
  | _, _ => false
  end.
