(* C09  Serialisers as rule tables, loaders as keyword-argument tables.

   A Python object that is saved by an `as_dict`-style method and re-created by a
   keyword-argument constructor is modelled as a *record* (association list from
   constructor-parameter names to values).  `as_dict` is a *rule table*: a list of
   (key, guard, value expression); the constructor is a *loader*: a list of
   (key, default, post-expression).  Guards and value expressions are written in a small
   expression language that follows Python's truthiness rules (`if x:` omits 0, 0.0, "",
   None, False, []), `is None`, `==` against literals, `and` / `or` (operand-returning),
   conditional expressions and `raise`.

   Definitions only (executable; evaluated inside Coq by the harness).  Proofs are in
   Proofs/SerialiseP.v. *)
From Coq Require Import List Bool ZArith String.
Import ListNotations.
Open Scope string_scope.

(* ------------------------------------------------------------------ values *)
(* JSON-representable Python values.  A float/int x is VNum n d with n/d the exact
   reduced fraction of x (so structural equality is numeric equality). *)
Inductive val :=
| VNone
| VBool (b : bool)
| VNum (n : Z) (d : positive)
| VStr (s : string)
| VList (l : list string).

Fixpoint strs_eqb (a b : list string) : bool :=
  match a, b with
  | [], [] => true
  | x :: a', y :: b' => String.eqb x y && strs_eqb a' b'
  | _, _ => false
  end.

Definition val_eqb (a b : val) : bool :=
  match a, b with
  | VNone, VNone => true
  | VBool x, VBool y => Bool.eqb x y
  | VNum n d, VNum n' d' => Z.eqb n n' && Pos.eqb d d'
  | VStr s, VStr s' => String.eqb s s'
  | VList l, VList l' => strs_eqb l l'
  | _, _ => false
  end.

(* Python truthiness *)
Definition truthy (v : val) : bool :=
  match v with
  | VNone => false
  | VBool b => b
  | VNum n _ => negb (Z.eqb n 0)
  | VStr s => negb (String.eqb s "")
  | VList l => match l with [] => false | _ => true end
  end.

Definition record := list (string * val).

Fixpoint lookup {A : Type} (r : list (string * A)) (k : string) : option A :=
  match r with
  | [] => None
  | (k', v) :: r' => if String.eqb k k' then Some v else lookup r' k
  end.

Definition get (r : record) (k : string) : val :=
  match lookup r k with Some v => v | None => VNone end.

(* ------------------------------------------------------------------ expressions *)
Inductive expr :=
| EField (f : string)        (* attribute backed by the constructor parameter f *)
| ECtx (f : string)          (* value supplied from outside the record (parent object,
                                opaque pure helper); raises when the context lacks it *)
| EConst (v : val)
| ENot (a : expr)            (* not a *)
| EIsNone (a : expr)         (* a is None *)
| EEq (a : expr) (c : val)   (* a == literal *)
| EAnd (a b : expr)          (* a and b   (returns an operand) *)
| EOr (a b : expr)           (* a or b *)
| EIf (c a b : expr)         (* a if c else b; also if c: return a ... return b *)
| ERaise.

Fixpoint eval (e : expr) (r env : record) : option val :=
  match e with
  | EField f => Some (get r f)
  | ECtx f => lookup env f
  | EConst v => Some v
  | ENot a => match eval a r env with Some v => Some (VBool (negb (truthy v))) | None => None end
  | EIsNone a => match eval a r env with Some v => Some (VBool (val_eqb v VNone)) | None => None end
  | EEq a c => match eval a r env with Some v => Some (VBool (val_eqb v c)) | None => None end
  | EAnd a b => match eval a r env with
                | Some v => if truthy v then eval b r env else Some v
                | None => None end
  | EOr a b => match eval a r env with
               | Some v => if truthy v then Some v else eval b r env
               | None => None end
  | EIf c a b => match eval c r env with
                 | Some v => if truthy v then eval a r env else eval b r env
                 | None => None end
  | ERaise => None
  end.

(* ------------------------------------------------------------------ save / load *)
Record rule := { r_key : string; r_guard : expr; r_val : expr }.
Record lentry := { l_key : string; l_default : val; l_post : expr }.
Record stage := { s_rules : list rule; s_loader : list lentry }.

(* `output = {}; if guard: output[key] = value; ...`  (None = an exception escaped) *)
Fixpoint save (t : list rule) (r env : record) : option record :=
  match t with
  | [] => Some []
  | ru :: t' =>
      match eval (r_guard ru) r env with
      | None => None
      | Some g =>
          if truthy g then
            match eval (r_val ru) r env with
            | None => None
            | Some v => match save t' r env with
                        | Some j => Some ((r_key ru, v) :: j)
                        | None => None end
            end
          else save t' r env
      end
  end.

(* keyword arguments after defaults have been filled in *)
Definition kwargs (d : list lentry) (j : record) : record :=
  map (fun le => (l_key le, match lookup j (l_key le) with Some v => v | None => l_default le end)) d.

(* constructor body: self.k = post_k(kwargs) *)
Fixpoint post (d : list lentry) (kw env : record) : option record :=
  match d with
  | [] => Some []
  | le :: d' =>
      match eval (l_post le) kw env with
      | None => None
      | Some v => match post d' kw env with
                  | Some r => Some ((l_key le, v) :: r)
                  | None => None end
      end
  end.

Definition load (d : list lentry) (j env : record) : option record := post d (kwargs d j) env.

Definition run_stage (st : stage) (r env : record) : option record :=
  match save (s_rules st) r env with
  | Some j => load (s_loader st) j env
  | None => None
  end.

(* a pipeline pairs every stage with the context it runs in *)
Fixpoint run_pipeline (ps : list (stage * record)) (r : record) : option record :=
  match ps with
  | [] => Some r
  | (st, env) :: ps' => match run_stage st r env with
                        | Some r' => run_pipeline ps' r'
                        | None => None end
  end.

(* ------------------------------------------------------------------ value classes *)
(* K is a finite list of distinguished constants (all literals of the tables, all defaults,
   and the falsy values).  A value is either one of them or *generic*: truthy and different
   from every constant. *)
Inductive cls := CC (c : val) | CG.

Definition in_K (K : list val) (v : val) : bool := existsb (val_eqb v) K.

Definition class_of (K : list val) (v : val) : option cls :=
  if in_K K v then Some (CC v) else if truthy v then Some CG else None.

Definition cls_eqb (a b : cls) : bool :=
  match a, b with
  | CC x, CC y => val_eqb x y
  | CG, CG => true
  | _, _ => false
  end.

(* constraint (f1,c1,f2,cs): if f1 is in class c1 then f2 is in one of the classes cs *)
Definition constr := (string * cls * string * list cls)%type.

Definition class_ok (K : list val) (r : record) (fc : string * list cls) : bool :=
  match class_of K (get r (fst fc)) with
  | Some c => existsb (cls_eqb c) (snd fc)
  | None => false
  end.

Definition constr_ok (K : list val) (r : record) (c : constr) : bool :=
  match c with
  | (f1, c1, f2, c2) =>
      match class_of K (get r f1), class_of K (get r f2) with
      | Some a, Some b => implb (cls_eqb a c1) (existsb (cls_eqb b) c2)
      | _, _ => false
      end
  end.

(* well-formed record: every declared field is in one of its allowed classes and the
   relevance constraints hold *)
Definition wfb (K : list val) (allowed : list (string * list cls)) (cons : list constr)
           (r : record) : bool :=
  forallb (class_ok K r) allowed && forallb (constr_ok K r) cons.

(* ------------------------------------------------------------------ symbolic evaluation *)
Inductive sval :=
| SF (f : string)    (* exactly the input record's field f, which holds a generic value *)
| SC (c : val)       (* exactly the constant c *)
| SX.                (* unknown *)
Inductive sres := RRaise | RVal (s : sval).

Definition senv := list (string * sval).

Definition struth (s : sval) : option bool :=
  match s with SF _ => Some true | SC c => Some (truthy c) | SX => None end.

Definition sget (se : senv) (f : string) : sval :=
  match lookup se f with Some s => s | None => SX end.

Fixpoint seval (K : list val) (se : senv) (e : expr) : sres :=
  match e with
  | EField f => RVal (sget se f)
  | ECtx _ => RVal SX
  | EConst v => RVal (SC v)
  | ENot a => match seval K se a with
              | RRaise => RRaise
              | RVal s => match struth s with
                          | Some b => RVal (SC (VBool (negb b)))
                          | None => RVal SX end
              end
  | EIsNone a => match seval K se a with
                 | RRaise => RRaise
                 | RVal (SC c) => RVal (SC (VBool (val_eqb c VNone)))
                 | RVal (SF _) => RVal (SC (VBool false))
                 | RVal SX => RVal SX
                 end
  | EEq a c => match seval K se a with
               | RRaise => RRaise
               | RVal (SC c') => RVal (SC (VBool (val_eqb c' c)))
               | RVal (SF _) => if in_K K c then RVal (SC (VBool false)) else RVal SX
               | RVal SX => RVal SX
               end
  | EAnd a b => match seval K se a with
                | RRaise => RRaise
                | RVal s => match struth s with
                            | Some true => seval K se b
                            | Some false => RVal s
                            | None => RVal SX end
                end
  | EOr a b => match seval K se a with
               | RRaise => RRaise
               | RVal s => match struth s with
                           | Some true => RVal s
                           | Some false => seval K se b
                           | None => RVal SX end
               end
  | EIf c a b => match seval K se c with
                 | RRaise => RRaise
                 | RVal s => match struth s with
                             | Some true => seval K se a
                             | Some false => seval K se b
                             | None => RVal SX end
                 end
  | ERaise => RRaise
  end.

Fixpoint find_rule (t : list rule) (k : string) : option rule :=
  match t with
  | [] => None
  | ru :: t' => if String.eqb k (r_key ru) then Some ru else find_rule t' k
  end.

(* symbolic value of the keyword argument k after save + default filling *)
Definition skwarg (K : list val) (se : senv) (t : list rule) (le : lentry) : sres :=
  match find_rule t (l_key le) with
  | None => RVal (SC (l_default le))
  | Some ru =>
      match seval K se (r_guard ru) with
      | RRaise => RRaise
      | RVal g => match struth g with
                  | Some true => seval K se (r_val ru)
                  | Some false => RVal (SC (l_default le))
                  | None => RVal SX end
      end
  end.

Fixpoint smap (f : lentry -> sres) (d : list lentry) : option senv :=
  match d with
  | [] => Some []
  | le :: d' => match f le with
                | RRaise => None
                | RVal s => match smap f d' with
                            | Some se => Some ((l_key le, s) :: se)
                            | None => None end
                end
  end.

(* None = the stage certainly raises (when the input is described by se) *)
Definition sstage (K : list val) (se : senv) (st : stage) : option senv :=
  match smap (skwarg K se (s_rules st)) (s_loader st) with
  | Some skw => smap (fun le => seval K skw (l_post le)) (s_loader st)
  | None => None
  end.

Fixpoint spipeline (K : list val) (se : senv) (sts : list stage) : option senv :=
  match sts with
  | [] => Some se
  | st :: sts' => match sstage K se st with
                  | Some se' => spipeline K se' sts'
                  | None => None end
  end.

Definition sval_same (a b : sval) : bool :=
  match a, b with
  | SF f, SF g => String.eqb f g
  | SC c, SC c' => val_eqb c c'
  | _, _ => false
  end.

(* ------------------------------------------------------------------ the checker *)
Definition sigma := list (string * cls).

Definition senv_of (sg : sigma) : senv :=
  map (fun fc => (fst fc, match snd fc with CC c => SC c | CG => SF (fst fc) end)) sg.

Definition allowed_of (allowed : list (string * list cls)) (f : string) : list cls :=
  match lookup allowed f with Some cs => cs | None => [] end.

Fixpoint assigns (allowed : list (string * list cls)) (hint : list string) : list sigma :=
  match hint with
  | [] => [[]]
  | f :: hint' =>
      flat_map (fun c => map (cons (f, c)) (assigns allowed hint')) (allowed_of allowed f)
  end.

Definition sigma_constr_ok (sg : sigma) (c : constr) : bool :=
  match c with
  | (f1, c1, f2, c2) =>
      match lookup sg f1, lookup sg f2 with
      | Some a, Some b => implb (cls_eqb a c1) (existsb (cls_eqb b) c2)
      | _, _ => true
      end
  end.

Fixpoint nodup_keys (ks : list string) : bool :=
  match ks with
  | [] => true
  | k :: ks' => negb (existsb (String.eqb k) ks') && nodup_keys ks'
  end.

Definition keys_subset (t : list rule) (d : list lentry) : bool :=
  forallb (fun ru => existsb (fun le => String.eqb (r_key ru) (l_key le)) d) t.

(* a stage is structurally sound: no key is assigned twice, every emitted key is accepted
   by the constructor (an unknown keyword would raise TypeError), loader keys distinct *)
Definition stage_shape_ok (st : stage) : bool :=
  nodup_keys (map r_key (s_rules st)) && nodup_keys (map l_key (s_loader st)) &&
  keys_subset (s_rules st) (s_loader st).

(* one target field under one class assignment: the pipeline must not certainly raise (a
   serialiser that only raises is not a serialiser) and must deliver, for key k, a value that is
   symbolically the same as the specification's *)
Definition check_sigma (K : list val) (sts : list stage) (spec : expr) (k : string)
           (sg : sigma) : bool :=
  match spipeline K (senv_of sg) sts with
  | None => false
  | Some sef =>
      match seval K (senv_of sg) spec with
      | RVal s' => sval_same (sget sef k) s'
      | RRaise => false
      end
  end.

Record target := { t_key : string; t_spec : expr; t_hint : list string }.

Definition sigmas (allowed : list (string * list cls)) (cons : list constr)
           (hint : list string) : list sigma :=
  filter (fun sg => forallb (sigma_constr_ok sg) cons) (assigns allowed hint).

(* every hint field must have declared classes (an undeclared field would make the
   enumeration empty and the check vacuous) *)
Definition declared (allowed : list (string * list cls)) (f : string) : bool :=
  match lookup allowed f with Some _ => true | None => false end.

Definition target_ok K allowed cons sts (tg : target) : bool :=
  forallb (declared allowed) (t_hint tg) &&
  forallb (check_sigma K sts (t_spec tg) (t_key tg)) (sigmas allowed cons (t_hint tg)).

Definition pipeline_ok (K : list val) (allowed : list (string * list cls)) (cons : list constr)
           (sts : list stage) (targets : list target) : bool :=
  forallb stage_shape_ok sts && forallb (target_ok K allowed cons sts) targets.

(* counterexamples for reporting: (target key, failing class assignment) *)
Definition pipeline_cex K allowed cons sts (targets : list target) : list (string * sigma) :=
  flat_map (fun tg =>
              map (fun sg => (t_key tg, sg))
                  (filter (fun sg => negb (check_sigma K sts (t_spec tg) (t_key tg) sg))
                          (sigmas allowed cons (t_hint tg)))) targets.

(* ------------------------------------------------------------------ the C09 instances *)
(* one as_dict / constructor pair, specification "the field comes back unchanged" *)
Definition id_targets (d : list lentry) (hints : list (string * list string)) : list target :=
  map (fun le => {| t_key := l_key le; t_spec := EField (l_key le);
                    t_hint := match lookup hints (l_key le) with
                              | Some h => h | None => [l_key le] end |}) d.

Definition table_ok K allowed cons (t : list rule) (d : list lentry)
           (hints : list (string * list string)) : bool :=
  pipeline_ok K allowed cons [{| s_rules := t; s_loader := d |}] (id_targets d hints).

(* record in constructor-parameter order *)
Definition normalised (d : list lentry) (r : record) : bool :=
  strs_eqb (map fst r) (map l_key d).

(* plain keyword loader: self.k = k *)
Definition plain_loader (kd : list (string * val)) : list lentry :=
  map (fun x => {| l_key := fst x; l_default := snd x; l_post := EField (fst x) |}) kd.

(* model-side comparison of two records on the loader's keys (used by X) *)
Definition records_agree (d : list lentry) (a b : record) : bool :=
  forallb (fun le => val_eqb (get a (l_key le)) (get b (l_key le))) d.

Definition record_eqb (a b : record) : bool :=
  strs_eqb (map fst a) (map fst b) && forallb (fun kv => val_eqb (snd kv) (get b (fst kv))) a.
