(* Model of splink/internals/blocking.py: which candidate pairs the UNION ALL of per-rule
   joins emits, and with which match_key.

   Part 1: the canonical composition for arbitrary rule functions and any number of rules
           (ON rule_k  WHERE admissible AND NOT (OR_{j<k} coalesce(rule_j,false))).
   Part 2: the boolean skeleton of the SQL text the real generator emits (regenerated on
           every run by translators/c01_skeleton.py) and its per-pair semantics. *)
From Coq Require Import List Bool Arith Lia.
From Splinkv Require Import Base.TV.
Import ListNotations.

(* ------------------------------------------------------------------------------------ *)
(* Part 1 *)
Section Canonical.
  Variable rec : Type.
  Definition rule := rec -> rec -> tv.
  Variable adm : rec -> rec -> bool.

  Definition keep (prev : list rule) (rk : rule) (l r : rec) : bool :=
    isT (rk l r) && adm l r && negb (existsb (fun p => coalesce_false (p l r)) prev).

  Definition cross (L R : list rec) : list (rec * rec) :=
    flat_map (fun l => map (fun r => (l, r)) R) L.

  Fixpoint block_aux (prev : list rule) (k : nat) (rules : list rule) (L R : list rec)
    : list (nat * (rec * rec)) :=
    match rules with
    | [] => []
    | rk :: rest =>
        map (fun p => (k, p)) (filter (fun p => keep prev rk (fst p) (snd p)) (cross L R))
        ++ block_aux (prev ++ [rk]) (S k) rest L R
    end.

  (* with no rules the code substitutes the single rule 1=1 *)
  Definition block (rules : list rule) (L R : list rec) : list (nat * (rec * rec)) :=
    block_aux [] 0 (match rules with [] => [fun _ _ => T] | _ => rules end) L R.

  Fixpoint first_true (k : nat) (rules : list rule) (l r : rec) : option nat :=
    match rules with
    | [] => None
    | rk :: rest => if isT (rk l r) then Some k else first_true (S k) rest l r
    end.
End Canonical.
Arguments cross {rec}.
Arguments block {rec}.
Arguments block_aux {rec}.
Arguments first_true {rec}.

(* ------------------------------------------------------------------------------------ *)
(* Part 2: skeletons *)
Inductive bexp :=
| BAtom (i : nat)            (* placeholder atom number i of some rule text *)
| BSalt (k n : nat)          (* ceiling(l.__splink_salt * n) = k *)
| BIdLt                      (* composite_id(l) < composite_id(r) *)
| BSdsNe                     (* l.source_dataset != r.source_dataset *)
| BSdsLt                     (* l.source_dataset < r.source_dataset *)
| BInIds (j : nat)           (* EXISTS (row of the materialised id-pair table of rule j) *)
| BAnd (a b : bexp) | BOr (a b : bexp) | BNot (a : bexp)
| BCoalF (a : bexp)          (* coalesce(a, false) *)
| BTrue.

Inductive selkind := SJoin | SFromIds (j : nat).
Record sel := { s_mk : nat; s_kind : selkind; s_on : bexp; s_where : bexp }.
(* ids_defs: for an exploding rule at position j, the (ON, WHERE) of the SELECT DISTINCT that
   materialises its id-pair table; listed in rule order *)
Record skeleton := { sels : list sel; ids_defs : list (nat * (bexp * bexp)) }.

Inductive link_type := Dedupe | LinkAndDedupe | LinkOnly | TwoDatasetLinkOnly.

Record valuation := {
  v_atoms : list tv;                (* outcome of atom i on this candidate pair *)
  v_parts : list (nat * nat);       (* n |-> ceiling(salt_l * n) *)
  v_idlt : bool; v_sdsne : bool; v_sdslt : bool }.

Fixpoint assoc (n : nat) (l : list (nat * nat)) : nat :=
  match l with [] => 0 | (a, b) :: t => if Nat.eqb a n then b else assoc n t end.
Fixpoint assocb (n : nat) (l : list (nat * bool)) : bool :=
  match l with [] => false | (a, b) :: t => if Nat.eqb a n then b else assocb n t end.

Fixpoint beval (v : valuation) (ids : list (nat * bool)) (e : bexp) : tv :=
  match e with
  | BAtom i => nth i (v_atoms v) U
  | BSalt k n => of_bool (Nat.eqb (assoc n (v_parts v)) k)
  | BIdLt => of_bool (v_idlt v)
  | BSdsNe => of_bool (v_sdsne v)
  | BSdsLt => of_bool (v_sdslt v)
  | BInIds j => of_bool (assocb j ids)
  | BAnd a b => and3 (beval v ids a) (beval v ids b)
  | BOr a b => or3 (beval v ids a) (beval v ids b)
  | BNot a => not3 (beval v ids a)
  | BCoalF a => of_bool (isT (beval v ids a))
  | BTrue => T
  end.

(* membership of the candidate pair in each materialised id table, in rule order *)
Fixpoint ids_vals (v : valuation) (acc : list (nat * bool)) (defs : list (nat * (bexp * bexp)))
  : list (nat * bool) :=
  match defs with
  | [] => acc
  | (j, (on, wh)) :: t =>
      ids_vals v (acc ++ [(j, isT (beval v acc on) && isT (beval v acc wh))]) t
  end.

Definition emit_sel (v : valuation) (ids : list (nat * bool)) (s : sel) : list nat :=
  match s_kind s with
  | SJoin => if isT (beval v ids (s_on s)) && isT (beval v ids (s_where s)) then [s_mk s] else []
  | SFromIds j => if assocb j ids then [s_mk s] else []
  end.

Definition emit (sk : skeleton) (v : valuation) : list nat :=
  let ids := ids_vals v [] (ids_defs sk) in
  flat_map (emit_sel v ids) (sels sk).

(* the specification side, per candidate pair *)
Definition adm_of (lt : link_type) (v : valuation) : bool :=
  match lt with
  | Dedupe | LinkAndDedupe => v_idlt v
  | LinkOnly => v_idlt v && v_sdsne v
  | TwoDatasetLinkOnly => true
  end.

Fixpoint first_true_e (v : valuation) (k : nat) (rules : list bexp) : option nat :=
  match rules with
  | [] => None
  | e :: t => if isT (beval v [] e) then Some k else first_true_e v (S k) t
  end.

Definition expected (lt : link_type) (rules : list bexp) (v : valuation) : list nat :=
  if adm_of lt v then
    match first_true_e v 0 (match rules with [] => [BTrue] | _ => rules end) with
    | Some k => [k] | None => [] end
  else [].

(* enumeration of all valuations over natoms atoms and the listed salting partition counts *)
Fixpoint all_lists {A} (dom : list A) (n : nat) : list (list A) :=
  match n with
  | 0 => [[]]
  | S m => flat_map (fun x => map (cons x) (all_lists dom m)) dom
  end.

Fixpoint all_parts (ns : list nat) : list (list (nat * nat)) :=
  match ns with
  | [] => [[]]
  | n :: t => flat_map (fun p => map (cons (n, p)) (all_parts t)) (seq 1 n)
  end.

Definition all_bools := [true; false].

Definition all_vals (lt : link_type) (natoms : nat) (ns : list nat) : list valuation :=
  flat_map (fun a =>
  flat_map (fun p =>
  flat_map (fun b1 =>
  flat_map (fun b2 =>
    (* in a two-dataset link every candidate has sds_l < sds_r by construction of L and R *)
    map (fun b3 => {| v_atoms := a; v_parts := p; v_idlt := b1; v_sdsne := b2; v_sdslt := b3 |})
        (match lt with TwoDatasetLinkOnly => [true] | _ => all_bools end))
    all_bools) all_bools) (all_parts ns)) (all_lists all_tv natoms).

Definition list_nat_eqb (a b : list nat) : bool :=
  if list_eq_dec Nat.eq_dec a b then true else false.

(* counterexample search is the same enumeration: first valuation on which the skeleton and
   the specification disagree *)
Definition skeleton_cex (lt : link_type) (natoms : nat) (ns : list nat) (rules : list bexp)
           (sk : skeleton) : option valuation :=
  find (fun v => negb (list_nat_eqb (emit sk v) (expected lt rules v))) (all_vals lt natoms ns).

(* every atom mentioned by the skeleton or the rule placeholders is one of the natoms enumerated *)
Fixpoint atoms_lt (n : nat) (e : bexp) : bool :=
  match e with
  | BAtom i => Nat.ltb i n
  | BAnd a b | BOr a b => atoms_lt n a && atoms_lt n b
  | BNot a | BCoalF a => atoms_lt n a
  | _ => true
  end.
Definition skeleton_atoms_bounded (natoms : nat) (rules : list bexp) (sk : skeleton) : bool :=
  forallb (atoms_lt natoms) rules &&
  forallb (fun s => atoms_lt natoms (s_on s) && atoms_lt natoms (s_where s)) (sels sk) &&
  forallb (fun d => atoms_lt natoms (fst (snd d)) && atoms_lt natoms (snd (snd d))) (ids_defs sk).

Definition skeleton_ok lt natoms ns rules sk : bool :=
  skeleton_atoms_bounded natoms rules sk &&
  forallb (fun v => list_nat_eqb (emit sk v) (expected lt rules v)) (all_vals lt natoms ns).

(* ------------------------------------------------------------------------------------ *)
(* The skeleton applied to concrete tables *)
Section Tables.
  Variable rec : Type.
  Variable atomf : nat -> rec -> rec -> tv.
  Variable partf : nat -> rec -> nat.
  Variable idltf sdsnef sdsltf : rec -> rec -> bool.
  Variable natoms : nat.
  Variable ns : list nat.

  Definition pair_val (lr : rec * rec) : valuation :=
    {| v_atoms := map (fun i => atomf i (fst lr) (snd lr)) (seq 0 natoms);
       v_parts := map (fun n => (n, partf n (fst lr))) ns;
       v_idlt := idltf (fst lr) (snd lr);
       v_sdsne := sdsnef (fst lr) (snd lr);
       v_sdslt := sdsltf (fst lr) (snd lr) |}.

  (* UNION ALL over the SELECTs, each a join over L x R *)
  Definition block_tables (sk : skeleton) (L R : list rec) : list (nat * (rec * rec)) :=
    flat_map (fun s =>
      flat_map (fun lr =>
        let v := pair_val lr in
        map (fun k => (k, lr)) (emit_sel v (ids_vals v [] (ids_defs sk)) s)) (cross L R))
      (sels sk).
End Tables.

(* ------------------------------------------------------------------------------------ *)
(* Shapes read from the source by translators/c01_split.py *)
Inductive agg := AMin | AMax | AOther.
Inductive cmpop := OEq | OLe | OGe | OLt | OGt | ONe | OOther.
(* the two SELECTs of split_df_concat_with_tf_into_two_tables_sqls: (output suffix is _left?,
   aggregate in the sub-select, filter is `sds = (sub-select)`, no other condition) *)
Record split_sel := { ss_left : bool; ss_agg : agg; ss_eq_subselect : bool }.
(* the Python guard of a call site that switches to the two-dataset path:
   `len(input tables) <op> <n>  and  link_type == "link_only"` *)
Record split_guard := { sg_op : cmpop; sg_n : nat; sg_link_only : bool }.
Definition split_sel_ok (s : split_sel) : bool :=
  ss_eq_subselect s &&
  match ss_left s, ss_agg s with true, AMin => true | false, AMax => true | _, _ => false end.
Definition split_ok (sels : list split_sel) : bool :=
  match sels with
  | [l; r] => ss_left l && negb (ss_left r) && split_sel_ok l && split_sel_ok r
  | _ => false
  end.
Definition split_guard_ok (g : split_guard) : bool :=
  match sg_op g with OEq => Nat.eqb (sg_n g) 2 && sg_link_only g | _ => false end.
(* vertical concatenation: set operator between the per-table SELECTs, whether each SELECT adds
   the table's name as source_dataset (when the column is not already there), salt column *)
Record concat_shape := { cs_union_all : bool; cs_sds_literal_each : bool; cs_salt_random : bool;
                         cs_same_columns_each : bool; cs_one_select_per_table : bool }.
Definition concat_ok (c : concat_shape) : bool :=
  cs_union_all c && cs_sds_literal_each c && cs_salt_random c && cs_same_columns_each c && cs_one_select_per_table c.
