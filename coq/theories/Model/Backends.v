(* C06: backend-agreement vocabulary.  Definitions only (proofs: Proofs/BackendsP.v).
   - numeric agreement with a reference within a mixed absolute/relative tolerance,
   - equality of partitions given as per-node cluster labels,
   - the dialect table (which SQL function a level emits, what is registered under that name,
     and whether it is a similarity or a distance) and its checker. *)
From Coq Require Import String Bool ZArith QArith Qabs List.
From Splinkv Require Import Base.TV Model.SqlExpr.
Import ListNotations.
Local Open Scope Q_scope.

(* |x - ref| <= tol * max(1, |ref|) *)
Definition scale (r : Q) : Q := if Qle_bool 1 (Qabs r) then Qabs r else 1.
Definition close (tol r x : Q) : bool := Qle_bool (Qabs (x - r)) (tol * scale r).
Definition all_close (tol : Q) (l : list (Q * Q)) : bool :=
  forallb (fun rx => close tol (fst rx) (snd rx)) l.

(* two labelings of the same node list induce the same partition *)
Definition same_partition (a b : list Z) : bool :=
  Nat.eqb (length a) (length b) &&
  forallb (fun p => forallb (fun q => Bool.eqb (Z.eqb (fst p) (fst q)) (Z.eqb (snd p) (snd q))) (combine a b)) (combine a b).

Fixpoint zlist_eqb (a b : list Z) : bool :=
  match a, b with
  | [], [] => true
  | x :: a', y :: b' => Z.eqb x y && zlist_eqb a' b'
  | _, _ => false
  end.
Fixpoint zrows_eqb (a b : list (list Z)) : bool :=
  match a, b with
  | [], [] => true
  | x :: a', y :: b' => zlist_eqb x y && zrows_eqb a' b'
  | _, _ => false
  end.

(* ---- dialect table ---- *)
Inductive fkind := Similarity | Distance | OtherKind.
Definition fkind_eqb (a b : fkind) : bool :=
  match a, b with Similarity, Similarity | Distance, Distance | OtherKind, OtherKind => true | _, _ => false end.

(* one row: the function a level creator emits for a role in a dialect, the comparison the level
   applies to it (ge = true for `f(l,r) >= t`), whether a function of that name exists in the
   backend (built in or registered by Splink) and what it computes there *)
Record fentry := { f_role : string; f_sqlname : string; f_ge : bool; f_registered : bool; f_kind : fkind }.

Definition entry_ok (e : fentry) : bool :=
  f_registered e && fkind_eqb (f_kind e) (if f_ge e then Similarity else Distance).
Definition dialect_table_ok (t : list (string * list fentry)) : bool :=
  forallb (fun de => forallb entry_ok (snd de)) t.
Definition bad_entries (t : list (string * list fentry)) : list (string * string) :=
  flat_map (fun de => map (fun e => (fst de, f_role e)) (filter (fun e => negb (entry_ok e)) (snd de))) t.

(* ---- SQL-level cross-dialect comparison: the conditions two dialects emit for one level creator must be the same
   expression after `strip`, up to a table of function-name synonyms (dialect name -> canonical name) ---- *)
Local Open Scope string_scope.
Fixpoint canon (syn : list (string * string)) (f : string) : string :=
  match syn with
  | [] => f
  | (a, b) :: t => if String.eqb f a then b else canon t f
  end.
Fixpoint rename (syn : list (string * string)) (e : expr) : expr :=
  match e with
  | ECol s c => ECol s c
  | ELit v => ELit v
  | ECmp op a b => ECmp op (rename syn a) (rename syn b)
  | EAnd a b => EAnd (rename syn a) (rename syn b)
  | EOr a b => EOr (rename syn a) (rename syn b)
  | ENot a => ENot (rename syn a)
  | EIsNull a => EIsNull (rename syn a)
  | EAbs a => EAbs (rename syn a)
  | EArith op a b => EArith op (rename syn a) (rename syn b)
  | ECase ws d => ECase (map (fun cv => match cv with (c, v) => (rename syn c, rename syn v) end) ws) (rename syn d)
  | EFn f args => EFn (canon syn f) (map (rename syn) args)
  | ECast a ty => ECast (rename syn a) ty
  | EParen a => EParen (rename syn a)
  | EPairwise m f a b => EPairwise m (canon syn f) (rename syn a) (rename syn b)
  end.
Definition same_modulo (syn : list (string * string)) (e1 e2 : expr) : bool :=
  expr_eqb (rename syn (strip e1)) (rename syn (strip e2)).

(* SQLite / Spark names -> the DuckDB name of the same function.
   synonyms_builtin: both names have an executable meaning in Model/Levels.v `builtin`, and the two meanings are proved
   equal (C06_synonyms_verified).  synonyms_x_only: no executable meaning in Coq (the epoch of a timestamp is abstract);
   that the two engine functions agree is tied by the correspondence run only (thorough tier, DuckDB vs Spark date levels). *)
Definition synonyms_builtin : list (string * string) :=
  [ ("jaro_sim", "jaro_similarity"); ("jaro_winkler", "jaro_winkler_similarity");
    ("size", "array_length"); ("array_intersect", "list_intersect") ].
Definition synonyms_x_only : list (string * string) := [ ("unix_timestamp", "epoch") ].
Definition synonyms : list (string * string) := synonyms_builtin ++ synonyms_x_only.
