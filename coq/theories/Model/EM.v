(* Model of Splink's expectation-maximisation training (definitions only).

   Code modelled (splink/internals):
     expectation_maximisation.py   count_agreement_patterns_sql, compute_new_parameters_sql,
                                   compute_proportions_for_new_parameters_sql, maximisation_step,
                                   populate_m_u_from_lookup, expectation_maximisation (loop, stop rule)
     predict.py                    predict_from_agreement_pattern_counts_sqls /
                                   predict_from_comparison_vectors_sqls (E-step = scoring SQL)
     em_training_session.py        EMTrainingSession.__init__ (deactivation, blocking adjusted prior), _train
     settings.py                   _get_comparison_levels_corresponding_to_training_blocking_rule
     comparison_level.py           m_probability / u_probability readers (NotObserved reads 1e-6),
                                   _trained_m_median (statistics.median of the numeric estimates)
     linker.py                     _populate_m_u_from_trained_values

   SQL-to-Gallina dictionary (DESIGN 3b): GROUP BY k = nodup of the keys + filter per key;
   sum(..) OVER (PARTITION BY ..) = total of the filtered table broadcast to its rows;
   WHERE c = filter.  Numbers are exact rationals; outputs of the M-step are canonicalised with
   Qred so that theorems can be stated with Leibniz equality. *)
From Coq Require Import List ZArith QArith Qreduction Qabs Qminmax Bool String Ascii Arith.
Import ListNotations.
Open Scope Q_scope.

(* ------------------------------------------------------------------------------------ *)
(* Parameters                                                                            *)
(* ------------------------------------------------------------------------------------ *)

(* a level's m or u: a number, or LEVEL_NOT_OBSERVED_TEXT *)
Inductive pval := Val (q : Q) | NotObserved.

(* ComparisonLevel.m_probability: the not-observed marker reads back as 1e-6 *)
Definition not_observed_read : Q := 1 # 1000000.
Definition rd (v : pval) : Q := match v with Val q => q | NotObserved => not_observed_read end.

(* one non-null comparison level.  lv_val = comparison_vector_value; lv_tfu = Some k when the
   level carries a term-frequency adjustment (weight 1, tf_minimum_u_value 0) whose numerator is
   the u of the k-th level of the same comparison (the exact-match level) *)
Record level := { lv_val : Z; lv_m : pval; lv_u : pval; lv_fixm : bool; lv_fixu : bool;
                  lv_tfu : option nat }.
Definition cmp := list level.                       (* _comparison_levels_excluding_null *)
Record params := { lam : Q; cmps : list cmp }.      (* CoreModelSettings *)
Record flags := { fix_m : bool; fix_u : bool; fix_lam : bool }.   (* training_fixed_probabilities *)

(* sum(..) : the running total is kept in lowest terms (Qred) so that the model stays cheap to
   execute on long tables; qadd a b == a + b *)
Definition qadd (a b : Q) : Q := Qred (a + b).
Definition sumQ {A : Type} (f : A -> Q) (l : list A) : Q := fold_right (fun x a => qadd (f x) a) 0 l.

(* ------------------------------------------------------------------------------------ *)
(* E-step: match probability of one comparison-vector row                                *)
(* ------------------------------------------------------------------------------------ *)

(* input row: gamma vector (one entry per trained comparison; -1 = null level), weight
   (agreement_pattern_count, or 1 on the row-wise path), and per comparison the TF divisor
   max(coalesce(tf_l,tf_r), coalesce(tf_r,tf_l)) when the row has one *)
Definition drow := (list Z * Q * list (option Q))%type.
Definition dg (r : drow) : list Z := fst (fst r).
Definition dw (r : drow) : Q := snd (fst r).
Definition dtf (r : drow) : list (option Q) := snd r.

Definition find_level (c : cmp) (v : Z) : option level := find (fun l => Z.eqb (lv_val l) v) c.

(* CASE WHEN gamma = v THEN cast(m/u as float8) ; tf adjustment: u_exact / divisor *)
Definition bf_level (c : cmp) (l : level) (tf : option Q) : Q :=
  (rd (lv_m l) / rd (lv_u l)) *
  match lv_tfu l, tf with
  | Some k, Some d => match nth_error c k with Some e => rd (lv_u e) / d | None => 1 end
  | _, _ => 1
  end.

Definition bf_cmp (c : cmp) (g : Z) (tf : option Q) : Q :=
  if Z.eqb g (-1) then 1
  else match find_level c g with Some l => bf_level c l tf | None => 1 end.

Fixpoint bf_prod (cs : list cmp) (g : list Z) (tf : list (option Q)) : Q :=
  match cs with
  | [] => 1
  | c :: cs' => bf_cmp c (hd (-1)%Z g) (hd None tf) * bf_prod cs' (tl g) (tl tf)
  end.

(* _combine_prior_and_bfs: prior = 1 gives match_probability 1.0 *)
Definition posterior (p : params) (g : list Z) (tf : list (option Q)) : Q :=
  if Qeq_bool (lam p) 1 then 1
  else let bf := (lam p / (1 - lam p)) * bf_prod (cmps p) g tf in bf / (1 + bf).

(* __splink__df_predict restricted to what the M-step reads: gammas, count, match_probability *)
Definition srow := (list Z * Q * Q)%type.
Definition sg (r : srow) : list Z := fst (fst r).
Definition sw (r : srow) : Q := snd (fst r).
Definition sp (r : srow) : Q := snd r.

Definition estep (p : params) (data : list drow) : list srow :=
  map (fun r => (dg r, dw r, posterior p (dg r) (dtf r))) data.

(* ------------------------------------------------------------------------------------ *)
(* M-step, SQL-shaped                                                                    *)
(* ------------------------------------------------------------------------------------ *)

Definition gi (i : nat) (r : srow) : Z := nth i (sg r) (-1)%Z.
Definition mterm (r : srow) : Q := sp r * sw r.          (* match_probability * agreement_pattern_count *)
Definition uterm (r : srow) : Q := (1 - sp r) * sw r.    (* (1-match_probability) * agreement_pattern_count *)

(* compute_new_parameters_sql, one UNION ALL branch: GROUP BY gamma_i *)
Definition keys (i : nat) (sc : list srow) : list Z := nodup Z.eq_dec (map (gi i) sc).
Definition rows_at (i : nat) (v : Z) (sc : list srow) : list srow := filter (fun r => Z.eqb (gi i r) v) sc.
Definition counts_row := (Z * Q * Q)%type.               (* comparison_vector_value, m_count, u_count *)
Definition cr_v (x : counts_row) : Z := fst (fst x).
Definition cr_m (x : counts_row) : Q := snd (fst x).
Definition cr_u (x : counts_row) : Q := snd x.
Definition counts_tbl (i : nat) (sc : list srow) : list counts_row :=
  map (fun v => (v, sumQ mterm (rows_at i v sc), sumQ uterm (rows_at i v sc))) (keys i sc).

(* compute_proportions_for_new_parameters_sql: WHERE comparison_vector_value != -1, then
   m_count / sum(m_count) OVER (PARTITION BY output_column_name) *)
Definition props_tbl (i : nat) (sc : list srow) : list counts_row :=
  let t := filter (fun x => negb (Z.eqb (cr_v x) (-1))) (counts_tbl i sc) in
  let M := sumQ cr_m t in
  let U := sumQ cr_u t in
  map (fun x => (cr_v x, cr_m x / M, cr_u x / U)) t.

(* the '_probability_two_random_records_match' branch *)
Definition lambda_new (sc : list srow) : Q := sumQ mterm sc / sumQ sw sc.

(* m_u_records_to_lookup_dict + the KeyError branch of populate_m_u_from_lookup *)
Definition lookup (v : Z) (t : list counts_row) : option counts_row :=
  find (fun x => Z.eqb (cr_v x) v) t.

Definition new_m (fl : flags) (t : list counts_row) (l : level) : pval :=
  if fix_m fl || lv_fixm l then lv_m l
  else match lookup (lv_val l) t with Some x => Val (Qred (cr_m x)) | None => NotObserved end.
Definition new_u (fl : flags) (t : list counts_row) (l : level) : pval :=
  if fix_u fl || lv_fixu l then lv_u l
  else match lookup (lv_val l) t with Some x => Val (Qred (cr_u x)) | None => NotObserved end.

Definition upd_level (fl : flags) (t : list counts_row) (l : level) : level :=
  {| lv_val := lv_val l; lv_m := new_m fl t l; lv_u := new_u fl t l;
     lv_fixm := lv_fixm l; lv_fixu := lv_fixu l; lv_tfu := lv_tfu l |}.

Fixpoint mapi_from {A B : Type} (f : nat -> A -> B) (i : nat) (l : list A) : list B :=
  match l with [] => [] | x :: t => f i x :: mapi_from f (S i) t end.

(* maximisation_step *)
Definition mstep (fl : flags) (p : params) (sc : list srow) : params :=
  {| lam := if fix_lam fl then lam p else Qred (lambda_new sc);
     cmps := mapi_from (fun i c => map (upd_level fl (props_tbl i sc)) c) 0 (cmps p) |}.

Definition em_step (fl : flags) (p : params) (data : list drow) : params :=
  mstep fl p (estep p data).

(* ------------------------------------------------------------------------------------ *)
(* Reference EM (closed form) used by C03_mstep_is_reference_em                           *)
(* ------------------------------------------------------------------------------------ *)

Definition observed (i : nat) (v : Z) (sc : list srow) : bool := existsb (fun r => Z.eqb (gi i r) v) sc.
Definition nonnull (i : nat) (sc : list srow) : list srow := filter (fun r => negb (Z.eqb (gi i r) (-1))) sc.

Definition ref_m (i : nat) (v : Z) (sc : list srow) : pval :=
  if observed i v sc then Val (Qred (sumQ mterm (rows_at i v sc) / sumQ mterm (nonnull i sc))) else NotObserved.
Definition ref_u (i : nat) (v : Z) (sc : list srow) : pval :=
  if observed i v sc then Val (Qred (sumQ uterm (rows_at i v sc) / sumQ uterm (nonnull i sc))) else NotObserved.
Definition ref_level (fl : flags) (i : nat) (sc : list srow) (l : level) : level :=
  {| lv_val := lv_val l;
     lv_m := if fix_m fl || lv_fixm l then lv_m l else ref_m i (lv_val l) sc;
     lv_u := if fix_u fl || lv_fixu l then lv_u l else ref_u i (lv_val l) sc;
     lv_fixm := lv_fixm l; lv_fixu := lv_fixu l; lv_tfu := lv_tfu l |}.
Definition ref_mstep (fl : flags) (p : params) (sc : list srow) : params :=
  {| lam := if fix_lam fl then lam p else Qred (sumQ mterm sc / sumQ sw sc);
     cmps := mapi_from (fun i c => map (ref_level fl i sc) c) 0 (cmps p) |}.

(* ------------------------------------------------------------------------------------ *)
(* Agreement-pattern path                                                                *)
(* ------------------------------------------------------------------------------------ *)

Definition gvec_eqb (a b : list Z) : bool := if list_eq_dec Z.eq_dec a b then true else false.

(* count_agreement_patterns_sql: GROUP BY all gamma columns, count( * ) *)
Definition count_patterns (rows : list (list Z)) : list (list Z * positive) :=
  map (fun g => (g, Pos.of_nat (List.length (filter (gvec_eqb g) rows))))
      (nodup (list_eq_dec Z.eq_dec) rows).

Definition pattern_data (pc : list (list Z * positive)) : list drow :=
  map (fun x => (fst x, inject_Z (Zpos (snd x)), @nil (option Q))) pc.
Definition expand (pc : list (list Z * positive)) : list (list Z) :=
  flat_map (fun x => repeat (fst x) (Pos.to_nat (snd x))) pc.
Definition rowwise_data (rows : list (list Z)) : list drow :=
  map (fun g => (g, 1, @nil (option Q))) rows.

(* ------------------------------------------------------------------------------------ *)
(* The iteration loop with its stop rule (expectation_maximisation)                      *)
(* ------------------------------------------------------------------------------------ *)

Definition level_change (l l' : level) : Q :=
  Qmax (Qabs (rd (lv_m l') - rd (lv_m l))) (Qabs (rd (lv_u l') - rd (lv_u l))).
Definition cmp_change (c c' : cmp) : Q :=
  fold_right Qmax 0 (map (fun ll => level_change (fst ll) (snd ll)) (combine c c')).
(* _max_change_in_parameters_comparison_levels: the largest absolute change *)
Definition max_change (p p' : params) : Q :=
  Qmax (Qabs (lam p' - lam p))
       (fold_right Qmax 0 (map (fun cc => cmp_change (fst cc) (snd cc)) (combine (cmps p) (cmps p')))).

Definition Qlt_bool (a b : Q) : bool := negb (Qle_bool b a).

(* history = [start; after iteration 1; ...]; stops after max_iterations or as soon as the
   largest change is < em_convergence *)
Fixpoint em_history (fl : flags) (conv : Q) (fuel : nat) (p : params) (data : list drow) : list params :=
  match fuel with
  | O => [p]
  | S k => let p' := em_step fl p data in
           if Qlt_bool (max_change p p') conv then [p; p'] else p :: em_history fl conv k p' data
  end.

(* ------------------------------------------------------------------------------------ *)
(* Median of the numeric estimates (statistics.median)                                   *)
(* ------------------------------------------------------------------------------------ *)

Fixpoint qinsert (x : Q) (l : list Q) : list Q :=
  match l with [] => [x] | y :: t => if Qle_bool x y then x :: l else y :: qinsert x t end.
Definition qsort (l : list Q) : list Q := fold_right qinsert [] l.

(* isinstance(v, (int, float)) filter, values canonicalised *)
Definition numeric (l : list pval) : list Q :=
  flat_map (fun v => match v with Val q => [Qred q] | NotObserved => [] end) l.

Definition median (l : list Q) : option Q :=
  let s := qsort l in
  let n := List.length s in
  match n with
  | O => None
  | _ => if Nat.odd n then Some (nth (n / 2) s 0)
         else Some (Qred ((nth (n / 2 - 1) s 0 + nth (n / 2) s 0) / 2))
  end.

(* ------------------------------------------------------------------------------------ *)
(* The linker's model and one training session                                           *)
(* ------------------------------------------------------------------------------------ *)

(* a level of the linker's settings: current values + the list of trained estimates
   (_trained_m_probabilities) + the raw column names when the level is an exact match
   (_is_exact_match / _exact_match_colnames; None otherwise) *)
Record mlevel := { ml_lv : level; ml_tm : list pval; ml_tu : list pval; ml_exact : option (list string) }.
Record mcmp := { mc_name : string; mc_cols : list string (* _input_columns_used_by_case_statement *);
                 mc_levels : list mlevel }.
Record model := { md_lam : Q; md_cmps : list mcmp }.

Definition lower_ascii (c : ascii) : ascii :=
  let n := nat_of_ascii c in
  if (Nat.leb 65 n && Nat.leb n 90)%bool then ascii_of_nat (n + 32) else c.
Fixpoint lower (s : string) : string :=
  match s with EmptyString => EmptyString | String c t => String (lower_ascii c) (lower t) end.

Definition smem (x : string) (l : list string) : bool := existsb (String.eqb x) l.
Definition ssubset (a b : list string) : bool := forallb (fun x => smem x b) a.
Definition sminus (b a : list string) : list string := filter (fun x => negb (smem x a)) b.

(* comparisons 'used up' by the blocking rule: {c.lower() for c in br_cols}.intersection(
   column_name.lower() for the comparison's columns)  (case-insensitive since fix cb4534c9) *)
Definition deactivated (br_cols : list string) (c : mcmp) : bool :=
  existsb (fun x => smem (lower x) (map lower br_cols)) (mc_cols c).
Definition active_cmps (br_cols : list string) (m : model) : list mcmp :=
  filter (fun c => negb (deactivated br_cols c)) (md_cmps m).

(* exact_comparison_levels.sort(key=lambda x: -len(colnames)): stable (ties keep their original
   order: an element is inserted BEFORE later elements of equal length), descending length *)
Fixpoint sinsert {X : Type} (x : list string * X) (l : list (list string * X)) : list (list string * X) :=
  match l with
  | [] => [x]
  | y :: t => if Nat.leb (List.length (fst y)) (List.length (fst x)) then x :: l else y :: sinsert x t
  end.
Definition ssort {X : Type} (l : list (list string * X)) : list (list string * X) :=
  fold_right sinsert [] l.

Fixpoint greedy {X : Type} (cands : list (list string * X)) (cols : list string) : list X :=
  match cands with
  | [] => []
  | (ec, x) :: t => if ssubset ec cols then x :: greedy t (sminus cols ec) else greedy t cols
  end.

(* _get_comparison_levels_corresponding_to_training_blocking_rule.
   nl : normalisation applied to the LEVEL's column names (the code lower-cases the level's
        sql_condition);  nb : normalisation applied to the BLOCKING RULE's column names
        (the code lower-cases them too; before fix 6a6654d9 it applied none) *)
Definition exact_cands (m : model) (nl : string -> string) : list (list string * level) :=
  flat_map (fun c => flat_map (fun l => match ml_exact l with
                                        | Some cols => [(map nl cols, ml_lv l)]
                                        | None => [] end) (mc_levels c)) (md_cmps m).
Definition levels_for_rule (nl nb : string -> string) (br_cols : list string) (m : model) : list level :=
  greedy (ssort (exact_cands m nl)) (map nb br_cols).

Definition prob_to_bf (p : Q) : Q := p / (1 - p).
Definition bf_to_prob (b : Q) : Q := b / (1 + b).
Definition level_bf (l : level) : Q := rd (lv_m l) / rd (lv_u l).     (* ComparisonLevel._bayes_factor *)

(* _blocking_adjusted_probability_two_random_records_match *)
Definition adjusted_prior (nl nb : string -> string) (br_cols : list string) (m : model) : Q :=
  bf_to_prob (fold_left (fun bf l => level_bf l * bf) (levels_for_rule nl nb br_cols m) (prob_to_bf (md_lam m))).

(* what the code does (since fix 6a6654d9): both sides lower-cased *)
Definition adjusted_prior_impl := adjusted_prior lower lower.
(* the behaviour before that fix: level names lower-cased, blocking-rule names untouched *)
Definition adjusted_prior_one_sided := adjusted_prior lower (fun s => s).
(* the specification: names compared as they are, on both sides *)
Definition adjusted_prior_spec := adjusted_prior (fun s => s) (fun s => s).

Definition start_params (nl nb : string -> string) (br_cols : list string) (m : model) : params :=
  {| lam := adjusted_prior nl nb br_cols m;
     cmps := map (fun c => map ml_lv (mc_levels c)) (active_cmps br_cols m) |}.

(* _train: append the session's final values to the trained lists of the ACTIVE comparisons *)
Definition append_level (fl : flags) (final : level) (l : mlevel) : mlevel :=
  {| ml_lv := ml_lv l;
     ml_tm := if fix_m fl then ml_tm l else ml_tm l ++ [lv_m final];
     ml_tu := if fix_u fl then ml_tu l else ml_tu l ++ [lv_u final];
     ml_exact := ml_exact l |}.
Definition append_cmp (fl : flags) (final : cmp) (c : mcmp) : mcmp :=
  {| mc_name := mc_name c; mc_cols := mc_cols c;
     mc_levels := map (fun fl_l => append_level fl (fst fl_l) (snd fl_l)) (combine final (mc_levels c)) |}.
Fixpoint append_trained (fl : flags) (br_cols : list string) (finals : list cmp) (cs : list mcmp) : list mcmp :=
  match cs with
  | [] => []
  | c :: t => if deactivated br_cols c then c :: append_trained fl br_cols finals t
              else match finals with
                   | f :: ft => append_cmp fl f c :: append_trained fl br_cols ft t
                   | [] => c :: append_trained fl br_cols [] t
                   end
  end.

(* Linker._populate_m_u_from_trained_values *)
Definition populate_level (l : mlevel) : mlevel :=
  let lv := ml_lv l in
  {| ml_lv := {| lv_val := lv_val lv;
                 lv_m := match median (numeric (ml_tm l)) with
                         | Some q => if lv_fixm lv then lv_m lv else Val q | None => lv_m lv end;
                 lv_u := match median (numeric (ml_tu l)) with
                         | Some q => if lv_fixu lv then lv_u lv else Val q | None => lv_u lv end;
                 lv_fixm := lv_fixm lv; lv_fixu := lv_fixu lv; lv_tfu := lv_tfu lv |};
     ml_tm := ml_tm l; ml_tu := ml_tu l; ml_exact := ml_exact l |}.
Definition populate_cmp (c : mcmp) : mcmp :=
  {| mc_name := mc_name c; mc_cols := mc_cols c; mc_levels := map populate_level (mc_levels c) |}.
Definition populate (m : model) : model :=
  {| md_lam := md_lam m; md_cmps := map populate_cmp (md_cmps m) |}.

Definition finish_session (fl : flags) (br_cols : list string) (final : params) (m : model) : model :=
  populate {| md_lam := md_lam m; md_cmps := append_trained fl br_cols (cmps final) (md_cmps m) |}.

(* estimate_parameters_using_expectation_maximisation (one session) *)
Definition session (nl nb : string -> string) (fl : flags) (conv : Q) (max_iter : nat)
           (br_cols : list string) (data : list drow) (m : model) : model :=
  let hist := em_history fl conv max_iter (start_params nl nb br_cols m) data in
  finish_session fl br_cols (last hist (start_params nl nb br_cols m)) m.
