(* C13: re-presentations of one linkage problem, at model level.
   Records are abstract; a re-presentation is a map on records (relabelling / retyping ids,
   renaming columns changes nothing at this level because rules are functions), a permutation
   of rows, a permutation of the rule list, or a change of salting partitions. *)
From Coq Require Import List Bool Arith Lia Permutation.
From Splinkv Require Import Base.TV Model.Blocking.
Import ListNotations.

Section Relabel.
  Variables (A B : Type) (f : A -> B).
  Definition map_out (x : nat * (A * A)) : nat * (B * B) :=
    (fst x, (f (fst (snd x)), f (snd (snd x)))).
End Relabel.

(* pair set (forgetting match keys) *)
Definition pairs_of {A} (out : list (nat * (A * A))) : list (A * A) := map snd out.

(* a bexp mentions no salt test *)
Fixpoint salt_free (e : bexp) : bool :=
  match e with
  | BSalt _ _ => false
  | BAnd a b | BOr a b => salt_free a && salt_free b
  | BNot a | BCoalF a => salt_free a
  | _ => true
  end.
