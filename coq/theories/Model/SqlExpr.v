(* Deep embedding of the SQL scalar-expression fragment emitted by Splink's comparison-level
   library, with SQL three-valued evaluation.  Definitions only (proofs: Proofs/LevelsP.v).

   The evaluation is parameterised by
     - an engine profile (how `/` behaves on two integers and on a zero divisor: the two points
       where DuckDB/Spark and SQLite differ observably inside this fragment),
     - an interpretation `fenv` of named functions (string metrics, array functions, trig,
       date parsing ...): executable for some names (see Model/Levels.v), abstract otherwise,
     - an environment giving the value of column `c` on the left (_l) / right (_r) record. *)
From Coq Require Import List Bool String Ascii ZArith QArith Qabs.
From Splinkv Require Import Base.TV.
Import ListNotations.
Local Open Scope string_scope.

Inductive val :=
| VNull
| VBool (b : bool)
| VInt (z : Z)                 (* INTEGER / BIGINT *)
| VNum (q : Q)                 (* DOUBLE / DECIMAL / REAL, exact *)
| VStr (s : string)
| VArr (l : list string)       (* array of non-NULL strings *)
| VInf.                        (* +infinity or NaN: above every finite number (DuckDB x/0) *)

Inductive cmp := CEq | CNe | CLt | CLe | CGt | CGe.
Inductive arith := Add | Sub | Mul | Div.

Inductive expr :=
| ECol (side : bool) (c : string)           (* side = true: <c>_l, false: <c>_r *)
| ELit (v : val)                            (* literals; NULL is ELit VNull *)
| ECmp (op : cmp) (a b : expr)
| EAnd (a b : expr)
| EOr (a b : expr)
| ENot (a : expr)
| EIsNull (a : expr)                        (* a IS NULL; IS NOT NULL is ENot (EIsNull a) *)
| EAbs (a : expr)
| EArith (op : arith) (a b : expr)
| ECase (ws : list (expr * expr)) (d : expr)  (* CASE WHEN c THEN v ... ELSE d END *)
| EFn (f : string) (args : list expr)       (* named function, lower-cased name *)
| ECast (a : expr) (ty : string)            (* interpreted as function "cast:<ty>" *)
| EParen (a : expr)
(* aggregate (max if agg_max else min) over the cross product of two string arrays of f(x, y):
   list_min(list_transform(flatten(list_transform(a, x -> list_transform(b, y -> [x, y]))),
            pair -> f(pair[1], pair[2])))   (PairwiseStringDistanceFunctionLevel) *)
| EPairwise (agg_max : bool) (f : string) (a b : expr).

Record profile := { int_div : bool;            (* INTEGER / INTEGER truncates (SQLite) *)
                    div0 : val }.              (* value of x / 0 (x >= 0 in this fragment) *)
Definition duckdb_profile := {| int_div := false; div0 := VInf |}.
Definition sqlite_profile := {| int_div := true; div0 := VNull |}.
Definition spark_profile := {| int_div := false; div0 := VNull |}.

(* ---------- values ---------- *)
Definition to_tv (v : val) : tv :=
  match v with VBool true => T | VBool false => F | _ => U end.
Definition of_tv (t : tv) : val :=
  match t with T => VBool true | F => VBool false | U => VNull end.
Definition is_null (v : val) : bool := match v with VNull => true | _ => false end.

Inductive xnum := XFin (q : Q) | XInf.
Definition to_xnum (v : val) : option xnum :=
  match v with
  | VInt z => Some (XFin (inject_Z z))
  | VNum q => Some (XFin q)
  | VInf => Some XInf
  | _ => None
  end.
Definition numQ (v : val) : option Q :=
  match v with VInt z => Some (inject_Z z) | VNum q => Some q | _ => None end.

Definition xle (a b : xnum) : bool :=
  match a, b with
  | XFin x, XFin y => Qle_bool x y
  | _, XInf => true
  | XInf, XFin _ => false
  end.
Definition xeq (a b : xnum) : bool :=
  match a, b with
  | XFin x, XFin y => Qeq_bool x y
  | XInf, XInf => true
  | _, _ => false
  end.

Fixpoint strs_eqb (a b : list string) : bool :=
  match a, b with
  | [], [] => true
  | x :: a', y :: b' => String.eqb x y && strs_eqb a' b'
  | _, _ => false
  end.

(* le / eq on two non-NULL values of one type; None = not comparable in the model *)
Definition val_le (a b : val) : option bool :=
  match to_xnum a, to_xnum b with
  | Some x, Some y => Some (xle x y)
  | _, _ =>
    match a, b with
    | VStr s, VStr t => Some (String.leb s t)
    | VBool x, VBool y => Some (implb x y)
    | _, _ => None
    end
  end.
Definition val_eq (a b : val) : option bool :=
  match to_xnum a, to_xnum b with
  | Some x, Some y => Some (xeq x y)
  | _, _ =>
    match a, b with
    | VStr s, VStr t => Some (String.eqb s t)
    | VBool x, VBool y => Some (Bool.eqb x y)
    | VArr s, VArr t => Some (strs_eqb s t)
    | _, _ => None
    end
  end.

Definition opt_tv (o : option bool) : tv := match o with Some b => of_bool b | None => U end.

Definition cmp3 (op : cmp) (a b : val) : tv :=
  if is_null a || is_null b then U else
  match op with
  | CEq => opt_tv (val_eq a b)
  | CNe => not3 (opt_tv (val_eq a b))
  | CLe => opt_tv (val_le a b)
  | CGe => opt_tv (val_le b a)
  | CLt => not3 (opt_tv (val_le b a))
  | CGt => not3 (opt_tv (val_le a b))
  end.

Definition abs_val (v : val) : val :=
  match v with
  | VInt z => VInt (Z.abs z)
  | VNum q => VNum (Qabs q)
  | VInf => VInf
  | _ => VNull
  end.

Definition arith_val (P : profile) (op : arith) (a b : val) : val :=
  match a, b with
  | VInt x, VInt y =>
    match op with
    | Add => VInt (x + y)
    | Sub => VInt (x - y)
    | Mul => VInt (x * y)
    | Div => if Z.eqb y 0 then div0 P
             else if int_div P then VInt (Z.quot x y)
             else VNum (Qred (inject_Z x / inject_Z y))
    end
  | _, _ =>
    match numQ a, numQ b with
    | Some x, Some y =>
      match op with
      | Add => VNum (Qred (x + y))
      | Sub => VNum (Qred (x - y))
      | Mul => VNum (Qred (x * y))
      | Div => if Qeq_bool y 0 then div0 P else VNum (Qred (x / y))
      end
    | _, _ => VNull        (* NULL operand; non-numeric / infinite operands are not modelled *)
    end
  end.

(* min / max of a list of numeric values; NULL for the empty list or a non-numeric element *)
Definition num_pick (take_max : bool) (a b : val) : val :=
  match to_xnum a, to_xnum b with
  | Some x, Some y => if take_max then (if xle x y then b else a) else (if xle x y then a else b)
  | _, _ => VNull
  end.
Definition agg_vals (take_max : bool) (l : list val) : val :=
  match l with
  | [] => VNull
  | v :: t => fold_left (num_pick take_max) t (match to_xnum v with Some _ => v | None => VNull end)
  end.
Definition cross (a b : list string) : list (string * string) :=
  flat_map (fun x => map (fun y => (x, y)) b) a.

(* ---------- evaluation ---------- *)
Section Eval.
  Variable P : profile.
  Variable fenv : string -> list val -> val.
  Variable env : bool -> string -> val.

  Fixpoint eval (e : expr) : val :=
    match e with
    | ECol s c => env s c
    | ELit v => v
    | ECmp op a b => of_tv (cmp3 op (eval a) (eval b))
    | EAnd a b => of_tv (and3 (to_tv (eval a)) (to_tv (eval b)))
    | EOr a b => of_tv (or3 (to_tv (eval a)) (to_tv (eval b)))
    | ENot a => of_tv (not3 (to_tv (eval a)))
    | EIsNull a => VBool (is_null (eval a))
    | EAbs a => abs_val (eval a)
    | EArith op a b => arith_val P op (eval a) (eval b)
    | ECase ws d =>
      (fix go (l : list (expr * expr)) : val :=
         match l with
         | [] => eval d
         | (c, v) :: t => if isT (to_tv (eval c)) then eval v else go t
         end) ws
    | EFn f args => fenv f (map eval args)
    | ECast a ty => fenv ("cast:" ++ ty) [eval a]
    | EParen a => eval a
    | EPairwise mx f a b =>
      match eval a, eval b with
      | VArr la, VArr lb => agg_vals mx (map (fun xy => fenv f [VStr (fst xy); VStr (snd xy)]) (cross la lb))
      | _, _ => VNull
      end
    end.

  Definition sem (e : expr) : tv := to_tv (eval e).
End Eval.

(* ---------- syntactic normaliser and decidable equality (for translator obligations) ------ *)
Fixpoint strip (e : expr) : expr :=
  match e with
  | ECol s c => ECol s c
  | ELit v => ELit v
  | ECmp op a b => ECmp op (strip a) (strip b)
  | EAnd a b => EAnd (strip a) (strip b)
  | EOr a b => EOr (strip a) (strip b)
  | ENot a => ENot (strip a)
  | EIsNull a => EIsNull (strip a)
  | EAbs a => EAbs (strip a)
  | EArith op a b => EArith op (strip a) (strip b)
  | ECase ws d => ECase (map (fun cv => match cv with (c, v) => (strip c, strip v) end) ws) (strip d)
  | EFn f args => EFn f (map strip args)
  | ECast a ty => ECast (strip a) ty
  | EParen a => strip a
  | EPairwise mx f a b => EPairwise mx f (strip a) (strip b)
  end.

Definition Q_eqb (a b : Q) : bool := Z.eqb (Qnum a) (Qnum b) && Pos.eqb (Qden a) (Qden b).

Definition val_eqb (a b : val) : bool :=
  match a, b with
  | VNull, VNull => true
  | VBool x, VBool y => Bool.eqb x y
  | VInt x, VInt y => Z.eqb x y
  | VNum x, VNum y => Q_eqb x y
  | VStr x, VStr y => String.eqb x y
  | VArr x, VArr y => strs_eqb x y
  | VInf, VInf => true
  | _, _ => false
  end.

Definition cmp_eqb (a b : cmp) : bool :=
  match a, b with
  | CEq, CEq | CNe, CNe | CLt, CLt | CLe, CLe | CGt, CGt | CGe, CGe => true
  | _, _ => false
  end.
Definition arith_eqb (a b : arith) : bool :=
  match a, b with
  | Add, Add | Sub, Sub | Mul, Mul | Div, Div => true
  | _, _ => false
  end.

Fixpoint expr_eqb (a b : expr) {struct a} : bool :=
  match a, b with
  | ECol s c, ECol s' c' => Bool.eqb s s' && String.eqb c c'
  | ELit v, ELit v' => val_eqb v v'
  | ECmp o x y, ECmp o' x' y' => cmp_eqb o o' && expr_eqb x x' && expr_eqb y y'
  | EAnd x y, EAnd x' y' => expr_eqb x x' && expr_eqb y y'
  | EOr x y, EOr x' y' => expr_eqb x x' && expr_eqb y y'
  | ENot x, ENot x' => expr_eqb x x'
  | EIsNull x, EIsNull x' => expr_eqb x x'
  | EAbs x, EAbs x' => expr_eqb x x'
  | EArith o x y, EArith o' x' y' => arith_eqb o o' && expr_eqb x x' && expr_eqb y y'
  | ECase ws d, ECase ws' d' =>
    (fix go (l l' : list (expr * expr)) : bool :=
       match l, l' with
       | [], [] => true
       | (c, v) :: t, (c', v') :: t' => expr_eqb c c' && expr_eqb v v' && go t t'
       | _, _ => false
       end) ws ws' && expr_eqb d d'
  | EFn f xs, EFn f' xs' =>
    String.eqb f f' &&
    (fix go (l l' : list expr) : bool :=
       match l, l' with
       | [], [] => true
       | x :: t, x' :: t' => expr_eqb x x' && go t t'
       | _, _ => false
       end) xs xs'
  | ECast x ty, ECast x' ty' => expr_eqb x x' && String.eqb ty ty'
  | EParen x, EParen x' => expr_eqb x x'
  | EPairwise m f x y, EPairwise m' f' x' y' => Bool.eqb m m' && String.eqb f f' && expr_eqb x x' && expr_eqb y y'
  | _, _ => false
  end.

(* what a translator obligation evaluates: current (parenthesised) tree vs generator output *)
Definition same_expr (current generated : expr) : bool := expr_eqb (strip current) (strip generated).
