(* Model of splink/internals/graph_metrics.py + edge_metrics.py (compute_graph_metrics),
   one definition per output_table_name.  Ids and cluster ids are Z (the harness passes ranks
   of the composite id strings), probabilities Q, metrics exact rationals.

   igraph is not modelled: `is_bridge_b` decides bridges by the model's own reachability on
   the thresholded multigraph (edge occurrence i is a bridge iff its endpoints are not
   connected once that occurrence is removed).  The integer relabelling
   (__splink__nodes_integer_mapping and back) is a bijection on the node ids and is not
   modelled. *)
From Coq Require Import List Bool ZArith QArith Lia.
Import ListNotations.
Open Scope Z_scope.

Definition pedge := (Z * Z * Q)%type.           (* composite id l, composite id r, match_probability *)
Definition pe_l (e : pedge) := fst (fst e).
Definition pe_r (e : pedge) := snd (fst e).
Definition pe_p (e : pedge) := snd e.

Definition crow := (Z * Z)%type.                (* df_clustered: composite_unique_id, cluster_id *)

Definition pairZ_dec : forall a b : Z * Z, {a = b} + {a <> b}.
Proof. decide equality; apply Z.eq_dec. Defined.

(* __splink__truncated_edges: WHERE match_probability >= threshold *)
Definition truncated_edges (thr : Q) (P : list pedge) : list pedge :=
  filter (fun e => Qle_bool thr (pe_p e)) P.

(* __splink__all_nodes: (l as node, r as neighbour) UNION ALL (r as node, l as neighbour) *)
Definition all_nodes (TE : list pedge) : list (Z * Z) :=
  map (fun e => (pe_l e, pe_r e)) TE ++ map (fun e => (pe_r e, pe_l e)) TE.

(* c LEFT JOIN n ON c.uid = n.node : rows (uid, cluster_id, neighbour or NULL) *)
Definition left_join_nodes (C : list crow) (AN : list (Z * Z)) : list (Z * Z * option Z) :=
  flat_map (fun c =>
              match filter (fun n => fst c =? fst n) AN with
              | [] => [(fst c, snd c, None)]
              | m => map (fun n => (fst c, snd c, Some (snd n))) m
              end) C.

Definition is_some {A : Type} (o : option A) : bool := match o with Some _ => true | None => false end.

(* __splink__graph_metrics_node_degree:
     GROUP BY composite_unique_id, cluster_id
     COUNT( * ) FILTER (WHERE n.neighbour IS NOT NULL) AS node_degree
     COUNT( * ) OVER (PARTITION BY c.cluster_id) AS cluster_size   -- evaluated over the groups
   columns: uid, cluster_id, node_degree, cluster_size *)
Definition ndrow := (Z * Z * Z * Z)%type.
Definition nd_uid (r : ndrow) := fst (fst (fst r)).
Definition nd_cid (r : ndrow) := snd (fst (fst r)).
Definition nd_deg (r : ndrow) := snd (fst r).
Definition nd_size (r : ndrow) := snd r.

Definition node_degree_table (C : list crow) (TE : list pedge) : list ndrow :=
  let J := left_join_nodes C (all_nodes TE) in
  let K := nodup pairZ_dec (map (fun r => (fst (fst r), snd (fst r))) J) in
  map (fun k =>
         (fst k, snd k,
          Z.of_nat (length (filter (fun r => (fst (fst r) =? fst k) && (snd (fst r) =? snd k) && is_some (snd r)) J)),
          Z.of_nat (length (filter (fun k' => snd k' =? snd k) K)))) K.

(* __splink__graph_metrics_nodes: uid, cluster_id, node_degree, node_centrality
     CASE WHEN cluster_size > 1 THEN (1.0 * node_degree) / (cluster_size - 1) ELSE 0 END *)
Definition nmrow := (Z * Z * Z * Q)%type.
Definition nm_uid (r : nmrow) := fst (fst (fst r)).
Definition nm_cid (r : nmrow) := snd (fst (fst r)).
Definition nm_deg (r : nmrow) := snd (fst r).
Definition nm_cen (r : nmrow) := snd r.

Definition node_centrality (deg size : Z) : Q :=
  if 1 <? size then (inject_Z deg / inject_Z (size - 1))%Q else 0%Q.

Definition graph_metrics_nodes (C : list crow) (TE : list pedge) : list nmrow :=
  map (fun r => (nd_uid r, nd_cid r, nd_deg r, node_centrality (nd_deg r) (nd_size r)))
      (node_degree_table C TE).

(* __splink__counts_per_cluster + __splink__graph_metrics_clusters:
     cluster_id, n_nodes, n_edges = SUM(node_degree)/2.0,
     density = CASE WHEN n_nodes > 1 THEN 1.0*(n_edges*2)/(n_nodes*(n_nodes-1)) ELSE NULL END,
     cluster_centralisation = CASE WHEN COUNT( * ) > 2 THEN
        1.0*(COUNT( * )*MAX(node_degree) - SUM(node_degree)) / ((COUNT( * )-1)*(COUNT( * )-2)) ELSE NULL END *)
Definition sumZ (l : list Z) : Z := fold_right Z.add 0 l.
Definition maxZ (l : list Z) : Z := match l with [] => 0 | x :: t => fold_right Z.max x t end.

Record clrow := { cl_cid : Z; cl_n_nodes : Z; cl_n_edges : Q; cl_density : option Q; cl_centralisation : option Q }.

Definition n_edges_of (sumdeg : Z) : Q := (inject_Z sumdeg / 2)%Q.
Definition density_of (n : Z) (n_edges : Q) : option Q :=
  if 1 <? n then Some ((n_edges * 2) / inject_Z (n * (n - 1)))%Q else None.
Definition centralisation_of (n maxdeg sumdeg : Z) : option Q :=
  if 2 <? n then Some (inject_Z (n * maxdeg - sumdeg) / inject_Z ((n - 1) * (n - 2)))%Q else None.

Definition graph_metrics_clusters (NM : list nmrow) : list clrow :=
  map (fun c =>
         let degs := map nm_deg (filter (fun r => nm_cid r =? c) NM) in
         let n := Z.of_nat (length degs) in
         let ne := n_edges_of (sumZ degs) in
         {| cl_cid := c; cl_n_nodes := n; cl_n_edges := ne; cl_density := density_of n ne;
            cl_centralisation := centralisation_of n (maxZ degs) (sumZ degs) |})
      (nodup Z.eq_dec (map nm_cid NM)).

(* ---------------------------------------------------------------- bridges *)
Definition adj (E : list (Z * Z)) (v : Z) : list Z :=
  flat_map (fun e => (if fst e =? v then [snd e] else []) ++ (if snd e =? v then [fst e] else [])) E.

Definition expand (E : list (Z * Z)) (S : list Z) : list Z :=
  nodup Z.eq_dec (S ++ flat_map (adj E) S).

Fixpoint closure (E : list (Z * Z)) (fuel : nat) (S : list Z) : list Z :=
  match fuel with O => S | Datatypes.S f => closure E f (expand E S) end.

Definition reach_b (E : list (Z * Z)) (s t : Z) : bool :=
  existsb (Z.eqb t) (closure E (Datatypes.S (2 * length E)) [s]).

Fixpoint remove_nth {A : Type} (i : nat) (l : list A) : list A :=
  match l, i with
  | [], _ => []
  | _ :: t, O => t
  | x :: t, Datatypes.S j => x :: remove_nth j t
  end.

Definition ends (TE : list pedge) : list (Z * Z) := map (fun e => (pe_l e, pe_r e)) TE.

Definition is_bridge_b (TE : list pedge) (i : nat) : bool :=
  match nth_error (ends TE) i with
  | Some (l, r) => negb (reach_b (remove_nth i (ends TE)) l r)
  | None => false
  end.

(* __splink__graph_metrics_edges: one row per truncated edge: l, r, is_bridge *)
Definition graph_metrics_edges (TE : list pedge) : list (Z * Z * bool) :=
  map (fun ie => (pe_l (snd ie), pe_r (snd ie), is_bridge_b TE (fst ie)))
      (combine (seq 0 (length TE)) TE).

(* ---------------------------------------------------------------- specification vocabulary *)
(* incidence count of v in the thresholded multigraph (a self loop counts twice) *)
Definition incidence (TE : list pedge) (v : Z) : Z :=
  Z.of_nat (length (filter (fun e => pe_l e =? v) TE)) + Z.of_nat (length (filter (fun e => pe_r e =? v) TE)).

Definition cluster_members (C : list crow) (c : Z) : list Z := map fst (filter (fun r => snd r =? c) C).
Definition memb (l : list Z) (v : Z) : bool := existsb (Z.eqb v) l.

(* edges with both / exactly one endpoint in a set of nodes *)
Definition inside (M : list Z) (TE : list pedge) : Z :=
  Z.of_nat (length (filter (fun e => memb M (pe_l e) && memb M (pe_r e)) TE)).
Definition crossing (M : list Z) (TE : list pedge) : Z :=
  Z.of_nat (length (filter (fun e => xorb (memb M (pe_l e)) (memb M (pe_r e))) TE)).

(* undirected connectivity *)
Definition uedge (E : list (Z * Z)) (v w : Z) : Prop := In (v, w) E \/ In (w, v) E.
Inductive conn (E : list (Z * Z)) : Z -> Z -> Prop :=
| conn_refl : forall v, conn E v v
| conn_step : forall v w u, uedge E v w -> conn E w u -> conn E v u.

(* edge occurrence i is a bridge: removing it disconnects its endpoints *)
Definition bridge (TE : list pedge) (i : nat) : Prop :=
  exists l r, nth_error (ends TE) i = Some (l, r) /\ ~ conn (remove_nth i (ends TE)) l r.
