(* Catalog.v - C18: what Splink does to the physical catalog.  Extends Model/Cache.v (same state,
   same execution of public operations) with the operations through which a caller or Splink can
   touch tables by NAME:
     * register_table(data, name, overwrite)        database_api.register_multiple_tables
     * SplinkDataFrame.drop_table_from_database_and_remove_from_cache(force_non_splink_table)
       on a frame obtained for an existing table       splink_dataframe._check_drop_table_created_by_splink
     * realtime.compare_records on this DatabaseAPI (cached / uncached SQL path)
   delete_tables_created_by_splink_from_db, invalidate_cache and debug mode are already operations
   of Cache.v (DeleteTables, InvalidateCache, SetDebug).  Definitions only. *)
From Coq Require Import List Bool Arith String Ascii.
From Splinkv Require Import Model.Cache.
Import ListNotations.
Open Scope string_scope.
Open Scope list_scope.

Definition RTL := "__splink__compare_records_left".
Definition RTR := "__splink__compare_records_right".
Definition RT := "__splink__realtime_compare_records".

(* DuckDB and SQLite resolve table names case-insensitively (ASCII): `People` IS the table `people` *)
Definition lower_ascii (a : ascii) : ascii :=
  let n := nat_of_ascii a in if Nat.leb 65 n && Nat.leb n 90 then ascii_of_nat (n + 32) else a.
Fixpoint lower (s : string) : string :=
  match s with EmptyString => EmptyString | String a r => String (lower_ascii a) (lower r) end.
Definition ci_eqb (a b : string) : bool := String.eqb (lower a) (lower b).

(* cache slots that the register_* entry points fill *)
Inductive slot := SlotCwtf | SlotPredict | SlotTf (c : string).
Definition slot_name (k : slot) : string :=
  match k with SlotCwtf => CWTF | SlotPredict => PREDICT | SlotTf c => tfname c end.

(* one entry of the input list of register_multiple_tables / Linker(input_tables, ...): a table handed over by NAME
   (it already lives in the database; nothing is registered) or a data frame (registered under its alias) *)
Inductive reg_item := RByName (table : string) | RFrame (ver : nat).
Definition is_frame (i : reg_item) : bool := match i with RFrame _ => true | RByName _ => false end.
(* aliases of one call are pairwise different up to letter case *)
Fixpoint ci_distinct (l : list string) : bool :=
  match l with [] => true | a :: r => negb (existsb (ci_eqb a) r) && ci_distinct r end.

Section Catalog.
  Variable K : Type.
  Variable keqb : K -> K -> bool.
  Variable hash : sqlt -> nat -> K.

  Inductive cop :=
  | COp (o : op)
  | CRegisterTable (name : string) (overwrite : bool) (ver : nat)
      (* register_table(dataframe, name, overwrite); also Linker(dataframe, ..., input_table_aliases=[name]) *)
  | CRegisterMultiple (items : list reg_item) (aliases : list string) (overwrite : bool)
      (* db_api.register_multiple_tables(items, aliases, overwrite); Linker([name, frame, ...], ..., input_table_aliases=aliases)
         is this call with overwrite=False, Linker([...]) without aliases is this call with aliases
         __splink__input_table_<i> and overwrite=True.  Item i and alias i belong together: a by-name item keeps its
         position (and its alias is only a label), so the clash check and the registration of a frame use the SAME alias *)
  | CRegisterByName (k : slot) (name : string)
      (* register_table_input_nodes_concat_with_tf / register_table_predict / register_term_frequency_lookup called
         with the NAME of a table that already exists: nothing is created, the cache slot now points at that table *)
  | CHandleByName (name : string)
      (* register_table("<name>", alias) / register_labels_table("<name>"): a frame for an existing table; no effect *)
  | CDropTable (name : string) (force : bool)
  | CDropFrame (key : pname K)
  | CRealtime (cached : bool).

  Definition register_leaf (s : state K) (l : lname) (v : prov) : state K :=
    set_db K s (aset K keqb (st_db K s) (PL K l) {| e_prov := v; e_origin := Caller |}).

  (* table_exists_in_database(name): some catalog object has this name up to letter case *)
  Definition same_name (name : string) (p : pname K) : bool :=
    match p with PL _ (LPlain n) => ci_eqb n name | _ => false end.
  Definition name_taken (db : db_t K) (name : string) : bool := existsb (fun kv => same_name name (fst kv)) db.

  (* register_multiple_tables, statement by statement.  Loop 1 (`for table, alias in zip(input_tables, input_aliases)`):
     by-name items are skipped; for a frame whose alias exists: overwrite=False -> remember the alias (ValueError after
     the loop, nothing has changed), overwrite=True -> delete_table_from_database(alias). *)
  Definition drop_name (db : db_t K) (name : string) : db_t K :=
    filter (fun kv => negb (same_name name (fst kv))) db.
  Definition reg_clashes (db : db_t K) (pairs : list (reg_item * string)) : list string :=
    map snd (filter (fun p => is_frame (fst p) && name_taken db (snd p)) pairs).
  Definition reg_drop_existing (db : db_t K) (pairs : list (reg_item * string)) : db_t K :=
    fold_left (fun d p => if is_frame (fst p) && name_taken d (snd p) then drop_name d (snd p) else d) pairs db.
  (* Loop 2 (same zip): frames are registered under their alias; by-name items only get a frame object *)
  Definition reg_frames (s : state K) (pairs : list (reg_item * string)) : state K :=
    fold_left (fun s p => match fst p with
                          | RFrame ver => register_leaf s (LPlain (snd p)) (PInput (snd p) ver)
                          | RByName _ => s
                          end) pairs s.
  Definition register_multiple (s : state K) (items : list reg_item) (aliases : list string) (ow : bool)
    : state K * list event :=
    let pairs := combine items aliases in
    let clashes := reg_clashes (st_db K s) pairs in
    if ow then (reg_frames (set_db K s (reg_drop_existing (st_db K s) pairs)) pairs, [])
    else match clashes with
         | [] => (reg_frames s pairs, [])
         | _ => (s, map Refused clashes)
         end.

  Definition cstep (s : state K) (c : cop) : state K * list event :=
    match c with
    | COp o => let '(s', _, tr) := run_op K keqb hash s o in (s', tr)
    | CRegisterTable name ow ver =>
        if name_taken (st_db K s) name then
          if ow then
            (* DROP TABLE/VIEW IF EXISTS name (whatever its letter case); then register *)
            let db' := filter (fun kv => negb (same_name name (fst kv))) (st_db K s) in
            (register_leaf (set_db K s db') (LPlain name) (PInput name ver), [])
          else (s, [Refused name])
        else (register_leaf s (LPlain name) (PInput name ver), [])
    | CRegisterMultiple items aliases ow => register_multiple s items aliases ow
    | CRegisterByName k name =>
        let l := LPlain name in
        let h := {| h_templ := slot_name k; h_phys := PL K l; h_src := Leaf l; h_cbs := false |} in
        let s1 := set_cache K s (aset K keqb (st_cache K s) (named K (slot_name k)) h) in
        (match k with
         | SlotTf _ => if fx77 (st_fix K s) then evict_cwtf K keqb s1 else s1   (* _drop_stale_df_concat_with_tf *)
         | _ => s1
         end, [])
    | CHandleByName name => (s, [])
    | CDropTable name force =>
        (* db_api.table_to_splink_dataframe(name, name): a frame whose created_by_splink flag is False;
           drop_table_from_database_and_remove_from_cache(force_non_splink_table=force) checks that flag *)
        let p := PL K (LPlain name) in
        let frame := {| h_templ := name; h_phys := p; h_src := Leaf (LPlain name); h_cbs := force |} in
        drop_handle K keqb s frame
    | CDropFrame key =>
        (* the same call on a frame Splink handed out earlier (it is cached under [key]): allowed iff created_by_splink *)
        match aget K keqb (st_cache K s) key with
        | Some h => drop_handle K keqb s h
        | None => (s, [])
        end
    | CRealtime cached =>
        let u := st_ctr K s in                      (* uid = ascii_uid(8): fresh *)
        let s0 := set_luid_ctr K s (st_luid K s) (S u) in
        let s2 := register_leaf (register_leaf s0 (LUid RTL u) (PRecords u)) (LUid RTR u) (PRecords u) in
        if cached then
          (* _sql_to_splink_dataframe(cached_sql, ..., physical_name = __splink__realtime_compare_records_<uid>) *)
          if fx715 (st_fix K s) then
            (* repaired tree: created_by_splink = True and cache[physical_name] = frame, i.e. exactly what an uncached
               pipeline run does; the unique <uid> suffix of the name is modelled as the hash key of the (unique) SQL *)
            let '(s3, _, ev) := exec_pipeline K keqb hash s2 RT (Cte RT 0 [Leaf (LUid RTL u); Leaf (LUid RTR u)])
                                              [RTL; RTR] [] false in
            (s3, ev)
          else
            let p := PL K (LUid RT u) in
            (set_db K s2 (aset K keqb (st_db K s2) p
                               {| e_prov := PDerived RT 0 [PRecords u; PRecords u]; e_origin := Splink |}), [Exec RT])
        else
          let '(s3, _, ev) := exec_pipeline K keqb hash s2 PREDICT
                                            (Cte PREDICT 999 [Leaf (LUid RTL u); Leaf (LUid RTR u)]) [RTL; RTR]
                                            ["__splink__compare_two_records_blocked"; CVV; MWP] true in
          (s3, ev)
    end.

  Definition crun (s : state K) (cs : list cop) : state K := fold_left (fun s c => fst (cstep s c)) cs s.

  (* guards of the theorems *)
  Definition cop_safe (fx : fixes) (c : cop) : bool :=
    match c with
    | COp o => op_ok_hashed o && negb (match o with ChangeInputInvalidate _ => true | _ => false end)
    | CRegisterTable _ ow _ => negb ow
    | CRegisterMultiple _ aliases ow => negb ow && ci_distinct aliases
    | CRegisterByName _ _ => true
    | CHandleByName _ => true
    | CDropTable _ force => negb force
    | CDropFrame _ => true
    | CRealtime cached => negb cached || fx715 fx      (* the cached-SQL path is safe on the repaired tree only *)
    end.

  (* initial database: input tables plus other user tables (plain names) *)
  Definition user_db (tabs : list (string * nat)) : db_t K :=
    map (fun nv => (PL K (LPlain (fst nv)), {| e_prov := PInput (fst nv) (snd nv); e_origin := User |})) tabs.

  Definition cinit (inputs : list string) (ver : nat) (others : list (string * nat)) (tfcols : list string)
             (params uid luid : nat) (fx : fixes) : state K :=
    let s := init_state K (map LPlain inputs) ver tfcols params uid luid fx in
    set_db K s (st_db K s ++ user_db others).

  Definition splink_tables (s : state K) : list (pname K) :=
    map fst (filter (fun kv => origin_eqb (e_origin (snd kv)) Splink) (st_db K s)).
End Catalog.
