(* C17  Creator methods as small imperative programs over the attributes of `self`.

   A creator method (create_sql, create_level_dict, get_comparison, ...) is abstracted to a
   program: a list of statements that write attributes of `self` (or of objects reachable from
   it; attribute paths are flat names) and an output expression.  Values are uninterpreted
   terms (free interpretation): if the outputs agree as terms they agree under every
   interpretation of the function symbols, i.e. for the real SQL strings.

   `pure p out` is the effect-summary checker: every write is a pure function of the call's
   argument and of attributes that are never written or that were already overwritten earlier
   in the same call (SetFromArg); a write that reads the old value of its own attribute is
   SelfDependent; anything else Unknown.

   Definitions only. *)
From Coq Require Import List Bool String Arith.
Import ListNotations.
Open Scope string_scope.
Open Scope list_scope.

Inductive tm :=
| TAtom (s : string)
| TFn (f : string) (a : tm)
| TPair (a b : tm).

Fixpoint tm_size (t : tm) : nat :=
  match t with
  | TAtom _ => 1
  | TFn _ a => S (tm_size a)
  | TPair a b => S (tm_size a + tm_size b)
  end.

Fixpoint tm_eqb (x y : tm) : bool :=
  match x, y with
  | TAtom a, TAtom b => String.eqb a b
  | TFn f a, TFn g b => String.eqb f g && tm_eqb a b
  | TPair a b, TPair c d => tm_eqb a c && tm_eqb b d
  | _, _ => false
  end.

Inductive aexpr :=
| AConst (s : string)
| AArg                          (* the argument of this call (the dialect) *)
| AAttr (a : string)            (* current value of attribute a of self *)
| AFn (f : string) (e : aexpr)
| APair (e1 e2 : aexpr).

Inductive stmt :=
| SSet (a : string) (e : aexpr)        (* self.a = e *)
| SMutate (a : string) (e : aexpr)     (* self.a.append(e), self.a += e, unknown call on self.a ... *)
| SIf (c : aexpr) (body orelse : list stmt).  (* if c: body else: orelse   (loops and try-blocks are
                                                 abstracted to this with an empty else) *)

Definition state := string -> tm.

Definition upd (st : state) (a : string) (v : tm) : state :=
  fun b => if String.eqb b a then v else st b.

Fixpoint ev (e : aexpr) (st : state) (d : tm) : tm :=
  match e with
  | AConst s => TAtom s
  | AArg => d
  | AAttr a => st a
  | AFn f e1 => TFn f (ev e1 st d)
  | APair e1 e2 => TPair (ev e1 st d) (ev e2 st d)
  end.

Section Exec.
  Variable truth : tm -> bool.      (* interpretation of conditions: arbitrary *)

  Fixpoint exec_stmt (s : stmt) (st : state) (d : tm) : state :=
    match s with
    | SSet a e => upd st a (ev e st d)
    | SMutate a e => upd st a (TFn "mutated" (TPair (st a) (ev e st d)))
    | SIf c body orelse =>
        (fix go (l : list stmt) (st : state) : state :=
           match l with [] => st | x :: r => go r (exec_stmt x st d) end)
          (if truth (ev c st d) then body else orelse) st
    end.

  Fixpoint exec (p : list stmt) (st : state) (d : tm) : state :=
    match p with [] => st | x :: r => exec r (exec_stmt x st d) d end.

  (* a call: run the body, evaluate the output expression in the final state *)
  Definition call (p : list stmt) (out : aexpr) (st : state) (d : tm) : state * tm :=
    let st' := exec p st d in (st', ev out st' d).

  (* a history of calls on the same object *)
  Fixpoint run (p : list stmt) (out : aexpr) (st : state) (hist : list tm) : list tm * state :=
    match hist with
    | [] => ([], st)
    | d :: h => let (st', o) := call p out st d in
                let (os, stf) := run p out st' h in (o :: os, stf)
    end.
End Exec.

(* ------------------------------------------------------------------ the checker *)
Definition mem (a : string) (l : list string) : bool := existsb (String.eqb a) l.

Fixpoint reads (e : aexpr) : list string :=
  match e with
  | AConst _ | AArg => []
  | AAttr a => [a]
  | AFn _ e1 => reads e1
  | APair e1 e2 => reads e1 ++ reads e2
  end.

Fixpoint writes_stmt (s : stmt) : list string :=
  match s with
  | SSet a _ | SMutate a _ => [a]
  | SIf _ body orelse =>
      let go := (fix go (l : list stmt) : list string :=
                   match l with [] => [] | x :: r => writes_stmt x ++ go r end) in
      go body ++ go orelse
  end.

Fixpoint writes (p : list stmt) : list string :=
  match p with [] => [] | x :: r => writes_stmt x ++ writes r end.

(* an attribute may be read when it is never written (stable) or was defined earlier in this call *)
Definition reads_ok (W D : list string) (e : aexpr) : bool :=
  forallb (fun a => negb (mem a W) || mem a D) (reads e).

Fixpoint chk_stmt (W : list string) (s : stmt) (D : list string) : option (list string) :=
  match s with
  | SSet a e => if reads_ok W D e then Some (a :: D) else None
  | SMutate _ _ => None
  | SIf c body orelse =>
      if reads_ok W D c then
        let go := (fix go (l : list stmt) (D : list string) : option (list string) :=
                 match l with
                 | [] => Some D
                 | x :: r => match chk_stmt W x D with Some D' => go r D' | None => None end
                 end) in
        match go body D, go orelse D with
        | Some D1, Some D2 => Some (filter (fun a => mem a D2) D1)   (* defined on both paths *)
        | _, _ => None
        end
      else None
  end.

Fixpoint chk (W : list string) (p : list stmt) (D : list string) : option (list string) :=
  match p with
  | [] => Some D
  | x :: r => match chk_stmt W x D with Some D' => chk W r D' | None => None end
  end.

Definition pure (p : list stmt) (out : aexpr) : bool :=
  match chk (writes p) p [] with
  | Some D => reads_ok (writes p) D out
  | None => false
  end.

(* ------------------------------------------------------------------ what an accepted method may write *)
(* The only slot of a creator (or of a column expression reachable from it) that an entry method
   may overwrite is the dialect slot `....sql_dialect`; "$observed" is the model's own log of reads.
   `writes_only_dialect_slots p` is evaluated on every regenerated program: together with the frame
   theorem it gives "every other attribute - everything the user can see - keeps its value". *)
Fixpoint ends_with (suf s : string) : bool :=
  String.eqb s suf || match s with String _ r => ends_with suf r | EmptyString => false end.
Definition is_dialect_slot (a : string) : bool :=
  String.eqb a "$observed" || String.eqb a "sql_dialect" || ends_with ".sql_dialect" a.
Definition writes_only_dialect_slots (p : list stmt) : bool := forallb is_dialect_slot (writes p).

(* ------------------------------------------------------------------ effect summary (reporting) *)
Inductive wclass := SetFromArg | SelfDependent | Unknown.

Fixpoint summary_stmt (W : list string) (s : stmt) (D : list string)
  : list (string * wclass) * list string :=
  match s with
  | SSet a e =>
      if reads_ok W D e then ([(a, SetFromArg)], a :: D)
      else if mem a (reads e) && negb (mem a D) then ([(a, SelfDependent)], D)
      else ([(a, Unknown)], D)
  | SMutate a _ => ([(a, SelfDependent)], D)
  | SIf c body orelse =>
      let go := (fix go (l : list stmt) (D : list string) : list (string * wclass) * list string :=
                  match l with
                  | [] => ([], D)
                  | x :: r => let (s1, D1) := summary_stmt W x D in
                              let (s2, D2) := go r D1 in (s1 ++ s2, D2)
                  end) in
      let r1 := go body D in
      let r2 := go orelse D in
      ((if reads_ok W D c then [] else [("<condition>", Unknown)]) ++ fst r1 ++ fst r2,
       filter (fun a => mem a (snd r2)) (snd r1))
  end.

Fixpoint summary_from (W : list string) (p : list stmt) (D : list string) : list (string * wclass) :=
  match p with
  | [] => []
  | x :: r => let (s1, D1) := summary_stmt W x D in s1 ++ summary_from W r D1
  end.

Definition summary (p : list stmt) : list (string * wclass) := summary_from (writes p) p [].

Definition wclass_eqb (a b : wclass) : bool :=
  match a, b with
  | SetFromArg, SetFromArg | SelfDependent, SelfDependent | Unknown, Unknown => true
  | _, _ => false
  end.

(* attributes changed by a history, as predicted by the model (free interpretation, all
   conditions taken): used by the correspondence check *)
Definition always (t : tm) : bool := true.
Definition init_state : state := fun a => TAtom a.

Definition changed_attrs (p : list stmt) (hist : list tm) : list string :=
  let stf := snd (run always p (AConst "") init_state hist) in
  filter (fun a => negb (tm_eqb (stf a) (init_state a))) (nodup string_dec (writes p)).

Definition outputs_all_equal_fresh (p : list stmt) (out : aexpr) (hist : list tm) : bool :=
  let os := fst (run always p out init_state hist) in
  forallb (fun od => tm_eqb (fst od) (snd (call always p out init_state (snd od)))) (combine os hist).
