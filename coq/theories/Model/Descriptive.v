(* Model of the descriptive outputs (C20): term-frequency tables, completeness, the
   comparison-vector distribution, the match-weight histogram and the unlinkables data.
   Written SQL snippet by SQL snippet with the renderings of DESIGN.md 3b on top of
   Base/GroupBy.v and Base/CumSum.v.  Column values are integers (the harness numbers the
   distinct strings), NULL is [None]; scores are rationals.  Definitions only. *)
From Coq Require Import List Bool ZArith QArith Qround Arith.
From Splinkv Require Import Base.GroupBy Base.CumSum.
Import ListNotations.
Local Open Scope Z_scope.

Fixpoint sumQ (l : list Q) : Q := match l with [] => 0%Q | x :: t => (x + sumQ t)%Q end.
Definition lenZ {A} (l : list A) : Z := Z.of_nat (length l).
Definition qdiv (a b : Z) : Q := (inject_Z a / inject_Z b)%Q.

(* ------------------------------------------------------------------ term frequencies
   select col, cast(count( * ) as float8) / (select count(col) from t) as tf_col
   from t where col is not null group by col *)
Definition non_null (col : list (option Z)) : list Z :=
  flat_map (fun x => match x with Some v => [v] | None => [] end) col.
Definition idZ (v : Z) : Z := v.
Definition tf_table (col : list (option Z)) : list (Z * Q) :=
  let nn := non_null col in
  map (fun v => (v, qdiv (lenZ (members idZ Z.leb nn v)) (lenZ nn)))
      (group_keys idZ Z.leb nn).

(* ... left join tf_table on concat.col = tf_table.col : the value used in scoring *)
Fixpoint lookup_tf (v : Z) (t : list (Z * Q)) : option Q :=
  match t with
  | [] => None
  | (k, f) :: r => if Z.eqb k v then Some f else lookup_tf v r
  end.
Definition join_tf (col : list (option Z)) : list (option Q) :=
  map (fun x => match x with Some v => lookup_tf v (tf_table col) | None => None end) col.

(* ------------------------------------------------------------------ completeness
   select source_dataset, count( * ) - count(col) as total_null_rows, count( * ) as total_rows_inc_nulls,
          cast(count(col)*1.0/count( * ) as float) as completeness ... group by source_dataset *)
Record crow := { c_ds : Z; total_null_rows : Z; total_rows_inc_nulls : Z; completeness : Q }.
Definition cell_ds (x : Z * option Z) : Z := fst x.
Definition is_some {A} (o : option A) : bool := match o with Some _ => true | None => false end.
Definition completeness_rows (cells : list (Z * option Z)) : list crow :=
  map (fun d => let m := members cell_ds Z.leb cells d in
                let nn := countZ (fun x => is_some (snd x)) m in
                {| c_ds := d; total_null_rows := lenZ m - nn; total_rows_inc_nulls := lenZ m;
                   completeness := qdiv nn (lenZ m) |})
      (group_keys cell_ds Z.leb cells).

(* ------------------------------------------------------------------ comparison-vector distribution
   select sum_gam, count( * ), cast(count( * ) as float)/(select count( * ) from predict), gammas
   from predict group by gammas *)
(* key order: GroupBy.lex_leb (lexicographic on the gamma tuple) *)
Definition gam_term (g : Z) : Z := if g =? -1 then 0 else if g =? 0 then -1 else g.
Record vrow := { v_gammas : list Z; sum_gam : Z; count_rows_in_comparison_vector_group : Z;
                 proportion_of_comparisons : Q }.
Definition idL (v : list Z) : list Z := v.
Definition comparison_vector_distribution (preds : list (list Z)) : list vrow :=
  map (fun g => let m := members idL lex_leb preds g in
                {| v_gammas := g; sum_gam := sumZ (map gam_term g);
                   count_rows_in_comparison_vector_group := lenZ m;
                   proportion_of_comparisons := qdiv (lenZ m) (lenZ preds) |})
      (group_keys idL lex_leb preds).

(* ------------------------------------------------------------------ match-weight histogram
   _bins(min, max, num_bins): the bin width in [0.01,0.1,0.2,0.25,0.5,1,2,5] nearest to
   (max-min)/num_bins (first one on ties) *)
Definition bin_widths : list Q := [1 # 100; 1 # 10; 1 # 5; 1 # 4; 1 # 2; 1; 2; 5]%Q.
Definition Qabsd (a b : Q) : Q := if Qle_bool a b then (b - a)%Q else (a - b)%Q.
Definition choose_bin_width (mn mx : Q) (num_bins : Z) : Q :=
  let rough := ((mx - mn) / inject_Z num_bins)%Q in
  fst (fold_left (fun (best : Q * Q) (bw : Q) =>
                    let d := Qabsd bw rough in
                    if Qle_bool (snd best) d then best else (bw, d))   (* replace only when strictly smaller *)
                 bin_widths ((1 # 100)%Q, Qabsd (1 # 100) rough)).

(* select bw * floor(match_weight / bw) as splink_score_bin_low, bw, count( * )
   from predict group by bw * floor(match_weight / bw) *)
Record hrow := { bin_index : Z; splink_score_bin_low : Q; binwidth : Q; count_rows : Z;
                 splink_score_bin_high : Q }.
Definition bin_of (bw : Q) (s : Q) : Z := Qfloor (s / bw).
Definition histogram (bw : Q) (scores : list Q) : list hrow :=
  map (fun k => {| bin_index := k; splink_score_bin_low := (bw * inject_Z k)%Q; binwidth := bw;
                   count_rows := lenZ (members (bin_of bw) Z.leb scores k);
                   splink_score_bin_high := (bw * inject_Z k + bw)%Q |})
      (group_keys (bin_of bw) Z.leb scores).

(* ------------------------------------------------------------------ unlinkables
   round(match_weight, 2), round(match_probability, 5) of every record compared with itself;
   group by match_probability: max(match_weight), count( * ) / total as prop;
   where match_probability < 1: sum(prop) over (order by match_probability) as cum_prop *)
Definition round_half_away (x : Q) : Z :=
  if Qle_bool 0 x then Qfloor (x + (1 # 2)) else Qceiling (x - (1 # 2)).
Definition round_dp (scale : Z) (x : Q) : Q := (inject_Z (round_half_away (x * inject_Z scale)) / inject_Z scale)%Q.
Record selfrow := { s_weight : Q; s_prob : Q }.
Definition round_self_link (rows : list (Q * Q)) : list selfrow :=
  map (fun r => {| s_weight := round_dp 100 (fst r); s_prob := round_dp 100000 (snd r) |}) rows.
Record urow := { u_weight : Q; u_prob : Q; u_count : Z; prop : Q }.
Definition Qmax (a b : Q) : Q := if Qle_bool a b then b else a.
Definition max_weight (m : list selfrow) : Q :=
  match m with [] => 0%Q | x :: t => fold_left (fun acc y => Qmax acc (s_weight y)) t (s_weight x) end.
Definition unlinkables_proportions (rows : list selfrow) : list urow :=
  map (fun p => let m := members s_prob Qle_bool rows p in
                {| u_weight := max_weight m; u_prob := p; u_count := lenZ m;
                   prop := qdiv (lenZ m) (lenZ rows) |})
      (group_keys s_prob Qle_bool rows).
Record ucrow := { uc_weight : Q; uc_prob : Q; uc_prop : Q; cum_prop : Q }.
Definition unlinkables_proportions_cumulative (props : list urow) : list ucrow :=
  map (fun fr : list urow * urow * list urow =>
         let '(pre, x, post) := fr in
         {| uc_weight := u_weight x; uc_prob := u_prob x; uc_prop := prop x;
            cum_prop := sumQ (map prop (pre ++ [x])) |})
      (frames (filter (fun u => negb (Qle_bool 1 (u_prob u))) props)).
Definition unlinkables_data (self_scores : list (Q * Q)) : list ucrow :=
  unlinkables_proportions_cumulative (unlinkables_proportions (round_self_link self_scores)).

(* ------------------------------------------------------------------ profile_columns
   __splink__df_all_column_value_frequencies (one column):
     select count( * ) as value_count, value, (select count(col)), (select count( * )), (select count(distinct col))
     from t where col is not null group by col *)
Record vfrow := { vf_value : Z; value_count : Z }.
Definition value_frequencies (col : list (option Z)) : list vfrow :=
  map (fun v => {| vf_value := v; value_count := lenZ (members idZ Z.leb (non_null col) v) |})
      (group_keys idZ Z.leb (non_null col)).
Definition total_non_null_rows (col : list (option Z)) : Z := lenZ (non_null col).
Definition total_rows_incl_nulls (col : list (option Z)) : Z := lenZ col.
Definition distinct_value_count (col : list (option Z)) : Z := lenZ (group_keys idZ Z.leb (non_null col)).

(* df_total_in_value_counts: group by value_count: sum(value_count);
   df_total_in_value_counts_cumulative: sum(..) over (order by value_count desc);
   __splink__df_percentiles: 1 - cumsum / total *)
Record pcrow := { pc_value_count : Z; sum_tokens_in_value_count_group : Z; value_count_cumsum : Z;
                  percentile_ex_nulls : Q; percentile_inc_nulls : Q }.
Definition total_in_value_counts (vf : list vfrow) : list (Z * Z) :=
  map (fun c => (c, sum_by value_count (members value_count Z.leb vf c))) (group_keys value_count Z.leb vf).
Definition percentiles (col : list (option Z)) : list pcrow :=
  map (fun fr : list (Z * Z) * (Z * Z) * list (Z * Z) =>
         let '(pre, x, post) := fr in
         let cum := sum_by snd (x :: post) in
         {| pc_value_count := fst x; sum_tokens_in_value_count_group := snd x; value_count_cumsum := cum;
            percentile_ex_nulls := (1 - qdiv cum (total_non_null_rows col))%Q;
            percentile_inc_nulls := (1 - qdiv cum (total_rows_incl_nulls col))%Q |})
      (frames (total_in_value_counts (value_frequencies col))).

(* top n / bottom n: order by value_count desc|asc limit n (ties in unspecified order) *)
Fixpoint insert_by {A} (before : A -> A -> bool) (x : A) (l : list A) : list A :=
  match l with
  | [] => [x]
  | h :: t => if before x h then x :: l else h :: insert_by before x t
  end.
Fixpoint sort_by {A} (before : A -> A -> bool) (l : list A) : list A :=
  match l with [] => [] | h :: t => insert_by before h (sort_by before t) end.
Definition top_n (n : nat) (col : list (option Z)) : list vfrow :=
  firstn n (sort_by (fun a b => value_count b <=? value_count a) (value_frequencies col)).
Definition bottom_n (n : nat) (col : list (option Z)) : list vfrow :=
  firstn n (sort_by (fun a b => value_count a <=? value_count b) (value_frequencies col)).
