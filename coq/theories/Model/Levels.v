(* C16: generators for the SQL condition of every level-creator family of
   splink/internals/comparison_level_library.py, the documented predicates, executable leaf
   functions used by the correspondence run, level lists of comparisons and `levels_ok`.
   Definitions only (proofs: Proofs/LevelsP.v). *)
From Coq Require Import String Ascii Bool ZArith QArith Qabs Arith List.
From Splinkv Require Import Base.TV Model.SqlExpr.
Import ListNotations.
Local Open Scope nat_scope.
Local Open Scope string_scope.

(* ------------------------------------------------------------------ generators *)
(* cl / cr: the (possibly transformed) column expression on the left / right record, as the
   library's ColumnExpression renders it (name_l / name_r). *)
Definition gen_null (cl cr : expr) : expr := EOr (EIsNull cl) (EIsNull cr).
Definition gen_exact (cl cr : expr) : expr := ECmp CEq cl cr.

Inductive lside := SLeft | SRight | SBoth.
Definition gen_literal (s : lside) (cl cr lit : expr) : expr :=
  match s with
  | SLeft => ECmp CEq cl lit
  | SRight => ECmp CEq cr lit
  | SBoth => EAnd (ECmp CEq cl lit) (ECmp CEq cr lit)
  end.

Definition gen_reversed (symmetrical : bool) (c1l c1r c2l c2r : expr) : expr :=
  if symmetrical then EAnd (ECmp CEq c1l c2r) (ECmp CEq c1r c2l) else ECmp CEq c1l c2r.

(* f(l, r) <= t  (Levenshtein, Damerau-Levenshtein, DistanceFunction lower-is-similar)
   f(l, r) >= t  (Jaro, Jaro-Winkler, Jaccard, cosine, DistanceFunction higher-is-similar) *)
Definition gen_fn_thresh (f : string) (higher_is_more_similar : bool) (cl cr : expr) (t : val) : expr :=
  ECmp (if higher_is_more_similar then CGe else CLe) (EFn f [cl; cr]) (ELit t).

Definition gen_absdiff (cl cr : expr) (t : val) : expr :=
  ECmp CLe (EAbs (EArith Sub cl cr)) (ELit t).

(* (1.0 * ABS(l - r) / (CASE WHEN r > l THEN r ELSE l END)) < t : the factor 1.0 makes the division a real division on
   every backend, also for INTEGER columns (splink 89a1dbc7) *)
Definition gen_pctdiff (cl cr : expr) (t : val) : expr :=
  ECmp CLt (EParen (EArith Div (EArith Mul (ELit (VNum 1)) (EAbs (EArith Sub cl cr)))
                               (EParen (ECase [(ECmp CGt cr cl, cr)] cl)))) (ELit t).
(* the term emitted before 89a1dbc7 (no factor): integer division on SQLite for INTEGER columns *)
Definition gen_pctdiff_old (cl cr : expr) (t : val) : expr :=
  ECmp CLt (EArith Div (EAbs (EArith Sub cl cr)) (EParen (ECase [(ECmp CGt cr cl, cr)] cl))) (ELit t).

(* abs(epoch(l) - epoch(r)) <= seconds;  epochf = "epoch" (DuckDB) / "unix_timestamp" (Spark) *)
Inductive tmetric := MSecond | MMinute | MHour | MDay | MMonth | MYear.
(* Python: {"second": 1, "minute": 60, "hour": 60*60, "day": 60*60*24,
            "month": 60*60*24*365.25/12, "year": 60*60*24*365.25}; int * int stays an int,
   anything times the float month/year factor is a float *)
Definition tfactor (m : tmetric) : val :=
  match m with
  | MSecond => VInt 1 | MMinute => VInt 60 | MHour => VInt 3600 | MDay => VInt 86400
  | MMonth => VNum (Qred (86400 * (36525 # 100) / 12)%Q)
  | MYear => VNum (Qred (86400 * (36525 # 100))%Q)
  end.
Definition py_mul (a b : val) : val :=
  match a, b with
  | VInt x, VInt y => VInt (x * y)%Z
  | _, _ => match numQ a, numQ b with
            | Some x, Some y => VNum (Qred (x * y)%Q)
            | _, _ => VNull
            end
  end.
Definition time_threshold_seconds (threshold : val) (m : tmetric) : val := py_mul threshold (tfactor m).
Definition gen_timediff (epochf : string) (cl cr : expr) (threshold : val) (m : tmetric) : expr :=
  ECmp CLe (EAbs (EArith Sub (EFn epochf [cl]) (EFn epochf [cr]))) (ELit (time_threshold_seconds threshold m)).

(* array levels; flen / fint are the dialect's names (array_length/list_intersect, size/array_intersect) *)
Definition gen_arr_intersect (flen fint : string) (cl cr : expr) (n : val) : expr :=
  ECmp CGe (EFn flen [EFn fint [cl; cr]]) (ELit n).
Definition gen_arr_subset (flen fint : string) (empty_is_subset : bool) (cl cr : expr) : expr :=
  let least := EFn "least" [EFn flen [cl]; EFn flen [cr]] in
  let main := ECmp CEq (EFn flen [EFn fint [cl; cr]]) least in
  if empty_is_subset then main else EAnd (ECmp CNe least (ELit (VInt 0))) main.

(* great-circle distance with clipping *)
Definition km_partial (latl latr lngl lngr : expr) : expr :=
  let rad := fun e => EFn "radians" [e] in
  EArith Add (EArith Mul (EFn "sin" [rad latl]) (EFn "sin" [rad latr]))
             (EArith Mul (EArith Mul (EFn "cos" [rad latl]) (EFn "cos" [rad latr]))
                         (EFn "cos" [rad (EArith Sub lngr lngl)])).
Definition km_clipped (p : expr) : expr :=
  ECase [(ECmp CGt (EParen p) (ELit (VInt 1)), ELit (VInt 1));
         (ECmp CLt (EParen p) (ELit (VInt (-1))), ELit (VInt (-1)))] (EParen p).
Definition km_distance (fty : string) (latl latr lngl lngr : expr) : expr :=
  ECast (EArith Mul (EFn "acos" [km_clipped (km_partial latl latr lngl lngr)]) (ELit (VInt 6371))) fty.
Definition gen_km (fty : string) (not_null : bool) (latl latr lngl lngr : expr) (t : val) : expr :=
  let d := ECmp CLe (km_distance fty latl latr lngl lngr) (ELit t) in
  if not_null then
    EAnd (EParen (EAnd (EAnd (EAnd (ENot (EIsNull latr)) (ENot (EIsNull latl))) (ENot (EIsNull lngl))) (ENot (EIsNull lngr)))) d
  else d.

(* PairwiseStringDistanceFunctionLevel: most similar pair of the two arrays *)
Definition gen_pairwise (f : string) (higher_is_more_similar : bool) (cl cr : expr) (t : val) : expr :=
  ECmp (if higher_is_more_similar then CGe else CLe) (EPairwise higher_is_more_similar f cl cr) (ELit t).

(* composition creators: "(" sql_1 ") AND (" sql_2 ") AND ..." parses left-associated *)
Definition gen_merge (mk : expr -> expr -> expr) (es : list expr) : expr :=
  match es with
  | [] => ELit VNull
  | e :: t => fold_left (fun acc x => mk acc (EParen x)) t (EParen e)
  end.
Definition gen_and := gen_merge EAnd.
Definition gen_or := gen_merge EOr.
Definition gen_not (e : expr) : expr := ENot (EParen e).

(* ------------------------------------------------------------------ documented predicates *)
(* thresholds: v <= t / v >= t on rationals *)
Definition doc_le (v t : Q) : tv := of_bool (Qle_bool v t).
Definition doc_ge (v t : Q) : tv := of_bool (Qle_bool t v).
Definition doc_absdiff (x y t : Q) : tv := of_bool (Qle_bool (Qabs (x - y)%Q) t).
Definition Qmaxb (x y : Q) : Q := if Qle_bool y x then x else y.
(* "absolute difference divided by the greater of the two values", strictly below t *)
Definition doc_pctdiff (x y t : Q) : tv := of_bool (negb (Qle_bool t (Qabs (x - y) / Qmaxb x y)%Q)).
Definition doc_null (vl vr : val) : bool := is_null vl || is_null vr.

(* ------------------------------------------------------------------ executable leaf functions *)
(* Levenshtein distance (unit costs).
   lev_spec: the textbook recursive definition (exponential), the specification.
   lev_list: row-by-row dynamic programme; the row for a suffix u of s holds lev(u, v) for every suffix v of t
   (longest suffix first); proved equal to lev_spec for ALL lists (Proofs/LevelsP.v lev_list_spec). *)
Section Lev.
  Context {A : Type} (eqA : A -> A -> bool).
  Definition sub_cost (a b : A) : nat := if eqA a b then 0 else 1.

  Fixpoint lev_spec (s t : list A) : nat :=
    match s with
    | [] => length t
    | a :: s' =>
      (fix inner (t : list A) : nat :=
         match t with
         | [] => S (length s')
         | b :: t' => Nat.min (Nat.min (S (lev_spec s' t)) (S (inner t'))) (lev_spec s' t' + sub_cost a b)
         end) t
    end.

  (* distances of the empty string to every suffix of t: [|t|; ..; 1; 0] *)
  Fixpoint lev_base (t : list A) : list nat :=
    match t with
    | [] => [0]
    | _ :: t' => S (length t') :: lev_base t'
    end.
  (* prev = row of u (aligned with the suffixes of t); result = row of c :: u *)
  Fixpoint lev_row (c : A) (t : list A) (prev : list nat) : list nat :=
    match t, prev with
    | tj :: t', wj :: prev' =>
      let rest := lev_row c t' prev' in
      match rest, prev' with
      | r :: _, wj1 :: _ => Nat.min (Nat.min (S wj) (S r)) (wj1 + sub_cost c tj) :: rest
      | _, _ => []
      end
    | [], wlast :: _ => [S wlast]
    | _, _ => []
    end.
  Definition lev_rows (s t : list A) : list nat := fold_right (fun c row => lev_row c t row) (lev_base t) s.
  Definition lev_list (s t : list A) : nat := hd 0 (lev_rows s t).
End Lev.

Definition lev (a b : string) : nat :=
  lev_list Ascii.eqb (list_ascii_of_string a) (list_ascii_of_string b).

(* Damerau-Levenshtein distance, unrestricted (adjacent transpositions, then further edits allowed:
   dl "ca" "abc" = 2), Lowrance-Wagner dynamic programme.  rows = rows 0 .. i-1 of the table,
   row i' = [d(i',0); ..; d(i',|b|)].  Both DuckDB `damerau_levenshtein` and rapidfuzz
   DamerauLevenshtein.distance implement this variant (established by the correspondence run). *)
Fixpoint last_idx (c : ascii) (l : list ascii) (pos acc : nat) : nat :=
  match l with
  | [] => acc
  | x :: t => last_idx c t (S pos) (if Ascii.eqb c x then pos else acc)
  end.
Fixpoint dl_cells (rows : list (list nat)) (prev : list nat) (apre : list ascii) (ai : ascii) (i : nat)
         (bpre brest : list ascii) (j left : nat) : list nat :=
  match brest with
  | [] => []
  | bj :: t =>
    let diag := nth (j - 1) prev 0 in
    let up := nth j prev 0 in
    let cost := if Ascii.eqb ai bj then 0 else 1 in
    let k := last_idx bj apre 1 0 in        (* last row < i whose character is b_j *)
    let l := last_idx ai bpre 1 0 in        (* last column < j whose character is a_i *)
    let base := Nat.min (Nat.min (diag + cost) (S left)) (S up) in
    let v := if (Nat.eqb k 0 || Nat.eqb l 0)%bool then base
             else Nat.min base (nth (l - 1) (nth (k - 1) rows []) 0 + (i - k - 1) + 1 + (j - l - 1)) in
    v :: dl_cells rows prev apre ai i (bpre ++ [bj]) t (S j) v
  end.
Fixpoint dl_rows (rows : list (list nat)) (apre arest b : list ascii) (i : nat) : list (list nat) :=
  match arest with
  | [] => rows
  | ai :: t =>
    let prev := last rows [] in
    let row := i :: dl_cells rows prev apre ai i [] b 1 i in
    dl_rows (rows ++ [row]) (apre ++ [ai]) t b (S i)
  end.
Definition dam_lev_list (a b : list ascii) : nat :=
  last (last (dl_rows [seq 0 (S (length b))] [] a b 1) []) 0.
Definition dam_lev (a b : string) : nat := dam_lev_list (list_ascii_of_string a) (list_ascii_of_string b).

(* Jaccard similarity of the character sets (DuckDB `jaccard`) *)
Definition mem_ascii (c : ascii) (l : list ascii) : bool := existsb (Ascii.eqb c) l.
Fixpoint dedup (l : list ascii) : list ascii :=
  match l with
  | [] => []
  | c :: t => if mem_ascii c t then dedup t else c :: dedup t
  end.
Definition jaccard (a b : string) : Q :=
  let sa := dedup (list_ascii_of_string a) in
  let sb := dedup (list_ascii_of_string b) in
  let inter := length (filter (fun c => mem_ascii c sb) sa) in
  let union := (length sa + length sb - inter)%nat in
  Qred (inject_Z (Z.of_nat inter) / inject_Z (Z.of_nat union))%Q.

(* Jaro similarity (standard matching-window definition) and Jaro-Winkler (p = 1/10, prefix <= 4,
   boost applied when jaro > 7/10 as in DuckDB / rapidfuzz) *)
Fixpoint find_match (c : ascii) (t : list ascii) (used : list bool) (lo hi idx : nat)
  : option nat :=
  match t, used with
  | tc :: t', u :: used' =>
    if (Nat.leb lo idx && Nat.leb idx hi && negb u && Ascii.eqb c tc)%bool then Some idx
    else find_match c t' used' lo hi (S idx)
  | _, _ => None
  end.
Fixpoint set_nth (n : nat) (l : list bool) : list bool :=
  match n, l with
  | O, _ :: t => true :: t
  | S k, x :: t => x :: set_nth k t
  | _, [] => []
  end.
(* returns matched characters of s in order, and the used flags over t *)
Fixpoint jaro_scan (s t : list ascii) (used : list bool) (win i : nat) : list ascii * list bool :=
  match s with
  | [] => ([], used)
  | c :: s' =>
    match find_match c t used (i - win) (i + win) 0 with
    | Some j => let r := jaro_scan s' t (set_nth j used) win (S i) in (c :: fst r, snd r)
    | None => jaro_scan s' t used win (S i)
    end
  end.
Fixpoint select (t : list ascii) (used : list bool) : list ascii :=
  match t, used with
  | c :: t', u :: used' => if u then c :: select t' used' else select t' used'
  | _, _ => []
  end.
Fixpoint mismatches (a b : list ascii) : nat :=
  match a, b with
  | x :: a', y :: b' => (if Ascii.eqb x y then 0 else 1) + mismatches a' b'
  | _, _ => 0
  end.
Definition jaro_list (s t : list ascii) : Q :=
  let ls := length s in let lt := length t in
  if (Nat.eqb ls 0 || Nat.eqb lt 0)%bool then 0%Q else
  let win := (Nat.max ls lt / 2 - 1)%nat in
  let r := jaro_scan s t (map (fun _ => false) t) win 0 in
  let ms := fst r in let mt := select t (snd r) in
  let m := length ms in
  if Nat.eqb m 0 then 0%Q else
  let tr := (mismatches ms mt / 2)%nat in
  let q := fun n => inject_Z (Z.of_nat n) in
  Qred ((q m / q ls + q m / q lt + (q m - q tr) / q m) / 3)%Q.
Definition jaro (a b : string) : Q := jaro_list (list_ascii_of_string a) (list_ascii_of_string b).
Fixpoint common_prefix (a b : list ascii) (fuel : nat) : nat :=
  match fuel, a, b with
  | S k, x :: a', y :: b' => if Ascii.eqb x y then S (common_prefix a' b' k) else 0
  | _, _, _ => 0
  end.
Definition jaro_winkler (a b : string) : Q :=
  let j := jaro a b in
  if Qle_bool j (7 # 10)%Q then j else
  let l := common_prefix (list_ascii_of_string a) (list_ascii_of_string b) 4 in
  Qred (j + inject_Z (Z.of_nat l) * (1 # 10) * (1 - j))%Q.

(* arrays as sets: distinct common elements (DuckDB list_intersect / Spark array_intersect) *)
Definition mem_str (s : string) (l : list string) : bool := existsb (String.eqb s) l.
Fixpoint dedup_str (l : list string) : list string :=
  match l with
  | [] => []
  | s :: t => if mem_str s t then dedup_str t else s :: dedup_str t
  end.
Definition arr_intersect (a b : list string) : list string :=
  dedup_str (filter (fun s => mem_str s b) a).

Definition lower_ascii (c : ascii) : ascii :=
  let n := nat_of_ascii c in
  if (Nat.leb 65 n && Nat.leb n 90)%bool then ascii_of_nat (n + 32) else c.
Fixpoint lower_string (s : string) : string :=
  match s with
  | EmptyString => EmptyString
  | String c t => String (lower_ascii c) (lower_string t)
  end.

(* ------------------------------------------------------------------ executable fenv *)
(* Named functions with an executable meaning here; everything else (trig, date parsing, regex,
   cosine, Damerau-Levenshtein) is looked up in an oracle table supplied per case by the
   harness (values computed by an independent Python oracle), else NULL. *)
Definition qnat (n : nat) : val := VInt (Z.of_nat n).
Definition builtin (f : string) (args : list val) : option val :=
  if existsb is_null args then Some VNull else
  match f, args with
  | "levenshtein", [VStr a; VStr b] => Some (qnat (lev a b))
  | "damerau_levenshtein", [VStr a; VStr b] => Some (qnat (dam_lev a b))
  | "jaccard", [VStr a; VStr b] => Some (VNum (jaccard a b))
  | "jaro_similarity", [VStr a; VStr b] => Some (VNum (jaro a b))
  | "jaro_sim", [VStr a; VStr b] => Some (VNum (jaro a b))
  | "jaro_winkler_similarity", [VStr a; VStr b] => Some (VNum (jaro_winkler a b))
  | "jaro_winkler", [VStr a; VStr b] => Some (VNum (jaro_winkler a b))
  | "array_length", [VArr a] => Some (qnat (length a))
  | "size", [VArr a] => Some (qnat (length a))
  | "list_intersect", [VArr a; VArr b] => Some (VArr (arr_intersect a b))
  | "array_intersect", [VArr a; VArr b] => Some (VArr (arr_intersect a b))
  | "least", [a; b] => match val_le a b with Some true => Some a | Some false => Some b | None => None end
  | "lower", [VStr a] => Some (VStr (lower_string a))
  | "substring", [VStr a; VInt st; VInt ln] =>
    if (Z.leb 1 st && Z.leb 0 ln)%bool then Some (VStr (String.substring (Z.to_nat (st - 1)) (Z.to_nat ln) a)) else None
  | "nullif", [a; b] => match val_eq a b with Some true => Some VNull | Some false => Some a | None => None end
  | "cast:text", [VStr a] => Some (VStr a)
  | "cast:float", [a] => match numQ a with Some q => Some (VNum q) | None => None end
  | "cast:real", [a] => match numQ a with Some q => Some (VNum q) | None => None end
  | "cast:double", [a] => match numQ a with Some q => Some (VNum q) | None => None end
  | "cast:int", [VInt z] => Some (VInt z)
  | "cast:integer", [VInt z] => Some (VInt z)
  | _, _ => None
  end.

Definition orow := (string * list val * val)%type.
Fixpoint vals_eqb (a b : list val) : bool :=
  match a, b with
  | [], [] => true
  | x :: a', y :: b' => val_eqb x y && vals_eqb a' b'
  | _, _ => false
  end.
Fixpoint lookup (tbl : list orow) (f : string) (args : list val) : option val :=
  match tbl with
  | [] => None
  | (g, xs, r) :: t => if (String.eqb f g && vals_eqb xs args)%bool then Some r else lookup t f args
  end.
Definition std_fenv (oracle : list orow) (f : string) (args : list val) : val :=
  match lookup oracle f args with
  | Some r => r
  | None => match builtin f args with Some r => r | None => VNull end
  end.

(* ------------------------------------------------------------------ comparisons (level lists) *)
(* one level of a comparison: its is_null_level flag and its condition (None = ELSE) *)
Record lvl := { l_null : bool; l_cond : option expr }.

(* CASE WHEN c_1 THEN .. WHEN c_n THEN .. ELSE .. END picks the first level whose condition is
   TRUE, else the ELSE position (= number of conditions) *)
Fixpoint pick (outs : list tv) : nat :=
  match outs with
  | [] => 0
  | o :: t => if isT o then 0 else S (pick t)
  end.
Definition chosen (outs : list tv) (k : nat) : Prop :=
  (forall i, i < k -> nth i outs U <> T) /\ (nth_error outs k = Some T \/ k = length outs).

Definition conds (ls : list lvl) : list expr :=
  flat_map (fun l => match l_cond l with Some e => [e] | None => [] end) ls.
Definition level_of (P : profile) fenv env (ls : list lvl) : nat :=
  pick (map (sem P fenv env) (conds ls)).

(* threshold atoms in the top-level conjunction of a condition: (op, lhs, t) for lhs op t *)
Definition is_thresh_op (op : cmp) : bool :=
  match op with CLe | CGe | CLt | CGt => true | _ => false end.
Fixpoint atoms (e : expr) : list (cmp * expr * Q) :=
  match e with
  | EParen a => atoms a
  | EAnd a b => atoms a ++ atoms b
  | ECmp op lhs (ELit v) =>
    if is_thresh_op op then match numQ v with Some q => [(op, strip lhs, q)] | None => [] end else []
  | _ => []
  end.
Definition sat (op : cmp) (t v : Q) : bool :=
  match op with
  | CLe => Qle_bool v t
  | CGe => Qle_bool t v
  | CLt => negb (Qle_bool t v)
  | CGt => negb (Qle_bool v t)
  | _ => false
  end.
Definition Qlt_b (a b : Q) : bool := negb (Qle_bool b a).
(* ti (earlier level) strictly stricter than tj (later level) *)
Definition stricter (op : cmp) (ti tj : Q) : bool :=
  match op with
  | CLe | CLt => Qlt_b ti tj
  | CGe | CGt => Qlt_b tj ti
  | _ => false
  end.
Definition atom_pair_ok (a b : cmp * expr * Q) : bool :=
  match a, b with
  | (op, lhs, ti), (op', lhs', tj) =>
    if (cmp_eqb op op' && expr_eqb lhs lhs')%bool then stricter op ti tj else true
  end.
Definition cond_atoms (l : lvl) : list (cmp * expr * Q) :=
  match l_cond l with Some e => atoms e | None => [] end.
Definition pair_ok (li lj : lvl) : bool :=
  forallb (fun a => forallb (atom_pair_ok a) (cond_atoms lj)) (cond_atoms li).
Fixpoint ordered_ok (ls : list lvl) : bool :=
  match ls with
  | [] => true
  | l :: t => forallb (pair_ok l) t && ordered_ok t
  end.

(* the condition of a null level is built from IS NULL tests with AND/OR only (two-valued) *)
Fixpoint null_shape (e : expr) : bool :=
  match e with
  | EIsNull _ => true
  | EOr a b | EAnd a b => null_shape a && null_shape b
  | EParen a => null_shape a
  | _ => false
  end.

Definition is_else (l : lvl) : bool := match l_cond l with None => true | Some _ => false end.
Definition levels_ok0 (ls : list lvl) : bool :=
  match ls with
  | [] => false
  | first :: rest =>
    l_null first && negb (is_else first)
    && match l_cond first with Some e => null_shape e | None => false end
    && forallb (fun l => negb (l_null l)) rest
    && match rev rest with
       | [] => false
       | lastl :: mid => is_else lastl && forallb (fun l => negb (is_else l)) mid
       end
    && ordered_ok ls
  end.

(* the null level is a combination (AND / OR) of units `x_l IS NULL OR x_r IS NULL` over the SAME expression on the left and the
   right record, and every column it tests is used by a later level: rejects `l IS NULL AND r IS NULL`, units whose two sides
   differ, and a null test on a column the comparison does not compare *)
Fixpoint set_side (sd : bool) (e : expr) : expr :=
  match e with
  | ECol _ c => ECol sd c
  | ELit v => ELit v
  | ECmp op a b => ECmp op (set_side sd a) (set_side sd b)
  | EAnd a b => EAnd (set_side sd a) (set_side sd b)
  | EOr a b => EOr (set_side sd a) (set_side sd b)
  | ENot a => ENot (set_side sd a)
  | EIsNull a => EIsNull (set_side sd a)
  | EAbs a => EAbs (set_side sd a)
  | EArith op a b => EArith op (set_side sd a) (set_side sd b)
  | ECase ws d => ECase (map (fun cv => match cv with (c, v) => (set_side sd c, set_side sd v) end) ws) (set_side sd d)
  | EFn f args => EFn f (map (set_side sd) args)
  | ECast a ty => ECast (set_side sd a) ty
  | EParen a => EParen (set_side sd a)
  | EPairwise m f a b => EPairwise m f (set_side sd a) (set_side sd b)
  end.
Fixpoint col_names (e : expr) : list string :=
  match e with
  | ECol _ c => [c]
  | ELit _ => []
  | ECmp _ a b | EAnd a b | EOr a b | EArith _ a b | EPairwise _ _ a b => (col_names a ++ col_names b)%list
  | ENot a | EIsNull a | EAbs a | ECast a _ | EParen a => col_names a
  | ECase ws d => (flat_map (fun cv => match cv with (c, v) => (col_names c ++ col_names v)%list end) ws ++ col_names d)%list
  | EFn _ args => flat_map col_names args
  end.
Definition isnull_arg (e : expr) : option expr := match e with EIsNull a => Some a | _ => None end.
Definition comb {A} (x y : option (list A)) : option (list A) :=
  match x, y with Some a, Some b => Some (a ++ b)%list | _, _ => None end.
Fixpoint null_units (e : expr) : option (list (expr * expr)) :=
  match e with
  | EParen a => null_units a
  | EOr a b =>
    match isnull_arg a, isnull_arg b with
    | Some x, Some y => Some [(strip x, strip y)]
    | _, _ => comb (null_units a) (null_units b)
    end
  | EAnd a b => comb (null_units a) (null_units b)
  | _ => None
  end.
Definition unit_ok (later_cols : list string) (u : expr * expr) : bool :=
  expr_eqb (set_side true (fst u)) (fst u) && expr_eqb (set_side false (fst u)) (snd u)
  && negb (match col_names (fst u) with [] => true | _ => false end)
  && forallb (fun c => existsb (String.eqb c) later_cols) (col_names (fst u)).
Definition null_level_ok (ls : list lvl) : bool :=
  match ls with
  | first :: rest =>
    match l_cond first with
    | Some e =>
      match null_units e with
      | Some us => negb (match us with [] => true | _ => false end) && forallb (unit_ok (flat_map col_names (conds rest))) us
      | None => false
      end
    | None => false
    end
  | [] => false
  end.
Definition levels_ok (ls : list lvl) : bool := levels_ok0 ls && null_level_ok ls.

(* the CASE expression of a comparison (Comparison._case_statement): conditions in order, the
   null level mapped to -1, the others to n-1 .. 1, ELSE 0 *)
Fixpoint gamma_values (ls : list lvl) (next : Z) : list Z :=
  match ls with
  | [] => []
  | l :: t => if l_null l then (-1)%Z :: gamma_values t next
              else next :: gamma_values t (next - 1)%Z
  end.
Definition n_non_null (ls : list lvl) : Z := Z.of_nat (length (filter (fun l => negb (l_null l)) ls)).
Definition gen_case (ls : list lvl) : expr :=
  let gs := gamma_values ls (n_non_null ls - 1)%Z in
  let ws := flat_map (fun lg => match l_cond (fst lg) with
                               | Some e => [(e, ELit (VInt (snd lg)))]
                               | None => [] end) (combine ls gs) in
  let d := match flat_map (fun lg => match l_cond (fst lg) with
                                     | None => [snd lg] | Some _ => [] end) (combine ls gs) with
           | g :: _ => ELit (VInt g)
           | [] => ELit VNull
           end in
  ECase ws d.

(* the level list a comparison creator emits vs the DOCUMENTED level list (null flag, condition; None = ELSE) *)
Fixpoint levels_match (ls : list lvl) (ex : list (bool * option expr)) : bool :=
  match ls, ex with
  | [], [] => true
  | l :: t, (n, c) :: t' =>
    Bool.eqb (l_null l) n &&
    match l_cond l, c with
    | Some a, Some b => same_expr a b
    | None, None => true
    | _, _ => false
    end && levels_match t t'
  | _, _ => false
  end.
(* index of the first level that differs (for reporting) *)
Fixpoint first_mismatch (ls : list lvl) (ex : list (bool * option expr)) (i : nat) : option nat :=
  match ls, ex with
  | [], [] => None
  | l :: t, e :: t' => if levels_match [l] [e] then first_mismatch t t' (S i) else Some i
  | _, _ => Some i
  end.
