(* Model of Splink's Fellegi-Sunter scoring (predict.py, comparison.py, comparison_level.py,
   misc.py).  Definitions only; proofs are in Proofs/ScoringP.v.

   Part 1  the scoring functions themselves, over Q:
             gamma  bf  tf_adj  score  match_probability  keep
           (self-contained: stdlib + Base.TV only; reusable for the E-step of EM).
   Part 2  a small typed SQL expression language (numeric `nx` / boolean `bx`), its
           evaluator, and the *generic generators* that say which SQL text the model
           expects Splink to emit for a given comparison / model:
             gen_gamma_case gen_bf_case gen_tf_case gen_bf_expr gen_match_prob
           translators/c02_sql.py parses the SQL the real generators emit into `nx`/`bx`
           terms; Coq compares them with the generators' output (nx_eqb) and
           Proofs/ScoringP.v proves that evaluating the generators' output gives Part 1.

   Numbers are exact rationals.  The engine's POW(base, weight) is an oracle `pow`
   (a Section variable): every theorem holds for every `pow`; the correspondence check
   instantiates it with a finite table produced from model-checked base/exponent pairs. *)
From Coq Require Import List Bool ZArith QArith Qminmax Qabs.
From Splinkv Require Import Base.TV.
Import ListNotations.
Local Open Scope Q_scope.

(* ------------------------------------------------------------------------------------ *)
(* Part 1 *)

(* extended non-negative rationals: a Bayes factor is m/u, +infinity when u = 0.
   (IEEE NaN = inf * 0 is not modelled: all finite factors are > 0 whenever m > 0 and the
   exact-match u used by a TF adjustment is > 0; see `pos_factors`.) *)
Inductive xq := Fin (q : Q) | Inf.

Definition xmul (a b : xq) : xq :=
  match a, b with Fin x, Fin y => Fin (x * y) | _, _ => Inf end.
Definition xadd (a b : xq) : xq :=
  match a, b with Fin x, Fin y => Fin (x + y) | _, _ => Inf end.
Definition xdiv (a b : xq) : xq :=
  match a, b with
  | Fin x, Fin y => Fin (x / y)
  | Fin _, Inf => Fin 0
  | Inf, _ => Inf
  end.
Definition x_is_inf (a : xq) : bool := match a with Inf => true | Fin _ => false end.
Definition xq_eqb (a b : xq) : bool :=
  match a, b with Fin x, Fin y => Qeq_bool x y | Inf, Inf => true | _, _ => false end.
Definition xq_leb (a b : xq) : bool :=          (* a <= b *)
  match a, b with Fin x, Fin y => Qle_bool x y | _, Inf => true | Inf, Fin _ => false end.
Definition xq_ltb (a b : xq) : bool := negb (xq_leb b a).
Definition xq_eq (a b : xq) : Prop :=
  match a, b with Fin x, Fin y => x == y | Inf, Inf => True | _, _ => False end.

(* One comparison level as Splink holds it after construction. *)
Record level := {
  lcond : nat;            (* which entry of the pair's outcome vector is this level's SQL condition *)
  is_null : bool;         (* is_null_level *)
  is_else : bool;         (* sql_condition = ELSE *)
  lm : Q;                 (* m_probability (ignored for null levels) *)
  lu : Q;                 (* u_probability (ignored for null levels) *)
  tf_col : option nat;    (* tf_adjustment_column (id of the input column) *)
  tf_w : Q;               (* tf_adjustment_weight *)
  tf_min_u : Q;           (* tf_minimum_u_value *)
  disable_exact_detect : bool;   (* disable_tf_exact_match_detection *)
  exact_cols : list nat   (* the condition is an AND of plain equalities col_l = col_r exactly on these columns
                             ([] = it is not of that shape; [c] = a plain exact match on the single column c) *)
}.

(* comparison_vector_value: null levels -1, the others count down from (#non-null - 1). *)
Fixpoint cvv_from (counter : Z) (ls : list level) : list Z :=
  match ls with
  | [] => []
  | l :: t => if is_null l then (-1)%Z :: cvv_from counter t
              else counter :: cvv_from (counter - 1)%Z t
  end.
Definition n_nonnull (ls : list level) : nat := length (filter (fun l => negb (is_null l)) ls).
Definition assign_cvv (ls : list level) : list Z := cvv_from (Z.of_nat (n_nonnull ls) - 1)%Z ls.
Definition cvv_of (ls : list level) (i : nat) : Z := nth i (assign_cvv ls) 0%Z.

(* CASE WHEN c1 THEN v1 WHEN c2 THEN v2 ... [ELSE v] END: the first listed level whose
   condition is TRUE (NULL and FALSE do not fire); an ELSE level fires always. *)
Definition fires (outc : nat -> tv) (l : level) : bool := is_else l || isT (outc (lcond l)).
Fixpoint fired (outc : nat -> tv) (ls : list level) : option nat :=
  match ls with
  | [] => None
  | l :: t => if fires outc l then Some 0%nat else option_map S (fired outc t)
  end.
Definition gamma (ls : list level) (outc : nat -> tv) : option Z :=
  option_map (cvv_of ls) (fired outc ls).

(* ComparisonLevel._bayes_factor *)
Definition bf (l : level) : xq :=
  if is_null l then Fin 1 else if Qeq_bool (lu l) 0 then Inf else Fin (lm l / lu l).

(* CASE WHEN gamma = cvv_1 THEN x_1 WHEN gamma = cvv_2 THEN x_2 ... END  (NULL if none) *)
Fixpoint lookup_cvv {A : Type} (g : Z) (cvvs : list Z) (vals : list A) : option A :=
  match cvvs, vals with
  | v :: vt, x :: xt => if Z.eqb g v then Some x else lookup_cvv g vt xt
  | _, _ => None
  end.
Definition bf_of_gamma (ls : list level) (g : Z) : option xq :=
  lookup_cvv g (assign_cvv ls) (map bf ls).

(* coalesce(a,b) *)
Definition coalesce2 (a b : option Q) : option Q := match a with Some x => Some x | None => b end.
Definition ge3 (a b : option Q) : tv :=
  match a, b with Some x, Some y => of_bool (Qle_bool y x) | _, _ => U end.
Definition gt3 (a b : option Q) : tv :=
  match a, b with Some x, Some y => of_bool (negb (Qle_bool x y)) | _, _ => U end.

(* the two SQL variants of the divisor CASE of _tf_adjustment_sql *)
Definition divisor_A (tfl tfr : option Q) : option Q :=
  let lr := coalesce2 tfl tfr in let rl := coalesce2 tfr tfl in
  if isT (ge3 lr rl) then lr else rl.
Definition divisor_B (min_u : Q) (tfl tfr : option Q) : option Q :=
  let lr := coalesce2 tfl tfr in let rl := coalesce2 tfr tfl in
  if isT (and3 (ge3 lr rl) (gt3 lr (Some min_u))) then lr
  else if isT (gt3 rl (Some min_u)) then rl else Some min_u.
Definition tf_divisor (min_u : Q) (tfl tfr : option Q) : option Q :=
  if Qeq_bool min_u 0 then divisor_A tfl tfr else divisor_B min_u tfl tfr.

(* ComparisonLevel._u_probability_corresponding_to_exact_match: own u when detection is
   disabled, otherwise u of the FIRST listed level that is an exact match on exactly ONE column
   and that column is the TF column (an exact match on several columns, e.g. forename AND
   surname, is skipped even when it contains the TF column);
   None = the real code raises ValueError while generating SQL. *)
Definition is_exact_on (c : nat) (l : level) : bool :=
  match exact_cols l with [c'] => Nat.eqb c c' | _ => false end.
Definition u_exact (ls : list level) (l : level) : option Q :=
  if disable_exact_detect l then Some (lu l)
  else match tf_col l with
       | None => None
       | Some c => option_map lu (find (is_exact_on c) ls)
       end.
Definition u_exact_or (ls : list level) (l : level) : Q :=
  match u_exact ls l with Some u => u | None => 0 end.

(* does the TF branch of this level reach the POW expression at all? *)
Definition tf_active (l : level) (cvv : Z) : bool :=
  negb (Z.eqb cvv (-1)) && (match tf_col l with Some _ => true | None => false end)
  && negb (Qeq_bool (tf_w l) 0) && negb (is_else l).

Definition has_tf (ls : list level) : bool :=
  existsb (fun l => match tf_col l with Some _ => true | None => false end) ls.

(* a comparison whose SQL Splink can generate: every level that reaches POW finds its
   exact-match u *)
Definition tf_generable (ls : list level) : bool :=
  forallb (fun lc => negb (tf_active (fst lc) (snd lc)) ||
                     match u_exact ls (fst lc) with Some _ => true | None => false end)
          (combine ls (assign_cvv ls)).

Section Pow.
  Variable pow : Q -> Q -> Q.                      (* the engine's POW on float8 *)
  Variable tfs : nat -> option Q * option Q.       (* tf_<col>_l, tf_<col>_r of the pair (NULL = None) *)

  (* ComparisonLevel._tf_adjustment_sql for one level (value of its THEN branch) *)
  Definition tf_adj (ls : list level) (l : level) (cvv : Z) : Q :=
    if Z.eqb cvv (-1) then 1 else
    match tf_col l with
    | None => 1
    | Some k =>
        if Qeq_bool (tf_w l) 0 then 1 else
        if is_else l then 1 else
        let '(tfl, tfr) := tfs k in
        match coalesce2 tfl tfr with
        | None => 1
        | Some _ =>
            match tf_divisor (tf_min_u l) tfl tfr with
            | Some d => pow (u_exact_or ls l / d) (tf_w l)
            | None => 1
            end
        end
    end.

  Definition tf_of_gamma (ls : list level) (g : Z) : option Q :=
    lookup_cvv g (assign_cvv ls) (map (fun lc => tf_adj ls (fst lc) (snd lc)) (combine ls (assign_cvv ls))).

  (* the retained columns of one comparison: gamma_c, bf_c, and bf_tf_adj_c when any level
     of the comparison has a TF column *)
  Record cmp_cols := { c_gamma : Z; c_bf : xq; c_tf : option Q }.

  Definition cmp_eval (ls : list level) (outc : nat -> tv) : option cmp_cols :=
    match gamma ls outc with
    | None => None
    | Some g =>
        match bf_of_gamma ls g with
        | None => None
        | Some b =>
            if has_tf ls then
              match tf_of_gamma ls g with
              | None => None
              | Some t => Some {| c_gamma := g; c_bf := b; c_tf := Some t |}
              end
            else Some {| c_gamma := g; c_bf := b; c_tf := None |}
        end
    end.

  (* _match_weight_columns_to_multiply, in order *)
  Definition cols_to_multiply (c : cmp_cols) : list xq :=
    c_bf c :: match c_tf c with Some t => [Fin t] | None => [] end.

  Fixpoint eval_all (cmps : list (list level)) (outcs : list (nat -> tv)) : option (list cmp_cols) :=
    match cmps, outcs with
    | [], _ => Some []
    | ls :: ct, oc :: ot =>
        match cmp_eval ls oc, eval_all ct ot with
        | Some c, Some r => Some (c :: r)
        | _, _ => None
        end
    | _ :: _, [] => None
    end.
End Pow.

(* prob_to_bayes_factor *)
Definition prior_odds (p : Q) : xq := if Qeq_bool p 1 then Inf else Fin (p / (1 - p)).

(* cast(prior_odds) * t1 * t2 * ...   (left associated, as emitted) *)
Definition product (p : Q) (terms : list xq) : xq := fold_left xmul terms (prior_odds p).

Definition all_terms (cs : list cmp_cols) : list xq := flat_map cols_to_multiply cs.

(* the combined Bayes factor whose log2 is match_weight *)
Definition score_of_cols (p : Q) (cs : list cmp_cols) : xq := product p (all_terms cs).

(* _combine_prior_and_bfs: CASE WHEN t1 = inf OR t2 = inf ... THEN 1.0 ELSE s/(1+s) END *)
Definition match_probability_of (p : Q) (terms : list xq) : Q :=
  if Qeq_bool p 1 then 1
  else if existsb x_is_inf terms then 1
  else match product p terms with Fin s => s / (1 + s) | Inf => 1 end.

Definition score (pow : Q -> Q -> Q) (tfs : nat -> option Q * option Q) (p : Q)
           (cmps : list (list level)) (outcs : list (nat -> tv)) : option xq :=
  option_map (score_of_cols p) (eval_all pow tfs cmps outcs).
Definition match_probability (pow : Q -> Q -> Q) (tfs : nat -> option Q * option Q) (p : Q)
           (cmps : list (list level)) (outcs : list (nat -> tv)) : option Q :=
  option_map (fun cs => match_probability_of p (all_terms cs)) (eval_all pow tfs cmps outcs).

(* simple closed form of the probability (C02_inf_gives_one relates the two) *)
Definition prob_of_score (s : xq) : Q := match s with Fin q => q / (1 + q) | Inf => 1 end.

(* WHERE log2(score) >= thr, with T = 2^thr (for a probability threshold p: T = p/(1-p)) *)
Definition keep (T : Q) (s : xq) : bool := xq_leb (Fin T) s.
Definition keep_prob (p : Q) (s : xq) : bool := Qle_bool p (prob_of_score s).

(* all finite factors strictly positive: no inf * 0 *)
Definition xpos (a : xq) : bool := match a with Fin q => negb (Qle_bool q 0) | Inf => true end.
Definition pos_factors (terms : list xq) : bool := forallb xpos terms.

(* ------------------------------------------------------------------------------------ *)
(* Part 2: SQL expression skeletons *)

Inductive colref :=
| CGamma (c : nat)        (* gamma_<comparison c> *)
| CBf (c : nat)           (* bf_<comparison c> *)
| CTfAdj (c : nat)        (* bf_tf_adj_<comparison c> *)
| CTfL (k : nat)          (* tf_<column k>_l *)
| CTfR (k : nat).         (* tf_<column k>_r *)

Definition colref_eqb (a b : colref) : bool :=
  match a, b with
  | CGamma x, CGamma y | CBf x, CBf y | CTfAdj x, CTfAdj y | CTfL x, CTfL y | CTfR x, CTfR y => Nat.eqb x y
  | _, _ => false
  end.

Inductive nx :=
| NCol (c : colref)
| NLit (q : Q)                   (* numeric literal; cast(.. as float8) is dropped *)
| NInf                           (* cast('Infinity' as float8) / the dialect's infinity expression *)
| NNull                          (* CASE without ELSE falls through to NULL *)
| NCoalesce (a b : nx)
| NMul (a b : nx) | NDiv (a b : nx) | NAdd (a b : nx) | NPow (a b : nx)
| NIf (c : bx) (t e : nx)        (* CASE WHEN c THEN t <rest> ; rest = nested NIf / ELSE / NNull *)
with bx :=
| BCond (i : nat)                (* the SQL condition of the level with lcond = i, opaque *)
| BEq (a b : nx) | BGe (a b : nx) | BGt (a b : nx)
| BAnd (a b : bx) | BOr (a b : bx)
| BNotNull (a : nx).

Fixpoint nx_eqb (a b : nx) : bool :=
  match a, b with
  | NCol x, NCol y => colref_eqb x y
  | NLit x, NLit y => Qeq_bool x y
  | NInf, NInf | NNull, NNull => true
  | NCoalesce a1 a2, NCoalesce b1 b2 | NMul a1 a2, NMul b1 b2 | NDiv a1 a2, NDiv b1 b2
  | NAdd a1 a2, NAdd b1 b2 | NPow a1 a2, NPow b1 b2 => nx_eqb a1 b1 && nx_eqb a2 b2
  | NIf c1 t1 e1, NIf c2 t2 e2 => bx_eqb c1 c2 && nx_eqb t1 t2 && nx_eqb e1 e2
  | _, _ => false
  end
with bx_eqb (a b : bx) : bool :=
  match a, b with
  | BCond i, BCond j => Nat.eqb i j
  | BEq a1 a2, BEq b1 b2 | BGe a1 a2, BGe b1 b2 | BGt a1 a2, BGt b1 b2 => nx_eqb a1 b1 && nx_eqb a2 b2
  | BAnd a1 a2, BAnd b1 b2 | BOr a1 a2, BOr b1 b2 => bx_eqb a1 b1 && bx_eqb a2 b2
  | BNotNull x, BNotNull y => nx_eqb x y
  | _, _ => false
  end.

Definition lift2 (f : xq -> xq -> xq) (a b : option xq) : option xq :=
  match a, b with Some x, Some y => Some (f x y) | _, _ => None end.
Definition cmp3 (f : xq -> xq -> bool) (a b : option xq) : tv :=
  match a, b with Some x, Some y => of_bool (f x y) | _, _ => U end.

Section Eval.
  Variable pow : Q -> Q -> Q.
  Variable env : colref -> option xq.      (* None = NULL *)
  Variable conds : nat -> tv.

  Definition xpow (a b : xq) : xq :=
    match a, b with Fin x, Fin y => Fin (pow x y) | _, _ => Inf end.

  Fixpoint neval (e : nx) : option xq :=
    match e with
    | NCol c => env c
    | NLit q => Some (Fin q)
    | NInf => Some Inf
    | NNull => None
    | NCoalesce a b => match neval a with Some x => Some x | None => neval b end
    | NMul a b => lift2 xmul (neval a) (neval b)
    | NDiv a b => lift2 xdiv (neval a) (neval b)
    | NAdd a b => lift2 xadd (neval a) (neval b)
    | NPow a b => lift2 xpow (neval a) (neval b)
    | NIf c t e => if isT (beval c) then neval t else neval e
    end
  with beval (e : bx) : tv :=
    match e with
    | BCond i => conds i
    | BEq a b => cmp3 xq_eqb (neval a) (neval b)
    | BGe a b => cmp3 (fun x y => xq_leb y x) (neval a) (neval b)
    | BGt a b => cmp3 (fun x y => xq_ltb y x) (neval a) (neval b)
    | BAnd a b => and3 (beval a) (beval b)
    | BOr a b => or3 (beval a) (beval b)
    | BNotNull a => match neval a with Some _ => T | None => F end
    end.
End Eval.

(* ---- generic generators: the SQL the model expects ---------------------------------- *)
Definition zlit (z : Z) : nx := NLit (inject_Z z).
Definition xq_lit (x : xq) : nx := match x with Fin q => NLit q | Inf => NInf end.

(* Comparison._case_statement *)
Fixpoint gen_gamma_case (ls : list level) (cvvs : list Z) : nx :=
  match ls, cvvs with
  | l :: t, v :: vt =>
      if is_else l then zlit v else NIf (BCond (lcond l)) (zlit v) (gen_gamma_case t vt)
  | _, _ => NNull
  end.

(* CASE WHEN g = cvv_1 THEN x_1 ... END *)
Fixpoint gen_lookup_case (g : nx) (cvvs : list Z) (vals : list nx) : nx :=
  match cvvs, vals with
  | v :: vt, x :: xt => NIf (BEq g (zlit v)) x (gen_lookup_case g vt xt)
  | _, _ => NNull
  end.

Definition gen_bf_case (c : nat) (ls : list level) : nx :=
  gen_lookup_case (NCol (CGamma c)) (assign_cvv ls) (map (fun l => xq_lit (bf l)) ls).

Definition gen_divisor (k : nat) (min_u : Q) : nx :=
  let lr := NCoalesce (NCol (CTfL k)) (NCol (CTfR k)) in
  let rl := NCoalesce (NCol (CTfR k)) (NCol (CTfL k)) in
  if Qeq_bool min_u 0 then NIf (BGe lr rl) lr rl
  else NIf (BAnd (BGe lr rl) (BGt lr (NLit min_u))) lr (NIf (BGt rl (NLit min_u)) rl (NLit min_u)).

Definition gen_tf_level (ls : list level) (l : level) (cvv : Z) : nx :=
  if Z.eqb cvv (-1) then NLit 1 else
  match tf_col l with
  | None => NLit 1
  | Some k =>
      if Qeq_bool (tf_w l) 0 then NLit 1 else
      if is_else l then NLit 1 else
      NIf (BNotNull (NCoalesce (NCol (CTfL k)) (NCol (CTfR k))))
          (NPow (NDiv (NLit (u_exact_or ls l)) (gen_divisor k (tf_min_u l))) (NLit (tf_w l)))
          (NLit 1)
  end.

Definition gen_tf_case (c : nat) (ls : list level) : nx :=
  gen_lookup_case (NCol (CGamma c)) (assign_cvv ls)
                  (map (fun lc => gen_tf_level ls (fst lc) (snd lc)) (combine ls (assign_cvv ls))).

(* columns multiplied into the score, in the order the code lists them *)
Fixpoint term_cols_from (c : nat) (cmps : list (list level)) : list colref :=
  match cmps with
  | [] => []
  | ls :: t => CBf c :: (if has_tf ls then [CTfAdj c] else []) ++ term_cols_from (S c) t
  end.
Definition term_cols (cmps : list (list level)) : list colref := term_cols_from 0 cmps.

(* _combine_prior_and_bfs *)
Definition gen_product (p : Q) (cols : list colref) : nx :=
  fold_left (fun acc c => NMul acc (NCol c)) cols (NLit (p / (1 - p))).
Definition gen_bf_expr (p : Q) (cols : list colref) : nx :=
  if Qeq_bool p 1 then NInf else gen_product p cols.
Definition gen_any_inf (cols : list colref) : option bx :=
  match cols with
  | [] => None
  | c :: t => Some (fold_left (fun acc c' => BOr acc (BEq (NCol c') NInf)) t (BEq (NCol c) NInf))
  end.
Definition gen_match_prob (p : Q) (cols : list colref) : option nx :=
  if Qeq_bool p 1 then Some (NLit 1)
  else match gen_any_inf cols with
       | None => None                     (* no comparisons: the real code emits invalid SQL *)
       | Some any => Some (NIf any (NLit 1) (NDiv (gen_product p cols) (NAdd (NLit 1) (gen_product p cols))))
       end.

(* The outer shape of the two final select items and of the WHERE clause, which contain
   log2 and therefore have no evaluator over Q:
      log2(<bf_expr>) AS match_weight      WHERE log2(<bf_expr>) <op> <thr>
   The translator reports the operator and the operands; `final_ok` states what the model
   expects (operator >=, same bf_expr).  C02_threshold_exact (over R) connects
   log2(s) >= thr with the Q-level `keep`. *)
Inductive cmpop := OpGe | OpGt | OpLe | OpLt | OpEq.
Definition cmpop_eqb (a b : cmpop) : bool :=
  match a, b with OpGe, OpGe | OpGt, OpGt | OpLe, OpLe | OpLt, OpLt | OpEq, OpEq => true | _, _ => false end.

Record final_select := {
  f_weight_arg : nx;                         (* argument of log2 in the match_weight item *)
  f_prob : nx;                               (* the match_probability item *)
  f_where : option (nx * cmpop * Q)          (* log2 argument, operator, threshold literal *)
}.

Definition Qclose (eps a b : Q) : bool := Qle_bool (Qabs (a - b)) (eps * Qmax 1 (Qabs b)).

Definition final_ok (p : Q) (cmps : list (list level)) (thr : option Q) (f : final_select) : bool :=
  let cols := term_cols cmps in
  nx_eqb (f_weight_arg f) (gen_bf_expr p cols)
  && match gen_match_prob p cols with Some e => nx_eqb (f_prob f) e | None => false end
  && match thr, f_where f with
     | None, None => true
     | Some t, Some (a, op, t') => nx_eqb a (gen_bf_expr p cols) && cmpop_eqb op OpGe && Qclose (1 # 1000000000000) t' t
     | _, _ => false
     end.

(* ------------------------------------------------------------------------------------ *)
(* waterfall_chart.py: record_to_waterfall_data builds, in this order, a bar for the prior
   (bayes_factor = prior odds), then per comparison a bar with the Bayes factor of the level that fired and,
   if the comparison has TF adjustments, a bar with the bf_tf_adj column; each bar also carries
   log2(bayes_factor); the final bar carries match_weight and 2^match_weight. *)
Definition waterfall_records (p : Q) (cs : list cmp_cols) : list xq := prior_odds p :: all_terms cs.
Definition waterfall_final (p : Q) (cs : list cmp_cols) : xq := score_of_cols p cs.
