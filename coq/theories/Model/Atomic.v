(* C08  Effect-trace model of a public Splink operation (definitions only).

   A public training / inference / clustering call is abstracted to a small program over the
   linker-visible state (the settings object and the model it holds).  The program is
   regenerated from /repo's Python source on every run (translators/c08_effects.py); the
   shapes below are what that translator emits:

     Sql s        a call that may execute SQL (possible failure point); s = call-site id
     Raise s      a user-level `raise` (always fails when reached)
     Mut f p v    assignment / mutating call on field f; p = true when the object written is a
                  private copy (deepcopy of the linker, CoreModelSettings.copy()) - no visible effect
     Save k f     a local is bound to the current value of visible field f (slot k)
     Restore f k  field f is assigned from the local of slot k
     Try b fin    try: b finally: fin
     Choice n a b `if` (decision node n);  Loop n body  `for`/`while` (decision node n)

   Decisions are consumed from an oracle (the list of (node, taken?) in execution order that
   the harness derives from a line trace of the real run); the injected backend fault is
   "the (occ+1)-th invocation of Sql site s fails".  All theorems quantify over every oracle
   and every fault, so nothing depends on how the harness derives them. *)
From Coq Require Import List Bool ZArith Arith.
Import ListNotations.

Inductive field :=
| FCoreModel          (* settings.core_model_settings (the reference itself: swap-in) *)
| FComparisons        (* core_model_settings.comparisons (list and Comparison attributes) *)
| FPrior              (* probability_two_random_records_match *)
| FLevelMU            (* m_probability / u_probability of a level *)
| FLevelTrained       (* trained m/u history of a level *)
| FLevelOther         (* any other attribute of a level (tf column ...) *)
| FBlockingRules      (* _blocking_rules_to_generate_predictions *)
| FLinkType
| FRetainMatching
| FRetainIntermediate
| FSessions           (* linker._em_training_sessions *)
| FOther              (* anything else reachable from the linker / unclassified *)
| FCache.             (* named entries of the table cache written by the operation itself
                         (registered lookups / predictions / concat table) *)

Definition all_fields : list field :=
  [FCoreModel; FComparisons; FPrior; FLevelMU; FLevelTrained; FLevelOther; FBlockingRules;
   FLinkType; FRetainMatching; FRetainIntermediate; FSessions; FOther; FCache].

Definition field_idx (f : field) : nat :=
  match f with
  | FCoreModel => 0 | FComparisons => 1 | FPrior => 2 | FLevelMU => 3 | FLevelTrained => 4
  | FLevelOther => 5 | FBlockingRules => 6 | FLinkType => 7 | FRetainMatching => 8
  | FRetainIntermediate => 9 | FSessions => 10 | FOther => 11 | FCache => 12
  end.

Definition field_eqb (f g : field) : bool := Nat.eqb (field_idx f) (field_idx g).

Inductive val := VConst (z : Z) | VFresh.

Inductive prog :=
| Skip
| Seq (a b : prog)
| Sql (s : nat)
| Raise (s : nat)
| Mut (f : field) (priv : bool) (v : val)
| Save (k : nat) (f : field)
| Restore (f : field) (k : nat)
| Try (body fin : prog)
| Choice (n : nat) (a b : prog)
| Loop (n : nat) (body : prog).

Fixpoint seqs (l : list prog) : prog :=
  match l with [] => Skip | [p] => p | p :: l' => Seq p (seqs l') end.

(* ---------------------------------------------------------------- concrete semantics *)
Definition vstate := field -> Z.

Definition upd (st : vstate) (f : field) (z : Z) : vstate :=
  fun g => if field_eqb g f then z else st g.

Definition updk (sv : nat -> option Z) (k : nat) (z : option Z) : nat -> option Z :=
  fun j => if Nat.eqb j k then z else sv j.

Record cfg := mkcfg {
  cur : vstate;                    (* linker-visible state *)
  saved : nat -> option Z;         (* locals holding saved values *)
  next : Z;                        (* supply of values different from every earlier one *)
  orc : list (nat * bool);         (* decisions still to be consumed *)
  flt : option (nat * nat);        (* pending fault: (site, invocations of it still to succeed) *)
  failed : option nat;             (* Some s: an exception raised at site s is propagating *)
  desync : bool                    (* the oracle named another decision node than the program reached *)
}.

Definition set_cur c v := mkcfg v (saved c) (next c) (orc c) (flt c) (failed c) (desync c).
Definition set_saved c s := mkcfg (cur c) s (next c) (orc c) (flt c) (failed c) (desync c).
Definition set_next c n := mkcfg (cur c) (saved c) n (orc c) (flt c) (failed c) (desync c).
Definition set_orc c o := mkcfg (cur c) (saved c) (next c) o (flt c) (failed c) (desync c).
Definition set_flt c x := mkcfg (cur c) (saved c) (next c) (orc c) x (failed c) (desync c).
Definition set_failed c x := mkcfg (cur c) (saved c) (next c) (orc c) (flt c) x (desync c).
Definition set_desync c := mkcfg (cur c) (saved c) (next c) (orc c) (flt c) (failed c) true.

Definition write_fresh (c : cfg) (f : field) : cfg :=
  set_next (set_cur c (upd (cur c) f (next c))) (Z.succ (next c)).

Fixpoint iter (fuel n : nat) (body : cfg -> cfg) (c : cfg) : cfg :=
  match fuel with
  | O => c
  | S fuel' =>
    match failed c with
    | Some _ => c
    | None =>
      match orc c with
      | (m, d) :: o =>
        if Nat.eqb m n
        then (if d then iter fuel' n body (body (set_orc c o)) else set_orc c o)
        else set_desync c
      | [] => c
      end
    end
  end.

Fixpoint run (p : prog) (c : cfg) {struct p} : cfg :=
  match failed c with
  | Some _ => c
  | None =>
    match p with
    | Skip => c
    | Seq a b => run b (run a c)
    | Sql s =>
      match flt c with
      | Some (s', n) =>
        if Nat.eqb s s'
        then match n with
             | O => set_failed (set_flt c None) (Some s)
             | S n' => set_flt c (Some (s', n'))
             end
        else c
      | None => c
      end
    | Raise s => set_failed c (Some s)
    | Mut f true _ => c
    | Mut f false (VConst z) => set_cur c (upd (cur c) f z)
    | Mut f false VFresh => write_fresh c f
    | Save k f => set_saved c (updk (saved c) k (Some (cur c f)))
    | Restore f k =>
      match saved c k with
      | Some z => set_cur c (upd (cur c) f z)
      | None => write_fresh c f
      end
    | Try body fin =>
      let c1 := run body c in
      let c2 := run fin (set_failed c1 None) in
      match failed c2 with
      | Some _ => c2                         (* the finally block itself raised *)
      | None => set_failed c2 (failed c1)    (* re-raise what the body raised, if anything *)
      end
    | Choice n a b =>
      match orc c with
      | (m, d) :: o =>
        if Nat.eqb m n
        then (if d then run a (set_orc c o) else run b (set_orc c o))
        else run b (set_desync c)
      | [] => run b c
      end
    | Loop n body => iter (S (length (orc c))) n (run body) c
    end
  end.

(* A call: fresh locals, a value supply above everything in the initial state. *)
Definition zmax_fields (v : vstate) : Z :=
  fold_right (fun f acc => Z.max (v f) acc) 0%Z all_fields.

Definition init (v : vstate) (o : list (nat * bool)) (k : option (nat * nat)) : cfg :=
  mkcfg v (fun _ => None) (Z.succ (zmax_fields v)) o k None false.

Definition run_op (p : prog) (o : list (nat * bool)) (k : option (nat * nat)) (v : vstate) : cfg :=
  run p (init v o k).

Definition visible (c : cfg) : list Z := map (cur c) all_fields.
Definition vis_of (v : vstate) : list Z := map v all_fields.
Definition of_list (l : list Z) : vstate := fun f => nth (field_idx f) l 0%Z.

(* ---------------------------------------------------------------- the decision procedure *)
(* abstract state: which fields may differ from the pre-call value, and which saved slots are
   known to hold the pre-call value of which field *)
Record astate := mka { dirty : field -> bool; sorig : list (nat * field) }.

Definition slot_eqb (x y : nat * field) : bool :=
  Nat.eqb (fst x) (fst y) && field_eqb (snd x) (snd y).
Definition smem (x : nat * field) (l : list (nat * field)) : bool := existsb (slot_eqb x) l.

Definition setd (d : field -> bool) (f : field) (b : bool) : field -> bool :=
  fun g => if field_eqb g f then b else d g.

Definition a0 : astate := mka (fun _ => false) [].
Definition atop : astate := mka (fun _ => true) [].

(* the same function, re-tabulated so that nested joins do not re-evaluate their operands *)
Definition tabulate (d : field -> bool) : field -> bool :=
  let t := map d all_fields in fun f => nth (field_idx f) t false.

Definition join (a b : astate) : astate :=
  mka (tabulate (fun f => dirty a f || dirty b f)) (filter (fun x => smem x (sorig b)) (sorig a)).

(* a "below" b: b promises less *)
Definition aleb (a b : astate) : bool :=
  forallb (fun f => implb (dirty a f) (dirty b f)) all_fields &&
  forallb (fun x => smem x (sorig a)) (sorig b).

Fixpoint stabilise (fuel : nat) (step : astate -> astate) (x : astate) : astate :=
  match fuel with O => x | S n => stabilise n step (join x (step x)) end.

(* analyse p a = (state on normal exit, states at every exit by exception) *)
Fixpoint analyse (p : prog) (a : astate) {struct p} : astate * list astate :=
  match p with
  | Skip => (a, [])
  | Seq p1 p2 =>
    let (a1, f1) := analyse p1 a in
    let (a2, f2) := analyse p2 a1 in (a2, f1 ++ f2)
  | Sql _ => (a, [a])
  | Raise _ => (a, [a])
  | Mut f true _ => (a, [])
  | Mut f false _ => (mka (setd (dirty a) f true) (sorig a), [])
  | Save k f =>
    let rest := filter (fun x => negb (Nat.eqb (fst x) k)) (sorig a) in
    (mka (dirty a) (if dirty a f then rest else (k, f) :: rest), [])
  | Restore f k => (mka (setd (dirty a) f (negb (smem (k, f) (sorig a)))) (sorig a), [])
  | Try body fin =>
    let (a1, fb) := analyse body a in
    let (a2, ff) := analyse fin a1 in
    (a2, ff ++ flat_map (fun x => let (x2, fx) := analyse fin x in x2 :: fx) fb)
  | Choice _ p1 p2 =>
    let (a1, f1) := analyse p1 a in
    let (a2, f2) := analyse p2 a in (join a1 a2, f1 ++ f2)
  | Loop _ body =>
    let inv := stabilise (14 + length (sorig a)) (fun x => fst (analyse body x)) a in
    let (e, fs) := analyse body inv in
    if aleb e inv && aleb a inv then (inv, fs) else (atop, [atop])
  end.

Definition clean (a : astate) : bool := forallb (fun f => negb (dirty a f)) all_fields.

Definition atomicb (p : prog) : bool := forallb clean (snd (analyse p a0)).

(* which fields the checker cannot show restored at some exceptional exit (diagnostics) *)
Definition leaks (p : prog) : list field :=
  filter (fun f => existsb (fun x => dirty x f) (snd (analyse p a0))) all_fields.

(* ---------------------------------------------------------------- correspondence runner *)
(* One fault-injection case: the program of the operation, the oracle and fault derived from
   the real run, the real pre-call state (coded), and per field whether the real state
   differed after the failure.  strict f = false: the model may over-approximate a change
   (a write whose value can coincide with the old one). *)
Definition changed_model (c : cfg) (v : vstate) : list bool :=
  map (fun f => negb (Z.eqb (cur c f) (v f))) all_fields.

Fixpoint agree (strict model real : list bool) : bool :=
  match strict, model, real with
  | s :: ss, m :: ms, r :: rs =>
    (if m then (if s then r else true) else negb r) && agree ss ms rs
  | [], [], [] => true
  | _, _, _ => false
  end.

Definition run_case (p : prog) (o : list (nat * bool)) (k : option (nat * nat)) (expect_site : nat)
           (v : list Z) (strict real : list bool) : bool :=
  let c := run_op p o k (of_list v) in
  negb (desync c) &&
  match failed c with Some s => Nat.eqb s expect_site | None => false end &&
  agree strict (changed_model c (of_list v)) real.

(* ---------------------------------------------------------------- pinned shapes *)
(* The three operations whose code, as pinned before the repairs 6d14b1b4 / fe1fba29 / 82a01923,
   was not atomic: the translator's output on that tree (abd094ce), verbatim, used by the
   C08_*_refuted theorems; and its output on the repaired tree.  The per-run obligations are
   evaluated on the traces regenerated from the current source, not on these. *)

(* estimate_parameters_using_expectation_maximisation: EMTrainingSession.__init__ was handed the
   linker's own core_model_settings and assigned .comparisons and the prior before _train().
   Sites: 0 compute_df_concat_with_tf, 1 TypeError (exploding rule), 2 ValueError (m and u both
   fixed), 3..5 concat_with_tf / blocked pairs / comparison vectors, 6 as_record_dict(limit=1),
   7 EMTrainingException (no pairs), 8 expectation_maximisation. *)
Definition em_pinned : prog :=
  (seqs [(Sql 0); (Choice 0 (Raise 1) (seqs [(Mut FComparisons false VFresh);
    (Mut FPrior false VFresh); (Choice 2 (seqs [(Choice 1 (Raise 2) Skip); (Sql 3); (Sql 4);
    (Sql 5)]) Skip); (Sql 6); (Choice 3 (Raise 7) (seqs [(Sql 8);
    (Loop 9 (Loop 8 (seqs [(Choice 5 (Choice 4 (Mut FLevelTrained true VFresh) (Mut FLevelTrained true VFresh)) Skip);
    (Choice 7 (Choice 6 (Mut FLevelTrained true VFresh) (Mut FLevelTrained true VFresh)) Skip)])))]));
    (Mut FCoreModel false VFresh); (Mut FSessions false VFresh); (Save 0 FComparisons);
    (Loop 13 (Loop 12 (seqs [(Choice 10 (Mut FLevelMU false VFresh) Skip);
    (Choice 11 (Mut FLevelMU false VFresh) Skip)])));
    (Choice 14 (Mut FPrior false VFresh) Skip)]))]).

(* repaired: the session works on its own copy (the two writes become private) *)
Definition em_fixed : prog :=
  (seqs [(Sql 0); (Choice 0 (Raise 1) (seqs [(Mut FComparisons true VFresh);
    (Mut FPrior true VFresh); (Choice 2 (seqs [(Choice 1 (Raise 2) Skip); (Sql 3); (Sql 4);
    (Sql 5)]) Skip); (Sql 6); (Choice 3 (Raise 7) (seqs [(Sql 8);
    (Loop 9 (Loop 8 (seqs [(Choice 5 (Choice 4 (Mut FLevelTrained true VFresh) (Mut FLevelTrained true VFresh)) Skip);
    (Choice 7 (Choice 6 (Mut FLevelTrained true VFresh) (Mut FLevelTrained true VFresh)) Skip)])))]));
    (Mut FCoreModel false VFresh); (Mut FSessions false VFresh); (Save 0 FComparisons);
    (Loop 13 (Loop 12 (seqs [(Choice 10 (Mut FLevelMU false VFresh) Skip);
    (Choice 11 (Mut FLevelMU false VFresh) Skip)])));
    (Choice 14 (Mut FPrior false VFresh) Skip)]))]).

(* find_matches_to_new_records: temporary blocking rules restored on the success path only *)
Definition find_matches_pinned : prog :=
  (seqs [(Save 0 FBlockingRules); (Save 1 FLinkType); (Choice 0 (Sql 0) Skip); (Sql 1);
    (Mut FBlockingRules false VFresh); (Sql 2); (Sql 3); (Sql 4); (Sql 5); (Sql 6);
    (Restore FBlockingRules 0); (Restore FLinkType 1); (Sql 7)]).

Definition find_matches_fixed : prog :=
  (seqs [(Save 0 FBlockingRules); (Save 1 FLinkType); (Try (seqs [(Choice 0 (Sql 0) Skip); (Sql 1);
    (Mut FBlockingRules false VFresh); (Sql 2); (Sql 3); (Sql 4); (Sql 5); (Sql 6);
    (Sql 7)]) (seqs [(Restore FBlockingRules 0); (Restore FLinkType 1)]))]).

(* compare_two_records: _retain_* flags forced to True, restored on the success path only *)
Definition compare_two_pinned : prog :=
  (seqs [(Save 0 FRetainMatching); (Save 1 FRetainIntermediate);
    (Mut FRetainMatching false (VConst 1)); (Mut FRetainIntermediate false (VConst 1)); (Sql 0);
    (Sql 1); (Sql 2); (Sql 3); (Sql 4); (Sql 5); (Sql 6); (Restore FRetainMatching 0);
    (Restore FRetainIntermediate 1)]).

Definition compare_two_fixed : prog :=
  (seqs [(Save 0 FRetainMatching); (Save 1 FRetainIntermediate);
    (Try (seqs [(Mut FRetainMatching false (VConst 1)); (Mut FRetainIntermediate false (VConst 1));
    (Sql 0); (Sql 1); (Sql 2); (Sql 3); (Sql 4); (Sql 5);
    (Sql 6)]) (seqs [(Restore FRetainMatching 0); (Restore FRetainIntermediate 1)]))]).
