(* Model of splink/internals/accuracy.py (+ block_from_labels.py, lower_id_on_lhs.py).
   One definition per CTE of truth_space_table_from_labels_with_predictions_sqls, named after
   its output_table_name, written with the renderings of DESIGN.md section 3b.
   Scores are rationals (the harness passes the engine's own float scores converted exactly);
   counts are integers.  Definitions only. *)
From Coq Require Import List Bool ZArith QArith Qround Arith.
From Coq Require Strings.String.
Import String.StringSyntax.
Delimit Scope string_scope with string.
From Splinkv Require Import Base.TV Base.GroupBy Base.CumSum Model.BlockAnalysis.
Import ListNotations.
Local Open Scope Z_scope.

(* ------------------------------------------------------------------ inputs *)
(* a row of __splink__labels_with_predictions *)
Record lrow := { score : Q;                  (* match_weight *)
                 clerical : option Q;        (* clerical_match_score, NULL allowed *)
                 found : bool }.             (* found_by_blocking_rules *)

(* match_weight_round_to_nearest = r:   cast(r as float) * round(match_weight / r)
   SQL round: half away from zero.  The two occurrences of r are different numbers on an
   engine: [rm] is r as a 32-bit float (DuckDB) and [rd] is r as a double; for a dyadic r
   (0.25, 0.5, 1, 2 ..) both equal r and the engine arithmetic is exact. *)
Definition round_half_away (x : Q) : Z :=
  if Qle_bool 0 x then Qfloor (x + (1 # 2)) else Qceiling (x - (1 # 2)).
Definition round_to (rm rd x : Q) : Q := (rm * inject_Z (round_half_away (x / rd)))%Q.
Definition rounding (r : option (Q * Q)) : Q -> Q :=
  match r with None => fun x => x | Some (rm, rd) => round_to rm rd end.

(* ------------------------------------------------------------------ CTE 1
   select *, <rnd match_weight> as truth_threshold,
     case when clerical_match_score >= thr_actual then 1 else 0 end as clerical_positive,
     case when clerical_match_score >= thr_actual then 0 else 1 end as clerical_negative
   (a NULL clerical_match_score makes the comparison NULL: the row is a clerical negative) *)
Definition is_pos (thr_actual : Q) (r : lrow) : bool :=
  match clerical r with Some c => Qle_bool thr_actual c | None => false end.

Record pnrow := { pn_src : lrow; truth_threshold : Q;
                  clerical_positive : Z; clerical_negative : Z }.
Definition labels_with_pos_neg (thr_actual : Q) (rnd : Q -> Q) (rows : list lrow) : list pnrow :=
  map (fun r => {| pn_src := r; truth_threshold := rnd (score r);
                   clerical_positive := if is_pos thr_actual r then 1 else 0;
                   clerical_negative := if is_pos thr_actual r then 0 else 1 |}) rows.

(* ------------------------------------------------------------------ CTE 2
   CASE WHEN found_by_blocking_rules THEN truth_threshold ELSE cast(-999 as float8) END
   (only when positives_not_captured_by_blocking_rules_scored_as_zero) *)
Definition unfound_score : Q := (-999) # 1.
Definition tt_adj (zero_unfound : bool) (p : pnrow) : Q :=
  if zero_unfound then (if found (pn_src p) then truth_threshold p else unfound_score)
  else truth_threshold p.
Record adjrow := { a_pn : pnrow; truth_threshold_adj : Q }.
Definition labels_with_pos_neg_tt_adj (zero_unfound : bool) (rows : list pnrow) : list adjrow :=
  map (fun p => {| a_pn := p; truth_threshold_adj := tt_adj zero_unfound p |}) rows.

(* ------------------------------------------------------------------ CTE 3
   select truth_threshold_adj as truth_threshold, count( * ), sum(clerical_positive),
          sum(clerical_negative) ... group by truth_threshold_adj order by truth_threshold_adj *)
Record grow := { g_thr : Q; num_records_in_row : Z; g_pos : Z; g_neg : Z }.
Definition a_pos (a : adjrow) : Z := clerical_positive (a_pn a).
Definition a_neg (a : adjrow) : Z := clerical_negative (a_pn a).
Definition labels_with_pos_neg_grouped (rows : list adjrow) : list grow :=
  map (fun k => let m := members truth_threshold_adj Qle_bool rows k in
                {| g_thr := k;
                   num_records_in_row := sum_by (fun _ => 1) m;
                   g_pos := sum_by a_pos m;
                   g_neg := sum_by a_neg m |})
      (group_keys truth_threshold_adj Qle_bool rows).

(* ------------------------------------------------------------------ CTE 4
   window sums over the grouped table (sorted ascending by truth_threshold; for a frame
   (pre, x, post):  sum(e) over (order by t) = sum_by e (pre ++ [x]),
                    sum(e) over (order by t desc) = sum_by e (x :: post)) *)
Record srow := { s_thr : Q;
                 cumulative_clerical_positives_at_or_above_threshold : Z;
                 cumulative_clerical_negatives_below_threshold : Z;
                 total_clerical_positives : Z;
                 total_clerical_negatives : Z;
                 total_clerical_labels : Z;
                 num_labels_scored_below_threshold : Z;
                 num_labels_scored_at_or_above_threshold : Z }.
Definition labels_with_pos_neg_grouped_with_stats (g : list grow) : list srow :=
  map (fun fr : list grow * grow * list grow =>
         let '(pre, x, post) := fr in
         {| s_thr := g_thr x;
            cumulative_clerical_positives_at_or_above_threshold := sum_by g_pos (x :: post);
            cumulative_clerical_negatives_below_threshold := sum_by g_neg (pre ++ [x]) - g_neg x;
            total_clerical_positives := sum_by g_pos g;
            total_clerical_negatives := sum_by g_neg g;
            total_clerical_labels := sum_by num_records_in_row g;
            num_labels_scored_below_threshold :=
              - num_records_in_row x + sum_by num_records_in_row (pre ++ [x]);
            num_labels_scored_at_or_above_threshold := sum_by num_records_in_row (x :: post) |})
      (frames g).

(* ------------------------------------------------------------------ CTE 5
   total_labels given (label-column mode): the pairs that were never scored are implicit
   clerical negatives scored below every threshold *)
Definition labels_with_pos_neg_grouped_with_stats_adj (total : option Z) (s : list srow) : list srow :=
  match total with
  | None => s
  | Some tl =>
      map (fun r =>
             let extra := tl - total_clerical_positives r - total_clerical_negatives r in
             {| s_thr := s_thr r;
                cumulative_clerical_positives_at_or_above_threshold :=
                  cumulative_clerical_positives_at_or_above_threshold r;
                cumulative_clerical_negatives_below_threshold :=
                  cumulative_clerical_negatives_below_threshold r + extra;
                total_clerical_positives := total_clerical_positives r;
                total_clerical_negatives := tl - total_clerical_positives r;
                total_clerical_labels := tl;
                num_labels_scored_below_threshold := num_labels_scored_below_threshold r + extra;
                num_labels_scored_at_or_above_threshold := num_labels_scored_at_or_above_threshold r |})
          s
  end.

(* ------------------------------------------------------------------ CTE 6 *)
Record trow := { thr : Q; total : Z; P : Z; N : Z; FP : Z; TP : Z; FN : Z; TN : Z }.
Definition labels_with_pos_neg_grouped_with_truth_stats (s : list srow) : list trow :=
  map (fun r => {| thr := s_thr r;
                   total := total_clerical_labels r;
                   P := total_clerical_positives r;
                   N := total_clerical_negatives r;
                   FP := num_labels_scored_at_or_above_threshold r
                         - cumulative_clerical_positives_at_or_above_threshold r;
                   TP := cumulative_clerical_positives_at_or_above_threshold r;
                   FN := num_labels_scored_below_threshold r
                         - cumulative_clerical_negatives_below_threshold r;
                   TN := cumulative_clerical_negatives_below_threshold r |}) s.

(* ------------------------------------------------------------------ CTE 7 (rows)
   where truth_threshold >= cast(-998 as float8) *)
Definition min_reported : Q := (-998) # 1.
Definition truth_space_table (thr_actual : Q) (rnd : Q -> Q) (zero_unfound : bool)
           (total_labels : option Z) (rows : list lrow) : list trow :=
  filter (fun t => Qle_bool min_reported (thr t))
    (labels_with_pos_neg_grouped_with_truth_stats
       (labels_with_pos_neg_grouped_with_stats_adj total_labels
          (labels_with_pos_neg_grouped_with_stats
             (labels_with_pos_neg_grouped
                (labels_with_pos_neg_tt_adj zero_unfound
                   (labels_with_pos_neg thr_actual rnd rows)))))).

(* the adjusted score of an input row, as the recount specification uses it *)
Definition adj_score (rnd : Q -> Q) (zero_unfound : bool) (r : lrow) : Q :=
  if zero_unfound then (if found r then rnd (score r) else unfound_score) else rnd (score r).
Definition ghosts (total_labels : option Z) (rows : list lrow) : Z :=
  match total_labels with None => 0 | Some tl => tl - Z.of_nat (length rows) end.

(* ------------------------------------------------------------------ CTE 7 (derived rates)
   arithmetic of the final SELECT as expression trees: [rate_defs] is the documented
   definition of every derived column; translators/c15_rates.py regenerates the same kind of
   tree from the SQL text in /repo and the two are compared by evaluation. *)
Inductive var := vTP | vTN | vFP | vFN | vP | vN | vTotal.
Inductive aexp :=
| AVar (v : var) | AConst (q : Q)
| AAdd (a b : aexp) | ASub (a b : aexp) | AMul (a b : aexp) | ADiv (a b : aexp)
| ASqrt (a : aexp)
| AIfAnyZero (zs : list aexp) (a b : aexp).   (* case when z1=0 or z2=0 .. then a else b end *)

Definition var_of (t : trow) (v : var) : Q :=
  inject_Z match v with vTP => TP t | vTN => TN t | vFP => FP t | vFN => FN t
                      | vP => P t | vN => N t | vTotal => total t end.

Definition Qsqrt_exact (q : Q) : option Q :=
  let n := Qnum (Qred q) in let d := Zpos (Qden (Qred q)) in
  if (0 <=? n) && (Z.sqrt n * Z.sqrt n =? n) && (Z.sqrt d * Z.sqrt d =? d)
  then Some (Z.sqrt n # Z.to_pos (Z.sqrt d)) else None.

(* None = SQL NULL (division by zero) or an irrational square root *)
Fixpoint aeval (t : trow) (e : aexp) : option Q :=
  let bin (f : Q -> Q -> option Q) a b :=
      match aeval t a, aeval t b with Some x, Some y => f x y | _, _ => None end in
  match e with
  | AVar v => Some (var_of t v)
  | AConst q => Some q
  | AAdd a b => bin (fun x y => Some (x + y)%Q) a b
  | ASub a b => bin (fun x y => Some (x - y)%Q) a b
  | AMul a b => bin (fun x y => Some (x * y)%Q) a b
  | ADiv a b => bin (fun x y => if Qeq_bool y 0 then None else Some (x / y)%Q) a b
  | ASqrt a => match aeval t a with Some x => Qsqrt_exact x | None => None end
  | AIfAnyZero zs a b =>
      if existsb (fun z => match aeval t z with Some x => Qeq_bool x 0 | None => false end) zs
      then aeval t a else aeval t b
  end.

Definition V := AVar.
Definition C (n : Z) : aexp := AConst (inject_Z n).
Definition rate_defs : list (String.string * aexp) :=
  [ ("P_rate"%string, ADiv (V vP) (V vTotal));
    ("N_rate"%string, ADiv (V vN) (V vTotal));
    ("tp_rate"%string, ADiv (V vTP) (V vP));
    ("tn_rate"%string, ADiv (V vTN) (V vN));
    ("fp_rate"%string, ADiv (V vFP) (V vN));
    ("fn_rate"%string, ADiv (V vFN) (V vP));
    ("precision"%string, AIfAnyZero [AAdd (V vTP) (V vFP)] (C 1) (ADiv (V vTP) (AAdd (V vTP) (V vFP))));
    ("recall"%string, ADiv (V vTP) (V vP));
    ("specificity"%string, ADiv (V vTN) (V vN));
    ("npv"%string, AIfAnyZero [AAdd (V vTN) (V vFN)] (C 1) (ADiv (V vTN) (AAdd (V vTN) (V vFN))));
    ("accuracy"%string, ADiv (AAdd (V vTP) (V vTN)) (AAdd (V vP) (V vN)));
    ("f1"%string, ADiv (AMul (C 2) (V vTP)) (AAdd (AAdd (AMul (C 2) (V vTP)) (V vFN)) (V vFP)));
    ("f2"%string, ADiv (AMul (C 5) (V vTP))
                       (AAdd (AAdd (AMul (C 5) (V vTP)) (AMul (C 4) (V vFN))) (V vFP)));
    ("f0_5"%string, ADiv (AMul (AConst (5 # 4)) (V vTP))
                         (AAdd (AAdd (AMul (AConst (5 # 4)) (V vTP)) (AMul (AConst (1 # 4)) (V vFN))) (V vFP)));
    ("p4"%string, ADiv (AMul (AMul (C 4) (V vTP)) (V vTN))
                       (AAdd (AMul (AMul (C 4) (V vTP)) (V vTN))
                             (AMul (AAdd (V vTP) (V vTN)) (AAdd (V vFP) (V vFN)))));
    ("phi"%string,
       AIfAnyZero [AAdd (V vTN) (V vFN); AAdd (V vTP) (V vFP); V vP; V vN] (C 0)
         (ADiv (ASub (AMul (V vTP) (V vTN)) (AMul (V vFP) (V vFN)))
               (ASqrt (AMul (AMul (AMul (AAdd (V vTP) (V vFP)) (V vP)) (V vN)) (AAdd (V vTN) (V vFN)))))) ].

(* the square of phi, computable without a square root (used by the correspondence) *)
Definition phi_sq_def : aexp :=
  AIfAnyZero [AAdd (V vTN) (V vFN); AAdd (V vTP) (V vFP); V vP; V vN] (C 0)
    (ADiv (AMul (ASub (AMul (V vTP) (V vTN)) (AMul (V vFP) (V vFN)))
                (ASub (AMul (V vTP) (V vTN)) (AMul (V vFP) (V vFN))))
          (AMul (AMul (AMul (AAdd (V vTP) (V vFP)) (V vP)) (V vN)) (AAdd (V vTN) (V vFN)))).

Fixpoint lookup_rate (name : String.string) (defs : list (String.string * aexp)) : option aexp :=
  match defs with
  | [] => None
  | (n, e) :: t => if String.eqb n name then Some e else lookup_rate name t
  end.

(* grid used to compare a regenerated expression tree with the documented one *)
Definition grid_rows (m : nat) : list trow :=
  flat_map (fun tp => flat_map (fun tn => flat_map (fun fp => map (fun fn =>
     let z := Z.of_nat in
     {| thr := 0; total := z tp + z tn + z fp + z fn; P := z tp + z fn; N := z tn + z fp;
        FP := z fp; TP := z tp; FN := z fn; TN := z tn |}) (seq 0 m)) (seq 0 m)) (seq 0 m)) (seq 0 m).
Definition oQ_eqb (a b : option Q) : bool :=
  match a, b with Some x, Some y => Qeq_bool x y | None, None => true | _, _ => false end.
Definition aexp_agree (m : nat) (a b : aexp) : bool :=
  forallb (fun t => oQ_eqb (aeval t a) (aeval t b)) (grid_rows m).


(* syntactic equality of expression trees (constants compared by numerator and denominator):
   the translator's tree for a derived rate must BE the documented tree *)
Definition var_eqb (a b : var) : bool :=
  match a, b with
  | vTP, vTP | vTN, vTN | vFP, vFP | vFN, vFN | vP, vP | vN, vN | vTotal, vTotal => true
  | _, _ => false
  end.
Definition Q_syn_eqb (a b : Q) : bool := Z.eqb (Qnum a) (Qnum b) && Pos.eqb (Qden a) (Qden b).
Fixpoint aexp_eqb (a b : aexp) : bool :=
  match a, b with
  | AVar x, AVar y => var_eqb x y
  | AConst p, AConst q => Q_syn_eqb p q
  | AAdd a1 a2, AAdd b1 b2 | ASub a1 a2, ASub b1 b2 | AMul a1 a2, AMul b1 b2 | ADiv a1 a2, ADiv b1 b2 =>
      aexp_eqb a1 b1 && aexp_eqb a2 b2
  | ASqrt a1, ASqrt b1 => aexp_eqb a1 b1
  | AIfAnyZero zs a1 a2, AIfAnyZero ws b1 b2 =>
      (fix go (l m : list aexp) : bool :=
         match l, m with
         | [], [] => true
         | x :: l', y :: m' => aexp_eqb x y && go l' m'
         | _, _ => false
         end) zs ws && aexp_eqb a1 b1 && aexp_eqb a2 b2
  | _, _ => false
  end.

(* ------------------------------------------------------------------ labels-table mode
   lower_id_on_lhs.lower_id_to_left_hand_side + block_from_labels: ids are given as their rank
   in the order of the engine-side id expression (concat(sds,'-__-',uid) or the bare uid) *)
Record label := { id_l : nat; id_r : nat; cms : option Q }.
Definition lower_id_to_left_hand_side (ls : list label) : list label :=
  map (fun x => if Nat.ltb (id_l x) (id_r x) then x
                else {| id_l := id_r x; id_r := id_l x; cms := cms x |}) ls.
(* labels inner join concat l on l.id = id_l inner join concat r on r.id = id_r *)
Definition block_from_labels (recs : list nat) (ls : list label) : list label :=
  flat_map (fun x =>
              flat_map (fun l => map (fun r => x) (filter (Nat.eqb (id_r x)) recs))
                       (filter (Nat.eqb (id_l x)) recs))
           (lower_id_to_left_hand_side ls).
Definition labels_with_predictions_from_table (scoref : nat -> nat -> Q) (foundf : nat -> nat -> bool)
           (recs : list nat) (ls : list label) : list lrow :=
  map (fun x => {| score := scoref (id_l x) (id_r x); clerical := cms x;
                   found := foundf (id_l x) (id_r x) |}) (block_from_labels recs ls).
Definition truth_space_table_from_labels_table (thr_actual : Q) (rnd : Q -> Q)
           (scoref : nat -> nat -> Q) (foundf : nat -> nat -> bool) (recs : list nat) (ls : list label) :=
  truth_space_table thr_actual rnd true None
    (labels_with_predictions_from_table scoref foundf recs ls).

(* ------------------------------------------------------------------ label-column mode
   predictions of the model's rules plus the appended rule l.label = r.label (match_key =
   number of original rules);  clerical score 1.0 iff the labels are equal (NULL label: 0.0) *)
Record prow := { p_score : Q; p_label_l : option Z; p_label_r : option Z; p_match_key : nat }.
Definition labels_equal (a b : option Z) : bool :=
  match a, b with Some x, Some y => Z.eqb x y | _, _ => false end.
Definition labels_with_predictions_from_column (nrules : nat) (preds : list prow) : list lrow :=
  map (fun p => {| score := p_score p;
                   clerical := Some (if labels_equal (p_label_l p) (p_label_r p) then 1%Q else 0%Q);
                   found := negb (Nat.eqb (p_match_key p) nrules) |}) preds.
Definition truth_space_table_from_labels_column (lt : clink) (counts : list Z) (nrules : nat)
           (thr_actual : Q) (rnd : Q -> Q) (zero_unfound : bool) (preds : list prow) : option (list trow) :=
  match cartesian lt counts with
  | None => None
  | Some tl => Some (truth_space_table thr_actual rnd zero_unfound (Some tl)
                       (labels_with_predictions_from_column nrules preds))
  end.

(* ------------------------------------------------------------------ prediction errors *)
Record erow := { e_key : nat; e_cms : option Q; e_prob : Q; e_found : bool }.
Inductive status := StFP | StFN.
Definition oq_lt (a : option Q) (t : Q) : tv :=
  match a with Some x => of_bool (negb (Qle_bool t x)) | None => U end.
Definition oq_gt (a : option Q) (t : Q) : tv :=
  match a with Some x => of_bool (negb (Qle_bool x t)) | None => U end.
Definition q_lt (a b : Q) : tv := of_bool (negb (Qle_bool b a)).

(* (clerical_match_score < t and match_probability > t) *)
Definition false_positive (t : Q) (e : erow) : tv := and3 (oq_lt (e_cms e) t) (q_lt t (e_prob e)).
(* labels table: (clerical_match_score > t and match_probability < t) *)
Definition false_negative_table (t : Q) (e : erow) : tv := and3 (oq_gt (e_cms e) t) (q_lt (e_prob e) t).
(* label column: ... or (clerical_match_score > t and found_by_blocking_rules = False) *)
Definition false_negative_column (t : Q) (e : erow) : tv :=
  or3 (and3 (oq_gt (e_cms e) t) (q_lt (e_prob e) t))
      (and3 (oq_gt (e_cms e) t) (of_bool (negb (e_found e)))).

Definition where_condition (fp fn : erow -> tv) (inc_fp inc_fn : bool) (e : erow) : tv :=
  match inc_fp, inc_fn with
  | true, true => or3 (fp e) (fn e)
  | true, false => fp e
  | false, true => fn e
  | false, false => F      (* the real code emits an empty WHERE and the engine raises *)
  end.
(* case when FP then 'FP' when FN then 'FN' end *)
Definition truth_status (fp fn : erow -> tv) (e : erow) : option status :=
  if isT (fp e) then Some StFP else if isT (fn e) then Some StFN else None.

Definition prediction_errors (column_mode : bool) (inc_fp inc_fn : bool) (t : Q) (rows : list erow)
  : list (erow * option status) :=
  let fp := false_positive t in
  let fn := if column_mode then false_negative_column t else false_negative_table t in
  map (fun e => (e, truth_status fp fn e))
      (filter (fun e => isT (where_condition fp fn inc_fp inc_fn e)) rows).
