(* Relational skeletons of the SQL statements of solve_connected_components, as regenerated on
   every run from /repo by translators/c05_sql.py (which documents the s-expression grammar and
   the table roles), and the skeletons that Model/CC.v encodes, CTE by CTE.  Definitions only.

   T obligation (one per CTE, per pass of the loop for the loop CTEs, evaluated by vm_compute):
     skel_ok name translated = true,  i.e. the regenerated skeleton is exactly `expected name`.
   Each expected skeleton names the Gallina definition of Model/CC.v it is the DESIGN-3b reading
   of; the lock-step part of X compares the very same tables with the engine's. *)
From Coq Require Import String List Bool.
Import ListNotations.
Open Scope string_scope.

Inductive sx := N (tag : string) (kids : list sx).
Definition A (s : string) : sx := N s [].
Definition col (t c : string) : sx := N "col" [A t; A c].
Definition as_ (n : string) (e : sx) : sx := N "as" [A n; e].

Definition list_eqb_with {T : Type} (f : T -> T -> bool) : list T -> list T -> bool :=
  fix go (x y : list T) {struct x} : bool :=
    match x, y with
    | [], [] => true
    | p :: x', q :: y' => f p q && go x' y'
    | _, _ => false
    end.
Fixpoint sx_eqb (a b : sx) {struct a} : bool :=
  match a, b with
  | N s k, N t l => String.eqb s t && list_eqb_with sx_eqb k l
  end.

(* edges_with_self_loops
   Model/CC.v: thr_edges (Some t): WHERE match_probability >= t;
     edges_with_self_loops = nodupZZ (E ++ map (fun v => (v, v)) nodes): UNION (distinct) *)
Definition sk_edges_with_self_loops : sx :=
  N "union" [
    N "select" [
      N "cols" [as_ "node_id_l" (col "_" "uid_l"); as_ "node_id_r" (col "_" "uid_r")];
      N "from" [A "EDGES"];
      N "where" [N "ge" [col "_" "match_probability"; N "num" [A "0.5"]]]];
    N "select" [
      N "cols" [as_ "node_id_l" (col "_" "uid"); as_ "node_id_r" (col "_" "uid")];
      N "from" [A "NODES"]]].

(* nodes_ids_only
   Model/CC.v: the `nodes` argument of `neighbours` *)
Definition sk_nodes_ids_only : sx :=
  N "select" [N "cols" [as_ "node_id" (col "_" "uid")]; N "from" [A "NODES"]].

(* neighbours
   Model/CC.v: neighbours: one branch per direction, UNION (distinct) = nodupZZ (.. ++ ..).
     The LEFT JOINs always match (C05_neighbour_left_joins_always_match), so the coalesce is dead. *)
Definition sk_neighbours : sx :=
  N "union" [
    N "select" [
      N "cols" [col "NODE_IDS" "node_id"; as_ "neighbour" (col "EWSL" "node_id_r")];
      N "from" [A "NODE_IDS"];
      N "join" [
        A "left";
        A "EWSL";
        N "on" [N "eq" [col "NODE_IDS" "node_id"; col "EWSL" "node_id_l"]]]];
    N "select" [
      N "cols" [
        col "NODE_IDS" "node_id";
        as_ "neighbour" (N "coalesce" [col "EWSL" "node_id_l"; col "NODE_IDS" "node_id"])];
      N "from" [A "NODE_IDS"];
      N "join" [
        A "left";
        A "EWSL";
        N "on" [N "eq" [col "NODE_IDS" "node_id"; col "EWSL" "node_id_r"]]]]].

(* representatives
   Model/CC.v: representatives = group_min nbrs: GROUP BY node_id, min(neighbour) *)
Definition sk_representatives : sx :=
  N "select" [
    N "cols" [col "NBRS0" "node_id"; as_ "representative" (N "min" [col "_" "neighbour"])];
    N "from" [A "NBRS0"];
    N "group" [col "_" "node_id"]].

(* neighbours_first_iter
   Model/CC.v: neighbours_first_iter: join ON neighbour = node_id, GROUP BY node_id, min(representative) *)
Definition sk_neighbours_first_iter : sx :=
  N "select" [
    N "cols" [col "NBRS0" "node_id"; as_ "representative" (N "min" [col "REP0" "representative"])];
    N "from" [A "NBRS0"];
    N "join" [A "left"; A "REP0"; N "on" [N "eq" [col "NBRS0" "neighbour"; col "REP0" "node_id"]]];
    N "group" [col "NBRS0" "node_id"]].

(* df_representatives
   Model/CC.v: df_representatives: join ON node_id; needs_updating = negb (rep =? rep0), i.e. <> *)
Definition sk_df_representatives : sx :=
  N "select" [
    N "cols" [
      col "FIRST_ITER" "node_id";
      col "FIRST_ITER" "representative";
      as_ "needs_updating" (N "ne" [col "FIRST_ITER" "representative"; col "REP0" "representative"])];
    N "from" [A "FIRST_ITER"];
    N "join" [
      A "inner";
      A "REP0";
      N "on" [N "eq" [col "FIRST_ITER" "node_id"; col "REP0" "node_id"]]]].

(* loop/non_stable_representatives
   Model/CC.v: non_stable: prev x nbrs x prev with node r = fst n, snd n = node r2, rep r <> rep r2;
     SELECT DISTINCT rep r = nodupZ *)
Definition sk_loop_non_stable_representatives : sx :=
  N "select" [
    A "distinct";
    N "cols" [col "PREV_REPS" "representative"];
    N "from" [A "PREV_REPS"];
    N "join" [
      A "inner";
      A "PREV_NBRS";
      N "on" [N "eq" [col "PREV_REPS" "node_id"; col "PREV_NBRS" "node_id"]]];
    N "join" [
      A "inner";
      A "PREV_REPS#2";
      N "on" [N "eq" [col "PREV_NBRS" "neighbour"; col "PREV_REPS#2" "node_id"]]];
    N "where" [N "ne" [col "PREV_REPS" "representative"; col "PREV_REPS#2" "representative"]]].

(* loop/representatives_stable
   Model/CC.v: stable_rows: filter (negb (memZ (rep r) non_stable)) prev *)
Definition sk_loop_representatives_stable : sx :=
  N "select" [
    N "cols" [A "star"];
    N "from" [A "PREV_REPS"];
    N "where" [
      N "not_in" [
        col "_" "representative";
        N "select" [N "cols" [col "_" "representative"]; N "from" [A "NON_STABLE"]]]]].

(* loop/representatives_unstable
   Model/CC.v: unstable_rows: filter (negb (memZ (rep r) (map rep stable))) prev *)
Definition sk_loop_representatives_unstable : sx :=
  N "select" [
    N "cols" [A "star"];
    N "from" [A "PREV_REPS"];
    N "where" [
      N "not_in" [
        col "_" "representative";
        N "select" [N "cols" [col "_" "representative"]; N "from" [A "STABLE"]]]]].

(* loop/neighbours_filtered
   Model/CC.v: thin_neighbours: filter (memZ (fst n) (map node unstable)) nbrs, nbrs = previous pass's table *)
Definition sk_loop_neighbours_filtered : sx :=
  N "select" [
    N "cols" [A "star"];
    N "from" [A "PREV_NBRS"];
    N "where" [
      N "in" [
        col "_" "node_id";
        N "select" [N "cols" [col "_" "node_id"]; N "from" [A "UNSTABLE"]]]]].

(* loop/r
   Model/CC.v: gen_reps = group_min (gen_source un nb):
     (nb join un ON neighbour = node_id WHERE needs_updating) UNION ALL un  is  `.. ++ out_rows un`;
     GROUP BY node_id, min(representative) *)
Definition sk_loop_r : sx :=
  N "select" [
    N "cols" [col "SUB" "node_id"; as_ "representative" (N "min" [col "SUB" "representative"])];
    N "from" [
      N "union_all" [
        N "select" [
          N "cols" [col "NBRS" "node_id"; as_ "representative" (col "UNSTABLE" "representative")];
          N "from" [A "NBRS"];
          N "join" [
            A "inner";
            A "UNSTABLE";
            N "on" [N "eq" [col "NBRS" "neighbour"; col "UNSTABLE" "node_id"]]];
          N "where" [col "UNSTABLE" "needs_updating"]];
        N "select" [
          N "cols" [col "_" "node_id"; col "_" "representative"];
          N "from" [A "UNSTABLE"]]]];
    N "group" [col "SUB" "node_id"]].

(* loop/df_representatives
   Model/CC.v: upd_flags: r join un ON node_id; needs_updating = negb (rep =? rep p), i.e. <>.
     The LEFT JOIN is never unmatched (keys of r = keys of un, shown inside step_inv). *)
Definition sk_loop_df_representatives : sx :=
  N "select" [
    N "cols" [
      col "R" "node_id";
      col "R" "representative";
      as_ "needs_updating" (N "ne" [col "R" "representative"; col "UNSTABLE" "representative"])];
    N "from" [A "R"];
    N "join" [
      A "left";
      A "UNSTABLE";
      N "on" [N "eq" [col "R" "node_id"; col "UNSTABLE" "node_id"]]]].

(* loop/exit_condition
   Model/CC.v: count_flags: length (filter flag reps') over the table this pass produced *)
Definition sk_loop_exit_condition : sx :=
  N "select" [
    N "cols" [as_ "count_of_nodes_needing_updating" (A "count_star")];
    N "from" [A "REPS"];
    N "where" [col "_" "needs_updating"]].

(* final_union_all
   Model/CC.v: cc_loop: acc ++ out_rows (it_stable it) in every pass, finally ++ out_rows (it_reps it);
     out_rows r = (node r, rep r) *)
Definition sk_final_union_all : sx :=
  N "union_all_of" [
    A "all_stable_tables_then_last_representatives";
    N "select" [
      N "cols" [as_ "uid" (col "_" "node_id"); as_ "cluster_id" (col "_" "representative")];
      N "from" [A "T"]]].

(* edges_with_self_loops/nothr
   Model/CC.v: thr_edges None: no WHERE clause *)
Definition sk_edges_with_self_loops_nothr : sx :=
  N "union" [
    N "select" [
      N "cols" [as_ "node_id_l" (col "_" "uid_l"); as_ "node_id_r" (col "_" "uid_r")];
      N "from" [A "EDGES"]];
    N "select" [
      N "cols" [as_ "node_id_l" (col "_" "uid"); as_ "node_id_r" (col "_" "uid")];
      N "from" [A "NODES"]]].

(* edges_with_self_loops/thr0
   Model/CC.v: threshold 0.0 is a threshold like any other: thr_edges_n (Some 0) still has the WHERE
     clause (a NULL match_probability does not pass it) *)
Definition sk_edges_with_self_loops_thr0 : sx :=
  N "union" [
    N "select" [
      N "cols" [as_ "node_id_l" (col "_" "uid_l"); as_ "node_id_r" (col "_" "uid_r")];
      N "from" [A "EDGES"];
      N "where" [N "ge" [col "_" "match_probability"; N "num" [A "0.0"]]]];
    N "select" [
      N "cols" [as_ "node_id_l" (col "_" "uid"); as_ "node_id_r" (col "_" "uid")];
      N "from" [A "NODES"]]].

(* python_loop
   Model/CC.v: cc_loop: at least one pass (counter initialised to 1), repeat while the count of
     needs_updating rows of the table just produced is > 0, no other way out of the loop *)
Definition sk_python_loop : sx :=
  N "python_loop" [
    N "init" [A "iteration, needs_updating_count = (0, 1)"];
    N "while" [A "needs_updating_count > 0"];
    N "escapes" [A "0"];
    N "refresh" [A "root_rows[0]['count_of_nodes_needing_updating']"];
    N "orelse" [A "0"]].

Definition expected : list (string * sx) :=
  [("python_loop", sk_python_loop);
   ("edges_with_self_loops", sk_edges_with_self_loops);
   ("nodes_ids_only", sk_nodes_ids_only);
   ("neighbours", sk_neighbours);
   ("representatives", sk_representatives);
   ("neighbours_first_iter", sk_neighbours_first_iter);
   ("df_representatives", sk_df_representatives);
   ("loop/non_stable_representatives", sk_loop_non_stable_representatives);
   ("loop/representatives_stable", sk_loop_representatives_stable);
   ("loop/representatives_unstable", sk_loop_representatives_unstable);
   ("loop/neighbours_filtered", sk_loop_neighbours_filtered);
   ("loop/r", sk_loop_r);
   ("loop/df_representatives", sk_loop_df_representatives);
   ("loop/exit_condition", sk_loop_exit_condition);
   ("final_union_all", sk_final_union_all);
   ("edges_with_self_loops/nothr", sk_edges_with_self_loops_nothr);
   ("edges_with_self_loops/thr0", sk_edges_with_self_loops_thr0)].

Fixpoint lookup_sk (name : string) (l : list (string * sx)) : option sx :=
  match l with
  | [] => None
  | (n, s) :: t => if String.eqb n name then Some s else lookup_sk name t
  end.

(* obligation names carry the pass of the loop after '@' (stripped by the harness) *)
Definition skel_ok (c : string * sx) : bool :=
  match lookup_sk (fst c) expected with
  | Some e => sx_eqb e (snd c)
  | None => false
  end.
