(* Model of splink/internals/clustering.py : cluster_pairwise_predictions_at_multiple_thresholds,
   statement by statement, over the *spec* of single-threshold clustering (C05 lets the model
   call comp_min instead of the loop).  Definitions only.

   nodes : list Z ; edges : (id_l, id_r, match_probability) rows ; thresholds : list Q
   (probabilities; match weights are converted first, see thresholds_of_weights). *)
From Coq Require Import ZArith List Bool QArith.
From Splinkv Require Import Base.Graph Model.CC.
Import ListNotations.
Open Scope Z_scope.

(* cluster_pairwise_predictions_at_threshold, by C05: one row (node, component minimum) per node *)
Definition cluster_spec (nodes : list Z) (edges : list (Z * Z * Q)) (t : Q) : list (Z * Z) :=
  let E := thr_edges (Some t) edges in map (fun v => (v, comp_min nodes E v)) nodes.

(* sorted(thresholds) : insertion sort on Q *)
Fixpoint insertQ (x : Q) (l : list Q) : list Q :=
  match l with
  | [] => [x]
  | y :: t => if Qle_bool x y then x :: l else y :: insertQ x t
  end.
Definition sortQ (l : list Q) : list Q := fold_right insertQ [] l.

(* threshold_args_to_match_prob_list for integer match weights *)
Definition thresholds_of_weights (ws : list Z) : list Q := sortQ (map weight_to_prob ws).

(* __splink__relevant_edges : match_probability >= previous threshold *)
Definition relevant_edges (t : Q) (edges : list (Z * Z * Q)) : list (Z * Z * Q) :=
  filter (fun e => Qle_bool t (snd e)) edges.

(* __splink__cluster_edge_probabilities : cc LEFT JOIN relevant ON node = id_l
                                          UNION ALL cc LEFT JOIN relevant ON node = id_r *)
Definition left_join_probs (side : Z * Z * Q -> Z) (cc : list (Z * Z)) (rel : list (Z * Z * Q))
  : list (Z * option Q) :=
  flat_map (fun c => match filter (fun e => fst c =? side e) rel with
                     | [] => [(snd c, None)]
                     | l => map (fun e => (snd c, Some (snd e))) l
                     end) cc.
Definition cluster_edge_probabilities (cc : list (Z * Z)) (rel : list (Z * Z * Q)) : list (Z * option Q) :=
  left_join_probs (fun e => fst (fst e)) cc rel ++ left_join_probs (fun e => snd (fst e)) cc rel.

(* min(match_probability) of a group, NULLs skipped; None = NULL *)
Definition Qmin' (a b : Q) : Q := if Qle_bool a b then a else b.
Fixpoint min_opt (l : list (option Q)) : option Q :=
  match l with
  | [] => None
  | None :: t => min_opt t
  | Some p :: t => match min_opt t with None => Some p | Some m => Some (Qmin' p m) end
  end.
Definition group_probs (cid : Z) (cep : list (Z * option Q)) : list (option Q) :=
  map snd (filter (fun r => fst r =? cid) cep).

(* __splink__stable_clusters_at_new_threshold :
   GROUP BY cluster_id HAVING coalesce(min(match_probability), 1.0) >= new threshold *)
Definition stable_clusters (t' : Q) (cep : list (Z * option Q)) : list Z :=
  filter (fun cid => Qle_bool t' (match min_opt (group_probs cid cep) with Some m => m | None => 1%Q end))
         (nodupZ (map fst cep)).

(* __splink__stable_nodes_at_new_threshold *)
Definition stable_nodes (cc : list (Z * Z)) (stable : list Z) : list (Z * Z) :=
  filter (fun c => memZ (snd c) stable) cc.

(* __splink__nodes_in_play / __splink__edges_in_play *)
Definition nodes_in_play (nodes : list Z) (sn : list (Z * Z)) : list Z :=
  filter (fun v => negb (memZ v (map fst sn))) nodes.
Definition edges_in_play (edges : list (Z * Z * Q)) (nip : list Z) : list (Z * Z * Q) :=
  filter (fun e => memZ (fst (fst e)) nip && memZ (snd (fst e)) nip) edges.

(* one pass of the loop over the remaining thresholds: __splink__clusters_at_threshold *)
Definition next_cc (nodes : list Z) (edges : list (Z * Z * Q)) (t t' : Q) (cc : list (Z * Z))
  : list (Z * Z) :=
  let cep := cluster_edge_probabilities cc (relevant_edges t edges) in
  let sn := stable_nodes cc (stable_clusters t' cep) in
  let nip := nodes_in_play nodes sn in
  sn ++ cluster_spec nip (edges_in_play edges nip) t'.

Fixpoint multi_loop (nodes : list Z) (edges : list (Z * Z * Q)) (t : Q) (cc : list (Z * Z)) (ts : list Q)
  : list (Q * list (Z * Z)) :=
  match ts with
  | [] => []
  | t' :: rest => let cc' := next_cc nodes edges t t' cc in (t', cc') :: multi_loop nodes edges t' cc' rest
  end.

(* all_results (before the dict collapses equal thresholds): (threshold, clusters) per threshold *)
Definition multi (nodes : list Z) (edges : list (Z * Z * Q)) (thresholds : list Q)
  : list (Q * list (Z * Z)) :=
  match sortQ thresholds with
  | [] => []
  | t0 :: rest => let cc0 := cluster_spec nodes edges t0 in (t0, cc0) :: multi_loop nodes edges t0 cc0 rest
  end.

(* _get_cluster_stats_sql : (num_clusters, max_cluster_size, avg_cluster_size) *)
Definition cluster_sizes (cc : list (Z * Z)) : list (Z * nat) :=
  map (fun cid => (cid, length (filter (fun r => snd r =? cid) cc))) (nodupZ (map snd cc)).
Definition cluster_stats (cc : list (Z * Z)) : nat * nat * Q :=
  let sizes := map snd (cluster_sizes cc) in
  (length sizes, fold_right Nat.max O sizes,
   Qmake (Z.of_nat (fold_right Nat.add O sizes)) (Pos.of_nat (length sizes))).

(* Note on the empty node table: SQL returns (0, NULL, NULL) there; cluster_stats [] = (0, 0, 0 # 1).
   Every theorem about cluster_stats is about a non-empty node table or independent of it. *)

(* The same routine with the C05 *loop model* (Model/CC.v, fuel-bounded) for every inner
   clustering call instead of its spec; None if any inner call ran out of fuel. *)
Definition next_cc_lm (nodes : list Z) (edges : list (Z * Z * Q)) (t t' : Q) (cc : list (Z * Z))
  : option (list (Z * Z)) :=
  let cep := cluster_edge_probabilities cc (relevant_edges t edges) in
  let sn := stable_nodes cc (stable_clusters t' cep) in
  let nip := nodes_in_play nodes sn in
  match cluster_at_threshold nip (edges_in_play edges nip) (Some t') with
  | Some out => Some (sn ++ out)
  | None => None
  end.

Fixpoint multi_loop_lm (nodes : list Z) (edges : list (Z * Z * Q)) (t : Q) (cc : list (Z * Z)) (ts : list Q)
  : option (list (Q * list (Z * Z))) :=
  match ts with
  | [] => Some []
  | t' :: rest =>
      match next_cc_lm nodes edges t t' cc with
      | None => None
      | Some cc' =>
          match multi_loop_lm nodes edges t' cc' rest with
          | None => None
          | Some r => Some ((t', cc') :: r)
          end
      end
  end.

Definition multi_lm (nodes : list Z) (edges : list (Z * Z * Q)) (thresholds : list Q)
  : option (list (Q * list (Z * Z))) :=
  match sortQ thresholds with
  | [] => Some []
  | t0 :: rest =>
      match cluster_at_threshold nodes edges (Some t0) with
      | None => None
      | Some cc0 =>
          match multi_loop_lm nodes edges t0 cc0 rest with
          | None => None
          | Some r => Some ((t0, cc0) :: r)
          end
      end
  end.

(* Edge rows with a NULL match_probability: every filter of the routine is `match_probability >= t`
   with a threshold (the first clustering, __splink__relevant_edges, every re-clustering; the LEFT
   JOIN of __splink__cluster_edge_probabilities reads the relevant edges only), so such rows are inert. *)
Definition multi_n (nodes : list Z) (edges : list (Z * Z * option Q)) (thresholds : list Q)
  : list (Q * list (Z * Z)) :=
  multi nodes (non_null edges) thresholds.
