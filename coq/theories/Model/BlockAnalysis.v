(* Blocking-analysis counts (C14); the cartesian-count formula is also used by the accuracy
   model (C15, label-column mode: total number of implicit labels).  Definitions only. *)
From Coq Require Import List Bool ZArith Arith.
From Splinkv Require Import Base.TV Base.GroupBy Base.CumSum Model.Blocking.
Import ListNotations.
Local Open Scope Z_scope.

Definition lenZ {A} (l : list A) : Z := Z.of_nat (length l).

(* ---------------------------------------------------------------- misc.calculate_cartesian
   def calculate_cartesian(df_rows, link_type):   n = [row counts per source dataset]
     link_only       : len(n) <= 1 -> raise;  (sum(n)**2 - sum(m**2 for m in n)) / 2
     dedupe_only     : len(n) > 1  -> raise;  n[0] * (n[0] - 1) / 2
     link_and_dedupe : total = sum(n);        total * (total - 1) / 2
   (Python's true division of an even integer: exact; [None] models the raise.) *)
Inductive clink := CDedupe | CLinkOnly | CLinkAndDedupe.

Definition cartesian (lt : clink) (ns : list Z) : option Z :=
  match lt with
  | CLinkOnly =>
      if (length ns <=? 1)%nat then None
      else Some ((sumZ ns * sumZ ns - sumZ (map (fun m => m * m) ns)) / 2)
  | CDedupe =>
      match ns with
      | [n] => Some (n * (n - 1) / 2)
      | _ => None
      end
  | CLinkAndDedupe => Some (sumZ ns * (sumZ ns - 1) / 2)
  end.

(* the objects the formula is meant to count *)
Fixpoint all_pairs {A} (l : list A) : list (A * A) :=
  match l with
  | [] => []
  | x :: t => map (pair x) t ++ all_pairs t
  end.
(* [cross] is Blocking.cross *)
(* pairs of records from two different input tables *)
Fixpoint cross_pairs {A} (ts : list (list A)) : list (A * A) :=
  match ts with
  | [] => []
  | t :: rest => cross t (concat rest) ++ cross_pairs rest
  end.

(* ---------------------------------------------------------------- count_comparisons_from_blocking_rule
   post filter:  select count( * ) from L as l inner join R as r on <rule> where <link-type condition> *)
Definition post_filter_count {rec} (adm : rec -> rec -> bool) (rule : rec -> rec -> tv) (L R : list rec) : Z :=
  lenZ (filter (fun p => isT (rule (fst p) (snd p)) && adm (fst p) (snd p)) (cross L R)).

(* pre filter:  L grouped by its equi-join key tuple, R grouped by its key tuple, inner join
   USING (keys), sum(count_l * count_r).  A key tuple with a NULL component never joins, so
   a record's key is [None] when any component is NULL.  No link-type condition here. *)
Definition idL (v : list Z) : list Z := v.
Definition some_keys {rec} (key : rec -> option (list Z)) (T : list rec) : list (list Z) :=
  flat_map (fun x => match key x with Some k => [k] | None => [] end) T.
(* __splink__count_comparisons_from_blocking_l / _r *)
Definition key_groups {rec} (key : rec -> option (list Z)) (T : list rec) : list (list Z * Z) :=
  map (fun k => (k, lenZ (members idL lex_leb (some_keys key T) k)))
      (group_keys idL lex_leb (some_keys key T)).
(* __splink__block_counts: key, count_l, count_r *)
Definition block_counts {rec} (keyL keyR : rec -> option (list Z)) (L R : list rec)
  : list (list Z * Z * Z) :=
  flat_map (fun gl => flat_map (fun gr => if eqk lex_leb (fst gl) (fst gr)
                                          then [(fst gl, snd gl, snd gr)] else [])
                               (key_groups keyR R))
           (key_groups keyL L).
Definition block_size (b : list Z * Z * Z) : Z := snd (fst b) * snd b.
Definition pre_filter_count {rec} (keyL keyR : rec -> option (list Z)) (L R : list rec) : Z :=
  sumZ (map block_size (block_counts keyL keyR L R)).
(* a rule without equi-join part: count_l * count_r *)
Definition pre_filter_count_no_keys {rec} (L R : list rec) : Z := lenZ L * lenZ R.

(* ---------------------------------------------------------------- n_largest_blocks
   ... order by count_l * count_r desc limit n   (ties in unspecified order: the model fixes
   one order; the theorem is about the sizes) *)
Fixpoint insert_desc (b : list Z * Z * Z) (l : list (list Z * Z * Z)) :=
  match l with
  | [] => [b]
  | h :: t => if block_size h <=? block_size b then b :: l else h :: insert_desc b t
  end.
Fixpoint sort_desc (l : list (list Z * Z * Z)) :=
  match l with [] => [] | h :: t => insert_desc h (sort_desc t) end.
Definition n_largest_blocks {rec} (n : nat) (keyL keyR : rec -> option (list Z)) (L R : list rec) :=
  firstn n (sort_desc (block_counts keyL keyR L R)).

(* ---------------------------------------------------------------- cumulative comparisons
   count( * ) ... from blocked pairs group by match_key, zero-filled for rules without pairs;
   cumulative_rows = running sum; start = cumulative_rows - row_count *)
Definition row_counts {A} (nrules : nat) (blocked : list (nat * A)) : list Z :=
  map (fun k => lenZ (filter (fun p => Nat.eqb (fst p) k) blocked)) (seq 0 nrules).
Record cumrow := { row_count : Z; cumulative_rows : Z; start : Z; cartesian_count : Z }.
Definition cumulative_table (cart : Z) (counts : list Z) : list cumrow :=
  map (fun rc => {| row_count := fst rc; cumulative_rows := snd rc; start := snd rc - fst rc;
                    cartesian_count := cart |})
      (combine counts (cum_asc (fun x => x) counts)).
Definition cumulative_comparisons {rec} (adm : rec -> rec -> bool) (rules : list (rec -> rec -> tv))
           (cart : Z) (L R : list rec) : list cumrow :=
  cumulative_table cart (row_counts (length rules) (block adm rules L R)).

(* cumulative_comparisons_to_be_scored_from_blocking_rules_data, top level: the cartesian column is
   calculate_cartesian of the per-table row counts ([None]: the ValueError of calculate_cartesian).
   NOT modelled: max_rows_limit (the function raises when a rule's pre-filter count exceeds it; the
   model describes the calls in which the limit is not hit) and the chart built from the table. *)
Definition cumulative_comparisons_data {rec} (lt : clink) (sizes : list Z) (adm : rec -> rec -> bool)
           (rules : list (rec -> rec -> tv)) (L R : list rec) : option (list cumrow) :=
  match cartesian lt sizes with
  | Some cart => Some (cumulative_comparisons adm rules cart L R)
  | None => None
  end.
