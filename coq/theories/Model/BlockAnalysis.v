(* Blocking-analysis counts (C14); the cartesian-count formula is also used by the accuracy
   model (C15, label-column mode: total number of implicit labels).  Definitions only. *)
From Coq Require Import List Bool ZArith Arith.
From Splinkv Require Import Base.GroupBy.
Import ListNotations.
Local Open Scope Z_scope.

(* ---------------------------------------------------------------- misc.calculate_cartesian
   def calculate_cartesian(df_rows, link_type):   n = [row counts per source dataset]
     link_only       : len(n) <= 1 -> raise;  (sum(n)**2 - sum(m**2 for m in n)) / 2
     dedupe_only     : len(n) > 1  -> raise;  n[0] * (n[0] - 1) / 2
     link_and_dedupe : total = sum(n);        total * (total - 1) / 2
   (Python's true division of an even integer: exact; [None] models the raise.) *)
Inductive clink := CDedupe | CLinkOnly | CLinkAndDedupe.

Definition cartesian (lt : clink) (ns : list Z) : option Z :=
  match lt with
  | CLinkOnly =>
      if (length ns <=? 1)%nat then None
      else Some ((sumZ ns * sumZ ns - sumZ (map (fun m => m * m) ns)) / 2)
  | CDedupe =>
      match ns with
      | [n] => Some (n * (n - 1) / 2)
      | _ => None
      end
  | CLinkAndDedupe => Some (sumZ ns * (sumZ ns - 1) / 2)
  end.

(* the objects the formula is meant to count *)
Fixpoint all_pairs {A} (l : list A) : list (A * A) :=
  match l with
  | [] => []
  | x :: t => map (pair x) t ++ all_pairs t
  end.
Definition cross {A} (L R : list A) : list (A * A) := flat_map (fun l => map (pair l) R) L.
(* pairs of records from two different input tables *)
Fixpoint cross_pairs {A} (ts : list (list A)) : list (A * A) :=
  match ts with
  | [] => []
  | t :: rest => cross t (concat rest) ++ cross_pairs rest
  end.
