(* C13 identifier layer: the name-level functions Splink uses to decide
     (a) which comparisons an EM training rule deactivates (em_training_session.py),
     (b) which exact-match levels correspond to the training rule for the blocking-adjusted
         prior (settings.py, comparison_level.py _is_exact_match / _exact_match_colname(s)),
     (c) output / gamma / bayes-factor / term-frequency column names,
     (d) InputColumn: column_name, input_name, name_l / name_r, unquote.
   over Coq strings.  The SQL parser is outside the model: a level's condition is given by the
   identifiers sqlglot finds in it (clauses `a = b` and other clauses), a training rule by the
   column identifiers it mentions.  Which string operation each function applies (anchored or
   un-anchored suffix strip, lower() on which side, which attribute is compared, identifier text
   vs re-generated SQL) is a parameter `ops`, regenerated from the source on every run.

   Definitions only. *)
From Coq Require Import List Bool Arith String Ascii.
Import ListNotations.
Open Scope string_scope.
Open Scope list_scope.

(* ------------------------------------------------------------------ characters and strings *)
(* ASCII only: `lower` maps A-Z to a-z and leaves every other character alone (Python's str.lower()
   agrees with it exactly on ASCII strings; non-ASCII identifiers are outside the model). *)
Definition is_upper (c : ascii) : bool :=
  let n := nat_of_ascii c in Nat.leb 65 n && Nat.leb n 90.
Definition is_digit (c : ascii) : bool :=
  let n := nat_of_ascii c in Nat.leb 48 n && Nat.leb n 57.
Definition lower_ascii (c : ascii) : ascii :=
  if is_upper c then ascii_of_nat (nat_of_ascii c + 32) else c.

Fixpoint lower (s : string) : string :=
  match s with
  | EmptyString => EmptyString
  | String c r => String (lower_ascii c) (lower r)
  end.

Definition us : ascii := "_"%char.
Definition is_lr (c : ascii) : bool := Ascii.eqb c "l"%char || Ascii.eqb c "r"%char.
Definition is_lr_ci (c : ascii) : bool := is_lr (lower_ascii c).

(* c[:-2] *)
Fixpoint chop2 (s : string) : string :=
  match s with
  | EmptyString => EmptyString
  | String a r =>
      match r with
      | EmptyString => EmptyString
      | String b EmptyString => EmptyString
      | _ => String a (chop2 r)
      end
  end.

(* re.sub(r"_l$|_r$", "", s)  (ci = re.IGNORECASE) : the suffix at the END only *)
Fixpoint strip_end (ci : bool) (s : string) : string :=
  match s with
  | EmptyString => EmptyString
  | String a r =>
      match r with
      | String b EmptyString =>
          if Ascii.eqb a us && (if ci then is_lr_ci b else is_lr b) then EmptyString else s
      | _ => String a (strip_end ci r)
      end
  end.

(* re.sub(r"_[lr]", "", s) : every occurrence, anywhere *)
Fixpoint remove_all_lr (s : string) : string :=
  match s with
  | EmptyString => EmptyString
  | String a r =>
      match r with
      | String b r' => if Ascii.eqb a us && is_lr b then remove_all_lr r' else String a (remove_all_lr r)
      | EmptyString => s
      end
  end.

Fixpoint replace_char (x y : ascii) (s : string) : string :=
  match s with
  | EmptyString => EmptyString
  | String c r => String (if Ascii.eqb c x then y else c) (replace_char x y r)
  end.

(* identifier quoting with doubled quote characters *)
Fixpoint dbl (q : ascii) (s : string) : string :=
  match s with
  | EmptyString => EmptyString
  | String c r => if Ascii.eqb c q then String q (String q (dbl q r)) else String c (dbl q r)
  end.
Definition quote (q : ascii) (s : string) : string := String q (String.append (dbl q s) (String q EmptyString)).

(* inverse of dbl followed by the closing quote: Some inner when the text is  dbl(inner) q *)
Fixpoint undbl_to_close (q : ascii) (s : string) : option string :=
  match s with
  | EmptyString => None
  | String c r =>
      if Ascii.eqb c q then
        match r with
        | EmptyString => Some EmptyString                      (* closing quote *)
        | String c' r' => if Ascii.eqb c' q
                          then option_map (String q) (undbl_to_close q r')
                          else None
        end
      else option_map (String c) (undbl_to_close q r)
  end.
Definition unquote (q : ascii) (s : string) : option string :=
  match s with
  | String c r => if Ascii.eqb c q then undbl_to_close q r else None
  | EmptyString => None
  end.

Definition starts_with_digit (s : string) : bool :=
  match s with String c _ => is_digit c | EmptyString => false end.

Fixpoint mem_str (a : string) (l : list string) : bool :=
  match l with [] => false | x :: r => String.eqb a x || mem_str a r end.
Fixpoint dedupe (l : list string) : list string :=      (* keeps the first occurrence *)
  match l with
  | [] => []
  | x :: r => x :: filter (fun y => negb (String.eqb x y)) (dedupe r)
  end.
Definition subset (a b : list string) : bool := forallb (fun x => mem_str x b) a.
Definition remove_all (a b : list string) : list string := filter (fun x => negb (mem_str x a)) b.

(* ------------------------------------------------------------------ the table of operations *)
Inductive strip_op := Chop2 | StripEnd (ci : bool) | RemoveAllLR | NoStrip.
Inductive name_attr := AColumnName | AInputName.
Inductive ident_text :=
| IdName           (* the identifier's own text (Identifier.name / .this) *)
| IdSqlUnquoted.   (* Identifier.sql() after quoted := False: sqlglot still quotes a name that
                      cannot stand unquoted (one that starts with a digit) *)

Record ops := {
  o_deact_attr : name_attr;        (* what of the comparison's InputColumn is compared with the rule *)
  o_deact_lower_cc : bool;         (* .lower() on the comparison side *)
  o_deact_lower_br : bool;         (* .lower() on the rule side *)
  o_incol_strip : strip_op;        (* _input_columns_used_by_sql_condition *)
  o_prior_lower_br : bool;         (* .lower() on the rule's columns in settings.py *)
  o_cond_lower : bool;             (* the level condition is lower-cased before parsing *)
  o_isexact_strip : strip_op;      (* _is_exact_match *)
  o_exact_strip : strip_op;        (* _exact_match_colname *)
  o_exact_text : ident_text;
  o_out_attr : name_attr;          (* _default_output_column_name *)
  o_despace : bool;                (* .replace(" ", "_") in the gamma / bf column names *)
  o_keywords : list string;        (* _quote_if_sql_keyword *)
  o_suffix_l : string;
  o_suffix_r : string
}.

Definition apply_strip (o : strip_op) (s : string) : string :=
  match o with
  | Chop2 => chop2 s
  | StripEnd ci => strip_end ci s
  | RemoveAllLR => remove_all_lr s
  | NoStrip => s
  end.

Definition low (b : bool) (s : string) : string := if b then lower s else s.

(* ------------------------------------------------------------------ (d) InputColumn *)
Definition column_name_of (q : ascii) (raw : string) : string :=
  match unquote q raw with Some inner => inner | None => raw end.
Definition input_name (o : ops) (q : ascii) (raw : string) : string :=
  if mem_str raw (o_keywords o) then String q (String.append raw (String q EmptyString)) else raw.
Definition name_l (o : ops) (q : ascii) (raw : string) : string := quote q (String.append (column_name_of q raw) (o_suffix_l o)).
Definition name_r (o : ops) (q : ascii) (raw : string) : string := quote q (String.append (column_name_of q raw) (o_suffix_r o)).
(* Identifier.sql() with quoted = False *)
Definition sql_unquoted (q : ascii) (s : string) : string := if starts_with_digit s then quote q s else s.
Definition unquoted_name_l (o : ops) (q : ascii) (raw : string) : string :=
  sql_unquoted q (String.append (column_name_of q raw) (o_suffix_l o)).
Definition tf_name_l (o : ops) (q : ascii) (tf_prefix raw : string) : string :=
  quote q (String.append tf_prefix (String.append (column_name_of q raw) (o_suffix_l o))).
Definition tf_name_r (o : ops) (q : ascii) (tf_prefix raw : string) : string :=
  quote q (String.append tf_prefix (String.append (column_name_of q raw) (o_suffix_r o))).

(* ------------------------------------------------------------------ levels and comparisons *)
Inductive clause :=
| CEq (l r : string)            (* a top-level conjunct of the shape  <ident> = <ident> *)
| COther (ids : list string).   (* any other conjunct, with the column identifiers it mentions *)
Record level := { lv_clauses : list clause; lv_else : bool }.
Definition comparison := list level.

Definition clause_ids (c : clause) : list string :=
  match c with CEq l r => [l; r] | COther ids => ids end.
Definition level_ids (lv : level) : list string := flat_map clause_ids (lv_clauses lv).

(* ---- (a) columns a comparison uses, deactivation by the training rule *)
Definition level_input_cols (o : ops) (lv : level) : list string :=
  if lv_else lv then [] else dedupe (map (apply_strip (o_incol_strip o)) (level_ids lv)).
(* Comparison._input_columns_used_by_case_statement (deduplicated on input_name) *)
Definition cc_cols (o : ops) (c : comparison) : list string :=
  dedupe (flat_map (level_input_cols o) c).
Definition attr_of (o : ops) (q : ascii) (a : name_attr) (c : string) : string :=
  match a with AColumnName => c | AInputName => input_name o q c end.
Definition deactivates (o : ops) (q : ascii) (br : list string) (c : comparison) : bool :=
  existsb (fun b => mem_str (low (o_deact_lower_br o) b)
                            (map (fun x => low (o_deact_lower_cc o) (attr_of o q (o_deact_attr o) x)) (cc_cols o c)))
          br.
Definition deactivated (o : ops) (q : ascii) (br : list string) (cs : list comparison) : list bool :=
  map (deactivates o q br) cs.

(* ---- (b) exact-match levels corresponding to the training rule *)
Definition clause_is_exact (o : ops) (c : clause) : bool :=
  match c with
  | CEq l r => String.eqb (apply_strip (o_isexact_strip o) (low (o_cond_lower o) l))
                          (apply_strip (o_isexact_strip o) (low (o_cond_lower o) r))
  | COther _ => false
  end.
Definition level_is_exact (o : ops) (lv : level) : bool :=
  negb (lv_else lv) &&
  match lv_clauses lv with [] => false | cs => forallb (clause_is_exact o) cs end.

Definition ident_sql (o : ops) (q : ascii) (s : string) : string :=
  match o_exact_text o with IdName => s | IdSqlUnquoted => sql_unquoted q s end.
(* _exact_match_colname: None = raises ("Expected sql condition to refer to one column") *)
Definition clause_colname (o : ops) (q : ascii) (c : clause) : option string :=
  match c with
  | CEq l r =>
      let a := apply_strip (o_exact_strip o) (ident_sql o q (low (o_cond_lower o) l)) in
      let b := apply_strip (o_exact_strip o) (ident_sql o q (low (o_cond_lower o) r)) in
      if String.eqb a b then Some a else None
  | COther _ => None
  end.
Fixpoint all_some {A : Type} (l : list (option A)) : option (list A) :=
  match l with
  | [] => Some []
  | Some x :: r => option_map (cons x) (all_some r)
  | None :: _ => None
  end.
Definition level_colnames (o : ops) (q : ascii) (lv : level) : option (list string) :=
  all_some (map (clause_colname o q) (lv_clauses lv)).

(* the exact levels of all comparisons, as (comparison index, level index, column names) *)
Fixpoint exact_levels_of (o : ops) (q : ascii) (ci li : nat) (c : comparison)
  : list (option (nat * nat * list string)) :=
  match c with
  | [] => []
  | lv :: r =>
      (if level_is_exact o lv
       then [option_map (fun cn => (ci, li, cn)) (level_colnames o q lv)] else [])
      ++ exact_levels_of o q ci (S li) r
  end.
Fixpoint exact_levels (o : ops) (q : ascii) (ci : nat) (cs : list comparison) :=
  match cs with
  | [] => []
  | c :: r => exact_levels_of o q ci 0 c ++ exact_levels o q (S ci) r
  end.

(* list.sort(key = -len(colnames)) : stable, longest first *)
Definition klen (x : nat * nat * list string) : nat := List.length (snd x).
Fixpoint insert_desc (x : nat * nat * list string) (l : list (nat * nat * list string)) :=
  match l with
  | [] => [x]
  | y :: r => if Nat.ltb (klen x) (klen y) then y :: insert_desc x r else x :: y :: r
  end.
Definition sort_desc (l : list (nat * nat * list string)) := fold_right insert_desc [] l.

Fixpoint greedy (B : list string) (l : list (nat * nat * list string)) : list (nat * nat) :=
  match l with
  | [] => []
  | (ci, li, cn) :: r =>
      if subset cn B then (ci, li) :: greedy (remove_all cn B) r else greedy B r
  end.

(* Settings._get_comparison_levels_corresponding_to_training_blocking_rule; None = raises *)
Definition levels_for_rule (o : ops) (q : ascii) (br : list string) (cs : list comparison)
  : option (list (nat * nat)) :=
  match all_some (exact_levels o q 0 cs) with
  | Some ex => Some (greedy (dedupe (map (low (o_prior_lower_br o)) br)) (sort_desc ex))
  | None => None
  end.

(* ---- (c) column names derived from a comparison *)
Definition default_output_name (o : ops) (q : ascii) (c : comparison) : option string :=
  match cc_cols o c with
  | [x] => Some (attr_of o q (o_out_attr o) x)
  | _ => None      (* "custom_" + joined names: order follows a Python set, not modelled *)
  end.
Definition prefixed (o : ops) (prefix out : string) : string :=
  let s := String.append prefix out in if o_despace o then replace_char " "%char "_"%char s else s.
Definition gamma_name := prefixed.
Definition bf_name := prefixed.

(* ------------------------------------------------------------------ the modelled tables *)
Definition ops_modelled (text : ident_text) : ops :=
  {| o_deact_attr := AColumnName; o_deact_lower_cc := true; o_deact_lower_br := true;
     o_incol_strip := StripEnd true;
     o_prior_lower_br := true; o_cond_lower := true;
     o_isexact_strip := Chop2; o_exact_strip := Chop2; o_exact_text := text;
     o_out_attr := AInputName; o_despace := true;
     o_keywords := ["group"; "index"]; o_suffix_l := "_l"; o_suffix_r := "_r" |}.

(* the properties of a table the commutation theorems need *)
Definition strip_anchored (s : strip_op) : bool :=
  match s with Chop2 | StripEnd _ => true | _ => false end.
Definition attr_is_column (a : name_attr) : bool := match a with AColumnName => true | _ => false end.
Definition ops_good (o : ops) : bool :=
  attr_is_column (o_deact_attr o) && o_deact_lower_cc o && o_deact_lower_br o &&
  strip_anchored (o_incol_strip o) &&
  o_prior_lower_br o && o_cond_lower o &&
  strip_anchored (o_isexact_strip o) && strip_anchored (o_exact_strip o) &&
  String.eqb (o_suffix_l o) "_l" && String.eqb (o_suffix_r o) "_r".

Definition strip_op_eqb (a b : strip_op) : bool :=
  match a, b with
  | Chop2, Chop2 | RemoveAllLR, RemoveAllLR | NoStrip, NoStrip => true
  | StripEnd x, StripEnd y => Bool.eqb x y
  | _, _ => false
  end.
Definition attr_eqb (a b : name_attr) : bool :=
  match a, b with AColumnName, AColumnName | AInputName, AInputName => true | _, _ => false end.
Definition text_eqb (a b : ident_text) : bool :=
  match a, b with IdName, IdName | IdSqlUnquoted, IdSqlUnquoted => true | _, _ => false end.
Fixpoint strs_eqb (a b : list string) : bool :=
  match a, b with
  | [], [] => true
  | x :: a', y :: b' => String.eqb x y && strs_eqb a' b'
  | _, _ => false
  end.
Definition ops_eqb (a b : ops) : bool :=
  attr_eqb (o_deact_attr a) (o_deact_attr b) && Bool.eqb (o_deact_lower_cc a) (o_deact_lower_cc b) &&
  Bool.eqb (o_deact_lower_br a) (o_deact_lower_br b) && strip_op_eqb (o_incol_strip a) (o_incol_strip b) &&
  Bool.eqb (o_prior_lower_br a) (o_prior_lower_br b) && Bool.eqb (o_cond_lower a) (o_cond_lower b) &&
  strip_op_eqb (o_isexact_strip a) (o_isexact_strip b) && strip_op_eqb (o_exact_strip a) (o_exact_strip b) &&
  text_eqb (o_exact_text a) (o_exact_text b) && attr_eqb (o_out_attr a) (o_out_attr b) &&
  Bool.eqb (o_despace a) (o_despace b) && strs_eqb (o_keywords a) (o_keywords b) &&
  String.eqb (o_suffix_l a) (o_suffix_l b) && String.eqb (o_suffix_r a) (o_suffix_r b).

(* ------------------------------------------------------------------ presentations *)
(* A comparison written over abstract column names and rendered under a renaming rho: the
   identifiers found in the level conditions are rho(column) followed by the _l / _r suffix. *)
Inductive alevel :=
| ANull (cols : list string)      (* c_l IS NULL OR c_r IS NULL *)
| AExact (cols : list string)     (* c1_l = c1_r AND c2_l = c2_r ... *)
| AFuzzy (cols : list string)     (* any non-equality condition on the columns *)
| AElse.
Definition acomparison := list alevel.

Definition sfx (rho : string -> string) (c suf : string) : string := String.append (rho c) suf.
Definition lr (rho : string -> string) (c : string) : list string := [sfx rho c "_l"; sfx rho c "_r"].
Definition render_level (rho : string -> string) (a : alevel) : level :=
  match a with
  | ANull cols => {| lv_clauses := [COther (flat_map (lr rho) cols)]; lv_else := false |}
  | AExact cols => {| lv_clauses := map (fun c => CEq (sfx rho c "_l") (sfx rho c "_r")) cols; lv_else := false |}
  | AFuzzy cols => {| lv_clauses := [COther (flat_map (lr rho) cols)]; lv_else := false |}
  | AElse => {| lv_clauses := []; lv_else := true |}
  end.
Definition render (rho : string -> string) (c : acomparison) : comparison := map (render_level rho) c.

Definition alevel_cols (a : alevel) : list string :=
  match a with ANull c | AExact c | AFuzzy c => c | AElse => [] end.
Definition acomparison_cols (c : acomparison) : list string := flat_map alevel_cols c.
