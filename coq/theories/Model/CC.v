(* Model of splink/internals/connected_components.py : solve_connected_components, written
   statement by statement after the SQL (DESIGN 3b dictionary); definitions only.

   Node ids are Z (the harness maps the engine's id order to integers); tables are lists (bags).
   Representatives tables have rows (node_id, representative, needs_updating).

   Two LEFT JOINs of the SQL are rendered as inner joins because they can never be unmatched:
   * _cc_generate_neighbours_representation: every node has its self loop in
     __splink__df_edges_with_self_loops, so both left joins match for every node;
   * _cc_update_neighbours_first_iter / _cc_update_representatives_loop_cond: every group contains
     the node's own row (a NULL from an unmatched neighbour would be skipped by min anyway), and
     every node_id of `r` is a node_id of the thinned previous table.
   match_probability is never NULL (stated as a harness precondition). *)
From Coq Require Import ZArith List Bool QArith.
Import ListNotations.
Open Scope Z_scope.

Definition pair_eq_dec : forall a b : Z * Z, {a = b} + {a <> b}.
Proof. decide equality; apply Z.eq_dec. Defined.
Definition nodupZ := nodup Z.eq_dec.
Definition nodupZZ := nodup pair_eq_dec.
Definition memZ (x : Z) (l : list Z) : bool := existsb (Z.eqb x) l.

(* min(x) over a non-empty group *)
Fixpoint minl (d : Z) (l : list Z) : Z :=
  match l with [] => d | x :: t => Z.min x (minl d t) end.
Definition minl0 (l : list Z) : Z := match l with [] => 0 | x :: t => minl x t end.

(* SELECT k, min(v) FROM l GROUP BY k *)
Definition vals (k : Z) (l : list (Z * Z)) : list Z :=
  map snd (filter (fun kv => fst kv =? k) l).
Definition group_min (l : list (Z * Z)) : list (Z * Z) :=
  map (fun k => (k, minl0 (vals k l))) (nodupZ (map fst l)).

(* rows of the representatives tables *)
Definition rrow := (Z * Z * bool)%type.
Definition node (r : rrow) : Z := fst (fst r).
Definition rep (r : rrow) : Z := snd (fst r).
Definition flag (r : rrow) : bool := snd r.
Definition out_rows (t : list rrow) : list (Z * Z) := map (fun r => (node r, rep r)) t.

(* where match_probability >= threshold   (no where clause when the threshold is None) *)
Definition keep_edge (thr : option Q) (e : Z * Z * Q) : bool :=
  match thr with None => true | Some t => Qle_bool t (snd e) end.
Definition thr_edges (thr : option Q) (edges : list (Z * Z * Q)) : list (Z * Z) :=
  map fst (filter (keep_edge thr) edges).

(* __splink__df_edges_with_self_loops :  thresholded edges UNION (node, node) *)
Definition edges_with_self_loops (nodes : list Z) (E : list (Z * Z)) : list (Z * Z) :=
  nodupZZ (E ++ map (fun v => (v, v)) nodes).

(* __splink__df_neighbours *)
Definition neighbours (nodes : list Z) (ewsl : list (Z * Z)) : list (Z * Z) :=
  nodupZZ
    (flat_map (fun n => map (fun e => (n, snd e)) (filter (fun e => n =? fst e) ewsl)) nodes ++
     flat_map (fun n => map (fun e => (n, fst e)) (filter (fun e => n =? snd e) ewsl)) nodes).

(* representatives : select node_id, min(neighbour) group by node_id *)
Definition representatives (nbrs : list (Z * Z)) : list (Z * Z) := group_min nbrs.

(* neighbours_first_iter : neighbours join representatives on neighbour = node_id,
   min(representative) group by neighbours.node_id *)
Definition neighbours_first_iter (nbrs reps : list (Z * Z)) : list (Z * Z) :=
  group_min
    (flat_map (fun nb => map (fun r => (fst nb, snd r)) (filter (fun r => snd nb =? fst r) reps)) nbrs).

(* __splink__df_representatives : n join repr on node_id;  needs_updating = n.rep <> repr.rep *)
Definition df_representatives (fi reps : list (Z * Z)) : list rrow :=
  flat_map (fun n => map (fun r => (fst n, snd n, negb (snd n =? snd r)))
                         (filter (fun r => fst n =? fst r) reps)) fi.

(* ---- one pass of the while loop ---- *)
(* non_stable_representatives *)
Definition non_stable (prev : list rrow) (nbrs : list (Z * Z)) : list Z :=
  nodupZ
    (flat_map (fun r =>
       flat_map (fun n =>
         flat_map (fun r2 => if negb (rep r =? rep r2) then [rep r] else [])
                  (filter (fun r2 => snd n =? node r2) prev))
         (filter (fun n => node r =? fst n) nbrs))
       prev).

(* __splink__representatives_stable_k *)
Definition stable_rows (prev : list rrow) (nbrs : list (Z * Z)) : list rrow :=
  let ns := non_stable prev nbrs in filter (fun r => negb (memZ (rep r) ns)) prev.

(* __splink__representatives_unstable_k *)
Definition unstable_rows (prev stable : list rrow) : list rrow :=
  filter (fun r => negb (memZ (rep r) (map rep stable))) prev.

(* __splink__df_neighbours_filtered_k *)
Definition thin_neighbours (nbrs : list (Z * Z)) (unstable : list rrow) : list (Z * Z) :=
  filter (fun n => memZ (fst n) (map node unstable)) nbrs.

(* r : _cc_generate_representatives_loop_cond *)
Definition gen_source (unstable : list rrow) (nbrs : list (Z * Z)) : list (Z * Z) :=
  flat_map (fun n => map (fun r => (fst n, rep r))
                         (filter (fun r => (snd n =? node r) && flag r) unstable)) nbrs
  ++ out_rows unstable.
Definition gen_reps (unstable : list rrow) (nbrs : list (Z * Z)) : list (Z * Z) :=
  group_min (gen_source unstable nbrs).

(* __splink__df_representatives_k : _cc_update_representatives_loop_cond *)
Definition upd_flags (r : list (Z * Z)) (unstable : list rrow) : list rrow :=
  flat_map (fun x => map (fun p => (fst x, snd x, negb (snd x =? rep p)))
                         (filter (fun p => fst x =? node p) unstable)) r.

Record cc_iter := { it_stable : list rrow; it_nbrs : list (Z * Z); it_reps : list rrow }.

Definition cc_step (prev : list rrow) (nbrs : list (Z * Z)) : cc_iter :=
  let st := stable_rows prev nbrs in
  let un := unstable_rows prev st in
  let nb := thin_neighbours nbrs un in
  {| it_stable := st; it_nbrs := nb; it_reps := upd_flags (gen_reps un nb) un |}.

(* count of rows where needs_updating *)
Definition count_flags (t : list rrow) : nat := length (filter flag t).

(* while needs_updating_count > 0 (at least one pass); output = UNION ALL of all stable tables
   and the last representatives table *)
Fixpoint cc_loop (fuel : nat) (prev : list rrow) (nbrs : list (Z * Z)) (acc : list (Z * Z))
  : option (list (Z * Z)) :=
  match fuel with
  | O => None
  | S f =>
      let it := cc_step prev nbrs in
      let acc' := acc ++ out_rows (it_stable it) in
      match count_flags (it_reps it) with
      | O => Some (acc' ++ out_rows (it_reps it))
      | _ => cc_loop f (it_reps it) (it_nbrs it) acc'
      end
  end.

(* per-iteration tables, for the lock-step comparison with the engine *)
Fixpoint cc_trace (fuel : nat) (prev : list rrow) (nbrs : list (Z * Z)) : list cc_iter :=
  match fuel with
  | O => []
  | S f =>
      let it := cc_step prev nbrs in
      it :: match count_flags (it_reps it) with
            | O => []
            | _ => cc_trace f (it_reps it) (it_nbrs it)
            end
  end.

Definition cc_init (nodes : list Z) (E : list (Z * Z)) : list rrow * list (Z * Z) :=
  let nb := neighbours nodes (edges_with_self_loops nodes E) in
  let reps := representatives nb in
  (df_representatives (neighbours_first_iter nb reps) reps, nb).

Definition cc_fuel (nodes : list Z) : nat := S (length nodes * length nodes).

(* solve_connected_components on already thresholded edges *)
Definition solve_cc_fuel (fuel : nat) (nodes : list Z) (E : list (Z * Z)) : option (list (Z * Z)) :=
  let '(r0, nb) := cc_init nodes E in cc_loop fuel r0 nb [].
Definition solve_cc (nodes : list Z) (E : list (Z * Z)) : option (list (Z * Z)) :=
  solve_cc_fuel (cc_fuel nodes) nodes E.

(* cluster_pairwise_predictions_at_threshold : (node_id, cluster_id) rows *)
Definition cluster_at_threshold (nodes : list Z) (edges : list (Z * Z * Q)) (thr : option Q)
  : option (list (Z * Z)) :=
  solve_cc nodes (thr_edges thr edges).

(* threshold_args_to_match_prob for an integer match weight: 2^w / (1 + 2^w) *)
Definition pow2Q (w : Z) : Q :=
  match w with
  | Z0 => 1%Q
  | Zpos p => inject_Z (2 ^ Zpos p)
  | Zneg p => Qmake 1 (2 ^ p)%positive
  end.
Definition weight_to_prob (w : Z) : Q := (pow2Q w / (1 + pow2Q w))%Q.

(* match_probability may be NULL.  `NULL >= t` is not TRUE, so a NULL row never passes a threshold
   filter, whatever the threshold (also 0); when no threshold is given there is no WHERE clause at
   all and the row stays. *)
Definition keep_edge_n (thr : option Q) (e : Z * Z * option Q) : bool :=
  match thr, snd e with
  | None, _ => true
  | Some t, Some p => Qle_bool t p
  | Some _, None => false
  end.
Definition thr_edges_n (thr : option Q) (edges : list (Z * Z * option Q)) : list (Z * Z) :=
  map fst (filter (keep_edge_n thr) edges).
Definition cluster_at_threshold_n (nodes : list Z) (edges : list (Z * Z * option Q)) (thr : option Q)
  : option (list (Z * Z)) :=
  solve_cc nodes (thr_edges_n thr edges).
(* the rows with a non-NULL probability *)
Definition non_null (edges : list (Z * Z * option Q)) : list (Z * Z * Q) :=
  flat_map (fun e => match snd e with Some p => [(fst e, p)] | None => [] end) edges.

(* match-weight view of the threshold filter: keep an edge iff its Bayes factor p/(1-p) is at
   least 2^w, i.e. its match weight log2(p/(1-p)) is at least w; p = 1 has match weight +inf *)
Definition keep_edge_weight (w : Z) (e : Z * Z * Q) : bool :=
  if Qeq_bool (snd e) 1 then true else Qle_bool (pow2Q w) (snd e / (1 - snd e)).
Definition weight_edges (w : Z) (edges : list (Z * Z * Q)) : list (Z * Z) :=
  map fst (filter (keep_edge_weight w) edges).

(* composite node id of a link job: source_dataset || '-__-' || unique_id
   (unique_id_concat.py; ids are compared as these strings) *)
From Coq Require Import String Ascii.
Definition composite_sep : string := "-__-"%string.
Definition composite_id (sds uid : string) : string := (sds ++ composite_sep ++ uid)%string.
Fixpoint has_char (c : ascii) (s : string) : bool :=
  match s with
  | EmptyString => false
  | String a t => Ascii.eqb a c || has_char c t
  end.
