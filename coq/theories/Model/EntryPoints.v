(* Model of the inference entry points of splink/internals/linker_components/inference.py and
   realtime.py as compositions of
     - a candidate-pair generator (C01 `block` / a cross join / cluster self-join minus predictions),
     - a term-frequency source per side,
     - the one shared scorer (Model/Scoring.v `eval_all` / `score_of_cols`),
     - a final filter.
   Definitions only; proofs in Proofs/EntryPointsP.v. *)
From Coq Require Import List Bool ZArith QArith.
From Splinkv Require Import Base.TV Model.Blocking Model.Scoring.
Import ListNotations.
Local Open Scope Q_scope.

Definition tfv := nat -> option Q.          (* tf value per TF column of one record; None = NULL *)

Section EntryPoints.
  Variable rec : Type.                       (* a record with all its columns *)
  Variable pow : Q -> Q -> Q.
  Variable prior : Q.
  Variable cmps : list (list level).
  Variable outc : rec -> rec -> list (nat -> tv).     (* outcomes of the level conditions on (l, r) *)

  (* predict_from_comparison_vectors_sqls on one pair: the retained gamma_/bf_/bf_tf_adj_ columns
     (match weight and probability are functions of them: score_of_cols, match_probability_of) *)
  Definition scored := (rec * rec * option (list cmp_cols))%type.
  Definition score_row (tl tr : tfv) (l r : rec) : scored :=
    (l, r, eval_all pow (fun k => (tl k, tr k)) cmps (outc l r)).
  Definition row_score (x : scored) : option xq := option_map (score_of_cols prior) (snd x).
  Definition row_gammas (x : scored) : option (list Z) := option_map (map c_gamma) (snd x).

  (* WHERE log2(bf) >= thr  (T = 2^thr); NULL scores are dropped by a threshold *)
  Definition keep_row (T : option Q) (x : scored) : bool :=
    match T with
    | None => true
    | Some t => match row_score x with Some s => keep t s | None => false end
    end.
  (* WHERE match_weight > thr *)
  Definition above_row (t : Q) (x : scored) : bool :=
    match row_score x with Some s => xq_ltb (Fin t) s | None => false end.

  (* ---- predict ---- *)
  Definition ep_predict (adm : rec -> rec -> bool) (rules : list (rec -> rec -> tv)) (tf : rec -> tfv)
             (T : option Q) (L R : list rec) : list scored :=
    filter (keep_row T)
           (map (fun kp => score_row (tf (fst (snd kp))) (tf (snd (snd kp))) (fst (snd kp)) (snd (snd kp)))
                (block adm rules L R)).

  (* ---- compare_two_records / realtime compare_records: cartesian product of the two inputs ---- *)
  Definition ep_compare (tfl tfr : rec -> tfv) (L R : list rec) : list scored :=
    map (fun p => score_row (tfl (fst p)) (tfr (snd p)) (fst p) (snd p)) (cross L R).

  (* ---- find_matches_to_new_records: two_dataset_link_only blocking (no id condition), existing
          records on the left, new ones on the right, strict threshold on the weight ---- *)
  Definition ep_find_matches (rules : list (rec -> rec -> tv)) (tf_existing tf_new : rec -> tfv) (t : Q)
             (existing new : list rec) : list scored :=
    filter (above_row t)
           (map (fun kp => score_row (tf_existing (fst (snd kp))) (tf_new (snd (snd kp))) (fst (snd kp)) (snd (snd kp)))
                (block (fun _ _ => true) rules existing new)).

  (* ---- _score_missing_cluster_edges: self-join of the clustered records on _cluster_id with the
          linker's admissibility, anti-joined with the supplied predictions ---- *)
  Definition same_cluster (cluster : rec -> option Z) : rec -> rec -> tv :=
    fun l r => match cluster l, cluster r with
               | Some a, Some b => of_bool (Z.eqb a b)
               | _, _ => U
               end.
  Definition ep_missing_edges (adm : rec -> rec -> bool) (cluster : rec -> option Z) (in_pred : rec -> rec -> bool)
             (tf : rec -> tfv) (T : option Q) (C : list rec) : list scored :=
    filter (keep_row T)
           (map (fun kp => score_row (tf (fst (snd kp))) (tf (snd (snd kp))) (fst (snd kp)) (snd (snd kp)))
                (filter (fun kp => negb (in_pred (fst (snd kp)) (snd (snd kp))))
                        (block adm [same_cluster cluster] C C))).

  (* ---- term-frequency sources ---- *)
  Variable V : Type.
  Variable veqb : V -> V -> bool.
  Variable value : nat -> rec -> option V.        (* value of TF column k *)

  Definition has_value (k : nat) (x : V) (r : rec) : bool :=
    match value k r with Some y => veqb x y | None => false end.
  Definition non_null (k : nat) (r : rec) : bool := match value k r with Some _ => true | None => false end.

  (* term_frequencies_for_single_column_sql joined back by value: count(value)/count(non-null);
     a value that does not occur (or NULL) finds no row: NULL *)
  Definition tf_of_data (D : list rec) (k : nat) (v : option V) : option Q :=
    match v with
    | None => None
    | Some x =>
        let n := length (filter (has_value k x) D) in
        match n with
        | O => None
        | _ => Some (inject_Z (Z.of_nat n) / inject_Z (Z.of_nat (length (filter (non_null k) D))))
        end
    end.

  (* a registered lookup table: first row with this value (tables are functional) *)
  Fixpoint lookup_tbl (tbl : list (V * Q)) (v : option V) : option Q :=
    match v with
    | None => None
    | Some x => match tbl with
                | [] => None
                | (y, q) :: t => if veqb x y then Some q else lookup_tbl t (Some x)
                end
    end.

  (* how an input record obtains tf column k: _join_new_table_to_df_concat_with_tf_sql *)
  Inductive tf_route :=
  | Supplied                      (* the record carries its own tf_ column *)
  | Registered (tbl : list (V * Q))   (* __splink__df_tf_<col> is in the cache *)
  | DistinctFromConcat            (* select distinct col, tf_col from __splink__df_concat_with_tf *)
  | NoSource.                     (* null as tf_col *)

  Definition adhoc_tf (D : list rec) (route : nat -> tf_route) (supplied : rec -> tfv) (r : rec) : tfv :=
    fun k => match route k with
             | Supplied => supplied r k
             | Registered tbl => lookup_tbl tbl (value k r)
             | DistinctFromConcat => tf_of_data D k (value k r)
             | NoSource => None
             end.

  (* the tf columns of the linker's own records (compute_df_concat_with_tf) *)
  Definition data_tf (D : list rec) (registered : nat -> option (list (V * Q))) (r : rec) : tfv :=
    fun k => match registered k with
             | Some tbl => lookup_tbl tbl (value k r)
             | None => tf_of_data D k (value k r)
             end.
End EntryPoints.

(* ------------------------------------------------------------------------------------ *)
(* The anti-join of _score_missing_cluster_edges as emitted:
     SELECT ne.* FROM raw_pairs ne LEFT JOIN predictions oe ON <on> WHERE <wh>
   over the (never NULL) composite join keys; translators/c10_sql.py extracts <on>, <wh>. *)
Inductive jkey := KNeL | KNeR | KOeL | KOeR.
Inductive jbx := JEq (a b : jkey) | JAnd (a b : jbx) | JIsNull (k : jkey).

Definition jkey_eqb (a b : jkey) : bool :=
  match a, b with KNeL, KNeL | KNeR, KNeR | KOeL, KOeL | KOeR, KOeR => true | _, _ => false end.
Fixpoint jbx_eqb (a b : jbx) : bool :=
  match a, b with
  | JEq x y, JEq x' y' => jkey_eqb x x' && jkey_eqb y y'
  | JAnd x y, JAnd x' y' => jbx_eqb x x' && jbx_eqb y y'
  | JIsNull x, JIsNull x' => jkey_eqb x x'
  | _, _ => false
  end.

(* oe = None: the NULL-extended row of the LEFT JOIN *)
Definition jval (ne : nat * nat) (oe : option (nat * nat)) (k : jkey) : option nat :=
  match k with
  | KNeL => Some (fst ne) | KNeR => Some (snd ne)
  | KOeL => option_map fst oe | KOeR => option_map snd oe
  end.
Fixpoint jeval (ne : nat * nat) (oe : option (nat * nat)) (e : jbx) : tv :=
  match e with
  | JEq a b => match jval ne oe a, jval ne oe b with Some x, Some y => of_bool (Nat.eqb x y) | _, _ => U end
  | JAnd a b => and3 (jeval ne oe a) (jeval ne oe b)
  | JIsNull k => match jval ne oe k with None => T | Some _ => F end
  end.
Definition left_join_where (on wh : jbx) (ne : nat * nat) (preds : list (nat * nat)) : list (nat * nat) :=
  match filter (fun oe => isT (jeval ne (Some oe) on)) preds with
  | [] => if isT (jeval ne None wh) then [ne] else []
  | ms => map (fun _ => ne) (filter (fun oe => isT (jeval ne (Some oe) wh)) ms)
  end.
Definition canon_on : jbx := JAnd (JEq KOeL KNeL) (JEq KOeR KNeR).
Definition canon_wh : jbx := JAnd (JIsNull KOeL) (JIsNull KOeR).
Definition key_pair_eqb (a b : nat * nat) : bool := Nat.eqb (fst a) (fst b) && Nat.eqb (snd a) (snd b).
(* what the translator's output is checked against: None = no predictions supplied, no join *)
Definition anti_join_ok (j : option (jbx * jbx)) (supplied : bool) : bool :=
  match j with
  | None => negb supplied
  | Some (on, wh) => supplied && jbx_eqb on canon_on && jbx_eqb wh canon_wh
  end.

(* ------------------------------------------------------------------------------------ *)
(* which branch of _join_new_table_to_df_concat_with_tf_sql serves a TF column of an ad-hoc record:
   its own tf_ column, else the cached __splink__df_tf_<col> table (registered or computed), else
   select distinct from the cached __splink__df_concat_with_tf, else NULL.  translators/c10_sql.py
   reads the branch off the emitted SQL for every cache state. *)
Inductive route_kind := RSupplied | RRegistered | RDistinct | RNone.
Definition route_kind_eqb (a b : route_kind) : bool :=
  match a, b with RSupplied, RSupplied | RRegistered, RRegistered | RDistinct, RDistinct | RNone, RNone => true | _, _ => false end.
Definition route_priority (supplied tf_table_cached concat_cached : bool) : route_kind :=
  if supplied then RSupplied else if tf_table_cached then RRegistered else if concat_cached then RDistinct else RNone.
Definition route_of {V : Type} (k : route_kind) (tbl : list (V * Q)) : tf_route V :=
  match k with RSupplied => Supplied V | RRegistered => Registered V tbl | RDistinct => DistinctFromConcat V | RNone => NoSource V end.

(* ------------------------------------------------------------------------------------ *)
(* SQL-shaped model of ONE entry point's scoring pipeline: the skeletons that translators/c10_sql.py
   extracts from the SQL text the entry point really executed (comparison-vector stage, match-weight
   parts stage, predict stage), evaluated stage by stage like the CTE pipeline does. *)
Record pipeline := {
  pl_gammas : list nx;            (* CASE ... END AS gamma_c, per comparison *)
  pl_bfs : list nx;               (* CASE ... END AS bf_c *)
  pl_tfs : list (option nx);      (* CASE ... END AS bf_tf_adj_c (None: the comparison has no such column) *)
  pl_weight : nx;                 (* argument of log2 in match_weight *)
  pl_prob : nx                    (* match_probability *)
}.
Definition onx_eqb (a b : option nx) : bool :=
  match a, b with Some x, Some y => nx_eqb x y | None, None => true | _, _ => false end.
Fixpoint all2b {A B} (f : A -> B -> bool) (l : list A) (l' : list B) : bool :=
  match l, l' with [], [] => true | x :: t, y :: t' => f x y && all2b f t t' | _, _ => false end.
Definition pipeline_eqb (a b : pipeline) : bool :=
  all2b nx_eqb (pl_gammas a) (pl_gammas b) && all2b nx_eqb (pl_bfs a) (pl_bfs b) &&
  all2b onx_eqb (pl_tfs a) (pl_tfs b) && nx_eqb (pl_weight a) (pl_weight b) && nx_eqb (pl_prob a) (pl_prob b).

Definition no_conds : nat -> tv := fun _ => U.
(* the columns visible to each stage *)
Definition env_tf (tfs : nat -> option Q * option Q) : colref -> option xq :=
  fun c => match c with
           | CTfL k => option_map Fin (fst (tfs k))
           | CTfR k => option_map Fin (snd (tfs k))
           | _ => None
           end.
Definition env_with_gammas (env : colref -> option xq) (gs : list (option xq)) : colref -> option xq :=
  fun c => match c with CGamma i => nth i gs None | _ => env c end.
Definition env_with_parts (env : colref -> option xq) (bs ts : list (option xq)) : colref -> option xq :=
  fun c => match c with CBf i => nth i bs None | CTfAdj i => nth i ts None | _ => env c end.

Record pl_out := { o_gammas : list (option xq); o_bfs : list (option xq); o_tfs : list (option xq);
                   o_weight_arg : option xq; o_prob : option xq }.

Definition run_pipeline (pow : Q -> Q -> Q) (pl : pipeline) (tfs : nat -> option Q * option Q)
           (outcs : list (nat -> tv)) : pl_out :=
  let e0 := env_tf tfs in
  let gs := map (fun go => neval pow e0 (snd go) (fst go)) (combine (pl_gammas pl) outcs) in
  let e1 := env_with_gammas e0 gs in
  let bs := map (neval pow e1 no_conds) (pl_bfs pl) in
  let ts := map (fun o => match o with Some e => neval pow e1 no_conds e | None => None end) (pl_tfs pl) in
  let e2 := env_with_parts e1 bs ts in
  {| o_gammas := gs; o_bfs := bs; o_tfs := ts;
     o_weight_arg := neval pow e2 no_conds (pl_weight pl); o_prob := neval pow e2 no_conds (pl_prob pl) |}.

(* the pipeline the Scoring model expects for a model (prior, comparisons) *)
Definition model_pipeline (p : Q) (cmps : list (list level)) : pipeline :=
  {| pl_gammas := map (fun ls => gen_gamma_case ls (assign_cvv ls)) cmps;
     pl_bfs := map (fun ic => gen_bf_case (fst ic) (snd ic)) (combine (seq 0 (length cmps)) cmps);
     pl_tfs := map (fun ic => if has_tf (snd ic) then Some (gen_tf_case (fst ic) (snd ic)) else None)
                   (combine (seq 0 (length cmps)) cmps);
     pl_weight := gen_bf_expr p (term_cols cmps);
     pl_prob := match gen_match_prob p (term_cols cmps) with Some e => e | None => NNull end |}.
