(* Model of splink/internals/one_to_one_clustering.py (single-best-link clustering), written
   statement by statement after the SQL loop; one definition per output_table_name.

   Ids are Z (the harness passes the engine-side sort rank of the composite id string),
   source datasets are Z, probabilities are Q.  Tables are lists (bags).

   `row_number() over (partition by X order by match_probability desc)` has NO tie-breaker
   in the SQL: which row of a partition gets rank 1 among rows of equal probability is up
   to the engine (and its threads).  It is modelled by a *chooser*: an arbitrary function of
   (iteration, partition key, rows of the partition) returning the row that gets rank 1.
   `rank1_ok` is the only thing SQL guarantees about it.  Theorems quantify over all
   choosers; rank_l and rank_r use two independent choosers. *)
From Coq Require Import List Bool ZArith QArith Lia.
Import ListNotations.
Open Scope Z_scope.

(* ---------------------------------------------------------------- generic SQL renderings *)
Definition join {A B : Type} (on : A -> B -> bool) (a : list A) (b : list B) : list (A * B) :=
  flat_map (fun x => map (pair x) (filter (on x) b)) a.

(* min() aggregate over a non-empty group *)
Definition minl (l : list Z) : Z :=
  match l with [] => 0 | x :: t => fold_left Z.min t x end.

(* ---------------------------------------------------------------- input tables *)
Definition node := (Z * Z)%type.                   (* node_id, source_dataset *)
Definition n_id (n : node) := fst n.
Definition n_sds (n : node) := snd n.

Definition edge := (Z * Z * Q)%type.               (* node_id_l, node_id_r, match_probability *)
Definition e_l (e : edge) := fst (fst e).
Definition e_r (e : edge) := snd (fst e).
Definition e_p (e : edge) := snd e.

(* identity of a row of __splink__df_neighbours: (position in the edges table, reversed?) *)
Definition rid := (nat * bool)%type.
Definition rid_eqb (a b : rid) : bool := Nat.eqb (fst a) (fst b) && Bool.eqb (snd a) (snd b).

Record nbrow := { nb_rid : rid; nb_node : Z; nb_nb : Z; nb_p : Q }.

(* where match_probability >= threshold   (no clause when the threshold is None) *)
Definition above (thr : option Q) (p : Q) : bool :=
  match thr with None => true | Some t => Qle_bool t p end.

Definition indexed (E : list edge) : list (nat * edge) := combine (seq 0 (length E)) E.

(* __splink__df_neighbours: thresholded edges UNION ALL their reverses *)
Definition df_neighbours (thr : option Q) (E : list edge) : list nbrow :=
  map (fun ie => {| nb_rid := (fst ie, false); nb_node := e_l (snd ie); nb_nb := e_r (snd ie); nb_p := e_p (snd ie) |})
      (filter (fun ie => above thr (e_p (snd ie))) (indexed E))
  ++
  map (fun ie => {| nb_rid := (fst ie, true); nb_node := e_r (snd ie); nb_nb := e_l (snd ie); nb_p := e_p (snd ie) |})
      (filter (fun ie => above thr (e_p (snd ie))) (indexed E)).

(* __splink__df_representatives(_k): node_id, representative, source_dataset *)
Definition reprow := (Z * Z * Z)%type.
Definition rr_node (r : reprow) := fst (fst r).
Definition rr_rep (r : reprow) := snd (fst r).
Definition rr_sds (r : reprow) := snd r.

Definition df_representatives (nodes : list node) : list reprow :=
  map (fun n => (n_id n, n_id n, n_sds n)) nodes.

(* ---------------------------------------------------------------- one iteration *)
Section Iteration.
  Variable dfs : list Z.                 (* duplicate_free_datasets *)
  Variable nbs : list nbrow.             (* __splink__df_neighbours *)

  (* __splink__representative_contains_flags_k:
       select representative, max(cast(source_dataset = 'sd' as int)) > 0 as contains_sd ...
       from prev group by representative *)
  Definition contains_flag (prev : list reprow) (c d : Z) : bool :=
    existsb (fun r => (rr_rep r =? c) && (rr_sds r =? d)) prev.
  Definition flags_of (prev : list reprow) (c : Z) : list bool :=
    map (contains_flag prev c) dfs.
  Definition representative_contains_flags (prev : list reprow) : list (Z * list bool) :=
    map (fun c => (c, flags_of prev c)) (nodup Z.eq_dec (map rr_rep prev)).

  (* __splink__df_representatives_with_flags_k: prev r inner join flags cf on r.representative = cf.representative *)
  Record wfrow := { wf_node : Z; wf_sds : Z; wf_rep : Z; wf_flags : list bool }.
  Definition df_representatives_with_flags (prev : list reprow) : list wfrow :=
    map (fun rc => {| wf_node := rr_node (fst rc); wf_sds := rr_sds (fst rc);
                      wf_rep := fst (snd rc); wf_flags := snd (snd rc) |})
        (join (fun r cf => rr_rep r =? fst cf) prev (representative_contains_flags prev)).

  (* (l.contains_a and r.contains_a) or (l.contains_b and r.contains_b) ... *)
  Definition duplicate_criteria (fl fr : list bool) : bool :=
    existsb (fun ab => fst ab && snd ab) (combine fl fr).

  (* rows of __splink__df_ranked_k before the two row_number columns are attached *)
  Record crow := { c_rid : rid; c_node : Z; c_nb : Z; c_p : Q; c_lrep : Z; c_rrep : Z }.

  Definition candidates (prev : list reprow) : list crow :=
    let wf := df_representatives_with_flags prev in
    map (fun x => match x with (nb, l, r) =>
           {| c_rid := nb_rid nb; c_node := nb_node nb; c_nb := nb_nb nb; c_p := nb_p nb;
              c_lrep := wf_rep l; c_rrep := wf_rep r |} end)
        (filter (fun x => match x with (nb, l, r) =>
                   negb (wf_rep l =? wf_rep r) && negb (duplicate_criteria (wf_flags l) (wf_flags r)) end)
           (join (fun nl r => nb_nb (fst nl) =? wf_node r)
                 (join (fun nb l => nb_node nb =? wf_node l) nbs wf) wf)).

  (* partitions of the two windows *)
  Definition part_l (rows : list crow) (c : Z) := filter (fun r => c_lrep r =? c) rows.
  Definition part_r (rows : list crow) (c : Z) := filter (fun r => c_rrep r =? c) rows.

  Definition chooser := nat -> Z -> list crow -> crow.
  Definition same_row (a b : crow) : bool :=
    rid_eqb (c_rid a) (c_rid b) && (c_node a =? c_node b) && (c_nb a =? c_nb b)
    && Qeq_bool (c_p a) (c_p b).

  Variables chl chr : chooser.           (* who gets rank_l = 1 / rank_r = 1 *)
  Variable it : nat.

  Definition rank_l_is_1 (rows : list crow) (r : crow) : bool :=
    same_row r (chl it (c_lrep r) (part_l rows (c_lrep r))).
  Definition rank_r_is_1 (rows : list crow) (r : crow) : bool :=
    same_row r (chr it (c_rrep r) (part_r rows (c_rrep r))).

  (* __splink__df_neighbours_k: where rank_l = 1 and rank_r = 1 *)
  Definition df_neighbours_k (prev : list reprow) : list crow :=
    let rows := candidates prev in
    filter (fun r => rank_l_is_1 rows r && rank_r_is_1 rows r) rows.

  (* the sub-select `source`:
       accepted rows left join prev on neighbour = node_id  (-> representative of the neighbour)
       union all prev
     The left join cannot produce a NULL representative for a key of the final table (the
     neighbour was inner-joined to the same node ids) and min() skips NULLs, so unmatched
     rows are dropped here. *)
  Definition source (prev : list reprow) : list (Z * Z) :=
    map (fun ar => (c_node (fst ar), rr_rep (snd ar)))
        (join (fun a r => c_nb a =? rr_node r) (df_neighbours_k prev) prev)
    ++ map (fun r => (rr_node r, rr_rep r)) prev.

  (* r: select node_id, min(representative) from source group by node_id *)
  Definition r_table (prev : list reprow) : list (Z * Z) :=
    let src := source prev in
    map (fun k => (k, minl (map snd (filter (fun s => fst s =? k) src))))
        (nodup Z.eq_dec (map fst src)).

  (* __splink__df_representatives_k: r inner join prev on node_id;
     columns node_id, representative, source_dataset, needs_updating *)
  Definition rep4 := (Z * Z * Z * bool)%type.
  Definition df_representatives_k (prev : list reprow) : list rep4 :=
    map (fun rp => (fst (fst rp), snd (fst rp), rr_sds (snd rp),
                    negb (snd (fst rp) =? rr_rep (snd rp))))
        (join (fun r p => fst r =? rr_node p) (r_table prev) prev).
End Iteration.

Definition strip (t : list rep4) : list reprow := map fst t.
(* select count( * ) from representatives where needs_updating *)
Definition count_needs_updating (t : list rep4) : nat := length (filter snd t).

(* ---------------------------------------------------------------- the Python loop *)
Section Loop.
  Variable dfs : list Z.
  Variable nbs : list nbrow.
  Variables chl chr : chooser.

  Definition oto_step (it : nat) (prev : list reprow) : list rep4 :=
    df_representatives_k dfs nbs chl chr it prev.

  (* state after k iterations, ignoring the exit test (for invariants over all iterations) *)
  Fixpoint oto_iter (k : nat) (it : nat) (prev : list reprow) : list reprow :=
    match k with
    | O => prev
    | S k' => oto_iter k' (S it) (strip (oto_step it prev))
    end.

  (* while needs_updating_count > 0; iteration numbers start at 1 *)
  Fixpoint oto_loop (fuel : nat) (it : nat) (prev : list reprow) : option (list reprow) :=
    match fuel with
    | O => None
    | S f =>
        let nxt := oto_step it prev in
        if Nat.eqb (count_needs_updating nxt) 0 then Some (strip nxt)
        else oto_loop f (S it) (strip nxt)
    end.

  (* the per-iteration tables (what X captures from the engine) *)
  Fixpoint oto_trace (fuel : nat) (it : nat) (prev : list reprow) : list (list rep4) :=
    match fuel with
    | O => []
    | S f =>
        let nxt := oto_step it prev in
        nxt :: (if Nat.eqb (count_needs_updating nxt) 0 then [] else oto_trace f (S it) (strip nxt))
    end.
End Loop.

(* __splink__clustering_output_final *)
Definition one_to_one_clustering (dfs : list Z) (thr : option Q) (chl chr : chooser) (fuel : nat)
           (nodes : list node) (E : list edge) : option (list (Z * Z)) :=
  option_map (map (fun r => (rr_node r, rr_rep r)))
             (oto_loop dfs (df_neighbours thr E) chl chr fuel 1 (df_representatives nodes)).

(* ---------------------------------------------------------------- what SQL guarantees about rank 1 *)
Definition rank1_ok (ch : chooser) : Prop :=
  forall it k rows, rows <> [] ->
    In (ch it k rows) rows /\ forall r, In r rows -> (c_p r <= c_p (ch it k rows))%Q.

(* a deterministic chooser (first row of maximal probability), used for lock-step on
   tie-free inputs where every chooser satisfying rank1_ok picks the same row *)
Definition dummy_row : crow :=
  {| c_rid := (O, false); c_node := 0; c_nb := 0; c_p := 0%Q; c_lrep := 0; c_rrep := 0 |}.
Fixpoint argmax (best : crow) (rows : list crow) : crow :=
  match rows with
  | [] => best
  | r :: t => argmax (if Qle_bool (c_p r) (c_p best) then best else r) t
  end.
Definition first_max : chooser :=
  fun _ _ rows => match rows with [] => dummy_row | r :: t => argmax r t end.

(* ---------------------------------------------------------------- specification vocabulary *)
(* no class holds two records of one duplicate-free dataset *)
Definition dupfree (dfs : list Z) (t : list reprow) : Prop :=
  forall r1 r2, In r1 t -> In r2 t -> rr_rep r1 = rr_rep r2 -> rr_sds r1 = rr_sds r2 ->
                In (rr_sds r1) dfs -> rr_node r1 = rr_node r2.

(* every record exactly once *)
Definition partition_of (nodes : list node) (t : list reprow) : Prop :=
  NoDup (map rr_node t) /\
  forall v s, In (v, s) nodes <-> exists c, In (v, c, s) t.

Definition rep_lookup (t : list reprow) (v : Z) : option Z :=
  option_map rr_rep (find (fun r => rr_node r =? v) t).

(* the thresholded edge relation (undirected) *)
Definition tedge (thr : option Q) (E : list edge) (v w : Z) : Prop :=
  exists e, In e E /\ above thr (e_p e) = true /\
            ((e_l e = v /\ e_r e = w) \/ (e_l e = w /\ e_r e = v)).

(* connected through thresholded edges, all intermediate nodes satisfying P *)
Inductive conn_in (thr : option Q) (E : list edge) (P : Z -> Prop) : Z -> Z -> Prop :=
| conn_refl : forall v, P v -> conn_in thr E P v v
| conn_step : forall v w u, P v -> tedge thr E v w -> conn_in thr E P w u -> conn_in thr E P v u.

Definition in_class (t : list reprow) (c : Z) (v : Z) : Prop := exists s, In (v, c, s) t.

(* pairwise distinct match probabilities *)
Definition tie_free (E : list edge) : Prop :=
  ForallOrdPairs (fun e1 e2 => ~ (e_p e1 == e_p e2)%Q) E.

(* a cross edge that could still be used: above threshold, between two different classes
   that share no duplicate-free dataset *)
Definition admissible_cross (dfs : list Z) (thr : option Q) (E : list edge) (t : list reprow) (v w : Z) : Prop :=
  tedge thr E v w /\
  exists cv cw sv sw, In (v, cv, sv) t /\ In (w, cw, sw) t /\ cv <> cw /\
    forall d, In d dfs -> ~ (contains_flag t cv d = true /\ contains_flag t cw d = true).

(* ---------------------------------------------------------------- sequential specification (tie-free) *)
(* The textbook single-best-link procedure: take the usable edges by decreasing rank and merge
   the two clusters of an edge iff they share no duplicate-free dataset.  When the ORDER BY of
   the windows ranks no two edges equal, the SQL loop computes exactly this partition
   (C12_refines_greedy, C12_tiebreak_refines_greedy). *)
Section Greedy.
  Variable dfs : list Z.
  Variable nodes : list node.
  Definition lab := Z -> Z.
  Definition g_flag (cl : lab) (c d : Z) : bool :=
    existsb (fun n => (cl (n_id n) =? c) && (n_sds n =? d)) nodes.
  Definition g_conflict (cl : lab) (c1 c2 : Z) : bool :=
    existsb (fun d => g_flag cl c1 d && g_flag cl c2 d) dfs.
  Definition g_step (cl : lab) (e : edge) : lab :=
    let a := cl (e_l e) in
    let b := cl (e_r e) in
    if (a =? b) || g_conflict cl a b then cl else fun x => if cl x =? b then a else cl x.
  Definition greedy (L : list edge) : lab := fold_left g_step L (fun x => x).
End Greedy.

Definition is_node (nodes : list node) (v : Z) : bool := existsb (fun n => n_id n =? v) nodes.
Definition usable (thr : option Q) (nodes : list node) (e : edge) : bool :=
  above thr (e_p e) && is_node nodes (e_l e) && is_node nodes (e_r e).

(* ---------------------------------------------------------------- the ORDER BY of the two windows *)
(* A rank order compares the (node_id, neighbour, match_probability) triples of two rows:
   `le e1 e2 = true` iff e2 is ranked at least as high as e1 by the ORDER BY clause. *)
Definition rank_le := edge -> edge -> bool.
Definition row_edge (r : crow) : edge := (c_node r, c_nb r, c_p r).
Definition flip (e : edge) : edge := (e_r e, e_l e, e_p e).
Definition e_lo (e : edge) : Z := Z.min (e_l e) (e_r e).
Definition e_hi (e : edge) : Z := Z.max (e_l e) (e_r e).

(* order by match_probability desc *)
Definition le_prob : rank_le := fun e1 e2 => Qle_bool (e_p e1) (e_p e2).
(* order by match_probability desc, least(node_id, neighbour), greatest(node_id, neighbour)
   (both ascending): an edge and its reverse get the same key in both windows *)
Definition le_tiebreak : rank_le := fun e1 e2 =>
  if Qeq_bool (e_p e1) (e_p e2)
  then (e_lo e2 <? e_lo e1) || ((e_lo e2 =? e_lo e1) && (e_hi e2 <=? e_hi e1))
  else Qle_bool (e_p e1) (e_p e2).

(* what SQL guarantees about rank 1 under a given ORDER BY *)
Definition rank1_ok_for (le : rank_le) (ch : chooser) : Prop :=
  forall it k rows, rows <> [] ->
    In (ch it k rows) rows /\ forall r, In r rows -> le (row_edge r) (row_edge (ch it k rows)) = true.

(* a deterministic chooser for any rank order (first maximal row): when the order ranks no two
   rows equal every legal chooser picks the same row, so X can compare lock-step *)
Fixpoint argmax_le (le : rank_le) (best : crow) (rows : list crow) : crow :=
  match rows with
  | [] => best
  | r :: t => argmax_le le (if le (row_edge r) (row_edge best) then best else r) t
  end.
Definition max_by (le : rank_le) : chooser :=
  fun _ _ rows => match rows with [] => dummy_row | r :: t => argmax_le le r t end.

(* no two rows of the edges table are ranked equal (for le_prob: pairwise distinct
   probabilities; for le_tiebreak: no pair of records listed twice with the same probability) *)
Definition strict_rank (le : rank_le) (E : list edge) : Prop :=
  ForallOrdPairs (fun e1 e2 => ~ (le e1 e2 = true /\ le e2 e1 = true)) E.

(* no pair of records is listed twice with the same probability (Splink's predictions list every
   pair once): makes le_tiebreak strict *)
Definition nodup_pairs (E : list edge) : Prop :=
  ForallOrdPairs (fun e1 e2 => ~ ((e_p e1 == e_p e2)%Q /\ e_lo e1 = e_lo e2 /\ e_hi e1 = e_hi e2)) E.

(* insertion sort by decreasing rank *)
Fixpoint insert_desc (le : rank_le) (e : edge) (l : list edge) : list edge :=
  match l with
  | [] => [e]
  | x :: t => if le x e then e :: l else x :: insert_desc le e t
  end.
Fixpoint sort_desc (le : rank_le) (l : list edge) : list edge :=
  match l with [] => [] | x :: t => insert_desc le x (sort_desc le t) end.

Definition greedy_clusters (le : rank_le) (dfs : list Z) (thr : option Q) (nodes : list node) (E : list edge) : lab :=
  greedy dfs nodes (sort_desc le (filter (usable thr nodes) E)).

(* ---------------------------------------------------------------- allowed-step membership (X, ties) *)
(* rows of maximal probability in a partition: the candidates for rank 1 *)
Definition max_rows (rows : list crow) : list crow :=
  filter (fun r => forallb (fun r' => Qle_bool (c_p r') (c_p r)) rows) rows.

Fixpoint prod_choices (ks : list (Z * list crow)) : list (list (Z * crow)) :=
  match ks with
  | [] => [[]]
  | (k, opts) :: t => flat_map (fun o => map (cons (k, o)) (prod_choices t)) opts
  end.

Definition chooser_of (a : list (Z * crow)) : chooser :=
  fun _ k rows =>
    match find (fun kr => fst kr =? k) a with
    | Some kr => snd kr
    | None => first_max O k rows
    end.

Definition l_choices (rows : list crow) : list (list (Z * crow)) :=
  prod_choices (map (fun c => (c, max_rows (part_l rows c))) (nodup Z.eq_dec (map c_lrep rows))).
Definition r_choices (rows : list crow) : list (list (Z * crow)) :=
  prod_choices (map (fun c => (c, max_rows (part_r rows c))) (nodup Z.eq_dec (map c_rrep rows))).

Definition pairZ_eqb (a b : Z * Z) : bool := (fst a =? fst b) && (snd a =? snd b).
Definition same_set (a b : list (Z * Z)) : bool :=
  forallb (fun x => existsb (pairZ_eqb x) b) a && forallb (fun x => existsb (pairZ_eqb x) a) b.
Definition node_rep (t : list rep4) : list (Z * Z) := map (fun r => (fst (fst (fst r)), snd (fst (fst r)))) t.

(* all next tables reachable from prev by some pair of rank-1 assignments *)
Definition oto_step_results (dfs : list Z) (nbs : list nbrow) (prev : list reprow) : list (list (Z * Z)) :=
  let rows := candidates dfs nbs prev in
  flat_map (fun al => map (fun ar => node_rep (oto_step dfs nbs (chooser_of al) (chooser_of ar) O prev))
                          (r_choices rows))
           (l_choices rows).

Definition oto_step_allowed (dfs : list Z) (nbs : list nbrow) (prev : list reprow) (next : list (Z * Z)) : bool :=
  existsb (same_set next) (oto_step_results dfs nbs prev).
