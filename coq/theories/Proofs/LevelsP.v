(* Proofs for C16: SQL expression semantics, normaliser, generators vs documented predicates,
   CASE level assignment, levels_ok. *)
From Coq Require Import String Ascii Bool ZArith QArith Qabs Arith Lia List.
From Splinkv Require Import Base.TV Model.SqlExpr Model.Levels.
Import ListNotations.
Local Open Scope nat_scope.
Local Open Scope string_scope.

(* ------------------------------------------------------------------ induction over expr *)
Section ExprInd.
  Variable Pr : expr -> Prop.
  Hypothesis Hcol : forall s c, Pr (ECol s c).
  Hypothesis Hlit : forall v, Pr (ELit v).
  Hypothesis Hcmp : forall op a b, Pr a -> Pr b -> Pr (ECmp op a b).
  Hypothesis Hand : forall a b, Pr a -> Pr b -> Pr (EAnd a b).
  Hypothesis Hor : forall a b, Pr a -> Pr b -> Pr (EOr a b).
  Hypothesis Hnot : forall a, Pr a -> Pr (ENot a).
  Hypothesis Hisnull : forall a, Pr a -> Pr (EIsNull a).
  Hypothesis Habs : forall a, Pr a -> Pr (EAbs a).
  Hypothesis Harith : forall op a b, Pr a -> Pr b -> Pr (EArith op a b).
  Hypothesis Hcase : forall ws d, Forall (fun cv => Pr (fst cv) /\ Pr (snd cv)) ws -> Pr d -> Pr (ECase ws d).
  Hypothesis Hfn : forall f args, Forall Pr args -> Pr (EFn f args).
  Hypothesis Hcast : forall a ty, Pr a -> Pr (ECast a ty).
  Hypothesis Hparen : forall a, Pr a -> Pr (EParen a).

  Fixpoint expr_ind2 (e : expr) : Pr e :=
    match e with
    | ECol s c => Hcol s c
    | ELit v => Hlit v
    | ECmp op a b => Hcmp op a b (expr_ind2 a) (expr_ind2 b)
    | EAnd a b => Hand a b (expr_ind2 a) (expr_ind2 b)
    | EOr a b => Hor a b (expr_ind2 a) (expr_ind2 b)
    | ENot a => Hnot a (expr_ind2 a)
    | EIsNull a => Hisnull a (expr_ind2 a)
    | EAbs a => Habs a (expr_ind2 a)
    | EArith op a b => Harith op a b (expr_ind2 a) (expr_ind2 b)
    | ECase ws d =>
      Hcase ws d
        ((fix go (l : list (expr * expr)) : Forall (fun cv => Pr (fst cv) /\ Pr (snd cv)) l :=
            match l with
            | [] => Forall_nil _
            | (c, v) :: t => Forall_cons (c, v) (conj (expr_ind2 c) (expr_ind2 v)) (go t)
            end) ws)
        (expr_ind2 d)
    | EFn f args =>
      Hfn f args
        ((fix go (l : list expr) : Forall Pr l :=
            match l with
            | [] => Forall_nil _
            | x :: t => Forall_cons x (expr_ind2 x) (go t)
            end) args)
    | ECast a ty => Hcast a ty (expr_ind2 a)
    | EParen a => Hparen a (expr_ind2 a)
    end.
End ExprInd.

(* ------------------------------------------------------------------ strip preserves eval *)
Lemma eval_strip P fenv env e : eval P fenv env (strip e) = eval P fenv env e.
Proof.
  induction e using expr_ind2; cbn [strip eval]; try congruence.
  - (* case *)
    rewrite IHe. clear IHe.
    induction H as [|[c v] t [Hc Hv] Ht IH]; cbn [map]; [reflexivity|].
    cbn [fst snd] in *. rewrite Hc, Hv, IH. reflexivity.
  - (* fn *)
    f_equal. induction H as [|x t Hx Ht IH]; cbn [map]; [reflexivity|]. rewrite Hx, IH. reflexivity.
Qed.

Lemma sem_strip P fenv env e : sem P fenv env (strip e) = sem P fenv env e.
Proof. unfold sem. now rewrite eval_strip. Qed.

(* ------------------------------------------------------------------ expr_eqb is sound *)
Lemma strs_eqb_eq a : forall b, strs_eqb a b = true -> a = b.
Proof.
  induction a as [|x a IH]; intros [|y b]; cbn; try discriminate; auto.
  intros H. apply andb_true_iff in H as [H1 H2]. apply String.eqb_eq in H1. f_equal; auto.
Qed.

Lemma val_eqb_eq a b : val_eqb a b = true -> a = b.
Proof.
  destruct a, b; cbn; try discriminate; auto; intros H.
  - apply Bool.eqb_prop in H. congruence.
  - apply Z.eqb_eq in H. congruence.
  - destruct q, q0. unfold Q_eqb in H. cbn in H. apply andb_true_iff in H as [H1 H2].
    apply Z.eqb_eq in H1. apply Pos.eqb_eq in H2. congruence.
  - apply String.eqb_eq in H. congruence.
  - apply strs_eqb_eq in H. congruence.
Qed.

Lemma cmp_eqb_eq a b : cmp_eqb a b = true -> a = b.
Proof. destruct a, b; cbn; congruence. Qed.
Lemma arith_eqb_eq a b : arith_eqb a b = true -> a = b.
Proof. destruct a, b; cbn; congruence. Qed.

Lemma expr_eqb_eq a : forall b, expr_eqb a b = true -> a = b.
Proof.
  induction a using expr_ind2; intros b0; destruct b0; cbn [expr_eqb]; try discriminate; intros E;
    repeat match goal with
           | H : _ && _ = true |- _ => apply andb_true_iff in H as [? ?]
           end.
  - apply Bool.eqb_prop in H. apply String.eqb_eq in H0. congruence.
  - apply val_eqb_eq in E. congruence.
  - apply cmp_eqb_eq in H. f_equal; auto.
  - f_equal; auto.
  - f_equal; auto.
  - f_equal; auto.
  - f_equal; auto.
  - f_equal; auto.
  - apply arith_eqb_eq in H. f_equal; auto.
  - f_equal; [|auto]. clear IHa H1. revert ws0 H0.
    induction H as [|[c v] t [Hc Hv] Ht IH]; intros [|[c' v'] t']; try discriminate; auto.
    intros E. repeat match goal with
           | H : _ && _ = true |- _ => apply andb_true_iff in H as [? ?]
           end. cbn [fst snd] in *. f_equal; [f_equal; auto|auto].
  - apply String.eqb_eq in H0. f_equal; [auto|]. clear H0. revert args0 H1.
    induction H as [|x t Hx Ht IH]; intros [|x' t']; try discriminate; auto.
    intros E. apply andb_true_iff in E as [? ?]. f_equal; auto.
  - apply String.eqb_eq in H0. f_equal; auto.
  - f_equal; auto.
Qed.

(* a discharged translator obligation means: the SQL the creator emits now has the generator's meaning *)
Lemma same_expr_sound cur gen :
  same_expr cur gen = true -> forall P fenv env, eval P fenv env cur = eval P fenv env gen.
Proof.
  unfold same_expr. intros H P fenv env. apply expr_eqb_eq in H.
  rewrite <- (eval_strip P fenv env cur), <- (eval_strip P fenv env gen). now rewrite H.
Qed.
