(* Proofs for C16: SQL expression semantics, normaliser, generators vs documented predicates,
   CASE level assignment, levels_ok. *)
From Coq Require Import String Ascii Bool ZArith QArith Qabs Arith Lia Lqa List.
From Splinkv Require Import Base.TV Model.SqlExpr Model.Levels.
Import ListNotations.
Local Open Scope nat_scope.
Local Open Scope list_scope.
Local Arguments Qred : simpl never.
Local Arguments Qabs : simpl never.
Local Arguments Qminus : simpl never.
Local Arguments Qdiv : simpl never.
Local Arguments Qmult : simpl never.
Local Arguments Qplus : simpl never.
Local Arguments Qle_bool : simpl never.
Local Arguments Qeq_bool : simpl never.
Local Arguments inject_Z : simpl never.

(* ------------------------------------------------------------------ induction over expr *)
Section ExprInd.
  Variable Pr : expr -> Prop.
  Hypothesis Hcol : forall s c, Pr (ECol s c).
  Hypothesis Hlit : forall v, Pr (ELit v).
  Hypothesis Hcmp : forall op a b, Pr a -> Pr b -> Pr (ECmp op a b).
  Hypothesis Hand : forall a b, Pr a -> Pr b -> Pr (EAnd a b).
  Hypothesis Hor : forall a b, Pr a -> Pr b -> Pr (EOr a b).
  Hypothesis Hnot : forall a, Pr a -> Pr (ENot a).
  Hypothesis Hisnull : forall a, Pr a -> Pr (EIsNull a).
  Hypothesis Habs : forall a, Pr a -> Pr (EAbs a).
  Hypothesis Harith : forall op a b, Pr a -> Pr b -> Pr (EArith op a b).
  Hypothesis Hcase : forall ws d, Forall (fun cv => Pr (fst cv) /\ Pr (snd cv)) ws -> Pr d -> Pr (ECase ws d).
  Hypothesis Hfn : forall f args, Forall Pr args -> Pr (EFn f args).
  Hypothesis Hcast : forall a ty, Pr a -> Pr (ECast a ty).
  Hypothesis Hparen : forall a, Pr a -> Pr (EParen a).
  Hypothesis Hpair : forall m f a b, Pr a -> Pr b -> Pr (EPairwise m f a b).

  Fixpoint expr_ind2 (e : expr) : Pr e :=
    match e with
    | ECol s c => Hcol s c
    | ELit v => Hlit v
    | ECmp op a b => Hcmp op a b (expr_ind2 a) (expr_ind2 b)
    | EAnd a b => Hand a b (expr_ind2 a) (expr_ind2 b)
    | EOr a b => Hor a b (expr_ind2 a) (expr_ind2 b)
    | ENot a => Hnot a (expr_ind2 a)
    | EIsNull a => Hisnull a (expr_ind2 a)
    | EAbs a => Habs a (expr_ind2 a)
    | EArith op a b => Harith op a b (expr_ind2 a) (expr_ind2 b)
    | ECase ws d =>
      Hcase ws d
        ((fix go (l : list (expr * expr)) : Forall (fun cv => Pr (fst cv) /\ Pr (snd cv)) l :=
            match l with
            | [] => Forall_nil _
            | (c, v) :: t => Forall_cons (c, v) (conj (expr_ind2 c) (expr_ind2 v)) (go t)
            end) ws)
        (expr_ind2 d)
    | EFn f args =>
      Hfn f args
        ((fix go (l : list expr) : Forall Pr l :=
            match l with
            | [] => Forall_nil _
            | x :: t => Forall_cons x (expr_ind2 x) (go t)
            end) args)
    | ECast a ty => Hcast a ty (expr_ind2 a)
    | EParen a => Hparen a (expr_ind2 a)
    | EPairwise m f a b => Hpair m f a b (expr_ind2 a) (expr_ind2 b)
    end.
End ExprInd.

(* ------------------------------------------------------------------ strip preserves eval *)
Lemma eval_strip P fenv env e : eval P fenv env (strip e) = eval P fenv env e.
Proof.
  induction e using expr_ind2; cbn [strip eval]; try congruence.
  - (* case *)
    rewrite IHe. clear IHe.
    induction H as [|[c v] t [Hc Hv] Ht IH]; cbn [map]; [reflexivity|].
    cbn [fst snd] in *. rewrite Hc, Hv, IH. reflexivity.
  - (* fn *)
    f_equal. induction H as [|x t Hx Ht IH]; cbn [map]; [reflexivity|]. rewrite Hx, IH. reflexivity.
  - (* pairwise *) now rewrite IHe1, IHe2.
Qed.

Lemma sem_strip P fenv env e : sem P fenv env (strip e) = sem P fenv env e.
Proof. unfold sem. now rewrite eval_strip. Qed.

(* ------------------------------------------------------------------ expr_eqb is sound *)
Lemma strs_eqb_eq a : forall b, strs_eqb a b = true -> a = b.
Proof.
  induction a as [|x a IH]; intros [|y b]; cbn; try discriminate; auto.
  intros H. apply andb_true_iff in H as [H1 H2]. apply String.eqb_eq in H1. f_equal; auto.
Qed.

Lemma val_eqb_eq a b : val_eqb a b = true -> a = b.
Proof.
  destruct a, b; cbn; try discriminate; auto; intros H.
  - apply Bool.eqb_prop in H. congruence.
  - apply Z.eqb_eq in H. congruence.
  - destruct q, q0. unfold Q_eqb in H. cbn in H. apply andb_true_iff in H as [H1 H2].
    apply Z.eqb_eq in H1. apply Pos.eqb_eq in H2. congruence.
  - apply String.eqb_eq in H. congruence.
  - apply strs_eqb_eq in H. congruence.
Qed.

Lemma cmp_eqb_eq a b : cmp_eqb a b = true -> a = b.
Proof. destruct a, b; cbn; congruence. Qed.
Lemma arith_eqb_eq a b : arith_eqb a b = true -> a = b.
Proof. destruct a, b; cbn; congruence. Qed.

Lemma expr_eqb_eq a : forall b, expr_eqb a b = true -> a = b.
Proof.
  induction a using expr_ind2; intros b0; destruct b0; cbn [expr_eqb]; try discriminate; intros E;
    repeat match goal with
           | H : _ && _ = true |- _ => apply andb_true_iff in H as [? ?]
           end.
  - apply Bool.eqb_prop in H. apply String.eqb_eq in H0. congruence.
  - apply val_eqb_eq in E. congruence.
  - apply cmp_eqb_eq in H. f_equal; auto.
  - f_equal; auto.
  - f_equal; auto.
  - f_equal; auto.
  - f_equal; auto.
  - f_equal; auto.
  - apply arith_eqb_eq in H. f_equal; auto.
  - f_equal; [|auto]. clear IHa H1. revert ws0 H0.
    induction H as [|[c v] t [Hc Hv] Ht IH]; intros [|[c' v'] t']; try discriminate; auto.
    intros E. repeat match goal with
           | H : _ && _ = true |- _ => apply andb_true_iff in H as [? ?]
           end. cbn [fst snd] in *. f_equal; [f_equal; auto|auto].
  - apply String.eqb_eq in H0. f_equal; [auto|]. clear H0. revert args0 H1.
    induction H as [|x t Hx Ht IH]; intros [|x' t']; try discriminate; auto.
    intros E. apply andb_true_iff in E as [? ?]. f_equal; auto.
  - apply String.eqb_eq in H0. f_equal; auto.
  - f_equal; auto.
  - apply Bool.eqb_prop in H. apply String.eqb_eq in H2. f_equal; auto.
Qed.

(* a discharged translator obligation means: the SQL the creator emits now has the generator's meaning *)
Lemma same_expr_sound cur gen :
  same_expr cur gen = true -> forall P fenv env, eval P fenv env cur = eval P fenv env gen.
Proof.
  unfold same_expr. intros H P fenv env. apply expr_eqb_eq in H.
  rewrite <- (eval_strip P fenv env cur), <- (eval_strip P fenv env gen). now rewrite H.
Qed.

(* ------------------------------------------------------------------ basic value lemmas *)
Lemma to_tv_of_tv t : to_tv (of_tv t) = t.
Proof. destruct t; reflexivity. Qed.

Lemma numQ_xnum v q : numQ v = Some q -> to_xnum v = Some (XFin q) /\ is_null v = false.
Proof. destruct v; cbn; try discriminate; intros [= <-]; auto. Qed.

(* lhs op t on two numbers: of_bool (sat op t lhs) *)
Lemma cmp3_thresh op a b x y :
  is_thresh_op op = true -> numQ a = Some x -> numQ b = Some y ->
  cmp3 op a b = of_bool (sat op y x).
Proof.
  intros Hop Ha Hb. apply numQ_xnum in Ha as [Ha Na]. apply numQ_xnum in Hb as [Hb Nb].
  unfold cmp3, val_le. rewrite Na, Nb, Ha, Hb. cbn.
  destruct op; try discriminate; cbn; try reflexivity.
  - destruct (Qle_bool y x); reflexivity.
  - destruct (Qle_bool x y); reflexivity.
Qed.

Lemma cmp3_eq_str a b : cmp3 CEq (VStr a) (VStr b) = of_bool (String.eqb a b).
Proof. reflexivity. Qed.
Lemma cmp3_eq_int a b : cmp3 CEq (VInt a) (VInt b) = of_bool (Z.eqb a b).
Proof.
  unfold cmp3, val_eq. cbn [is_null orb to_xnum xeq opt_tv]. f_equal.
  destruct (Z.eqb_spec a b) as [->|N].
  - apply Qeq_bool_iff. reflexivity.
  - destruct (Qeq_bool (inject_Z a) (inject_Z b)) eqn:E; [|reflexivity].
    apply Qeq_bool_iff in E. exfalso. apply N. now apply inject_Z_injective.
Qed.
Lemma cmp3_null_l op b : cmp3 op VNull b = U.
Proof. reflexivity. Qed.
Lemma cmp3_null_r op a : cmp3 op a VNull = U.
Proof. unfold cmp3. now rewrite orb_true_r. Qed.

Lemma and3_assoc a b c : and3 (and3 a b) c = and3 a (and3 b c).
Proof. destruct a, b, c; reflexivity. Qed.
Lemma or3_assoc a b c : or3 (or3 a b) c = or3 a (or3 b c).
Proof. destruct a, b, c; reflexivity. Qed.

Definition and3_all (l : list tv) : tv := fold_right and3 T l.
Definition or3_all (l : list tv) : tv := fold_right or3 F l.

(* ------------------------------------------------------------------ generators *)
Section Gen.
  Variable P : profile.
  Variable fenv : string -> list val -> val.
  Variable env : bool -> string -> val.
  Notation ev := (eval P fenv env).
  Notation sm := (sem P fenv env).

  Lemma sem_and a b : sm (EAnd a b) = and3 (sm a) (sm b).
  Proof. unfold sem. cbn [eval]. apply to_tv_of_tv. Qed.
  Lemma sem_or a b : sm (EOr a b) = or3 (sm a) (sm b).
  Proof. unfold sem. cbn [eval]. apply to_tv_of_tv. Qed.
  Lemma sem_not a : sm (ENot a) = not3 (sm a).
  Proof. unfold sem. cbn [eval]. apply to_tv_of_tv. Qed.
  Lemma sem_paren a : sm (EParen a) = sm a.
  Proof. reflexivity. Qed.
  Lemma sem_cmp op a b : sm (ECmp op a b) = cmp3 op (ev a) (ev b).
  Proof. unfold sem. cbn [eval]. apply to_tv_of_tv. Qed.
  Lemma sem_isnull a : sm (EIsNull a) = of_bool (is_null (ev a)).
  Proof. unfold sem. cbn [eval]. destruct (is_null (ev a)); reflexivity. Qed.

  (* NullLevel *)
  Lemma sem_null cl cr : sm (gen_null cl cr) = of_bool (doc_null (ev cl) (ev cr)).
  Proof.
    unfold gen_null, doc_null. rewrite sem_or, !sem_isnull.
    destruct (is_null (ev cl)), (is_null (ev cr)); reflexivity.
  Qed.
  Lemma null_level_T_iff cl cr :
    sm (gen_null cl cr) = T <-> ev cl = VNull \/ ev cr = VNull.
  Proof.
    rewrite sem_null. unfold doc_null. split.
    - destruct (ev cl), (ev cr); cbn; intros; try discriminate; auto.
    - intros [-> | ->]; cbn; [reflexivity|]. now rewrite orb_true_r.
  Qed.
  Lemma null_level_two_valued cl cr : sm (gen_null cl cr) <> U.
  Proof. rewrite sem_null. destruct (doc_null _ _); discriminate. Qed.

  (* ExactMatchLevel, LiteralMatchLevel, ColumnsReversedLevel *)
  Lemma sem_exact cl cr : sm (gen_exact cl cr) = cmp3 CEq (ev cl) (ev cr).
  Proof. apply sem_cmp. Qed.
  Lemma sem_exact_str cl cr a b :
    ev cl = VStr a -> ev cr = VStr b -> sm (gen_exact cl cr) = of_bool (String.eqb a b).
  Proof. intros Ha Hb. now rewrite sem_exact, Ha, Hb. Qed.
  Lemma sem_exact_int cl cr a b :
    ev cl = VInt a -> ev cr = VInt b -> sm (gen_exact cl cr) = of_bool (Z.eqb a b).
  Proof. intros Ha Hb. rewrite sem_exact, Ha, Hb. apply cmp3_eq_int. Qed.

  Lemma sem_literal s cl cr lit :
    sm (gen_literal s cl cr lit) =
    match s with
    | SLeft => cmp3 CEq (ev cl) (ev lit)
    | SRight => cmp3 CEq (ev cr) (ev lit)
    | SBoth => and3 (cmp3 CEq (ev cl) (ev lit)) (cmp3 CEq (ev cr) (ev lit))
    end.
  Proof. destruct s; cbn [gen_literal]; rewrite ?sem_and, !sem_cmp; reflexivity. Qed.
  Lemma sem_literal_str s cl cr a b x :
    ev cl = VStr a -> ev cr = VStr b ->
    sm (gen_literal s cl cr (ELit (VStr x))) =
    of_bool match s with
            | SLeft => String.eqb a x
            | SRight => String.eqb b x
            | SBoth => String.eqb a x && String.eqb b x
            end.
  Proof.
    intros Ha Hb. rewrite sem_literal, Ha, Hb. cbn [eval]. rewrite !cmp3_eq_str.
    destruct s; try reflexivity. destruct (String.eqb a x), (String.eqb b x); reflexivity.
  Qed.

  Lemma sem_reversed sym c1l c1r c2l c2r :
    sm (gen_reversed sym c1l c1r c2l c2r) =
    if sym then and3 (cmp3 CEq (ev c1l) (ev c2r)) (cmp3 CEq (ev c1r) (ev c2l))
    else cmp3 CEq (ev c1l) (ev c2r).
  Proof. destruct sym; cbn [gen_reversed]; rewrite ?sem_and, !sem_cmp; reflexivity. Qed.
  Lemma sem_reversed_str sym c1l c1r c2l c2r a1 b1 a2 b2 :
    ev c1l = VStr a1 -> ev c1r = VStr b1 -> ev c2l = VStr a2 -> ev c2r = VStr b2 ->
    sm (gen_reversed sym c1l c1r c2l c2r) =
    of_bool (if sym then String.eqb a1 b2 && String.eqb b1 a2 else String.eqb a1 b2).
  Proof.
    intros H1 H2 H3 H4. rewrite sem_reversed, H1, H2, H3, H4, !cmp3_eq_str.
    destruct sym; try reflexivity. destruct (String.eqb a1 b2), (String.eqb b1 a2); reflexivity.
  Qed.

  (* threshold levels over a named function *)
  Lemma sem_fn_thresh f hi cl cr t q tq :
    numQ (fenv f [ev cl; ev cr]) = Some q -> numQ t = Some tq ->
    sm (gen_fn_thresh f hi cl cr t) = if hi then doc_ge q tq else doc_le q tq.
  Proof.
    intros Hq Ht. unfold gen_fn_thresh. rewrite sem_cmp. cbn [eval map].
    destruct hi; erewrite cmp3_thresh by eauto; reflexivity.
  Qed.
  Lemma sem_fn_thresh_null_arg f hi cl cr t :
    fenv f [ev cl; ev cr] = VNull -> sm (gen_fn_thresh f hi cl cr t) = U.
  Proof.
    intros H. unfold gen_fn_thresh. rewrite sem_cmp. cbn [eval map]. rewrite H. apply cmp3_null_l.
  Qed.

  (* AbsoluteDifferenceLevel *)
  Lemma sem_absdiff_num cl cr t x y tq :
    ev cl = VNum x -> ev cr = VNum y -> numQ t = Some tq ->
    sm (gen_absdiff cl cr t) = doc_absdiff x y tq.
  Proof.
    intros Hx Hy Ht. unfold gen_absdiff. rewrite sem_cmp. cbn [eval]. rewrite Hx, Hy. cbn.
    erewrite cmp3_thresh by (reflexivity || eauto). unfold doc_absdiff. cbn [sat].
    now rewrite Qred_correct.
  Qed.
  Lemma inject_Z_minus a b : (inject_Z (a - b) == inject_Z a - inject_Z b)%Q.
  Proof. unfold Qminus. now rewrite <- inject_Z_opp, <- inject_Z_plus. Qed.
  Lemma sem_absdiff_int cl cr t x y tq :
    ev cl = VInt x -> ev cr = VInt y -> numQ t = Some tq ->
    sm (gen_absdiff cl cr t) = doc_absdiff (inject_Z x) (inject_Z y) tq.
  Proof.
    intros Hx Hy Ht. unfold gen_absdiff. rewrite sem_cmp. cbn [eval]. rewrite Hx, Hy. cbn.
    erewrite cmp3_thresh by (reflexivity || eauto). unfold doc_absdiff. cbn [sat].
    change (inject_Z (Z.abs (x - y))) with (Qabs (inject_Z (x - y))).
    now rewrite inject_Z_minus.
  Qed.

  (* PercentageDifferenceLevel: strict, divides by the larger value *)
  Lemma eval_larger cl cr x y :
    ev cl = VNum x -> ev cr = VNum y ->
    ev (EParen (ECase [(ECmp CGt cr cl, cr)] cl)) = VNum (Qmaxb x y).
  Proof.
    intros Hx Hy. cbn [eval]. rewrite Hx, Hy. unfold Qmaxb.
    erewrite cmp3_thresh by reflexivity. cbn [sat].
    destruct (Qle_bool y x); reflexivity.
  Qed.
  Lemma sem_pctdiff_num cl cr t x y tq :
    ev cl = VNum x -> ev cr = VNum y -> numQ t = Some tq -> Qeq_bool (Qmaxb x y) 0 = false ->
    sm (gen_pctdiff cl cr t) = doc_pctdiff x y tq.
  Proof.
    intros Hx Hy Ht Hz. unfold gen_pctdiff. rewrite sem_cmp.
    change (ev (EParen (EArith Div ?a ?b))) with (arith_val P Div (ev a) (ev b)).
    rewrite (eval_larger cl cr x y Hx Hy). cbn [eval]. rewrite Hx, Hy. cbn. rewrite Hz.
    erewrite cmp3_thresh by (reflexivity || eauto). unfold doc_pctdiff. cbn [sat].
    now rewrite !Qred_correct, Qmult_1_l.
  Qed.
  Lemma sem_pctdiff_zero cl cr t x y tq :
    ev cl = VNum x -> ev cr = VNum y -> numQ t = Some tq -> Qeq_bool (Qmaxb x y) 0 = true ->
    (div0 P = VNull \/ div0 P = VInf) ->
    isT (sm (gen_pctdiff cl cr t)) = false.
  Proof.
    intros Hx Hy Ht Hz Hd. unfold gen_pctdiff. rewrite sem_cmp.
    change (ev (EParen (EArith Div ?a ?b))) with (arith_val P Div (ev a) (ev b)).
    rewrite (eval_larger cl cr x y Hx Hy). cbn [eval]. rewrite Hx, Hy. cbn. rewrite Hz.
    destruct Hd as [-> | ->]; [reflexivity|].
    apply numQ_xnum in Ht as [Ht Nt]. unfold cmp3. rewrite Nt. cbn. unfold val_le. rewrite Ht. reflexivity.
  Qed.
  (* INTEGER operands: real division on EVERY engine profile (also SQLite's truncating integer `/`) *)
  Lemma eval_larger_int cl cr x y :
    ev cl = VInt x -> ev cr = VInt y ->
    ev (EParen (ECase [(ECmp CGt cr cl, cr)] cl)) = VInt (if Qle_bool (inject_Z y) (inject_Z x) then x else y).
  Proof.
    intros Hx Hy. cbn [eval]. rewrite Hx, Hy.
    erewrite cmp3_thresh by reflexivity. cbn [sat].
    destruct (Qle_bool (inject_Z y) (inject_Z x)); reflexivity.
  Qed.
  Lemma sem_pctdiff_int cl cr t x y tq :
    ev cl = VInt x -> ev cr = VInt y -> numQ t = Some tq -> Qeq_bool (Qmaxb (inject_Z x) (inject_Z y)) 0 = false ->
    sm (gen_pctdiff cl cr t) = doc_pctdiff (inject_Z x) (inject_Z y) tq.
  Proof.
    intros Hx Hy Ht Hz. unfold gen_pctdiff. rewrite sem_cmp.
    change (ev (EParen (EArith Div ?a ?b))) with (arith_val P Div (ev a) (ev b)).
    rewrite (eval_larger_int cl cr x y Hx Hy). cbn [eval]. rewrite Hx, Hy. unfold Qmaxb in Hz.
    cbn [arith_val abs_val numQ]. destruct (Qle_bool (inject_Z y) (inject_Z x)) eqn:E; cbn [numQ]; rewrite Hz;
      (erewrite cmp3_thresh by (reflexivity || eauto)); unfold doc_pctdiff, Qmaxb; cbn [sat]; rewrite E;
      change (inject_Z (Z.abs (x - y))) with (Qabs (inject_Z (x - y)));
      now rewrite !Qred_correct, Qmult_1_l, inject_Z_minus.
  Qed.

  (* AbsoluteTimeDifferenceLevel / AbsoluteDateDifferenceLevel over an abstract epoch *)
  Lemma sem_timediff epochf cl cr thr m x y tq :
    fenv epochf [ev cl] = VNum x -> fenv epochf [ev cr] = VNum y ->
    numQ (time_threshold_seconds thr m) = Some tq ->
    sm (gen_timediff epochf cl cr thr m) = doc_absdiff x y tq.
  Proof.
    intros Hx Hy Ht. unfold gen_timediff. rewrite sem_cmp. cbn [eval map]. rewrite Hx, Hy. cbn.
    erewrite cmp3_thresh by (reflexivity || eauto). unfold doc_absdiff. cbn [sat].
    now rewrite Qred_correct.
  Qed.
  Lemma sem_timediff_invalid epochf cl cr thr m :
    fenv epochf [ev cl] = VNull \/ fenv epochf [ev cr] = VNull ->
    sm (gen_timediff epochf cl cr thr m) = U.
  Proof.
    intros H. unfold gen_timediff. rewrite sem_cmp. cbn [eval map].
    destruct H as [-> | ->]; [reflexivity|].
    destruct (fenv epochf [ev cl]); reflexivity.
  Qed.

  (* And / Or / Not *)
  Lemma sem_merge_and es a :
    sm (fold_left (fun acc x => EAnd acc (EParen x)) es a) = fold_left (fun r x => and3 r (sm x)) es (sm a).
  Proof. revert a. induction es as [|x t IH]; intros a; cbn [fold_left]; [reflexivity|]. now rewrite IH, sem_and. Qed.
  Lemma sem_merge_or es a :
    sm (fold_left (fun acc x => EOr acc (EParen x)) es a) = fold_left (fun r x => or3 r (sm x)) es (sm a).
  Proof. revert a. induction es as [|x t IH]; intros a; cbn [fold_left]; [reflexivity|]. now rewrite IH, sem_or. Qed.
  Lemma fold_and3 l r : fold_left (fun r x => and3 r (sm x)) l r = and3 r (and3_all (map sm l)).
  Proof.
    revert r. induction l as [|x t IH]; intros r; cbn; [destruct r; reflexivity|].
    rewrite IH. apply and3_assoc.
  Qed.
  Lemma fold_or3 l r : fold_left (fun r x => or3 r (sm x)) l r = or3 r (or3_all (map sm l)).
  Proof.
    revert r. induction l as [|x t IH]; intros r; cbn; [destruct r; reflexivity|].
    rewrite IH. apply or3_assoc.
  Qed.
  Lemma sem_gen_and es : es <> [] -> sm (gen_and es) = and3_all (map sm es).
  Proof.
    destruct es as [|e t]; [congruence|]. intros _. unfold gen_and, gen_merge.
    rewrite sem_merge_and, fold_and3. reflexivity.
  Qed.
  Lemma sem_gen_or es : es <> [] -> sm (gen_or es) = or3_all (map sm es).
  Proof.
    destruct es as [|e t]; [congruence|]. intros _. unfold gen_or, gen_merge.
    rewrite sem_merge_or, fold_or3. reflexivity.
  Qed.
  Lemma sem_gen_not e : sm (gen_not e) = not3 (sm e).
  Proof. unfold gen_not. now rewrite sem_not. Qed.

  (* CASE: value of the first WHEN whose condition is TRUE, else ELSE *)
  Lemma eval_case_pick ws d :
    ev (ECase ws d) =
    match nth_error ws (pick (map (fun cv => sm (fst cv)) ws)) with
    | Some cv => ev (snd cv)
    | None => ev d
    end.
  Proof.
    cbn [eval]. induction ws as [|[c v] t IH]; [reflexivity|].
    cbn [map pick fst snd]. unfold sem at 1. destruct (isT (to_tv (ev c))); [reflexivity|]. exact IH.
  Qed.

  (* a null-level condition built from IS NULL / AND / OR is never unknown *)
  Lemma null_shape_two_valued e : null_shape e = true -> sm e <> U.
  Proof.
    induction e using expr_ind2; cbn [null_shape]; try discriminate; intros Hs.
    - apply andb_true_iff in Hs as [H1 H2]. rewrite sem_and.
      specialize (IHe1 H1). specialize (IHe2 H2). destruct (sm e1), (sm e2); cbn; congruence.
    - apply andb_true_iff in Hs as [H1 H2]. rewrite sem_or.
      specialize (IHe1 H1). specialize (IHe2 H2). destruct (sm e1), (sm e2); cbn; congruence.
    - rewrite sem_isnull. destruct (is_null _); discriminate.
    - rewrite sem_paren. auto.
  Qed.

  (* threshold atoms are necessary conjuncts of their condition *)
  Lemma atoms_necessary e : sm e = T ->
    forall op lhs t v, In (op, lhs, t) (atoms e) -> numQ (ev lhs) = Some v -> sat op t v = true.
  Proof.
    induction e using expr_ind2; cbn [atoms]; intros HT xop xlhs xt xv Hin Hv; try contradiction.
    - destruct e2; try contradiction.
      destruct (is_thresh_op op) eqn:Hop; [|contradiction].
      destruct (numQ v) eqn:Hq; [|contradiction].
      destruct Hin as [[= <- <- <-]|[]]. rewrite eval_strip in Hv.
      rewrite sem_cmp in HT. cbn [eval] in HT. erewrite cmp3_thresh in HT by eauto.
      destruct (sat op q xv); [reflexivity|discriminate].
    - rewrite sem_and in HT. apply in_app_or in Hin.
      destruct (sm e1) eqn:E1, (sm e2) eqn:E2; try discriminate. destruct Hin; eauto.
    - rewrite sem_paren in HT. eauto.
  Qed.
End Gen.

(* ------------------------------------------------------------------ CASE assigns exactly one level *)
Lemma isT_true o : isT o = true -> o = T.
Proof. destruct o; cbn; congruence. Qed.
Lemma isT_false o : isT o = false -> o <> T.
Proof. destruct o; cbn; congruence. Qed.

Lemma pick_le outs : pick outs <= length outs.
Proof. induction outs as [|o t IH]; cbn; [lia|]. destruct (isT o); lia. Qed.

Lemma pick_chosen outs : chosen outs (pick outs).
Proof.
  induction outs as [|o t [IH1 IH2]]; cbn [pick].
  - split; [intros i Hi; lia|right; reflexivity].
  - destruct (isT o) eqn:E.
    + split; [intros i Hi; lia|]. left. cbn. f_equal. now apply isT_true.
    + split.
      * intros [|i] Hi; cbn; [now apply isT_false|]. apply IH1. lia.
      * destruct IH2 as [IH2|IH2]; [left; exact IH2|right; cbn; now f_equal].
Qed.

Lemma chosen_unique outs : forall k, chosen outs k -> k = pick outs.
Proof.
  induction outs as [|o t IH]; intros k [H1 H2]; cbn [pick].
  - destruct H2 as [H2|H2]; [destruct k; discriminate|exact H2].
  - destruct (isT o) eqn:E.
    + destruct k; [reflexivity|]. exfalso. apply (H1 0); [lia|]. cbn. now apply isT_true.
    + destruct k as [|k].
      * exfalso. destruct H2 as [H2|H2]; [|discriminate]. cbn in H2. injection H2 as ->. discriminate.
      * f_equal. apply IH. split.
        -- intros i Hi. apply (H1 (S i)). lia.
        -- destruct H2 as [H2|H2]; [left; exact H2|right; cbn in H2; lia].
Qed.

Lemma exactly_one_level outs : exists! k, chosen outs k.
Proof.
  exists (pick outs). split; [apply pick_chosen|]. intros k Hk. symmetry. now apply chosen_unique.
Qed.

(* ------------------------------------------------------------------ levels_ok0 *)
Lemma Qlt_b_spec a b : Qlt_b a b = true <-> (a < b)%Q.
Proof.
  unfold Qlt_b. rewrite negb_true_iff. split.
  - intros H. apply Qnot_le_lt. intros Hle. apply Qle_bool_iff in Hle. congruence.
  - intros H. destruct (Qle_bool b a) eqn:E; [|reflexivity]. apply Qle_bool_iff in E.
    exfalso. eapply Qlt_not_le; eauto.
Qed.
Lemma Qle_bool_false a b : Qle_bool a b = false <-> (b < a)%Q.
Proof. rewrite <- Qlt_b_spec. unfold Qlt_b. now rewrite negb_true_iff. Qed.

(* earlier, stricter threshold: whatever it accepts the later one accepts too *)
Lemma stricter_nested op ti tj v : stricter op ti tj = true -> sat op ti v = true -> sat op tj v = true.
Proof.
  destruct op; cbn; try discriminate; rewrite ?Qlt_b_spec, ?negb_true_iff, ?Qle_bool_false, ?Qle_bool_iff; intros H1 H2.
  - eapply Qlt_trans; eauto.
  - eapply Qle_trans; [eauto|]. now apply Qlt_le_weak.
  - eapply Qlt_trans; eauto.
  - eapply Qle_trans; [|eauto]. now apply Qlt_le_weak.
Qed.

(* a value exactly on the later threshold is accepted by it and rejected by the earlier one *)
Lemma stricter_witness op ti tj : stricter op ti tj = true -> (op = CLe \/ op = CGe) ->
  sat op tj tj = true /\ sat op ti tj = false.
Proof.
  intros H [-> | ->]; cbn in *; rewrite Qlt_b_spec in H; split;
    try (apply Qle_bool_iff; apply Qle_refl); now apply Qle_bool_false.
Qed.
Lemma stricter_witness_strict op ti tj : stricter op ti tj = true -> (op = CLt \/ op = CGt) ->
  sat op tj ti = true /\ sat op ti ti = false.
Proof.
  intros H [-> | ->]; cbn in *; rewrite Qlt_b_spec in H; rewrite negb_true_iff, negb_false_iff; split;
    try (apply Qle_bool_iff; apply Qle_refl); now apply Qle_bool_false.
Qed.

Lemma atom_pair_ok_same op lhs ti tj :
  atom_pair_ok (op, lhs, ti) (op, lhs, tj) = true -> stricter op ti tj = true.
Proof.
  cbn. assert (E1 : cmp_eqb op op = true) by (destruct op; reflexivity).
  assert (E2 : forall e, expr_eqb e e = true).
  { induction e using expr_ind2; cbn [expr_eqb];
      rewrite ?IHe, ?IHe1, ?IHe2, ?String.eqb_refl, ?Bool.eqb_reflx; cbn; auto.
    - destruct v; cbn; auto using Bool.eqb_reflx, Z.eqb_refl, String.eqb_refl.
      + unfold Q_eqb. now rewrite Z.eqb_refl, Pos.eqb_refl.
      + induction l; cbn; auto. now rewrite String.eqb_refl.
    - destruct op0; reflexivity.
    - destruct op0; reflexivity.
    - rewrite andb_true_r. induction H as [|[c v] t [Hc Hv] Ht IH]; auto. cbn [fst snd] in *. now rewrite Hc, Hv.
    - induction H as [|x t Hx Ht IH]; auto. now rewrite Hx. }
  now rewrite E1, E2.
Qed.

Lemma ordered_ok_pairs ls : ordered_ok ls = true ->
  forall i j li lj, i < j -> nth_error ls i = Some li -> nth_error ls j = Some lj -> pair_ok li lj = true.
Proof.
  induction ls as [|l t IH]; intros H i j li lj Hij Hi Hj; [destruct i; discriminate|].
  cbn in H. apply andb_true_iff in H as [H1 H2].
  destruct j as [|j]; [lia|]. cbn in Hj. destruct i as [|i].
  - injection Hi as <-. rewrite forallb_forall in H1. apply H1. eapply nth_error_In; eauto.
  - cbn in Hi. apply (IH H2 i j li lj); [lia|exact Hi|exact Hj].
Qed.

Lemma levels_ok_ordered ls : levels_ok0 ls = true -> ordered_ok ls = true.
Proof.
  destruct ls as [|f r]; [discriminate|]. unfold levels_ok0. intros H.
  repeat match goal with H : _ && _ = true |- _ => apply andb_true_iff in H as [H ?] end. assumption.
Qed.

Lemma levels_ok_stricter ls : levels_ok0 ls = true ->
  forall i j li lj op lhs ti tj, i < j -> nth_error ls i = Some li -> nth_error ls j = Some lj ->
    In (op, lhs, ti) (cond_atoms li) -> In (op, lhs, tj) (cond_atoms lj) -> stricter op ti tj = true.
Proof.
  intros H i j li lj op lhs ti tj Hij Hi Hj Ii Ij.
  pose proof (ordered_ok_pairs ls (levels_ok_ordered ls H) i j li lj Hij Hi Hj) as Hp.
  unfold pair_ok in Hp. rewrite forallb_forall in Hp. specialize (Hp _ Ii).
  rewrite forallb_forall in Hp. specialize (Hp _ Ij). exact (atom_pair_ok_same op lhs ti tj Hp).
Qed.

(* shape facts *)
Lemma levels_ok_shape ls : levels_ok0 ls = true ->
  exists e0 mid, ls = {| l_null := true; l_cond := Some e0 |} :: mid ++ [{| l_null := false; l_cond := None |}]
    /\ null_shape e0 = true
    /\ Forall (fun l => l_null l = false /\ l_cond l <> None) mid.
Proof.
  destruct ls as [|[n0 c0] r]; [discriminate|]. unfold levels_ok0. cbn [l_null l_cond is_else]. intros H.
  repeat match goal with H : _ && _ = true |- _ => apply andb_true_iff in H as [H ?] end.
  destruct c0 as [e0|]; [|discriminate]. destruct n0; [|discriminate].
  destruct (rev r) as [|lastl mid'] eqn:Er; [discriminate|].
  apply andb_true_iff in H1 as [Hl Hm].
  assert (r = rev mid' ++ [lastl]).
  { rewrite <- (rev_involutive r), Er. reflexivity. }
  subst r. exists e0, (rev mid'). rewrite forallb_forall in H2.
  destruct lastl as [nl cl]. assert (nl = false).
  { specialize (H2 {| l_null := nl; l_cond := cl |}). cbn in H2. apply negb_true_iff, H2, in_or_app. right. now left. }
  subst nl. unfold is_else in Hl. cbn in Hl. destruct cl; [discriminate|].
  split; [reflexivity|]. split; [assumption|].
  apply Forall_forall. intros l Hin. split.
  - apply negb_true_iff, H2, in_or_app. now left.
  - rewrite forallb_forall in Hm. apply in_rev in Hin. specialize (Hm l Hin).
    unfold is_else in Hm. destruct (l_cond l); [discriminate|discriminate].
Qed.

Lemma conds_app a b : conds (a ++ b) = conds a ++ conds b.
Proof. unfold conds. apply flat_map_app. Qed.

Lemma conds_length_mid mid : Forall (fun l => l_null l = false /\ l_cond l <> None) mid -> length (conds mid) = length mid.
Proof.
  induction 1 as [|l t [_ Hc] Ht IH]; [reflexivity|]. unfold conds in *. cbn.
  destruct (l_cond l); [|congruence]. cbn. now rewrite IH.
Qed.

Lemma levels_ok_conds_length ls : levels_ok0 ls = true -> S (length (conds ls)) = length ls.
Proof.
  intros H. destruct (levels_ok_shape ls H) as (e0 & mid & -> & _ & Hm).
  change (?a :: mid ++ ?b) with ([a] ++ mid ++ b). rewrite !conds_app, !app_length, (conds_length_mid mid Hm).
  cbn. lia.
Qed.

(* ------------------------------------------------------------------ closed instances (executable leaves) *)
Section Std.
  Variable P : profile.
  Variable env : bool -> string -> val.
  Notation ev := (eval P (std_fenv []) env).
  Notation sm := (sem P (std_fenv []) env).
  Local Open Scope string_scope.

  Lemma sem_lev_std cl cr t a b tq :
    ev cl = VStr a -> ev cr = VStr b -> numQ t = Some tq ->
    sm (gen_fn_thresh "levenshtein" false cl cr t) = doc_le (inject_Z (Z.of_nat (lev a b))) tq.
  Proof.
    intros Ha Hb Ht. eapply (sem_fn_thresh P (std_fenv []) env "levenshtein" false); [|exact Ht].
    rewrite Ha, Hb. reflexivity.
  Qed.
  Lemma sem_jaccard_std cl cr t a b tq :
    ev cl = VStr a -> ev cr = VStr b -> numQ t = Some tq ->
    sm (gen_fn_thresh "jaccard" true cl cr t) = doc_ge (jaccard a b) tq.
  Proof.
    intros Ha Hb Ht. eapply (sem_fn_thresh P (std_fenv []) env "jaccard" true); [|exact Ht].
    rewrite Ha, Hb. reflexivity.
  Qed.
  Lemma sem_jaro_std cl cr t a b tq :
    ev cl = VStr a -> ev cr = VStr b -> numQ t = Some tq ->
    sm (gen_fn_thresh "jaro_similarity" true cl cr t) = doc_ge (jaro a b) tq.
  Proof.
    intros Ha Hb Ht. eapply (sem_fn_thresh P (std_fenv []) env "jaro_similarity" true); [|exact Ht].
    rewrite Ha, Hb. reflexivity.
  Qed.
  Lemma sem_jw_std cl cr t a b tq :
    ev cl = VStr a -> ev cr = VStr b -> numQ t = Some tq ->
    sm (gen_fn_thresh "jaro_winkler_similarity" true cl cr t) = doc_ge (jaro_winkler a b) tq.
  Proof.
    intros Ha Hb Ht. eapply (sem_fn_thresh P (std_fenv []) env "jaro_winkler_similarity" true); [|exact Ht].
    rewrite Ha, Hb. reflexivity.
  Qed.
End Std.

(* ------------------------------------------------------------------ levels_ok: combined soundness *)
Lemma atoms_thresh e : forall op lhs t, In (op, lhs, t) (atoms e) -> is_thresh_op op = true.
Proof.
  induction e using expr_ind2; cbn [atoms]; intros xop xlhs xt Hin; try contradiction.
  - destruct e2; try contradiction. destruct (is_thresh_op op) eqn:Hop; [|contradiction].
    destruct (numQ v); [|contradiction]. destruct Hin as [[= <- <- <-]|[]]. exact Hop.
  - apply in_app_or in Hin. destruct Hin; eauto.
  - eauto.
Qed.

Lemma stricter_any_witness op ti tj : is_thresh_op op = true -> stricter op ti tj = true ->
  exists v, sat op tj v = true /\ sat op ti v = false.
Proof.
  intros Hop Hs. destruct op; try discriminate.
  - exists ti. apply stricter_witness_strict; auto.
  - exists tj. apply stricter_witness; auto.
  - exists ti. apply stricter_witness_strict; auto.
  - exists tj. apply stricter_witness; auto.
Qed.

Lemma levels_ok_no_shadow ls : levels_ok0 ls = true ->
  forall i j li lj op lhs ti tj, i < j -> nth_error ls i = Some li -> nth_error ls j = Some lj ->
    In (op, lhs, ti) (cond_atoms li) -> In (op, lhs, tj) (cond_atoms lj) ->
    (forall v, sat op ti v = true -> sat op tj v = true) /\
    (exists v, sat op tj v = true /\ sat op ti v = false /\
       forall P fenv env e, l_cond li = Some e -> numQ (eval P fenv env lhs) = Some v ->
                            sem P fenv env e <> T).
Proof.
  intros H i j li lj op lhs ti tj Hij Hi Hj Ii Ij.
  pose proof (levels_ok_stricter ls H i j li lj op lhs ti tj Hij Hi Hj Ii Ij) as Hs.
  split; [intros v; now apply stricter_nested|].
  assert (Hop : is_thresh_op op = true).
  { unfold cond_atoms in Ii. destruct (l_cond li); [|contradiction]. eapply atoms_thresh; eauto. }
  destruct (stricter_any_witness op ti tj Hop Hs) as (v & Hv1 & Hv2).
  exists v. split; [exact Hv1|]. split; [exact Hv2|].
  intros P fenv env e He Hq HT. unfold cond_atoms in Ii. rewrite He in Ii.
  pose proof (atoms_necessary P fenv env e HT op lhs ti v Ii Hq). congruence.
Qed.

Lemma levels_ok_level_of ls P fenv env : levels_ok0 ls = true -> level_of P fenv env ls < length ls.
Proof.
  intros H. unfold level_of. pose proof (pick_le (map (sem P fenv env) (conds ls))) as Hp.
  rewrite map_length in Hp. pose proof (levels_ok_conds_length ls H). lia.
Qed.

(* a record pair with a missing value (in the sense of the first level's own IS NULL tests) is
   assigned the null level, position 0 *)
Lemma levels_ok_null_first ls P fenv env e0 rest :
  ls = {| l_null := true; l_cond := Some e0 |} :: rest -> sem P fenv env e0 = T -> level_of P fenv env ls = 0.
Proof. intros -> HT. unfold level_of, conds. cbn. now rewrite HT. Qed.

(* the term emitted BEFORE splink 89a1dbc7 (no 1.0 factor) on SQLite with INTEGER operands: the faithful model (integer
   division) is satisfied although the documented percentage difference is 2/3 >= 1/10; the current term is not *)
Lemma pctdiff_sqlite_integer_witness :
  let env := fun (s : bool) (_ : string) => if s then VInt 3 else VInt 9 in
  sem sqlite_profile (std_fenv []) env (gen_pctdiff_old (ECol true "x") (ECol false "x") (VNum (1 # 10))) = T
  /\ doc_pctdiff 3 9 (1 # 10) = F
  /\ sem duckdb_profile (std_fenv []) env (gen_pctdiff_old (ECol true "x") (ECol false "x") (VNum (1 # 10))) = F
  /\ sem sqlite_profile (std_fenv []) env (gen_pctdiff (ECol true "x") (ECol false "x") (VNum (1 # 10))) = F.
Proof. vm_compute. repeat split. Qed.

(* ------------------------------------------------------------------ arrays as sets *)
Lemma mem_str_In s l : mem_str s l = true <-> In s l.
Proof.
  unfold mem_str. rewrite existsb_exists. split.
  - intros (x & Hx & E). apply String.eqb_eq in E. now subst.
  - intros H. exists s. split; [exact H|apply String.eqb_refl].
Qed.
Lemma dedup_str_In x l : In x (dedup_str l) <-> In x l.
Proof.
  induction l as [|s t IH]; cbn; [tauto|]. destruct (mem_str s t) eqn:E.
  - rewrite IH. split; [tauto|]. intros [<-|H]; [now apply mem_str_In|exact H].
  - cbn. rewrite IH. tauto.
Qed.
Lemma dedup_str_NoDup l : NoDup (dedup_str l).
Proof.
  induction l as [|s t IH]; cbn; [constructor|]. destruct (mem_str s t) eqn:E; [exact IH|].
  constructor; [|exact IH]. rewrite dedup_str_In. intros H. apply mem_str_In in H. congruence.
Qed.
Lemma dedup_str_id l : NoDup l -> dedup_str l = l.
Proof.
  induction 1 as [|s t Hn Hd IH]; cbn; [reflexivity|].
  destruct (mem_str s t) eqn:E; [apply mem_str_In in E; contradiction|]. now rewrite IH.
Qed.
Lemma arr_intersect_In x a b : In x (arr_intersect a b) <-> In x a /\ In x b.
Proof. unfold arr_intersect. rewrite dedup_str_In, filter_In, mem_str_In. tauto. Qed.
Lemma arr_intersect_NoDup a b : NoDup (arr_intersect a b).
Proof. apply dedup_str_NoDup. Qed.

Lemma filter_len_le {A} (p : A -> bool) l : length (filter p l) <= length l.
Proof. induction l as [|x t IH]; cbn; [lia|]. destruct (p x); cbn; lia. Qed.
Lemma filter_length_all {A} (p : A -> bool) l : length (filter p l) = length l <-> forallb p l = true.
Proof.
  induction l as [|x t IH]; cbn; [tauto|]. pose proof (filter_len_le p t) as Hle.
  destruct (p x); cbn; [rewrite <- IH; lia|]. split; [lia|discriminate].
Qed.

(* the documented subset predicate on duplicate-free arrays *)
Definition subset_doc (empty_is_subset : bool) (a b : list string) : bool :=
  let small := if Nat.leb (length a) (length b) then a else b in
  let large := if Nat.leb (length a) (length b) then b else a in
  (empty_is_subset || negb (Nat.eqb (length small) 0)) && forallb (fun x => mem_str x large) small.

Lemma intersect_full_iff a b : NoDup a -> NoDup b ->
  (length (arr_intersect a b) = Nat.min (length a) (length b) <->
   forallb (fun x => mem_str x (if Nat.leb (length a) (length b) then b else a))
           (if Nat.leb (length a) (length b) then a else b) = true).
Proof.
  intros Ha Hb. unfold arr_intersect. rewrite dedup_str_id by (now apply NoDup_filter).
  destruct (Nat.leb (length a) (length b)) eqn:E.
  - apply Nat.leb_le in E. rewrite Nat.min_l by exact E. apply filter_length_all.
  - apply Nat.leb_gt in E. rewrite Nat.min_r by lia.
    set (F := filter (fun s => mem_str s b) a).
    assert (HF : NoDup F) by (now apply NoDup_filter).
    assert (HFb : incl F b) by (intros x Hx; apply filter_In in Hx as [_ Hx]; now apply mem_str_In).
    assert (HFa : incl F a) by (intros x Hx; now apply filter_In in Hx as [Hx _]).
    rewrite forallb_forall. split.
    + intros Hl x Hx. apply mem_str_In. apply HFa.
      assert (Hbl : length b <= length F) by lia.
      exact (NoDup_length_incl HF Hbl HFb x Hx).
    + intros Hall. apply Nat.le_antisymm.
      * apply NoDup_incl_length; assumption.
      * apply NoDup_incl_length; [exact Hb|]. intros x Hx. apply filter_In. split.
        -- apply mem_str_In. now apply Hall.
        -- now apply mem_str_In.
Qed.

Section StdArr.
  Variable P : profile.
  Variable env : bool -> string -> val.
  Notation ev := (eval P (std_fenv []) env).
  Notation sm := (sem P (std_fenv []) env).
  Local Open Scope string_scope.

  Lemma sem_arr_intersect_std cl cr n a b :
    ev cl = VArr a -> ev cr = VArr b ->
    sm (gen_arr_intersect "array_length" "list_intersect" cl cr (VInt n))
    = doc_ge (inject_Z (Z.of_nat (length (arr_intersect a b)))) (inject_Z n).
  Proof.
    intros Ha Hb. unfold gen_arr_intersect. rewrite sem_cmp. cbn [eval map]. rewrite Ha, Hb.
    change (std_fenv [] "list_intersect" [VArr a; VArr b]) with (VArr (arr_intersect a b)).
    change (std_fenv [] "array_length" [VArr (arr_intersect a b)]) with (VInt (Z.of_nat (length (arr_intersect a b)))).
    erewrite cmp3_thresh by reflexivity. reflexivity.
  Qed.

  Lemma Zlen_eqb (x y : nat) : Qeq_bool (inject_Z (Z.of_nat x)) (inject_Z (Z.of_nat y)) = Nat.eqb x y.
  Proof.
    destruct (Nat.eqb_spec x y) as [->|N].
    - apply Qeq_bool_iff. reflexivity.
    - destruct (Qeq_bool _ _) eqn:E; [|reflexivity]. apply Qeq_bool_iff in E.
      assert (E2 : Z.of_nat x = Z.of_nat y) by (now apply inject_Z_injective).
      apply Nat2Z.inj in E2. contradiction.
  Qed.
  Lemma Zlen_leb (x y : nat) : Qle_bool (inject_Z (Z.of_nat x)) (inject_Z (Z.of_nat y)) = Nat.leb x y.
  Proof.
    destruct (Nat.leb_spec x y) as [L|L].
    - apply Qle_bool_iff. rewrite <- Zle_Qle. lia.
    - destruct (Qle_bool _ _) eqn:E; [|reflexivity]. apply Qle_bool_iff in E. rewrite <- Zle_Qle in E. lia.
  Qed.

  Lemma least_len (x y : nat) :
    std_fenv [] "least" [VInt (Z.of_nat x); VInt (Z.of_nat y)] = VInt (Z.of_nat (Nat.min x y)).
  Proof.
    unfold std_fenv. cbn [lookup]. unfold builtin. cbn [existsb is_null orb].
    unfold val_le. cbn [to_xnum xle]. rewrite Zlen_leb.
    destruct (Nat.leb_spec x y); [rewrite Nat.min_l by lia|rewrite Nat.min_r by lia]; reflexivity.
  Qed.

  Lemma sem_arr_subset_std emp cl cr a b :
    ev cl = VArr a -> ev cr = VArr b -> NoDup a -> NoDup b ->
    sm (gen_arr_subset "array_length" "array_intersect" emp cl cr) = of_bool (subset_doc emp a b).
  Proof.
    intros Ha Hb Na Nb.
    assert (Hmain : sm (ECmp CEq (EFn "array_length" [EFn "array_intersect" [cl; cr]])
                               (EFn "least" [EFn "array_length" [cl]; EFn "array_length" [cr]]))
                    = of_bool (Nat.eqb (length (arr_intersect a b)) (Nat.min (length a) (length b)))).
    { rewrite sem_cmp. cbn [eval map]. rewrite Ha, Hb.
      change (std_fenv [] "array_intersect" [VArr a; VArr b]) with (VArr (arr_intersect a b)).
      change (std_fenv [] "array_length" [VArr ?l]) with (VInt (Z.of_nat (length l))).
      rewrite least_len. unfold cmp3, val_eq. cbn [is_null orb to_xnum xeq opt_tv]. now rewrite Zlen_eqb. }
    assert (Hne : sm (ECmp CNe (EFn "least" [EFn "array_length" [cl]; EFn "array_length" [cr]]) (ELit (VInt 0)))
                  = of_bool (negb (Nat.eqb (Nat.min (length a) (length b)) 0))).
    { rewrite sem_cmp. cbn [eval map]. rewrite Ha, Hb.
      change (std_fenv [] "array_length" [VArr ?l]) with (VInt (Z.of_nat (length l))).
      rewrite least_len. unfold cmp3, val_eq. cbn [is_null orb to_xnum xeq opt_tv].
      change (inject_Z 0) with (inject_Z (Z.of_nat 0)). rewrite Zlen_eqb.
      destruct (Nat.eqb _ 0); reflexivity. }
    assert (Hfull : Nat.eqb (length (arr_intersect a b)) (Nat.min (length a) (length b))
                    = forallb (fun x => mem_str x (if Nat.leb (length a) (length b) then b else a))
                              (if Nat.leb (length a) (length b) then a else b)).
    { pose proof (intersect_full_iff a b Na Nb) as H.
      destruct (Nat.eqb_spec (length (arr_intersect a b)) (Nat.min (length a) (length b))) as [E|E];
        destruct (forallb _ _) eqn:F; auto; [apply H in E; congruence|exfalso; apply E; now apply H]. }
    assert (Hmin : Nat.min (length a) (length b) = length (if Nat.leb (length a) (length b) then a else b)).
    { destruct (Nat.leb_spec (length a) (length b)); [apply Nat.min_l|apply Nat.min_r]; lia. }
    unfold gen_arr_subset, subset_doc. destruct emp.
    - rewrite Hmain, Hfull. reflexivity.
    - rewrite sem_and, Hne, Hmain, Hfull, Hmin. cbn [orb].
      generalize (negb (Nat.eqb (length (if Nat.leb (length a) (length b) then a else b)) 0)).
      generalize (forallb (fun x => mem_str x (if Nat.leb (length a) (length b) then b else a))
                          (if Nat.leb (length a) (length b) then a else b)).
      intros [|] [|]; reflexivity.
  Qed.
End StdArr.

(* ------------------------------------------------------------------ great-circle distance: clipping *)
Section Km.
  Variable P : profile.
  Variable fenv : string -> list val -> val.
  Variable env : bool -> string -> val.
  Notation ev := (eval P fenv env).

  (* whatever number the (rounded) haversine sum evaluates to, acos receives a value in [-1, 1] *)
  Lemma km_clip_in_domain p q :
    numQ (ev p) = Some q ->
    exists v, numQ (ev (km_clipped p)) = Some v /\ (-1 <= v <= 1)%Q /\
              ((-1 <= q <= 1)%Q -> v == q)%Q.
  Proof.
    intros Hq. unfold km_clipped. rewrite eval_case_pick. cbn [map fst snd pick].
    rewrite !sem_cmp. cbn [eval]. erewrite !cmp3_thresh by (reflexivity || eauto). cbn [sat].
    destruct (Qle_bool q (inject_Z 1)) eqn:E1; cbn [negb of_bool isT nth_error].
    - destruct (Qle_bool (inject_Z (-1)) q) eqn:E2; cbn [negb of_bool isT nth_error pick].
      + cbn [eval]. exists q. split; [exact Hq|]. apply Qle_bool_iff in E1. apply Qle_bool_iff in E2.
        split; [split; assumption|]. intros _. reflexivity.
      + cbn [snd eval]. exists (inject_Z (-1)). split; [reflexivity|]. split; [split; discriminate|].
        intros [H _]. apply Qle_bool_iff in H. change (-1)%Q with (inject_Z (-1)) in H. congruence.
    - cbn [snd eval]. exists (inject_Z 1). split; [reflexivity|]. split; [split; discriminate|].
      intros [_ H]. apply Qle_bool_iff in H. change 1%Q with (inject_Z 1) in H. congruence.
  Qed.

  (* the level is the threshold test on acos(clipped) * 6371 *)
  Lemma sem_km fty latl latr lngl lngr t d tq :
    fenv "acos" [ev (km_clipped (km_partial latl latr lngl lngr))] = VNum d ->
    (forall x, fenv ("cast:" ++ fty)%string [VNum x] = VNum x) -> numQ t = Some tq ->
    sem P fenv env (gen_km fty false latl latr lngl lngr t) = doc_le (d * 6371) tq.
  Proof.
    intros Hd Hc Ht. unfold gen_km, km_distance. rewrite sem_cmp.
    change (ev (ECast ?a fty)) with (fenv ("cast:" ++ fty)%string [ev a]).
    change (ev (EArith Mul ?a ?b)) with (arith_val P Mul (ev a) (ev b)).
    change (ev (EFn "acos"%string [?a])) with (fenv "acos"%string [ev a]).
    rewrite Hd. cbn [eval arith_val numQ]. rewrite Hc.
    erewrite cmp3_thresh by (reflexivity || eauto). unfold doc_le. cbn [sat].
    now rewrite Qred_correct.
  Qed.
End Km.

(* ------------------------------------------------------------------ Levenshtein DP = the recursive definition (all lists) *)
Section LevProof.
  Context {A : Type} (eqA : A -> A -> bool).
  Notation ls := (lev_spec eqA).

  Lemma lev_spec_nil_r s : ls s [] = length s.
  Proof. destruct s; reflexivity. Qed.
  Lemma lev_spec_cons a s b t :
    ls (a :: s) (b :: t) = Nat.min (Nat.min (S (ls s (b :: t))) (S (ls (a :: s) t))) (ls s t + sub_cost eqA a b).
  Proof. reflexivity. Qed.

  (* the row the programme should hold for s: lev_spec s against every suffix of t *)
  Fixpoint rowspec (s t : list A) : list nat :=
    match t with
    | [] => [ls s []]
    | _ :: t' => ls s t :: rowspec s t'
    end.
  Lemma rowspec_hd s t : exists r, rowspec s t = ls s t :: r.
  Proof. destruct t; cbn [rowspec]; eauto. Qed.

  Lemma lev_base_spec t : lev_base t = rowspec [] t.
  Proof. induction t as [|x t IH]; cbn [lev_base rowspec]; [reflexivity|]. now rewrite IH. Qed.

  Lemma lev_row_spec c u t : lev_row eqA c t (rowspec u t) = rowspec (c :: u) t.
  Proof.
    induction t as [|tj t IH]; cbn [rowspec lev_row].
    - now rewrite !lev_spec_nil_r.
    - rewrite IH. destruct (rowspec_hd (c :: u) t) as [r Hr]. destruct (rowspec_hd u t) as [r' Hr'].
      rewrite Hr, Hr'. now rewrite lev_spec_cons.
  Qed.

  Lemma lev_rows_spec s t : lev_rows eqA s t = rowspec s t.
  Proof.
    induction s as [|c s IH]; unfold lev_rows in *; cbn [fold_right].
    - apply lev_base_spec.
    - rewrite IH. apply lev_row_spec.
  Qed.

  Theorem lev_list_spec s t : lev_list eqA s t = ls s t.
  Proof. unfold lev_list. rewrite lev_rows_spec. destruct (rowspec_hd s t) as [r ->]. reflexivity. Qed.
End LevProof.

(* ------------------------------------------------------------------ pairwise array levels *)
Lemma Qle_bool_trans a b c : Qle_bool a b = true -> Qle_bool b c = true -> Qle_bool a c = true.
Proof. rewrite !Qle_bool_iff. apply Qle_trans. Qed.
Lemma Qle_bool_total a b : Qle_bool a b = false -> Qle_bool b a = true.
Proof. intros H. apply Qle_bool_false in H. apply Qle_bool_iff. now apply Qlt_le_weak. Qed.

Lemma min_le_iff a q t : Qle_bool (if Qle_bool a q then a else q) t = (Qle_bool a t || Qle_bool q t)%bool.
Proof.
  destruct (Qle_bool a q) eqn:E.
  - destruct (Qle_bool a t) eqn:E1; [reflexivity|]. destruct (Qle_bool q t) eqn:E2; [|reflexivity].
    pose proof (Qle_bool_trans _ _ _ E E2). congruence.
  - destruct (Qle_bool q t) eqn:E2; [now rewrite orb_true_r|]. rewrite orb_false_r.
    destruct (Qle_bool a t) eqn:E1; [|reflexivity].
    pose proof (Qle_bool_trans _ _ _ (Qle_bool_total _ _ E) E1). congruence.
Qed.
Lemma max_ge_iff a q t : Qle_bool t (if Qle_bool a q then q else a) = (Qle_bool t a || Qle_bool t q)%bool.
Proof.
  destruct (Qle_bool a q) eqn:E.
  - destruct (Qle_bool t q) eqn:E2; [now rewrite orb_true_r|]. rewrite orb_false_r.
    destruct (Qle_bool t a) eqn:E1; [|reflexivity].
    pose proof (Qle_bool_trans _ _ _ E1 E). congruence.
  - destruct (Qle_bool t a) eqn:E1; [reflexivity|]. destruct (Qle_bool t q) eqn:E2; [|reflexivity].
    pose proof (Qle_bool_trans _ _ _ E2 (Qle_bool_total _ _ E)). congruence.
Qed.

Lemma fold_min_spec l : forall a, exists r,
  fold_left (num_pick false) (map VNum l) (VNum a) = VNum r /\
  forall t, Qle_bool r t = (Qle_bool a t || existsb (fun q => Qle_bool q t) l)%bool.
Proof.
  induction l as [|q l IH]; intros a; cbn [map fold_left existsb].
  - exists a. split; [reflexivity|]. intros t. now rewrite orb_false_r.
  - unfold num_pick at 2. cbn [to_xnum xle].
    destruct (IH (if Qle_bool a q then a else q)) as (r & Hr & Hs).
    exists r. split.
    + destruct (Qle_bool a q); exact Hr.
    + intros t. rewrite Hs, min_le_iff. now rewrite orb_assoc.
Qed.
Lemma fold_max_spec l : forall a, exists r,
  fold_left (num_pick true) (map VNum l) (VNum a) = VNum r /\
  forall t, Qle_bool t r = (Qle_bool t a || existsb (fun q => Qle_bool t q) l)%bool.
Proof.
  induction l as [|q l IH]; intros a; cbn [map fold_left existsb].
  - exists a. split; [reflexivity|]. intros t. now rewrite orb_false_r.
  - unfold num_pick at 2. cbn [to_xnum xle].
    destruct (IH (if Qle_bool a q then q else a)) as (r & Hr & Hs).
    exists r. split.
    + destruct (Qle_bool a q); exact Hr.
    + intros t. rewrite Hs, max_ge_iff. now rewrite orb_assoc.
Qed.

Section Pairwise.
  Variable P : profile.
  Variable fenv : string -> list val -> val.
  Variable env : bool -> string -> val.
  Notation ev := (eval P fenv env).
  Notation sm := (sem P fenv env).

  (* metric values of all pairs of the cross product *)
  Definition pair_values (m : string -> string -> Q) (la lb : list string) : list Q :=
    map (fun xy => m (fst xy) (snd xy)) (cross la lb).

  Lemma eval_pairwise mx f cl cr la lb m :
    ev cl = VArr la -> ev cr = VArr lb -> (forall x y, fenv f [VStr x; VStr y] = VNum (m x y)) ->
    ev (EPairwise mx f cl cr) = agg_vals mx (map VNum (pair_values m la lb)).
  Proof.
    intros Ha Hb Hm. cbn [eval]. rewrite Ha, Hb. unfold pair_values. rewrite map_map. f_equal.
    apply map_ext. intros [x y]. apply Hm.
  Qed.

  Lemma sem_pairwise f higher cl cr t la lb m tq :
    ev cl = VArr la -> ev cr = VArr lb -> (forall x y, fenv f [VStr x; VStr y] = VNum (m x y)) ->
    numQ t = Some tq -> pair_values m la lb <> [] ->
    sm (gen_pairwise f higher cl cr t) =
    of_bool (existsb (fun q => if higher then Qle_bool tq q else Qle_bool q tq) (pair_values m la lb)).
  Proof.
    intros Ha Hb Hm Ht Hne. unfold gen_pairwise. rewrite sem_cmp.
    rewrite (eval_pairwise higher f cl cr la lb m Ha Hb Hm). cbn [eval].
    destruct (pair_values m la lb) as [|q0 qs]; [congruence|]. cbn [map agg_vals to_xnum existsb].
    destruct higher.
    - destruct (fold_max_spec qs q0) as (r & Hr & Hs). rewrite Hr.
      erewrite cmp3_thresh by (reflexivity || eauto). cbn [sat]. now rewrite Hs.
    - destruct (fold_min_spec qs q0) as (r & Hr & Hs). rewrite Hr.
      erewrite cmp3_thresh by (reflexivity || eauto). cbn [sat]. now rewrite Hs.
  Qed.

  Lemma sem_pairwise_empty f higher cl cr t la lb :
    ev cl = VArr la -> ev cr = VArr lb -> cross la lb = [] ->
    sm (gen_pairwise f higher cl cr t) = U.
  Proof.
    intros Ha Hb He. unfold gen_pairwise. rewrite sem_cmp. cbn [eval]. rewrite Ha, Hb, He. cbn [map agg_vals].
    apply cmp3_null_l.
  Qed.
End Pairwise.

(* ------------------------------------------------------------------ km level: monotonicity *)
Definition clipQ (q : Q) : Q := if Qle_bool q 1 then (if Qle_bool (-1) q then q else -1) else 1.

Lemma clipQ_mono a b : (a <= b)%Q -> (clipQ a <= clipQ b)%Q.
Proof.
  intros H. unfold clipQ.
  destruct (Qle_bool a 1) eqn:A1, (Qle_bool b 1) eqn:B1, (Qle_bool (-1) a) eqn:A2, (Qle_bool (-1) b) eqn:B2;
    rewrite ?Qle_bool_iff in *; rewrite ?Qle_bool_false in *; try assumption; try apply Qle_refl; try discriminate;
    try (exfalso; eapply Qlt_not_le; [eassumption|]; eauto using Qle_trans, Qlt_le_weak; fail).
  all: try (eapply Qle_trans; eauto using Qlt_le_weak; fail).
  all: try (exfalso; eapply (Qlt_irrefl 1); eapply Qlt_le_trans; [eassumption|]; eapply Qle_trans; eassumption).
  all: try (exfalso; eapply (Qlt_irrefl (-1)); eapply Qle_lt_trans; [|eassumption]; eapply Qle_trans; eassumption).
Qed.
Lemma clipQ_range q : (-1 <= clipQ q <= 1)%Q.
Proof.
  unfold clipQ. destruct (Qle_bool q 1) eqn:A; [destruct (Qle_bool (-1) q) eqn:B|];
    rewrite ?Qle_bool_iff in *; split; auto; try discriminate; apply Qle_refl.
Qed.

Section KmMono.
  Variable P : profile.
  Variable fenv : string -> list val -> val.
  Variable acosf : Q -> Q.
  Variable fty : string.
  (* laws of the abstract leaves *)
  Hypothesis acos_numeric : forall v q, numQ v = Some q -> fenv "acos"%string [v] = VNum (acosf q).
  Hypothesis acos_antitone : forall x y, (-1 <= x)%Q -> (x <= y)%Q -> (y <= 1)%Q -> (acosf y <= acosf x)%Q.
  Hypothesis cast_float_id : forall x, fenv ("cast:" ++ fty)%string [VNum x] = VNum x.

  Lemma km_clip_value env p q :
    numQ (eval P fenv env p) = Some q -> exists v, numQ (eval P fenv env (km_clipped p)) = Some v /\ (v == clipQ q)%Q.
  Proof.
    intros Hq. unfold km_clipped. rewrite eval_case_pick. cbn [map fst snd pick].
    rewrite !sem_cmp. cbn [eval]. erewrite !cmp3_thresh by (reflexivity || eauto). cbn [sat]. unfold clipQ.
    change (inject_Z 1) with 1%Q. change (inject_Z (-1)) with (-1)%Q.
    destruct (Qle_bool q 1) eqn:E1; cbn [negb of_bool isT nth_error].
    - destruct (Qle_bool (-1) q) eqn:E2; cbn [negb of_bool isT nth_error pick snd eval].
      + exists q. split; [exact Hq|reflexivity].
      + exists (inject_Z (-1)). split; reflexivity.
    - cbn [snd eval]. exists (inject_Z 1). split; reflexivity.
  Qed.

  Lemma sem_km_acos env latl latr lngl lngr t v tq :
    numQ (eval P fenv env (km_clipped (km_partial latl latr lngl lngr))) = Some v -> numQ t = Some tq ->
    sem P fenv env (gen_km fty false latl latr lngl lngr t) = doc_le (acosf v * 6371) tq.
  Proof. intros Hv Ht. apply sem_km; auto. Qed.

  (* a looser threshold accepts whatever a stricter one accepts *)
  Lemma km_monotone_threshold env latl latr lngl lngr t1 t2 q q1 q2 :
    numQ (eval P fenv env (km_partial latl latr lngl lngr)) = Some q ->
    numQ t1 = Some q1 -> numQ t2 = Some q2 -> (q1 <= q2)%Q ->
    sem P fenv env (gen_km fty false latl latr lngl lngr t1) = T ->
    sem P fenv env (gen_km fty false latl latr lngl lngr t2) = T.
  Proof.
    intros Hq H1 H2 Hle. destruct (km_clip_value env _ q Hq) as (v & Hv & _).
    rewrite (sem_km_acos env latl latr lngl lngr t1 v q1 Hv H1), (sem_km_acos env latl latr lngl lngr t2 v q2 Hv H2).
    unfold doc_le. destruct (Qle_bool (acosf v * 6371) q1) eqn:E; [|discriminate]. intros _.
    apply Qle_bool_iff in E. assert (E2 : Qle_bool (acosf v * 6371) q2 = true).
    { apply Qle_bool_iff. eapply Qle_trans; eauto. }
    now rewrite E2.
  Qed.

  (* a pair that is angularly closer (larger haversine sum) is accepted whenever a farther pair is:
     the distance acos(clip(.)) * 6371 is antitone in the sum *)
  Lemma km_monotone_distance env1 env2 latl latr lngl lngr t tq qa qb :
    numQ (eval P fenv env1 (km_partial latl latr lngl lngr)) = Some qa ->
    numQ (eval P fenv env2 (km_partial latl latr lngl lngr)) = Some qb ->
    (qa <= qb)%Q -> numQ t = Some tq ->
    sem P fenv env1 (gen_km fty false latl latr lngl lngr t) = T ->
    sem P fenv env2 (gen_km fty false latl latr lngl lngr t) = T.
  Proof.
    intros Ha Hb Hle Ht.
    destruct (km_clip_value env1 _ qa Ha) as (va & Hva & Eva).
    destruct (km_clip_value env2 _ qb Hb) as (vb & Hvb & Evb).
    rewrite (sem_km_acos env1 latl latr lngl lngr t va tq Hva Ht), (sem_km_acos env2 latl latr lngl lngr t vb tq Hvb Ht).
    unfold doc_le. destruct (Qle_bool (acosf va * 6371) tq) eqn:E; [|discriminate]. intros _.
    apply Qle_bool_iff in E.
    assert (Hab : (va <= vb)%Q) by (rewrite Eva, Evb; now apply clipQ_mono).
    assert (Ra : (-1 <= va)%Q) by (rewrite Eva; apply clipQ_range).
    assert (Rb : (vb <= 1)%Q) by (rewrite Evb; apply clipQ_range).
    pose proof (acos_antitone va vb Ra Hab Rb) as Hd.
    assert (E2 : Qle_bool (acosf vb * 6371) tq = true).
    { apply Qle_bool_iff. eapply Qle_trans; [|exact E]. apply Qmult_le_compat_r; [exact Hd|discriminate]. }
    now rewrite E2.
  Qed.
End KmMono.

Section Std2.
  Variable P : profile.
  Variable env : bool -> string -> val.
  Local Open Scope string_scope.
  Lemma sem_dl_std cl cr t a b tq :
    eval P (std_fenv []) env cl = VStr a -> eval P (std_fenv []) env cr = VStr b -> numQ t = Some tq ->
    sem P (std_fenv []) env (gen_fn_thresh "damerau_levenshtein" false cl cr t) = doc_le (inject_Z (Z.of_nat (dam_lev a b))) tq.
  Proof.
    intros Ha Hb Ht. eapply (sem_fn_thresh P (std_fenv []) env "damerau_levenshtein" false); [|exact Ht].
    rewrite Ha, Hb. reflexivity.
  Qed.
End Std2.

(* ------------------------------------------------------------------ emitted level list = documented level list *)
Lemma levels_match_sound ls : forall ex, levels_match ls ex = true ->
  length ls = length ex /\
  forall i l n c, nth_error ls i = Some l -> nth_error ex i = Some (n, c) ->
    l_null l = n /\
    match l_cond l, c with
    | Some a, Some b => forall P fenv env, eval P fenv env a = eval P fenv env b
    | None, None => True
    | _, _ => False
    end.
Proof.
  induction ls as [|l t IH]; intros [|[n c] t'] H; cbn in H; try discriminate.
  - split; [reflexivity|]. intros [|i]; discriminate.
  - apply andb_true_iff in H as [H H3]. apply andb_true_iff in H as [H1 H2].
    destruct (IH t' H3) as [Hl Hi]. split; [cbn; now f_equal|].
    intros [|i] l' n' c' Hn He; cbn in Hn, He.
    + injection Hn as <-. injection He as <- <-. split; [now apply Bool.eqb_prop|].
      destruct (l_cond l), c; try discriminate; auto. intros P fenv env. now apply same_expr_sound.
    + eapply Hi; eauto.
Qed.

(* ------------------------------------------------------------------ Jaccard = |A n B| / |A u B| on the character sets *)
Lemma mem_ascii_In c l : mem_ascii c l = true <-> In c l.
Proof.
  unfold mem_ascii. rewrite existsb_exists. split.
  - intros (x & Hx & E). apply Ascii.eqb_eq in E. now subst.
  - intros H. exists c. split; [exact H|apply Ascii.eqb_refl].
Qed.
Lemma dedup_In x l : In x (dedup l) <-> In x l.
Proof.
  induction l as [|s t IH]; cbn; [tauto|]. destruct (mem_ascii s t) eqn:E.
  - rewrite IH. split; [tauto|]. intros [<-|H]; [now apply mem_ascii_In|exact H].
  - cbn. rewrite IH. tauto.
Qed.
Lemma dedup_NoDup l : NoDup (dedup l).
Proof.
  induction l as [|s t IH]; cbn; [constructor|]. destruct (mem_ascii s t) eqn:E; [exact IH|].
  constructor; [|exact IH]. rewrite dedup_In. intros H. apply mem_ascii_In in H. congruence.
Qed.
Lemma NoDup_app_disjoint {A} (l1 l2 : list A) :
  NoDup l1 -> NoDup l2 -> (forall x, In x l1 -> ~ In x l2) -> NoDup (l1 ++ l2).
Proof.
  induction 1 as [|x l1 Hx Hn IH]; intros H2 Hd; cbn; [exact H2|].
  constructor.
  - rewrite in_app_iff. intros [H|H]; [contradiction|]. apply (Hd x); [now left|exact H].
  - apply IH; [exact H2|]. intros y Hy. apply Hd. now right.
Qed.
Lemma filter_partition_length {A} (p : A -> bool) l :
  length (filter p l) + length (filter (fun x => negb (p x)) l) = length l.
Proof. induction l as [|x t IH]; cbn; [reflexivity|]. destruct (p x); cbn; lia. Qed.

Lemma jaccard_spec a b :
  let la := list_ascii_of_string a in let lb := list_ascii_of_string b in
  exists I U : list ascii,
    NoDup I /\ NoDup U /\
    (forall c, In c I <-> In c la /\ In c lb) /\
    (forall c, In c U <-> In c la \/ In c lb) /\
    jaccard a b = Qred (inject_Z (Z.of_nat (length I)) / inject_Z (Z.of_nat (length U))).
Proof.
  intros la lb. unfold jaccard. fold la lb.
  set (sa := dedup la). set (sb := dedup lb).
  set (I := filter (fun c => mem_ascii c sb) sa).
  set (J := filter (fun c => mem_ascii c sa) sb).
  set (R := filter (fun c => negb (mem_ascii c sa)) sb).
  assert (Na : NoDup sa) by apply dedup_NoDup. assert (Nb : NoDup sb) by apply dedup_NoDup.
  assert (HI : forall c, In c I <-> In c la /\ In c lb).
  { intros c. unfold I. rewrite filter_In, mem_ascii_In. unfold sa, sb. rewrite !dedup_In. tauto. }
  assert (HJ : forall c, In c J <-> In c la /\ In c lb).
  { intros c. unfold J. rewrite filter_In, mem_ascii_In. unfold sa, sb. rewrite !dedup_In. tauto. }
  assert (NI : NoDup I) by (now apply NoDup_filter). assert (NJ : NoDup J) by (now apply NoDup_filter).
  assert (LIJ : length I = length J).
  { apply Nat.le_antisymm; apply NoDup_incl_length; auto; intros c Hc; [apply HJ, HI, Hc|apply HI, HJ, Hc]. }
  exists I, (sa ++ R). split; [exact NI|]. split.
  - apply NoDup_app_disjoint; [exact Na|now apply NoDup_filter|].
    intros c Hc Hr. unfold R in Hr. apply filter_In in Hr as [_ Hr]. apply negb_true_iff in Hr.
    apply mem_ascii_In in Hc. congruence.
  - split; [exact HI|]. split.
    + intros c. rewrite in_app_iff.
      assert (Hsa : In c sa <-> In c la) by apply dedup_In.
      assert (Hsb : In c sb <-> In c lb) by apply dedup_In.
      unfold R. rewrite filter_In, negb_true_iff. split.
      * intros [H|[H _]]; [left; now apply Hsa|right; now apply Hsb].
      * intros [H|H]; [left; now apply Hsa|]. destruct (mem_ascii c sa) eqn:E.
        -- left. now apply mem_ascii_In.
        -- right. split; [now apply Hsb|reflexivity].
    + pose proof (filter_partition_length (fun c => mem_ascii c sa) sb) as HP. cbv beta in HP. fold J in HP. fold R in HP.
      rewrite app_length. replace (length sa + length sb - length I) with (length sa + length R) by lia. reflexivity.
Qed.

(* ------------------------------------------------------------------ Jaro: range; Jaro-Winkler >= Jaro *)
Definition cnt (used : list bool) : nat := length (filter (fun b : bool => b) used).

Lemma find_match_spec c t : forall used lo hi idx j,
  find_match c t used lo hi idx = Some j -> exists k, j = idx + k /\ nth_error used k = Some false.
Proof.
  induction t as [|tc t IH]; intros [|u used] lo hi idx j H; cbn in H; try discriminate.
  destruct (Nat.leb lo idx && Nat.leb idx hi && negb u && Ascii.eqb c tc)%bool eqn:E.
  - injection H as <-. exists 0. split; [lia|]. cbn.
    apply andb_true_iff in E as [E _]. apply andb_true_iff in E as [_ E]. apply negb_true_iff in E. now subst.
  - apply IH in H as (k & -> & Hk). exists (S k). split; [lia|exact Hk].
Qed.

Lemma set_nth_cnt : forall k used, nth_error used k = Some false ->
  cnt (set_nth k used) = S (cnt used) /\ length (set_nth k used) = length used.
Proof.
  induction k as [|k IH]; intros [|u used] H; cbn in H; try discriminate.
  - injection H as ->. split; reflexivity.
  - destruct (IH used H) as [H1 H2]. unfold cnt in *. cbn. destruct u; cbn; rewrite ?H1, ?H2; split; reflexivity.
Qed.

Lemma jaro_scan_cnt t win : forall s used i,
  cnt (snd (jaro_scan s t used win i)) = cnt used + length (fst (jaro_scan s t used win i)) /\
  length (snd (jaro_scan s t used win i)) = length used /\
  length (fst (jaro_scan s t used win i)) <= length s.
Proof.
  induction s as [|c s IH]; intros used i; cbn [jaro_scan].
  - cbn [fst snd length]. repeat split; lia.
  - destruct (find_match c t used (i - win) (i + win) 0) as [j|] eqn:E.
    + apply find_match_spec in E as (k & -> & Hk). cbn [Nat.add] in *.
      destruct (set_nth_cnt k used Hk) as [C1 C2].
      destruct (IH (set_nth k used) (S i)) as (H1 & H2 & H3). cbn [fst snd length].
      rewrite H1, H2, C1, C2. repeat split; lia.
    + destruct (IH used (S i)) as (H1 & H2 & H3). cbn [length]. repeat split; try assumption; lia.
Qed.

Lemma mismatches_le a : forall b, mismatches a b <= length a.
Proof.
  induction a as [|x a IH]; intros [|y b]; cbn; try lia. specialize (IH b). destruct (Ascii.eqb x y); lia.
Qed.

Lemma cnt_all_false {A} (t : list A) : cnt (map (fun _ => false) t) = 0 /\ length (map (fun _ : A => false) t) = length t.
Proof. split; [induction t; cbn; auto|apply map_length]. Qed.

Lemma qnat_ratio a b : (0 < b)%nat -> (a <= b)%nat ->
  (0 <= inject_Z (Z.of_nat a) / inject_Z (Z.of_nat b) <= 1)%Q.
Proof.
  intros Hb Hab.
  assert (Pb : (0 < inject_Z (Z.of_nat b))%Q) by (change 0%Q with (inject_Z 0); rewrite <- Zlt_Qlt; lia).
  assert (Pa : (0 <= inject_Z (Z.of_nat a))%Q) by (change 0%Q with (inject_Z 0); rewrite <- Zle_Qle; lia).
  assert (Pab : (inject_Z (Z.of_nat a) <= inject_Z (Z.of_nat b))%Q) by (rewrite <- Zle_Qle; lia).
  split.
  - apply Qle_shift_div_l; [exact Pb|]. now rewrite Qmult_0_l.
  - apply Qle_shift_div_r; [exact Pb|]. now rewrite Qmult_1_l.
Qed.

Lemma jaro_list_range s t : (0 <= jaro_list s t <= 1)%Q.
Proof.
  unfold jaro_list.
  destruct (Nat.eqb (length s) 0 || Nat.eqb (length t) 0)%bool eqn:E0; [split; discriminate|].
  apply orb_false_iff in E0 as [Es Et]. apply Nat.eqb_neq in Es. apply Nat.eqb_neq in Et.
  set (win := Nat.max (length s) (length t) / 2 - 1).
  set (r := jaro_scan s t (map (fun _ => false) t) win 0).
  destruct (jaro_scan_cnt t win s (map (fun _ => false) t) 0) as (H1 & H2 & H3). fold r in H1, H2, H3.
  destruct (cnt_all_false t) as [C0 L0]. rewrite C0 in H1. rewrite L0 in H2. cbn [Nat.add] in H1.
  set (m := length (fst r)) in *.
  destruct (Nat.eqb m 0) eqn:Em; [split; discriminate|]. apply Nat.eqb_neq in Em.
  assert (Hmt : m <= length t).
  { rewrite <- H1, <- H2. unfold cnt. apply filter_len_le. }
  set (tr := mismatches (fst r) (select t (snd r)) / 2).
  assert (Htr : tr <= m).
  { unfold tr. pose proof (mismatches_le (fst r) (select t (snd r))). fold m in H.
    pose proof (Nat.div_le_upper_bound (mismatches (fst r) (select t (snd r))) 2 m). lia. }
  rewrite Qred_correct.
  pose proof (qnat_ratio m (length s)) as R1. pose proof (qnat_ratio m (length t)) as R2.
  pose proof (qnat_ratio (m - tr) m) as R3.
  assert (E3 : (inject_Z (Z.of_nat m) - inject_Z (Z.of_nat tr) == inject_Z (Z.of_nat (m - tr)))%Q).
  { rewrite Nat2Z.inj_sub by exact Htr. now rewrite inject_Z_minus. }
  destruct R1 as [A1 B1]; [lia|exact H3|]. destruct R2 as [A2 B2]; [lia|exact Hmt|]. destruct R3 as [A3 B3]; [lia|lia|].
  rewrite <- E3 in A3, B3.
  generalize dependent (inject_Z (Z.of_nat m) / inject_Z (Z.of_nat (length s)))%Q. intros x A1 B1.
  generalize dependent (inject_Z (Z.of_nat m) / inject_Z (Z.of_nat (length t)))%Q. intros y A2 B2.
  generalize dependent ((inject_Z (Z.of_nat m) - inject_Z (Z.of_nat tr)) / inject_Z (Z.of_nat m))%Q. intros z A3 B3.
  split.
  - apply Qle_shift_div_l; [reflexivity|]. lra.
  - apply Qle_shift_div_r; [reflexivity|]. lra.
Qed.

Lemma jaro_range a b : (0 <= jaro a b <= 1)%Q.
Proof. apply jaro_list_range. Qed.

Lemma jaro_winkler_ge_jaro a b : (jaro a b <= jaro_winkler a b)%Q /\ (jaro_winkler a b <= 1)%Q.
Proof.
  unfold jaro_winkler. destruct (jaro_range a b) as [J0 J1].
  destruct (Qle_bool (jaro a b) (7 # 10)); [split; [apply Qle_refl|exact J1]|].
  rewrite Qred_correct.
  set (l := common_prefix (list_ascii_of_string a) (list_ascii_of_string b) 4).
  assert (Hl : l <= 4).
  { unfold l. generalize (list_ascii_of_string a) (list_ascii_of_string b). generalize 4.
    induction n as [|n IH]; intros [|x u] [|y v]; cbn; try lia. destruct (Ascii.eqb x y); [specialize (IH u v)|]; lia. }
  assert (L0 : (0 <= inject_Z (Z.of_nat l))%Q) by (change 0%Q with (inject_Z 0); rewrite <- Zle_Qle; lia).
  assert (L4 : (inject_Z (Z.of_nat l) <= 4)%Q) by (change 4%Q with (inject_Z 4); rewrite <- Zle_Qle; lia).
  split; nra.
Qed.

(* ------------------------------------------------------------------ null level = units over the compared columns *)
Lemma isnull_arg_some e x : isnull_arg e = Some x -> e = EIsNull x.
Proof. destruct e; cbn; try discriminate. now intros [= ->]. Qed.

Lemma comb_some {A} (x y : option (list A)) us : comb x y = Some us -> exists a b, x = Some a /\ y = Some b /\ us = a ++ b.
Proof. destruct x, y; cbn; try discriminate. intros [= <-]. eauto. Qed.

(* every tested value present -> the null level is FALSE; in every unit a value missing -> TRUE *)
Lemma null_units_sem P fenv env e : forall us, null_units e = Some us ->
  ((forall u, In u us -> eval P fenv env (fst u) <> VNull /\ eval P fenv env (snd u) <> VNull) -> sem P fenv env e = F) /\
  ((forall u, In u us -> eval P fenv env (fst u) = VNull \/ eval P fenv env (snd u) = VNull) -> sem P fenv env e = T).
Proof.
  induction e using expr_ind2; cbn [null_units]; intros us Hnu; try discriminate.
  - (* and *)
    apply comb_some in Hnu as (a & b & Ha & Hb & ->). destruct (IHe1 a Ha) as [F1 T1]. destruct (IHe2 b Hb) as [F2 T2].
    rewrite sem_and. split; intros Hu.
    + rewrite F1 by (intros u Hin; apply Hu, in_or_app; now left). reflexivity.
    + rewrite T1, T2; [reflexivity| |]; intros u Hin; apply Hu, in_or_app; [now right|now left].
  - (* or *)
    destruct (isnull_arg e1) as [x|] eqn:E1; [destruct (isnull_arg e2) as [y|] eqn:E2|].
    + injection Hnu as <-. apply isnull_arg_some in E1. apply isnull_arg_some in E2. subst e1 e2.
      rewrite sem_or, !sem_isnull. split; intros Hu.
      * destruct (Hu _ (or_introl eq_refl)) as [A B]. cbn [fst snd] in A, B. rewrite eval_strip in A, B.
        destruct (eval P fenv env x), (eval P fenv env y); try reflexivity; congruence.
      * destruct (Hu _ (or_introl eq_refl)) as [A|A]; cbn [fst snd] in A; rewrite eval_strip in A; rewrite A; cbn;
          [reflexivity|destruct (is_null (eval P fenv env x)); reflexivity].
    + apply comb_some in Hnu as (a & b & Ha & Hb & ->). destruct (IHe1 a Ha) as [F1 T1]. destruct (IHe2 b Hb) as [F2 T2].
      rewrite sem_or. split; intros Hu.
      * rewrite F1, F2; [reflexivity| |]; intros u Hin; apply Hu, in_or_app; [now right|now left].
      * rewrite T1 by (intros u Hin; apply Hu, in_or_app; now left). reflexivity.
    + apply comb_some in Hnu as (a & b & Ha & Hb & ->). destruct (IHe1 a Ha) as [F1 T1]. destruct (IHe2 b Hb) as [F2 T2].
      rewrite sem_or. split; intros Hu.
      * rewrite F1, F2; [reflexivity| |]; intros u Hin; apply Hu, in_or_app; [now right|now left].
      * rewrite T1 by (intros u Hin; apply Hu, in_or_app; now left). reflexivity.
  - (* paren *) rewrite sem_paren. auto.
Qed.

Lemma null_level_ok_sound ls : null_level_ok ls = true ->
  exists e0 rest us, ls = {| l_null := l_null (hd {| l_null := true; l_cond := None |} ls); l_cond := Some e0 |} :: rest /\
    null_units e0 = Some us /\ us <> [] /\
    forall u, In u us ->
      set_side true (fst u) = fst u /\ snd u = set_side false (fst u) /\ col_names (fst u) <> [] /\
      forall c, In c (col_names (fst u)) -> In c (flat_map col_names (conds rest)).
Proof.
  destruct ls as [|[n0 c0] rest]; [discriminate|]. unfold null_level_ok. cbn [l_cond hd l_null].
  destruct c0 as [e0|]; [|discriminate]. destruct (null_units e0) as [us|] eqn:E; [|discriminate].
  intros H. apply andb_true_iff in H as [Hne Hall]. exists e0, rest, us. split; [reflexivity|]. split; [exact E|]. split.
  - destruct us; [discriminate|discriminate].
  - intros u Hu. rewrite forallb_forall in Hall. specialize (Hall u Hu). unfold unit_ok in Hall.
    repeat match goal with H : _ && _ = true |- _ => apply andb_true_iff in H as [H ?] end.
    apply expr_eqb_eq in Hall. apply expr_eqb_eq in H1. split; [exact Hall|]. split; [now symmetry|]. split.
    + destruct (col_names (fst u)); [discriminate|discriminate].
    + intros c Hc. rewrite forallb_forall in H. specialize (H c Hc). apply existsb_exists in H as (c' & Hin & Ec).
      apply String.eqb_eq in Ec. now subst.
Qed.
