(* Proofs about Model/Cache.v (C07).  Everything is proved for an arbitrary key type K with a
   decidable equality and an arbitrary injective [hash] (Section hypotheses keqb_spec, hash_inj). *)
From Coq Require Import List Bool Arith String Lia.
From Splinkv Require Import Model.Cache.
Import ListNotations.
Open Scope string_scope.
Open Scope list_scope.

(* ------------------------------------------------------------------ induction on SQL trees *)
Section SqltInd.
  Variable P : sqlt -> Prop.
  Hypothesis HLeaf : forall l, P (Leaf l).
  Hypothesis HMat : forall t, P t -> P (Mat t).
  Hypothesis HCte : forall n p ch, Forall P ch -> P (Cte n p ch).
  Fixpoint sqlt_ind' (t : sqlt) : P t :=
    match t with
    | Leaf l => HLeaf l
    | Mat t' => HMat t' (sqlt_ind' t')
    | Cte n p ch =>
        HCte n p ch ((fix go (l : list sqlt) : Forall P l :=
                        match l with
                        | [] => Forall_nil P
                        | x :: r => Forall_cons x (sqlt_ind' x) (go r)
                        end) ch)
    end.
End SqltInd.

Lemma lname_eqb_spec a b : lname_eqb a b = true <-> a = b.
Proof.
  destruct a, b; cbn; try (split; [discriminate | congruence]).
  - rewrite String.eqb_eq. split; congruence.
  - rewrite andb_true_iff, String.eqb_eq, Nat.eqb_eq. split; [intros []; congruence | intros H; inversion H; auto].
Qed.

Lemma lname_eqb_refl a : lname_eqb a a = true.
Proof. apply lname_eqb_spec. reflexivity. Qed.

Lemma sqlt_eqb_spec : forall a b, sqlt_eqb a b = true <-> a = b.
Proof.
  induction a using sqlt_ind'; destruct b; cbn; try (split; [discriminate | congruence]).
  - rewrite lname_eqb_spec. split; congruence.
  - rewrite IHa. split; congruence.
  - rewrite !andb_true_iff, String.eqb_eq, Nat.eqb_eq.
    assert (Hl : forall y,
      (fix go (x y : list sqlt) : bool :=
         match x, y with [], [] => true | a :: x', b :: y' => sqlt_eqb a b && go x' y' | _, _ => false end) ch y = true
      <-> ch = y).
    { induction H; intros y; destruct y; cbn.
      - split; auto.
      - split; [discriminate | congruence].
      - split; [discriminate | congruence].
      - rewrite andb_true_iff, H, IHForall. split; [intros []; congruence | intros E; inversion E; auto]. }
    rewrite Hl. split; [intros [[] ?]; congruence | intros E; inversion E; auto].
Qed.

(* the instance used by the harness and by the refutation theorems: the key IS the pair *)
Definition KI := (sqlt * nat)%type.
Definition keqbI (a b : KI) : bool := sqlt_eqb (fst a) (fst b) && Nat.eqb (snd a) (snd b).
Definition hashI (t : sqlt) (u : nat) : KI := (t, u).
Lemma keqbI_spec a b : keqbI a b = true <-> a = b.
Proof.
  destruct a, b. unfold keqbI. cbn. rewrite andb_true_iff, sqlt_eqb_spec, Nat.eqb_eq.
  split; [intros []; congruence | intros E; inversion E; auto].
Qed.
Lemma hashI_inj t u t' u' : hashI t u = hashI t' u' -> t = t' /\ u = u'.
Proof. unfold hashI. intros E. inversion E. auto. Qed.

Section Proofs.
  Variable K : Type.
  Variable keqb : K -> K -> bool.
  Variable hash : sqlt -> nat -> K.
  Hypothesis keqb_spec : forall a b, keqb a b = true <-> a = b.
  Hypothesis hash_inj : forall t u t' u', hash t u = hash t' u' -> t = t' /\ u = u'.

  Local Notation pname := (pname K).
  Local Notation state := (state K).
  Local Notation handle := (handle K).
  Local Notation PL := (PL K).
  Local Notation PH := (PH K).
  Local Notation pname_eqb := (pname_eqb K keqb).
  Local Notation aget := (aget K keqb).
  Local Notation aset := (aset K keqb).
  Local Notation aremove := (aremove K keqb).
  Local Notation amem := (amem K keqb).
  Local Notation content := (content K keqb).
  Local Notation denote := (denote K keqb).
  Local Notation eval := (eval K keqb hash).
  Local Notation direct_refs := (direct_refs K hash).
  Local Notation named := (named K).

  (* ---------------------------------------------------------------- names and association lists *)
  Lemma pname_eqb_spec a b : pname_eqb a b = true <-> a = b.
  Proof.
    destruct a, b; cbn; try (split; [discriminate | congruence]).
    - rewrite lname_eqb_spec. split; congruence.
    - rewrite andb_true_iff, String.eqb_eq, keqb_spec. split; [intros []; congruence | intros E; inversion E; auto].
  Qed.
  Lemma pname_eqb_refl a : pname_eqb a a = true.
  Proof. apply pname_eqb_spec. reflexivity. Qed.
  Lemma pname_eqb_neq a b : a <> b -> pname_eqb a b = false.
  Proof. intros H. destruct (pname_eqb a b) eqn:E; auto. apply pname_eqb_spec in E. contradiction. Qed.
  Lemma pname_eq_dec (a b : pname) : {a = b} + {a <> b}.
  Proof.
    destruct (pname_eqb a b) eqn:E; [left; apply pname_eqb_spec; auto | right; intros ->; rewrite pname_eqb_refl in E; discriminate].
  Qed.

  Section Assoc.
    Context {V : Type}.
    Implicit Types l : list (pname * V).

    Lemma aget_aremove_same l k : aget (aremove l k) k = None.
    Proof.
      unfold Cache.aremove. induction l as [|[k' v] r IH]; cbn; auto.
      destruct (pname_eqb k' k) eqn:E; cbn; auto. rewrite E. auto.
    Qed.
    Lemma aget_aremove_other l k k' : k' <> k -> aget (aremove l k) k' = aget l k'.
    Proof.
      intros Hne. unfold Cache.aremove. induction l as [|[k0 v] r IH]; cbn; auto.
      destruct (pname_eqb k0 k) eqn:E; cbn.
      - apply pname_eqb_spec in E. subst. rewrite pname_eqb_neq by congruence. auto.
      - rewrite IH. auto.
    Qed.
    Lemma aget_aset_same l k v : aget (aset l k v) k = Some v.
    Proof. unfold Cache.aset. cbn. rewrite pname_eqb_refl. auto. Qed.
    Lemma aget_aset_other l k v k' : k' <> k -> aget (aset l k v) k' = aget l k'.
    Proof.
      intros Hne. unfold Cache.aset. cbn. rewrite pname_eqb_neq by congruence. apply aget_aremove_other. auto.
    Qed.
    Lemma aget_aset l k v k' : aget (aset l k v) k' = if pname_eqb k k' then Some v else aget l k'.
    Proof.
      destruct (pname_eqb k k') eqn:E.
      - apply pname_eqb_spec in E. subst. apply aget_aset_same.
      - apply aget_aset_other. intros ->. rewrite pname_eqb_refl in E. discriminate.
    Qed.
    Lemma aget_aremove l k k' : aget (aremove l k) k' = if pname_eqb k k' then None else aget l k'.
    Proof.
      destruct (pname_eqb k k') eqn:E.
      - apply pname_eqb_spec in E. subst. apply aget_aremove_same.
      - apply aget_aremove_other. intros ->. rewrite pname_eqb_refl in E. discriminate.
    Qed.
    Lemma aget_In l k v : aget l k = Some v -> In (k, v) l.
    Proof.
      induction l as [|[k' v'] r IH]; cbn; [discriminate|].
      destruct (pname_eqb k' k) eqn:E; [apply pname_eqb_spec in E; intros H; inversion H; subst; auto | auto].
    Qed.
    Lemma aget_In_key l k v : aget l k = Some v -> In k (map fst l).
    Proof. intros H. apply aget_In in H. apply (in_map fst) in H. exact H. Qed.
    Lemma aget_None_notin l k : aget l k = None -> ~ In k (map fst l).
    Proof.
      induction l as [|[k' v'] r IH]; cbn; [tauto|].
      destruct (pname_eqb k' k) eqn:E; [discriminate|]. intros H [->|Hin]; [rewrite pname_eqb_refl in E; discriminate | apply IH; auto].
    Qed.
    Lemma In_key_aget l k : In k (map fst l) -> exists v, aget l k = Some v.
    Proof.
      intros Hin. destruct (aget l k) eqn:E; [eauto|]. apply aget_None_notin in E. contradiction.
    Qed.
    Lemma keys_aremove l k : forall x, In x (map fst (aremove l k)) -> In x (map fst l) /\ x <> k.
    Proof.
      intros x. unfold Cache.aremove. rewrite in_map_iff. intros [[k0 v] [<- Hin]].
      apply filter_In in Hin. destruct Hin as [Hin Hf]. cbn in *. split; [apply (in_map fst) in Hin; auto|].
      intros ->. rewrite pname_eqb_refl in Hf. discriminate.
    Qed.
    Lemma NoDup_keys_filter (f : pname * V -> bool) l : NoDup (map fst l) -> NoDup (map fst (filter f l)).
    Proof.
      induction l as [|[k v] r IH]; cbn; auto. intros H. inversion H; subst.
      destruct (f (k, v)); cbn; auto. constructor; auto.
      intros Hin. apply H2. apply in_map_iff in Hin. destruct Hin as [x [<- Hx]]. apply filter_In in Hx.
      apply in_map. tauto.
    Qed.
    Lemma NoDup_keys_aset l k v : NoDup (map fst l) -> NoDup (map fst (aset l k v)).
    Proof.
      intros H. unfold Cache.aset. cbn. constructor.
      - intros Hin. apply keys_aremove in Hin. tauto.
      - apply NoDup_keys_filter. auto.
    Qed.
    (* filtering on values keeps the dictionary view when keys are unique *)
    Lemma aget_filter (f : pname * V -> bool) l k :
      NoDup (map fst l) ->
      aget (filter f l) k = match aget l k with Some v => if f (k, v) then Some v else None | None => None end.
    Proof.
      induction l as [|[k' v'] r IH]; cbn; auto. intros H. inversion H; subst.
      destruct (pname_eqb k' k) eqn:E.
      - apply pname_eqb_spec in E. subst. destruct (f (k, v')) eqn:Ef; cbn.
        + rewrite pname_eqb_refl. auto.
        + rewrite IH by auto. destruct (aget r k) eqn:Er; auto. apply aget_In_key in Er. contradiction.
      - destruct (f (k', v')); cbn; [rewrite E|]; apply IH; auto.
    Qed.
  End Assoc.

  Lemma amem_aset {V} (l : list (pname * V)) k v k' : amem (aset l k v) k' = pname_eqb k k' || amem l k'.
  Proof. unfold Cache.amem. rewrite aget_aset. destruct (pname_eqb k k'); auto. Qed.
  Lemma amem_aremove {V} (l : list (pname * V)) k k' : amem (aremove l k) k' = negb (pname_eqb k k') && amem l k'.
  Proof. unfold Cache.amem. rewrite aget_aremove. destruct (pname_eqb k k'); auto. Qed.
  Lemma amem_true {V} (l : list (pname * V)) k : amem l k = true <-> exists v, aget l k = Some v.
  Proof. unfold Cache.amem. destruct (aget l k); split; eauto; try discriminate. intros [? ?]. discriminate. Qed.

  Lemma content_aset_other db k e k' : k' <> k -> content (aset db k e) k' = content db k'.
  Proof. intros. unfold Cache.content. rewrite aget_aset_other; auto. Qed.
  Lemma content_aremove_other db k k' : k' <> k -> content (aremove db k) k' = content db k'.
  Proof. intros. unfold Cache.content. rewrite aget_aremove_other; auto. Qed.
  (* ---------------------------------------------------------------- denotation *)
  Fixpoint leaves (t : sqlt) : list lname :=
    match t with Leaf l => [l] | Mat t' => leaves t' | Cte _ _ ch => flat_map leaves ch end.

  Lemma denote_ext db1 db2 t :
    (forall l, In l (leaves t) -> content db1 (PL l) = content db2 (PL l)) -> denote db1 t = denote db2 t.
  Proof.
    induction t using sqlt_ind'; cbn; intros Hl.
    - apply Hl. cbn. auto.
    - auto.
    - f_equal. apply map_ext_in. intros x Hx. rewrite Forall_forall in H. apply H; auto.
      intros l Hin. apply Hl. apply in_flat_map. eauto.
  Qed.

  Definition same_leaves (db1 db2 : db_t K) : Prop := forall l, aget db1 (PL l) = aget db2 (PL l).
  Lemma denote_same_leaves db1 db2 t : same_leaves db1 db2 -> denote db1 t = denote db2 t.
  Proof. intros H. apply denote_ext. intros l _. unfold Cache.content. rewrite H. auto. Qed.

  (* every hashed table of the database holds what its SQL denotes under the current leaves,
     and every leaf its SQL mentions is registered *)
  Definition sound (uid : nat) (db : db_t K) : Prop :=
    forall n k e, aget db (PH n k) = Some e ->
      exists t, k = hash t uid /\ n = name_of t /\ e_prov e = denote db t /\
                forall l, In l (leaves t) -> amem db (PL l) = true.

  Lemma eval_denote uid db t :
    sound uid db -> forallb (amem db) (direct_refs uid t) = true ->
    eval uid db t = denote db t /\ forall l, In l (leaves t) -> amem db (PL l) = true.
  Proof.
    intros Hs. induction t using sqlt_ind'; cbn; intros Hr.
    - rewrite andb_true_r in Hr. split; auto. intros l0 [<-|[]]. auto.
    - rewrite andb_true_r in Hr. apply amem_true in Hr. destruct Hr as [e He].
      destruct (Hs _ _ _ He) as (t' & Hk & _ & Hp & Hl). apply hash_inj in Hk. destruct Hk as [<- _].
      unfold Cache.content. rewrite He. auto.
    - rewrite forallb_forall in Hr. rewrite Forall_forall in H.
      assert (Hc : forall x, In x ch -> forallb (amem db) (direct_refs uid x) = true).
      { intros x Hx. apply forallb_forall. intros y Hy. apply Hr. apply in_flat_map. eauto. }
      split.
      + f_equal. apply map_ext_in. intros x Hx. apply H; auto.
      + intros l Hin. apply in_flat_map in Hin. destruct Hin as (x & Hx & Hlx). eapply H; eauto.
  Qed.

  Lemma sound_same_leaves_entry uid db db' :
    sound uid db -> same_leaves db db' ->
    (forall n k e, aget db' (PH n k) = Some e -> aget db (PH n k) = Some e) -> sound uid db'.
  Proof.
    intros Hs Hl Hsub n k e He. apply Hsub in He. destruct (Hs _ _ _ He) as (t & ? & ? & Hp & Hlv).
    exists t. repeat split; auto.
    - rewrite Hp. apply denote_same_leaves. auto.
    - intros l Hin. specialize (Hlv l Hin). unfold Cache.amem in *. rewrite <- Hl. auto.
  Qed.

  (* ---------------------------------------------------------------- structural invariant *)
  Definition cbs_hashed (h : handle) : Prop := h_cbs K h = true -> is_hashed K (h_phys K h) = true.

  Record InvS (s : state) : Prop := {
    iv_nodup : NoDup (map fst (st_cache K s));
    iv_cache_h : forall n k h, aget (st_cache K s) (PH n k) = Some h ->
        h_phys K h = PH n k /\ h_cbs K h = true /\ amem (st_db K s) (PH n k) = true /\
        exists t, h_src K h = Mat t /\ k = hash t (st_uid K s) /\ n = name_of t;
    iv_cache_cbs : forall key h, aget (st_cache K s) key = Some h -> cbs_hashed h;
    iv_db_h : forall n k, amem (st_db K s) (PH n k) = true -> amem (st_cache K s) (PH n k) = true;
    iv_fresh : forall b u, amem (st_db K s) (PL (LUid b u)) = true -> u < st_ctr K s;
    iv_luid : st_luid K s < st_ctr K s;
    iv_inputs : forall l, In l (st_inputs K s) -> amem (st_db K s) (PL l) = true;
    iv_nodebug : st_debug K s = false
  }.

  Definition Sound (s : state) : Prop := sound (st_uid K s) (st_db K s).
  Definition no_hashed (s : state) : Prop := forall n k, amem (st_db K s) (PH n k) = false.

  Lemma no_hashed_sound s : no_hashed s -> Sound s.
  Proof. intros H n k e He. specialize (H n k). unfold Cache.amem in H. rewrite He in H. discriminate. Qed.

  (* ---------------------------------------------------------------- drop_handle *)
  Lemma drop_handle_fst s h :
    fst (drop_handle K keqb s h) =
    if h_cbs K h then set_cache K (set_db K s (aremove (st_db K s) (h_phys K h)))
                                (cache_remove_phys K keqb (st_cache K s) (h_phys K h)) else s.
  Proof. unfold drop_handle. destruct (h_cbs K h); auto. Qed.

  Lemma drop_handle_InvS s h : InvS s -> cbs_hashed h -> InvS (fst (drop_handle K keqb s h)).
  Proof.
    intros I Hh. rewrite drop_handle_fst. destruct (h_cbs K h) eqn:Ec; auto.
    specialize (Hh Ec). destruct (h_phys K h) as [l|n0 k0] eqn:Ep; [discriminate|].
    destruct I. constructor; cbn; auto.
    - apply NoDup_keys_filter. auto.
    - intros n k h' Hg. unfold cache_remove_phys in Hg. rewrite aget_filter in Hg by auto.
      destruct (aget (st_cache K s) (PH n k)) as [h''|] eqn:Eg; [|discriminate].
      cbn in Hg. destruct (pname_eqb (h_phys K h'') (PH n0 k0)) eqn:Ee; [discriminate|]. inversion Hg; subst h''.
      destruct (iv_cache_h0 _ _ _ Eg) as (Hp & Hc & Hm & Ht). repeat split; auto.
      rewrite amem_aremove, Hm. rewrite Hp in Ee.
      destruct (pname_eqb (PH n0 k0) (PH n k)) eqn:E2; auto. apply pname_eqb_spec in E2. rewrite E2, pname_eqb_refl in Ee. discriminate.
    - intros key h' Hg. unfold cache_remove_phys in Hg. rewrite aget_filter in Hg by auto.
      destruct (aget (st_cache K s) key) as [h''|] eqn:Eg; [|discriminate].
      destruct (negb _); inversion Hg; subst. eauto.
    - intros n k Hm. rewrite amem_aremove in Hm. apply andb_true_iff in Hm. destruct Hm as [Hne Hm].
      specialize (iv_db_h0 _ _ Hm). apply amem_true in iv_db_h0. destruct iv_db_h0 as [h' Hg].
      apply amem_true. exists h'. unfold cache_remove_phys. rewrite aget_filter by auto. rewrite Hg. cbn.
      destruct (iv_cache_h0 _ _ _ Hg) as (Hp & _). rewrite Hp.
      destruct (pname_eqb (PH n k) (PH n0 k0)) eqn:E2; auto.
      apply pname_eqb_spec in E2. rewrite E2, pname_eqb_refl in Hne. discriminate.
    - intros b u Hm. rewrite amem_aremove in Hm. apply andb_true_iff in Hm. destruct Hm. eauto.
    - intros l Hin. rewrite amem_aremove. cbn. auto.
  Qed.

  Lemma drop_handle_sound s h : Sound s -> cbs_hashed h -> Sound (fst (drop_handle K keqb s h)).
  Proof.
    intros Hs Hh. rewrite drop_handle_fst. destruct (h_cbs K h) eqn:Ec; auto.
    specialize (Hh Ec). destruct (h_phys K h) as [l|n0 k0] eqn:Ep; [discriminate|].
    unfold Sound in *. cbn. eapply sound_same_leaves_entry; eauto.
    - intros l. rewrite aget_aremove_other; auto. discriminate.
    - intros n k e. rewrite aget_aremove. destruct (pname_eqb (PH n0 k0) (PH n k)); [discriminate|auto].
  Qed.

  Lemma drop_handle_db_shrinks s h p :
    amem (st_db K (fst (drop_handle K keqb s h))) p = true -> amem (st_db K s) p = true.
  Proof.
    rewrite drop_handle_fst. destruct (h_cbs K h); auto. cbn. rewrite amem_aremove.
    intros H. apply andb_true_iff in H. tauto.
  Qed.
  Lemma drop_handle_fields s h :
    let s' := fst (drop_handle K keqb s h) in
    st_inputs K s' = st_inputs K s /\ st_tfcols K s' = st_tfcols K s /\ st_params K s' = st_params K s /\
    st_uid K s' = st_uid K s /\ st_luid K s' = st_luid K s /\ st_ctr K s' = st_ctr K s /\
    st_debug K s' = st_debug K s /\ st_fix K s' = st_fix K s.
  Proof. cbn. rewrite drop_handle_fst. destruct (h_cbs K h); cbn; repeat split; auto. Qed.

  (* ---------------------------------------------------------------- delete_tables / invalidate *)
  Lemma delete_step_InvS s k : InvS s -> InvS (delete_step K keqb s k).
  Proof.
    intros I. unfold delete_step. destruct (aget (st_cache K s) k) eqn:E; auto.
    destruct (h_cbs K h && pname_eqb k (h_phys K h)); auto.
    apply drop_handle_InvS; auto. eapply iv_cache_cbs; eauto.
  Qed.
  Lemma delete_step_sound s k : InvS s -> Sound s -> Sound (delete_step K keqb s k).
  Proof.
    intros I Hs. unfold delete_step. destruct (aget (st_cache K s) k) eqn:E; auto.
    destruct (h_cbs K h && pname_eqb k (h_phys K h)); auto.
    apply drop_handle_sound; auto. eapply iv_cache_cbs; eauto.
  Qed.
  Lemma delete_step_shrinks s k p :
    amem (st_db K (delete_step K keqb s k)) p = true -> amem (st_db K s) p = true.
  Proof.
    unfold delete_step. destruct (aget (st_cache K s) k); auto.
    destruct (h_cbs K h && pname_eqb k (h_phys K h)); auto. apply drop_handle_db_shrinks.
  Qed.
  Lemma delete_step_removes s n k : InvS s -> amem (st_db K (delete_step K keqb s (PH n k))) (PH n k) = false.
  Proof.
    intros I. unfold delete_step. destruct (aget (st_cache K s) (PH n k)) as [h|] eqn:E.
    - destruct (iv_cache_h _ I _ _ _ E) as (Hp & Hc & _). rewrite Hc, Hp, pname_eqb_refl. cbn.
      rewrite drop_handle_fst, Hc. cbn. rewrite Hp, amem_aremove, pname_eqb_refl. auto.
    - destruct (amem (st_db K s) (PH n k)) eqn:Em; auto.
      apply (iv_db_h _ I) in Em. unfold Cache.amem in Em. rewrite E in Em. discriminate.
  Qed.

  Lemma delete_fold keys : forall s, InvS s ->
    let s' := fold_left (delete_step K keqb) keys s in
    InvS s' /\ (Sound s -> Sound s') /\
    (forall p, amem (st_db K s') p = true -> amem (st_db K s) p = true) /\
    (forall n k, In (PH n k) keys -> amem (st_db K s') (PH n k) = false).
  Proof.
    induction keys as [|k0 r IH]; cbn; intros s I.
    - split; [auto|split; [auto|split; [auto|]]]. intros ? ? [].
    - destruct (IH (delete_step K keqb s k0) (delete_step_InvS _ _ I)) as (I' & Hs' & Hsh & Hrm).
      split; [auto|split; [|split]].
      + intros Hs. apply Hs'. apply delete_step_sound; auto.
      + intros p Hp. eapply delete_step_shrinks. eauto.
      + intros n k [->|Hin]; auto.
        destruct (amem _ (PH n k)) eqn:Em; auto. apply Hsh in Em. rewrite delete_step_removes in Em; auto.
  Qed.

  Lemma delete_step_fields s k :
    let s' := delete_step K keqb s k in
    st_inputs K s' = st_inputs K s /\ st_tfcols K s' = st_tfcols K s /\ st_params K s' = st_params K s /\
    st_uid K s' = st_uid K s /\ st_luid K s' = st_luid K s /\ st_ctr K s' = st_ctr K s /\
    st_debug K s' = st_debug K s /\ st_fix K s' = st_fix K s.
  Proof.
    cbn. unfold delete_step. destruct (aget (st_cache K s) k); [|repeat split; auto].
    destruct (h_cbs K h && pname_eqb k (h_phys K h)); [apply drop_handle_fields|repeat split; auto].
  Qed.
  Lemma delete_fold_fields keys : forall s,
    let s' := fold_left (delete_step K keqb) keys s in
    st_inputs K s' = st_inputs K s /\ st_tfcols K s' = st_tfcols K s /\ st_params K s' = st_params K s /\
    st_uid K s' = st_uid K s /\ st_luid K s' = st_luid K s /\ st_ctr K s' = st_ctr K s /\
    st_debug K s' = st_debug K s /\ st_fix K s' = st_fix K s.
  Proof.
    induction keys as [|k0 r IH]; cbn; intros s; [repeat split; auto|].
    specialize (IH (delete_step K keqb s k0)). cbn in IH.
    pose proof (delete_step_fields s k0) as F. cbn in F.
    destruct IH as (a1&a2&a3&a4&a5&a6&a7&a8). destruct F as (b1&b2&b3&b4&b5&b6&b7&b8).
    repeat split; congruence.
  Qed.

  Lemma delete_tables_spec s : InvS s ->
    InvS (delete_tables K keqb s) /\ (Sound s -> Sound (delete_tables K keqb s)) /\ no_hashed (delete_tables K keqb s) /\
    (forall p, amem (st_db K (delete_tables K keqb s)) p = true -> amem (st_db K s) p = true).
  Proof.
    intros I. unfold delete_tables. destruct (delete_fold (map fst (st_cache K s)) s I) as (I' & Hs & Hsh & Hrm).
    split; [auto|split; [auto|split; [|auto]]]. intros n k.
    destruct (amem _ (PH n k)) eqn:Em; auto. pose proof (Hsh _ Em) as Hd. apply (iv_db_h _ I) in Hd.
    apply amem_true in Hd. destruct Hd as [h Hg]. apply aget_In_key in Hg. rewrite Hrm in Em; auto.
  Qed.

  Lemma InvS_set_luid_ctr s : InvS s -> InvS (set_luid_ctr K s (st_ctr K s) (S (st_ctr K s))).
  Proof.
    intros []. constructor; cbn; auto. intros b u H. apply iv_fresh0 in H. lia.
  Qed.

  Lemma invalidate_spec s : InvS s -> InvS (invalidate K keqb s) /\ no_hashed (invalidate K keqb s).
  Proof.
    intros I. unfold invalidate. destruct (st_cache K s) eqn:Ec.
    - split; auto. intros n k. destruct (amem (st_db K s) (PH n k)) eqn:Em; auto.
      apply (iv_db_h _ I) in Em. rewrite Ec in Em. discriminate.
    - clear Ec.
      destruct (delete_tables_spec _ (InvS_set_luid_ctr _ I)) as (I' & _ & Hn & _).
      split.
      + destruct I'. constructor; cbn; auto.
        * constructor.
        * intros n k h. discriminate.
        * intros key h. discriminate.
        * intros n k Hm. rewrite Hn in Hm. discriminate.
      + exact Hn.
  Qed.
  Lemma invalidate_fields s :
    let s' := invalidate K keqb s in
    st_inputs K s' = st_inputs K s /\ st_tfcols K s' = st_tfcols K s /\ st_params K s' = st_params K s /\
    st_uid K s' = st_uid K s /\ st_debug K s' = st_debug K s /\ st_fix K s' = st_fix K s.
  Proof.
    cbn. unfold invalidate. destruct (st_cache K s) eqn:Ec; [repeat split; auto|].
    unfold delete_tables. set (x := set_luid_ctr K s (st_ctr K s) (S (st_ctr K s))).
    pose proof (delete_fold_fields (map fst (st_cache K x)) x) as F. cbn in F.
    destruct F as (a1&a2&a3&a4&a5&a6&a7&a8). cbn. repeat split; auto.
  Qed.

  (* ---------------------------------------------------------------- exec_pipeline *)
  Opaque tfname CWTF CONCAT.
  Arguments Cache.aset : simpl never.
  Arguments Cache.aremove : simpl never.
  Arguments Cache.amem : simpl never.
  Arguments Cache.content : simpl never.
  Definition same_conf (s s' : state) : Prop :=
    st_inputs K s' = st_inputs K s /\ st_tfcols K s' = st_tfcols K s /\ st_params K s' = st_params K s /\
    st_uid K s' = st_uid K s /\ st_luid K s' = st_luid K s /\ st_ctr K s' = st_ctr K s /\
    st_debug K s' = st_debug K s /\ st_fix K s' = st_fix K s.
  Lemma same_conf_refl s : same_conf s s.
  Proof. unfold same_conf. tauto. Qed.
  Lemma same_conf_trans s1 s2 s3 : same_conf s1 s2 -> same_conf s2 s3 -> same_conf s1 s3.
  Proof. unfold same_conf. intros (a1&a2&a3&a4&a5&a6&a7&a8) (b1&b2&b3&b4&b5&b6&b7&b8). repeat split; congruence. Qed.

  Definition grows (s s' : state) : Prop :=
    same_leaves (st_db K s) (st_db K s') /\
    forall p, amem (st_db K s) p = true -> amem (st_db K s') p = true.
  Lemma grows_refl s : grows s s.
  Proof. split; [intros l; auto | auto]. Qed.

  Definition ph_of (s : state) (templ : string) (tree : sqlt) : pname := PH templ (hash tree (st_uid K s)).

  Lemma same_leaves_aset_hashed db n k e : same_leaves db (aset db (PH n k) e).
  Proof. intros l. rewrite aget_aset_other; auto. discriminate. Qed.

  Lemma exec_run_spec s templ tree :
    InvS s -> Sound s -> name_of tree = templ ->
    let r := exec_run K keqb hash s templ tree in
    let s' := fst (fst r) in let h := snd (fst r) in
    InvS s' /\ Sound s' /\ cbs_hashed h /\ same_conf s s' /\ grows s s' /\
    h_src K h = Mat tree /\ h_phys K h = ph_of s templ tree /\
    (forall key, key <> ph_of s templ tree -> aget (st_cache K s') key = aget (st_cache K s) key) /\
    (forallb (amem (st_db K s)) (direct_refs (st_uid K s) tree) = true ->
       h_cbs K h = true /\ content (st_db K s') (h_phys K h) = denote (st_db K s') tree /\
       aget (st_cache K s') (ph_of s templ tree) = Some h).
  Proof.
    intros I Hs Hn. unfold exec_run. fold (ph_of s templ tree).
    destruct (forallb (amem (st_db K s)) (direct_refs (st_uid K s) tree)) eqn:Er; cbn.
    - destruct (eval_denote _ _ _ Hs Er) as [Hev Hlv].
      set (ph := ph_of s templ tree).
      set (e := {| e_prov := eval (st_uid K s) (st_db K s) tree; e_origin := Splink |}).
      assert (Hsl : same_leaves (st_db K s) (aset (st_db K s) ph e)) by apply same_leaves_aset_hashed.
      split; [|split; [|split; [|split; [|split; [|split; [|split; [|split]]]]]]].
      + destruct I. constructor; cbn; auto.
        * apply NoDup_keys_aset. auto.
        * intros n k h. rewrite aget_aset. destruct (pname_eqb ph (PH n k)) eqn:E.
          -- apply pname_eqb_spec in E. intros Hh. inversion Hh; subst h. cbn. rewrite <- E.
             repeat split; auto.
             ++ rewrite amem_aset, pname_eqb_refl. auto.
             ++ exists tree. unfold ph, ph_of in E. inversion E. subst. auto.
          -- intros Hh. destruct (iv_cache_h0 _ _ _ Hh) as (a & b & c & d). repeat split; auto.
             rewrite amem_aset, c. apply orb_true_r.
        * intros key h. rewrite aget_aset. destruct (pname_eqb ph key).
          -- intros Hh. inversion Hh; subst. intros _. reflexivity.
          -- intros Hh. eapply iv_cache_cbs0; eauto.
        * intros n k. rewrite !amem_aset. destruct (pname_eqb ph (PH n k)); cbn; auto.
        * intros b u. rewrite amem_aset. unfold ph, ph_of. cbn. apply iv_fresh0.
        * intros l Hin. rewrite amem_aset. unfold ph, ph_of. cbn. auto.
      + intros n k e0. cbn. rewrite aget_aset. destruct (pname_eqb ph (PH n k)) eqn:E.
        * apply pname_eqb_spec in E. intros He. inversion He; subst e0. exists tree.
          unfold ph, ph_of in E. inversion E. split; [auto|split; [congruence|split]].
          -- unfold e. cbn. rewrite Hev. apply denote_same_leaves. auto.
          -- intros l Hin. rewrite amem_aset. unfold ph, ph_of. cbn. auto.
        * intros He. destruct (Hs _ _ _ He) as (t & a & b & c & d). exists t. repeat split; auto.
          -- rewrite c. apply denote_same_leaves. auto.
          -- intros l Hin. rewrite amem_aset. unfold ph, ph_of. cbn. auto.
      + intros _. reflexivity.
      + unfold same_conf. cbn. tauto.
      + split; auto. intros p Hp. cbn. rewrite amem_aset, Hp. apply orb_true_r.
      + reflexivity.
      + reflexivity.
      + intros key Hk. cbn. rewrite aget_aset_other; auto.
      + intros _. cbn. split; [auto|split].
        * unfold Cache.content. rewrite aget_aset_same. unfold e. cbn. rewrite Hev. apply denote_same_leaves. auto.
        * apply aget_aset_same.
    - split; [auto|split; [auto|split; [|split; [apply same_conf_refl|split; [apply grows_refl|]]]]].
      + intros H. cbn in H. discriminate.
      + repeat split; auto; discriminate.
  Qed.

  (* summary of one exec_pipeline call in normal (non debug) mode *)
  Lemma exec_pipeline_spec s templ tree al mids uc :
    InvS s -> Sound s -> name_of tree = templ ->
    let r := exec_pipeline K keqb hash s templ tree al mids uc in
    let s' := fst (fst r) in let h := snd (fst r) in
    InvS s' /\ Sound s' /\ cbs_hashed h /\ same_conf s s' /\ grows s s' /\
    (forall l, aget (st_cache K s') (PL l) = aget (st_cache K s) (PL l)).
  Proof.
    intros I Hs Hn. unfold exec_pipeline. rewrite (iv_nodebug _ I).
    assert (Hrun : let r := exec_run K keqb hash s templ tree in
                   let s' := fst (fst r) in let h := snd (fst r) in
                   InvS s' /\ Sound s' /\ cbs_hashed h /\ same_conf s s' /\ grows s s' /\
                   (forall l, aget (st_cache K s') (PL l) = aget (st_cache K s) (PL l))).
    { destruct (exec_run_spec s templ tree I Hs Hn) as (a & b & c & d & e & _ & _ & f & _).
      cbn. repeat (split; auto). intros l. apply f. unfold ph_of. discriminate. }
    assert (Hsame : forall h, cbs_hashed h ->
                    InvS s /\ Sound s /\ cbs_hashed h /\ same_conf s s /\ grows s s /\
                    (forall l, aget (st_cache K s) (PL l) = aget (st_cache K s) (PL l))).
    { intros h Hh. repeat (split; auto); try apply same_conf_refl; apply grows_refl. }
    destruct uc; [|exact Hrun].
    destruct (aget (st_cache K s) (named templ)) eqn:E1; [cbn; apply Hsame; eapply iv_cache_cbs; eauto|].
    destruct (aget (st_cache K s) (PH templ (hash tree (st_uid K s)))) eqn:E2; [cbn; apply Hsame; eapply iv_cache_cbs; eauto|].
    destruct (amem (st_db K s) (PH templ (hash tree (st_uid K s)))); [cbn; apply Hsame; intros H; discriminate|].
    exact Hrun.
  Qed.
  (* ---------------------------------------------------------------- named entries, registrations *)
  Lemma InvS_set_named s l h :
    InvS s -> cbs_hashed h -> InvS (set_cache K s (aset (st_cache K s) (PL l) h)).
  Proof.
    intros [] Hh. constructor; cbn; auto.
    - apply NoDup_keys_aset. auto.
    - intros n k h0. rewrite aget_aset_other by discriminate. auto.
    - intros key h0. rewrite aget_aset. destruct (pname_eqb (PL l) key); [intros E; inversion E; subst; auto | eauto].
    - intros n k Hm. rewrite amem_aset. cbn. auto.
  Qed.

  Lemma InvS_register_leaf s l e c' :
    InvS s -> amem (st_db K s) (PL l) = false -> st_ctr K s <= c' ->
    (forall b u, l = LUid b u -> u < c') ->
    InvS (set_luid_ctr K (set_db K s (aset (st_db K s) (PL l) e)) (st_luid K s) c').
  Proof.
    intros [] Hnew Hc Hl. constructor; cbn; auto.
    - intros n k h Hg. destruct (iv_cache_h0 _ _ _ Hg) as (a & b & c & d). repeat split; auto.
      rewrite amem_aset, c. apply orb_true_r.
    - intros n k. rewrite amem_aset. cbn. auto.
    - intros b u. rewrite amem_aset. destruct (pname_eqb (PL l) (PL (LUid b u))) eqn:E; cbn.
      + apply pname_eqb_spec in E. inversion E. intros _. eapply Hl; eauto.
      + intros Hm. apply iv_fresh0 in Hm. lia.
    - lia.
    - intros l0 Hin. rewrite amem_aset, iv_inputs0 by auto. apply orb_true_r.
  Qed.

  Lemma sound_register_leaf uid db l e :
    sound uid db -> amem db (PL l) = false -> sound uid (aset db (PL l) e).
  Proof.
    intros Hs Hnew n k e0. rewrite aget_aset_other by discriminate. intros He.
    destruct (Hs _ _ _ He) as (t & a & b & c & d). exists t. repeat split; auto.
    - rewrite c. apply denote_ext. intros l0 Hin. rewrite content_aset_other; auto.
      intros E. inversion E; subst. rewrite (d _ Hin) in Hnew. discriminate.
    - intros l0 Hin. rewrite amem_aset, (d _ Hin). apply orb_true_r.
  Qed.

  Lemma evict_cwtf_inv s : InvS s -> InvS (evict_cwtf K keqb s) /\ (Sound s -> Sound (evict_cwtf K keqb s)) /\
                            same_conf s (evict_cwtf K keqb s).
  Proof.
    intros I. unfold evict_cwtf. destruct (aget (st_cache K s) (named CWTF)) eqn:E; [|split; [auto|split; [auto|apply same_conf_refl]]].
    destruct (h_cbs K h) eqn:Ec; [|split; [auto|split; [auto|apply same_conf_refl]]].
    pose proof (iv_cache_cbs _ I _ _ E) as Hh.
    split; [apply drop_handle_InvS; auto|split; [intros; apply drop_handle_sound; auto|]].
    pose proof (drop_handle_fields s h). cbn in H. unfold same_conf. tauto.
  Qed.

  (* ---------------------------------------------------------------- one instruction *)
  Definition regs_ok (regs : list handle) : Prop := Forall cbs_hashed regs.

  Definition plain (i : instr) : Prop :=
    match i with IChangeInput _ | ISecondLinker _ _ _ | ISetDebug _ => False | _ => True end.

  Lemma regs_ok_app regs h : regs_ok regs -> cbs_hashed h -> regs_ok (regs ++ [h]).
  Proof. intros. apply Forall_app. split; auto. Qed.

  Lemma Sound_uid s s' : st_uid K s' = st_uid K s -> st_db K s' = st_db K s -> Sound s -> Sound s'.
  Proof. unfold Sound. intros -> ->. auto. Qed.

  Lemma step_instr_inv s regs tr i :
    plain i -> InvS s -> Sound s -> regs_ok regs ->
    let r := step_instr K keqb hash (s, regs, tr) i in
    InvS (fst (fst r)) /\ Sound (fst (fst r)) /\ regs_ok (snd (fst r)) /\ st_uid K (fst (fst r)) = st_uid K s /\
    st_inputs K (fst (fst r)) = st_inputs K s /\ st_tfcols K (fst (fst r)) = st_tfcols K s /\
    st_fix K (fst (fst r)) = st_fix K s.
  Proof.
    intros Hp I Hs Hr. destruct i; cbn -[exec_pipeline invalidate delete_tables evict_cwtf drop_handle]; try contradiction.
    - (* INamedOrExec *)
      destruct (aget (st_cache K s) (named n)) eqn:E; cbn -[exec_pipeline].
      + repeat (split; auto). apply regs_ok_app; auto. eapply iv_cache_cbs; eauto.
      + set (r := resolve_all K keqb s regs ins).
        pose proof (exec_pipeline_spec s n (the_tree n p r) (r_aliases r) (r_inline r ++ mids) true I Hs eq_refl) as H.
        destruct (exec_pipeline K keqb hash s n (the_tree n p r) (r_aliases r) (r_inline r ++ mids) true) as [[s1 h] ev].
        cbn in H. destruct H as (I1 & S1 & Hh & Hc & _ & _). cbn.
        destruct Hc as (c1 & c2 & c3 & c4 & c5 & c6 & c7 & c8).
        split; [apply InvS_set_named; auto|]. split; [eapply Sound_uid; [| |exact S1]; auto|].
        split; [apply regs_ok_app; auto|]. auto.
    - (* IExec *)
      set (r := resolve_all K keqb s regs ins).
      pose proof (exec_pipeline_spec s n (the_tree n p r) (r_aliases r) (r_inline r ++ mids) use_cache I Hs eq_refl) as H.
      destruct (exec_pipeline K keqb hash s n (the_tree n p r) (r_aliases r) (r_inline r ++ mids) use_cache) as [[s1 h] ev].
      cbn in H. destruct H as (I1 & S1 & Hh & Hc & _ & _). cbn.
      destruct Hc as (c1 & c2 & c3 & c4 & c5 & c6 & c7 & c8).
      repeat (split; auto). apply regs_ok_app; auto.
    - (* IDrop *)
      destruct (nth_error regs i) eqn:E; cbn; [|repeat (split; auto)].
      assert (Hh : cbs_hashed h). { unfold regs_ok in Hr. rewrite Forall_forall in Hr. apply Hr. eapply nth_error_In; eauto. }
      pose proof (drop_handle_fields s h) as F. cbn in F.
      destruct (drop_handle K keqb s h) as [s1 ev] eqn:Ed. cbn.
      assert (s1 = fst (drop_handle K keqb s h)) by (rewrite Ed; auto). subst s1.
      split; [apply drop_handle_InvS; auto|]. split; [apply drop_handle_sound; auto|]. tauto.
    - (* IRegisterTF *)
      destruct (amem (st_db K s) (PL (LUid (tfname c) (st_luid K s)))) eqn:Em; cbn -[evict_cwtf]; [repeat (split; auto)|].
      set (l := LUid (tfname c) (st_luid K s)).
      set (h := {| h_templ := tfname c; h_phys := PL l; h_src := Leaf l; h_cbs := false |}).
      set (e := {| e_prov := PLookup c ver; e_origin := Caller |}).
      assert (I1 : InvS (set_db K s (aset (st_db K s) (PL l) e))).
      { pose proof (InvS_register_leaf s l e (st_ctr K s) I Em (le_n _)) as H.
        assert (Hl : forall b u, l = LUid b u -> u < st_ctr K s).
        { intros b u E. inversion E; subst. apply (iv_luid _ I). }
        specialize (H Hl). destruct s; exact H. }
      assert (S1 : Sound (set_db K s (aset (st_db K s) (PL l) e))).
      { unfold Sound. cbn. apply sound_register_leaf; auto. }
      assert (I2 : InvS (set_cache K (set_db K s (aset (st_db K s) (PL l) e))
                                   (aset (st_cache K (set_db K s (aset (st_db K s) (PL l) e))) (named (tfname c)) h))).
      { apply InvS_set_named; auto. intros H. discriminate. }
      destruct (fx77 (st_fix K s)).
      + destruct (evict_cwtf_inv _ I2) as (a & b & c0).
        split; [auto|]. split; [apply b; eapply Sound_uid; [| |exact S1]; auto|].
        split; [auto|]. unfold same_conf in c0. cbn -[evict_cwtf] in c0 |- *. tauto.
      + split; [auto|]. split; [eapply Sound_uid; [| |exact S1]; auto|]. cbn. auto.
    - (* IRegisterRecords *)
      set (l := LUid base (st_ctr K s)).
      set (e := {| e_prov := PRecords (st_ctr K s); e_origin := Caller |}).
      assert (Em : amem (st_db K s) (PL l) = false).
      { destruct (amem (st_db K s) (PL l)) eqn:Em; auto. apply (iv_fresh _ I) in Em. lia. }
      split.
      + apply (InvS_register_leaf s l e (S (st_ctr K s)) I Em); [lia|]. intros b u E. inversion E. lia.
      + split; [unfold Sound; cbn; apply sound_register_leaf; auto|].
        split; [apply regs_ok_app; auto; intros H; discriminate|]. cbn. auto.
    - (* ISetParams *)
      split; [destruct I; constructor; auto|]. repeat (split; auto).
    - (* IInvalidate *)
      destruct (invalidate_spec s I) as [I1 Hn].
      split; [auto|]. split; [apply no_hashed_sound; auto|]. split; [auto|].
      pose proof (invalidate_fields s) as F. cbn in F. tauto.
    - (* IDeleteTables *)
      destruct (delete_tables_spec s I) as (I1 & S1 & _ & _).
      pose proof (delete_fold_fields (map fst (st_cache K s)) s) as F. cbn in F. unfold delete_tables.
      split; [exact I1|]. split; [apply S1; auto|]. split; [auto|]. tauto.
  Qed.
  (* ---------------------------------------------------------------- programs and operations *)
  Definition Inv (s : state) : Prop := InvS s /\ Sound s.

  Lemma run_prog_inv prog : forall s regs tr,
    Forall plain prog -> InvS s -> Sound s -> regs_ok regs ->
    let r := fold_left (step_instr K keqb hash) prog (s, regs, tr) in
    InvS (fst (fst r)) /\ Sound (fst (fst r)) /\ regs_ok (snd (fst r)) /\ st_uid K (fst (fst r)) = st_uid K s /\
    st_inputs K (fst (fst r)) = st_inputs K s /\ st_tfcols K (fst (fst r)) = st_tfcols K s /\
    st_fix K (fst (fst r)) = st_fix K s.
  Proof.
    induction prog as [|i r IH]; cbn -[step_instr]; intros s regs tr Hp I Hs Hr.
    - repeat (split; auto).
    - inversion Hp; subst.
      pose proof (step_instr_inv s regs tr i H1 I Hs Hr) as H.
      destruct (step_instr K keqb hash (s, regs, tr) i) as [[s1 regs1] tr1]. cbn in H.
      destruct H as (I1 & S1 & R1 & u1 & i1 & t1 & f1).
      specialize (IH s1 regs1 tr1 H2 I1 S1 R1). cbn -[step_instr] in IH.
      destruct IH as (a & b & c & d & e & f & g). repeat (split; auto); congruence.
  Qed.

  Lemma InvS_change_input s ver :
    InvS s ->
    InvS (set_db K s (fold_left (fun d l => aset d (PL l) {| e_prov := PInput (lbase l) ver; e_origin := User |})
                                (st_inputs K s) (st_db K s))).
  Proof.
    intros I.
    assert (G : forall ls db,
               (forall p, amem db p = true -> amem (st_db K s) p = true) ->
               (forall p, amem (st_db K s) p = true -> amem db p = true) ->
               (forall l, In l ls -> amem (st_db K s) (PL l) = true) ->
               let db' := fold_left (fun d l => aset d (PL l) {| e_prov := PInput (lbase l) ver; e_origin := User |}) ls db in
               (forall p, amem db' p = true -> amem (st_db K s) p = true) /\
               (forall p, amem (st_db K s) p = true -> amem db' p = true)).
    { induction ls as [|l r IH]; cbn; intros db H1 H2 H3; [auto|]. apply IH; auto.
      - intros p. rewrite amem_aset. destruct (pname_eqb (PL l) p) eqn:E; cbn; auto.
        apply pname_eqb_spec in E. subst. auto.
      - intros p Hp. rewrite amem_aset, (H2 _ Hp). apply orb_true_r. }
    destruct (G (st_inputs K s) (st_db K s)) as [G1 G2]; auto; [apply (iv_inputs _ I)|].
    destruct I. constructor; cbn; auto.
    - intros n k h Hg. destruct (iv_cache_h0 _ _ _ Hg) as (a & b & c & d). repeat split; auto.
    - intros b u Hm. apply G1 in Hm. eauto.
  Qed.

  Lemma prog_plain s o :
    op_ok_hashed o = true -> (forall v, o <> ChangeInputInvalidate v) -> Forall plain (prog_of_op K s o).
  Proof.
    intros Hok Hne. destruct o; cbn in Hok; try discriminate; cbn; unfold predict_prog;
      repeat (apply Forall_cons || apply Forall_nil || apply Forall_app || split); try exact I0; cbn; auto.
    exfalso. eapply Hne. reflexivity.
  Qed.

  Lemma step_inv s o :
    op_ok_hashed o = true -> Inv s ->
    Inv (step K keqb hash s o) /\ st_uid K (step K keqb hash s o) = st_uid K s /\
    st_inputs K (step K keqb hash s o) = st_inputs K s /\ st_tfcols K (step K keqb hash s o) = st_tfcols K s /\
    st_fix K (step K keqb hash s o) = st_fix K s.
  Proof.
    intros Hok [I Hs]. unfold step, run_op, run_prog.
    destruct o; try (cbn in Hok; discriminate); try (
      match goal with |- context [prog_of_op K s ?o] =>
        pose proof (run_prog_inv (prog_of_op K s o) s [] [] (prog_plain s o Hok ltac:(intros; discriminate)) I Hs (Forall_nil _)) as H
      end; cbn -[step_instr prog_of_op] in H; destruct H as (q1 & q2 & q3 & q4 & q5 & q6 & q7); unfold Inv; auto; fail).
    (* ChangeInputInvalidate *)
    cbn -[invalidate].
    pose proof (InvS_change_input s ver I) as I1.
    destruct (invalidate_spec _ I1) as [I2 Hn].
    split; [split; [exact I2|apply no_hashed_sound; exact Hn]|].
    match goal with |- context [invalidate K keqb ?x] => pose proof (invalidate_fields x) as F end.
    cbn -[invalidate] in F. tauto.
  Qed.

  Lemma run_inv ops : forall s,
    forallb op_ok_hashed ops = true -> Inv s ->
    Inv (run K keqb hash s ops) /\ st_uid K (run K keqb hash s ops) = st_uid K s /\
    st_inputs K (run K keqb hash s ops) = st_inputs K s /\ st_tfcols K (run K keqb hash s ops) = st_tfcols K s /\
    st_fix K (run K keqb hash s ops) = st_fix K s.
  Proof.
    induction ops as [|o r IH]; cbn; intros s Hok Hi; [auto|].
    apply andb_true_iff in Hok. destruct Hok as [H1 H2].
    destruct (step_inv s o H1 Hi) as (Hi1 & a & b & c & d).
    destruct (IH _ H2 Hi1) as (Hi2 & a' & b' & c' & d'). unfold run in *. repeat (split; auto); congruence.
  Qed.

  (* ---------------------------------------------------------------- initial state *)
  Definition inputs_plain (inputs : list lname) : Prop :=
    forall l, In l inputs -> exists n, l = LPlain n.

  Lemma input_db_hashed inputs ver n k : aget (input_db K inputs ver) (PH n k) = None.
  Proof. unfold input_db. induction inputs; cbn; auto. Qed.
  Lemma input_db_leaf inputs ver l :
    aget (input_db K inputs ver) (PL l) =
    if existsb (lname_eqb l) inputs then Some {| e_prov := PInput (lbase l) ver; e_origin := User |} else None.
  Proof.
    unfold input_db. induction inputs as [|a r IH]; cbn; auto.
    destruct (lname_eqb a l) eqn:E.
    - apply lname_eqb_spec in E. subst. rewrite lname_eqb_refl. auto.
    - rewrite IH. destruct (lname_eqb l a) eqn:E2; auto. apply lname_eqb_spec in E2. subst. rewrite lname_eqb_refl in E. discriminate.
  Qed.

  Lemma init_inv inputs ver tfcols params uid luid fx :
    inputs_plain inputs -> Inv (init_state K inputs ver tfcols params uid luid fx).
  Proof.
    intros Hp. split.
    - constructor; cbn; auto.
      + constructor.
      + intros n k h. discriminate.
      + intros key h. discriminate.
      + intros n k. unfold Cache.amem. rewrite input_db_hashed. discriminate.
      + intros b u. unfold Cache.amem. rewrite input_db_leaf.
        destruct (existsb _ inputs) eqn:E; [|discriminate].
        apply existsb_exists in E. destruct E as (l & Hin & El). apply lname_eqb_spec in El. subst.
        destruct (Hp _ Hin). discriminate.
      + intros l Hin. unfold Cache.amem. rewrite input_db_leaf.
        assert (E : existsb (lname_eqb l) inputs = true) by (apply existsb_exists; exists l; split; auto; apply lname_eqb_refl).
        rewrite E. auto.
    - apply no_hashed_sound. intros n k. unfold Cache.amem. cbn. rewrite input_db_hashed. auto.
  Qed.

  (* ---------------------------------------------------------------- C07_hashed_entries_sound *)
  Theorem hashed_entries_sound inputs ver tfcols params uid luid fx ops :
    inputs_plain inputs -> forallb op_ok_hashed ops = true ->
    let s := run K keqb hash (init_state K inputs ver tfcols params uid luid fx) ops in
    forall n k h, aget (st_cache K s) (PH n k) = Some h ->
      exists t, h_src K h = Mat t /\ h_phys K h = PH n k /\ k = hash t (st_uid K s) /\ n = name_of t /\
                content (st_db K s) (h_phys K h) = denote (st_db K s) t.
  Proof.
    intros Hp Hok s n k h Hg.
    destruct (run_inv ops _ Hok (init_inv inputs ver tfcols params uid luid fx Hp)) as ([I Hs] & _).
    fold s in I, Hs. destruct (iv_cache_h _ I _ _ _ Hg) as (a & b & c & t & d & e & f).
    exists t. repeat (split; auto). rewrite a. apply amem_true in c. destruct c as [e0 He].
    unfold Cache.content. rewrite He. destruct (Hs _ _ _ He) as (t' & Hk & _ & Hpv & _).
    rewrite e in Hk. apply hash_inj in Hk. destruct Hk as [<- _]. auto.
  Qed.
End Proofs.
