(* Proofs about Model/Cache.v (C07).  Everything is proved for an arbitrary key type K with a
   decidable equality and an arbitrary injective [hash] (Section hypotheses keqb_spec, hash_inj). *)
From Coq Require Import List Bool Arith String Lia.
From Splinkv Require Import Model.Cache.
From Splinkv Require Model.EntryPoints.     (* read-only: route_priority, the ad-hoc term-frequency route *)
Import ListNotations.
Open Scope string_scope.
Open Scope list_scope.

(* ------------------------------------------------------------------ induction on SQL trees *)
Section SqltInd.
  Variable P : sqlt -> Prop.
  Hypothesis HLeaf : forall l, P (Leaf l).
  Hypothesis HMat : forall t, P t -> P (Mat t).
  Hypothesis HCte : forall n p ch, Forall P ch -> P (Cte n p ch).
  Fixpoint sqlt_ind' (t : sqlt) : P t :=
    match t with
    | Leaf l => HLeaf l
    | Mat t' => HMat t' (sqlt_ind' t')
    | Cte n p ch =>
        HCte n p ch ((fix go (l : list sqlt) : Forall P l :=
                        match l with
                        | [] => Forall_nil P
                        | x :: r => Forall_cons x (sqlt_ind' x) (go r)
                        end) ch)
    end.
End SqltInd.

Lemma lname_eqb_spec a b : lname_eqb a b = true <-> a = b.
Proof.
  destruct a, b; cbn; try (split; [discriminate | congruence]).
  - rewrite String.eqb_eq. split; congruence.
  - rewrite andb_true_iff, String.eqb_eq, Nat.eqb_eq. split; [intros []; congruence | intros H; inversion H; auto].
Qed.

Lemma lname_eqb_refl a : lname_eqb a a = true.
Proof. apply lname_eqb_spec. reflexivity. Qed.

Lemma sqlt_eqb_spec : forall a b, sqlt_eqb a b = true <-> a = b.
Proof.
  induction a using sqlt_ind'; destruct b; cbn; try (split; [discriminate | congruence]).
  - rewrite lname_eqb_spec. split; congruence.
  - rewrite IHa. split; congruence.
  - rewrite !andb_true_iff, String.eqb_eq, Nat.eqb_eq.
    assert (Hl : forall y,
      (fix go (x y : list sqlt) : bool :=
         match x, y with [], [] => true | a :: x', b :: y' => sqlt_eqb a b && go x' y' | _, _ => false end) ch y = true
      <-> ch = y).
    { induction H; intros y; destruct y; cbn.
      - split; auto.
      - split; [discriminate | congruence].
      - split; [discriminate | congruence].
      - rewrite andb_true_iff, H, IHForall. split; [intros []; congruence | intros E; inversion E; auto]. }
    rewrite Hl. split; [intros [[] ?]; congruence | intros E; inversion E; auto].
Qed.

(* the instance used by the harness and by the refutation theorems: the key IS the pair *)
Definition KI := (sqlt * nat)%type.
Definition keqbI (a b : KI) : bool := sqlt_eqb (fst a) (fst b) && Nat.eqb (snd a) (snd b).
Definition hashI (t : sqlt) (u : nat) : KI := (t, u).
Lemma keqbI_spec a b : keqbI a b = true <-> a = b.
Proof.
  destruct a, b. unfold keqbI. cbn. rewrite andb_true_iff, sqlt_eqb_spec, Nat.eqb_eq.
  split; [intros []; congruence | intros E; inversion E; auto].
Qed.
Lemma hashI_inj t u t' u' : hashI t u = hashI t' u' -> t = t' /\ u = u'.
Proof. unfold hashI. intros E. inversion E. auto. Qed.


(* ------------------------------------------------------------------ facts about templated names *)
Definition TFP := "__splink__df_tf_".
Definition is_named_name (n : string) : bool := String.eqb n CWTF || String.eqb n CONCAT || prefix TFP n.
Lemma named_tf c : is_named_name (tfname c) = true.
Proof. unfold is_named_name, tfname. cbn. destruct c; reflexivity. Qed.
Lemma tfname_inj a b : tfname a = tfname b -> a = b.
Proof. unfold tfname. cbn. intros H. inversion H. auto. Qed.
Lemma tf_not_cwtf c : tfname c <> CWTF.
Proof. unfold tfname, CWTF. cbn. intros H. inversion H. Qed.
Lemma tf_not_concat c : tfname c <> CONCAT.
Proof. unfold tfname, CONCAT. cbn. intros H. inversion H. Qed.
Lemma cwtf_not_concat : CWTF <> CONCAT.
Proof. unfold CWTF, CONCAT. intros H. inversion H. Qed.
Lemma not_named_neq n : is_named_name n = false -> n <> CWTF /\ n <> CONCAT /\ forall c, n <> tfname c.
Proof.
  unfold is_named_name. intros H. apply orb_false_iff in H. destruct H as [H H3]. apply orb_false_iff in H. destruct H as [H1 H2].
  apply String.eqb_neq in H1. apply String.eqb_neq in H2. repeat split; auto.
  intros c ->. fold (is_named_name (tfname c)) in *. pose proof (named_tf c) as Hc. unfold is_named_name in Hc.
  rewrite H3 in Hc. apply String.eqb_neq in H1. apply String.eqb_neq in H2. rewrite H1, H2 in Hc. discriminate.
Qed.
Lemma derive_other n p ch : n <> CONCAT -> derive n p ch = PDerived n p ch.
Proof. intros H. unfold derive. apply String.eqb_neq in H. rewrite H. auto. Qed.
Lemma derive_alias p q c r : derive CONCAT p [PDerived CWTF q (c :: r)] = c.
Proof. unfold derive. rewrite !String.eqb_refl. auto. Qed.

Section Proofs.
  Variable K : Type.
  Variable keqb : K -> K -> bool.
  Variable hash : sqlt -> nat -> K.
  Hypothesis keqb_spec : forall a b, keqb a b = true <-> a = b.
  Hypothesis hash_inj : forall t u t' u', hash t u = hash t' u' -> t = t' /\ u = u'.

  Local Notation pname := (pname K).
  Local Notation state := (state K).
  Local Notation handle := (handle K).
  Local Notation PL := (PL K).
  Local Notation PH := (PH K).
  Local Notation pname_eqb := (pname_eqb K keqb).
  Local Notation aget := (aget K keqb).
  Local Notation aset := (aset K keqb).
  Local Notation aremove := (aremove K keqb).
  Local Notation amem := (amem K keqb).
  Local Notation content := (content K keqb).
  Local Notation denote := (denote K keqb).
  Local Notation eval := (eval K keqb hash).
  Local Notation direct_refs := (direct_refs K hash).
  Local Notation named := (named K).

  (* ---------------------------------------------------------------- names and association lists *)
  Lemma pname_eqb_spec a b : pname_eqb a b = true <-> a = b.
  Proof.
    destruct a, b; cbn; try (split; [discriminate | congruence]).
    - rewrite lname_eqb_spec. split; congruence.
    - rewrite andb_true_iff, String.eqb_eq, keqb_spec. split; [intros []; congruence | intros E; inversion E; auto].
  Qed.
  Lemma pname_eqb_refl a : pname_eqb a a = true.
  Proof. apply pname_eqb_spec. reflexivity. Qed.
  Lemma pname_eqb_neq a b : a <> b -> pname_eqb a b = false.
  Proof. intros H. destruct (pname_eqb a b) eqn:E; auto. apply pname_eqb_spec in E. contradiction. Qed.
  Lemma pname_eq_dec (a b : pname) : {a = b} + {a <> b}.
  Proof.
    destruct (pname_eqb a b) eqn:E; [left; apply pname_eqb_spec; auto | right; intros ->; rewrite pname_eqb_refl in E; discriminate].
  Qed.

  Section Assoc.
    Context {V : Type}.
    Implicit Types l : list (pname * V).

    Lemma aget_aremove_same l k : aget (aremove l k) k = None.
    Proof.
      unfold Cache.aremove. induction l as [|[k' v] r IH]; cbn; auto.
      destruct (pname_eqb k' k) eqn:E; cbn; auto. rewrite E. auto.
    Qed.
    Lemma aget_aremove_other l k k' : k' <> k -> aget (aremove l k) k' = aget l k'.
    Proof.
      intros Hne. unfold Cache.aremove. induction l as [|[k0 v] r IH]; cbn; auto.
      destruct (pname_eqb k0 k) eqn:E; cbn.
      - apply pname_eqb_spec in E. subst. rewrite pname_eqb_neq by congruence. auto.
      - rewrite IH. auto.
    Qed.
    Lemma aget_aset_same l k v : aget (aset l k v) k = Some v.
    Proof. unfold Cache.aset. cbn. rewrite pname_eqb_refl. auto. Qed.
    Lemma aget_aset_other l k v k' : k' <> k -> aget (aset l k v) k' = aget l k'.
    Proof.
      intros Hne. unfold Cache.aset. cbn. rewrite pname_eqb_neq by congruence. apply aget_aremove_other. auto.
    Qed.
    Lemma aget_aset l k v k' : aget (aset l k v) k' = if pname_eqb k k' then Some v else aget l k'.
    Proof.
      destruct (pname_eqb k k') eqn:E.
      - apply pname_eqb_spec in E. subst. apply aget_aset_same.
      - apply aget_aset_other. intros ->. rewrite pname_eqb_refl in E. discriminate.
    Qed.
    Lemma aget_aremove l k k' : aget (aremove l k) k' = if pname_eqb k k' then None else aget l k'.
    Proof.
      destruct (pname_eqb k k') eqn:E.
      - apply pname_eqb_spec in E. subst. apply aget_aremove_same.
      - apply aget_aremove_other. intros ->. rewrite pname_eqb_refl in E. discriminate.
    Qed.
    Lemma aget_In l k v : aget l k = Some v -> In (k, v) l.
    Proof.
      induction l as [|[k' v'] r IH]; cbn; [discriminate|].
      destruct (pname_eqb k' k) eqn:E; [apply pname_eqb_spec in E; intros H; inversion H; subst; auto | auto].
    Qed.
    Lemma aget_In_key l k v : aget l k = Some v -> In k (map fst l).
    Proof. intros H. apply aget_In in H. apply (in_map fst) in H. exact H. Qed.
    Lemma aget_None_notin l k : aget l k = None -> ~ In k (map fst l).
    Proof.
      induction l as [|[k' v'] r IH]; cbn; [tauto|].
      destruct (pname_eqb k' k) eqn:E; [discriminate|]. intros H [->|Hin]; [rewrite pname_eqb_refl in E; discriminate | apply IH; auto].
    Qed.
    Lemma In_key_aget l k : In k (map fst l) -> exists v, aget l k = Some v.
    Proof.
      intros Hin. destruct (aget l k) eqn:E; [eauto|]. apply aget_None_notin in E. contradiction.
    Qed.
    Lemma keys_aremove l k : forall x, In x (map fst (aremove l k)) -> In x (map fst l) /\ x <> k.
    Proof.
      intros x. unfold Cache.aremove. rewrite in_map_iff. intros [[k0 v] [<- Hin]].
      apply filter_In in Hin. destruct Hin as [Hin Hf]. cbn in *. split; [apply (in_map fst) in Hin; auto|].
      intros ->. rewrite pname_eqb_refl in Hf. discriminate.
    Qed.
    Lemma NoDup_keys_filter (f : pname * V -> bool) l : NoDup (map fst l) -> NoDup (map fst (filter f l)).
    Proof.
      induction l as [|[k v] r IH]; cbn; auto. intros H. inversion H; subst.
      destruct (f (k, v)); cbn; auto. constructor; auto.
      intros Hin. apply H2. apply in_map_iff in Hin. destruct Hin as [x [<- Hx]]. apply filter_In in Hx.
      apply in_map. tauto.
    Qed.
    Lemma NoDup_keys_aset l k v : NoDup (map fst l) -> NoDup (map fst (aset l k v)).
    Proof.
      intros H. unfold Cache.aset. cbn. constructor.
      - intros Hin. apply keys_aremove in Hin. tauto.
      - apply NoDup_keys_filter. auto.
    Qed.
    (* filtering on values keeps the dictionary view when keys are unique *)
    Lemma aget_filter (f : pname * V -> bool) l k :
      NoDup (map fst l) ->
      aget (filter f l) k = match aget l k with Some v => if f (k, v) then Some v else None | None => None end.
    Proof.
      induction l as [|[k' v'] r IH]; cbn; auto. intros H. inversion H; subst.
      destruct (pname_eqb k' k) eqn:E.
      - apply pname_eqb_spec in E. subst. destruct (f (k, v')) eqn:Ef; cbn.
        + rewrite pname_eqb_refl. auto.
        + rewrite IH by auto. destruct (aget r k) eqn:Er; auto. apply aget_In_key in Er. contradiction.
      - destruct (f (k', v')); cbn; [rewrite E|]; apply IH; auto.
    Qed.
  End Assoc.

  Lemma amem_aset {V} (l : list (pname * V)) k v k' : amem (aset l k v) k' = pname_eqb k k' || amem l k'.
  Proof. unfold Cache.amem. rewrite aget_aset. destruct (pname_eqb k k'); auto. Qed.
  Lemma amem_aremove {V} (l : list (pname * V)) k k' : amem (aremove l k) k' = negb (pname_eqb k k') && amem l k'.
  Proof. unfold Cache.amem. rewrite aget_aremove. destruct (pname_eqb k k'); auto. Qed.
  Lemma amem_true {V} (l : list (pname * V)) k : amem l k = true <-> exists v, aget l k = Some v.
  Proof. unfold Cache.amem. destruct (aget l k); split; eauto; try discriminate. intros [? ?]. discriminate. Qed.

  Lemma content_aset_other db k e k' : k' <> k -> content (aset db k e) k' = content db k'.
  Proof. intros. unfold Cache.content. rewrite aget_aset_other; auto. Qed.
  Lemma content_aremove_other db k k' : k' <> k -> content (aremove db k) k' = content db k'.
  Proof. intros. unfold Cache.content. rewrite aget_aremove_other; auto. Qed.
  (* ---------------------------------------------------------------- denotation *)
  Fixpoint leaves (t : sqlt) : list lname :=
    match t with Leaf l => [l] | Mat t' => leaves t' | Cte _ _ ch => flat_map leaves ch end.

  Lemma denote_ext db1 db2 t :
    (forall l, In l (leaves t) -> content db1 (PL l) = content db2 (PL l)) -> denote db1 t = denote db2 t.
  Proof.
    induction t using sqlt_ind'; cbn; intros Hl.
    - apply Hl. cbn. auto.
    - auto.
    - f_equal. apply map_ext_in. intros x Hx. rewrite Forall_forall in H. apply H; auto.
      intros l Hin. apply Hl. apply in_flat_map. eauto.
  Qed.

  Definition same_leaves (db1 db2 : db_t K) : Prop := forall l, aget db1 (PL l) = aget db2 (PL l).
  Lemma denote_same_leaves db1 db2 t : same_leaves db1 db2 -> denote db1 t = denote db2 t.
  Proof. intros H. apply denote_ext. intros l _. unfold Cache.content. rewrite H. auto. Qed.

  (* every hashed table of the database holds what its SQL denotes under the current leaves,
     and every leaf its SQL mentions is registered *)
  Definition sound (uid : nat) (db : db_t K) : Prop :=
    forall n k e, aget db (PH n k) = Some e ->
      exists t, k = hash t uid /\ n = name_of t /\ e_prov e = denote db t /\
                forall l, In l (leaves t) -> amem db (PL l) = true.

  Lemma eval_denote uid db t :
    sound uid db -> forallb (amem db) (direct_refs uid t) = true ->
    eval uid db t = denote db t /\ forall l, In l (leaves t) -> amem db (PL l) = true.
  Proof.
    intros Hs. induction t using sqlt_ind'; cbn; intros Hr.
    - rewrite andb_true_r in Hr. split; auto. intros l0 [<-|[]]. auto.
    - rewrite andb_true_r in Hr. apply amem_true in Hr. destruct Hr as [e He].
      destruct (Hs _ _ _ He) as (t' & Hk & _ & Hp & Hl). apply hash_inj in Hk. destruct Hk as [<- _].
      unfold Cache.content. rewrite He. auto.
    - rewrite forallb_forall in Hr. rewrite Forall_forall in H.
      assert (Hc : forall x, In x ch -> forallb (amem db) (direct_refs uid x) = true).
      { intros x Hx. apply forallb_forall. intros y Hy. apply Hr. apply in_flat_map. eauto. }
      split.
      + f_equal. apply map_ext_in. intros x Hx. apply H; auto.
      + intros l Hin. apply in_flat_map in Hin. destruct Hin as (x & Hx & Hlx). eapply H; eauto.
  Qed.

  Lemma sound_same_leaves_entry uid db db' :
    sound uid db -> same_leaves db db' ->
    (forall n k e, aget db' (PH n k) = Some e -> aget db (PH n k) = Some e) -> sound uid db'.
  Proof.
    intros Hs Hl Hsub n k e He. apply Hsub in He. destruct (Hs _ _ _ He) as (t & ? & ? & Hp & Hlv).
    exists t. repeat split; auto.
    - rewrite Hp. apply denote_same_leaves. auto.
    - intros l Hin. specialize (Hlv l Hin). unfold Cache.amem in *. rewrite <- Hl. auto.
  Qed.

  (* ---------------------------------------------------------------- structural invariant *)
  Definition cbs_hashed (h : handle) : Prop := h_cbs K h = true -> is_hashed K (h_phys K h) = true.

  Record InvS (s : state) : Prop := {
    iv_nodup : NoDup (map fst (st_cache K s));
    iv_cache_h : forall n k h, aget (st_cache K s) (PH n k) = Some h ->
        h_phys K h = PH n k /\ h_cbs K h = true /\ amem (st_db K s) (PH n k) = true /\
        exists t, h_src K h = Mat t /\ k = hash t (st_uid K s) /\ n = name_of t;
    iv_cache_cbs : forall key h, aget (st_cache K s) key = Some h -> cbs_hashed h;
    iv_db_h : forall n k, amem (st_db K s) (PH n k) = true -> amem (st_cache K s) (PH n k) = true;
    iv_fresh : forall b u, amem (st_db K s) (PL (LUid b u)) = true -> u < st_ctr K s;
    iv_luid : st_luid K s < st_ctr K s;
    iv_inputs : forall l, In l (st_inputs K s) -> amem (st_db K s) (PL l) = true;
    iv_nodebug : st_debug K s = false
  }.

  Definition Sound (s : state) : Prop := sound (st_uid K s) (st_db K s).
  Definition no_hashed (s : state) : Prop := forall n k, amem (st_db K s) (PH n k) = false.

  Lemma no_hashed_sound s : no_hashed s -> Sound s.
  Proof. intros H n k e He. specialize (H n k). unfold Cache.amem in H. rewrite He in H. discriminate. Qed.

  (* ---------------------------------------------------------------- drop_handle *)
  Lemma drop_handle_fst s h :
    fst (drop_handle K keqb s h) =
    if h_cbs K h then set_cache K (set_db K s (aremove (st_db K s) (h_phys K h)))
                                (cache_remove_phys K keqb (st_cache K s) (h_phys K h)) else s.
  Proof. unfold drop_handle. destruct (h_cbs K h); auto. Qed.

  Lemma drop_handle_InvS s h : InvS s -> cbs_hashed h -> InvS (fst (drop_handle K keqb s h)).
  Proof.
    intros I Hh. rewrite drop_handle_fst. destruct (h_cbs K h) eqn:Ec; auto.
    specialize (Hh Ec). destruct (h_phys K h) as [l|n0 k0] eqn:Ep; [discriminate|].
    destruct I. constructor; cbn; auto.
    - apply NoDup_keys_filter. auto.
    - intros n k h' Hg. unfold cache_remove_phys in Hg. rewrite aget_filter in Hg by auto.
      destruct (aget (st_cache K s) (PH n k)) as [h''|] eqn:Eg; [|discriminate].
      cbn in Hg. destruct (pname_eqb (h_phys K h'') (PH n0 k0)) eqn:Ee; [discriminate|]. inversion Hg; subst h''.
      destruct (iv_cache_h0 _ _ _ Eg) as (Hp & Hc & Hm & Ht). repeat split; auto.
      rewrite amem_aremove, Hm. rewrite Hp in Ee.
      destruct (pname_eqb (PH n0 k0) (PH n k)) eqn:E2; auto. apply pname_eqb_spec in E2. rewrite E2, pname_eqb_refl in Ee. discriminate.
    - intros key h' Hg. unfold cache_remove_phys in Hg. rewrite aget_filter in Hg by auto.
      destruct (aget (st_cache K s) key) as [h''|] eqn:Eg; [|discriminate].
      destruct (negb _); inversion Hg; subst. eauto.
    - intros n k Hm. rewrite amem_aremove in Hm. apply andb_true_iff in Hm. destruct Hm as [Hne Hm].
      specialize (iv_db_h0 _ _ Hm). apply amem_true in iv_db_h0. destruct iv_db_h0 as [h' Hg].
      apply amem_true. exists h'. unfold cache_remove_phys. rewrite aget_filter by auto. rewrite Hg. cbn.
      destruct (iv_cache_h0 _ _ _ Hg) as (Hp & _). rewrite Hp.
      destruct (pname_eqb (PH n k) (PH n0 k0)) eqn:E2; auto.
      apply pname_eqb_spec in E2. rewrite E2, pname_eqb_refl in Hne. discriminate.
    - intros b u Hm. rewrite amem_aremove in Hm. apply andb_true_iff in Hm. destruct Hm. eauto.
    - intros l Hin. rewrite amem_aremove. cbn. auto.
  Qed.

  Lemma drop_handle_sound s h : Sound s -> cbs_hashed h -> Sound (fst (drop_handle K keqb s h)).
  Proof.
    intros Hs Hh. rewrite drop_handle_fst. destruct (h_cbs K h) eqn:Ec; auto.
    specialize (Hh Ec). destruct (h_phys K h) as [l|n0 k0] eqn:Ep; [discriminate|].
    unfold Sound in *. cbn. eapply sound_same_leaves_entry; eauto.
    - intros l. rewrite aget_aremove_other; auto. discriminate.
    - intros n k e. rewrite aget_aremove. destruct (pname_eqb (PH n0 k0) (PH n k)); [discriminate|auto].
  Qed.

  Lemma drop_handle_db_shrinks s h p :
    amem (st_db K (fst (drop_handle K keqb s h))) p = true -> amem (st_db K s) p = true.
  Proof.
    rewrite drop_handle_fst. destruct (h_cbs K h); auto. cbn. rewrite amem_aremove.
    intros H. apply andb_true_iff in H. tauto.
  Qed.
  Lemma drop_handle_fields s h :
    let s' := fst (drop_handle K keqb s h) in
    st_inputs K s' = st_inputs K s /\ st_tfcols K s' = st_tfcols K s /\ st_params K s' = st_params K s /\
    st_uid K s' = st_uid K s /\ st_luid K s' = st_luid K s /\ st_ctr K s' = st_ctr K s /\
    st_debug K s' = st_debug K s /\ st_fix K s' = st_fix K s.
  Proof. cbn. rewrite drop_handle_fst. destruct (h_cbs K h); cbn; repeat split; auto. Qed.

  (* ---------------------------------------------------------------- delete_tables / invalidate *)
  Lemma delete_step_InvS s k : InvS s -> InvS (delete_step K keqb s k).
  Proof.
    intros I. unfold delete_step. destruct (aget (st_cache K s) k) eqn:E; auto.
    destruct (h_cbs K h && pname_eqb k (h_phys K h)); auto.
    apply drop_handle_InvS; auto. eapply iv_cache_cbs; eauto.
  Qed.
  Lemma delete_step_sound s k : InvS s -> Sound s -> Sound (delete_step K keqb s k).
  Proof.
    intros I Hs. unfold delete_step. destruct (aget (st_cache K s) k) eqn:E; auto.
    destruct (h_cbs K h && pname_eqb k (h_phys K h)); auto.
    apply drop_handle_sound; auto. eapply iv_cache_cbs; eauto.
  Qed.
  Lemma delete_step_shrinks s k p :
    amem (st_db K (delete_step K keqb s k)) p = true -> amem (st_db K s) p = true.
  Proof.
    unfold delete_step. destruct (aget (st_cache K s) k); auto.
    destruct (h_cbs K h && pname_eqb k (h_phys K h)); auto. apply drop_handle_db_shrinks.
  Qed.
  Lemma delete_step_removes s n k : InvS s -> amem (st_db K (delete_step K keqb s (PH n k))) (PH n k) = false.
  Proof.
    intros I. unfold delete_step. destruct (aget (st_cache K s) (PH n k)) as [h|] eqn:E.
    - destruct (iv_cache_h _ I _ _ _ E) as (Hp & Hc & _). rewrite Hc, Hp, pname_eqb_refl. cbn.
      rewrite drop_handle_fst, Hc. cbn. rewrite Hp, amem_aremove, pname_eqb_refl. auto.
    - destruct (amem (st_db K s) (PH n k)) eqn:Em; auto.
      apply (iv_db_h _ I) in Em. unfold Cache.amem in Em. rewrite E in Em. discriminate.
  Qed.

  Lemma delete_fold keys : forall s, InvS s ->
    let s' := fold_left (delete_step K keqb) keys s in
    InvS s' /\ (Sound s -> Sound s') /\
    (forall p, amem (st_db K s') p = true -> amem (st_db K s) p = true) /\
    (forall n k, In (PH n k) keys -> amem (st_db K s') (PH n k) = false).
  Proof.
    induction keys as [|k0 r IH]; cbn; intros s I.
    - split; [auto|split; [auto|split; [auto|]]]. intros ? ? [].
    - destruct (IH (delete_step K keqb s k0) (delete_step_InvS _ _ I)) as (I' & Hs' & Hsh & Hrm).
      split; [auto|split; [|split]].
      + intros Hs. apply Hs'. apply delete_step_sound; auto.
      + intros p Hp. eapply delete_step_shrinks. eauto.
      + intros n k [->|Hin]; auto.
        destruct (amem _ (PH n k)) eqn:Em; auto. apply Hsh in Em. rewrite delete_step_removes in Em; auto.
  Qed.

  Lemma delete_step_fields s k :
    let s' := delete_step K keqb s k in
    st_inputs K s' = st_inputs K s /\ st_tfcols K s' = st_tfcols K s /\ st_params K s' = st_params K s /\
    st_uid K s' = st_uid K s /\ st_luid K s' = st_luid K s /\ st_ctr K s' = st_ctr K s /\
    st_debug K s' = st_debug K s /\ st_fix K s' = st_fix K s.
  Proof.
    cbn. unfold delete_step. destruct (aget (st_cache K s) k); [|repeat split; auto].
    destruct (h_cbs K h && pname_eqb k (h_phys K h)); [apply drop_handle_fields|repeat split; auto].
  Qed.
  Lemma delete_fold_fields keys : forall s,
    let s' := fold_left (delete_step K keqb) keys s in
    st_inputs K s' = st_inputs K s /\ st_tfcols K s' = st_tfcols K s /\ st_params K s' = st_params K s /\
    st_uid K s' = st_uid K s /\ st_luid K s' = st_luid K s /\ st_ctr K s' = st_ctr K s /\
    st_debug K s' = st_debug K s /\ st_fix K s' = st_fix K s.
  Proof.
    induction keys as [|k0 r IH]; cbn; intros s; [repeat split; auto|].
    specialize (IH (delete_step K keqb s k0)). cbn in IH.
    pose proof (delete_step_fields s k0) as F. cbn in F.
    destruct IH as (a1&a2&a3&a4&a5&a6&a7&a8). destruct F as (b1&b2&b3&b4&b5&b6&b7&b8).
    repeat split; congruence.
  Qed.

  Lemma delete_tables_spec s : InvS s ->
    InvS (delete_tables K keqb s) /\ (Sound s -> Sound (delete_tables K keqb s)) /\ no_hashed (delete_tables K keqb s) /\
    (forall p, amem (st_db K (delete_tables K keqb s)) p = true -> amem (st_db K s) p = true).
  Proof.
    intros I. unfold delete_tables. destruct (delete_fold (map fst (st_cache K s)) s I) as (I' & Hs & Hsh & Hrm).
    split; [auto|split; [auto|split; [|auto]]]. intros n k.
    destruct (amem _ (PH n k)) eqn:Em; auto. pose proof (Hsh _ Em) as Hd. apply (iv_db_h _ I) in Hd.
    apply amem_true in Hd. destruct Hd as [h Hg]. apply aget_In_key in Hg. rewrite Hrm in Em; auto.
  Qed.

  Lemma InvS_set_luid_ctr s : InvS s -> InvS (set_luid_ctr K s (st_ctr K s) (S (st_ctr K s))).
  Proof.
    intros []. constructor; cbn; auto. intros b u H. apply iv_fresh0 in H. lia.
  Qed.

  Lemma invalidate_spec s : InvS s -> InvS (invalidate K keqb s) /\ no_hashed (invalidate K keqb s).
  Proof.
    intros I. unfold invalidate. destruct (st_cache K s) eqn:Ec.
    - split; auto. intros n k. destruct (amem (st_db K s) (PH n k)) eqn:Em; auto.
      apply (iv_db_h _ I) in Em. rewrite Ec in Em. discriminate.
    - clear Ec.
      destruct (delete_tables_spec _ (InvS_set_luid_ctr _ I)) as (I' & _ & Hn & _).
      split.
      + destruct I'. constructor; cbn; auto.
        * constructor.
        * intros n k h. discriminate.
        * intros key h. discriminate.
        * intros n k Hm. rewrite Hn in Hm. discriminate.
      + exact Hn.
  Qed.
  Lemma invalidate_fields s :
    let s' := invalidate K keqb s in
    st_inputs K s' = st_inputs K s /\ st_tfcols K s' = st_tfcols K s /\ st_params K s' = st_params K s /\
    st_uid K s' = st_uid K s /\ st_debug K s' = st_debug K s /\ st_fix K s' = st_fix K s.
  Proof.
    cbn. unfold invalidate. destruct (st_cache K s) eqn:Ec; [repeat split; auto|].
    unfold delete_tables. set (x := set_luid_ctr K s (st_ctr K s) (S (st_ctr K s))).
    pose proof (delete_fold_fields (map fst (st_cache K x)) x) as F. cbn in F.
    destruct F as (a1&a2&a3&a4&a5&a6&a7&a8). cbn. repeat split; auto.
  Qed.

  (* ---------------------------------------------------------------- exec_pipeline *)
  Opaque tfname CWTF CONCAT.
  Arguments Cache.aset : simpl never.
  Arguments Cache.aremove : simpl never.
  Arguments Cache.amem : simpl never.
  Arguments Cache.content : simpl never.
  Definition same_conf (s s' : state) : Prop :=
    st_inputs K s' = st_inputs K s /\ st_tfcols K s' = st_tfcols K s /\ st_params K s' = st_params K s /\
    st_uid K s' = st_uid K s /\ st_luid K s' = st_luid K s /\ st_ctr K s' = st_ctr K s /\
    st_debug K s' = st_debug K s /\ st_fix K s' = st_fix K s.
  Lemma same_conf_refl s : same_conf s s.
  Proof. unfold same_conf. tauto. Qed.
  Lemma same_conf_trans s1 s2 s3 : same_conf s1 s2 -> same_conf s2 s3 -> same_conf s1 s3.
  Proof. unfold same_conf. intros (a1&a2&a3&a4&a5&a6&a7&a8) (b1&b2&b3&b4&b5&b6&b7&b8). repeat split; congruence. Qed.

  Definition grows (s s' : state) : Prop :=
    same_leaves (st_db K s) (st_db K s') /\
    forall p, amem (st_db K s) p = true -> amem (st_db K s') p = true.
  Lemma grows_refl s : grows s s.
  Proof. split; [intros l; auto | auto]. Qed.

  Definition ph_of (s : state) (templ : string) (tree : sqlt) : pname := PH templ (hash tree (st_uid K s)).

  Lemma same_leaves_aset_hashed db n k e : same_leaves db (aset db (PH n k) e).
  Proof. intros l. rewrite aget_aset_other; auto. discriminate. Qed.

  Lemma exec_run_spec s templ tree :
    InvS s -> Sound s -> name_of tree = templ ->
    let r := exec_run K keqb hash s templ tree in
    let s' := fst (fst r) in let h := snd (fst r) in
    InvS s' /\ Sound s' /\ cbs_hashed h /\ same_conf s s' /\ grows s s' /\
    h_src K h = Mat tree /\ h_phys K h = ph_of s templ tree /\
    (forall key, key <> ph_of s templ tree -> aget (st_cache K s') key = aget (st_cache K s) key) /\
    (forallb (amem (st_db K s)) (direct_refs (st_uid K s) tree) = true ->
       h_cbs K h = true /\ content (st_db K s') (h_phys K h) = denote (st_db K s') tree /\
       aget (st_cache K s') (ph_of s templ tree) = Some h).
  Proof.
    intros I Hs Hn. unfold exec_run. fold (ph_of s templ tree).
    destruct (forallb (amem (st_db K s)) (direct_refs (st_uid K s) tree)) eqn:Er; cbn.
    - destruct (eval_denote _ _ _ Hs Er) as [Hev Hlv].
      set (ph := ph_of s templ tree).
      set (e := {| e_prov := eval (st_uid K s) (st_db K s) tree; e_origin := Splink |}).
      assert (Hsl : same_leaves (st_db K s) (aset (st_db K s) ph e)) by apply same_leaves_aset_hashed.
      split; [|split; [|split; [|split; [|split; [|split; [|split; [|split]]]]]]].
      + destruct I. constructor; cbn; auto.
        * apply NoDup_keys_aset. auto.
        * intros n k h. rewrite aget_aset. destruct (pname_eqb ph (PH n k)) eqn:E.
          -- apply pname_eqb_spec in E. intros Hh. inversion Hh; subst h. cbn. rewrite <- E.
             repeat split; auto.
             ++ rewrite amem_aset, pname_eqb_refl. auto.
             ++ exists tree. unfold ph, ph_of in E. inversion E. subst. auto.
          -- intros Hh. destruct (iv_cache_h0 _ _ _ Hh) as (a & b & c & d). repeat split; auto.
             rewrite amem_aset, c. apply orb_true_r.
        * intros key h. rewrite aget_aset. destruct (pname_eqb ph key).
          -- intros Hh. inversion Hh; subst. intros _. reflexivity.
          -- intros Hh. eapply iv_cache_cbs0; eauto.
        * intros n k. rewrite !amem_aset. destruct (pname_eqb ph (PH n k)); cbn; auto.
        * intros b u. rewrite amem_aset. unfold ph, ph_of. cbn. apply iv_fresh0.
        * intros l Hin. rewrite amem_aset. unfold ph, ph_of. cbn. auto.
      + intros n k e0. cbn. rewrite aget_aset. destruct (pname_eqb ph (PH n k)) eqn:E.
        * apply pname_eqb_spec in E. intros He. inversion He; subst e0. exists tree.
          unfold ph, ph_of in E. inversion E. split; [auto|split; [congruence|split]].
          -- unfold e. cbn. rewrite Hev. apply denote_same_leaves. auto.
          -- intros l Hin. rewrite amem_aset. unfold ph, ph_of. cbn. auto.
        * intros He. destruct (Hs _ _ _ He) as (t & a & b & c & d). exists t. repeat split; auto.
          -- rewrite c. apply denote_same_leaves. auto.
          -- intros l Hin. rewrite amem_aset. unfold ph, ph_of. cbn. auto.
      + intros _. reflexivity.
      + unfold same_conf. cbn. tauto.
      + split; auto. intros p Hp. cbn. rewrite amem_aset, Hp. apply orb_true_r.
      + reflexivity.
      + reflexivity.
      + intros key Hk. cbn. rewrite aget_aset_other; auto.
      + intros _. cbn. split; [auto|split].
        * unfold Cache.content. rewrite aget_aset_same. unfold e. cbn. rewrite Hev. apply denote_same_leaves. auto.
        * apply aget_aset_same.
    - split; [auto|split; [auto|split; [|split; [apply same_conf_refl|split; [apply grows_refl|]]]]].
      + intros H. cbn in H. discriminate.
      + repeat split; auto; discriminate.
  Qed.

  (* summary of one exec_pipeline call in normal (non debug) mode *)
  Lemma exec_pipeline_spec s templ tree al mids uc :
    InvS s -> Sound s -> name_of tree = templ ->
    let r := exec_pipeline K keqb hash s templ tree al mids uc in
    let s' := fst (fst r) in let h := snd (fst r) in
    InvS s' /\ Sound s' /\ cbs_hashed h /\ same_conf s s' /\ grows s s' /\
    (forall l, aget (st_cache K s') (PL l) = aget (st_cache K s) (PL l)).
  Proof.
    intros I Hs Hn. unfold exec_pipeline. rewrite (iv_nodebug _ I).
    assert (Hrun : let r := exec_run K keqb hash s templ tree in
                   let s' := fst (fst r) in let h := snd (fst r) in
                   InvS s' /\ Sound s' /\ cbs_hashed h /\ same_conf s s' /\ grows s s' /\
                   (forall l, aget (st_cache K s') (PL l) = aget (st_cache K s) (PL l))).
    { destruct (exec_run_spec s templ tree I Hs Hn) as (a & b & c & d & e & _ & _ & f & _).
      cbn. repeat (split; auto). intros l. apply f. unfold ph_of. discriminate. }
    assert (Hsame : forall h, cbs_hashed h ->
                    InvS s /\ Sound s /\ cbs_hashed h /\ same_conf s s /\ grows s s /\
                    (forall l, aget (st_cache K s) (PL l) = aget (st_cache K s) (PL l))).
    { intros h Hh. repeat (split; auto); try apply same_conf_refl; apply grows_refl. }
    destruct uc; [|exact Hrun].
    destruct (aget (st_cache K s) (named templ)) eqn:E1; [cbn; apply Hsame; eapply iv_cache_cbs; eauto|].
    destruct (aget (st_cache K s) (PH templ (hash tree (st_uid K s)))) eqn:E2; [cbn; apply Hsame; eapply iv_cache_cbs; eauto|].
    destruct (amem (st_db K s) (PH templ (hash tree (st_uid K s)))); [cbn; apply Hsame; intros H; discriminate|].
    exact Hrun.
  Qed.
  (* ---------------------------------------------------------------- named entries, registrations *)
  Lemma InvS_set_named s l h :
    InvS s -> cbs_hashed h -> InvS (set_cache K s (aset (st_cache K s) (PL l) h)).
  Proof.
    intros [] Hh. constructor; cbn; auto.
    - apply NoDup_keys_aset. auto.
    - intros n k h0. rewrite aget_aset_other by discriminate. auto.
    - intros key h0. rewrite aget_aset. destruct (pname_eqb (PL l) key); [intros E; inversion E; subst; auto | eauto].
    - intros n k Hm. rewrite amem_aset. cbn. auto.
  Qed.

  Lemma InvS_register_leaf s l e c' :
    InvS s -> amem (st_db K s) (PL l) = false -> st_ctr K s <= c' ->
    (forall b u, l = LUid b u -> u < c') ->
    InvS (set_luid_ctr K (set_db K s (aset (st_db K s) (PL l) e)) (st_luid K s) c').
  Proof.
    intros [] Hnew Hc Hl. constructor; cbn; auto.
    - intros n k h Hg. destruct (iv_cache_h0 _ _ _ Hg) as (a & b & c & d). repeat split; auto.
      rewrite amem_aset, c. apply orb_true_r.
    - intros n k. rewrite amem_aset. cbn. auto.
    - intros b u. rewrite amem_aset. destruct (pname_eqb (PL l) (PL (LUid b u))) eqn:E; cbn.
      + apply pname_eqb_spec in E. inversion E. intros _. eapply Hl; eauto.
      + intros Hm. apply iv_fresh0 in Hm. lia.
    - lia.
    - intros l0 Hin. rewrite amem_aset, iv_inputs0 by auto. apply orb_true_r.
  Qed.

  Lemma sound_register_leaf uid db l e :
    sound uid db -> amem db (PL l) = false -> sound uid (aset db (PL l) e).
  Proof.
    intros Hs Hnew n k e0. rewrite aget_aset_other by discriminate. intros He.
    destruct (Hs _ _ _ He) as (t & a & b & c & d). exists t. repeat split; auto.
    - rewrite c. apply denote_ext. intros l0 Hin. rewrite content_aset_other; auto.
      intros E. inversion E; subst. rewrite (d _ Hin) in Hnew. discriminate.
    - intros l0 Hin. rewrite amem_aset, (d _ Hin). apply orb_true_r.
  Qed.

  Lemma evict_cwtf_inv s : InvS s -> InvS (evict_cwtf K keqb s) /\ (Sound s -> Sound (evict_cwtf K keqb s)) /\
                            same_conf s (evict_cwtf K keqb s).
  Proof.
    intros I. unfold evict_cwtf. destruct (aget (st_cache K s) (named CWTF)) eqn:E; [|split; [auto|split; [auto|apply same_conf_refl]]].
    destruct (h_cbs K h) eqn:Ec; [|split; [auto|split; [auto|apply same_conf_refl]]].
    pose proof (iv_cache_cbs _ I _ _ E) as Hh.
    split; [apply drop_handle_InvS; auto|split; [intros; apply drop_handle_sound; auto|]].
    pose proof (drop_handle_fields s h). cbn in H. unfold same_conf. tauto.
  Qed.

  (* ---------------------------------------------------------------- one instruction *)
  Definition regs_ok (regs : list handle) : Prop := Forall cbs_hashed regs.

  Definition plain (i : instr) : Prop :=
    match i with IChangeInput _ | ISecondLinker _ _ _ | ISetDebug _ | IInvalidateKeepResults | IRegisterTFOverwrite _ _ | ISetLeaf _ _ => False
    | _ => True end.

  Lemma regs_ok_app regs h : regs_ok regs -> cbs_hashed h -> regs_ok (regs ++ [h]).
  Proof. intros. apply Forall_app. split; auto. Qed.

  Lemma Sound_uid s s' : st_uid K s' = st_uid K s -> st_db K s' = st_db K s -> Sound s -> Sound s'.
  Proof. unfold Sound. intros -> ->. auto. Qed.

  Lemma step_instr_inv s regs tr i :
    plain i -> InvS s -> Sound s -> regs_ok regs ->
    let r := step_instr K keqb hash (s, regs, tr) i in
    InvS (fst (fst r)) /\ Sound (fst (fst r)) /\ regs_ok (snd (fst r)) /\ st_uid K (fst (fst r)) = st_uid K s /\
    st_inputs K (fst (fst r)) = st_inputs K s /\ st_tfcols K (fst (fst r)) = st_tfcols K s /\
    st_fix K (fst (fst r)) = st_fix K s.
  Proof.
    intros Hp I Hs Hr. destruct i; cbn -[exec_pipeline invalidate delete_tables evict_cwtf drop_handle]; try contradiction.
    - (* INamedOrExec *)
      destruct (aget (st_cache K s) (named n)) eqn:E; cbn -[exec_pipeline].
      + repeat (split; auto). apply regs_ok_app; auto. eapply iv_cache_cbs; eauto.
      + set (r := resolve_all K keqb s regs ins).
        pose proof (exec_pipeline_spec s n (the_tree n p r) (r_aliases r) (r_inline r ++ mids) true I Hs eq_refl) as H.
        destruct (exec_pipeline K keqb hash s n (the_tree n p r) (r_aliases r) (r_inline r ++ mids) true) as [[s1 h] ev].
        cbn in H. destruct H as (I1 & S1 & Hh & Hc & _ & _). cbn.
        destruct Hc as (c1 & c2 & c3 & c4 & c5 & c6 & c7 & c8).
        split; [apply InvS_set_named; auto|]. split; [eapply Sound_uid; [| |exact S1]; auto|].
        split; [apply regs_ok_app; auto|]. auto.
    - (* IExec *)
      set (r := resolve_all K keqb s regs ins).
      pose proof (exec_pipeline_spec s n (the_tree n p r) (r_aliases r) (r_inline r ++ mids) use_cache I Hs eq_refl) as H.
      destruct (exec_pipeline K keqb hash s n (the_tree n p r) (r_aliases r) (r_inline r ++ mids) use_cache) as [[s1 h] ev].
      cbn in H. destruct H as (I1 & S1 & Hh & Hc & _ & _). cbn.
      destruct Hc as (c1 & c2 & c3 & c4 & c5 & c6 & c7 & c8).
      repeat (split; auto). apply regs_ok_app; auto.
    - (* IComputeConcat *)
      destruct (aget (st_cache K s) (named CONCAT)) eqn:E; cbn -[exec_pipeline].
      + repeat (split; auto). apply regs_ok_app; auto. eapply iv_cache_cbs; eauto.
      + destruct (aget (st_cache K s) (named CWTF)) eqn:E2; cbn -[exec_pipeline].
        * repeat (split; auto). apply regs_ok_app; auto. pose proof (iv_cache_cbs _ I _ _ E2) as Hh. exact Hh.
        * pose proof (exec_pipeline_spec s CONCAT (concat_tree K s) [] [] true I Hs eq_refl) as H.
          destruct (exec_pipeline K keqb hash s CONCAT (concat_tree K s) [] [] true) as [[s1 h] ev].
          cbn in H. destruct H as (I1 & S1 & Hh & Hc & _ & _). cbn.
          destruct Hc as (c1 & c2 & c3 & c4 & c5 & c6 & c7 & c8).
          split; [apply InvS_set_named; auto|]. split; [eapply Sound_uid; [| |exact S1]; auto|].
          split; [apply regs_ok_app; auto|]. auto.
    - (* IFreshUid *)
      split; [|repeat (split; auto)]. destruct I. constructor; cbn; auto. intros b u H. apply iv_fresh0 in H. lia.
    - (* IDrop *)
      destruct (nth_error regs i) eqn:E; cbn; [|repeat (split; auto)].
      assert (Hh : cbs_hashed h). { unfold regs_ok in Hr. rewrite Forall_forall in Hr. apply Hr. eapply nth_error_In; eauto. }
      pose proof (drop_handle_fields s h) as F. cbn in F.
      destruct (drop_handle K keqb s h) as [s1 ev] eqn:Ed. cbn.
      assert (s1 = fst (drop_handle K keqb s h)) by (rewrite Ed; auto). subst s1.
      split; [apply drop_handle_InvS; auto|]. split; [apply drop_handle_sound; auto|]. tauto.
    - (* IRegisterTF *)
      destruct (amem (st_db K s) (PL (LUid (tfname c) (st_luid K s)))) eqn:Em; cbn -[evict_cwtf]; [repeat (split; auto)|].
      set (l := LUid (tfname c) (st_luid K s)).
      set (h := {| h_templ := tfname c; h_phys := PL l; h_src := Leaf l; h_cbs := false |}).
      set (e := {| e_prov := PLookup c ver; e_origin := Caller |}).
      assert (I1 : InvS (set_db K s (aset (st_db K s) (PL l) e))).
      { pose proof (InvS_register_leaf s l e (st_ctr K s) I Em (le_n _)) as H.
        assert (Hl : forall b u, l = LUid b u -> u < st_ctr K s).
        { intros b u E. inversion E; subst. apply (iv_luid _ I). }
        specialize (H Hl). destruct s; exact H. }
      assert (S1 : Sound (set_db K s (aset (st_db K s) (PL l) e))).
      { unfold Sound. cbn. apply sound_register_leaf; auto. }
      assert (I2 : InvS (set_cache K (set_db K s (aset (st_db K s) (PL l) e))
                                   (aset (st_cache K (set_db K s (aset (st_db K s) (PL l) e))) (named (tfname c)) h))).
      { apply InvS_set_named; auto. intros H. discriminate. }
      destruct (fx77 (st_fix K s)).
      + destruct (evict_cwtf_inv _ I2) as (a & b & c0).
        split; [auto|]. split; [apply b; eapply Sound_uid; [| |exact S1]; auto|].
        split; [auto|]. unfold same_conf in c0. cbn -[evict_cwtf] in c0 |- *. tauto.
      + split; [auto|]. split; [eapply Sound_uid; [| |exact S1]; auto|]. cbn. auto.
    - (* IRegisterRecords *)
      set (l := LUid base (st_ctr K s)).
      set (e := {| e_prov := PRecords (st_ctr K s); e_origin := Caller |}).
      assert (Em : amem (st_db K s) (PL l) = false).
      { destruct (amem (st_db K s) (PL l)) eqn:Em; auto. apply (iv_fresh _ I) in Em. lia. }
      split.
      + apply (InvS_register_leaf s l e (S (st_ctr K s)) I Em); [lia|]. intros b u E. inversion E. lia.
      + split; [unfold Sound; cbn; apply sound_register_leaf; auto|].
        split; [apply regs_ok_app; auto; intros H; discriminate|]. cbn. auto.
    - (* ISetParams *)
      split; [destruct I; constructor; auto|]. repeat (split; auto).
    - (* IInvalidate *)
      destruct (invalidate_spec s I) as [I1 Hn].
      split; [auto|]. split; [apply no_hashed_sound; auto|]. split; [auto|].
      pose proof (invalidate_fields s) as F. cbn in F. tauto.
    - (* IDeleteTables *)
      destruct (delete_tables_spec s I) as (I1 & S1 & _ & _).
      pose proof (delete_fold_fields (map fst (st_cache K s)) s) as F. cbn in F. unfold delete_tables.
      split; [exact I1|]. split; [apply S1; auto|]. split; [auto|]. tauto.
  Qed.
  (* ---------------------------------------------------------------- programs and operations *)
  Definition Inv (s : state) : Prop := InvS s /\ Sound s.

  Lemma run_prog_inv prog : forall s regs tr,
    Forall plain prog -> InvS s -> Sound s -> regs_ok regs ->
    let r := fold_left (step_instr K keqb hash) prog (s, regs, tr) in
    InvS (fst (fst r)) /\ Sound (fst (fst r)) /\ regs_ok (snd (fst r)) /\ st_uid K (fst (fst r)) = st_uid K s /\
    st_inputs K (fst (fst r)) = st_inputs K s /\ st_tfcols K (fst (fst r)) = st_tfcols K s /\
    st_fix K (fst (fst r)) = st_fix K s.
  Proof.
    induction prog as [|i r IH]; cbn -[step_instr]; intros s regs tr Hp I Hs Hr.
    - repeat (split; auto).
    - inversion Hp; subst.
      pose proof (step_instr_inv s regs tr i H1 I Hs Hr) as H.
      destruct (step_instr K keqb hash (s, regs, tr) i) as [[s1 regs1] tr1]. cbn in H.
      destruct H as (I1 & S1 & R1 & u1 & i1 & t1 & f1).
      specialize (IH s1 regs1 tr1 H2 I1 S1 R1). cbn -[step_instr] in IH.
      destruct IH as (a & b & c & d & e & f & g). repeat (split; auto); congruence.
  Qed.

  Lemma InvS_change_input s ver :
    InvS s ->
    InvS (set_db K s (fold_left (fun d l => aset d (PL l) {| e_prov := PInput (lbase l) ver; e_origin := User |})
                                (st_inputs K s) (st_db K s))).
  Proof.
    intros I.
    assert (G : forall ls db,
               (forall p, amem db p = true -> amem (st_db K s) p = true) ->
               (forall p, amem (st_db K s) p = true -> amem db p = true) ->
               (forall l, In l ls -> amem (st_db K s) (PL l) = true) ->
               let db' := fold_left (fun d l => aset d (PL l) {| e_prov := PInput (lbase l) ver; e_origin := User |}) ls db in
               (forall p, amem db' p = true -> amem (st_db K s) p = true) /\
               (forall p, amem (st_db K s) p = true -> amem db' p = true)).
    { induction ls as [|l r IH]; cbn; intros db H1 H2 H3; [auto|]. apply IH; auto.
      - intros p. rewrite amem_aset. destruct (pname_eqb (PL l) p) eqn:E; cbn; auto.
        apply pname_eqb_spec in E. subst. auto.
      - intros p Hp. rewrite amem_aset, (H2 _ Hp). apply orb_true_r. }
    destruct (G (st_inputs K s) (st_db K s)) as [G1 G2]; auto; [apply (iv_inputs _ I)|].
    destruct I. constructor; cbn; auto.
    - intros n k h Hg. destruct (iv_cache_h0 _ _ _ Hg) as (a & b & c & d). repeat split; auto.
    - intros b u Hm. apply G1 in Hm. eauto.
  Qed.

  Lemma prog_plain s o :
    op_ok_hashed o = true -> (forall v, o <> ChangeInputInvalidate v) -> Forall plain (prog_of_op K s o).
  Proof.
    intros Hok Hne. destruct o; cbn in Hok; try discriminate; cbn; unfold predict_prog;
      repeat (apply Forall_cons || apply Forall_nil || apply Forall_app || split); try exact Logic.I; cbn; auto.
    exfalso. eapply Hne. reflexivity.
  Qed.

  Lemma step_inv s o :
    op_ok_hashed o = true -> Inv s ->
    Inv (step K keqb hash s o) /\ st_uid K (step K keqb hash s o) = st_uid K s /\
    st_inputs K (step K keqb hash s o) = st_inputs K s /\ st_tfcols K (step K keqb hash s o) = st_tfcols K s /\
    st_fix K (step K keqb hash s o) = st_fix K s.
  Proof.
    intros Hok [I Hs]. unfold step, run_op, run_prog.
    destruct o; try (cbn in Hok; discriminate); try (
      match goal with |- context [prog_of_op K s ?o] =>
        pose proof (run_prog_inv (prog_of_op K s o) s [] [] (prog_plain s o Hok ltac:(intros; discriminate)) I Hs (Forall_nil _)) as H
      end; cbn -[step_instr prog_of_op] in H; destruct H as (q1 & q2 & q3 & q4 & q5 & q6 & q7); unfold Inv; auto; fail).
    (* ChangeInputInvalidate *)
    cbn -[invalidate].
    pose proof (InvS_change_input s ver I) as I1.
    destruct (invalidate_spec _ I1) as [I2 Hn].
    split; [split; [exact I2|apply no_hashed_sound; exact Hn]|].
    match goal with |- context [invalidate K keqb ?x] => pose proof (invalidate_fields x) as F end.
    cbn -[invalidate] in F. tauto.
  Qed.

  Lemma run_inv ops : forall s,
    forallb op_ok_hashed ops = true -> Inv s ->
    Inv (run K keqb hash s ops) /\ st_uid K (run K keqb hash s ops) = st_uid K s /\
    st_inputs K (run K keqb hash s ops) = st_inputs K s /\ st_tfcols K (run K keqb hash s ops) = st_tfcols K s /\
    st_fix K (run K keqb hash s ops) = st_fix K s.
  Proof.
    induction ops as [|o r IH]; cbn; intros s Hok Hi; [auto|].
    apply andb_true_iff in Hok. destruct Hok as [H1 H2].
    destruct (step_inv s o H1 Hi) as (Hi1 & a & b & c & d).
    destruct (IH _ H2 Hi1) as (Hi2 & a' & b' & c' & d'). unfold run in *. repeat (split; auto); congruence.
  Qed.

  (* ---------------------------------------------------------------- initial state *)
  Definition inputs_plain (inputs : list lname) : Prop :=
    forall l, In l inputs -> exists n, l = LPlain n.

  Lemma input_db_hashed inputs ver n k : aget (input_db K inputs ver) (PH n k) = None.
  Proof. unfold input_db. induction inputs; cbn; auto. Qed.
  Lemma input_db_leaf inputs ver l :
    aget (input_db K inputs ver) (PL l) =
    if existsb (lname_eqb l) inputs then Some {| e_prov := PInput (lbase l) ver; e_origin := User |} else None.
  Proof.
    unfold input_db. induction inputs as [|a r IH]; cbn; auto.
    destruct (lname_eqb a l) eqn:E.
    - apply lname_eqb_spec in E. subst. rewrite lname_eqb_refl. auto.
    - rewrite IH. destruct (lname_eqb l a) eqn:E2; auto. apply lname_eqb_spec in E2. subst. rewrite lname_eqb_refl in E. discriminate.
  Qed.

  Lemma init_inv inputs ver tfcols params uid luid fx :
    inputs_plain inputs -> Inv (init_state K inputs ver tfcols params uid luid fx).
  Proof.
    intros Hp. split.
    - constructor; cbn; auto.
      + constructor.
      + intros n k h. discriminate.
      + intros key h. discriminate.
      + intros n k. unfold Cache.amem. rewrite input_db_hashed. discriminate.
      + intros b u. unfold Cache.amem. rewrite input_db_leaf.
        destruct (existsb _ inputs) eqn:E; [|discriminate].
        apply existsb_exists in E. destruct E as (l & Hin & El). apply lname_eqb_spec in El. subst.
        destruct (Hp _ Hin). discriminate.
      + intros l Hin. unfold Cache.amem. rewrite input_db_leaf.
        assert (E : existsb (lname_eqb l) inputs = true) by (apply existsb_exists; exists l; split; auto; apply lname_eqb_refl).
        rewrite E. auto.
    - apply no_hashed_sound. intros n k. unfold Cache.amem. cbn. rewrite input_db_hashed. auto.
  Qed.

  (* ---------------------------------------------------------------- C07_hashed_entries_sound *)
  Theorem hashed_entries_sound inputs ver tfcols params uid luid fx ops :
    inputs_plain inputs -> forallb op_ok_hashed ops = true ->
    let s := run K keqb hash (init_state K inputs ver tfcols params uid luid fx) ops in
    forall n k h, aget (st_cache K s) (PH n k) = Some h ->
      exists t, h_src K h = Mat t /\ h_phys K h = PH n k /\ k = hash t (st_uid K s) /\ n = name_of t /\
                content (st_db K s) (h_phys K h) = denote (st_db K s) t.
  Proof.
    intros Hp Hok s n k h Hg.
    destruct (run_inv ops _ Hok (init_inv inputs ver tfcols params uid luid fx Hp)) as ([I Hs] & _).
    fold s in I, Hs. destruct (iv_cache_h _ I _ _ _ Hg) as (a & b & c & t & d & e & f).
    exists t. repeat (split; auto). rewrite a. apply amem_true in c. destruct c as [e0 He].
    unfold Cache.content. rewrite He. destruct (Hs _ _ _ He) as (t' & Hk & _ & Hpv & _).
    rewrite e in Hk. apply hash_inj in Hk. destruct Hk as [<- _]. auto.
  Qed.
  (* ================================================================ predict = closed-form spec *)
  Definition concat_spec (s : state) : prov :=
    derive CONCAT 0 (map (fun l => content (st_db K s) (PL l)) (st_inputs K s)).
  (* content of the lookup registered for column c, if any *)
  Definition lookup_of (s : state) (c : string) : option prov :=
    match aget (st_cache K s) (named (tfname c)) with
    | Some h => if is_hashed K (h_phys K h) then None else Some (content (st_db K s) (h_phys K h))
    | None => None
    end.
  Definition tf_spec (s : state) (c : string) : prov :=
    match lookup_of s c with Some v => v | None => derive (tfname c) 0 [concat_spec s] end.
  Definition cwtf_spec (s : state) : prov := derive CWTF 0 (concat_spec s :: map (tf_spec s) (st_tfcols K s)).
  Definition predict_spec (s : state) : prov :=
    derive PREDICT (st_params K s) [derive BLOCKED 0 [cwtf_spec s]; cwtf_spec s].

  Definition hashed_ok (s : state) (h : handle) (n : string) (v : prov) : Prop :=
    exists t, h_src K h = Mat t /\ name_of t = n /\ h_phys K h = PH n (hash t (st_uid K s)) /\ h_cbs K h = true /\
              amem (st_db K s) (h_phys K h) = true /\ denote (st_db K s) t = v.
  Definition lookup_ok (s : state) (h : handle) : Prop :=
    exists l, h_phys K h = PL l /\ h_src K h = Leaf l /\ h_cbs K h = false /\ amem (st_db K s) (PL l) = true.

  (* [strict]: the cached concat_with_tf is the one the current lookups denote; the weak form (strict = False)
     holds between the two steps of the repaired register_term_frequency_lookup *)
  Record NamedOKg (strict : Prop) (s : state) : Prop := {
    nk_keys : forall l h, aget (st_cache K s) (PL l) = Some h ->
              l = LPlain CWTF \/ l = LPlain CONCAT \/ exists c, l = LPlain (tfname c);
    nk_cwtf : forall h, aget (st_cache K s) (named CWTF) = Some h ->
              exists v, hashed_ok s h CWTF v /\ (strict -> v = cwtf_spec s);
    nk_concat : forall h, aget (st_cache K s) (named CONCAT) = Some h -> hashed_ok s h CONCAT (concat_spec s);
    nk_tf : forall c h, aget (st_cache K s) (named (tfname c)) = Some h ->
              hashed_ok s h (tfname c) (derive (tfname c) 0 [concat_spec s]) \/ lookup_ok s h
  }.
  Notation NamedOK := (NamedOKg True).

  (* registered leaves keep their rows *)
  Definition leaves_stable (s s' : state) : Prop :=
    forall l, amem (st_db K s) (PL l) = true -> aget (st_db K s') (PL l) = aget (st_db K s) (PL l).
  Definition extends (s s' : state) : Prop :=
    leaves_stable s s' /\ (forall p, amem (st_db K s) p = true -> amem (st_db K s') p = true).
  Lemma grows_extends s s' : grows s s' -> extends s s'.
  Proof. intros [H1 H2]. split; [intros l _; symmetry; apply H1 | auto]. Qed.

  Lemma hashed_leaves s h n v : Sound s -> hashed_ok s h n v ->
    exists t, h_src K h = Mat t /\ forall l, In l (leaves t) -> amem (st_db K s) (PL l) = true.
  Proof.
    intros Hs (t & a & b & c & d & e & f). exists t. split; auto.
    rewrite c in e. apply amem_true in e. destruct e as [e0 He].
    destruct (Hs _ _ _ He) as (t' & Hk & _ & _ & Hl). apply hash_inj in Hk. destruct Hk as [<- _]. auto.
  Qed.

  Lemma denote_stable s s' t :
    leaves_stable s s' -> (forall l, In l (leaves t) -> amem (st_db K s) (PL l) = true) ->
    denote (st_db K s') t = denote (st_db K s) t.
  Proof. intros E Hl. apply denote_ext. intros l Hin. unfold Cache.content. rewrite E; auto. Qed.

  Lemma concat_spec_frame s s' :
    InvS s -> leaves_stable s s' -> st_inputs K s' = st_inputs K s -> concat_spec s' = concat_spec s.
  Proof.
    intros I E Hi. unfold concat_spec. rewrite Hi. f_equal. apply map_ext_in. intros l Hin. unfold Cache.content.
    rewrite E; auto. apply (iv_inputs _ I). auto.
  Qed.

  Lemma cwtf_spec_frame s s' :
    concat_spec s' = concat_spec s -> (forall c, lookup_of s' c = lookup_of s c) ->
    st_tfcols K s' = st_tfcols K s -> cwtf_spec s' = cwtf_spec s.
  Proof.
    intros C L Ht. unfold cwtf_spec. rewrite Ht, C. f_equal. f_equal.
    apply map_ext. intros c. unfold tf_spec. rewrite L, C. auto.
  Qed.

  Lemma lookup_of_frame St s s' :
    NamedOKg St s -> (forall l, aget (st_cache K s') (PL l) = aget (st_cache K s) (PL l)) -> leaves_stable s s' ->
    forall c, lookup_of s' c = lookup_of s c.
  Proof.
    intros N Hc E c. unfold lookup_of, Cache.named. rewrite Hc.
    destruct (aget (st_cache K s) (PL (LPlain (tfname c)))) eqn:Eg; auto.
    destruct (is_hashed K (h_phys K h)) eqn:Eh; auto.
    destruct (nk_tf _ _ N _ _ Eg) as [(t & _ & _ & Hp & _)|(l & Hp & _ & _ & Hm)]; [rewrite Hp in Eh; discriminate|].
    rewrite Hp. unfold Cache.content. rewrite E; auto.
  Qed.

  Lemma hashed_ok_frame s s' h n v :
    Sound s -> leaves_stable s s' -> st_uid K s' = st_uid K s -> amem (st_db K s') (h_phys K h) = true ->
    hashed_ok s h n v -> hashed_ok s' h n v.
  Proof.
    intros Hs Hx Hu Hm Hh. destruct (hashed_leaves _ _ _ _ Hs Hh) as (t0 & Ht0 & Hl).
    destruct Hh as (t & a & b & c & d & e & f). rewrite a in Ht0. inversion Ht0; subst t0.
    exists t. rewrite Hu. repeat (split; auto). rewrite <- f. apply denote_stable; auto.
  Qed.

  (* general frame: named entries may disappear, the remaining ones keep their tables *)
  Lemma NamedOK_frame_gen St s s' :
    InvS s -> Sound s -> NamedOKg St s ->
    (forall l h, aget (st_cache K s') (PL l) = Some h -> aget (st_cache K s) (PL l) = Some h) ->
    (forall l h, aget (st_cache K s') (PL l) = Some h -> amem (st_db K s') (h_phys K h) = true) ->
    (forall c, lookup_of s' c = lookup_of s c) ->
    leaves_stable s s' ->
    st_uid K s' = st_uid K s -> st_inputs K s' = st_inputs K s -> st_tfcols K s' = st_tfcols K s ->
    NamedOKg St s'.
  Proof.
    intros I Hs N Hc Hm L Hx Hu Hi Ht.
    pose proof (concat_spec_frame s s' I Hx Hi) as C.
    pose proof (cwtf_spec_frame s s' C L Ht) as W.
    constructor.
    - intros l h Hg. apply Hc in Hg. eapply (nk_keys _ _ N); eauto.
    - intros h Hg. pose proof (Hm _ _ Hg) as Hm'. apply Hc in Hg. destruct (nk_cwtf _ _ N _ Hg) as (v & Hv & Hst).
      exists v. split; [eapply hashed_ok_frame; eauto | rewrite W; auto].
    - intros h Hg. pose proof (Hm _ _ Hg) as Hm'. apply Hc in Hg. rewrite C. eapply hashed_ok_frame; eauto. apply (nk_concat _ _ N). auto.
    - intros c h Hg. rewrite C. pose proof (Hm _ _ Hg) as Hm'. apply Hc in Hg.
      destruct (nk_tf _ _ N _ _ Hg) as [Hh|(l & a & b & d & e)]; [left; eapply hashed_ok_frame; eauto|].
      right. exists l. repeat (split; auto). rewrite <- a. auto.
  Qed.

  Lemma named_in_db St s l h : NamedOKg St s -> aget (st_cache K s) (PL l) = Some h -> amem (st_db K s) (h_phys K h) = true.
  Proof.
    intros N Hg. destruct (nk_keys _ _ N _ _ Hg) as [->|[->|[c ->]]].
    - destruct (nk_cwtf _ _ N _ Hg) as (v & (t & _ & _ & _ & _ & e & _) & _). auto.
    - destruct (nk_concat _ _ N _ Hg) as (t & _ & _ & _ & _ & e & _). auto.
    - destruct (nk_tf _ _ N _ _ Hg) as [(t & _ & _ & _ & _ & e & _)|(l0 & a & _ & _ & e)]; [auto|rewrite a; auto].
  Qed.

  Lemma NamedOK_frame St s s' :
    InvS s -> Sound s -> NamedOKg St s ->
    (forall l, aget (st_cache K s') (PL l) = aget (st_cache K s) (PL l)) -> extends s s' ->
    st_uid K s' = st_uid K s -> st_inputs K s' = st_inputs K s -> st_tfcols K s' = st_tfcols K s ->
    NamedOKg St s'.
  Proof.
    intros I Hs N Hc [Hx Hm] Hu Hi Ht. apply (NamedOK_frame_gen St s s'); auto.
    - intros l h. rewrite Hc. auto.
    - intros l h. rewrite Hc. intros Hg. apply Hm. eapply named_in_db; eauto.
    - eapply lookup_of_frame; eauto.
  Qed.

  (* ---------------------------------------------------------------- drop keeps the named invariant *)
  Lemma NamedOK_drop St s h :
    InvS s -> Sound s -> NamedOKg St s -> cbs_hashed h -> NamedOKg St (fst (drop_handle K keqb s h)).
  Proof.
    intros I Hs N Hh. rewrite drop_handle_fst. destruct (h_cbs K h) eqn:Ec; auto.
    specialize (Hh Ec). destruct (h_phys K h) as [l0|n0 k0] eqn:Ep; [discriminate|].
    set (s' := set_cache K (set_db K s (aremove (st_db K s) (PH n0 k0))) (cache_remove_phys K keqb (st_cache K s) (PH n0 k0))).
    assert (Hg : forall key, aget (st_cache K s') key =
                 match aget (st_cache K s) key with
                 | Some h' => if pname_eqb (h_phys K h') (PH n0 k0) then None else Some h'
                 | None => None end).
    { intros key. unfold s'. cbn. unfold cache_remove_phys. rewrite aget_filter by apply (iv_nodup _ I).
      destruct (aget (st_cache K s) key) eqn:E; auto. cbn. destruct (pname_eqb (h_phys K h0) (PH n0 k0)); auto. }
    apply (NamedOK_frame_gen St s s'); auto.
    - intros l h'. rewrite Hg. destruct (aget (st_cache K s) (PL l)); [|discriminate].
      destruct (pname_eqb (h_phys K h0) (PH n0 k0)); [discriminate|auto].
    - intros l h'. rewrite Hg. destruct (aget (st_cache K s) (PL l)) eqn:E; [|discriminate].
      destruct (pname_eqb (h_phys K h0) (PH n0 k0)) eqn:E2; [discriminate|]. intros H. inversion H; subst h0.
      unfold s'. cbn. rewrite amem_aremove.
      assert (Hne : pname_eqb (PH n0 k0) (h_phys K h') = false).
      { destruct (pname_eqb (PH n0 k0) (h_phys K h')) eqn:E3; auto. apply pname_eqb_spec in E3. rewrite <- E3, pname_eqb_refl in E2. discriminate. }
      rewrite Hne. cbn. eapply named_in_db; eauto.
    - intros c. unfold lookup_of. rewrite Hg. fold (named (tfname c)).
      destruct (aget (st_cache K s) (named (tfname c))) eqn:E; auto.
      destruct (pname_eqb (h_phys K h0) (PH n0 k0)) eqn:E2.
      + apply pname_eqb_spec in E2. rewrite E2. auto.
      + destruct (is_hashed K (h_phys K h0)) eqn:Eh; auto.
        destruct (h_phys K h0) as [l1|] eqn:Ep0; [|discriminate].
        unfold s'. cbn. rewrite content_aremove_other; auto. discriminate.
    - intros l _. unfold s'. cbn. apply aget_aremove_other. discriminate.
  Qed.

  (* ---------------------------------------------------------------- result of one (cached) pipeline *)
  Lemma exec_result s templ tree al mids :
    InvS s -> Sound s -> name_of tree = templ ->
    aget (st_cache K s) (named templ) = None ->
    forallb (amem (st_db K s)) (direct_refs (st_uid K s) tree) = true ->
    let r := exec_pipeline K keqb hash s templ tree al mids true in
    let s' := fst (fst r) in let h := snd (fst r) in
    h_src K h = Mat tree /\ h_phys K h = PH templ (hash tree (st_uid K s)) /\ h_cbs K h = true /\
    amem (st_db K s') (h_phys K h) = true /\ content (st_db K s') (h_phys K h) = denote (st_db K s') tree.
  Proof.
    intros I Hs Hn Hnone Hr. unfold exec_pipeline. rewrite (iv_nodebug _ I), Hnone.
    destruct (aget (st_cache K s) (PH templ (hash tree (st_uid K s)))) eqn:E.
    - cbn. destruct (iv_cache_h _ I _ _ _ E) as (a & b & c & t & d & e & f).
      apply hash_inj in e. destruct e as [<- _]. rewrite a. repeat (split; auto).
      apply amem_true in c. destruct c as [e0 He]. unfold Cache.content. rewrite He.
      destruct (Hs _ _ _ He) as (t' & Hk & _ & Hp & _). apply hash_inj in Hk. destruct Hk as [<- _]. auto.
    - destruct (amem (st_db K s) (PH templ (hash tree (st_uid K s)))) eqn:Em.
      + apply (iv_db_h _ I) in Em. unfold Cache.amem in Em. rewrite E in Em. discriminate.
      + destruct (exec_run_spec s templ tree I Hs Hn) as (_ & _ & _ & _ & _ & a & b & _ & c).
        destruct (c Hr) as (c1 & c2 & c3). cbn in *. unfold ph_of in *. repeat (split; auto).
        rewrite b. destruct (exec_run_spec s templ tree I Hs Hn) as (I' & _). 
        destruct (iv_cache_h _ I' _ _ _ c3) as (_ & _ & x & _). auto.
  Qed.
  (* ---------------------------------------------------------------- storing named entries *)
  Lemma weak_absent St s : NamedOKg St s -> aget (st_cache K s) (named CWTF) = None -> NamedOK s.
  Proof.
    intros N Ha. constructor; [apply (nk_keys _ _ N)| |apply (nk_concat _ _ N)|apply (nk_tf _ _ N)]. intros h Hg. rewrite Ha in Hg. discriminate.
  Qed.
  Lemma NamedOK_weaken St s : NamedOKg St s -> NamedOKg False s.
  Proof.
    intros N. constructor; [apply (nk_keys _ _ N)| |apply (nk_concat _ _ N)|apply (nk_tf _ _ N)].
    intros h Hg. destruct (nk_cwtf _ _ N _ Hg) as (v & Hv & _). exists v. split; auto. intros [].
  Qed.

  Lemma named_inj a b : named a = named b -> a = b.
  Proof. unfold Cache.named. intros H. congruence. Qed.
  Lemma PL_LPlain_inj a l : named a = PL l -> l = LPlain a.
  Proof. unfold Cache.named. intros H. congruence. Qed.
  Lemma named_tf_neq_cwtf c : named (tfname c) <> named CWTF.
  Proof. intros H. apply named_inj in H. eapply tf_not_cwtf; eauto. Qed.

  Lemma named_tf_neq_concat c : named (tfname c) <> named CONCAT.
  Proof. intros H. apply named_inj in H. eapply tf_not_concat; eauto. Qed.
  Lemma named_cwtf_neq_concat : named CWTF <> named CONCAT.
  Proof. intros H. apply named_inj in H. apply cwtf_not_concat. auto. Qed.

  Lemma lookup_of_set_other s c c' h :
    c' <> c -> lookup_of (set_cache K s (aset (st_cache K s) (named (tfname c)) h)) c' = lookup_of s c'.
  Proof.
    intros Hne. unfold lookup_of. cbn. rewrite aget_aset_other; auto.
    intros H. apply named_inj in H. apply tfname_inj in H. auto.
  Qed.

  (* compute_tf_table / register_term_frequency_lookup store a named term-frequency entry *)
  Lemma NamedOK_set_tf St s c h :
    NamedOKg St s ->
    hashed_ok s h (tfname c) (derive (tfname c) 0 [concat_spec s]) \/ lookup_ok s h ->
    let s' := set_cache K s (aset (st_cache K s) (named (tfname c)) h) in
    NamedOKg False s' /\
    ((forall c', In c' (st_tfcols K s) -> lookup_of s' c' = lookup_of s c') -> NamedOKg St s').
  Proof.
    intros N Hh s'.
    assert (C : concat_spec s' = concat_spec s) by reflexivity.
    assert (Hk : forall l h0, aget (st_cache K s') (PL l) = Some h0 ->
                 l = LPlain CWTF \/ l = LPlain CONCAT \/ exists c0, l = LPlain (tfname c0)).
    { intros l h0. unfold s'. cbn. rewrite aget_aset. destruct (pname_eqb (named (tfname c)) (PL l)) eqn:E.
      - apply pname_eqb_spec in E. apply PL_LPlain_inj in E. intros _. right. right. eauto.
      - apply (nk_keys _ _ N). }
    assert (Hcc : forall h0, aget (st_cache K s') (named CONCAT) = Some h0 -> hashed_ok s' h0 CONCAT (concat_spec s')).
    { intros h0. unfold s'. cbn. rewrite aget_aset_other by (intros X; symmetry in X; apply named_tf_neq_concat in X; auto).
      apply (nk_concat _ _ N). }
    assert (Htf : forall c0 h0, aget (st_cache K s') (named (tfname c0)) = Some h0 ->
                  hashed_ok s' h0 (tfname c0) (derive (tfname c0) 0 [concat_spec s']) \/ lookup_ok s' h0).
    { intros c0 h0. unfold s'. cbn. rewrite aget_aset. destruct (pname_eqb (named (tfname c)) (named (tfname c0))) eqn:E.
      - apply pname_eqb_spec in E. apply named_inj in E. apply tfname_inj in E. subst c0. intros H. inversion H; subst h0. exact Hh.
      - apply (nk_tf _ _ N). }
    assert (Hcw : forall h0, aget (st_cache K s') (named CWTF) = Some h0 -> aget (st_cache K s) (named CWTF) = Some h0).
    { intros h0. unfold s'. cbn. rewrite aget_aset_other; auto. intros X. symmetry in X. apply named_tf_neq_cwtf in X. auto. }
    split.
    - constructor; auto. intros h0 Hg. apply Hcw in Hg. destruct (nk_cwtf _ _ N _ Hg) as (v & Hv & _).
      exists v. split; [exact Hv|intros []].
    - intros L. constructor; auto. intros h0 Hg. apply Hcw in Hg. destruct (nk_cwtf _ _ N _ Hg) as (v & Hv & Hst).
      exists v. split; [exact Hv|]. intros X. rewrite (Hst X). unfold cwtf_spec. rewrite C. f_equal. f_equal.
      change (st_tfcols K s') with (st_tfcols K s). apply map_ext_in. intros c' Hin. unfold tf_spec. rewrite L, C; auto.
  Qed.

  Lemma NamedOK_set_cwtf St s h :
    NamedOKg St s -> hashed_ok s h CWTF (cwtf_spec s) ->
    NamedOK (set_cache K s (aset (st_cache K s) (named CWTF) h)).
  Proof.
    intros N Hh. set (s' := set_cache K s (aset (st_cache K s) (named CWTF) h)).
    assert (L : forall c, lookup_of s' c = lookup_of s c).
    { intros c. unfold lookup_of, s'. cbn. rewrite aget_aset_other; auto. apply named_tf_neq_cwtf. }
    assert (C : concat_spec s' = concat_spec s) by reflexivity.
    assert (W : cwtf_spec s' = cwtf_spec s) by (apply cwtf_spec_frame; auto).
    constructor.
    - intros l h0. unfold s'. cbn. rewrite aget_aset. destruct (pname_eqb (named CWTF) (PL l)) eqn:E.
      + apply pname_eqb_spec in E. apply PL_LPlain_inj in E. auto.
      + apply (nk_keys _ _ N).
    - intros h0. unfold s'. cbn. rewrite aget_aset_same. intros H. inversion H; subst h0.
      exists (cwtf_spec s). split; [exact Hh|]. intros _. symmetry. exact W.
    - intros h0. unfold s'. cbn. rewrite aget_aset_other by (intros X; symmetry in X; apply named_cwtf_neq_concat in X; auto).
      apply (nk_concat _ _ N).
    - intros c h0. unfold s'. cbn. rewrite aget_aset_other by apply named_tf_neq_cwtf. apply (nk_tf _ _ N).
  Qed.

  Lemma NamedOK_set_concat St s h :
    NamedOKg St s -> hashed_ok s h CONCAT (concat_spec s) ->
    NamedOKg St (set_cache K s (aset (st_cache K s) (named CONCAT) h)).
  Proof.
    intros N Hh. set (s' := set_cache K s (aset (st_cache K s) (named CONCAT) h)).
    assert (L : forall c, lookup_of s' c = lookup_of s c).
    { intros c. unfold lookup_of, s'. cbn. rewrite aget_aset_other; auto. apply named_tf_neq_concat. }
    assert (C : concat_spec s' = concat_spec s) by reflexivity.
    assert (W : cwtf_spec s' = cwtf_spec s) by (apply cwtf_spec_frame; auto).
    constructor.
    - intros l h0. unfold s'. cbn. rewrite aget_aset. destruct (pname_eqb (named CONCAT) (PL l)) eqn:E.
      + apply pname_eqb_spec in E. apply PL_LPlain_inj in E. auto.
      + apply (nk_keys _ _ N).
    - intros h0. unfold s'. cbn. rewrite aget_aset_other by apply named_cwtf_neq_concat. intros Hg.
      destruct (nk_cwtf _ _ N _ Hg) as (v & Hv & Hst). exists v. split; [exact Hv|]. fold s'. rewrite W. exact Hst.
    - intros h0. unfold s'. cbn. rewrite aget_aset_same. intros H. inversion H; subst h0. exact Hh.
    - intros c h0. unfold s'. cbn. rewrite aget_aset_other by apply named_tf_neq_concat. apply (nk_tf _ _ N).
  Qed.

  (* ---------------------------------------------------------------- trees built by the two named computations *)
  Lemma forallb_flat_map {A B} (f : B -> bool) (g : A -> list B) l :
    forallb f (flat_map g l) = forallb (fun x => forallb f (g x)) l.
  Proof. induction l; cbn; auto. rewrite forallb_app, IHl. auto. Qed.

  Lemma denote_concat_tree s : denote (st_db K s) (concat_tree K s) = concat_spec s.
  Proof. unfold concat_tree, concat_spec. cbn. rewrite map_map. auto. Qed.
  Lemma ready_concat_tree s : InvS s -> forallb (amem (st_db K s)) (direct_refs (st_uid K s) (concat_tree K s)) = true.
  Proof.
    intros I. unfold concat_tree. cbn. rewrite forallb_flat_map. apply forallb_forall. intros t Hin.
    apply in_map_iff in Hin. destruct Hin as (l & <- & Hl). cbn. rewrite (iv_inputs _ I); auto.
  Qed.

  Definition tf_tree (s : state) (c : string) : sqlt :=
    match aget (st_cache K s) (named (tfname c)) with
    | Some h => h_src K h
    | None => Cte (tfname c) 0 [concat_tree K s]
    end.

  Lemma resolve_tf_trees s regs cols :
    r_trees (fold_right (fun x acc => r_app (resolve K keqb s regs x) acc) r_nil (map RTfOrInline cols)) = map (tf_tree s) cols.
  Proof.
    induction cols as [|c r IH]; cbn; auto. rewrite IH. f_equal. unfold tf_tree.
    destruct (aget (st_cache K s) (named (tfname c))); auto.
  Qed.

  Lemma tf_tree_ok St s c :
    InvS s -> NamedOKg St s ->
    denote (st_db K s) (tf_tree s c) = tf_spec s c /\
    forallb (amem (st_db K s)) (direct_refs (st_uid K s) (tf_tree s c)) = true.
  Proof.
    intros I N. unfold tf_tree, tf_spec, lookup_of.
    destruct (aget (st_cache K s) (named (tfname c))) eqn:E.
    - destruct (nk_tf _ _ N _ _ E) as [(t & a & b & d & e & f & g)|(l & a & b & d & e)].
      + rewrite a, d. cbn. rewrite b, <- d, f. auto.
      + rewrite a, b. cbn. rewrite e. auto.
    - split.
      + change (denote (st_db K s) (Cte (tfname c) 0 [concat_tree K s]))
          with (derive (tfname c) 0 [denote (st_db K s) (concat_tree K s)]).
        rewrite denote_concat_tree. auto.
      + change (direct_refs (st_uid K s) (Cte (tfname c) 0 [concat_tree K s]))
          with (direct_refs (st_uid K s) (concat_tree K s) ++ []).
        rewrite app_nil_r. apply ready_concat_tree; auto.
  Qed.

  Definition cwtf_tree (s : state) : sqlt := Cte CWTF 0 (concat_tree K s :: map (tf_tree s) (st_tfcols K s)).

  Lemma cwtf_tree_ok St s :
    InvS s -> NamedOKg St s ->
    denote (st_db K s) (cwtf_tree s) = cwtf_spec s /\
    forallb (amem (st_db K s)) (direct_refs (st_uid K s) (cwtf_tree s)) = true.
  Proof.
    intros I N. unfold cwtf_tree, cwtf_spec. split.
    - cbn [Cache.denote map]. fold (denote (st_db K s)). rewrite denote_concat_tree. f_equal. f_equal. rewrite map_map.
      apply map_ext. intros c. apply (tf_tree_ok St s c I N).
    - cbn [Cache.direct_refs flat_map]. rewrite forallb_app. rewrite (ready_concat_tree s I). cbn.
      rewrite forallb_flat_map. apply forallb_forall. intros t Hin. apply in_map_iff in Hin. destruct Hin as (c & <- & _).
      apply (tf_tree_ok St s c I N).
  Qed.

  Lemma resolve_cwtf s regs :
    the_tree CWTF 0 (resolve_all K keqb s regs (RConcatInline :: map RTfOrInline (st_tfcols K s))) = cwtf_tree s.
  Proof. unfold the_tree, resolve_all, cwtf_tree. cbn. rewrite resolve_tf_trees. auto. Qed.
  (* ---------------------------------------------------------------- one instruction, named invariant *)
  Definition iguard (s : state) (i : instr) : Prop :=
    match i with
    | INamedOrExec n p ins _ =>
        (n = CWTF /\ p = 0 /\ ins = RConcatInline :: map RTfOrInline (st_tfcols K s)) \/
        (exists c, n = tfname c /\ p = 0 /\ ins = [RConcat])
    | IExec n _ _ _ _ => is_named_name n = false
    | IRegisterTF c _ =>
        fx77 (st_fix K s) = true \/ aget (st_cache K s) (named CWTF) = None \/
        amem (st_db K s) (PL (LUid (tfname c) (st_luid K s))) = true \/ ~ In c (st_tfcols K s)
    | _ => True
    end.

  Lemma not_named_absent St s n : NamedOKg St s -> is_named_name n = false -> aget (st_cache K s) (named n) = None.
  Proof.
    intros N Hn. destruct (not_named_neq n Hn) as (a & b & c). destruct (aget (st_cache K s) (named n)) eqn:E; auto.
    destruct (nk_keys _ _ N _ _ E) as [H|[H|[c0 H]]]; exfalso; [apply a | apply b | apply (c c0)]; congruence.
  Qed.

  Lemma invalidate_cache_nil s : st_cache K (invalidate K keqb s) = [].
  Proof. unfold invalidate. destruct (st_cache K s) eqn:E; auto. Qed.

  Lemma NamedOK_nil St s : st_cache K s = [] -> NamedOKg St s.
  Proof. intros E. constructor; intros; rewrite E in *; discriminate. Qed.

  Lemma delete_fold_named St keys : forall s, InvS s -> Sound s -> NamedOKg St s ->
    NamedOKg St (fold_left (delete_step K keqb) keys s).
  Proof.
    induction keys as [|k r IH]; cbn; intros s I Hs N; auto.
    apply IH; [apply delete_step_InvS; auto | apply delete_step_sound; auto |].
    unfold delete_step. destruct (aget (st_cache K s) k) eqn:E; auto.
    destruct (h_cbs K h && pname_eqb k (h_phys K h)); auto.
    apply NamedOK_drop; auto. eapply iv_cache_cbs; eauto.
  Qed.

  Lemma grows_leaves_denote s s' t : grows s s' -> denote (st_db K s') t = denote (st_db K s) t.
  Proof. intros [H _]. symmetry. apply denote_same_leaves. auto. Qed.

  (* the tree compute_tf_table builds *)
  Lemma tf_compute_tree_ok s regs c :
    InvS s -> NamedOK s ->
    let T := the_tree (tfname c) 0 (resolve_all K keqb s regs [RConcat]) in
    name_of T = tfname c /\ denote (st_db K s) T = derive (tfname c) 0 [concat_spec s] /\
    forallb (amem (st_db K s)) (direct_refs (st_uid K s) T) = true.
  Proof.
    intros I N. unfold the_tree, resolve_all. cbn [fold_right]. unfold resolve.
    destruct (aget (st_cache K s) (named CONCAT)) eqn:E0.
    { destruct (nk_concat _ _ N _ E0) as (t & a & b & d & e & f & g).
      cbn [r_app r_trees r_handle r_nil app]. rewrite a. split; [reflexivity|]. split.
      - cbn [Cache.denote map]. fold (denote (st_db K s)). rewrite g. auto.
      - cbn [Cache.direct_refs flat_map app forallb]. rewrite b, <- d, f. auto. }
    destruct (aget (st_cache K s) (named CWTF)) eqn:E.
    - destruct (nk_cwtf _ _ N _ E) as (v & (t & a & b & d & e & f & g) & Hv). specialize (Hv Logic.I). rewrite Hv in g.
      cbn [r_app r_trees r_nil app]. rewrite a. split; [reflexivity|]. split.
      + cbn [Cache.denote map]. fold (denote (st_db K s)). rewrite g. unfold cwtf_spec.
        rewrite (derive_other CWTF) by apply cwtf_not_concat. rewrite derive_alias. auto.
      + cbn [Cache.direct_refs flat_map app forallb]. rewrite b, <- d, f. auto.
    - cbn [r_app r_trees r_nil r_tree app]. split; [reflexivity|]. split.
      + change (denote (st_db K s) (Cte (tfname c) 0 [concat_tree K s]))
          with (derive (tfname c) 0 [denote (st_db K s) (concat_tree K s)]).
        rewrite denote_concat_tree. auto.
      + change (direct_refs (st_uid K s) (Cte (tfname c) 0 [concat_tree K s]))
          with (direct_refs (st_uid K s) (concat_tree K s) ++ []).
        rewrite app_nil_r. apply ready_concat_tree; auto.
  Qed.

  Lemma step_instr_named s regs tr i :
    plain i -> iguard s i -> InvS s -> Sound s -> NamedOK s -> regs_ok regs ->
    NamedOK (fst (fst (step_instr K keqb hash (s, regs, tr) i))).
  Proof.
    intros Hp Hg I Hs N Hr.
    destruct i; cbn -[exec_pipeline invalidate delete_tables evict_cwtf drop_handle resolve_all] in *; try contradiction.
    - (* INamedOrExec *)
      destruct (aget (st_cache K s) (named n)) eqn:E; cbn -[exec_pipeline resolve_all]; [exact N|].
      set (r := resolve_all K keqb s regs ins).
      pose proof (exec_pipeline_spec s n (the_tree n p r) (r_aliases r) (r_inline r ++ mids) true I Hs eq_refl) as H.
      destruct Hg as [(-> & -> & ->)|(c & -> & -> & ->)].
      + (* concat_with_tf *)
        unfold r in *. rewrite resolve_cwtf in *.
        destruct (cwtf_tree_ok _ s I N) as [Hd Hrd].
        pose proof (exec_result s CWTF (cwtf_tree s) (r_aliases (resolve_all K keqb s regs (RConcatInline :: map RTfOrInline (st_tfcols K s))))
                                (r_inline (resolve_all K keqb s regs (RConcatInline :: map RTfOrInline (st_tfcols K s))) ++ mids) I Hs eq_refl E Hrd) as R.
        destruct (exec_pipeline K keqb hash s CWTF (cwtf_tree s) _ _ true) as [[s1 h] ev].
        cbn in H, R |- *. destruct H as (I1 & S1 & Hh & Hc & Hgr & Hpl). destruct R as (r1 & r2 & r3 & r4 & r5).
        destruct Hc as (c1 & c2 & c3 & c4 & c5 & c6 & c7 & c8).
        assert (N1 : NamedOK s1) by (apply (NamedOK_frame True s s1); auto; apply grows_extends; auto).
        apply (NamedOK_set_cwtf True s1 h N1).
        exists (cwtf_tree s). rewrite c4. repeat (split; auto).
        rewrite (grows_leaves_denote s s1) by auto. rewrite Hd. symmetry.
        apply cwtf_spec_frame; auto.
        * apply concat_spec_frame; auto. destruct (grows_extends _ _ Hgr); auto.
        * apply (lookup_of_frame True); auto. destruct (grows_extends _ _ Hgr); auto.
      + (* compute_tf_table *)
        destruct (tf_compute_tree_ok s regs c I N) as (Hn & Hd & Hrd). fold r in Hn, Hd, Hrd.
        pose proof (exec_result s (tfname c) (the_tree (tfname c) 0 r) (r_aliases r) (r_inline r ++ mids) I Hs Hn E Hrd) as R.
        destruct (exec_pipeline K keqb hash s (tfname c) (the_tree (tfname c) 0 r) _ _ true) as [[s1 h] ev].
        cbn in H, R |- *. destruct H as (I1 & S1 & Hh & Hc & Hgr & Hpl). destruct R as (r1 & r2 & r3 & r4 & r5).
        destruct Hc as (c1 & c2 & c3 & c4 & c5 & c6 & c7 & c8).
        assert (N1 : NamedOK s1) by (apply (NamedOK_frame True s s1); auto; apply grows_extends; auto).
        assert (C1 : concat_spec s1 = concat_spec s).
        { apply concat_spec_frame; auto. destruct (grows_extends _ _ Hgr); auto. }
        assert (Hok : hashed_ok s1 h (tfname c) (derive (tfname c) 0 [concat_spec s1])).
        { exists (the_tree (tfname c) 0 r). rewrite c4, C1. repeat (split; auto).
          rewrite (grows_leaves_denote s s1) by auto. exact Hd. }
        destruct (NamedOK_set_tf True s1 c h N1 (or_introl Hok)) as [_ Hstrict]. apply Hstrict.
        intros c' Hin. destruct (string_dec c' c) as [->|Hne]; [|apply lookup_of_set_other; auto].
        transitivity (@None prov).
        * unfold lookup_of. cbn [st_cache set_cache]. rewrite aget_aset_same, r2. reflexivity.
        * unfold lookup_of. unfold Cache.named. rewrite Hpl. fold (named (tfname c)). rewrite E. reflexivity.
    - (* IExec *)
      set (r := resolve_all K keqb s regs ins).
      pose proof (exec_pipeline_spec s n (the_tree n p r) (r_aliases r) (r_inline r ++ mids) use_cache I Hs eq_refl) as H.
      destruct (exec_pipeline K keqb hash s n (the_tree n p r) (r_aliases r) (r_inline r ++ mids) use_cache) as [[s1 h] ev].
      cbn in H |- *. destruct H as (I1 & S1 & Hh & Hc & Hgr & Hpl).
      destruct Hc as (c1 & c2 & c3 & c4 & c5 & c6 & c7 & c8).
      apply (NamedOK_frame True s s1); auto. apply grows_extends; auto.
    - (* IComputeConcat *)
      destruct (aget (st_cache K s) (named CONCAT)) eqn:E; cbn -[exec_pipeline]; [exact N|].
      destruct (aget (st_cache K s) (named CWTF)) eqn:E2; cbn -[exec_pipeline]; [exact N|].
      pose proof (exec_pipeline_spec s CONCAT (concat_tree K s) [] [] true I Hs eq_refl) as H.
      pose proof (exec_result s CONCAT (concat_tree K s) [] [] I Hs eq_refl E (ready_concat_tree s I)) as R.
      destruct (exec_pipeline K keqb hash s CONCAT (concat_tree K s) [] [] true) as [[s1 h] ev].
      cbn in H, R |- *. destruct H as (I1 & S1 & Hh & Hc & Hgr & Hpl). destruct R as (r1 & r2 & r3 & r4 & r5).
      destruct Hc as (c1 & c2 & c3 & c4 & c5 & c6 & c7 & c8).
      assert (N1 : NamedOK s1) by (apply (NamedOK_frame True s s1); auto; apply grows_extends; auto).
      apply (NamedOK_set_concat True s1 h N1).
      exists (concat_tree K s). rewrite c4. repeat (split; auto).
      rewrite (grows_leaves_denote s s1) by auto. rewrite denote_concat_tree. symmetry.
      apply concat_spec_frame; auto. destruct (grows_extends _ _ Hgr); auto.
    - (* IFreshUid *)
      constructor; [apply (nk_keys _ _ N)|apply (nk_cwtf _ _ N)|apply (nk_concat _ _ N)|apply (nk_tf _ _ N)].
    - (* IDrop *)
      destruct (nth_error regs i) eqn:E; cbn; [|exact N].
      assert (Hh : cbs_hashed h). { unfold regs_ok in Hr. rewrite Forall_forall in Hr. apply Hr. eapply nth_error_In; eauto. }
      destruct (drop_handle K keqb s h) as [s1 ev] eqn:Ed. cbn.
      assert (s1 = fst (drop_handle K keqb s h)) by (rewrite Ed; auto). subst s1. apply NamedOK_drop; auto.
    - (* IRegisterTF *)
      destruct (amem (st_db K s) (PL (LUid (tfname c) (st_luid K s)))) eqn:Em; cbn -[evict_cwtf]; [exact N|].
      set (l := LUid (tfname c) (st_luid K s)) in *.
      set (h := {| h_templ := tfname c; h_phys := PL l; h_src := Leaf l; h_cbs := false |}).
      set (e := {| e_prov := PLookup c ver; e_origin := Caller |}).
      set (s1 := set_db K s (aset (st_db K s) (PL l) e)).
      assert (I1 : InvS s1).
      { pose proof (InvS_register_leaf s l e (st_ctr K s) I Em (le_n _)) as H.
        assert (Hl : forall b u, l = LUid b u -> u < st_ctr K s).
        { intros b u E. inversion E; subst. apply (iv_luid _ I). }
        specialize (H Hl). destruct s; exact H. }
      assert (S1 : Sound s1) by (unfold Sound, s1; cbn; apply sound_register_leaf; auto).
      assert (Hst : leaves_stable s s1).
      { intros l0 Hm. unfold s1. cbn. apply aget_aset_other. intros X. inversion X; subst. rewrite Hm in Em. discriminate. }
      assert (N1 : NamedOK s1).
      { apply (NamedOK_frame True s s1); auto. split; auto. intros p0 Hp0. unfold s1. cbn. rewrite amem_aset, Hp0. apply orb_true_r. }
      assert (Hlk : lookup_ok s1 h).
      { exists l. repeat (split; auto). unfold s1. cbn. rewrite amem_aset, pname_eqb_refl. auto. }
      destruct (NamedOK_set_tf True s1 c h N1 (or_intror Hlk)) as [Hweak Hstrict].
      set (s2 := set_cache K s1 (aset (st_cache K s1) (named (tfname c)) h)) in *.
      assert (I2 : InvS s2) by (apply InvS_set_named; auto; intros X; discriminate).
      assert (S2 : Sound s2) by (eapply Sound_uid; [| |exact S1]; auto).
      assert (Hcw : aget (st_cache K s2) (named CWTF) = aget (st_cache K s) (named CWTF)).
      { unfold s2, s1. cbn. apply aget_aset_other. intros X. symmetry in X. apply named_tf_neq_cwtf in X. auto. }
      destruct (fx77 (st_fix K s)) eqn:Efx.
      + (* repaired tree: the stale concat_with_tf is dropped *)
        change (NamedOK (evict_cwtf K keqb s2)). unfold evict_cwtf. destruct (aget (st_cache K s2) (named CWTF)) eqn:E2; [|apply (weak_absent False); auto].
        destruct (nk_cwtf _ _ Hweak _ E2) as (v & (t & a & b & d & e0 & f & g) & _).
        rewrite e0. apply (weak_absent False).
        * apply NamedOK_drop; auto. eapply iv_cache_cbs; eauto.
        * rewrite drop_handle_fst, e0.
          change (aget (cache_remove_phys K keqb (st_cache K s2) (h_phys K h0)) (named CWTF) = None).
          unfold cache_remove_phys. rewrite aget_filter by apply (iv_nodup _ I2).
          rewrite E2. cbv beta. cbn [snd]. rewrite pname_eqb_refl. reflexivity.
      + change (NamedOK s2). destruct Hg as [X|[X|[X|X]]]; try discriminate.
        * apply (weak_absent False); auto. rewrite Hcw. auto.
        * apply Hstrict. intros c' Hin. apply lookup_of_set_other. intros ->. auto.
    - (* IRegisterRecords *)
      set (l := LUid base (st_ctr K s)).
      set (e := {| e_prov := PRecords (st_ctr K s); e_origin := Caller |}).
      assert (Em : amem (st_db K s) (PL l) = false).
      { destruct (amem (st_db K s) (PL l)) eqn:Em; auto. apply (iv_fresh _ I) in Em. lia. }
      apply (NamedOK_frame True s); auto; cbn; auto. split.
      + intros l0 Hm. cbn. apply aget_aset_other. intros X. inversion X; subst. rewrite Hm in Em. discriminate.
      + intros p0 Hp0. cbn. rewrite amem_aset, Hp0. apply orb_true_r.
    - (* ISetParams *)
      constructor; [apply (nk_keys _ _ N)|apply (nk_cwtf _ _ N)|apply (nk_concat _ _ N)|apply (nk_tf _ _ N)].
    - (* IInvalidate *)
      apply NamedOK_nil. apply invalidate_cache_nil.
    - (* IDeleteTables *)
      unfold delete_tables. apply delete_fold_named; auto.
  Qed.
  (* ---------------------------------------------------------------- programs, operations, histories *)
  Definition sguard (tfcols : list string) (i : instr) : Prop :=
    match i with
    | INamedOrExec n p ins _ =>
        (n = CWTF /\ p = 0 /\ ins = RConcatInline :: map RTfOrInline tfcols) \/
        (exists c, n = tfname c /\ p = 0 /\ ins = [RConcat])
    | IExec n _ _ _ _ => is_named_name n = false
    | IRegisterTF _ _ => False
    | _ => True
    end.
  Lemma sguard_iguard s i : sguard (st_tfcols K s) i -> iguard s i.
  Proof. destruct i; cbn; auto; contradiction. Qed.

  Definition Inv2 (s : state) : Prop := InvS s /\ Sound s /\ NamedOK s.

  Lemma run_prog_named prog : forall s regs tr,
    Forall plain prog -> Forall (sguard (st_tfcols K s)) prog -> Inv2 s -> regs_ok regs ->
    NamedOK (fst (fst (fold_left (step_instr K keqb hash) prog (s, regs, tr)))).
  Proof.
    induction prog as [|i r IH]; cbn -[step_instr]; intros s regs tr Hp Hg (I & Hs & N) Hr; auto.
    inversion Hp; subst. inversion Hg; subst.
    pose proof (step_instr_inv s regs tr i H1 I Hs Hr) as H.
    pose proof (step_instr_named s regs tr i H1 (sguard_iguard _ _ H3) I Hs N Hr) as HN.
    destruct (step_instr K keqb hash (s, regs, tr) i) as [[s1 regs1] tr1]. cbn in H, HN.
    destruct H as (I1 & S1 & R1 & u1 & i1 & t1 & f1).
    apply IH; [assumption | rewrite t1; assumption | split; [|split]; assumption | assumption].
  Qed.

  Lemma prog_sguard s o :
    op_ok_hashed o = true -> (forall v, o <> ChangeInputInvalidate v) -> (forall c v, o <> RegisterTF c v) ->
    Forall (sguard (st_tfcols K s)) (prog_of_op K s o).
  Proof.
    intros Hok H1 H2.
    destruct o; cbn in Hok; try discriminate; cbn -[is_named_name]; unfold predict_prog, cwtf_instr;
      repeat (apply Forall_cons || apply Forall_nil || apply Forall_app || split);
      cbn -[is_named_name]; auto; try (vm_compute; reflexivity).
    - right. eauto.
    - exfalso. eapply H2. reflexivity.
    - destruct flag; vm_compute; reflexivity.
  Qed.

  Lemma step_inv2 s o :
    op_ok K keqb s o = true -> Inv2 s -> Inv2 (step K keqb hash s o).
  Proof.
    intros Hok (I & Hs & N).
    assert (Hh : op_ok_hashed o = true).
    { unfold op_ok in Hok. unfold op_ok_hashed. apply andb_true_iff in Hok. destruct Hok as [Hok _]. exact Hok. }
    destruct (step_inv s o Hh (conj I Hs)) as ([I' Hs'] & _).
    split; [auto|split; [auto|]].
    unfold step, run_op, run_prog.
    destruct o; try (cbn in Hh; discriminate);
      try (apply run_prog_named; [apply prog_plain; auto; intros; discriminate
                                 | apply prog_sguard; auto; intros; discriminate
                                 | split; [|split]; assumption | constructor]; fail).
    - (* RegisterTF *)
      cbn -[step_instr]. apply step_instr_named; auto; [exact Logic.I| |constructor].
      cbn. unfold op_ok in Hok. apply andb_true_iff in Hok. destruct Hok as [_ Hr]. cbn in Hr.
      apply negb_true_iff in Hr. apply andb_false_iff in Hr. destruct Hr as [Hr|Hr].
      + apply andb_false_iff in Hr. destruct Hr as [Hr|Hr].
        * apply andb_false_iff in Hr. destruct Hr as [Hr|Hr].
          -- left. apply negb_false_iff in Hr. auto.
          -- right. left. unfold Cache.amem in Hr. destruct (aget (st_cache K s) (named CWTF)); [discriminate|auto].
        * right. right. left. apply negb_false_iff in Hr. auto.
      + right. right. right. intros Hin. assert (X : existsb (String.eqb c) (st_tfcols K s) = true).
        { apply existsb_exists. exists c. split; auto. apply String.eqb_refl. }
        rewrite X in Hr. discriminate.
    - (* ChangeInputInvalidate *)
      apply NamedOK_nil. cbn -[invalidate]. apply invalidate_cache_nil.
  Qed.

  Lemma run_inv2 ops : forall s, hist_ok K keqb hash s ops = true -> Inv2 s -> Inv2 (run K keqb hash s ops).
  Proof.
    induction ops as [|o r IH]; cbn; intros s Hok Hi; auto.
    apply andb_true_iff in Hok. destruct Hok as [H1 H2]. apply IH; auto. apply step_inv2; auto.
  Qed.

  Lemma hist_ok_hashed ops : forall s, hist_ok K keqb hash s ops = true -> forallb op_ok_hashed ops = true.
  Proof.
    induction ops as [|o r IH]; cbn; intros s Hok; auto.
    apply andb_true_iff in Hok. destruct Hok as [H1 H2]. rewrite (IH _ H2), andb_true_r.
    unfold op_ok in H1. apply andb_true_iff in H1. destruct H1 as [H1 _]. exact H1.
  Qed.

  Lemma init_inv2 inputs ver tfcols params uid luid fx :
    inputs_plain inputs -> Inv2 (init_state K inputs ver tfcols params uid luid fx).
  Proof.
    intros Hp. destruct (init_inv inputs ver tfcols params uid luid fx Hp) as [I Hs].
    split; [auto|split; [auto|]]. apply NamedOK_nil. reflexivity.
  Qed.
  (* ---------------------------------------------------------------- predict() in an invariant state *)
  Lemma cwtf_spec_set_cwtf s h : cwtf_spec (set_cache K s (aset (st_cache K s) (named CWTF) h)) = cwtf_spec s.
  Proof.
    apply cwtf_spec_frame; auto. intros c. unfold lookup_of. cbn. rewrite aget_aset_other; auto. apply named_tf_neq_cwtf.
  Qed.

  Lemma cwtf_step s regs tr :
    Inv2 s -> regs_ok regs ->
    exists s1 h0 tr1,
      step_instr K keqb hash (s, regs, tr) (cwtf_instr K s) = (s1, regs ++ [h0], tr1) /\
      Inv2 s1 /\ regs_ok (regs ++ [h0]) /\ hashed_ok s1 h0 CWTF (cwtf_spec s) /\
      st_uid K s1 = st_uid K s /\ st_params K s1 = st_params K s /\ leaves_stable s s1 /\
      (forall p, amem (st_db K s) p = true -> amem (st_db K s1) p = true).
  Proof.
    intros (I & Hs & N) Hr.
    pose proof (step_instr_inv s regs tr (cwtf_instr K s) Logic.I I Hs Hr) as H1.
    pose proof (step_instr_named s regs tr (cwtf_instr K s) Logic.I (or_introl (conj eq_refl (conj eq_refl eq_refl))) I Hs N Hr) as H2.
    unfold cwtf_instr in *. cbn -[exec_pipeline resolve_all] in *.
    destruct (aget (st_cache K s) (named CWTF)) eqn:E.
    - cbn in *. exists s, h, (tr ++ [Hit CWTF (pbase K (h_phys K h))]). split; [reflexivity|].
      destruct H1 as (a & b & c & _). split; [split; [|split]; auto|]. split; [auto|].
      destruct (nk_cwtf _ _ N _ E) as (v & Hv & Hst). rewrite (Hst Logic.I) in Hv.
      repeat (split; auto).
    - rewrite resolve_cwtf in *.
      set (al := r_aliases (resolve_all K keqb s regs (RConcatInline :: map RTfOrInline (st_tfcols K s)))) in *.
      set (inl := r_inline (resolve_all K keqb s regs (RConcatInline :: map RTfOrInline (st_tfcols K s))) ++ []) in *.
      pose proof (exec_pipeline_spec s CWTF (cwtf_tree s) al inl true I Hs eq_refl) as H.
      destruct (exec_pipeline K keqb hash s CWTF (cwtf_tree s) al inl true) as [[s1 h] ev].
      cbn in H, H1, H2 |- *. destruct H as (I1 & S1 & Hh & Hc & Hgr & Hpl).
      destruct Hc as (c1 & c2 & c3 & c4 & c5 & c6 & c7 & c8).
      exists (set_cache K s1 (aset (st_cache K s1) (named CWTF) h)), h, (tr ++ r_events (resolve_all K keqb s regs (RConcatInline :: map RTfOrInline (st_tfcols K s))) ++ ev).
      split; [reflexivity|]. destruct H1 as (a & b & c & _). split; [split; [|split]; auto|]. split; [auto|].
      assert (W : cwtf_spec (set_cache K s1 (aset (st_cache K s1) (named CWTF) h)) = cwtf_spec s).
      { rewrite cwtf_spec_set_cwtf. apply cwtf_spec_frame; auto.
        - apply concat_spec_frame; auto. destruct (grows_extends _ _ Hgr); auto.
        - apply (lookup_of_frame True); auto. destruct (grows_extends _ _ Hgr); auto. }
      split.
      + destruct (nk_cwtf _ _ H2 h) as (v & Hv & Hst); [cbn; apply aget_aset_same|].
        rewrite (Hst Logic.I), W in Hv. exact Hv.
      + cbn. destruct (grows_extends _ _ Hgr). repeat (split; auto).
  Qed.

  Lemma iexec_step s regs tr n p ins mids :
    Inv2 s -> regs_ok regs -> is_named_name n = false ->
    forallb (amem (st_db K s)) (direct_refs (st_uid K s) (the_tree n p (resolve_all K keqb s regs ins))) = true ->
    exists s1 h tr1,
      step_instr K keqb hash (s, regs, tr) (IExec n p ins mids true) = (s1, regs ++ [h], tr1) /\
      Inv2 s1 /\ regs_ok (regs ++ [h]) /\
      h_src K h = Mat (the_tree n p (resolve_all K keqb s regs ins)) /\
      h_phys K h = PH n (hash (the_tree n p (resolve_all K keqb s regs ins)) (st_uid K s)) /\
      h_cbs K h = true /\ amem (st_db K s1) (h_phys K h) = true /\
      content (st_db K s1) (h_phys K h) = denote (st_db K s1) (the_tree n p (resolve_all K keqb s regs ins)) /\
      st_uid K s1 = st_uid K s /\ st_params K s1 = st_params K s /\ grows s s1.
  Proof.
    intros (I & Hs & N) Hr Hn Hrd.
    pose proof (step_instr_inv s regs tr (IExec n p ins mids true) Logic.I I Hs Hr) as H1.
    pose proof (step_instr_named s regs tr (IExec n p ins mids true) Logic.I Hn I Hs N Hr) as H2.
    cbn -[exec_pipeline resolve_all] in *.
    set (r := resolve_all K keqb s regs ins) in *.
    pose proof (exec_pipeline_spec s n (the_tree n p r) (r_aliases r) (r_inline r ++ mids) true I Hs eq_refl) as H.
    pose proof (exec_result s n (the_tree n p r) (r_aliases r) (r_inline r ++ mids) I Hs eq_refl (not_named_absent _ s n N Hn) Hrd) as R.
    destruct (exec_pipeline K keqb hash s n (the_tree n p r) (r_aliases r) (r_inline r ++ mids) true) as [[s1 h] ev].
    cbn in H, H1, H2, R |- *. destruct H as (I1 & S1 & Hh & Hc & Hgr & Hpl).
    destruct Hc as (c1 & c2 & c3 & c4 & c5 & c6 & c7 & c8). destruct R as (r1 & r2 & r3 & r4 & r5).
    exists s1, h, (tr ++ r_events r ++ ev). split; [reflexivity|].
    destruct H1 as (a & b & c & _). split; [split; [|split]; auto|]. repeat (split; auto).
  Qed.

  Lemma nth_error_app_last {A} (l : list A) x : nth_error (l ++ [x]) (List.length l) = Some x.
  Proof. induction l; cbn; auto. Qed.

  Theorem predict_correct s : Inv2 s -> result_prov K keqb hash s Predict = predict_spec s.
  Proof.
    intros Hi. unfold result_prov, run_op, run_prog.
    change (prog_of_op K s Predict) with
      [cwtf_instr K s; IExec BLOCKED 0 [RReg 0] [] true;
       IExec PREDICT (st_params K s) [RReg 1; RReg 0] ["blocked_with_cols"; CVV; MWP] true; IDrop 1].
    cbn [fold_left].
    (* 1: __splink__df_concat_with_tf *)
    destruct (cwtf_step s [] [] Hi (Forall_nil _)) as (s1 & h0 & tr1 & E1 & Hi1 & Hr1 & Hh0 & u1 & p1 & _ & _).
    rewrite E1. cbn [app] in *.
    destruct Hh0 as (t0 & a0 & b0 & d0 & e0 & f0 & g0).
    (* 2: __splink__blocked_id_pairs *)
    assert (Hrd1 : forallb (amem (st_db K s1)) (direct_refs (st_uid K s1) (the_tree BLOCKED 0 (resolve_all K keqb s1 [h0] [RReg 0]))) = true).
    { cbn. rewrite a0. cbn. rewrite b0, <- d0, f0. auto. }
    destruct (iexec_step s1 [h0] tr1 BLOCKED 0 [RReg 0] [] Hi1 Hr1 ltac:(vm_compute; reflexivity) Hrd1)
      as (s2 & h1 & tr2 & E2 & Hi2 & Hr2 & a1 & d1 & e1 & f1 & g1 & u2 & p2 & Hg2).
    rewrite E2. cbn [app] in *.
    assert (T1 : the_tree BLOCKED 0 (resolve_all K keqb s1 [h0] [RReg 0]) = Cte BLOCKED 0 [Mat t0]).
    { cbn. rewrite a0. reflexivity. }
    rewrite T1 in *.
    (* 3: __splink__df_predict *)
    assert (T2 : the_tree PREDICT (st_params K s) (resolve_all K keqb s2 [h0; h1] [RReg 1; RReg 0])
                 = Cte PREDICT (st_params K s) [Mat (Cte BLOCKED 0 [Mat t0]); Mat t0]).
    { cbn. rewrite a0, a1. reflexivity. }
    assert (Hm0 : amem (st_db K s2) (h_phys K h0) = true) by (destruct Hg2 as [_ M]; apply M; auto).
    assert (Hrd2 : forallb (amem (st_db K s2)) (direct_refs (st_uid K s2)
                     (the_tree PREDICT (st_params K s) (resolve_all K keqb s2 [h0; h1] [RReg 1; RReg 0]))) = true).
    { rewrite T2. cbn. rewrite u2. rewrite <- d1, f1. rewrite b0, <- d0, Hm0. auto. }
    destruct (iexec_step s2 [h0; h1] tr2 PREDICT (st_params K s) [RReg 1; RReg 0] ["blocked_with_cols"; CVV; MWP] Hi2 Hr2
                         ltac:(vm_compute; reflexivity) Hrd2)
      as (s3 & h2 & tr3 & E3 & Hi3 & Hr3 & a2 & d2 & e2 & f2 & g2 & u3 & p3 & Hg3).
    rewrite E3. cbn [app].
    (* 4: drop the blocked pairs *)
    cbn -[drop_handle]. rewrite (surjective_pairing (drop_handle K keqb s3 h1)). cbn -[drop_handle].
    rewrite drop_handle_fst, e1. cbn.
    rewrite content_aremove_other.
    - rewrite g2, T2. cbn [Cache.denote map]. fold (denote (st_db K s3)).
      assert (D0 : denote (st_db K s3) t0 = cwtf_spec s).
      { rewrite (grows_leaves_denote s2 s3 t0 Hg3), (grows_leaves_denote s1 s2 t0 Hg2). exact g0. }
      rewrite D0. unfold predict_spec. reflexivity.
    - rewrite d2, d1. intros X. inversion X.
  Qed.
  (* ================================================================ the C07 theorems *)
  (* what predict() may depend on: the rows of the input tables, the model (tf columns, parameters)
     and the registered lookups *)
  Definition obs (s : state) : list prov * list string * list (option prov) * nat :=
    (map (fun l => content (st_db K s) (PL l)) (st_inputs K s), st_tfcols K s,
     map (lookup_of s) (st_tfcols K s), st_params K s).

  Lemma predict_spec_obs s1 s2 : obs s1 = obs s2 -> predict_spec s1 = predict_spec s2.
  Proof.
    unfold obs. intros H. injection H; intros Hp Hl Ht Hc.
    assert (C : concat_spec s1 = concat_spec s2) by (unfold concat_spec; rewrite Hc; auto).
    unfold predict_spec, cwtf_spec. rewrite Hp, C, <- Ht. clear Hp Hc H.
    assert (M : map (tf_spec s1) (st_tfcols K s1) = map (tf_spec s2) (st_tfcols K s1)).
    { rewrite <- Ht in Hl. clear Ht. induction (st_tfcols K s1) as [|c r IH]; cbn in *; auto.
      inversion Hl. rewrite IH by auto. unfold tf_spec. rewrite H0, C. auto. }
    rewrite M. auto.
  Qed.

  Theorem predict_depends_only_on_obs
          inputs1 ver1 tf1 p1 uid1 luid1 fx1 ops1 inputs2 ver2 tf2 p2 uid2 luid2 fx2 ops2 :
    inputs_plain inputs1 -> inputs_plain inputs2 ->
    let i1 := init_state K inputs1 ver1 tf1 p1 uid1 luid1 fx1 in
    let i2 := init_state K inputs2 ver2 tf2 p2 uid2 luid2 fx2 in
    hist_ok K keqb hash i1 ops1 = true -> hist_ok K keqb hash i2 ops2 = true ->
    obs (run K keqb hash i1 ops1) = obs (run K keqb hash i2 ops2) ->
    result_prov K keqb hash (run K keqb hash i1 ops1) Predict =
    result_prov K keqb hash (run K keqb hash i2 ops2) Predict.
  Proof.
    intros P1 P2 i1 i2 H1 H2 Ho.
    rewrite !predict_correct.
    - apply predict_spec_obs. auto.
    - apply run_inv2; auto. apply init_inv2; auto.
    - apply run_inv2; auto. apply init_inv2; auto.
  Qed.

  (* a fresh linker: a new DatabaseAPI, then the lookups registered one by one *)
  Definition registrations (lks : list (string * nat)) : list op :=
    map (fun cv => RegisterTF (fst cv) (snd cv)) lks.

  Lemma evict_absent s : aget (st_cache K s) (named CWTF) = None -> evict_cwtf K keqb s = s.
  Proof. intros H. unfold evict_cwtf. rewrite H. auto. Qed.

  Lemma registrations_ok lks : forall s,
    aget (st_cache K s) (named CWTF) = None -> hist_ok K keqb hash s (registrations lks) = true.
  Proof.
    induction lks as [|[c v] r IH]; cbn -[step]; intros s Ha; auto.
    apply andb_true_iff. split.
    - unfold op_ok, stale_cwtf_risk. cbn. unfold Cache.amem at 1. rewrite Ha. cbn. rewrite andb_false_r. auto.
    - apply IH. unfold step, run_op, run_prog. cbn -[evict_cwtf].
      destruct (amem (st_db K s) (PL (LUid (tfname c) (st_luid K s)))); cbn -[evict_cwtf]; auto.
      assert (X : aget (aset (st_cache K s) (named (tfname c))
                             {| h_templ := tfname c; h_phys := PL (LUid (tfname c) (st_luid K s));
                                h_src := Leaf (LUid (tfname c) (st_luid K s)); h_cbs := false |}) (named CWTF) = None).
      { rewrite aget_aset_other; auto. intros X. symmetry in X. apply named_tf_neq_cwtf in X. auto. }
      destruct (fx77 (st_fix K s)); cbn -[evict_cwtf]; [rewrite evict_absent; cbn; auto | auto].
  Qed.

  Theorem predict_equals_fresh inputs ver tfcols params uid luid fx ops ver' uid' luid' lks :
    inputs_plain inputs ->
    let i := init_state K inputs ver tfcols params uid luid fx in
    hist_ok K keqb hash i ops = true ->
    let s := run K keqb hash i ops in
    let f := run K keqb hash (init_state K inputs ver' tfcols (st_params K s) uid' luid' fx) (registrations lks) in
    obs f = obs s ->
    result_prov K keqb hash s Predict = result_prov K keqb hash f Predict.
  Proof.
    intros P i H s f Ho.
    apply predict_depends_only_on_obs; [exact P | exact P | exact H | apply registrations_ok; reflexivity | symmetry; exact Ho].
  Qed.

  (* ---------------------------------------------------------------- invalidate_cache reflects new data *)
  Lemma hist_ok_app a : forall s b,
    hist_ok K keqb hash s (a ++ b) = hist_ok K keqb hash s a && hist_ok K keqb hash (run K keqb hash s a) b.
  Proof.
    induction a as [|o r IH]; cbn; intros s b; auto. rewrite IH, andb_assoc. auto.
  Qed.
  Lemma run_app a b s : run K keqb hash s (a ++ b) = run K keqb hash (run K keqb hash s a) b.
  Proof. unfold run. apply fold_left_app. Qed.

  Lemma drop_handle_leaves s h l : cbs_hashed h ->
    aget (st_db K (fst (drop_handle K keqb s h))) (PL l) = aget (st_db K s) (PL l).
  Proof.
    intros Hh. rewrite drop_handle_fst. destruct (h_cbs K h) eqn:Ec; auto. specialize (Hh Ec).
    destruct (h_phys K h) eqn:Ep; [discriminate|]. cbn. apply aget_aremove_other. discriminate.
  Qed.
  Lemma delete_fold_leaves keys : forall s l, InvS s ->
    aget (st_db K (fold_left (delete_step K keqb) keys s)) (PL l) = aget (st_db K s) (PL l).
  Proof.
    induction keys as [|k r IH]; cbn; intros s l I; auto.
    rewrite IH by (apply delete_step_InvS; auto).
    unfold delete_step. destruct (aget (st_cache K s) k) eqn:E; auto.
    destruct (h_cbs K h && pname_eqb k (h_phys K h)); auto.
    apply drop_handle_leaves. eapply iv_cache_cbs; eauto.
  Qed.
  Lemma invalidate_leaves s l : InvS s -> aget (st_db K (invalidate K keqb s)) (PL l) = aget (st_db K s) (PL l).
  Proof.
    intros I. unfold invalidate. destruct (st_cache K s) eqn:Ec; auto. cbn.
    unfold delete_tables. rewrite delete_fold_leaves; [reflexivity|]. apply InvS_set_luid_ctr. auto.
  Qed.

  Lemma change_input_content ver ls : forall db l,
    content (fold_left (fun d l0 => aset d (PL l0) {| e_prov := PInput (lbase l0) ver; e_origin := User |}) ls db) (PL l) =
    if existsb (lname_eqb l) ls then PInput (lbase l) ver else content db (PL l).
  Proof.
    induction ls as [|a r IH]; cbn; intros db l; auto.
    rewrite IH. destruct (existsb (lname_eqb l) r); [rewrite orb_true_r; auto|]. rewrite orb_false_r.
    unfold Cache.content. rewrite aget_aset. cbn. destruct (lname_eqb a l) eqn:E.
    - apply lname_eqb_spec in E. subst. rewrite lname_eqb_refl. auto.
    - destruct (lname_eqb l a) eqn:E2; auto. apply lname_eqb_spec in E2. subst. rewrite lname_eqb_refl in E. discriminate.
  Qed.

  Lemma obs_after_change s0 v : InvS s0 ->
    obs (step K keqb hash s0 (ChangeInputInvalidate v)) =
    (map (fun l => PInput (lbase l) v) (st_inputs K s0), st_tfcols K s0, map (fun _ => None) (st_tfcols K s0), st_params K s0).
  Proof.
    intros I0.
    set (X := set_db K s0 (fold_left (fun d l0 => aset d (PL l0) {| e_prov := PInput (lbase l0) v; e_origin := User |})
                                     (st_inputs K s0) (st_db K s0))).
    assert (Es : step K keqb hash s0 (ChangeInputInvalidate v) = invalidate K keqb X) by reflexivity.
    rewrite Es. clear Es.
    pose proof (InvS_change_input s0 v I0) as I1. fold X in I1.
    pose proof (invalidate_fields X) as F. cbn -[invalidate X] in F. destruct F as (f1 & f2 & f3 & _).
    unfold obs. rewrite f1, f2, f3. change (st_inputs K X) with (st_inputs K s0).
    change (st_tfcols K X) with (st_tfcols K s0). change (st_params K X) with (st_params K s0).
    assert (A1 : map (fun l => content (st_db K (invalidate K keqb X)) (PL l)) (st_inputs K s0) =
                 map (fun l => PInput (lbase l) v) (st_inputs K s0)); [|
    assert (A2 : map (lookup_of (invalidate K keqb X)) (st_tfcols K s0) = map (fun _ => None) (st_tfcols K s0)); [|
    rewrite A1, A2; reflexivity]].
    - apply map_ext_in. intros l Hl. unfold Cache.content. rewrite invalidate_leaves by auto.
      change (st_db K X) with (fold_left (fun d l0 => aset d (PL l0) {| e_prov := PInput (lbase l0) v; e_origin := User |})
                                         (st_inputs K s0) (st_db K s0)).
      pose proof (change_input_content v (st_inputs K s0) (st_db K s0) l) as C. unfold Cache.content in C. rewrite C.
      assert (Y : existsb (lname_eqb l) (st_inputs K s0) = true) by (apply existsb_exists; exists l; split; auto; apply lname_eqb_refl).
      rewrite Y. reflexivity.
    - apply map_ext. intros c. unfold lookup_of. rewrite invalidate_cache_nil. reflexivity.
  Qed.

  Lemma obs_init inputs v tfcols p uid luid fx :
    obs (init_state K inputs v tfcols p uid luid fx) =
    (map (fun l => PInput (lbase l) v) inputs, tfcols, map (fun _ => None) tfcols, p).
  Proof.
    unfold obs. cbn [st_inputs st_tfcols st_params st_db st_cache init_state].
    assert (A1 : map (fun l => content (input_db K inputs v) (PL l)) inputs = map (fun l => PInput (lbase l) v) inputs); [|
    assert (A2 : map (lookup_of (init_state K inputs v tfcols p uid luid fx)) tfcols = map (fun _ => None) tfcols); [|
    rewrite A1, A2; reflexivity]].
    - apply map_ext_in. intros l Hl. unfold Cache.content. rewrite input_db_leaf.
      assert (Y : existsb (lname_eqb l) inputs = true) by (apply existsb_exists; exists l; split; auto; apply lname_eqb_refl).
      rewrite Y. reflexivity.
    - apply map_ext. intros c. reflexivity.
  Qed.

  Theorem invalidate_reflects_new_data inputs ver tfcols params uid luid fx ops v uid' luid' fx' :
    inputs_plain inputs ->
    let i := init_state K inputs ver tfcols params uid luid fx in
    hist_ok K keqb hash i ops = true ->
    let s := run K keqb hash i (ops ++ [ChangeInputInvalidate v]) in
    result_prov K keqb hash s Predict =
    result_prov K keqb hash (init_state K inputs v tfcols (st_params K s) uid' luid' fx') Predict.
  Proof.
    intros P i H s.
    assert (Hok : hist_ok K keqb hash i (ops ++ [ChangeInputInvalidate v]) = true).
    { rewrite hist_ok_app, H. cbn. reflexivity. }
    rewrite !predict_correct; [|apply init_inv2; auto|apply run_inv2; auto; apply init_inv2; auto].
    apply predict_spec_obs. rewrite obs_init.
    set (s0 := run K keqb hash i ops).
    destruct (run_inv2 ops i H (init_inv2 inputs ver tfcols params uid luid fx P)) as (I0 & _ & _).
    fold s0 in I0.
    destruct (run_inv ops i (hist_ok_hashed ops i H) (init_inv inputs ver tfcols params uid luid fx P)) as (_ & _ & Hin & Htf & _).
    fold s0 in Hin, Htf. cbn in Hin, Htf.
    assert (Es : s = step K keqb hash s0 (ChangeInputInvalidate v)) by (unfold s; rewrite run_app; reflexivity).
    assert (Hp : st_params K (step K keqb hash s0 (ChangeInputInvalidate v)) = st_params K s0).
    { pose proof (obs_after_change s0 v I0) as O. unfold obs in O. injection O. auto. }
    rewrite Es, (obs_after_change s0 v I0), Hin, Htf, Hp. reflexivity.
  Qed.
  (* ---------------------------------------------------------------- the DB-existence fallback is dead code here *)
  (* _get_table_from_cache_or_db falls back on table_exists_in_database(templ_hash) when neither the named nor the
     hashed key is cached.  On one DatabaseAPI, every hashed table in the database is cached under its own name, so
     the fallback is never taken: whenever the hashed key is absent from the cache the table is absent too. *)
  Theorem db_fallback_unreachable inputs ver tfcols params uid luid fx ops :
    inputs_plain inputs -> forallb op_ok_hashed ops = true ->
    let s := run K keqb hash (init_state K inputs ver tfcols params uid luid fx) ops in
    forall n k, aget (st_cache K s) (PH n k) = None -> amem (st_db K s) (PH n k) = false.
  Proof.
    intros Hp Hok s n k Hn.
    destruct (run_inv ops _ Hok (init_inv inputs ver tfcols params uid luid fx Hp)) as ([I _] & _). fold s in I.
    destruct (amem (st_db K s) (PH n k)) eqn:E; auto. apply (iv_db_h _ I) in E. unfold Cache.amem in E. rewrite Hn in E. discriminate.
  Qed.
  (* hence exec_pipeline with use_cache = true either hits the cache or really executes *)
  Corollary exec_pipeline_hit_or_run inputs ver tfcols params uid luid fx ops templ tree al mids :
    inputs_plain inputs -> forallb op_ok_hashed ops = true ->
    let s := run K keqb hash (init_state K inputs ver tfcols params uid luid fx) ops in
    exec_pipeline K keqb hash s templ tree al mids true =
    match aget (st_cache K s) (named templ) with
    | Some h => (s, h, [Hit (h_templ K h) (pbase K (h_phys K h))])
    | None => match aget (st_cache K s) (PH templ (hash tree (st_uid K s))) with
              | Some h => (s, h, [Hit (h_templ K h) (pbase K (h_phys K h))])
              | None => exec_run K keqb hash s templ tree
              end
    end.
  Proof.
    intros Hp Hok s.
    destruct (run_inv ops _ Hok (init_inv inputs ver tfcols params uid luid fx Hp)) as ([I _] & _). fold s in I.
    unfold exec_pipeline. rewrite (iv_nodebug _ I).
    destruct (aget (st_cache K s) (named templ)); auto.
    destruct (aget (st_cache K s) (PH templ (hash tree (st_uid K s)))) eqn:E; auto.
    pose proof (db_fallback_unreachable inputs ver tfcols params uid luid fx ops Hp Hok _ _ E) as F. fold s in F. cbv zeta in F.
    rewrite F. reflexivity.
  Qed.
  (* ================================================================ compare_two_records: the ad-hoc tf route *)
  (* where the term frequency of a NEW record's value comes from (_join_new_table_to_df_concat_with_tf_sql), by
     EntryPoints.route_priority: the cached tf table (registered lookup or computed) has priority over select distinct
     from the cached __splink__df_concat_with_tf, which has priority over NULL; records carry no tf column here *)
  Definition route_prov (s : state) (c : string) : list prov :=
    match EntryPoints.route_priority false (amem (st_cache K s) (named (tfname c))) (amem (st_cache K s) (named CWTF)) with
    | EntryPoints.RRegistered => [tf_spec s c]
    | EntryPoints.RDistinct => [derive NODESTF 0 [cwtf_spec s]]
    | _ => []
    end.
  Definition c2_name (flag : bool) : string := if flag then FBBR else PREDICT.
  Definition c2_spec (s : state) (flag : bool) : prov :=
    derive (c2_name flag) (st_params K s)
           ([PRecords (st_ctr K s); PRecords (S (st_ctr K s))] ++ flat_map (route_prov s) (st_tfcols K s)).

  Definition route_tree (s : state) (c : string) : list sqlt :=
    match aget (st_cache K s) (named (tfname c)) with
    | Some h => [h_src K h]
    | None => match aget (st_cache K s) (named CWTF) with
              | Some h => [Cte NODESTF 0 [h_src K h]]
              | None => []
              end
    end.

  Lemma resolve_routes s regs cols :
    r_trees (fold_right (fun x acc => r_app (resolve K keqb s regs x) acc) r_nil (map RTfRoute cols)) = flat_map (route_tree s) cols.
  Proof.
    induction cols as [|c r IH]; cbn; auto. rewrite IH. f_equal. unfold route_tree.
    destruct (aget (st_cache K s) (named (tfname c))); auto. destruct (aget (st_cache K s) (named CWTF)); auto.
  Qed.

  Lemma route_tree_ok s c :
    InvS s -> NamedOK s ->
    map (denote (st_db K s)) (route_tree s c) = route_prov s c /\
    forallb (amem (st_db K s)) (flat_map (direct_refs (st_uid K s)) (route_tree s c)) = true.
  Proof.
    intros I N. unfold route_tree, route_prov, EntryPoints.route_priority.
    destruct (aget (st_cache K s) (named (tfname c))) eqn:E.
    - assert (A : amem (st_cache K s) (named (tfname c)) = true) by (unfold Cache.amem; rewrite E; reflexivity).
      rewrite A. pose proof (tf_tree_ok True s c I N) as [Hd Hr]. unfold tf_tree in Hd, Hr. rewrite E in Hd, Hr.
      cbn [map flat_map]. rewrite Hd, app_nil_r. auto.
    - assert (A : amem (st_cache K s) (named (tfname c)) = false) by (unfold Cache.amem; rewrite E; reflexivity).
      rewrite A. destruct (aget (st_cache K s) (named CWTF)) eqn:E2.
      + assert (A2 : amem (st_cache K s) (named CWTF) = true) by (unfold Cache.amem; rewrite E2; reflexivity).
        rewrite A2. destruct (nk_cwtf _ _ N _ E2) as (v & (t & a & b & d & e & f & g) & Hv). rewrite (Hv Logic.I) in g.
        rewrite a. cbn [map flat_map Cache.denote Cache.direct_refs app forallb]. fold (denote (st_db K s)).
        rewrite g, b, <- d, f. auto.
      + assert (A2 : amem (st_cache K s) (named CWTF) = false) by (unfold Cache.amem; rewrite E2; reflexivity).
        rewrite A2. auto.
  Qed.

  Lemma route_prov_frame s s' :
    NamedOK s -> InvS s ->
    (forall l, aget (st_cache K s') (PL l) = aget (st_cache K s) (PL l)) -> leaves_stable s s' ->
    st_inputs K s' = st_inputs K s -> st_tfcols K s' = st_tfcols K s ->
    forall c, route_prov s' c = route_prov s c.
  Proof.
    intros N I Hc Hx Hi Ht c.
    pose proof (concat_spec_frame s s' I Hx Hi) as C.
    pose proof (lookup_of_frame True s s' N Hc Hx) as L.
    pose proof (cwtf_spec_frame s s' C L Ht) as W.
    unfold route_prov, Cache.amem, Cache.named. rewrite !Hc, W. unfold tf_spec. rewrite L, C. reflexivity.
  Qed.

  Lemma flat_map_flat_map {A B C} (g : B -> list C) (h : A -> list B) l :
    flat_map g (flat_map h l) = flat_map (fun x => flat_map g (h x)) l.
  Proof. induction l; cbn; auto. rewrite flat_map_app. congruence. Qed.
  Lemma map_flat_map {A B C} (f : B -> C) (h : A -> list B) l : map f (flat_map h l) = flat_map (fun x => map f (h x)) l.
  Proof. induction l; cbn; auto. rewrite map_app. congruence. Qed.

  Lemma step_iexec s regs tr n p ins mids uc :
    step_instr K keqb hash (s, regs, tr) (IExec n p ins mids uc) =
    (let r := resolve_all K keqb s regs ins in
     let '(s1, h, ev) := exec_pipeline K keqb hash s n (the_tree n p r) (r_aliases r) (r_inline r ++ mids) uc in
     (s1, regs ++ [h], tr ++ r_events r ++ ev)).
  Proof. reflexivity. Qed.

  Theorem compare_two_correct s flag : Inv2 s -> result_prov K keqb hash s (CompareTwo flag) = c2_spec s flag.
  Proof.
    intros (I & Hs & N). unfold result_prov, run_op, run_prog.
    set (mids := ["__splink__compare_two_records_left_with_tf"; "__splink__compare_two_records_right_with_tf";
                  "__splink__compare_two_records_left_with_tf_uid_fix"; "__splink__compare_two_records_right_with_tf_uid_fix";
                  "__splink__compare_two_records_blocked"; CVV; MWP] ++ (if flag then [PREDICT] else [])).
    change (prog_of_op K s (CompareTwo flag)) with
      [IRegisterRecords C2L; IRegisterRecords C2R;
       IExec (c2_name flag) (st_params K s) ([RReg 0; RReg 1; RCwtfHitOnly] ++ map RTfRoute (st_tfcols K s)) mids false].
    cbn [fold_left].
    (* the two registrations *)
    pose proof (step_instr_inv s [] [] (IRegisterRecords C2L) Logic.I I Hs (Forall_nil _)) as A1.
    pose proof (step_instr_named s [] [] (IRegisterRecords C2L) Logic.I Logic.I I Hs N (Forall_nil _)) as B1.
    destruct (step_instr K keqb hash (s, [], []) (IRegisterRecords C2L)) as [[s1 regs1] tr1] eqn:E1.
    cbn in E1. inversion E1; subst s1 regs1 tr1. clear E1. cbn [fst snd app] in A1, B1.
    match goal with |- context [step_instr K keqb hash (?X, [?H], []) (IRegisterRecords C2R)] =>
      set (s1 := X) in *; set (h0 := H) in * end.
    destruct A1 as (I1 & S1 & R1 & _).
    pose proof (step_instr_inv s1 [h0] [] (IRegisterRecords C2R) Logic.I I1 S1 R1) as A2.
    pose proof (step_instr_named s1 [h0] [] (IRegisterRecords C2R) Logic.I Logic.I I1 S1 B1 R1) as B2.
    destruct (step_instr K keqb hash (s1, [h0], []) (IRegisterRecords C2R)) as [[s2 regs2] tr2] eqn:E2.
    cbn in E2. inversion E2; subst s2 regs2 tr2. clear E2. cbn [fst snd app] in A2, B2.
    match goal with |- context [step_instr K keqb hash (?X, [h0; ?H], []) (IExec _ _ _ _ _)] =>
      set (s2 := X) in *; set (h1 := H) in * end.
    destruct A2 as (I2 & S2 & R2 & _).
    (* the pipeline *)
    set (T := Cte (c2_name flag) (st_params K s) ([Leaf (LUid C2L (st_ctr K s)); Leaf (LUid C2R (S (st_ctr K s)))] ++ flat_map (route_tree s2) (st_tfcols K s))).
    assert (ET : the_tree (c2_name flag) (st_params K s)
                   (resolve_all K keqb s2 [h0; h1] ([RReg 0; RReg 1; RCwtfHitOnly] ++ map RTfRoute (st_tfcols K s))) = T).
    { unfold the_tree, resolve_all, T. cbn [app fold_right]. unfold resolve at 1 2 3. cbn [nth_error].
      destruct (aget (st_cache K s2) (named CWTF)); cbn [r_app r_trees r_nil app h_src]; rewrite resolve_routes; reflexivity. }
    assert (Hstab : leaves_stable s s2).
    { intros l Hm. unfold s2, s1. cbn. rewrite !aget_aset_other; auto; intros X; inversion X; subst;
        apply (iv_fresh _ I) in Hm; lia. }
    assert (Hcache : forall l, aget (st_cache K s2) (PL l) = aget (st_cache K s) (PL l)) by (intros l; reflexivity).
    assert (Hroutes : forall c, route_prov s2 c = route_prov s c).
    { apply route_prov_frame; auto. }
    assert (Hready : forallb (amem (st_db K s2)) (direct_refs (st_uid K s2) T) = true).
    { unfold T. cbn [Cache.direct_refs flat_map app forallb].
      assert (M1 : amem (st_db K s2) (PL (LUid C2L (st_ctr K s))) = true).
      { unfold s2, s1. cbn. rewrite !amem_aset. rewrite (pname_eqb_refl (PL (LUid C2L (st_ctr K s)))). apply orb_true_r. }
      assert (M2 : amem (st_db K s2) (PL (LUid C2R (S (st_ctr K s)))) = true).
      { unfold s2. cbn. rewrite amem_aset, pname_eqb_refl. reflexivity. }
      rewrite M1, M2. cbn [andb]. rewrite flat_map_flat_map.
      rewrite forallb_flat_map. apply forallb_forall. intros c _. apply (route_tree_ok s2 c I2 B2). }
    pose proof (exec_run_spec s2 (c2_name flag) T I2 S2 eq_refl) as (_ & _ & _ & _ & _ & Hsrc & Hphys & _ & Hrun).
    destruct (Hrun Hready) as (_ & Hcontent & _).
    rewrite step_iexec. cbv zeta. rewrite ET.
    unfold exec_pipeline. rewrite (iv_nodebug _ I2).
    destruct (exec_run K keqb hash s2 (c2_name flag) T) as [[s3 h2] ev] eqn:E3. cbn [fst snd] in *.
    cbn [app nth_error]. rewrite Hcontent.
    (* denotation of the tree *)
    assert (Hl : same_leaves (st_db K s2) (st_db K s3)).
    { pose proof (exec_run_spec s2 (c2_name flag) T I2 S2 eq_refl) as (_ & _ & _ & _ & (G & _) & _). rewrite E3 in G. exact G. }
    rewrite <- (denote_same_leaves _ _ T Hl).
    unfold T, c2_spec. cbn [Cache.denote map]. fold (denote (st_db K s2)). rewrite map_app. cbn [map Cache.denote].
    assert (C1 : content (st_db K s2) (PL (LUid C2L (st_ctr K s))) = PRecords (st_ctr K s)).
    { unfold s2, s1, Cache.content. cbn. rewrite aget_aset_other by (intros X; inversion X; lia). rewrite aget_aset_same. reflexivity. }
    assert (C2 : content (st_db K s2) (PL (LUid C2R (S (st_ctr K s)))) = PRecords (S (st_ctr K s))).
    { unfold s2, Cache.content. cbn. rewrite aget_aset_same. reflexivity. }
    rewrite C1, C2. f_equal. cbn [app]. f_equal. f_equal.
    rewrite map_flat_map.
    apply flat_map_ext. intros c. destruct (route_tree_ok s2 c I2 B2) as [Hd _]. rewrite Hd. apply Hroutes.
  Qed.

  (* a cached tf table (e.g. a registered lookup) has priority: the cached concat_with_tf plays no role for that column *)
  Lemma registered_has_priority s c :
    amem (st_cache K s) (named (tfname c)) = true -> route_prov s c = [tf_spec s c].
  Proof. intros H. unfold route_prov. rewrite H. reflexivity. Qed.
  (* when every tf column has a cached tf table, compare_two_records does not depend on whether
     __splink__df_concat_with_tf happens to be cached (i.e. on whether predict / EM / clustering ran before) *)
  Lemma c2_spec_all_registered s flag :
    (forall c, In c (st_tfcols K s) -> amem (st_cache K s) (named (tfname c)) = true) ->
    c2_spec s flag = derive (c2_name flag) (st_params K s)
                            ([PRecords (st_ctr K s); PRecords (S (st_ctr K s))] ++ map (tf_spec s) (st_tfcols K s)).
  Proof.
    intros H. unfold c2_spec. f_equal. f_equal.
    induction (st_tfcols K s) as [|c r IH]; cbn; auto.
    rewrite (registered_has_priority s c) by (apply H; cbn; auto). cbn. f_equal. apply IH. intros c' Hin. apply H. cbn. auto.
  Qed.
  (* ================================================================ the fresh linker of Model/Cache.v [fresh_of] *)
  Lemma fold_aset_spec {A V} (kf : A -> pname) (vf : A -> V) l : forall d0 k,
    aget (fold_left (fun d a => aset d (kf a) (vf a)) l d0) k =
    match find (fun a => pname_eqb (kf a) k) (rev l) with Some a => Some (vf a) | None => aget d0 k end.
  Proof.
    induction l as [|a r IH] using rev_ind; intros d0 k; [reflexivity|].
    rewrite fold_left_app, rev_app_distr. cbn [fold_left rev app find]. rewrite aget_aset.
    destruct (pname_eqb (kf a) k); auto.
  Qed.

  Lemma in_lookups s c v : In (c, v) (lookups K keqb s) <-> In c (st_tfcols K s) /\ lookup_of s c = Some v.
  Proof.
    unfold lookups, lookup_of. rewrite in_flat_map. split.
    - intros (c' & Hin & H). destruct (aget (st_cache K s) (named (tfname c'))) eqn:E; [|destruct H].
      destruct (is_hashed K (h_phys K h)) eqn:Eh; [destruct H|]. destruct H as [H|[]]. inversion H; subst.
      rewrite E, Eh. auto.
    - intros (Hin & H). exists c. split; auto. destruct (aget (st_cache K s) (named (tfname c))); [|discriminate].
      destruct (is_hashed K (h_phys K h)); [discriminate|]. inversion H. left. reflexivity.
  Qed.

  Lemma find_lookup_key s (l' : nat) c (kf : string * prov -> pname) :
    (forall cv, fst cv = c -> pname_eqb (kf cv) (kf (c, PMissing)) = true) ->
    (forall cv, fst cv <> c -> pname_eqb (kf cv) (kf (c, PMissing)) = false) ->
    In c (st_tfcols K s) ->
    find (fun cv => pname_eqb (kf cv) (kf (c, PMissing))) (rev (lookups K keqb s)) =
    match lookup_of s c with Some v => Some (c, v) | None => None end.
  Proof.
    intros Hyes Hno Hin. destruct (lookup_of s c) as [v|] eqn:E.
    - destruct (find _ (rev (lookups K keqb s))) as [[c' v']|] eqn:Ef.
      + apply find_some in Ef. destruct Ef as [Hi He]. apply in_rev in Hi.
        destruct (string_dec c' c) as [->|Hne]; [|rewrite (Hno (c', v')) in He; auto; discriminate].
        apply in_lookups in Hi. destruct Hi as [_ Hi]. rewrite E in Hi. inversion Hi. reflexivity.
      + assert (Hi : In (c, v) (rev (lookups K keqb s))) by (apply in_rev; rewrite rev_involutive; apply in_lookups; auto).
        pose proof (find_none _ _ Ef _ Hi) as X. cbn in X. rewrite (Hyes (c, v)) in X; auto. discriminate.
    - destruct (find _ (rev (lookups K keqb s))) as [[c' v']|] eqn:Ef; auto.
      apply find_some in Ef. destruct Ef as [Hi He]. apply in_rev in Hi.
      destruct (string_dec c' c) as [->|Hne]; [|rewrite (Hno (c', v')) in He; auto; discriminate].
      apply in_lookups in Hi. destruct Hi as [_ Hi]. rewrite E in Hi. discriminate.
  Qed.

  Lemma aget_filter_key {V} (f : pname -> bool) (l : list (pname * V)) k :
    aget (filter (fun kv => f (fst kv)) l) k = if f k then aget l k else None.
  Proof.
    induction l as [|[k' v] r IH]; cbn; [destruct (f k); auto|].
    destruct (f k') eqn:Ef; cbn; destruct (pname_eqb k' k) eqn:E; auto.
    - apply pname_eqb_spec in E. subst. rewrite Ef. auto.
    - apply pname_eqb_spec in E. subst. rewrite IH, Ef. auto.
  Qed.

  (* the fresh linker of the model observes the same input rows, model and registered lookups as the state it is built from *)
  Theorem obs_fresh_of s u l : inputs_plain (st_inputs K s) -> obs (fresh_of K keqb s u l) = obs s.
  Proof.
    intros Hp.
    set (kd := fun cv : string * prov => PL (LUid (tfname (fst cv)) l)).
    set (kc := fun cv : string * prov => named (tfname (fst cv))).
    set (leaves0 := filter (fun kv => existsb (fun l0 => pname_eqb (PL l0) (fst kv)) (st_inputs K s)) (st_db K s)).
    assert (Edb : st_db K (fresh_of K keqb s u l) =
                  fold_left (fun d cv => aset d (kd cv) {| e_prov := snd cv; e_origin := Caller |}) (lookups K keqb s) leaves0)
      by reflexivity.
    assert (Ecache : st_cache K (fresh_of K keqb s u l) =
                     fold_left (fun c0 cv => aset c0 (kc cv)
                        {| h_templ := tfname (fst cv); h_phys := kd cv; h_src := Leaf (LUid (tfname (fst cv)) l); h_cbs := false |})
                       (lookups K keqb s) []) by reflexivity.
    assert (F : forall (kf : string * prov -> pname) c,
               (forall cv, fst cv = c -> kf cv = kf (c, PMissing)) -> (forall cv, kf cv = kf (c, PMissing) -> fst cv = c) ->
               In c (st_tfcols K s) ->
               find (fun cv => pname_eqb (kf cv) (kf (c, PMissing))) (rev (lookups K keqb s)) =
               match lookup_of s c with Some v => Some (c, v) | None => None end).
    { intros kf c Hy Hn Hin. apply (find_lookup_key s l c kf); auto.
      - intros cv Hc. rewrite (Hy cv Hc). apply pname_eqb_refl.
      - intros cv Hne. apply pname_eqb_neq. intros H. apply Hne. apply Hn. exact H. }
    assert (A1 : map (fun l0 => content (st_db K (fresh_of K keqb s u l)) (PL l0)) (st_inputs K s)
                 = map (fun l0 => content (st_db K s) (PL l0)) (st_inputs K s)).
    { apply map_ext_in. intros l0 Hin. rewrite Edb. unfold Cache.content. rewrite fold_aset_spec.
      destruct (find _ (rev (lookups K keqb s))) as [[c v]|] eqn:Ef.
      - apply find_some in Ef. destruct Ef as [_ He]. unfold kd in He. cbn in He. destruct (Hp _ Hin) as [n ->]. cbn in He. discriminate.
      - unfold leaves0. rewrite (aget_filter_key (fun k => existsb (fun l1 => pname_eqb (PL l1) k) (st_inputs K s))).
        assert (X : existsb (fun l1 => pname_eqb (PL l1) (PL l0)) (st_inputs K s) = true)
          by (apply existsb_exists; exists l0; split; auto; apply pname_eqb_refl).
        rewrite X. reflexivity. }
    assert (A2 : map (lookup_of (fresh_of K keqb s u l)) (st_tfcols K s) = map (lookup_of s) (st_tfcols K s)).
    { apply map_ext_in. intros c Hin. unfold lookup_of at 1. rewrite Ecache, fold_aset_spec.
      assert (F1 := F kc c). change (kc (c, PMissing)) with (named (tfname c)) in F1. rewrite F1; auto.
      - destruct (lookup_of s c) as [v|] eqn:E; [|reflexivity]. cbn [h_phys is_hashed kd fst]. f_equal.
        rewrite Edb. unfold Cache.content. rewrite fold_aset_spec.
        assert (F2 := F kd c).
        match goal with |- context [find ?f (rev (lookups K keqb s))] =>
          assert (F3 : find f (rev (lookups K keqb s)) = match lookup_of s c with Some v0 => Some (c, v0) | None => None end) end.
        { apply F2; auto.
          - intros cv <-. reflexivity.
          - intros cv H. unfold kd in H. cbn [fst] in H. assert (X : tfname (fst cv) = tfname c) by congruence. apply tfname_inj in X. auto. }
        rewrite F3, E. reflexivity.
      - intros cv <-. reflexivity.
      - intros cv H. unfold kc in H. cbn [fst] in H. apply named_inj in H. apply tfname_inj in H. auto. }
    unfold obs. change (st_inputs K (fresh_of K keqb s u l)) with (st_inputs K s).
    change (st_tfcols K (fresh_of K keqb s u l)) with (st_tfcols K s).
    change (st_params K (fresh_of K keqb s u l)) with (st_params K s).
    rewrite A1, A2. reflexivity.
  Qed.
End Proofs.

(* ------------------------------------------------------------------ realtime.SQLCache *)
Lemma rt_key_eqb_spec a b : rt_key_eqb a b = true <-> a = b.
Proof.
  destruct a, b; cbn; try (split; [discriminate|congruence]).
  - rewrite andb_true_iff, !Nat.eqb_eq. split; [intros []; congruence|intros H; inversion H; auto].
  - rewrite andb_true_iff, !Nat.eqb_eq. split; [intros []; congruence|intros H; inversion H; auto].
  - rewrite Nat.eqb_eq. split; congruence.
Qed.

Definition rt_not_dead (dead : list nat) (g : nat) : Prop := existsb (Nat.eqb g) dead = false.

(* every cache entry was generated for its own key; an id()-keyed entry whose object is still alive belongs to the
   current owner of that address *)
Definition rt_entry_ok (dead : list nat) (owners : list (nat * nat * nat)) (e : rt_entry) : Prop :=
  re_flag e = re_fkey e /\
  match re_key e with
  | KDict b c => re_sql e = (1, b, c)
  | KStr p => re_sql e = (2, p, 0)
  | KAddr a _ => exists g mo, re_ref e = Some g /\ re_sql e = (0, mo, 0) /\ (rt_not_dead dead g -> In (a, g, mo) owners)
  end.
Definition rt_inv (m : list rt_entry) (dead : list nat) (owners : list (nat * nat * nat)) : Prop :=
  forall e, In e m -> rt_entry_ok dead owners e.

Definition rt_out_ok (ev : rt_event) (out : option (sqlid * bool * bool)) : Prop :=
  match rt_expected ev, out with
  | Some (q, f), Some (q', f', _) => q' = q /\ f' = f
  | None, None => True
  | _, _ => False
  end.

Lemma rt_entry_ok_mono dead owners owners' e :
  (forall o, In o owners -> In o owners') -> rt_entry_ok dead owners e -> rt_entry_ok dead owners' e.
Proof.
  intros Hsub [Hf Hk]. split; auto. destruct (re_key e); auto.
  destruct Hk as (g & mo & a1 & a2 & a3). exists g, mo. repeat split; auto.
Qed.

Lemma rt_step_good m dead owners ev :
  rt_inv m dead owners ->
  snd (rt_wf_step (owners, dead) ev) = true ->
  let r := rt_step rt_nofp (m, dead) ev in
  let w := fst (rt_wf_step (owners, dead) ev) in
  rt_inv (fst (fst r)) (snd (fst r)) (fst w) /\ snd (fst r) = snd w /\ rt_out_ok ev (snd r).
Proof.
  intros Hinv Hwf. destruct ev as [s uc f|g0].
  - (* a call *)
    set (k := rt_key_of rt_nofp s).
    set (owners' := fst (fst (rt_wf_step (owners, dead) (RtCall s uc f)))).
    assert (Hsub : forall o, In o owners -> In o owners').
    { unfold owners'. destruct s; cbn; auto. }
    assert (Hd : snd (fst (rt_wf_step (owners, dead) (RtCall s uc f))) = dead) by (destruct s; reflexivity).
    set (fresh := {| re_key := k; re_fkey := f; re_sql := rt_sql s; re_flag := f;
                     re_ref := match s with RObj _ g _ => Some g | _ => None end |}).
    assert (Hfresh : rt_entry_ok dead owners' fresh).
    { split; [reflexivity|]. unfold fresh, k, owners'. destruct s; cbn; auto.
      exists gen, model. repeat split; auto. }
    assert (Hmiss : rt_inv (fresh :: filter (fun e => negb (rt_match k f e)) m) dead owners').
    { intros e [<-|Hin]; auto. apply filter_In in Hin. destruct Hin as [Hin _].
      eapply rt_entry_ok_mono; eauto. }
    assert (Hkeep : rt_inv m dead owners') by (intros e Hin; eapply rt_entry_ok_mono; eauto).
    assert (Hhit : forall e, rt_find m k f = Some e -> rt_dead dead e = false -> re_sql e = rt_sql s /\ re_flag e = f).
    { intros e He Hnd. unfold rt_find in He. apply find_some in He. destruct He as [Hin Hm].
      unfold rt_match in Hm. apply andb_true_iff in Hm. destruct Hm as [Hk Hfk].
      apply rt_key_eqb_spec in Hk. apply Bool.eqb_prop in Hfk.
      destruct (Hinv e Hin) as [Hfl Hkind]. split; [|rewrite Hfl, Hfk; reflexivity].
      rewrite Hk in Hkind. unfold k in Hkind. destruct s as [a g mo'|b c|p]; cbn in Hkind; auto.
      destruct Hkind as (g1 & m1 & r1 & r2 & r3). unfold rt_dead in Hnd. rewrite r1 in Hnd.
      specialize (r3 Hnd). cbn in Hwf. apply andb_true_iff in Hwf. destruct Hwf as [_ Hall].
      rewrite forallb_forall in Hall. specialize (Hall _ r3). cbn in Hall.
      apply andb_true_iff in Hall. destruct Hall as [H1 H2]. rewrite Nat.eqb_refl in H1. cbn in H1. apply Nat.eqb_eq in H1. subst g1.
      rewrite Nat.eqb_refl in H2. cbn in H2. apply andb_true_iff in H2. destruct H2 as [_ H2]. apply Nat.eqb_eq in H2. subst m1.
      rewrite r2. reflexivity. }
    cbv zeta. rewrite Hd. fold owners'.
    cbn [rt_step rt_nofp rp_flag_in_key rp_liveness_called rp_content_in_key andb]. fold k. fold fresh.
    assert (Hm3 : forall uc', rt_inv (fresh :: filter (fun e => negb (rt_match k f e)) m) dead owners' /\ dead = dead /\
                              rt_out_ok (RtCall s uc' f) (Some (rt_sql s, f, false))).
    { intros uc'. split; [exact Hmiss|split; [reflexivity|cbn; split; reflexivity]]. }
    destruct uc; [|cbn [fst snd]; apply Hm3].
    destruct (rt_find m k f) as [e|] eqn:Ef; [|cbn [fst snd]; apply Hm3].
    destruct (rt_dead dead e) eqn:Ed; [cbn [fst snd]; apply Hm3|].
    destruct (Hhit e eq_refl Ed) as [H1 H2]. cbn [fst snd]. split; [exact Hkeep|split; [reflexivity|cbn; split; assumption]].
  - (* the object dies *)
    cbn. split; [|split; [reflexivity|exact Logic.I]]. intros e Hin. destruct (Hinv e Hin) as [Hf Hk]. split; auto.
    destruct (re_key e); auto. destruct Hk as (g & mo & a1 & a2 & a3). exists g, mo. repeat split; auto.
    intros Hnd. unfold rt_not_dead in Hnd. cbn in Hnd. apply orb_false_iff in Hnd. destruct Hnd as [Hne Hnd].
    apply filter_In. split; [apply a3; exact Hnd|]. cbn. rewrite Hne. reflexivity.
Qed.

(* with the flag and the configure() values in the key and the weak reference really called, every call - cached or
   not, through any sequence of calls, deletions and address reuse - runs the SQL of its own settings and flag *)
Theorem rt_transparent_unmutated evs : forall m dead owners,
  rt_inv m dead owners -> rt_wf (owners, dead) evs = true ->
  Forall2 rt_out_ok evs (rt_run rt_nofp (m, dead) evs).
Proof.
  induction evs as [|ev r IH]; intros m dead owners Hinv Hwf; [constructor|].
  cbn [rt_wf rt_run] in *.
  destruct (rt_wf_step (owners, dead) ev) as [[owners' dead'] ok] eqn:Ew. apply andb_true_iff in Hwf. destruct Hwf as [Hok Hr].
  pose proof (rt_step_good m dead owners ev Hinv) as H. rewrite Ew in H. cbn [fst snd] in H. specialize (H Hok).
  destruct (rt_step rt_nofp (m, dead) ev) as [[m1 dead1] out] eqn:Es. cbn [fst snd] in H. destruct H as (I1 & Ed & Ho).
  subst dead1. constructor; auto. eapply IH; eauto.
Qed.

Lemma rt_all_okb_of_Forall2 evs outs : Forall2 rt_out_ok evs outs -> rt_all_okb evs outs = true.
Proof.
  induction 1 as [|ev o r r' H _ IH]; [reflexivity|]. cbn. rewrite IH, andb_true_r.
  unfold rt_out_ok in H. unfold rt_out_okb. destruct (rt_expected ev) as [[q f]|]; destruct o as [[[q' f'] c]|]; try contradiction; auto.
  destruct H as [-> ->]. destruct q as [[a b] d]. cbn. rewrite !Nat.eqb_refl. destruct f; reflexivity.
Qed.

(* with a content fingerprint in the key of SettingsCreator objects the key determines the SQL: transparency needs no
   assumption about the objects at all (mutation, address reuse, liveness) *)
Definition rt_sql_of_key (k : rt_key) : sqlid :=
  match k with KAddr _ m => (0, m, 0) | KDict b c => (1, b, c) | KStr p => (2, p, 0) end.
Definition rt_inv_fp (m : list rt_entry) : Prop :=
  forall e, In e m -> re_flag e = re_fkey e /\ re_sql e = rt_sql_of_key (re_key e).

Theorem rt_transparent evs : forall m dead,
  rt_inv_fp m -> Forall2 rt_out_ok evs (rt_run rt_good (m, dead) evs).
Proof.
  induction evs as [|ev r IH]; intros m dead Hinv; [constructor|].
  cbn [rt_run]. destruct ev as [s uc f|g0].
  - set (k := rt_key_of rt_good s).
    assert (Hk : rt_sql_of_key k = rt_sql s) by (destruct s; reflexivity).
    set (fresh := {| re_key := k; re_fkey := f; re_sql := rt_sql s; re_flag := f;
                     re_ref := match s with RObj _ g _ => Some g | _ => None end |}).
    assert (Hmiss : rt_inv_fp (fresh :: filter (fun e => negb (rt_match k f e)) m)).
    { intros e [<-|Hin]; [split; [reflexivity|symmetry; exact Hk]|]. apply filter_In in Hin. apply Hinv. tauto. }
    cbn [rt_step rt_good rp_flag_in_key rp_liveness_called rp_content_in_key andb]. fold k. fold fresh.
    assert (Hm3 : forall dead', Forall2 rt_out_ok (RtCall s uc f :: r)
              (Some (rt_sql s, f, false) :: rt_run rt_good (fresh :: filter (fun e => negb (rt_match k f e)) m, dead') r)).
    { intros dead'. constructor; [cbn; split; reflexivity|apply IH; exact Hmiss]. }
    destruct uc; [|apply Hm3].
    destruct (rt_find m k f) as [e|] eqn:Ef; [|apply Hm3].
    destruct (rt_dead dead e); [apply Hm3|].
    unfold rt_find in Ef. apply find_some in Ef. destruct Ef as [Hin Hm]. unfold rt_match in Hm.
    apply andb_true_iff in Hm. destruct Hm as [Hke Hfk]. apply rt_key_eqb_spec in Hke. apply Bool.eqb_prop in Hfk.
    destruct (Hinv e Hin) as [Hfl Hsq]. constructor; [|apply IH; exact Hinv].
    cbn. split; [rewrite Hsq, Hke; exact Hk|rewrite Hfl, Hfk; reflexivity].
  - cbn. constructor; [exact Logic.I|apply IH; exact Hinv].
Qed.
