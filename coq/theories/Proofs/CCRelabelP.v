(* Re-presentation invariance of connected-components clustering (used by C05 and C13):
   relabelling of node ids and permutation of node / edge rows, stated for the loop model of
   Model/CC.v through its total-correctness theorem. *)
From Coq Require Import ZArith List Bool Lia QArith Permutation.
From Splinkv Require Import Base.Graph Model.CC Proofs.CCP.
Import ListNotations.
Open Scope Z_scope.

Definition relabel_edges (f : Z -> Z) (edges : list (Z * Z * Q)) : list (Z * Z * Q) :=
  map (fun e => (f (fst (fst e)), f (snd (fst e)), snd e)) edges.

Lemma thr_edges_relabel f thr edges :
  thr_edges thr (relabel_edges f edges) = map_edges f (thr_edges thr edges).
Proof.
  unfold thr_edges, relabel_edges, map_edges. induction edges as [|[[a b] p] t IH]; cbn; [reflexivity|].
  unfold keep_edge at 1 3. cbn. destruct thr as [q|]; cbn.
  - destruct (Qle_bool q p); cbn; [f_equal|]; exact IH.
  - f_equal. exact IH.
Qed.

Lemma closed_edges_map f nodes E : closed_edges nodes E -> closed_edges (map f nodes) (map_edges f E).
Proof.
  intros C a b H. unfold map_edges in H. apply in_map_iff in H. destruct H as [[x y] [Eq Hin]].
  cbn in Eq. injection Eq as <- <-. destruct (C _ _ Hin). split; now apply in_map.
Qed.

Lemma NoDup_map_inj (f : Z -> Z) l : (forall x y, f x = f y -> x = y) -> NoDup l -> NoDup (map f l).
Proof.
  intros Inj. induction 1 as [|a l Hn ND IH]; cbn; constructor; auto.
  intros H. apply in_map_iff in H. destruct H as [x [Ex Hx]]. apply Inj in Ex. now subst.
Qed.

Lemma mono_inj (f : Z -> Z) : (forall x y, x < y -> f x < f y) -> forall x y, f x = f y -> x = y.
Proof.
  intros Mono x y Exy. destruct (Z.lt_trichotomy x y) as [H|[H|H]]; [apply Mono in H; lia|exact H|apply Mono in H; lia].
Qed.

Section Relabel.
  Variable nodes : list Z.
  Variable edges : list (Z * Z * Q).
  Variable thr : option Q.
  Hypothesis closed : closed_edges nodes (thr_edges thr edges).

  (* both runs terminate with good outputs *)
  Lemma both_runs f :
    exists out out',
      cluster_at_threshold nodes edges thr = Some out /\
      cluster_at_threshold (map f nodes) (relabel_edges f edges) thr = Some out' /\
      good_output nodes (thr_edges thr edges) out /\
      good_output (map f nodes) (map_edges f (thr_edges thr edges)) out'.
  Proof.
    destruct (solve_cc_total _ _ closed) as [out [H G]].
    destruct (solve_cc_total _ _ (closed_edges_map f _ _ closed)) as [out' [H' G']].
    exists out, out'. unfold cluster_at_threshold. rewrite thr_edges_relabel. auto.
  Qed.

  Theorem relabel_monotone f :
    (forall x y, x < y -> f x < f y) ->
    exists out out',
      cluster_at_threshold nodes edges thr = Some out /\
      cluster_at_threshold (map f nodes) (relabel_edges f edges) thr = Some out' /\
      (forall v c, In (v, c) out -> In (f v, f c) out') /\
      (forall v' c', In (v', c') out' -> exists v c, v' = f v /\ c' = f c /\ In (v, c) out).
  Proof.
    intros Mono. destruct (both_runs f) as (out & out' & H & H' & G & G').
    exists out, out'. split; [exact H|]. split; [exact H'|]. split.
    - intros v c Hin. destruct (good_output_comp_min _ _ _ _ _ G Hin) as [Hv ->].
      rewrite <- (comp_min_relabel_monotone f nodes _ v Mono Hv). apply good_output_row; auto. now apply in_map.
    - intros v' c' Hin. destruct (good_output_comp_min _ _ _ _ _ G' Hin) as [Hv' ->].
      apply in_map_iff in Hv'. destruct Hv' as [v [<- Hv]]. exists v, (comp_min nodes (thr_edges thr edges) v).
      split; [reflexivity|]. split; [now apply comp_min_relabel_monotone|now apply good_output_row].
  Qed.

  Theorem relabel_injective_partition f :
    (forall x y, f x = f y -> x = y) ->
    exists out out',
      cluster_at_threshold nodes edges thr = Some out /\
      cluster_at_threshold (map f nodes) (relabel_edges f edges) thr = Some out' /\
      (forall v, In v nodes -> exists c c', In (v, c) out /\ In (f v, c') out') /\
      (forall v w c d c' d', In (v, c) out -> In (w, d) out -> In (f v, c') out' -> In (f w, d') out' ->
                             (c = d <-> c' = d')).
  Proof.
    intros Inj. destruct (both_runs f) as (out & out' & H & H' & G & G').
    exists out, out'. split; [exact H|]. split; [exact H'|]. split.
    - intros v Hv. exists (comp_min nodes (thr_edges thr edges) v),
                          (comp_min (map f nodes) (map_edges f (thr_edges thr edges)) (f v)).
      split; [apply good_output_row; assumption|].
      apply good_output_row; [exact G'|now apply in_map].
    - intros v w c d c' d' Hv Hw Hv' Hw'.
      destruct (good_output_comp_min _ _ _ _ _ G Hv) as [Nv ->].
      destruct (good_output_comp_min _ _ _ _ _ G Hw) as [Nw ->].
      destruct (good_output_comp_min _ _ _ _ _ G' Hv') as [_ ->].
      destruct (good_output_comp_min _ _ _ _ _ G' Hw') as [_ ->].
      symmetry. now apply comp_min_relabel_partition.
  Qed.

  Theorem rows_irrelevant nodes2 edges2 :
    Permutation nodes nodes2 -> Permutation edges edges2 ->
    exists out out2,
      cluster_at_threshold nodes edges thr = Some out /\
      cluster_at_threshold nodes2 edges2 thr = Some out2 /\
      forall v c, In (v, c) out <-> In (v, c) out2.
  Proof.
    intros Pn Pe.
    assert (Hn : forall x, In x nodes <-> In x nodes2).
    { intros x; split; apply Permutation_in; [exact Pn|now apply Permutation_sym]. }
    assert (He : forall e, In e (thr_edges thr edges) <-> In e (thr_edges thr edges2)).
    { intros [a b]. rewrite !thr_edges_in. split; intros [p [H1 H2]]; exists p; (split; [|exact H2]).
      - eapply Permutation_in; [exact Pe|exact H1].
      - eapply Permutation_in; [apply Permutation_sym; exact Pe|exact H1]. }
    assert (closed2 : closed_edges nodes2 (thr_edges thr edges2)).
    { intros a b H. apply He in H. destruct (closed _ _ H). split; now apply Hn. }
    destruct (solve_cc_total _ _ closed) as [out [H G]].
    destruct (solve_cc_total _ _ closed2) as [out2 [H2 G2]].
    exists out, out2. split; [exact H|]. split; [exact H2|]. intros v c. split; intros Hin.
    - destruct (good_output_comp_min _ _ _ _ _ G Hin) as [Hv ->].
      rewrite (comp_min_rows_irrelevant nodes nodes2 _ _ v Hn He Hv). apply good_output_row; auto. now apply Hn.
    - destruct (good_output_comp_min _ _ _ _ _ G2 Hin) as [Hv ->]. apply Hn in Hv.
      rewrite <- (comp_min_rows_irrelevant nodes nodes2 _ _ v Hn He Hv). now apply good_output_row.
  Qed.
End Relabel.
