(* Proofs about Model/CC.v: the list-level model of solve_connected_components returns, for
   every node exactly once, the minimum of its connected component; and it terminates within
   |V|^2 + 1 passes. *)
From Coq Require Import ZArith List Bool Lia QArith Permutation Arith Lqa.
From Splinkv Require Import Base.Graph Model.CC.
Import ListNotations.
Open Scope Z_scope.

(* ------------------------------------------------------------------------------------ *)
(* small list facts *)
Lemma memZ_iff x l : memZ x l = true <-> In x l.
Proof.
  unfold memZ. rewrite existsb_exists. split.
  - intros [y [Hy E]]. apply Z.eqb_eq in E. now subst.
  - intros H. exists x. split; [exact H|apply Z.eqb_refl].
Qed.

Lemma memZ_false x l : memZ x l = false <-> ~ In x l.
Proof. rewrite <- memZ_iff. destruct (memZ x l); split; congruence. Qed.

Lemma nodupZ_in x l : In x (nodupZ l) <-> In x l.
Proof. apply nodup_In. Qed.
Lemma nodupZZ_in x l : In x (nodupZZ l) <-> In x l.
Proof. apply nodup_In. Qed.

Lemma NoDup_map_filter {A B} (f : A -> B) p (l : list A) :
  NoDup (map f l) -> NoDup (map f (filter p l)).
Proof.
  induction l as [|a t IH]; cbn; [auto|]. intros ND. inversion ND; subst.
  destruct (p a); cbn; auto. constructor; auto.
  intros H. apply H1. apply in_map_iff in H. destruct H as [x [Hx Hin]].
  apply filter_In in Hin. apply in_map_iff. exists x. tauto.
Qed.

Lemma NoDup_app_intro {A} (l1 l2 : list A) :
  NoDup l1 -> NoDup l2 -> (forall x, In x l1 -> ~ In x l2) -> NoDup (l1 ++ l2).
Proof.
  induction l1 as [|a t IH]; cbn; [auto|]. intros N1 N2 D. inversion N1; subst.
  constructor.
  - rewrite in_app_iff. intros [H|H]; [auto|]. eapply D; eauto.
  - apply IH; auto.
Qed.

Lemma NoDup_map_fun {A B} (f : A -> B) (l : list A) x y :
  NoDup (map f l) -> In x l -> In y l -> f x = f y -> x = y.
Proof.
  induction l as [|a t IH]; cbn; [tauto|]. intros ND Hx Hy E. inversion ND; subst.
  destruct Hx as [->|Hx], Hy as [->|Hy]; auto.
  - exfalso. apply H1. rewrite E. now apply in_map.
  - exfalso. apply H1. rewrite <- E. now apply in_map.
Qed.

(* ------------------------------------------------------------------------------------ *)
(* min / group by *)
Lemma minl_le_d d l : minl d l <= d.
Proof. induction l; cbn; lia. Qed.
Lemma minl_le_in d l x : In x l -> minl d l <= x.
Proof.
  induction l as [|a t IH]; cbn; [tauto|]. intros [->|H]; [lia|]. specialize (IH H). lia.
Qed.
Lemma minl_in d l : minl d l = d \/ In (minl d l) l.
Proof.
  induction l as [|a t IH]; cbn; [auto|].
  destruct (Z.min_spec a (minl d t)) as [[_ ->]|[_ ->]]; [auto|]. destruct IH; auto.
Qed.

Lemma minl0_in l : l <> [] -> In (minl0 l) l.
Proof.
  destruct l as [|x t]; [congruence|]. intros _. cbn [minl0].
  destruct (minl_in x t); [left; congruence|now right].
Qed.
Lemma minl0_le l x : In x l -> minl0 l <= x.
Proof.
  destruct l as [|y t]; cbn [minl0 In]; [tauto|].
  intros [<-|H]; [apply minl_le_d|now apply minl_le_in].
Qed.

Lemma vals_in k l x : In x (vals k l) <-> In (k, x) l.
Proof.
  unfold vals. rewrite in_map_iff. split.
  - intros [[k' y] [E H]]. apply filter_In in H. cbn in *. destruct H as [H1 H2].
    apply Z.eqb_eq in H2. now subst.
  - intros H. exists (k, x). split; [reflexivity|]. apply filter_In. split; [exact H|apply Z.eqb_refl].
Qed.

Lemma group_min_in k m l :
  In (k, m) (group_min l) -> In (k, m) l /\ forall x, In (k, x) l -> m <= x.
Proof.
  unfold group_min. rewrite in_map_iff. intros [k' [E H]]. injection E as -> <-.
  apply (proj1 (nodupZ_in _ _)) in H. apply in_map_iff in H. destruct H as [[k0 x0] [E0 H0]]. cbn in E0. subst k0.
  split.
  - apply vals_in. apply minl0_in. intros C.
    assert (In x0 (vals k l)) by now apply vals_in. rewrite C in H. destruct H.
  - intros x Hx. apply minl0_le. now apply vals_in.
Qed.

Lemma group_min_keys l : map fst (group_min l) = nodupZ (map fst l).
Proof. unfold group_min. rewrite map_map. cbn. apply map_id. Qed.

Lemma group_min_keys_in k l : In k (map fst (group_min l)) <-> In k (map fst l).
Proof. rewrite group_min_keys. apply nodupZ_in. Qed.

Lemma group_min_nodup l : NoDup (map fst (group_min l)).
Proof. rewrite group_min_keys. apply NoDup_nodup. Qed.

(* ------------------------------------------------------------------------------------ *)
(* membership specifications of the CTEs *)
Lemma ewsl_in nodes E a b :
  In (a, b) (edges_with_self_loops nodes E) <-> In (a, b) E \/ (a = b /\ In a nodes).
Proof.
  unfold edges_with_self_loops. rewrite nodupZZ_in, in_app_iff, in_map_iff. split.
  - intros [H|[v [Ev Hv]]]; [auto|]. injection Ev as <- <-. auto.
  - intros [H|[<- H]]; [auto|]. right. eauto.
Qed.

Lemma neighbours_in nodes ewsl v w :
  In (v, w) (neighbours nodes ewsl) <-> In v nodes /\ (In (v, w) ewsl \/ In (w, v) ewsl).
Proof.
  unfold neighbours. rewrite nodupZZ_in, in_app_iff, !in_flat_map. split.
  - intros [[n [Hn H]]|[n [Hn H]]]; apply in_map_iff in H; destruct H as [[a b] [E H]];
      apply filter_In in H; destruct H as [H1 H2]; cbn in *; apply Z.eqb_eq in H2; subst;
      injection E as <- <-; auto.
  - intros [Hv [H|H]]; [left|right]; exists v; (split; [exact Hv|]); apply in_map_iff.
    + exists (v, w). split; [reflexivity|]. apply filter_In. split; [exact H|apply Z.eqb_refl].
    + exists (w, v). split; [reflexivity|]. apply filter_In. split; [exact H|apply Z.eqb_refl].
Qed.

Lemma join_min_in (A : list (Z * Z)) (B : list (Z * Z)) v m :
  In (v, m) (flat_map (fun nb => map (fun r => (fst nb, snd r)) (filter (fun r => snd nb =? fst r) B)) A)
  <-> exists w, In (v, w) A /\ In (w, m) B.
Proof.
  rewrite in_flat_map. split.
  - intros [[v' w] [H1 H2]]. apply in_map_iff in H2. destruct H2 as [[w' m'] [E H2]].
    apply filter_In in H2. cbn in *. destruct H2 as [H2 H3]. apply Z.eqb_eq in H3. subst.
    injection E as <- <-. eauto.
  - intros [w [H1 H2]]. exists (v, w). split; [exact H1|]. apply in_map_iff. exists (w, m).
    split; [reflexivity|]. apply filter_In. split; [exact H2|apply Z.eqb_refl].
Qed.

Lemma df_representatives_in fi reps (x : rrow) :
  In x (df_representatives fi reps) <->
  exists v m m0, In (v, m) fi /\ In (v, m0) reps /\ x = (v, m, negb (m =? m0)).
Proof.
  unfold df_representatives. rewrite in_flat_map. split.
  - intros [[v m] [H1 H2]]. apply in_map_iff in H2. destruct H2 as [[v' m0] [E H2]].
    apply filter_In in H2. cbn in *. destruct H2 as [H2 H3]. apply Z.eqb_eq in H3. subst.
    eauto 7.
  - intros (v & m & m0 & H1 & H2 & ->). exists (v, m). split; [exact H1|]. apply in_map_iff.
    exists (v, m0). split; [reflexivity|]. apply filter_In. split; [exact H2|apply Z.eqb_refl].
Qed.

Lemma non_stable_in prev nbrs x :
  In x (non_stable prev nbrs) <->
  exists r r2, In r prev /\ In r2 prev /\ In (node r, node r2) nbrs /\ rep r = x /\ rep r <> rep r2.
Proof.
  unfold non_stable. rewrite nodupZ_in, in_flat_map. split.
  - intros [r [Hr H]]. apply in_flat_map in H. destruct H as [[a b] [Hn H]].
    apply filter_In in Hn. cbn in Hn. destruct Hn as [Hn En]. apply Z.eqb_eq in En. subst a.
    apply in_flat_map in H. destruct H as [r2 [H2 H]]. apply filter_In in H2. cbn in H2.
    destruct H2 as [H2 E2]. apply Z.eqb_eq in E2. subst b.
    destruct (Z.eqb_spec (rep r) (rep r2)); cbn in H; [destruct H|]. destruct H as [<-|[]].
    exists r, r2. tauto.
  - intros (r & r2 & Hr & Hr2 & Hn & <- & Hne). exists r. split; [exact Hr|].
    apply in_flat_map. exists (node r, node r2). split.
    { apply filter_In. split; [exact Hn|apply Z.eqb_refl]. }
    apply in_flat_map. exists r2. split.
    { apply filter_In. split; [exact Hr2|apply Z.eqb_refl]. }
    destruct (Z.eqb_spec (rep r) (rep r2)); [contradiction|]. now left.
Qed.

Lemma gen_source_in un nbrs v m :
  In (v, m) (gen_source un nbrs) <->
  (exists p, In (v, node p) nbrs /\ In p un /\ flag p = true /\ m = rep p) \/
  (exists p, In p un /\ v = node p /\ m = rep p).
Proof.
  unfold gen_source, out_rows. rewrite in_app_iff, in_flat_map, in_map_iff. split.
  - intros [[[a b] [Hn H]]|[p [E Hp]]].
    + apply in_map_iff in H. destruct H as [p [E Hp]]. apply filter_In in Hp. cbn in *.
      destruct Hp as [Hp Hc]. apply andb_true_iff in Hc. destruct Hc as [Hc Hf].
      apply Z.eqb_eq in Hc. subst b. injection E as <- <-. left. exists p. tauto.
    + injection E as <- <-. right. exists p. tauto.
  - intros [[p (Hn & Hp & Hf & ->)]|[p (Hp & -> & ->)]].
    + left. exists (v, node p). split; [exact Hn|]. apply in_map_iff. exists p. split; [reflexivity|].
      apply filter_In. split; [exact Hp|]. cbn. now rewrite Z.eqb_refl, Hf.
    + right. exists p. tauto.
Qed.

Lemma upd_flags_in r un (x : rrow) :
  In x (upd_flags r un) <->
  exists v m p, In (v, m) r /\ In p un /\ node p = v /\ x = (v, m, negb (m =? rep p)).
Proof.
  unfold upd_flags. rewrite in_flat_map. split.
  - intros [[v m] [H1 H2]]. apply in_map_iff in H2. destruct H2 as [p [E H2]].
    apply filter_In in H2. cbn in *. destruct H2 as [H2 H3]. apply Z.eqb_eq in H3.
    exists v, m, p. subst. tauto.
  - intros (v & m & p & H1 & H2 & H3 & ->). exists (v, m). split; [exact H1|]. apply in_map_iff.
    exists p. split; [reflexivity|]. apply filter_In. split; [exact H2|]. cbn. subst v. apply Z.eqb_refl.
Qed.

(* keys of a join-on-key against a table with unique keys *)
Lemma upd_flags_keys r un :
  NoDup (map fst r) -> NoDup (map node un) -> (forall v, In v (map fst r) -> In v (map node un)) ->
  NoDup (map node (upd_flags r un)) /\ forall v, In v (map node (upd_flags r un)) <-> In v (map fst r).
Proof.
  intros Nr Nu Sub. split.
  - induction r as [|[v m] t IH]; cbn; [constructor|]. inversion Nr; subst.
    unfold upd_flags in *. cbn [flat_map]. rewrite map_app. apply NoDup_app_intro.
    + rewrite map_map. cbn. unfold node at 1. cbn.
      assert (G : forall l, NoDup (map node l) -> NoDup (map (fun _ : rrow => v) (filter (fun p => v =? node p) l))).
      { induction l as [|q l IHl]; cbn; [constructor|]. intros NDl. inversion NDl; subst.
        destruct (Z.eqb_spec v (node q)); [|auto]. cbn. constructor; [|auto].
        intros Hin. apply in_map_iff in Hin. destruct Hin as [q' [_ Hq']]. apply filter_In in Hq'.
        destruct Hq' as [Hq' Eq']. apply Z.eqb_eq in Eq'. apply H3. rewrite <- e, Eq'. now apply in_map. }
      apply G, Nu.
    + apply IH; auto. intros u Hu. apply Sub. now right.
    + intros u Hu1 Hu2. apply in_map_iff in Hu1. destruct Hu1 as [x [Ex Hx]].
      apply in_map_iff in Hx. destruct Hx as [p [Ep Hp]]. subst x. cbn in Ex. subst u.
      apply in_map_iff in Hu2. destruct Hu2 as [y [Ey Hy]]. apply in_flat_map in Hy.
      destruct Hy as [[v' m'] [Hin Hy]]. apply in_map_iff in Hy. destruct Hy as [p' [Ep' _]].
      subst y. cbn in Ey. subst v'. apply H1. change v with (fst (v, m')). now apply in_map.
  - intros v. split.
    + intros H. apply in_map_iff in H. destruct H as [x [Ex Hx]]. apply upd_flags_in in Hx.
      destruct Hx as (v' & m & p & H1 & _ & _ & ->). cbn in Ex. subst v'.
      change v with (fst (v, m)). now apply in_map.
    + intros H. pose proof (Sub v H) as Hu. apply in_map_iff in H. destruct H as [[v' m] [E H]].
      cbn in E. subst v'. apply in_map_iff in Hu. destruct Hu as [p [Ep Hp]].
      apply in_map_iff. exists (v, m, negb (m =? rep p)). split; [reflexivity|].
      apply upd_flags_in. exists v, m, p. tauto.
Qed.

Lemma df_representatives_as_upd fi reps :
  upd_flags fi (map (fun kv : Z * Z => (fst kv, snd kv, false)) reps) = df_representatives fi reps.
Proof.
  unfold upd_flags, df_representatives. apply flat_map_ext. intros [v m]. cbn [fst snd].
  induction reps as [|[a b] t IHt]; cbn; [reflexivity|].
  unfold node at 1. cbn. destruct (v =? a); cbn; [|exact IHt].
  unfold rep at 1. cbn. f_equal. exact IHt.
Qed.

(* rank of an id = number of node ids below it *)
Definition rank_in (l : list Z) (x : Z) : nat := length (filter (fun y => y <? x) l).

Lemma rank_in_mono l a b : a <= b -> (rank_in l a <= rank_in l b)%nat.
Proof.
  intros H. unfold rank_in. induction l as [|y l IH]; cbn; [lia|].
  destruct (Z.ltb_spec y a), (Z.ltb_spec y b); cbn; lia.
Qed.

Lemma rank_in_le l x : (rank_in l x <= length l)%nat.
Proof. unfold rank_in. induction l as [|y l IH]; cbn; [lia|]. destruct (y <? x); cbn; lia. Qed.

Lemma rank_in_strict l a b : In a l -> a < b -> (rank_in l a < rank_in l b)%nat.
Proof.
  intros Hin H. induction l as [|y l IH]; [destruct Hin|].
  pose proof (rank_in_mono l a b ltac:(lia)) as M. unfold rank_in in *. cbn.
  destruct Hin as [->|Hin].
  - destruct (Z.ltb_spec a a), (Z.ltb_spec a b); cbn; lia.
  - specialize (IH Hin). destruct (Z.ltb_spec y a), (Z.ltb_spec y b); cbn; lia.
Qed.

(* ------------------------------------------------------------------------------------ *)
Section Correct.
  Variable nodes : list Z.
  Variable E : list (Z * Z).
  Hypothesis nodes_nodup : NoDup nodes.
  Hypothesis edges_closed : forall a b, In (a, b) E -> In a nodes /\ In b nodes.

  Notation conn := (conn nodes E).
  Notation is_comp_min := (is_comp_min nodes E).

  Definition keys (t : list rrow) : list Z := map node t.

  Record Inv (prev : list rrow) (nbrs : list (Z * Z)) (acc : list (Z * Z)) : Prop := {
    inv_K  : NoDup (keys prev);
    inv_A  : forall v, In v (keys prev) -> In v nodes;
    inv_N  : forall v w, In (v, w) nbrs <-> In v (keys prev) /\ (w = v \/ adj E v w);
    inv_C  : forall v w, In v (keys prev) -> adj E v w -> In w (keys prev);
    inv_I1 : forall r, In r prev -> conn (node r) (rep r);
    inv_I2 : forall r, In r prev -> rep r <= node r;
    inv_J  : forall r r2, In r prev -> In r2 prev -> In (node r, node r2) nbrs ->
                          flag r2 = false -> rep r <= rep r2;
    inv_S  : forall v c, In (v, c) acc -> is_comp_min v c;
    inv_PN : NoDup (map fst acc);
    inv_PD : forall v, In v (map fst acc) -> ~ In v (keys prev);
    inv_PA : forall v, In v nodes <-> In v (map fst acc) \/ In v (keys prev)
  }.

  Lemma adj_nodes v w : adj E v w -> In v nodes /\ In w nodes.
  Proof. intros [H|H]; apply edges_closed in H; tauto. Qed.

  Lemma key_row t v : In v (keys t) -> exists r, In r t /\ node r = v.
  Proof. unfold keys. rewrite in_map_iff. intros [r [H1 H2]]. eauto. Qed.
  Lemma row_key t r : In r t -> In (node r) (keys t).
  Proof. intros. unfold keys. now apply in_map. Qed.

  (* A class of rows that is closed under the neighbour relation is a whole component and its
     representative is the component minimum (DESIGN: proof sketch of `Closed`). *)
  Lemma closed_class prev nbrs acc r :
    Inv prev nbrs acc -> In r prev ->
    (forall r1 r2, In r1 prev -> In r2 prev -> In (node r1, node r2) nbrs ->
                   rep r1 = rep r -> rep r2 = rep r) ->
    (forall w, conn (node r) w -> exists r', In r' prev /\ node r' = w /\ rep r' = rep r) /\
    is_comp_min (node r) (rep r).
  Proof.
    intros I Hr Hcl.
    assert (Cl : forall w, conn (node r) w -> exists r', In r' prev /\ node r' = w /\ rep r' = rep r).
    { intros w C. remember (node r) as v eqn:Ev. induction C as [v Hv|v w x C IH Hx Ha].
      - exists r. auto.
      - destruct (IH Ev) as (r1 & H1 & N1 & R1).
        assert (Kx : In x (keys prev)).
        { eapply (inv_C _ _ _ I); [|exact Ha]. rewrite <- N1. now apply row_key. }
        destruct (key_row _ _ Kx) as (r2 & H2 & N2). exists r2. repeat split; auto.
        apply (Hcl r1 r2); auto. apply (inv_N _ _ _ I). rewrite N1, N2. split.
        + rewrite <- N1. now apply row_key.
        + now right. }
    split; [exact Cl|]. split.
    - now apply (inv_I1 _ _ _ I).
    - intros w C. destruct (Cl w C) as (r' & H' & N' & R'). rewrite <- R', <- N'.
      now apply (inv_I2 _ _ _ I).
  Qed.

  Lemma stable_rows_in prev nbrs r :
    In r (stable_rows prev nbrs) <-> In r prev /\ ~ In (rep r) (non_stable prev nbrs).
  Proof.
    unfold stable_rows. rewrite filter_In, negb_true_iff, memZ_false. tauto.
  Qed.

  Lemma stable_is_comp_min prev nbrs acc r :
    Inv prev nbrs acc -> In r (stable_rows prev nbrs) ->
    (forall w, conn (node r) w -> exists r', In r' prev /\ node r' = w /\ rep r' = rep r) /\
    is_comp_min (node r) (rep r).
  Proof.
    intros I Hs. apply stable_rows_in in Hs. destruct Hs as [Hr Hns].
    eapply closed_class; eauto.
    intros r1 r2 H1 H2 Hn R1. destruct (Z.eq_dec (rep r1) (rep r2)) as [e|ne]; [congruence|].
    exfalso. apply Hns. apply non_stable_in. exists r1, r2. tauto.
  Qed.

  (* the thinned table is exactly prev minus the stable rows *)
  Lemma unstable_rows_in prev nbrs r :
    In r (unstable_rows prev (stable_rows prev nbrs)) <->
    In r prev /\ ~ In r (stable_rows prev nbrs).
  Proof.
    unfold unstable_rows. rewrite filter_In, negb_true_iff, memZ_false, in_map_iff. split.
    - intros [Hr Hn]. split; [exact Hr|]. intros Hs. apply Hn. eauto.
    - intros [Hr Hn]. split; [exact Hr|]. intros [s [Es Hs]]. apply Hn.
      apply stable_rows_in. split; [exact Hr|]. apply stable_rows_in in Hs. rewrite <- Es. tauto.
  Qed.

  Lemma thin_neighbours_in nbrs un v w :
    In (v, w) (thin_neighbours nbrs un) <-> In (v, w) nbrs /\ In v (keys un).
  Proof. unfold thin_neighbours. rewrite filter_In, memZ_iff. reflexivity. Qed.

  Lemma row_unique prev nbrs acc r r' :
    Inv prev nbrs acc -> In r prev -> In r' prev -> node r = node r' -> r = r'.
  Proof. intros I. apply NoDup_map_fun. apply (inv_K _ _ _ I). Qed.

  (* ---- one pass preserves the invariant ---- *)
  Lemma step_inv prev nbrs acc :
    Inv prev nbrs acc ->
    let it := cc_step prev nbrs in
    Inv (it_reps it) (it_nbrs it) (acc ++ out_rows (it_stable it)).
  Proof.
    intros I. cbn zeta. unfold cc_step. cbn [it_reps it_nbrs it_stable].
    set (st := stable_rows prev nbrs).
    set (un := unstable_rows prev st).
    set (nb := thin_neighbours nbrs un).
    set (r := gen_reps un nb).
    assert (Un : forall p, In p un <-> In p prev /\ ~ In p st) by (intros; apply unstable_rows_in).
    assert (UnK : NoDup (keys un)).
    { unfold un, unstable_rows, keys. apply NoDup_map_filter. apply (inv_K _ _ _ I). }
    (* key dichotomy *)
    assert (Kdich : forall v, In v (keys prev) -> In v (keys st) \/ In v (keys un)).
    { intros v Hv. destruct (key_row _ _ Hv) as (p & Hp & <-).
      destruct (in_dec Z.eq_dec (rep p) (non_stable prev nbrs)) as [Hin|Hnin].
      - right. apply row_key. apply Un. split; [exact Hp|]. intros Hs. apply stable_rows_in in Hs. tauto.
      - left. apply row_key. apply stable_rows_in. tauto. }
    assert (Kdisj : forall v, In v (keys st) -> ~ In v (keys un)).
    { intros v Hs Hu. destruct (key_row _ _ Hs) as (p & Hp & <-).
      destruct (key_row _ _ Hu) as (q & Hq & Eq). apply Un in Hq. destruct Hq as [Hq Hqn].
      apply Hqn. assert (q = p); [|subst; exact Hp].
      eapply row_unique; eauto. apply stable_rows_in in Hp. tauto. }
    (* closure of the unstable set *)
    assert (UnC : forall v w, In v (keys un) -> adj E v w -> In w (keys un)).
    { intros v w Hv Ha. destruct (key_row _ _ Hv) as (p & Hp & <-). apply Un in Hp. destruct Hp as [Hp Hpn].
      assert (Kw : In w (keys prev)).
      { eapply (inv_C _ _ _ I); [|exact Ha]. now apply row_key. }
      destruct (Kdich w Kw) as [Hs|Hu]; [|exact Hu]. exfalso.
      destruct (key_row _ _ Hs) as (q & Hq & <-).
      destruct (stable_is_comp_min _ _ _ q I Hq) as [Cl _].
      assert (C : conn (node q) (node p)).
      { apply conn_edge; [apply (adj_nodes _ _ Ha)..|]. now apply adj_sym. }
      destruct (Cl _ C) as (p' & Hp' & Np' & Rp').
      assert (p' = p) by (eapply row_unique; eauto). subst p'.
      apply Hpn. apply stable_rows_in. split; [exact Hp|]. rewrite Rp'.
      apply stable_rows_in in Hq. tauto. }
    (* neighbours after thinning *)
    assert (NbS : forall v w, In (v, w) nb <-> In v (keys un) /\ (w = v \/ adj E v w)).
    { intros v w. unfold nb. rewrite thin_neighbours_in, (inv_N _ _ _ I). split; [tauto|].
      intros [Hv H]. repeat split; auto. destruct (key_row _ _ Hv) as (p & Hp & <-).
      apply row_key. apply Un in Hp. tauto. }
    (* keys of r *)
    assert (Rk : forall v, In v (map fst r) <-> In v (keys un)).
    { intros v. unfold r, gen_reps. rewrite group_min_keys_in. rewrite in_map_iff. split.
      - intros [[v' m] [Ev H]]. cbn in Ev. subst v'. apply gen_source_in in H.
        destruct H as [(p & Hn & _)|(p & Hp & -> & _)].
        + apply NbS in Hn. tauto.
        + now apply row_key.
      - intros Hv. destruct (key_row _ _ Hv) as (p & Hp & <-). exists (node p, rep p). split; [reflexivity|].
        apply gen_source_in. right. exists p. tauto. }
    destruct (upd_flags_keys r un (group_min_nodup _) UnK (fun v H => proj1 (Rk v) H)) as [NewK NewKin].
    assert (NewKin' : forall v, In v (keys (upd_flags r un)) <-> In v (keys un)).
    { intros v. unfold keys at 1. rewrite NewKin. apply Rk. }
    (* description of a new row *)
    assert (NewRow : forall x, In x (upd_flags r un) ->
              exists p, In p un /\ node p = node x /\ flag x = negb (rep x =? rep p) /\
                        In (node x, rep x) (gen_source un nb) /\
                        forall m, In (node x, m) (gen_source un nb) -> rep x <= m).
    { intros x Hx. apply upd_flags_in in Hx. destruct Hx as (v & m & p & Hr & Hp & Np & ->).
      exists p. unfold node, rep, flag. cbn. repeat split; auto; apply group_min_in in Hr; tauto. }
    constructor.
    - exact NewK.
    - intros v Hv. apply NewKin' in Hv. destruct (key_row _ _ Hv) as (p & Hp & <-).
      apply (inv_A _ _ _ I). apply row_key. apply Un in Hp. tauto.
    - intros v w. rewrite NbS, NewKin'. reflexivity.
    - intros v w Hv Ha. apply NewKin'. apply NewKin' in Hv. eauto.
    - (* I1 *)
      intros x Hx. destruct (NewRow x Hx) as (p & Hp & Np & _ & Hsrc & _).
      apply gen_source_in in Hsrc. destruct Hsrc as [(q & Hn & Hq & _ & ->)|(q & Hq & Nq & ->)].
      + apply Un in Hq. destruct Hq as [Hq _]. apply NbS in Hn. destruct Hn as [Hv Hw].
        eapply conn_trans; [|apply (inv_I1 _ _ _ I); exact Hq].
        destruct Hw as [->|Ha].
        * constructor. rewrite <- Np. apply (inv_A _ _ _ I). apply row_key. apply Un in Hp. tauto.
        * apply conn_edge; auto; apply (adj_nodes _ _ Ha).
      + rewrite Nq. apply Un in Hq. apply (inv_I1 _ _ _ I). tauto.
    - (* I2 *)
      intros x Hx. destruct (NewRow x Hx) as (p & Hp & Np & _ & _ & Hmin).
      assert (rep x <= rep p).
      { apply Hmin. apply gen_source_in. right. exists p. auto. }
      apply Un in Hp. destruct Hp as [Hp _]. pose proof (inv_I2 _ _ _ I p Hp). lia.
    - (* J *)
      intros x x2 Hx Hx2 Hn Hf.
      destruct (NewRow x Hx) as (p & Hp & Np & _ & _ & Hmin).
      destruct (NewRow x2 Hx2) as (p2 & Hp2 & Np2 & Hf2 & _ & _).
      rewrite Hf in Hf2. symmetry in Hf2. apply negb_false_iff in Hf2. apply Z.eqb_eq in Hf2.
      rewrite Hf2. destruct (flag p2) eqn:F2.
      + apply Hmin. apply gen_source_in. left. exists p2. rewrite Np2. tauto.
      + assert (rep x <= rep p).
        { apply Hmin. apply gen_source_in. right. exists p. auto. }
        assert (rep p <= rep p2); [|lia].
        apply Un in Hp. apply Un in Hp2. apply (inv_J _ _ _ I); try tauto.
        rewrite Np, Np2. apply thin_neighbours_in in Hn. tauto.
    - (* S *)
      intros v c Hin. apply in_app_iff in Hin. destruct Hin as [Hin|Hin]; [now apply (inv_S _ _ _ I)|].
      unfold out_rows in Hin. apply in_map_iff in Hin. destruct Hin as [q [Eq Hq]]. injection Eq as <- <-.
      eapply stable_is_comp_min; eauto.
    - (* PN *)
      rewrite map_app. apply NoDup_app_intro.
      + apply (inv_PN _ _ _ I).
      + unfold out_rows. rewrite map_map. cbn. unfold st, stable_rows. apply NoDup_map_filter. apply (inv_K _ _ _ I).
      + intros v H1 H2. apply (inv_PD _ _ _ I v H1). unfold out_rows in H2. rewrite map_map in H2. cbn in H2.
        destruct (key_row _ _ H2) as (q & Hq & <-). apply row_key. apply stable_rows_in in Hq. tauto.
    - (* PD *)
      intros v Hv Hk. apply NewKin' in Hk. rewrite map_app, in_app_iff in Hv. destruct Hv as [Hv|Hv].
      + apply (inv_PD _ _ _ I v Hv). destruct (key_row _ _ Hk) as (q & Hq & <-). apply row_key. apply Un in Hq. tauto.
      + unfold out_rows in Hv. rewrite map_map in Hv. cbn in Hv. now apply (Kdisj v).
    - (* PA *)
      intros v. rewrite (inv_PA _ _ _ I v), map_app, in_app_iff, NewKin'. unfold out_rows. rewrite map_map. cbn.
      change (map (fun x : rrow => node x) st) with (keys st). split.
      + intros [H|H]; [tauto|]. destruct (Kdich v H); tauto.
      + intros [[H|H]|H]; [tauto| |].
        * right. destruct (key_row _ _ H) as (q & Hq & <-). apply row_key. apply stable_rows_in in Hq. tauto.
        * right. destruct (key_row _ _ H) as (q & Hq & <-). apply row_key. apply Un in Hq. tauto.
  Qed.

  (* ---- exit: no row flagged ---- *)
  Lemma exit_is_comp_min prev nbrs acc :
    Inv prev nbrs acc -> count_flags prev = O ->
    forall r, In r prev -> is_comp_min (node r) (rep r).
  Proof.
    intros I Hc r Hr.
    assert (NF : forall q, In q prev -> flag q = false).
    { intros q Hq. destruct (flag q) eqn:F; [|reflexivity]. exfalso.
      unfold count_flags in Hc. apply length_zero_iff_nil in Hc.
      assert (In q (filter flag prev)) by (apply filter_In; tauto). rewrite Hc in H. destruct H. }
    assert (EQ : forall r1 r2, In r1 prev -> In r2 prev -> In (node r1, node r2) nbrs -> rep r1 = rep r2).
    { intros r1 r2 H1 H2 Hn.
      assert (In (node r2, node r1) nbrs).
      { apply (inv_N _ _ _ I) in Hn. apply (inv_N _ _ _ I). split; [now apply row_key|].
        destruct Hn as [_ [->|Ha]]; [now left|right; now apply adj_sym]. }
      pose proof (inv_J _ _ _ I r1 r2 H1 H2 Hn (NF _ H2)).
      pose proof (inv_J _ _ _ I r2 r1 H2 H1 H (NF _ H1)). lia. }
    eapply closed_class; eauto. intros r1 r2 H1 H2 Hn R1. rewrite <- R1. symmetry. now apply EQ.
  Qed.

  (* ---- the loop ---- *)
  Definition good_output (out : list (Z * Z)) : Prop :=
    NoDup (map fst out) /\ (forall v, In v nodes <-> In v (map fst out)) /\
    forall v c, In (v, c) out -> is_comp_min v c.

  Lemma loop_correct fuel : forall prev nbrs acc out,
    Inv prev nbrs acc -> cc_loop fuel prev nbrs acc = Some out -> good_output out.
  Proof.
    induction fuel as [|f IH]; intros prev nbrs acc out I H; [discriminate|].
    cbn [cc_loop] in H. pose proof (step_inv _ _ _ I) as I'. cbn zeta in I'.
    destruct (count_flags (it_reps (cc_step prev nbrs))) eqn:Hc.
    - injection H as <-. set (it := cc_step prev nbrs) in *. split; [|split; [intros v; split|]].
      + rewrite map_app. apply NoDup_app_intro.
        * apply (inv_PN _ _ _ I').
        * unfold out_rows. rewrite map_map. cbn. apply (inv_K _ _ _ I').
        * intros v H1 H2. apply (inv_PD _ _ _ I' v H1). unfold out_rows in H2. now rewrite map_map in H2.
      + intros Hv. apply (inv_PA _ _ _ I') in Hv. rewrite map_app, in_app_iff. unfold out_rows at 2. now rewrite map_map.
      + intros Hv. apply (inv_PA _ _ _ I'). rewrite map_app, in_app_iff in Hv. unfold out_rows at 2 in Hv. now rewrite map_map in Hv.
      + intros v c Hin. apply in_app_iff in Hin. destruct Hin as [Hin|Hin]; [now apply (inv_S _ _ _ I')|].
        unfold out_rows in Hin. apply in_map_iff in Hin. destruct Hin as [q [Eq Hq]]. injection Eq as <- <-.
        eapply exit_is_comp_min; eauto.
    - eapply IH; eauto.
  Qed.

  (* ---- initial tables ---- *)
  Lemma init_nbrs_in v w :
    In (v, w) (neighbours nodes (edges_with_self_loops nodes E)) <-> In v nodes /\ (w = v \/ adj E v w).
  Proof.
    rewrite neighbours_in, !ewsl_in. unfold adj. split.
    - intros [Hv [[H|[H _]]|[H|[H _]]]]; auto.
    - intros [Hv [->|[H|H]]]; auto.
  Qed.

  Lemma init_inv :
    let '(r0, nb) := cc_init nodes E in Inv r0 nb [].
  Proof.
    unfold cc_init.
    set (nb := neighbours nodes (edges_with_self_loops nodes E)).
    set (reps := representatives nb).
    set (fi := neighbours_first_iter nb reps).
    assert (NbS : forall v w, In (v, w) nb <-> In v nodes /\ (w = v \/ adj E v w)) by apply init_nbrs_in.
    assert (NbK : forall v, In v (map fst nb) <-> In v nodes).
    { intros v. rewrite in_map_iff. split.
      - intros [[v' w] [Ev H]]. cbn in Ev. subst. apply NbS in H. tauto.
      - intros Hv. exists (v, v). split; [reflexivity|]. apply NbS. auto. }
    assert (NbC : forall v w, In (v, w) nb -> conn v w).
    { intros v w H. apply NbS in H. destruct H as [Hv [->|Ha]]; [now constructor|].
      apply conn_edge; auto. apply (adj_nodes _ _ Ha). }
    (* rep0 *)
    assert (R0 : forall v m, In (v, m) reps -> In (v, m) nb /\ forall w, In (v, w) nb -> m <= w).
    { intros v m. apply group_min_in. }
    assert (R0K : forall v, In v (map fst reps) <-> In v nodes).
    { intros v. unfold reps, representatives. rewrite group_min_keys_in. apply NbK. }
    assert (R0N : NoDup (map fst reps)) by apply group_min_nodup.
    (* rep1 *)
    assert (R1 : forall v m, In (v, m) fi ->
              (exists w, In (v, w) nb /\ In (w, m) reps) /\
              forall w m', In (v, w) nb -> In (w, m') reps -> m <= m').
    { intros v m H. apply group_min_in in H. destruct H as [H1 H2]. split.
      - now apply join_min_in.
      - intros w m' Hn Hr. apply H2. apply join_min_in. eauto. }
    assert (R1K : forall v, In v (map fst fi) <-> In v nodes).
    { intros v. unfold fi, neighbours_first_iter. rewrite group_min_keys_in, in_map_iff. split.
      - intros [[v' m] [Ev H]]. cbn in Ev. subst v'. apply join_min_in in H. destruct H as [w [H _]].
        apply NbS in H. tauto.
      - intros Hv. pose proof (proj2 (R0K v) Hv) as Hk. apply in_map_iff in Hk.
        destruct Hk as [[v' m] [Ev Hm]]. cbn in Ev. subst v'. exists (v, m). split; [reflexivity|].
        apply join_min_in. exists v. split; [|exact Hm]. apply NbS. auto. }
    assert (R1N : NoDup (map fst fi)) by apply group_min_nodup.
    (* rows of the initial table *)
    assert (Row : forall x, In x (df_representatives fi reps) ->
              exists m0, In (node x, rep x) fi /\ In (node x, m0) reps /\ flag x = negb (rep x =? m0)).
    { intros x Hx. apply df_representatives_in in Hx. destruct Hx as (v & m & m0 & H1 & H2 & ->).
      exists m0. unfold node, rep, flag. cbn. tauto. }
    assert (Keys : NoDup (keys (df_representatives fi reps)) /\
                   forall v, In v (keys (df_representatives fi reps)) <-> In v nodes).
    { pose (un := map (fun kv : Z * Z => (fst kv, snd kv, false)) reps).
      assert (Eun : upd_flags fi un = df_representatives fi reps) by apply df_representatives_as_upd.
      assert (Kun : map node un = map fst reps).
      { unfold un. rewrite map_map. reflexivity. }
      destruct (upd_flags_keys fi un R1N) as [A B].
      - rewrite Kun. exact R0N.
      - intros v Hv. rewrite Kun. apply R0K. now apply R1K.
      - rewrite Eun in A, B. split; [exact A|]. intros v. unfold keys. rewrite B. apply R1K. }
    destruct Keys as [K1 K2].
    constructor.
    - exact K1.
    - intros v. apply K2.
    - intros v w. rewrite NbS, K2. reflexivity.
    - intros v w _ Ha. apply K2. apply (adj_nodes _ _ Ha).
    - (* I1 *)
      intros x Hx. destruct (Row x Hx) as (m0 & H1 & _ & _). apply R1 in H1.
      destruct H1 as [(w & Hn & Hr) _]. apply R0 in Hr. destruct Hr as [Hr _].
      eapply conn_trans; [apply NbC; exact Hn|apply NbC; exact Hr].
    - (* I2 *)
      intros x Hx. destruct (Row x Hx) as (m0 & H1 & H0 & _). apply R1 in H1. destruct H1 as [_ Hmin].
      assert (Hv : In (node x) nodes) by (apply K2; now apply row_key).
      assert (Self : In (node x, node x) nb) by (apply NbS; auto).
      pose proof (Hmin _ _ Self H0). apply R0 in H0. destruct H0 as [_ H0]. specialize (H0 _ Self). lia.
    - (* J *)
      intros x x2 Hx Hx2 Hn Hf. destruct (Row x Hx) as (m0 & H1 & _ & _).
      destruct (Row x2 Hx2) as (m2 & _ & H2 & F2). rewrite Hf in F2. symmetry in F2.
      apply negb_false_iff in F2. apply Z.eqb_eq in F2. rewrite F2.
      apply R1 in H1. destruct H1 as [_ Hmin]. eapply Hmin; eauto.
    - intros v c [].
    - constructor.
    - intros v [].
    - intros v. rewrite K2. cbn. tauto.
  Qed.

  (* ---- termination: sum over the node table of rank(representative) ---- *)
  Definition rank (x : Z) : nat := rank_in nodes x.
  Definition contrib (t : list rrow) (v : Z) : nat :=
    match lookup v (out_rows t) with Some m => rank m | None => O end.
  Definition mu (t : list rrow) : nat := list_sum (map (contrib t) nodes).

  Lemma rank_mono a b : a <= b -> (rank a <= rank b)%nat.
  Proof. apply rank_in_mono. Qed.
  Lemma rank_strict a b : In a nodes -> a < b -> (rank a < rank b)%nat.
  Proof. apply rank_in_strict. Qed.
  Lemma rank_le x : (rank x <= length nodes)%nat.
  Proof. apply rank_in_le. Qed.

  Lemma mu_bound t : (mu t <= length nodes * length nodes)%nat.
  Proof.
    unfold mu. assert (G : forall l, (list_sum (map (contrib t) l) <= length l * length nodes)%nat).
    { induction l as [|v l IH]; [cbn; lia|].
      assert (contrib t v <= length nodes)%nat.
      { unfold contrib. destruct (lookup v (out_rows t)); [apply rank_le|lia]. }
      change (contrib t v + list_sum (map (contrib t) l) <= length nodes + length l * length nodes)%nat. lia. }
    apply G.
  Qed.

  Lemma sum_le_lt (f g : Z -> nat) (l : list Z) :
    (forall v, In v l -> (f v <= g v)%nat) -> (exists v, In v l /\ (f v < g v)%nat) ->
    (list_sum (map f l) < list_sum (map g l))%nat.
  Proof.
    induction l as [|a t IH]; intros Hle [v [Hin Hlt]]; [destruct Hin|].
    assert (Ha : (f a <= g a)%nat) by (apply Hle; now left).
    assert (Ht : (list_sum (map f t) <= list_sum (map g t))%nat).
    { assert (Hle' : forall v, In v t -> (f v <= g v)%nat) by (intros; apply Hle; now right).
      clear - Hle'. induction t as [|b t IHt]; [cbn; lia|].
      assert (f b <= g b)%nat by (apply Hle'; now left).
      assert (list_sum (map f t) <= list_sum (map g t))%nat by (apply IHt; intros; apply Hle'; now right).
      change (f b + list_sum (map f t) <= g b + list_sum (map g t))%nat. lia. }
    change (f a + list_sum (map f t) < g a + list_sum (map g t))%nat.
    destruct Hin as [->|Hin]; [lia|].
    assert (list_sum (map f t) < list_sum (map g t))%nat; [|lia].
    apply IH; [intros; apply Hle; now right|eauto].
  Qed.

  Lemma contrib_row t r : NoDup (keys t) -> In r t -> contrib t (node r) = rank (rep r).
  Proof.
    intros ND Hr. unfold contrib. rewrite (lookup_nodup (node r) (out_rows t) (rep r)); [reflexivity| |].
    - unfold out_rows. rewrite map_map. exact ND.
    - unfold out_rows. apply in_map_iff. exists r. auto.
  Qed.

  Lemma contrib_absent t v : ~ In v (keys t) -> contrib t v = O.
  Proof.
    intros H. unfold contrib. rewrite lookup_none; [reflexivity|].
    unfold out_rows. now rewrite map_map.
  Qed.

  (* every new row sits under an old row of the same node with a representative not larger *)
  Lemma step_rows prev nbrs x :
    In x (it_reps (cc_step prev nbrs)) ->
    exists p, In p prev /\ node p = node x /\ rep x <= rep p /\ flag x = negb (rep x =? rep p).
  Proof.
    unfold cc_step. cbn [it_reps]. intros Hx. apply upd_flags_in in Hx.
    destruct Hx as (v & m & p & Hr & Hp & Np & ->). exists p. unfold node at 2, rep at 1 3, flag. cbn.
    repeat split; auto.
    - unfold unstable_rows in Hp. apply filter_In in Hp. tauto.
    - unfold gen_reps in Hr. apply group_min_in in Hr. destruct Hr as [_ Hmin]. apply Hmin.
      apply gen_source_in. right. exists p. auto.
  Qed.

  Lemma step_mu prev nbrs acc :
    Inv prev nbrs acc -> count_flags (it_reps (cc_step prev nbrs)) <> O ->
    (mu (it_reps (cc_step prev nbrs)) < mu prev)%nat.
  Proof.
    intros I Hc. pose proof (step_inv _ _ _ I) as I'. cbn zeta in I'.
    set (t' := it_reps (cc_step prev nbrs)) in *.
    unfold mu. apply sum_le_lt.
    - intros v Hv. destruct (in_dec Z.eq_dec v (keys t')) as [Hk|Hk].
      + destruct (key_row _ _ Hk) as (x & Hx & <-). destruct (step_rows _ _ _ Hx) as (p & Hp & Np & Hle & _).
        rewrite (contrib_row t' x (inv_K _ _ _ I') Hx), <- Np, (contrib_row prev p (inv_K _ _ _ I) Hp).
        now apply rank_mono.
      + rewrite contrib_absent by exact Hk. lia.
    - assert (exists x, In x t' /\ flag x = true) as (x & Hx & Fx).
      { unfold count_flags in Hc. destruct (filter flag t') as [|x l] eqn:Ef; [cbn in Hc; congruence|].
        assert (In x (filter flag t')) by (rewrite Ef; now left). apply filter_In in H. eauto. }
      destruct (step_rows _ _ _ Hx) as (p & Hp & Np & Hle & Hf). rewrite Fx in Hf.
      symmetry in Hf. apply negb_true_iff in Hf. apply Z.eqb_neq in Hf.
      exists (node x). split.
      + apply (inv_A _ _ _ I'). now apply row_key.
      + rewrite (contrib_row t' x (inv_K _ _ _ I') Hx), <- Np, (contrib_row prev p (inv_K _ _ _ I) Hp).
        apply rank_strict; [|lia]. eapply conn_in_r. apply (inv_I1 _ _ _ I'). exact Hx.
  Qed.

  Lemma loop_terminates fuel : forall prev nbrs acc,
    Inv prev nbrs acc -> (mu prev < fuel)%nat -> cc_loop fuel prev nbrs acc <> None.
  Proof.
    induction fuel as [|f IH]; intros prev nbrs acc I Hm; [lia|].
    cbn [cc_loop]. destruct (count_flags (it_reps (cc_step prev nbrs))) eqn:Hc; [discriminate|].
    apply IH.
    - apply (step_inv _ _ _ I).
    - assert (mu (it_reps (cc_step prev nbrs)) < mu prev)%nat; [|lia].
      eapply step_mu; eauto. lia.
  Qed.

  Theorem solve_cc_terminates : solve_cc nodes E <> None.
  Proof.
    unfold solve_cc, solve_cc_fuel. pose proof init_inv as I. destruct (cc_init nodes E) as [r0 nb].
    eapply loop_terminates; eauto. unfold cc_fuel. pose proof (mu_bound r0). lia.
  Qed.

  Theorem solve_cc_fuel_correct fuel out :
    solve_cc_fuel fuel nodes E = Some out -> good_output out.
  Proof.
    unfold solve_cc_fuel. pose proof init_inv as I. destruct (cc_init nodes E) as [r0 nb].
    intros H. eapply loop_correct; eauto.
  Qed.
End Correct.

(* ------------------------------------------------------------------------------------ *)
(* Corollaries in the form used by Properties/C05.v *)
Definition closed_edges (nodes : list Z) (E : list (Z * Z)) : Prop :=
  forall a b, In (a, b) E -> In a nodes /\ In b nodes.

Section Corollaries.
  Variable nodes : list Z.
  Variable E : list (Z * Z).
  Hypothesis nodes_nodup : NoDup nodes.
  Hypothesis edges_closed : closed_edges nodes E.

  Lemma good_output_perm out : good_output nodes E out -> Permutation (map fst out) nodes.
  Proof.
    intros (ND & Hin & _). apply NoDup_Permutation; auto. intros v. symmetry. apply Hin.
  Qed.

  Lemma good_output_comp_min out v c :
    good_output nodes E out -> In (v, c) out -> In v nodes /\ c = comp_min nodes E v.
  Proof.
    intros (ND & Hin & Hm) H.
    assert (Hv : In v nodes).
    { apply Hin. change v with (fst (v, c)). now apply in_map. }
    split; [exact Hv|]. apply comp_min_unique; auto.
  Qed.

  Lemma good_output_row out v :
    good_output nodes E out -> In v nodes -> In (v, comp_min nodes E v) out.
  Proof.
    intros G Hv. pose proof G as (ND & Hin & Hm). apply Hin in Hv. apply in_map_iff in Hv.
    destruct Hv as [[v' c] [Ev H]]. cbn in Ev. subst v'.
    destruct (good_output_comp_min _ _ _ G H) as [_ <-]. exact H.
  Qed.

  Lemma good_output_functional out v c c' :
    good_output nodes E out -> In (v, c) out -> In (v, c') out -> c = c'.
  Proof.
    intros G H1 H2. destruct (good_output_comp_min _ _ _ G H1) as [_ ->].
    destruct (good_output_comp_min _ _ _ G H2) as [_ ->]. reflexivity.
  Qed.

  Lemma solve_cc_good out : solve_cc nodes E = Some out -> good_output nodes E out.
  Proof. apply solve_cc_fuel_correct; auto. Qed.

  Lemma solve_cc_total : exists out, solve_cc nodes E = Some out /\ good_output nodes E out.
  Proof.
    destruct (solve_cc nodes E) as [out|] eqn:H.
    - exists out. split; [reflexivity|]. now apply solve_cc_good.
    - exfalso. revert H. now apply solve_cc_terminates.
  Qed.
End Corollaries.

(* the neighbours table, as a set, does not depend on duplicates, direction or self loops *)
Lemma neighbours_robust nodes E E' :
  (forall a b, a <> b -> (adj E a b <-> adj E' a b)) ->
  forall v w, In (v, w) (neighbours nodes (edges_with_self_loops nodes E)) <->
              In (v, w) (neighbours nodes (edges_with_self_loops nodes E')).
Proof.
  intros H v w. rewrite !init_nbrs_in. destruct (Z.eq_dec w v) as [->|Hne]; [tauto|].
  rewrite (H v w) by congruence. tauto.
Qed.

Lemma outputs_robust nodes E E' out out' :
  NoDup nodes -> closed_edges nodes E -> closed_edges nodes E' ->
  (forall a b, a <> b -> (adj E a b <-> adj E' a b)) ->
  good_output nodes E out -> good_output nodes E' out' ->
  forall v c, In (v, c) out <-> In (v, c) out'.
Proof.
  intros ND C1 C2 H G G'.
  assert (forall v, In v nodes -> comp_min nodes E v = comp_min nodes E' v) as EQ.
  { intros v Hv. now apply comp_min_ext_offdiag. }
  intros v c. split; intros Hin.
  - destruct (good_output_comp_min nodes E out v c G Hin) as [Hv ->]. rewrite EQ by exact Hv.
    now apply good_output_row.
  - destruct (good_output_comp_min nodes E' out' v c G' Hin) as [Hv ->]. rewrite <- EQ by exact Hv.
    now apply good_output_row.
Qed.

(* thresholding *)
Lemma thr_edges_in thr edges a b :
  In (a, b) (thr_edges thr edges) <-> exists p, In (a, b, p) edges /\ keep_edge thr (a, b, p) = true.
Proof.
  unfold thr_edges. rewrite in_map_iff. split.
  - intros [[[a' b'] p] [Eq H]]. cbn in Eq. injection Eq as -> ->. apply filter_In in H. eauto.
  - intros [p [H1 H2]]. exists (a, b, p). split; [reflexivity|]. apply filter_In. tauto.
Qed.

Lemma keep_edge_spec thr a b p :
  keep_edge thr (a, b, p) = true <-> match thr with None => True | Some t => (t <= p)%Q end.
Proof.
  unfold keep_edge. destruct thr as [t|]; cbn; [apply Qle_bool_iff|tauto].
Qed.

(* integer match weight: p >= 2^w / (1 + 2^w)  <->  p / (1 - p) >= 2^w  (0 <= p < 1) *)
Lemma pow2Q_pos w : (0 < pow2Q w)%Q.
Proof.
  destruct w; cbn; [reflexivity| |reflexivity].
  unfold Qlt. cbn. pose proof (Z.pow_pos_nonneg 2 (Z.pos p)). lia.
Qed.

Lemma weight_threshold_equiv w p :
  (0 <= p)%Q -> (p < 1)%Q ->
  ((weight_to_prob w <= p)%Q <-> (pow2Q w <= p / (1 - p))%Q).
Proof.
  intros H0 H1. unfold weight_to_prob. pose proof (pow2Q_pos w) as Hb. set (b := pow2Q w) in *.
  assert (P1 : (0 < 1 + b)%Q) by lra. assert (P2 : (0 < 1 - p)%Q) by lra.
  split; intros H.
  - apply Qle_shift_div_l; [exact P2|].
    assert (b <= p * (1 + b))%Q.
    { apply (Qmult_le_r _ _ (/ (1 + b))); [now apply Qinv_lt_0_compat|].
      rewrite <- Qmult_assoc, Qmult_inv_r by lra. rewrite Qmult_1_r. exact H. }
    lra.
  - apply Qle_shift_div_r; [exact P1|].
    assert (b * (1 - p) <= p)%Q.
    { apply (Qmult_le_r _ _ (/ (1 - p))); [now apply Qinv_lt_0_compat|].
      rewrite <- Qmult_assoc, Qmult_inv_r by lra. rewrite Qmult_1_r. exact H. }
    lra.
Qed.

(* the two LEFT JOINs of _cc_generate_neighbours_representation always find a partner (the self
   loop), which is why Model/CC.v renders them as inner joins *)
Lemma neighbours_left_joins_match nodes E v :
  In v nodes ->
  filter (fun e => v =? fst e) (edges_with_self_loops nodes E) <> [] /\
  filter (fun e => v =? snd e) (edges_with_self_loops nodes E) <> [].
Proof.
  intros Hv. assert (H : In (v, v) (edges_with_self_loops nodes E)) by (apply ewsl_in; auto).
  split; intros C.
  - assert (In (v, v) (filter (fun e => v =? fst e) (edges_with_self_loops nodes E))) as X
      by (apply filter_In; split; [exact H|apply Z.eqb_refl]). rewrite C in X. destruct X.
  - assert (In (v, v) (filter (fun e => v =? snd e) (edges_with_self_loops nodes E))) as X
      by (apply filter_In; split; [exact H|apply Z.eqb_refl]). rewrite C in X. destruct X.
Qed.
