(* Lemmas about the direct estimators (Model/Estimators.v): the u / m estimates are exact pair
   frequencies, never-observed levels get no value, fixed values are respected, the populated
   value is the median of the estimates, calculate_cartesian counts the admissible pairs, the
   prior formula and its guards, label orientation, and the sample-size formulas (over R). *)
From Coq Require Import String Ascii.
From Coq Require Import List ZArith QArith Qreduction Bool Arith Lia Reals Psatz.
From Splinkv Require Import Model.EM Model.Estimators Proofs.EMLikelihood Proofs.EMP.
Import ListNotations.
Open Scope Q_scope.

(* ------------------------------------------------------------------------------------ *)
(* 1. the estimates are exact pair frequencies                                           *)
(* ------------------------------------------------------------------------------------ *)

Lemma sumQ_ones {A : Type} (f : A -> Q) l :
  (forall x, In x l -> f x == 1) -> sumQ f l == inject_Z (Z.of_nat (length l)).
Proof.
  induction l as [|a t IH]; intros H.
  - rewrite sumQ_nil. reflexivity.
  - rewrite sumQ_cons, (H a (or_introl eq_refl)), IH by (intros x Hx; apply H; right; exact Hx).
    cbn [length]. rewrite Nat2Z.inj_succ. unfold Z.succ. rewrite inject_Z_plus. ring.
Qed.

Lemma rows_at_const p i v rows :
  rows_at i v (const_scored p rows) = const_scored p (filter (fun g => Z.eqb (gam i g) v) rows).
Proof. unfold rows_at, const_scored. rewrite filter_map_comm. reflexivity. Qed.

Lemma nonnull_const p i rows :
  nonnull i (const_scored p rows) = const_scored p (filter (fun g => negb (Z.eqb (gam i g) (-1))) rows).
Proof. unfold nonnull, const_scored. rewrite filter_map_comm. reflexivity. Qed.

Lemma sum_uterm_const0 l : sumQ uterm (const_scored 0 l) == inject_Z (Z.of_nat (length l)).
Proof.
  unfold const_scored. rewrite sumQ_map. apply sumQ_ones. intros g _. unfold uterm, sp, sw. cbn. ring.
Qed.
Lemma sum_mterm_const1 l : sumQ mterm (const_scored 1 l) == inject_Z (Z.of_nat (length l)).
Proof.
  unfold const_scored. rewrite sumQ_map. apply sumQ_ones. intros g _. unfold mterm, sp, sw. cbn. ring.
Qed.

Lemma observed_const_iff p i v rows :
  observed i v (const_scored p rows) = true <-> count_level i v rows <> O.
Proof.
  rewrite observed_true. unfold count_level, const_scored. split.
  - intros (r & Hr & E). apply in_map_iff in Hr as (g & <- & Hg).
    assert (Hin : In g (filter (fun g => Z.eqb (gam i g) v) rows)).
    { apply filter_In. split; [exact Hg|]. apply Z.eqb_eq. exact E. }
    destruct (filter _ rows); [destruct Hin|discriminate].
  - intros H. destruct (filter (fun g => Z.eqb (gam i g) v) rows) as [|g t] eqn:E; [cbn in H; congruence|].
    assert (Hin : In g (filter (fun g => Z.eqb (gam i g) v) rows)) by (rewrite E; left; reflexivity).
    apply filter_In in Hin as [Hg Hv]. apply Z.eqb_eq in Hv.
    exists (g, 1, p). split; [apply in_map_iff; exists g; tauto|exact Hv].
Qed.

Lemma observed_const_zero p i v rows :
  count_level i v rows = O -> observed i v (const_scored p rows) = false.
Proof.
  intros H. destruct (observed i v (const_scored p rows)) eqn:O; [|reflexivity].
  apply observed_const_iff in O. contradiction.
Qed.
Lemma observed_const_pos p i v rows n :
  count_level i v rows = S n -> observed i v (const_scored p rows) = true.
Proof. intros H. apply observed_const_iff. rewrite H. discriminate. Qed.

Theorem u_is_frequency i v rows : v <> (-1)%Z -> u_estimate i v rows = frequency i v rows.
Proof.
  intros Hv. unfold u_estimate. rewrite new_u_ref by exact Hv.
  cbn [nofix fix_u probe lv_fixu orb lv_val]. unfold ref_u, frequency.
  destruct (count_level i v rows) as [|n] eqn:E.
  - rewrite (observed_const_zero 0 i v rows E). reflexivity.
  - rewrite (observed_const_pos 0 i v rows n E). f_equal. apply Qred_complete.
    rewrite rows_at_const, nonnull_const, !sum_uterm_const0.
    change (length (filter (fun g => Z.eqb (gam i g) v) rows)) with (count_level i v rows).
    rewrite E. reflexivity.
Qed.

Theorem m_is_frequency i v rows : v <> (-1)%Z -> m_estimate i v rows = frequency i v rows.
Proof.
  intros Hv. unfold m_estimate. rewrite new_m_ref by exact Hv.
  cbn [nofix fix_m probe lv_fixm orb lv_val]. unfold ref_m, frequency.
  destruct (count_level i v rows) as [|n] eqn:E.
  - rewrite (observed_const_zero 1 i v rows E). reflexivity.
  - rewrite (observed_const_pos 1 i v rows n E). f_equal. apply Qred_complete.
    rewrite rows_at_const, nonnull_const, !sum_mterm_const1.
    change (length (filter (fun g => Z.eqb (gam i g) v) rows)) with (count_level i v rows).
    rewrite E. reflexivity.
Qed.

(* ------------------------------------------------------------------------------------ *)
(* 2. never-observed levels get no estimate and no invented value                        *)
(* ------------------------------------------------------------------------------------ *)

Theorem unobserved_no_estimate i v rows :
  count_level i v rows = O -> v <> (-1)%Z ->
  u_estimate i v rows = NotObserved /\ m_estimate i v rows = NotObserved.
Proof.
  intros H Hv. rewrite u_is_frequency, m_is_frequency by exact Hv. unfold frequency. rewrite H. tauto.
Qed.

Lemma numeric_app_not_observed t : numeric (t ++ [NotObserved]) = numeric t.
Proof. unfold numeric. rewrite flat_map_app. cbn. apply app_nil_r. Qed.

Theorem unobserved_add_u i rows l :
  count_level i (lv_val (ml_lv l)) rows = O -> lv_val (ml_lv l) <> (-1)%Z ->
  ml_lv (populate_level (add_u i rows l)) = ml_lv (populate_level l).
Proof.
  intros H Hv. destruct (unobserved_no_estimate i _ rows H Hv) as [Eu _].
  unfold populate_level, add_u. cbn [ml_lv ml_tm ml_tu]. rewrite Eu, numeric_app_not_observed. reflexivity.
Qed.

Theorem unobserved_add_m b i rows l :
  count_level i (lv_val (ml_lv l)) rows = O -> lv_val (ml_lv l) <> (-1)%Z ->
  ml_lv (populate_level (add_m b i rows l)) = ml_lv (populate_level l).
Proof.
  intros H Hv. destruct (unobserved_no_estimate i _ rows H Hv) as [_ Em].
  unfold add_m. destruct (b && lv_fixm (ml_lv l)); [reflexivity|].
  unfold populate_level. cbn [ml_lv ml_tm ml_tu]. rewrite Em, numeric_app_not_observed. reflexivity.
Qed.

(* ------------------------------------------------------------------------------------ *)
(* 3. fixed values are respected; estimate_u never touches m (and conversely)            *)
(* ------------------------------------------------------------------------------------ *)

Lemma populate_fixed_u l : lv_fixu (ml_lv l) = true -> lv_u (ml_lv (populate_level l)) = lv_u (ml_lv l).
Proof.
  intros H. unfold populate_level. cbn [ml_lv lv_u]. rewrite H.
  destruct (median (numeric (ml_tu l))); reflexivity.
Qed.
Lemma populate_fixed_m l : lv_fixm (ml_lv l) = true -> lv_m (ml_lv (populate_level l)) = lv_m (ml_lv l).
Proof.
  intros H. unfold populate_level. cbn [ml_lv lv_m]. rewrite H.
  destruct (median (numeric (ml_tm l))); reflexivity.
Qed.

Theorem fixed_u_respected i rows l :
  lv_fixu (ml_lv l) = true -> lv_u (ml_lv (populate_level (add_u i rows l))) = lv_u (ml_lv l).
Proof. intros H. apply (populate_fixed_u (add_u i rows l)). exact H. Qed.

Theorem fixed_m_respected b i rows l :
  lv_fixm (ml_lv l) = true ->
  lv_m (ml_lv (populate_level (add_m b i rows l))) = lv_m (ml_lv l) /\ add_m true i rows l = l.
Proof.
  intros H. split.
  - unfold add_m. destruct (b && lv_fixm (ml_lv l)); [apply populate_fixed_m; exact H|].
    apply (populate_fixed_m {| ml_lv := ml_lv l; ml_tm := _; ml_tu := ml_tu l; ml_exact := ml_exact l |}). exact H.
  - unfold add_m. rewrite H. reflexivity.
Qed.

Lemma add_u_keeps_m i rows l :
  ml_tm (add_u i rows l) = ml_tm l /\
  ml_tm (populate_level (add_u i rows l)) = ml_tm l /\
  lv_m (ml_lv (populate_level (add_u i rows l))) = lv_m (ml_lv (populate_level l)).
Proof. repeat split. Qed.

Lemma add_m_keeps_u b i rows l :
  ml_tu (add_m b i rows l) = ml_tu l /\
  ml_tu (populate_level (add_m b i rows l)) = ml_tu l /\
  lv_u (ml_lv (populate_level (add_m b i rows l))) = lv_u (ml_lv (populate_level l)).
Proof. unfold add_m. destruct (b && lv_fixm (ml_lv l)); repeat split. Qed.

Definition m_side (m : model) : list (list (list pval * pval)) :=
  map (fun c => map (fun l => (ml_tm l, lv_m (ml_lv l))) (mc_levels c)) (md_cmps m).
Definition u_side (m : model) : list (list (list pval * pval)) :=
  map (fun c => map (fun l => (ml_tu l, lv_u (ml_lv l))) (mc_levels c)) (md_cmps m).

Lemma side_populate_map_levels (proj : mlevel -> list pval * pval) f m :
  (forall i l, proj (populate_level (f i l)) = proj (populate_level l)) ->
  map (fun c => map proj (mc_levels c)) (md_cmps (populate (map_levels f m)))
  = map (fun c => map proj (mc_levels c)) (md_cmps (populate m)).
Proof.
  intros H. unfold populate, map_levels. cbn [md_cmps]. rewrite !map_map.
  generalize 0%nat. induction (md_cmps m) as [|c t IH]; intros k; cbn [mapi_from map]; [reflexivity|].
  rewrite IH. f_equal. cbn [populate_cmp mc_levels]. rewrite !map_map. apply map_ext. intros l. apply H.
Qed.

(* the m side of the model (estimate lists and values) is what populate alone gives *)
Theorem estimate_u_keeps_m rows m : m_side (estimate_u rows m) = m_side (populate m).
Proof. apply (side_populate_map_levels (fun l => (ml_tm l, lv_m (ml_lv l)))). reflexivity. Qed.

Theorem estimate_m_keeps_u b rows m :
  u_side (populate (map_levels (fun i => add_m b i rows) m)) = u_side (populate m).
Proof.
  apply (side_populate_map_levels (fun l => (ml_tu l, lv_u (ml_lv l)))). intros i l.
  destruct (add_m_keeps_u b i rows l) as (_ & E1 & E2). rewrite E1, E2. reflexivity.
Qed.

Theorem estimators_keep_lam rows m :
  md_lam (estimate_u rows m) = md_lam m /\ md_lam (estimate_m_label rows m) = md_lam m /\
  md_lam (estimate_m_pairs rows m) = md_lam m.
Proof. repeat split. Qed.

(* ------------------------------------------------------------------------------------ *)
(* 4. the populated value is the median of the estimates                                 *)
(* ------------------------------------------------------------------------------------ *)

Lemma populate_sets_medians m c l :
  In c (md_cmps (populate m)) -> In l (mc_levels c) ->
  (forall q, lv_fixm (ml_lv l) = false -> median (numeric (ml_tm l)) = Some q -> lv_m (ml_lv l) = Val q) /\
  (forall q, lv_fixu (ml_lv l) = false -> median (numeric (ml_tu l)) = Some q -> lv_u (ml_lv l) = Val q).
Proof.
  unfold populate. cbn [md_cmps]. intros Hc Hl.
  apply in_map_iff in Hc as (c0 & <- & _). cbn [populate_cmp mc_levels] in Hl.
  apply in_map_iff in Hl as (l0 & <- & _). unfold populate_level.
  cbn [ml_lv ml_tm ml_tu ml_exact lv_m lv_u lv_fixm lv_fixu lv_val lv_tfu].
  split; intros q Hf Hm; rewrite Hm, Hf; reflexivity.
Qed.

Theorem estimate_is_median rows m c l :
  In c (md_cmps (estimate_u rows m)) \/ In c (md_cmps (estimate_m_label rows m)) \/
  In c (md_cmps (estimate_m_pairs rows m)) ->
  In l (mc_levels c) ->
  (forall q, lv_fixm (ml_lv l) = false -> median (numeric (ml_tm l)) = Some q -> lv_m (ml_lv l) = Val q) /\
  (forall q, lv_fixu (ml_lv l) = false -> median (numeric (ml_tu l)) = Some q -> lv_u (ml_lv l) = Val q).
Proof. intros [H|[H|H]] Hl; eapply populate_sets_medians; eassumption. Qed.

Lemma median_singleton x : median [x] = Some x.
Proof. reflexivity. Qed.

Lemma frequency_observed i v rows :
  count_level i v rows <> O -> exists q, frequency i v rows = Val (Qred q).
Proof. intros H. unfold frequency. destruct (count_level i v rows); [congruence|eauto]. Qed.

(* first estimate of a level: its value is the frequency itself *)
Theorem first_u_estimate_is_frequency i rows l :
  ml_tu l = [] -> lv_fixu (ml_lv l) = false ->
  lv_val (ml_lv l) <> (-1)%Z -> count_level i (lv_val (ml_lv l)) rows <> O ->
  lv_u (ml_lv (populate_level (add_u i rows l))) = frequency i (lv_val (ml_lv l)) rows.
Proof.
  intros Ht Hf Hv Hc. unfold populate_level, add_u. cbn [ml_lv ml_tu lv_u].
  rewrite Ht, Hf, (u_is_frequency i _ rows Hv). cbn [app].
  destruct (frequency_observed i _ rows Hc) as [q ->]. cbn [numeric flat_map app].
  rewrite median_singleton. f_equal. apply Qred_complete, Qred_correct.
Qed.

Theorem first_m_estimate_is_frequency b i rows l :
  ml_tm l = [] -> lv_fixm (ml_lv l) = false ->
  lv_val (ml_lv l) <> (-1)%Z -> count_level i (lv_val (ml_lv l)) rows <> O ->
  lv_m (ml_lv (populate_level (add_m b i rows l))) = frequency i (lv_val (ml_lv l)) rows.
Proof.
  intros Ht Hf Hv Hc. unfold add_m. rewrite Hf, andb_false_r.
  unfold populate_level. cbn [ml_lv ml_tm lv_m].
  rewrite Ht, Hf, (m_is_frequency i _ rows Hv). cbn [app].
  destruct (frequency_observed i _ rows Hc) as [q ->]. cbn [numeric flat_map app].
  rewrite median_singleton. f_equal. apply Qred_complete, Qred_correct.
Qed.

(* ------------------------------------------------------------------------------------ *)
(* 5. calculate_cartesian counts the admissible pairs                                    *)
(* ------------------------------------------------------------------------------------ *)

Definition zsum (ns : list nat) : Z := fold_right Z.add 0%Z (map Z.of_nat ns).
Definition zsq (ns : list nat) : Z := fold_right Z.add 0%Z (map (fun n => (Z.of_nat n * Z.of_nat n)%Z) ns).
Definition injn (n : nat) : Q := inject_Z (Z.of_nat n).

Lemma zsum_nat ns : Z.of_nat (fold_right Nat.add O ns) = zsum ns.
Proof. unfold zsum. induction ns as [|n t IH]; cbn; [reflexivity|]. rewrite Nat2Z.inj_add, IH. reflexivity. Qed.

Lemma length_tags ns : forall k, length (tags_from k ns) = fold_right Nat.add O ns.
Proof. induction ns as [|n t IH]; intros k; cbn; [reflexivity|]. rewrite app_length, repeat_length, IH. reflexivity. Qed.

Lemma count_pairs_all {A : Type} (l : list A) :
  (2 * Z.of_nat (count_pairs (fun _ _ => true) l) = Z.of_nat (length l) * (Z.of_nat (length l) - 1))%Z.
Proof.
  induction l as [|x t IH]; cbn [count_pairs length]; [reflexivity|].
  rewrite filter_true, Nat2Z.inj_add, Nat2Z.inj_succ. nia.
Qed.

Lemma tags_ge ns : forall k x, In x (tags_from k ns) -> (k <= x)%nat.
Proof.
  induction ns as [|n t IH]; intros k x H; cbn in H; [destruct H|].
  apply in_app_or in H as [H|H].
  - apply repeat_spec in H. lia.
  - apply IH in H. lia.
Qed.

Lemma filter_none {A : Type} (f : A -> bool) l : (forall x, In x l -> f x = false) -> filter f l = [].
Proof.
  induction l as [|x t IH]; intros H; cbn; [reflexivity|].
  rewrite (H x (or_introl eq_refl)). apply IH. intros y Hy. apply H. right. exact Hy.
Qed.
Lemma filter_all {A : Type} (f : A -> bool) l : (forall x, In x l -> f x = true) -> filter f l = l.
Proof.
  induction l as [|x t IH]; intros H; cbn; [reflexivity|].
  rewrite (H x (or_introl eq_refl)), IH; [reflexivity|]. intros y Hy. apply H. right. exact Hy.
Qed.

Lemma count_pairs_block k n R :
  (forall x, In x R -> x <> k) ->
  count_pairs (adm_of LinkOnly) (repeat k n ++ R) = (n * length R + count_pairs (adm_of LinkOnly) R)%nat.
Proof.
  intros HR. induction n as [|n IH]; cbn [repeat app count_pairs]; [reflexivity|].
  rewrite filter_app, IH.
  rewrite (filter_none (adm_of LinkOnly k) (repeat k n)).
  2:{ intros x Hx. apply repeat_spec in Hx. subst x. cbn. rewrite Nat.eqb_refl. reflexivity. }
  rewrite (filter_all (adm_of LinkOnly k) R).
  2:{ intros x Hx. cbn. apply negb_true_iff, Nat.eqb_neq. intros E. apply (HR x Hx). congruence. }
  cbn [app length Nat.mul]. lia.
Qed.

Lemma count_pairs_link ns : forall k,
  (2 * Z.of_nat (count_pairs (adm_of LinkOnly) (tags_from k ns)) = zsum ns * zsum ns - zsq ns)%Z.
Proof.
  induction ns as [|n t IH]; intros k; cbn [tags_from]; [reflexivity|].
  rewrite count_pairs_block by (intros x Hx E; apply tags_ge in Hx; lia).
  rewrite length_tags, Nat2Z.inj_add, Nat2Z.inj_mul, zsum_nat.
  specialize (IH (S k)). unfold zsum, zsq in *. cbn [map fold_right]. nia.
Qed.

Lemma inject_Z_minus a b : inject_Z (a - b) == inject_Z a - inject_Z b.
Proof. unfold Z.sub. rewrite inject_Z_plus, inject_Z_opp. reflexivity. Qed.

Lemma sumc_injn ns : sumc (map injn ns) == inject_Z (zsum ns).
Proof.
  unfold sumc, zsum, injn. induction ns as [|n t IH]; cbn [map fold_right]; [reflexivity|].
  rewrite IH, inject_Z_plus. reflexivity.
Qed.
Lemma sumc_sq_injn ns : sumc (map (fun m => m ^ 2) (map injn ns)) == inject_Z (zsq ns).
Proof.
  unfold sumc, zsq, injn. induction ns as [|n t IH]; cbn [map fold_right]; [reflexivity|].
  rewrite IH, inject_Z_plus, inject_Z_mult. ring.
Qed.

Lemma half_of_double (x : Q) (c : Z) : x == inject_Z (2 * c) -> x / 2 == inject_Z c.
Proof. intros H. rewrite H, inject_Z_mult. change (inject_Z 2) with 2. field. Qed.

Lemma all_pairs_formula lt ns : lt <> LinkOnly ->
  inject_Z (zsum ns) * (inject_Z (zsum ns) - 1) / 2 == injn (admissible_pairs lt ns).
Proof.
  intros Hlt. unfold admissible_pairs, injn.
  replace (adm_of lt) with (fun _ _ : nat => true) by (destruct lt; [reflexivity|congruence|reflexivity]).
  apply half_of_double. rewrite count_pairs_all, length_tags, zsum_nat.
  rewrite inject_Z_mult, inject_Z_minus. reflexivity.
Qed.

Theorem cartesian_counts_admissible_pairs lt ns c :
  cartesian lt (map injn ns) = Some c -> c == injn (admissible_pairs lt ns).
Proof.
  destruct lt; cbn [cartesian]; rewrite ?map_length.
  - (* dedupe_only: one input table *)
    destruct (Nat.ltb 1 (length ns)) eqn:E; [discriminate|]. intros [= <-].
    apply Nat.ltb_ge in E.
    assert (H0 : nth 0 (map injn ns) 0 == inject_Z (zsum ns)).
    { destruct ns as [|n [|n' t]]; cbn in *; [reflexivity| |lia].
      unfold injn, zsum. cbn. rewrite Z.add_0_r. reflexivity. }
    rewrite H0. apply all_pairs_formula. discriminate.
  - (* link_only *)
    destruct (Nat.leb (length ns) 1); [discriminate|]. intros [= <-].
    unfold admissible_pairs, injn. apply half_of_double.
    rewrite count_pairs_link, sumc_injn, sumc_sq_injn, inject_Z_minus, inject_Z_mult. ring.
  - (* link_and_dedupe *)
    intros [= <-]. rewrite sumc_injn. apply all_pairs_formula. discriminate.
Qed.

Theorem cartesian_link_only_refuses (ns : list Q) : cartesian LinkOnly ns = None <-> (length ns <= 1)%nat.
Proof.
  cbn [cartesian]. destruct (Nat.leb (length ns) 1) eqn:E.
  - apply Nat.leb_le in E. tauto.
  - apply Nat.leb_gt in E. split; [discriminate|lia].
Qed.

Theorem cartesian_dedupe_only_refuses (ns : list Q) : cartesian DedupeOnly ns = None <-> (1 < length ns)%nat.
Proof.
  cbn [cartesian]. destruct (Nat.ltb 1 (length ns)) eqn:E.
  - apply Nat.ltb_lt in E. tauto.
  - apply Nat.ltb_ge in E. split; [discriminate|lia].
Qed.

(* ------------------------------------------------------------------------------------ *)
(* 6. the prior estimate: formula and guards                                             *)
(* ------------------------------------------------------------------------------------ *)

Lemma Qlt_bool_iff a b : Qlt_bool a b = true <-> a < b.
Proof.
  unfold Qlt_bool. rewrite negb_true_iff. split.
  - intros H. apply Qnot_le_lt. intros N. apply Qle_bool_iff in N. congruence.
  - intros H. destruct (Qle_bool b a) eqn:E; [|reflexivity]. apply Qle_bool_iff in E. lra.
Qed.
Lemma Qlt_bool_false a b : Qlt_bool a b = false <-> b <= a.
Proof.
  unfold Qlt_bool. rewrite negb_false_iff. apply Qle_bool_iff.
Qed.
Lemma Qle_bool_false a b : Qle_bool a b = false <-> b < a.
Proof.
  split.
  - intros H. apply Qnot_le_lt. intros N. apply Qle_bool_iff in N. congruence.
  - intros H. destruct (Qle_bool a b) eqn:E; [|reflexivity]. apply Qle_bool_iff in E. lra.
Qed.

Lemma recall_guard recall :
  (Qlt_bool 1 recall || Qle_bool recall 0 = false <-> 0 < recall /\ recall <= 1)%bool.
Proof. rewrite orb_false_iff, Qlt_bool_false, Qle_bool_false. tauto. Qed.

Lemma Qeq_bool_false a b : Qeq_bool a b = false <-> ~ a == b.
Proof.
  split.
  - intros H E. apply Qeq_bool_iff in E. congruence.
  - intros H. destruct (Qeq_bool a b) eqn:E; [|reflexivity]. apply Qeq_bool_iff in E. contradiction.
Qed.

Theorem prior_formula_and_guard obs recall cart p :
  prior_estimate obs recall cart = PriorOk p ->
  0 < recall /\ recall <= 1 /\ obs <= cart * recall /\ ~ cart == 0 /\ p == obs / (recall * cart) /\
  (0 < cart -> 0 <= obs -> 0 <= p /\ p <= 1).
Proof.
  unfold prior_estimate. destruct (Qlt_bool 1 recall || Qle_bool recall 0)%bool eqn:G; [discriminate|].
  apply recall_guard in G as [G0 G1].
  destruct (Qlt_bool (cart * recall) obs) eqn:C; [discriminate|]. apply Qlt_bool_false in C.
  destruct (Qeq_bool cart 0) eqn:Z; [discriminate|]. apply Qeq_bool_false in Z.
  intros [= <-]. split; [exact G0|]. split; [exact G1|]. split; [exact C|]. split; [exact Z|].
  assert (E : obs / recall / cart == obs / (recall * cart)).
  { unfold Qdiv. rewrite Qinv_mult_distr. ring. }
  split; [exact E|]. intros Hc Ho. rewrite E.
  assert (0 < recall * cart) by nra. split.
  - apply Qle_shift_div_l; [assumption|]. lra.
  - apply Qle_shift_div_r; [assumption|]. lra.
Qed.

Theorem prior_recall_inconsistent obs recall cart :
  prior_estimate obs recall cart = RecallInconsistent <-> (0 < recall /\ recall <= 1 /\ cart * recall < obs).
Proof.
  unfold prior_estimate. destruct (Qlt_bool 1 recall || Qle_bool recall 0)%bool eqn:G.
  - split; [discriminate|]. intros (H0 & H1 & _).
    assert (Qlt_bool 1 recall || Qle_bool recall 0 = false)%bool by (apply recall_guard; tauto). congruence.
  - apply recall_guard in G. destruct (Qlt_bool (cart * recall) obs) eqn:C.
    + apply Qlt_bool_iff in C. tauto.
    + apply Qlt_bool_false in C. split; [destruct (Qeq_bool cart 0); discriminate|]. intros (_ & _ & H). lra.
Qed.

Theorem prior_bad_recall obs recall cart :
  prior_estimate obs recall cart = BadRecall <-> ~ (0 < recall /\ recall <= 1).
Proof.
  unfold prior_estimate. destruct (Qlt_bool 1 recall || Qle_bool recall 0)%bool eqn:G.
  - split; [|reflexivity]. intros _ H. apply recall_guard in H. congruence.
  - apply recall_guard in G.
    destruct (Qlt_bool (cart * recall) obs), (Qeq_bool cart 0); split; try discriminate; tauto.
Qed.

(* the guards pass but there is no admissible pair at all: the division raises *)
Theorem prior_zero_division obs recall cart :
  prior_estimate obs recall cart = PriorZeroDivision <->
  (0 < recall /\ recall <= 1 /\ obs <= cart * recall /\ cart == 0).
Proof.
  unfold prior_estimate. destruct (Qlt_bool 1 recall || Qle_bool recall 0)%bool eqn:G.
  - split; [discriminate|]. intros (H0 & H1 & _).
    assert (Qlt_bool 1 recall || Qle_bool recall 0 = false)%bool by (apply recall_guard; tauto). congruence.
  - apply recall_guard in G. destruct (Qlt_bool (cart * recall) obs) eqn:C.
    + apply Qlt_bool_iff in C. split; [discriminate|]. intros (_ & _ & H & _). lra.
    + apply Qlt_bool_false in C. destruct (Qeq_bool cart 0) eqn:Z.
      * apply Qeq_bool_iff in Z. tauto.
      * apply Qeq_bool_false in Z. split; [discriminate|]. tauto.
Qed.

(* ------------------------------------------------------------------------------------ *)
(* 7. label orientation                                                                  *)
(* ------------------------------------------------------------------------------------ *)
Section Orientation.
Context {A : Type} (ltb : A -> A -> bool).
Hypothesis ltb_asym : forall a b, ltb a b = true -> ltb b a = false.
Hypothesis ltb_total : forall a b, ltb a b = false -> ltb b a = false -> a = b.

Lemma lower_idempotent p : lower_id_to_left ltb (lower_id_to_left ltb p) = lower_id_to_left ltb p.
Proof.
  destruct p as [a b]. unfold lower_id_to_left. cbn [fst snd].
  destruct (ltb a b) eqn:E; cbn [fst snd]; [rewrite E; reflexivity|].
  destruct (ltb b a) eqn:E'; [reflexivity|]. rewrite (ltb_total a b E E'). reflexivity.
Qed.

Lemma lower_swap p : fst p <> snd p -> lower_id_to_left ltb (snd p, fst p) = lower_id_to_left ltb p.
Proof.
  destruct p as [a b]. unfold lower_id_to_left. cbn [fst snd]. intros Hne.
  destruct (ltb a b) eqn:E.
  - rewrite (ltb_asym a b E). reflexivity.
  - destruct (ltb b a) eqn:E'; [reflexivity|]. exfalso. apply Hne. apply ltb_total; assumption.
Qed.

Lemma lower_not_descending p :
  ltb (snd (lower_id_to_left ltb p)) (fst (lower_id_to_left ltb p)) = false.
Proof.
  destruct p as [a b]. unfold lower_id_to_left. cbn [fst snd].
  destruct (ltb a b) eqn:E; cbn [fst snd]; [apply ltb_asym; exact E|exact E].
Qed.
End Orientation.

(* ------------------------------------------------------------------------------------ *)
(* 8. sample-size formulas (over the standard reals)                                     *)
(* ------------------------------------------------------------------------------------ *)
Section Sampling.
Open Scope R_scope.

Lemma full_sample_when_enough_pairs (n : nat) (p : R) :
  (1 <= n)%nat -> INR n * (INR n - 1) / 2 <= p -> 1 <= (0.5 * (sqrt (8 * p + 1) + 1)) / INR n.
Proof.
  intros Hn Hp. assert (H1 : 1 <= INR n) by (change 1 with (INR 1); apply le_INR; exact Hn).
  set (x := INR n) in *.
  assert (Hs : 2 * x - 1 <= sqrt (8 * p + 1)).
  { rewrite <- (sqrt_square (2 * x - 1)) by lra. apply sqrt_le_1_alt. nra. }
  apply (Rmult_le_reg_r x); [lra|].
  replace (0.5 * (sqrt (8 * p + 1) + 1) / x * x) with (0.5 * (sqrt (8 * p + 1) + 1)) by (field; lra).
  lra.
Qed.

Lemma link_only_full_sample (T p : R) : 0 < T -> T <= p -> 1 <= sqrt (p / T).
Proof.
  intros HT Hp. rewrite <- sqrt_1 at 1. apply sqrt_le_1_alt.
  apply (Rmult_le_reg_r T); [exact HT|]. replace (p / T * T) with p by (field; lra). lra.
Qed.
End Sampling.

(* ------------------------------------------------------------------------------------ *)
(* 9. Invariance under re-presentation: pair order, comparison labels, table order        *)
(* ------------------------------------------------------------------------------------ *)
From Coq Require Import Permutation.

Lemma count_level_perm i v rows rows' : Permutation rows rows' -> count_level i v rows = count_level i v rows'.
Proof. intros P. unfold count_level. apply Permutation_length, filter_perm. exact P. Qed.
Lemma count_nonnull_perm i rows rows' : Permutation rows rows' -> count_nonnull i rows = count_nonnull i rows'.
Proof. intros P. unfold count_nonnull. apply Permutation_length, filter_perm. exact P. Qed.

Lemma frequency_perm i v rows rows' : Permutation rows rows' -> frequency i v rows = frequency i v rows'.
Proof.
  intros P. unfold frequency.
  rewrite (count_level_perm i v rows rows' P), (count_nonnull_perm i rows rows' P). reflexivity.
Qed.

Theorem estimates_perm_invariant i v rows rows' :
  Permutation rows rows' -> v <> (-1)%Z ->
  u_estimate i v rows = u_estimate i v rows' /\ m_estimate i v rows = m_estimate i v rows'.
Proof.
  intros P Hv. rewrite !u_is_frequency, !m_is_frequency by exact Hv.
  rewrite (frequency_perm i v rows rows' P). tauto.
Qed.

Definition model_no_null (m : model) : Prop :=
  forall c l, In c (md_cmps m) -> In l (mc_levels c) -> lv_val (ml_lv l) <> (-1)%Z.

Lemma map_levels_ext f g m :
  (forall i c l, In c (md_cmps m) -> In l (mc_levels c) -> f i l = g i l) -> map_levels f m = map_levels g m.
Proof.
  intros H. unfold map_levels. f_equal. apply mapi_from_ext. intros i c Hc. f_equal.
  apply map_ext_in. intros l Hl. exact (H i c l Hc Hl).
Qed.

Theorem estimators_perm_invariant rows rows' m :
  model_no_null m -> Permutation rows rows' ->
  estimate_u rows m = estimate_u rows' m /\
  estimate_m_label rows m = estimate_m_label rows' m /\
  estimate_m_pairs rows m = estimate_m_pairs rows' m.
Proof.
  intros Hnn P.
  assert (Hm : forall b, map_levels (fun i => add_m b i rows) m = map_levels (fun i => add_m b i rows') m).
  { intros b. apply map_levels_ext. intros i c l Hc Hl. unfold add_m.
    destruct (estimates_perm_invariant i _ rows rows' P (Hnn c l Hc Hl)) as [_ E]. rewrite E. reflexivity. }
  unfold estimate_u, estimate_m_label, estimate_m_pairs. rewrite !Hm. split; [|tauto]. f_equal.
  apply map_levels_ext. intros i c l Hc Hl. unfold add_u.
  destruct (estimates_perm_invariant i _ rows rows' P (Hnn c l Hc Hl)) as [E _]. rewrite E. reflexivity.
Qed.

(* relabelling the comparisons: column j of the relabelled pairs is column (nth j pi 0) *)
Lemma gam_reorder pi j g : (j < length pi)%nat -> gam j (reorder (-1)%Z pi g) = gam (nth j pi O) g.
Proof. intros Hj. unfold gam. apply nth_reorder. exact Hj. Qed.

Lemma length_filter_map {A B : Type} (h : A -> B) (q : B -> bool) l :
  length (filter q (map h l)) = length (filter (fun x => q (h x)) l).
Proof. rewrite filter_map_comm. apply map_length. Qed.

Lemma frequency_relabel pi j v rows : (j < length pi)%nat ->
  frequency j v (map (reorder (-1)%Z pi) rows) = frequency (nth j pi O) v rows.
Proof.
  intros Hj.
  assert (E1 : count_level j v (map (reorder (-1)%Z pi) rows) = count_level (nth j pi O) v rows).
  { unfold count_level. rewrite length_filter_map. f_equal. apply filter_ext. intros g.
    rewrite gam_reorder by exact Hj. reflexivity. }
  assert (E2 : count_nonnull j (map (reorder (-1)%Z pi) rows) = count_nonnull (nth j pi O) rows).
  { unfold count_nonnull. rewrite length_filter_map. f_equal. apply filter_ext. intros g.
    rewrite gam_reorder by exact Hj. reflexivity. }
  unfold frequency. rewrite E1, E2. reflexivity.
Qed.

Lemma const_scored_relabel p pi rows :
  const_scored p (map (reorder (-1)%Z pi) rows) = map (relabel_srow pi) (const_scored p rows).
Proof. unfold const_scored. rewrite !map_map. reflexivity. Qed.

(* no condition on v and no permutation hypothesis: only j in range *)
Theorem estimates_relabel_invariant pi j v rows : (j < length pi)%nat ->
  frequency j v (map (reorder (-1)%Z pi) rows) = frequency (nth j pi O) v rows /\
  u_estimate j v (map (reorder (-1)%Z pi) rows) = u_estimate (nth j pi O) v rows /\
  m_estimate j v (map (reorder (-1)%Z pi) rows) = m_estimate (nth j pi O) v rows.
Proof.
  intros Hj. split; [apply frequency_relabel; exact Hj|].
  unfold u_estimate, m_estimate. rewrite !const_scored_relabel, !props_tbl_relabel by exact Hj. tauto.
Qed.

(* the order in which the input tables are listed *)
Lemma zsum_perm ns ns' : Permutation ns ns' -> zsum ns = zsum ns'.
Proof. unfold zsum. induction 1; cbn [map fold_right]; lia. Qed.
Lemma zsq_perm ns ns' : Permutation ns ns' -> zsq ns = zsq ns'.
Proof. unfold zsq. induction 1; cbn [map fold_right]; lia. Qed.

Theorem admissible_pairs_perm lt ns ns' : Permutation ns ns' -> admissible_pairs lt ns = admissible_pairs lt ns'.
Proof.
  intros P. apply Nat2Z.inj. unfold admissible_pairs.
  destruct lt.
  - pose proof (count_pairs_all (tags_from 0 ns)) as H1. pose proof (count_pairs_all (tags_from 0 ns')) as H2.
    rewrite length_tags, zsum_nat in H1, H2. rewrite (zsum_perm ns ns' P) in H1.
    change (adm_of DedupeOnly) with (fun _ _ : nat => true). lia.
  - pose proof (count_pairs_link ns 0) as H1. pose proof (count_pairs_link ns' 0) as H2.
    rewrite (zsum_perm ns ns' P), (zsq_perm ns ns' P) in H1. lia.
  - pose proof (count_pairs_all (tags_from 0 ns)) as H1. pose proof (count_pairs_all (tags_from 0 ns')) as H2.
    rewrite length_tags, zsum_nat in H1, H2. rewrite (zsum_perm ns ns' P) in H1.
    change (adm_of LinkAndDedupe) with (fun _ _ : nat => true). lia.
Qed.

Definition opt_Qeq (a b : option Q) : Prop :=
  match a, b with Some c, Some c' => c == c' | None, None => True | _, _ => False end.

Theorem cartesian_perm lt ns ns' :
  Permutation ns ns' -> opt_Qeq (cartesian lt (map injn ns)) (cartesian lt (map injn ns')).
Proof.
  intros P.
  assert (Hlen : length (map injn ns) = length (map injn ns')) by (rewrite !map_length; apply Permutation_length; exact P).
  destruct (cartesian lt (map injn ns)) as [c|] eqn:E1, (cartesian lt (map injn ns')) as [c'|] eqn:E2; cbn [opt_Qeq]; try exact I.
  - rewrite (cartesian_counts_admissible_pairs lt ns c E1), (cartesian_counts_admissible_pairs lt ns' c' E2).
    rewrite (admissible_pairs_perm lt ns ns' P). reflexivity.
  - destruct lt; cbn [cartesian] in E1, E2; rewrite <- ?Hlen in E2.
    + destruct (Nat.ltb 1 (length (map injn ns))); discriminate.
    + destruct (Nat.leb (length (map injn ns)) 1); discriminate.
    + discriminate.
  - destruct lt; cbn [cartesian] in E1, E2; rewrite <- ?Hlen in E2.
    + destruct (Nat.ltb 1 (length (map injn ns))); discriminate.
    + destruct (Nat.leb (length (map injn ns)) 1); discriminate.
    + discriminate.
Qed.

Definition prior_eqv (a b : prior_result) : Prop :=
  match a, b with
  | PriorOk p, PriorOk p' => p == p'
  | BadRecall, BadRecall | RecallInconsistent, RecallInconsistent
  | PriorZeroDivision, PriorZeroDivision => True
  | _, _ => False
  end.

Theorem prior_estimate_compat obs recall c c' :
  c == c' -> prior_eqv (prior_estimate obs recall c) (prior_estimate obs recall c').
Proof.
  intros E. unfold prior_estimate. destruct (Qlt_bool 1 recall || Qle_bool recall 0)%bool; [exact I|].
  assert (H : Qlt_bool (c * recall) obs = Qlt_bool (c' * recall) obs).
  { apply bool_eq_iff. rewrite !Qlt_bool_iff, E. tauto. }
  rewrite H. destruct (Qlt_bool (c' * recall) obs); [exact I|].
  assert (H0 : Qeq_bool c 0 = Qeq_bool c' 0) by (apply bool_eq_iff; rewrite !Qeq_bool_iff, E; tauto).
  rewrite H0. destruct (Qeq_bool c' 0); [exact I|]. cbn [prior_eqv]. rewrite E. reflexivity.
Qed.

(* ------------------------------------------------------------------------------------ *)
(* 10. the sample proportion of estimate_u_values, on the model functions (over R)        *)
(* ------------------------------------------------------------------------------------ *)
Section SamplingModel.
Open Scope R_scope.

Lemma sumr_INR ns : sumr (map INR ns) = INR (fold_right Nat.add O ns).
Proof. unfold sumr. induction ns as [|n t IH]; cbn [map fold_right]; [reflexivity|]. rewrite IH, plus_INR. reflexivity. Qed.

Lemma sample_proportion_full lt rc mp : 1 <= raw_proportion lt rc mp -> sample_proportion lt rc mp = 1.
Proof. intros H. unfold sample_proportion. cbv zeta. destruct (Rle_dec 1 (raw_proportion lt rc mp)); [reflexivity|contradiction]. Qed.

(* dedupe_only and link_and_dedupe: once max_pairs reaches n (n - 1) / 2 the whole table is used *)
Theorem sample_full_all_pairs lt ns max_pairs :
  lt <> LinkOnly -> (1 <= fold_right Nat.add O ns)%nat ->
  INR (fold_right Nat.add O ns) * (INR (fold_right Nat.add O ns) - 1) / 2 <= max_pairs ->
  sample_proportion lt (map INR ns) max_pairs = 1.
Proof.
  intros Hlt Hn Hp. apply sample_proportion_full.
  assert (E : raw_proportion lt (map INR ns) max_pairs = rows_needed max_pairs / sumr (map INR ns))
    by (destruct lt; [reflexivity|congruence|reflexivity]).
  rewrite E, sumr_INR. unfold rows_needed.
  pose proof (full_sample_when_enough_pairs _ _ Hn Hp) as H.
  replace (1 / 2 * (sqrt (8 * max_pairs + 1) + 1)) with (0.5 * (sqrt (8 * max_pairs + 1) + 1)) by lra.
  exact H.
Qed.

(* link_only: once max_pairs reaches the number of cross-table pairs *)
Definition total_links (rc : list R) : R := ((sumr rc) ^ 2 - sumr (map (fun c => c ^ 2) rc)) / 2.

Theorem sample_full_link_only rc max_pairs :
  0 < total_links rc -> total_links rc <= max_pairs -> sample_proportion LinkOnly rc max_pairs = 1.
Proof.
  intros H0 H1. apply sample_proportion_full. cbn [raw_proportion]. unfold proportion_link_only. cbv zeta.
  fold (total_links rc). apply link_only_full_sample; assumption.
Qed.

Lemma sumr_IZR ns : sumr (map INR ns) = IZR (zsum ns).
Proof.
  unfold sumr, zsum. induction ns as [|n t IH]; cbn [map fold_right]; [reflexivity|].
  rewrite IH, plus_IZR, INR_IZR_INZ. reflexivity.
Qed.
Lemma sumr_sq_IZR ns : sumr (map (fun c => c ^ 2) (map INR ns)) = IZR (zsq ns).
Proof.
  unfold sumr, zsq. induction ns as [|n t IH]; cbn [map fold_right]; [reflexivity|].
  rewrite IH, plus_IZR, mult_IZR, INR_IZR_INZ. ring.
Qed.

(* the model's total_links is the number of admissible link_only pairs *)
Theorem link_only_total_links_is_admissible_pairs ns :
  total_links (map INR ns) = INR (admissible_pairs LinkOnly ns).
Proof.
  unfold total_links, admissible_pairs. rewrite sumr_IZR, sumr_sq_IZR, INR_IZR_INZ.
  pose proof (count_pairs_link ns 0) as H. apply (f_equal IZR) in H.
  rewrite mult_IZR, minus_IZR, mult_IZR in H. lra.
Qed.

Theorem sample_full_link_only_pairs ns max_pairs :
  (1 <= admissible_pairs LinkOnly ns)%nat -> INR (admissible_pairs LinkOnly ns) <= max_pairs ->
  sample_proportion LinkOnly (map INR ns) max_pairs = 1.
Proof.
  intros H0 H1. apply sample_full_link_only; rewrite link_only_total_links_is_admissible_pairs; [|exact H1].
  apply lt_0_INR. lia.
Qed.
End SamplingModel.

(* ------------------------------------------------------------------------------------ *)
(* 11. num_observed_matches counts each matched pair once                                 *)
(* ------------------------------------------------------------------------------------ *)
From Splinkv Require Base.TV Model.Blocking Proofs.BlockingP.

Section Observed.
Context {rec : Type} (adm : rec -> rec -> bool) (rules : list (rec -> rec -> Splinkv.Base.TV.tv)).

Definition matched (lr : rec * rec) : bool :=
  adm (fst lr) (snd lr) && existsb (fun rk => Splinkv.Base.TV.isT (rk (fst lr) (snd lr))) rules.

Lemma cross_list_prod {A : Type} (L R : list A) : Splinkv.Model.Blocking.cross L R = list_prod L R.
Proof. induction L as [|x t IH]; cbn; [reflexivity|]. rewrite <- IH. reflexivity. Qed.

Lemma isT_true x : Splinkv.Base.TV.isT x = true <-> x = Splinkv.Base.TV.T.
Proof. destruct x; cbn; split; congruence. Qed.

Lemma block_pairs_nodup L : NoDup L -> NoDup (map snd (Splinkv.Model.Blocking.block adm rules L L)).
Proof. intros H. unfold Splinkv.Model.Blocking.block. apply Splinkv.Proofs.BlockingP.block_aux_pairs_nodup; exact H. Qed.

Lemma block_pair_present L l r : rules <> [] ->
  ((exists n, In (n, (l, r)) (Splinkv.Model.Blocking.block adm rules L L)) <->
   In l L /\ In r L /\ adm l r = true /\ exists rk, In rk rules /\ rk l r = Splinkv.Base.TV.T).
Proof.
  intros Hne. unfold Splinkv.Model.Blocking.block. destruct rules as [|a t] eqn:E; [congruence|].
  rewrite <- (Splinkv.Proofs.BlockingP.first_true_some_iff rec 0 (a :: t) l r). split.
  - intros [n H]. apply Splinkv.Proofs.BlockingP.block_aux_spec in H. destruct H as (?&?&?&_&?). eauto 6.
  - intros (Hl & Hr & Ha & [n Hn]). exists n. apply Splinkv.Proofs.BlockingP.block_aux_spec. cbn [existsb]. tauto.
Qed.

Theorem observed_counts_distinct_pairs L : NoDup L -> rules <> [] ->
  observed_matches adm rules L = length (filter matched (list_prod L L)).
Proof.
  intros HL Hne. unfold observed_matches.
  rewrite <- (map_length snd (Splinkv.Model.Blocking.block adm rules L L)).
  apply Permutation_length. apply NoDup_Permutation.
  - apply block_pairs_nodup. exact HL.
  - apply List.NoDup_filter. rewrite <- cross_list_prod. apply Splinkv.Proofs.BlockingP.NoDup_cross; exact HL.
  - intros [l r]. rewrite filter_In, in_prod_iff. unfold matched. cbn [fst snd].
    rewrite andb_true_iff, existsb_exists. split.
    + intros H. apply in_map_iff in H as ([n [l' r']] & E & Hin). cbn in E. inversion E; subst.
      assert (Hex : exists n, In (n, (l, r)) (Splinkv.Model.Blocking.block adm rules L L)) by eauto.
      apply (block_pair_present L l r Hne) in Hex as (Hl & Hr & Ha & rk & Hrk & HT).
      split; [tauto|]. split; [exact Ha|]. exists rk. split; [exact Hrk|]. apply isT_true. exact HT.
    + intros ((Hl & Hr) & Ha & rk & Hrk & HT). apply isT_true in HT.
      assert (Hex : exists n, In (n, (l, r)) (Splinkv.Model.Blocking.block adm rules L L)).
      { apply (block_pair_present L l r Hne). eauto 8. }
      destruct Hex as [n Hn]. apply in_map_iff. exists (n, (l, r)). split; [reflexivity|exact Hn].
Qed.
End Observed.
