(* Re-presentation invariance of single-best-link clustering (for C13): order of node and edge rows,
   orientation of edge rows, relabelling of record ids. *)
From Coq Require Import List Bool ZArith QArith Lia Sorted Permutation.
From Splinkv Require Import Model.OneToOne Proofs.OneToOneP Proofs.OneToOneGreedyP.
Import ListNotations.
Open Scope Z_scope.

Definition canon (e : edge) : edge := if e_l e <=? e_r e then e else flip e.
(* E' lists the same edges as E, in any order, each row in either orientation *)
Definition eperm_flip (E E' : list edge) : Prop := Permutation (map canon E) (map canon E').
Definition fe (f : Z -> Z) (e : edge) : edge := (f (e_l e), f (e_r e), e_p e).
Definition fn (f : Z -> Z) (n : node) : node := (f (n_id n), n_sds n).

Lemma flip_flip : forall e, flip (flip e) = e.
Proof. intros [[l r] p]. reflexivity. Qed.

Lemma canon_flip : forall e, canon (flip e) = canon e.
Proof.
  intros [[l r] p]. unfold canon, flip, e_l, e_r, e_p. cbn [fst snd].
  destruct (l <=? r) eqn:E1, (r <=? l) eqn:E2; try reflexivity.
  - apply Z.leb_le in E1, E2. assert (l = r) by lia. subst. reflexivity.
  - apply Z.leb_gt in E1, E2. lia.
Qed.

Lemma canon_req : forall e, req e (canon e).
Proof. intros e. unfold canon. destruct (e_l e <=? e_r e); [left|right]; reflexivity. Qed.

Lemma canon_eq_req : forall a b, canon a = canon b -> req a b.
Proof.
  intros a b H. destruct (canon_req a) as [Ha|Ha], (canon_req b) as [Hb|Hb]; rewrite Ha, Hb in H.
  - left. symmetry. exact H.
  - right. rewrite H, flip_flip. reflexivity.
  - right. symmetry. exact H.
  - left. rewrite <- (flip_flip a), <- (flip_flip b). rewrite H. reflexivity.
Qed.

Lemma eperm_flip_of_perm : forall E E', Permutation E E' -> eperm_flip E E'.
Proof. intros. apply Permutation_map. assumption. Qed.

Lemma eperm_flip_of_flips : forall (fl : edge -> bool) E, eperm_flip E (map (fun e => if fl e then flip e else e) E).
Proof.
  intros. unfold eperm_flip. rewrite map_map.
  rewrite (map_ext (fun e => canon (if fl e then flip e else e)) canon); [apply Permutation_refl|].
  intros e. destruct (fl e); [apply canon_flip|reflexivity].
Qed.

Lemma filter_perm : forall (A : Type) (f : A -> bool) l l', Permutation l l' -> Permutation (filter f l) (filter f l').
Proof.
  intros A f l l' H. induction H; cbn [filter].
  - constructor.
  - destruct (f x); [constructor|]; assumption.
  - destruct (f x), (f y); try constructor; try apply Permutation_refl.
  - eapply Permutation_trans; eassumption.
Qed.

Lemma filter_map_comm : forall (A : Type) (p : A -> bool) (h : A -> A) l,
  (forall x, p (h x) = p x) -> filter p (map h l) = map h (filter p l).
Proof.
  intros A p h l H. induction l as [|x t IH]; [reflexivity|]. cbn [map filter]. rewrite H.
  destruct (p x); cbn [map]; rewrite IH; reflexivity.
Qed.

Lemma filter_map_gen : forall (A B : Type) (p : A -> bool) (p' : B -> bool) (h : A -> B) l,
  (forall x, p' (h x) = p x) -> filter p' (map h l) = map h (filter p l).
Proof.
  intros A B p p' h l H. induction l as [|x t IH]; [reflexivity|]. cbn [map filter]. rewrite H.
  destruct (p x); cbn [map]; rewrite IH; reflexivity.
Qed.

(* ------------------------------------------------------------------ sorting is canonical *)
Section SortFacts.
  Variable le : rank_le.
  Hypothesis Hord : rank_order le.

  Lemma insert_map : forall (h : edge -> edge), (forall a b, le (h a) (h b) = le a b) ->
    forall e l, insert_desc le (h e) (map h l) = map h (insert_desc le e l).
  Proof.
    intros h Hh e. induction l as [|x t IH]; [reflexivity|]. cbn [map insert_desc]. rewrite Hh.
    destruct (le x e); cbn [map]; [reflexivity|]. rewrite IH. reflexivity.
  Qed.

  Lemma sort_map : forall (h : edge -> edge), (forall a b, le (h a) (h b) = le a b) ->
    forall l, sort_desc le (map h l) = map h (sort_desc le l).
  Proof.
    intros h Hh. induction l as [|x t IH]; [reflexivity|]. cbn [map sort_desc]. rewrite IH. apply insert_map. assumption.
  Qed.

  Lemma strict_rank_map : forall (h : edge -> edge), (forall a b, le (h a) (h b) = le a b) ->
    forall l, strict_rank le l -> strict_rank le (map h l).
  Proof.
    intros h Hh. unfold strict_rank. induction l as [|x t IH]; intros H; cbn [map]; [constructor|].
    inversion H as [|? ? Hx Ht]; subst. constructor; [|auto].
    rewrite Forall_forall in *. intros y Hy. apply in_map_iff in Hy. destruct Hy as [z [<- Hz]]. rewrite !Hh. auto.
  Qed.

  Lemma strict_rank_perm : forall l l', Permutation l l' -> strict_rank le l -> strict_rank le l'.
  Proof.
    unfold strict_rank. intros l l' H. induction H; intros Hs.
    - constructor.
    - inversion Hs as [|? ? Hx Ht]; subst. constructor; [|auto].
      rewrite Forall_forall in *. intros z Hz. apply Hx. eapply Permutation_in; [apply Permutation_sym; eassumption|assumption].
    - inversion Hs as [|? ? Hy Ht]; subst. inversion Ht as [|? ? Hx Hl]; subst.
      inversion Hy as [|? ? Hyx Hyl]; subst. constructor; [|constructor; assumption].
      constructor; [tauto|assumption].
    - auto.
  Qed.

  Lemma hv_irrefl : forall a, ~ hv le a a.
  Proof. intros a [H1 H2]. congruence. Qed.

  Lemma sorted_unique : forall L L', StronglySorted (hv le) L -> StronglySorted (hv le) L' ->
    (forall x, In x L <-> In x L') -> L = L'.
  Proof.
    induction L as [|a t IH]; intros L' Hs Hs' Hin.
    - destruct L' as [|a' t']; [reflexivity|]. exfalso. apply (Hin a'). left. reflexivity.
    - destruct L' as [|a' t']; [exfalso; apply (Hin a); left; reflexivity|].
      inversion Hs as [|? ? Hst Hat]; subst. inversion Hs' as [|? ? Hst' Hat']; subst.
      rewrite Forall_forall in Hat, Hat'.
      assert (a = a').
      { destruct (proj1 (Hin a) (or_introl eq_refl)) as [H|H]; [symmetry; exact H|].
        destruct (proj2 (Hin a') (or_introl eq_refl)) as [H'|H']; [exact H'|].
        exfalso. destruct (Hat' a H) as [H1 H2]. destruct (Hat a' H') as [H3 H4]. congruence. }
      subst a'. f_equal. apply IH; auto. intros x. split; intros Hx.
      + destruct (proj1 (Hin x) (or_intror Hx)) as [H|H]; [|exact H]. subst x. exfalso. exact (hv_irrefl a (Hat a Hx)).
      + destruct (proj2 (Hin x) (or_intror Hx)) as [H|H]; [|exact H]. subst x. exfalso. exact (hv_irrefl a (Hat' a Hx)).
  Qed.

  Lemma sort_perm : forall l l', strict_rank le l -> Permutation l l' -> sort_desc le l = sort_desc le l'.
  Proof.
    intros l l' Hs Hp. apply sorted_unique.
    - apply sort_sorted; assumption.
    - apply sort_sorted; [assumption|]. apply (strict_rank_perm l l'); assumption.
    - intros x. rewrite !sort_in. split; apply Permutation_in; [assumption|apply Permutation_sym; assumption].
  Qed.

  Lemma le_canon : forall a b, le (canon a) (canon b) = le a b.
  Proof. intros. apply (le_req le Hord); apply canon_req. Qed.
End SortFacts.

(* ------------------------------------------------------------------ greedy commutes with re-presentation *)
Lemma bool_iff_eq : forall a b : bool, (a = true <-> b = true) -> a = b.
Proof. intros [|] [|] H; try reflexivity; [symmetry; apply H; reflexivity|apply H; reflexivity]. Qed.

Lemma g_step_char : forall dfs nodes cl e x y,
  let a := cl (e_l e) in let b := cl (e_r e) in
  let merge := negb ((a =? b) || g_conflict dfs nodes cl a b) in
  g_step dfs nodes cl e x = g_step dfs nodes cl e y <->
  cl x = cl y \/ (merge = true /\ (cl x = a \/ cl x = b) /\ (cl y = a \/ cl y = b)).
Proof.
  intros dfs nodes cl e x y a b merge. unfold g_step. fold a. fold b. unfold merge.
  destruct ((a =? b) || g_conflict dfs nodes cl a b) eqn:Ec; cbn [negb].
  - split; [intros H; left; exact H|intros [H|[H _]]; [exact H|discriminate]].
  - apply orb_false_iff in Ec. destruct Ec as [Hab _]. apply Z.eqb_neq in Hab.
    destruct (Z.eqb_spec (cl x) b) as [E1|E1], (Z.eqb_spec (cl y) b) as [E2|E2].
    + split; [intros _; left; congruence|reflexivity].
    + split.
      * intros H. right. split; [reflexivity|]. split; [right; assumption|left; symmetry; assumption].
      * intros [H|(_ & _ & [H|H])]; congruence.
    + split.
      * intros H. right. split; [reflexivity|]. split; [left; assumption|right; assumption].
      * intros [H|(_ & [H|H] & _)]; congruence.
    + split; [intros H; left; exact H|]. intros [H|(_ & [H1|H1] & [H2|H2])]; congruence.
Qed.

Section Sim.
  Variable dfs : list Z.
  Variables nodes nodes' : list node.
  Variable phi : Z -> Z.
  Hypothesis Hinj : forall a b, phi a = phi b -> a = b.
  Hypothesis Hn : forall n, In n nodes -> In (fn phi n) nodes'.
  Hypothesis Hn' : forall n', In n' nodes' -> exists n, In n nodes /\ n' = fn phi n.

  Definition Rel (cl cl' : lab) : Prop := forall x y, cl x = cl y <-> cl' (phi x) = cl' (phi y).

  Lemma flag_sim : forall cl cl' c d, Rel cl cl' ->
    (g_flag nodes cl (cl c) d = true <-> g_flag nodes' cl' (cl' (phi c)) d = true).
  Proof.
    intros cl cl' c d HR. rewrite !g_flag_true. split.
    - intros [n (Hin & Hc & Hd)]. exists (fn phi n). split; [apply Hn; assumption|]. split; [|exact Hd].
      unfold fn, n_id. cbn [fst]. apply HR. exact Hc.
    - intros [n' (Hin & Hc & Hd)]. destruct (Hn' n' Hin) as [n [Hin0 ->]]. exists n. split; [assumption|]. split; [|exact Hd].
      apply HR. exact Hc.
  Qed.

  Lemma conflict_sim : forall cl cl' l r, Rel cl cl' ->
    g_conflict dfs nodes cl (cl l) (cl r) = g_conflict dfs nodes' cl' (cl' (phi l)) (cl' (phi r)).
  Proof.
    intros cl cl' l r HR. apply bool_iff_eq. rewrite !g_conflict_true. split; intros (d & Hd & H1 & H2); exists d; (split; [assumption|]);
      split; (apply (flag_sim cl cl' _ d HR); assumption).
  Qed.

  Lemma conflict_comm' : forall nd cl a b, g_conflict dfs nd cl a b = g_conflict dfs nd cl b a.
  Proof.
    intros. apply bool_iff_eq. rewrite !g_conflict_true. split; intros (d & Hd & H1 & H2); exists d; auto.
  Qed.

  Lemma eqb_sim : forall cl cl' l r, Rel cl cl' -> (cl l =? cl r) = (cl' (phi l) =? cl' (phi r)).
  Proof. intros cl cl' l r HR. apply bool_iff_eq. rewrite !Z.eqb_eq. apply HR. Qed.

  Lemma step_sim : forall cl cl' e e', Rel cl cl' -> req (fe phi e) e' ->
    Rel (g_step dfs nodes cl e) (g_step dfs nodes' cl' e').
  Proof.
    intros cl cl' e e' HR Hreq x y. rewrite !g_step_char. cbn zeta.
    assert (Hends : (e_l e' = phi (e_l e) /\ e_r e' = phi (e_r e)) \/ (e_l e' = phi (e_r e) /\ e_r e' = phi (e_l e))).
    { destruct Hreq as [->| ->]; [left|right]; split; reflexivity. }
    destruct Hends as [[-> ->]|[-> ->]].
    - rewrite <- (eqb_sim cl cl' _ _ HR), <- (conflict_sim cl cl' _ _ HR).
      rewrite (HR x y), (HR x (e_l e)), (HR x (e_r e)), (HR y (e_l e)), (HR y (e_r e)). reflexivity.
    - rewrite <- (eqb_sim cl cl' _ _ HR), <- (conflict_sim cl cl' _ _ HR).
      rewrite (Z.eqb_sym (cl (e_r e))), (conflict_comm' nodes cl (cl (e_r e))).
      rewrite (HR x y), (HR x (e_l e)), (HR x (e_r e)), (HR y (e_l e)), (HR y (e_r e)). tauto.
  Qed.

  Lemma fold_sim : forall L L', Forall2 (fun e e' => req (fe phi e) e') L L' ->
    forall cl cl', Rel cl cl' -> Rel (fold_left (g_step dfs nodes) L cl) (fold_left (g_step dfs nodes') L' cl').
  Proof.
    intros L L' H. induction H as [|e e' L L' He _ IH]; intros cl cl' HR; cbn [fold_left]; [assumption|].
    apply IH. apply step_sim; assumption.
  Qed.

  Lemma greedy_sim : forall L L', Forall2 (fun e e' => req (fe phi e) e') L L' ->
    Rel (greedy dfs nodes L) (greedy dfs nodes' L').
  Proof.
    intros L L' H. unfold greedy. apply fold_sim; [assumption|]. intros x y. split; [intros ->; reflexivity|apply Hinj].
  Qed.

  Lemma is_node_sim : forall x, is_node nodes' (phi x) = is_node nodes x.
  Proof.
    intros x. apply bool_iff_eq. rewrite !is_node_true. split.
    - intros [s Hs]. destruct (Hn' _ Hs) as [[v s0] [Hin Heq]]. unfold fn, n_id, n_sds in Heq. cbn [fst snd] in Heq.
      inversion Heq as [[H1 H2]]. apply Hinj in H1. subst. eauto.
    - intros [s Hs]. exists s. apply (Hn (x, s)). assumption.
  Qed.

  Lemma usable_sim : forall thr e, usable thr nodes' (fe phi e) = usable thr nodes e.
  Proof. intros. unfold usable, fe, e_l, e_r, e_p. cbn [fst snd]. rewrite !is_node_sim. reflexivity. Qed.
End Sim.

Lemma usable_canon : forall thr nodes e, usable thr nodes (canon e) = usable thr nodes e.
Proof.
  intros thr nodes e. unfold canon. destruct (e_l e <=? e_r e); [reflexivity|].
  unfold usable, flip, e_l, e_r, e_p. cbn [fst snd]. rewrite <- !andb_assoc. f_equal. apply andb_comm.
Qed.

(* the sorted usable edge lists of two presentations are the same up to orientation *)
Lemma sorted_lists_related : forall le, rank_order le -> forall phi thr nodes nodes' E E',
  (forall a b, phi a = phi b -> a = b) ->
  (forall n, In n nodes -> In (fn phi n) nodes') ->
  (forall n', In n' nodes' -> exists n, In n nodes /\ n' = fn phi n) ->
  (forall a b, le (fe phi a) (fe phi b) = le a b) ->
  strict_rank le E -> eperm_flip (map (fe phi) E) E' ->
  Forall2 (fun e e' => req (fe phi e) e')
          (sort_desc le (filter (usable thr nodes) E)) (sort_desc le (filter (usable thr nodes') E')).
Proof.
  intros le Hord phi thr nodes nodes' E E' Hinj Hn Hn' Hcompat Hs Hperm.
  set (A := filter (usable thr nodes') (map (fe phi) E)). set (B := filter (usable thr nodes') E').
  assert (HA : A = map (fe phi) (filter (usable thr nodes) E)).
  { unfold A. apply filter_map_gen. intros x. apply (usable_sim nodes nodes' phi Hinj Hn Hn'). }
  assert (HsA : strict_rank le A).
  { rewrite HA. apply strict_rank_map; [assumption|]. apply strict_rank_filter. assumption. }
  assert (Hp : Permutation (map canon A) (map canon B)).
  { unfold A, B. rewrite <- !(filter_map_comm _ (usable thr nodes') canon) by (intros; apply usable_canon).
    apply filter_perm. exact Hperm. }
  assert (Hsort : map canon (sort_desc le A) = map canon (sort_desc le B)).
  { rewrite <- !(sort_map le canon (le_canon le Hord)). apply sort_perm; [assumption| |assumption].
    apply strict_rank_map; [apply le_canon; assumption|assumption]. }
  rewrite HA, (sort_map le (fe phi) Hcompat) in Hsort. fold B.
  remember (sort_desc le (filter (usable thr nodes) E)) as L. remember (sort_desc le B) as L'. clear - Hsort.
  revert L' Hsort. induction L as [|x t IH]; intros [|y t'] H; cbn [map] in H; try discriminate; constructor.
  - inversion H. apply canon_eq_req. assumption.
  - inversion H. apply IH. assumption.
Qed.

(* ------------------------------------------------------------------ the loop's output under re-presentation *)
Section Invariance.
  Variable le : rank_le.
  Hypothesis Hord : rank_order le.
  Variable phi : Z -> Z.
  Hypothesis Hmono : forall a b, a < b -> phi a < phi b.
  Hypothesis Hcompat : forall a b, le (fe phi a) (fe phi b) = le a b.
  Variable dfs : list Z.
  Variable thr : option Q.
  Variables nodes nodes' : list node.
  Variables E E' : list edge.
  Hypothesis Hnd : NoDup (map n_id nodes).
  Hypothesis Hnd' : NoDup (map n_id nodes').
  Hypothesis Hnodes : Permutation (map (fn phi) nodes) nodes'.
  Hypothesis Hedges : eperm_flip (map (fe phi) E) E'.
  Hypothesis Hs : strict_rank le E.
  Hypothesis Hs' : strict_rank le E'.
  Variables chl chr chl' chr' : chooser.
  Hypothesis Hl : rank1_ok_for le chl.
  Hypothesis Hr : rank1_ok_for le chr.
  Hypothesis Hl' : rank1_ok_for le chl'.
  Hypothesis Hr' : rank1_ok_for le chr'.
  Variables fuel fuel' : nat.
  Variables out out' : list reprow.
  Hypothesis Hrun : oto_loop dfs (df_neighbours thr E) chl chr fuel 1 (df_representatives nodes) = Some out.
  Hypothesis Hrun' : oto_loop dfs (df_neighbours thr E') chl' chr' fuel' 1 (df_representatives nodes') = Some out'.

  Lemma phi_inj : forall a b, phi a = phi b -> a = b.
  Proof.
    intros a b H. destruct (Z.lt_trichotomy a b) as [Hlt|[Heq|Hgt]]; [|assumption|].
    - apply Hmono in Hlt. lia.
    - apply Hmono in Hgt. lia.
  Qed.

  Let G := greedy_clusters le dfs thr nodes E.
  Let G' := greedy_clusters le dfs thr nodes' E'.

  Lemma nodes_fwd : forall n, In n nodes -> In (fn phi n) nodes'.
  Proof. intros n H. eapply Permutation_in; [exact Hnodes|]. apply in_map. assumption. Qed.

  Lemma nodes_bwd : forall n', In n' nodes' -> exists n, In n nodes /\ n' = fn phi n.
  Proof.
    intros n' H. apply (Permutation_in _ (Permutation_sym Hnodes)) in H. apply in_map_iff in H.
    destruct H as [n [<- Hn]]. eauto.
  Qed.

  Lemma G_rel : forall x y, G x = G y <-> G' (phi x) = G' (phi y).
  Proof.
    unfold G, G', greedy_clusters.
    apply (greedy_sim dfs nodes nodes' phi phi_inj nodes_fwd nodes_bwd).
    apply sorted_lists_related; auto using phi_inj, nodes_fwd, nodes_bwd.
  Qed.

  Lemma out_recs : forall v s, In (v, s) nodes <-> exists c, In (v, c, s) out.
  Proof.
    intros v s. destruct (inv_loop _ _ _ _ _ _ _ _ _ (inv_init dfs nodes Hnd) Hrun) as (_ & Hsame & _).
    rewrite init_records. apply Hsame.
  Qed.

  Lemma out_recs' : forall v s, In (v, s) nodes' <-> exists c, In (v, c, s) out'.
  Proof.
    intros v s. destruct (inv_loop _ _ _ _ _ _ _ _ _ (inv_init dfs nodes' Hnd') Hrun') as (_ & Hsame & _).
    rewrite init_records. apply Hsame.
  Qed.

  Lemma out_nodup' : NoDup (map rr_node out').
  Proof. apply (inv_loop _ _ _ _ _ _ _ _ _ (inv_init dfs nodes' Hnd') Hrun'). Qed.

  Lemma out_nodup : NoDup (map rr_node out).
  Proof. apply (inv_loop _ _ _ _ _ _ _ _ _ (inv_init dfs nodes Hnd) Hrun). Qed.

  (* the representation-independent content of the output: every record, its cluster id mapped
     by the relabelling, its source dataset *)
  Lemma out_fwd : forall v c s, In (v, c, s) out -> In (phi v, phi c, s) out'.
  Proof.
    intros v c s Hv.
    assert (Hnv : In (v, s) nodes) by (apply out_recs; eauto).
    apply nodes_fwd in Hnv. unfold fn, n_id, n_sds in Hnv. cbn [fst snd] in Hnv.
    destruct (proj1 (out_recs' _ _) Hnv) as [c' Hc'].
    destruct (cluster_id_is_min_ranked le Hord dfs thr chl chr fuel nodes E out Hnd Hs Hl Hr Hrun v c s Hv) as [[sc Hcc] Hmin].
    destruct (cluster_id_is_min_ranked le Hord dfs thr chl' chr' fuel' nodes' E' out' Hnd' Hs' Hl' Hr' Hrun' _ _ _ Hc') as [[sc' Hcc'] Hmin'].
    (* phi c lies in the class of phi v *)
    assert (Hcn : In (c, sc) nodes) by (apply out_recs; eauto).
    apply nodes_fwd in Hcn. unfold fn, n_id, n_sds in Hcn. cbn [fst snd] in Hcn.
    destruct (proj1 (out_recs' _ _) Hcn) as [c2 Hc2].
    assert (HGvc : G v = G c).
    { apply (proj1 (refines_greedy_ranked le Hord dfs thr chl chr fuel nodes E out Hnd Hs Hl Hr Hrun v c s c c sc Hv Hcc)). reflexivity. }
    assert (Hc2eq : c2 = c').
    { apply (proj2 (refines_greedy_ranked le Hord dfs thr chl' chr' fuel' nodes' E' out' Hnd' Hs' Hl' Hr' Hrun' _ _ _ _ _ _ Hc2 Hc')).
      apply G_rel. symmetry. exact HGvc. }
    subst c2. pose proof (Hmin' _ _ Hc2) as Hle1.
    (* c' is the image of a record of the class of v *)
    assert (Hc'n : In (c', sc') nodes') by (apply out_recs'; eauto).
    destruct (nodes_bwd _ Hc'n) as [[c0 s0] [Hc0 Heq]]. unfold fn, n_id, n_sds in Heq. cbn [fst snd] in Heq.
    inversion Heq; subst c' s0. destruct (proj1 (out_recs _ _) Hc0) as [cc Hcc0].
    assert (Hcc_eq : cc = c).
    { apply (proj2 (refines_greedy_ranked le Hord dfs thr chl chr fuel nodes E out Hnd Hs Hl Hr Hrun _ _ _ _ _ _ Hcc0 Hv)).
      apply G_rel.
      apply (proj1 (refines_greedy_ranked le Hord dfs thr chl' chr' fuel' nodes' E' out' Hnd' Hs' Hl' Hr' Hrun' _ _ _ _ _ _ Hcc' Hc')). reflexivity. }
    subst cc. pose proof (Hmin _ _ Hcc0) as Hle2.
    assert (c0 = c).
    { destruct (Z.lt_trichotomy c c0) as [Hlt|[Heq'|Hgt]]; [|symmetry; assumption|lia].
      apply Hmono in Hlt. lia. }
    subst c0. exact Hc'.
  Qed.

  Lemma out_bwd : forall v c s, In (phi v, c, s) out' -> In (v, s) nodes -> exists c0, c = phi c0 /\ In (v, c0, s) out.
  Proof.
    intros v c s Hv Hn. destruct (proj1 (out_recs _ _) Hn) as [c0 Hc0]. exists c0. split; [|assumption].
    pose proof (out_fwd _ _ _ Hc0) as H.
    assert (Heq : (phi v, c, s) = (phi v, phi c0, s)) by (apply nodup_key_unique with out'; auto using out_nodup').
    inversion Heq. reflexivity.
  Qed.
End Invariance.

(* ------------------------------------------------------------------ injective relabelling preserves the hypotheses *)
Lemma nodup_ids_relabel : forall (f : Z -> Z) nodes, (forall a b, f a = f b -> a = b) ->
  NoDup (map n_id nodes) -> NoDup (map n_id (map (fn f) nodes)).
Proof.
  intros f nodes Hinj H. replace (map n_id (map (fn f) nodes)) with (map f (map n_id nodes)) by (rewrite !map_map; reflexivity).
  apply FinFun.Injective_map_NoDup; [intros a b; apply Hinj|assumption].
Qed.

Lemma minmax_inj : forall (f : Z -> Z), (forall a b, f a = f b -> a = b) -> forall l1 r1 l2 r2,
  Z.min (f l1) (f r1) = Z.min (f l2) (f r2) -> Z.max (f l1) (f r1) = Z.max (f l2) (f r2) ->
  Z.min l1 r1 = Z.min l2 r2 /\ Z.max l1 r1 = Z.max l2 r2.
Proof.
  intros f Hinj l1 r1 l2 r2 Hmin Hmax.
  assert (H : (f l1 = f l2 /\ f r1 = f r2) \/ (f l1 = f r2 /\ f r1 = f l2)) by lia.
  destruct H as [[H1 H2]|[H1 H2]]; apply Hinj in H1; apply Hinj in H2; subst; lia.
Qed.

Lemma nodup_pairs_relabel : forall (f : Z -> Z) E, (forall a b, f a = f b -> a = b) ->
  nodup_pairs E -> nodup_pairs (map (fe f) E).
Proof.
  intros f E Hinj. unfold nodup_pairs. induction E as [|x t IH]; intros H; cbn [map]; [constructor|].
  inversion H as [|? ? Hx Ht]; subst. constructor; [|auto].
  rewrite Forall_forall in *. intros y Hy. apply in_map_iff in Hy. destruct Hy as [z [<- Hz]].
  intros (Hp & Hlo & Hhi). apply (Hx z Hz). split; [exact Hp|].
  unfold e_lo, e_hi, fe, e_l, e_r in *. cbn [fst snd] in *. apply (minmax_inj f Hinj); assumption.
Qed.

Lemma tie_free_relabel : forall (f : Z -> Z) E, tie_free E -> tie_free (map (fe f) E).
Proof.
  intros f E. unfold tie_free. induction E as [|x t IH]; intros H; cbn [map]; [constructor|].
  inversion H as [|? ? Hx Ht]; subst. constructor; [|auto].
  rewrite Forall_forall in *. intros y Hy. apply in_map_iff in Hy. destruct Hy as [z [<- Hz]]. apply (Hx z Hz).
Qed.

(* rank orders and relabelling *)
Lemma le_prob_relabel : forall f a b, le_prob (fe f a) (fe f b) = le_prob a b.
Proof. reflexivity. Qed.

Lemma le_tiebreak_relabel : forall f, (forall a b, a < b -> f a < f b) ->
  forall a b, le_tiebreak (fe f a) (fe f b) = le_tiebreak a b.
Proof.
  intros f Hm a b.
  assert (Hmin : forall x y, Z.min (f x) (f y) = f (Z.min x y)).
  { intros x y. destruct (Z.lt_trichotomy x y) as [H|[H|H]].
    - pose proof (Hm _ _ H). rewrite (Z.min_l x y), Z.min_l by lia. reflexivity.
    - subst. rewrite !Z.min_id. reflexivity.
    - pose proof (Hm _ _ H). rewrite (Z.min_r x y), Z.min_r by lia. reflexivity. }
  assert (Hmax : forall x y, Z.max (f x) (f y) = f (Z.max x y)).
  { intros x y. destruct (Z.lt_trichotomy x y) as [H|[H|H]].
    - pose proof (Hm _ _ H). rewrite (Z.max_r x y), Z.max_r by lia. reflexivity.
    - subst. rewrite !Z.max_id. reflexivity.
    - pose proof (Hm _ _ H). rewrite (Z.max_l x y), Z.max_l by lia. reflexivity. }
  assert (Hlt : forall x y, (f x <? f y) = (x <? y)).
  { intros x y. apply bool_iff_eq. rewrite !Z.ltb_lt. split; [|apply Hm].
    intros H. destruct (Z.lt_trichotomy x y) as [H1|[H1|H1]]; [assumption|subst; lia|apply Hm in H1; lia]. }
  assert (Heq : forall x y, (f x =? f y) = (x =? y)).
  { intros x y. apply bool_iff_eq. rewrite !Z.eqb_eq. split; [|intros ->; reflexivity].
    intros H. destruct (Z.lt_trichotomy x y) as [H1|[H1|H1]]; [apply Hm in H1; lia|assumption|apply Hm in H1; lia]. }
  assert (Hle : forall x y, (f x <=? f y) = (x <=? y)).
  { intros x y. apply bool_iff_eq. rewrite !Z.leb_le. split.
    - intros H. destruct (Z.lt_trichotomy y x) as [H1|[H1|H1]]; [apply Hm in H1; lia|lia|lia].
    - intros H. destruct (Z.eq_dec x y) as [->|Hne]; [lia|]. assert (x < y) by lia. apply Hm in H0. lia. }
  unfold le_tiebreak, e_lo, e_hi, fe, e_l, e_r, e_p. cbn [fst snd]. rewrite !Hmin, !Hmax, Hlt, Heq, Hle. reflexivity.
Qed.

(* ------------------------------------------------------------------ closed forms *)
Lemma map_fn_id : forall nodes, map (fn (fun x => x)) nodes = nodes.
Proof. intros. rewrite <- (map_id nodes) at 2. apply map_ext. intros [v s]. reflexivity. Qed.
Lemma map_fe_id : forall E, map (fe (fun x => x)) E = E.
Proof. intros. rewrite <- (map_id E) at 2. apply map_ext. intros [[l r] p]. reflexivity. Qed.

(* row order of both tables and the orientation of every edge row do not matter: the two runs
   return the same rows (same cluster id for every record) *)
Lemma perm_flip_invariant : forall le, rank_order le ->
  forall dfs thr nodes nodes' E E' (chl chr chl' chr' : chooser) fuel fuel' out out',
  NoDup (map n_id nodes) -> Permutation nodes nodes' -> eperm_flip E E' ->
  strict_rank le E -> strict_rank le E' ->
  rank1_ok_for le chl -> rank1_ok_for le chr -> rank1_ok_for le chl' -> rank1_ok_for le chr' ->
  oto_loop dfs (df_neighbours thr E) chl chr fuel 1 (df_representatives nodes) = Some out ->
  oto_loop dfs (df_neighbours thr E') chl' chr' fuel' 1 (df_representatives nodes') = Some out' ->
  forall v c s, In (v, c, s) out <-> In (v, c, s) out'.
Proof.
  intros le Hord dfs thr nodes nodes' E E' chl chr chl' chr' fuel fuel' out out' Hnd Hpn Hpe Hs Hs' Hl Hr Hl' Hr' Hrun Hrun'.
  assert (Hnd' : NoDup (map n_id nodes')) by (eapply Permutation_NoDup; [apply Permutation_map; exact Hpn|exact Hnd]).
  assert (Hcompat : forall a b, le (fe (fun x => x) a) (fe (fun x => x) b) = le a b).
  { intros [[l1 r1] p1] [[l2 r2] p2]. reflexivity. }
  intros v c s. split; intros H.
  - apply (out_fwd le Hord (fun x => x) (fun a b H => H) Hcompat dfs thr nodes nodes' E E' Hnd Hnd'
             ltac:(rewrite map_fn_id; exact Hpn) ltac:(rewrite map_fe_id; exact Hpe) Hs Hs'
             chl chr chl' chr' Hl Hr Hl' Hr' fuel fuel' out out' Hrun Hrun' v c s H).
  - apply (out_fwd le Hord (fun x => x) (fun a b H => H) Hcompat dfs thr nodes' nodes E' E Hnd' Hnd
             ltac:(rewrite map_fn_id; apply Permutation_sym; exact Hpn)
             ltac:(rewrite map_fe_id; apply Permutation_sym; exact Hpe) Hs' Hs
             chl' chr' chl chr Hl' Hr' Hl Hr fuel' fuel out' out Hrun' Hrun v c s H).
Qed.

(* strictly order-preserving relabelling of the record ids (plus row order / orientation):
   every record keeps its cluster, cluster ids are mapped by the relabelling *)
Lemma monotone_relabel_invariant : forall le, rank_order le -> forall phi,
  (forall a b, a < b -> phi a < phi b) -> (forall a b, le (fe phi a) (fe phi b) = le a b) ->
  forall dfs thr nodes nodes' E E' (chl chr chl' chr' : chooser) fuel fuel' out out',
  NoDup (map n_id nodes) -> NoDup (map n_id nodes') ->
  Permutation (map (fn phi) nodes) nodes' -> eperm_flip (map (fe phi) E) E' ->
  strict_rank le E -> strict_rank le E' ->
  rank1_ok_for le chl -> rank1_ok_for le chr -> rank1_ok_for le chl' -> rank1_ok_for le chr' ->
  oto_loop dfs (df_neighbours thr E) chl chr fuel 1 (df_representatives nodes) = Some out ->
  oto_loop dfs (df_neighbours thr E') chl' chr' fuel' 1 (df_representatives nodes') = Some out' ->
  forall v c s, In (v, c, s) out -> In (phi v, phi c, s) out'.
Proof.
  intros le Hord phi Hm Hc dfs thr nodes nodes' E E' chl chr chl' chr' fuel fuel' out out' Hnd Hnd' Hpn Hpe Hs Hs' Hl Hr Hl' Hr' Hrun Hrun'.
  apply (out_fwd le Hord phi Hm Hc dfs thr nodes nodes' E E' Hnd Hnd' Hpn Hpe Hs Hs' chl chr chl' chr' Hl Hr Hl' Hr' fuel fuel' out out' Hrun Hrun').
Qed.

(* ARBITRARY injective relabelling, order compatible with the relabelling (always the case for
   ORDER BY match_probability desc): the partition is preserved up to renaming; cluster ids are
   in general NOT mapped (they are the least member under the new order) *)
Lemma injective_relabel_partition : forall le, rank_order le -> forall phi,
  (forall a b, phi a = phi b -> a = b) -> (forall a b, le (fe phi a) (fe phi b) = le a b) ->
  forall dfs thr nodes nodes' E E' (chl chr chl' chr' : chooser) fuel fuel' out out',
  NoDup (map n_id nodes) -> NoDup (map n_id nodes') ->
  Permutation (map (fn phi) nodes) nodes' -> eperm_flip (map (fe phi) E) E' ->
  strict_rank le E -> strict_rank le E' ->
  rank1_ok_for le chl -> rank1_ok_for le chr -> rank1_ok_for le chl' -> rank1_ok_for le chr' ->
  oto_loop dfs (df_neighbours thr E) chl chr fuel 1 (df_representatives nodes) = Some out ->
  oto_loop dfs (df_neighbours thr E') chl' chr' fuel' 1 (df_representatives nodes') = Some out' ->
  forall v c s w d t c' d', In (v, c, s) out -> In (w, d, t) out ->
    In (phi v, c', s) out' -> In (phi w, d', t) out' -> (c = d <-> c' = d').
Proof.
  intros le Hord phi Hinj Hc dfs thr nodes nodes' E E' chl chr chl' chr' fuel fuel' out out' Hnd Hnd' Hpn Hpe Hs Hs' Hl Hr Hl' Hr' Hrun Hrun'
         v c s w d t c' d' Hv Hw Hv' Hw'.
  rewrite (refines_greedy_ranked le Hord dfs thr chl chr fuel nodes E out Hnd Hs Hl Hr Hrun v c s w d t Hv Hw).
  rewrite (refines_greedy_ranked le Hord dfs thr chl' chr' fuel' nodes' E' out' Hnd' Hs' Hl' Hr' Hrun' _ _ _ _ _ _ Hv' Hw').
  unfold greedy_clusters.
  assert (Hf : forall n, In n nodes -> In (fn phi n) nodes') by (intros n H; eapply Permutation_in; [exact Hpn|apply in_map; assumption]).
  assert (Hb : forall n', In n' nodes' -> exists n, In n nodes /\ n' = fn phi n).
  { intros n' H. apply (Permutation_in _ (Permutation_sym Hpn)) in H. apply in_map_iff in H. destruct H as [n [<- Hn]]. eauto. }
  apply (greedy_sim dfs nodes nodes' phi Hinj Hf Hb). apply sorted_lists_related; auto.
Qed.

(* converse of monotone_relabel_invariant: every row of the relabelled output is the image of a row *)
Lemma monotone_relabel_invariant_conv : forall le, rank_order le -> forall phi,
  (forall a b, a < b -> phi a < phi b) -> (forall a b, le (fe phi a) (fe phi b) = le a b) ->
  forall dfs thr nodes nodes' E E' (chl chr chl' chr' : chooser) fuel fuel' out out',
  NoDup (map n_id nodes) -> NoDup (map n_id nodes') ->
  Permutation (map (fn phi) nodes) nodes' -> eperm_flip (map (fe phi) E) E' ->
  strict_rank le E -> strict_rank le E' ->
  rank1_ok_for le chl -> rank1_ok_for le chr -> rank1_ok_for le chl' -> rank1_ok_for le chr' ->
  oto_loop dfs (df_neighbours thr E) chl chr fuel 1 (df_representatives nodes) = Some out ->
  oto_loop dfs (df_neighbours thr E') chl' chr' fuel' 1 (df_representatives nodes') = Some out' ->
  forall v' c' s, In (v', c', s) out' -> exists v c, v' = phi v /\ c' = phi c /\ In (v, c, s) out.
Proof.
  intros le Hord phi Hm Hc dfs thr nodes nodes' E E' chl chr chl' chr' fuel fuel' out out' Hnd Hnd' Hpn Hpe Hs Hs' Hl Hr Hl' Hr' Hrun Hrun' v' c' s Hin.
  assert (Hn' : In (v', s) nodes').
  { apply (out_recs' dfs thr nodes' E' Hnd' chl' chr' fuel' out' Hrun'). eauto. }
  apply (Permutation_in _ (Permutation_sym Hpn)) in Hn'. apply in_map_iff in Hn'. destruct Hn' as [[v s0] [Heq Hn]].
  unfold fn, n_id, n_sds in Heq. cbn [fst snd] in Heq. inversion Heq; subst v' s0.
  destruct (out_bwd le Hord phi Hm Hc dfs thr nodes nodes' E E' Hnd Hnd' Hpn Hpe Hs Hs' chl chr chl' chr' Hl Hr Hl' Hr' fuel fuel' out out' Hrun Hrun' v c' s Hin Hn)
    as [c0 [-> Hc0]].
  exists v, c0. auto.
Qed.
