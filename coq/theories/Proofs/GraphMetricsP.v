(* Lemmas about Model/GraphMetrics.v *)
From Coq Require Import List Bool ZArith QArith Lia Permutation Qfield.
From Splinkv Require Import Model.GraphMetrics.
Import ListNotations.
Open Scope Z_scope.

(* ------------------------------------------------------------------ generic *)
Lemma filter_flat_map : forall (A B : Type) (p : B -> bool) (f : A -> list B) l,
  filter p (flat_map f l) = flat_map (fun x => filter p (f x)) l.
Proof.
  induction l as [|x l IH]; simpl; [reflexivity|].
  induction (f x) as [|y t IHt]; simpl; [assumption|].
  destruct (p y); simpl; rewrite IHt; reflexivity.
Qed.

Lemma nodup_repeat_app : forall (A : Type) (dec : forall a b : A, {a = b} + {a <> b}) (x : A) n rest,
  ~ In x rest -> nodup dec (repeat x (S n) ++ rest) = x :: nodup dec rest.
Proof.
  induction n; intros rest Hn.
  - simpl. destruct (in_dec dec x rest); [contradiction|reflexivity].
  - change (nodup dec (repeat x (S (S n)) ++ rest))
      with (if in_dec dec x (repeat x (S n) ++ rest) then nodup dec (repeat x (S n) ++ rest)
            else x :: nodup dec (repeat x (S n) ++ rest)).
    destruct (in_dec dec x (repeat x (S n) ++ rest)) as [_|Hnot].
    + apply (IHn rest Hn).
    + exfalso. apply Hnot. left. reflexivity.
Qed.

Lemma nodup_blocks : forall (A : Type) (dec : forall a b : A, {a = b} + {a <> b}) (k : A -> nat) (l : list A),
  NoDup l -> nodup dec (flat_map (fun c => repeat c (S (k c))) l) = l.
Proof.
  induction l as [|c l IH]; intros Hnd; [reflexivity|].
  inversion Hnd as [|? ? Hnot Hnd']; subst. cbn [flat_map].
  rewrite nodup_repeat_app.
  - rewrite IH; auto.
  - intro Hin. apply in_flat_map in Hin. destruct Hin as [c' [Hc' Hr]].
    apply repeat_spec in Hr. subst. contradiction.
Qed.

Lemma NoDup_map_fst : forall (l : list (Z * Z)), NoDup (map fst l) -> NoDup l.
Proof.
  induction l as [|x l IH]; intros H; [constructor|]. inversion H; subst.
  constructor; [|auto]. intro Hin. apply H2. apply in_map. assumption.
Qed.

(* ------------------------------------------------------------------ node degree table *)
Definition matches (AN : list (Z * Z)) (c : crow) : list (Z * Z) := filter (fun n => fst c =? fst n) AN.
Definition block (AN : list (Z * Z)) (c : crow) : list (Z * Z * option Z) :=
  match matches AN c with
  | [] => [(fst c, snd c, None)]
  | m => map (fun n => (fst c, snd c, Some (snd n))) m
  end.

Lemma left_join_blocks : forall C AN, left_join_nodes C AN = flat_map (block AN) C.
Proof. reflexivity. Qed.

Lemma keys_of_matches : forall (u k : Z) (l : list (Z * Z)),
  map (fun r : Z * Z * option Z => (fst (fst r), snd (fst r))) (map (fun n : Z * Z => (u, k, Some (snd n))) l)
  = repeat (u, k) (length l).
Proof. induction l; simpl; [reflexivity|]. f_equal. assumption. Qed.

Lemma block_keys : forall AN c,
  map (fun r : Z * Z * option Z => (fst (fst r), snd (fst r))) (block AN c)
  = repeat c (S (pred (length (matches AN c)))).
Proof.
  intros AN [u k]. unfold block. cbn [fst snd]. destruct (matches AN (u, k)) as [|n m]; [reflexivity|].
  rewrite keys_of_matches. reflexivity.
Qed.

Lemma join_keys : forall C AN,
  NoDup C ->
  nodup pairZ_dec (map (fun r : Z * Z * option Z => (fst (fst r), snd (fst r))) (left_join_nodes C AN)) = C.
Proof.
  intros C AN Hnd. rewrite left_join_blocks.
  assert (H : map (fun r : Z * Z * option Z => (fst (fst r), snd (fst r))) (flat_map (block AN) C)
              = flat_map (fun c => repeat c (S (pred (length (matches AN c))))) C).
  { induction C as [|c C IH]; [reflexivity|]. simpl. rewrite map_app, block_keys.
    inversion Hnd; subst. rewrite IH by assumption. reflexivity. }
  rewrite H. apply nodup_blocks. assumption.
Qed.

Definition pk (k : Z * Z) (r : Z * Z * option Z) : bool :=
  (fst (fst r) =? fst k) && (snd (fst r) =? snd k) && is_some (snd r).

Lemma pk_self : forall u k o, pk (u, k) (u, k, o) = is_some o.
Proof. intros. unfold pk. cbn [fst snd]. rewrite !Z.eqb_refl. reflexivity. Qed.

Lemma pk_other : forall u x k o, u <> fst k -> pk k (u, x, o) = false.
Proof. intros. unfold pk. cbn [fst snd]. apply Z.eqb_neq in H. rewrite H. reflexivity. Qed.

Lemma block_count_self : forall AN c, length (filter (pk c) (block AN c)) = length (matches AN c).
Proof.
  intros AN [u k]. unfold block. cbn [fst snd]. destruct (matches AN (u, k)) as [|n m] eqn:E.
  - cbn [filter]. rewrite pk_self. reflexivity.
  - remember (n :: m) as l. clear. induction l as [|x l IH]; [reflexivity|].
    cbn [map filter]. rewrite pk_self. cbn [is_some length]. rewrite IH. reflexivity.
Qed.

Lemma block_count_other : forall AN c k, fst c <> fst k -> filter (pk k) (block AN c) = [].
Proof.
  intros AN [u x] k Hne. cbn [fst] in Hne. unfold block. cbn [fst snd].
  destruct (matches AN (u, x)) as [|n m].
  - cbn [filter]. rewrite pk_other by assumption. reflexivity.
  - remember (n :: m) as l. clear - Hne. induction l as [|y l IH]; [reflexivity|].
    cbn [map filter]. rewrite pk_other by assumption. assumption.
Qed.

Lemma join_count : forall AN C c,
  NoDup (map fst C) -> In c C ->
  length (filter (pk c) (flat_map (block AN) C)) = length (matches AN c).
Proof.
  induction C as [|x C IH]; intros c Hnd Hin; [contradiction|].
  inversion Hnd as [|? ? Hnot Hnd']; subst. simpl. rewrite filter_app, app_length.
  destruct Hin as [->|Hin].
  - rewrite block_count_self.
    assert (Hz : filter (pk c) (flat_map (block AN) C) = []).
    { rewrite filter_flat_map. clear IH Hnd Hnd'. induction C as [|y C IHC]; [reflexivity|]. simpl.
      rewrite block_count_other.
      - apply IHC. intro H. apply Hnot. right. assumption.
      - intro H. apply Hnot. left. assumption. }
    rewrite Hz. simpl. lia.
  - rewrite block_count_other; [simpl; apply IH; assumption|].
    intro H. apply Hnot. rewrite H. apply in_map. assumption.
Qed.

Lemma matches_incidence : forall TE c,
  Z.of_nat (length (matches (all_nodes TE) c)) = incidence TE (fst c).
Proof.
  intros TE c. unfold matches, all_nodes, incidence. rewrite filter_app, app_length, Nat2Z.inj_add.
  f_equal; f_equal.
  - induction TE as [|e t IH]; simpl; [reflexivity|]. rewrite (Z.eqb_sym (fst c)).
    destruct (pe_l e =? fst c); simpl; rewrite IH; reflexivity.
  - induction TE as [|e t IH]; simpl; [reflexivity|]. rewrite (Z.eqb_sym (fst c)).
    destruct (pe_r e =? fst c); simpl; rewrite IH; reflexivity.
Qed.

Definition size_in (C : list crow) (c : Z) : Z := Z.of_nat (length (filter (fun k' : crow => snd k' =? c) C)).

Lemma node_degree_table_spec : forall C TE,
  NoDup (map fst C) ->
  node_degree_table C TE
  = map (fun c => (fst c, snd c, incidence TE (fst c), size_in C (snd c))) C.
Proof.
  intros C TE Hnd. unfold node_degree_table. rewrite join_keys by (apply NoDup_map_fst; assumption).
  apply map_ext_in. intros c Hc. f_equal. f_equal.
  change (Z.of_nat (length (filter (pk c) (left_join_nodes C (all_nodes TE)))) = incidence TE (fst c)).
  rewrite left_join_blocks, join_count by assumption. apply matches_incidence.
Qed.

Lemma graph_metrics_nodes_spec : forall C TE,
  NoDup (map fst C) ->
  graph_metrics_nodes C TE
  = map (fun c => (fst c, snd c, incidence TE (fst c),
                   node_centrality (incidence TE (fst c)) (size_in C (snd c)))) C.
Proof.
  intros. unfold graph_metrics_nodes. rewrite node_degree_table_spec by assumption.
  rewrite map_map. reflexivity.
Qed.

(* ------------------------------------------------------------------ handshake *)
Lemma sum_indicator : forall (M : list Z) x,
  NoDup M -> sumZ (map (fun v => if x =? v then 1 else 0) M) = if memb M x then 1 else 0.
Proof.
  induction M as [|v M IH]; intros x Hnd; [reflexivity|]. inversion Hnd as [|? ? Hnot Hnd']; subst.
  simpl. rewrite IH by assumption. destruct (x =? v) eqn:E; simpl; [|reflexivity].
  apply Z.eqb_eq in E. subst. destruct (memb M v) eqn:Em; [|reflexivity].
  exfalso. apply Hnot. unfold memb in Em. apply existsb_exists in Em. destruct Em as [y [Hy Heq]].
  apply Z.eqb_eq in Heq. subst. assumption.
Qed.

Lemma sumZ_map_add : forall (A : Type) (f g : A -> Z) l,
  sumZ (map (fun x => f x + g x) l) = sumZ (map f l) + sumZ (map g l).
Proof. induction l; simpl; lia. Qed.

Lemma len_if_cons0 : forall (A : Type) (b : bool) (x : A) l,
  Z.of_nat (length (if b then x :: l else l)) = Z.of_nat (length l) + (if b then 1 else 0).
Proof. intros. destruct b; cbn [length]; lia. Qed.

Lemma incidence_cons : forall e TE v,
  incidence (e :: TE) v = incidence TE v + (if pe_l e =? v then 1 else 0) + (if pe_r e =? v then 1 else 0).
Proof.
  intros. unfold incidence. cbn [filter]. rewrite !len_if_cons0. lia.
Qed.

Lemma len_if_cons : forall (A : Type) (b : bool) (x : A) l,
  Z.of_nat (length (if b then x :: l else l)) = Z.of_nat (length l) + (if b then 1 else 0).
Proof. intros. destruct b; cbn [length]; lia. Qed.

Lemma inside_cons : forall M e TE,
  inside M (e :: TE) = inside M TE + (if memb M (pe_l e) && memb M (pe_r e) then 1 else 0).
Proof. intros. unfold inside. cbn [filter]. apply len_if_cons. Qed.

Lemma crossing_cons : forall M e TE,
  crossing M (e :: TE) = crossing M TE + (if xorb (memb M (pe_l e)) (memb M (pe_r e)) then 1 else 0).
Proof. intros. unfold crossing. cbn [filter]. apply len_if_cons. Qed.

Lemma handshake : forall (M : list Z) TE,
  NoDup M -> sumZ (map (incidence TE) M) = 2 * inside M TE + crossing M TE.
Proof.
  intros M TE Hnd. induction TE as [|e TE IH].
  - assert (H0 : forall v, incidence [] v = 0) by reflexivity. rewrite (map_ext _ _ H0).
    change (2 * inside M [] + crossing M []) with 0. clear. induction M; [reflexivity|].
    cbn [map]. unfold sumZ in *. cbn [fold_right]. rewrite IHM. reflexivity.
  - rewrite (map_ext _ _ (incidence_cons e TE)).
    rewrite (sumZ_map_add _ (fun v => incidence TE v + (if pe_l e =? v then 1 else 0))).
    rewrite (sumZ_map_add _ (incidence TE)). rewrite IH, !sum_indicator by assumption.
    rewrite inside_cons, crossing_cons.
    destruct (memb M (pe_l e)), (memb M (pe_r e)); cbn [andb xorb]; lia.
Qed.

(* ------------------------------------------------------------------ clusters table *)
Lemma cluster_degs_gen : forall TE c (g : crow -> Q) (L : list crow),
  map nm_deg (filter (fun r => nm_cid r =? c) (map (fun x => (fst x, snd x, incidence TE (fst x), g x)) L))
  = map (incidence TE) (map fst (filter (fun r : crow => snd r =? c) L)).
Proof.
  induction L as [|x L IH]; [reflexivity|]. cbn [map filter]. unfold nm_cid at 1. cbn [fst snd].
  destruct (snd x =? c); cbn [map]; rewrite IH; reflexivity.
Qed.

Lemma cluster_degs : forall C TE c,
  NoDup (map fst C) ->
  map nm_deg (filter (fun r => nm_cid r =? c) (graph_metrics_nodes C TE))
  = map (incidence TE) (cluster_members C c).
Proof.
  intros C TE c Hnd. rewrite graph_metrics_nodes_spec by assumption. unfold cluster_members.
  apply cluster_degs_gen.
Qed.

Lemma cluster_members_nodup : forall C c, NoDup (map fst C) -> NoDup (cluster_members C c).
Proof.
  intros C c. unfold cluster_members. induction C as [|x C IH]; intros H; [constructor|].
  inversion H as [|? ? Hnot Hnd]; subst. simpl. destruct (snd x =? c); simpl; [|auto].
  constructor; [|auto]. intro Hin. apply Hnot. apply in_map_iff in Hin. destruct Hin as [y [Hy Hf]].
  apply filter_In in Hf. rewrite <- Hy. apply in_map. tauto.
Qed.

Lemma clusters_in : forall C TE r,
  NoDup (map fst C) ->
  In r (graph_metrics_clusters (graph_metrics_nodes C TE)) <->
  exists c, In c (map snd C) /\
    let degs := map (incidence TE) (cluster_members C c) in
    let n := Z.of_nat (length degs) in
    r = {| cl_cid := c; cl_n_nodes := n; cl_n_edges := n_edges_of (sumZ degs);
           cl_density := density_of n (n_edges_of (sumZ degs));
           cl_centralisation := centralisation_of n (maxZ degs) (sumZ degs) |}.
Proof.
  intros C TE r Hnd. unfold graph_metrics_clusters. rewrite in_map_iff.
  assert (Hcids : map nm_cid (graph_metrics_nodes C TE) = map snd C).
  { rewrite graph_metrics_nodes_spec by assumption. rewrite map_map. reflexivity. }
  split.
  - intros [c [Hr Hc]]. apply nodup_In in Hc. rewrite Hcids in Hc. exists c. split; [assumption|].
    rewrite cluster_degs in Hr by assumption. symmetry. exact Hr.
  - intros [c [Hc Hr]]. exists c. split.
    + rewrite cluster_degs by assumption. symmetry. exact Hr.
    + apply nodup_In. rewrite Hcids. assumption.
Qed.

Lemma clusters_cids_nodup : forall NM, NoDup (map cl_cid (graph_metrics_clusters NM)).
Proof.
  intros. unfold graph_metrics_clusters. rewrite map_map. simpl. rewrite map_id. apply NoDup_nodup.
Qed.

(* ------------------------------------------------------------------ formulae *)
Lemma fold_max_ge_acc : forall t a, a <= fold_right Z.max a t.
Proof. induction t; intros; cbn [fold_right]; [lia|]. specialize (IHt a0). lia. Qed.

Lemma fold_max_ge_in : forall t a x, In x t -> x <= fold_right Z.max a t.
Proof.
  induction t; intros a0 x H; [contradiction|]. cbn [fold_right]. destruct H as [->|H]; [lia|].
  specialize (IHt a0 x H). lia.
Qed.

Lemma maxZ_ge : forall l x, In x l -> x <= maxZ l.
Proof.
  destruct l as [|y t]; [contradiction|]. intros x [->|H]; cbn [maxZ].
  - apply fold_max_ge_acc.
  - apply fold_max_ge_in. assumption.
Qed.

Lemma fold_max_in : forall t a, fold_right Z.max a t = a \/ In (fold_right Z.max a t) t.
Proof.
  induction t; intros a0; cbn [fold_right]; [left; reflexivity|].
  destruct (IHt a0) as [H|H]; destruct (Z.max_spec a (fold_right Z.max a0 t)) as [[_ E]|[_ E]]; rewrite E.
  - left. exact H.
  - right. left. reflexivity.
  - right. right. exact H.
  - right. left. reflexivity.
Qed.

Lemma maxZ_in : forall l, l <> [] -> In (maxZ l) l.
Proof.
  destruct l as [|y t]; [congruence|]. intros _. cbn [maxZ].
  destruct (fold_max_in t y) as [->|H]; [left; reflexivity|right; exact H].
Qed.

Lemma sum_deviation : forall mx l,
  sumZ (map (fun d => mx - d) l) = Z.of_nat (length l) * mx - sumZ l.
Proof.
  induction l; [reflexivity|]. cbn [map length]. rewrite Nat2Z.inj_succ. unfold sumZ in *. cbn [fold_right].
  rewrite IHl. lia.
Qed.

Lemma density_formula : forall n (ne : Q),
  (1 < n -> exists d, density_of n ne = Some d /\ (d == ne / (inject_Z (n * (n - 1))%Z / 2))%Q) /\
  (n <= 1 -> density_of n ne = None).
Proof.
  intros n ne. unfold density_of. split; intros H.
  - assert (E : (1 <? n) = true) by (apply Z.ltb_lt; assumption). rewrite E. eexists. split; [reflexivity|].
    assert (Hnz : ~ (inject_Z (n * (n - 1)) == 0)%Q).
    { unfold Qeq, inject_Z. simpl. nia. }
    field; repeat split; try assumption; try discriminate.
  - assert (E : (1 <? n) = false) by (apply Z.ltb_ge; assumption). rewrite E. reflexivity.
Qed.

Lemma centralisation_formula : forall (degs : list Z),
  let n := Z.of_nat (length degs) in
  (2 < n -> exists z, centralisation_of n (maxZ degs) (sumZ degs) = Some z /\
      (z == inject_Z (sumZ (map (fun d => (maxZ degs - d)%Z) degs)) / inject_Z ((n - 1) * (n - 2))%Z)%Q) /\
  (n <= 2 -> centralisation_of n (maxZ degs) (sumZ degs) = None).
Proof.
  intros degs n. unfold centralisation_of. split; intros H.
  - assert (E : (2 <? n) = true) by (apply Z.ltb_lt; assumption). rewrite E. eexists. split; [reflexivity|].
    rewrite sum_deviation. reflexivity.
  - assert (E : (2 <? n) = false) by (apply Z.ltb_ge; assumption). rewrite E. reflexivity.
Qed.

Lemma node_centrality_formula : forall deg size,
  (1 < size -> node_centrality deg size = (inject_Z deg / inject_Z (size - 1)%Z)%Q) /\
  (size <= 1 -> node_centrality deg size = 0%Q).
Proof.
  intros. unfold node_centrality. split; intros H.
  - assert (E : (1 <? size) = true) by (apply Z.ltb_lt; assumption). rewrite E. reflexivity.
  - assert (E : (1 <? size) = false) by (apply Z.ltb_ge; assumption). rewrite E. reflexivity.
Qed.

Lemma n_edges_handshake : forall M TE,
  NoDup M -> crossing M TE = 0 ->
  (n_edges_of (sumZ (map (incidence TE) M)) == inject_Z (inside M TE))%Q.
Proof.
  intros M TE Hnd Hc. rewrite handshake by assumption. rewrite Hc. unfold n_edges_of.
  rewrite Z.add_0_r, inject_Z_mult. field.
Qed.

(* ------------------------------------------------------------------ edges table *)
Lemma edges_rows : forall TE, map (fun r : Z * Z * bool => fst r) (graph_metrics_edges TE) = ends TE.
Proof.
  intros. unfold graph_metrics_edges, ends. rewrite map_map. simpl.
  assert (H : forall k, map (fun x : nat * pedge => (pe_l (snd x), pe_r (snd x))) (combine (seq k (length TE)) TE)
                        = map (fun e => (pe_l e, pe_r e)) TE).
  { induction TE as [|e t IH]; intros k; [reflexivity|]. simpl. rewrite IH. reflexivity. }
  apply H.
Qed.

(* ------------------------------------------------------------------ reachability and bridges *)
Lemma adj_in : forall E v w, In w (adj E v) <-> uedge E v w.
Proof.
  intros E v w. unfold adj, uedge. rewrite in_flat_map. split.
  - intros [[a b] [He Hin]]. cbn [fst snd] in Hin. apply in_app_or in Hin. destruct Hin as [Hin|Hin].
    + destruct (a =? v) eqn:Ea; [|contradiction]. apply Z.eqb_eq in Ea. destruct Hin as [<-|[]]. subst. left. assumption.
    + destruct (b =? v) eqn:Eb; [|contradiction]. apply Z.eqb_eq in Eb. destruct Hin as [<-|[]]. subst. right. assumption.
  - intros [H|H].
    + exists (v, w). split; [assumption|]. cbn [fst snd]. rewrite Z.eqb_refl. apply in_or_app. left. left. reflexivity.
    + exists (w, v). split; [assumption|]. cbn [fst snd]. rewrite Z.eqb_refl. apply in_or_app. right. left. reflexivity.
Qed.

Lemma expand_in : forall E S x,
  In x (expand E S) <-> In x S \/ exists v, In v S /\ uedge E v x.
Proof.
  intros. unfold expand. rewrite nodup_In, in_app_iff, in_flat_map. split.
  - intros [H|[v [Hv H]]]; [left; assumption|right]. exists v. split; [assumption|]. apply adj_in. assumption.
  - intros [H|[v [Hv H]]]; [left; assumption|right]. exists v. split; [assumption|]. apply adj_in. assumption.
Qed.

Lemma conn_snoc : forall E s v x, conn E s v -> uedge E v x -> conn E s x.
Proof.
  intros E s v x H. induction H as [v|v w u Hvw Hwu IH]; intros Hx.
  - apply conn_step with x; [assumption|apply conn_refl].
  - apply conn_step with w; [assumption|]. apply IH. assumption.
Qed.

Lemma closure_sound : forall E s fuel S x,
  (forall y, In y S -> conn E s y) -> In x (closure E fuel S) -> conn E s x.
Proof.
  induction fuel; intros S x HS Hx; cbn [closure] in Hx; [apply HS; assumption|].
  apply IHfuel with (expand E S); [|assumption]. intros y Hy. apply expand_in in Hy.
  destruct Hy as [Hy|[v [Hv Hvy]]]; [apply HS; assumption|]. apply conn_snoc with v; [apply HS; assumption|assumption].
Qed.

Lemma closure_mono : forall E fuel S x, In x S -> In x (closure E fuel S).
Proof.
  induction fuel; intros S x H; cbn [closure]; [assumption|]. apply IHfuel. apply expand_in. left. assumption.
Qed.

Definition closed (E : list (Z * Z)) (S : list Z) : Prop := forall v w, In v S -> uedge E v w -> In w S.
Definition closedb (E : list (Z * Z)) (S : list Z) : bool := forallb (memb S) (flat_map (adj E) S).

Lemma memb_in : forall l x, memb l x = true <-> In x l.
Proof.
  intros. unfold memb. rewrite existsb_exists. split.
  - intros [y [Hy H]]. apply Z.eqb_eq in H. subst. assumption.
  - intros H. exists x. split; [assumption|apply Z.eqb_refl].
Qed.

Lemma closedb_true : forall E S, closedb E S = true -> closed E S.
Proof.
  intros E S H v w Hv Hvw. unfold closedb in H. rewrite forallb_forall in H. apply memb_in. apply H.
  apply in_flat_map. exists v. split; [assumption|]. apply adj_in. assumption.
Qed.

Lemma closedb_false : forall E S, closedb E S = false -> exists x, In x (expand E S) /\ ~ In x S.
Proof.
  intros E S H. unfold closedb in H.
  assert (Hex : exists x, In x (flat_map (adj E) S) /\ memb S x = false).
  { induction (flat_map (adj E) S) as [|y l IH]; [discriminate|]. cbn [forallb] in H.
    destruct (memb S y) eqn:Ey.
    - cbn [andb] in H. destruct (IH H) as [x [Hx Hm]]. exists x. split; [right; assumption|assumption].
    - exists y. split; [left; reflexivity|assumption]. }
  destruct Hex as [x [Hx Hm]]. exists x. split.
  - unfold expand. apply nodup_In. apply in_or_app. right. assumption.
  - intro Hin. apply memb_in in Hin. congruence.
Qed.

Lemma closed_expand : forall E S, closed E S -> closed E (expand E S).
Proof.
  intros E S Hc v w Hv Hvw. apply expand_in. left. apply expand_in in Hv.
  destruct Hv as [Hv|[u [Hu Huv]]].
  - apply Hc with v; assumption.
  - apply Hc with v; [|assumption]. apply Hc with u; assumption.
Qed.

Lemma closed_closure : forall E fuel S, closed E S -> closed E (closure E fuel S).
Proof.
  induction fuel; intros S H; cbn [closure]; [assumption|]. apply IHfuel. apply closed_expand. assumption.
Qed.

Lemma closed_complete : forall E S s t, closed E S -> In s S -> conn E s t -> In t S.
Proof.
  intros E S s t Hc Hs H. induction H as [v|v w u Hvw Hwu IH]; [assumption|].
  apply IH. apply Hc with v; assumption.
Qed.

Lemma expand_nodup : forall E S, NoDup (expand E S).
Proof. intros. unfold expand. apply NoDup_nodup. Qed.

Lemma expand_grows : forall E S, NoDup S -> closedb E S = false -> (length S < length (expand E S))%nat.
Proof.
  intros E S Hnd H. destruct (closedb_false _ _ H) as [x [Hx Hnx]].
  assert (Hle : (length (x :: S) <= length (expand E S))%nat).
  { apply NoDup_incl_length; [constructor; assumption|].
    intros y [<-|Hy]; [assumption|]. apply expand_in. left. assumption. }
  cbn [length] in Hle. lia.
Qed.

Lemma closure_closed_or_big : forall E fuel S,
  NoDup S -> closed E (closure E fuel S) \/ (length S + fuel <= length (closure E fuel S))%nat.
Proof.
  induction fuel; intros S Hnd; cbn [closure]; [right; lia|].
  destruct (closedb E S) eqn:Hc.
  - left. apply closed_closure. apply closed_expand. apply closedb_true. assumption.
  - pose proof (expand_grows _ _ Hnd Hc) as Hg.
    destruct (IHfuel (expand E S) (expand_nodup E S)) as [H|H]; [left; assumption|right; lia].
Qed.

Definition verts (E : list (Z * Z)) (s : Z) : list Z := s :: flat_map (fun e => [fst e; snd e]) E.

Lemma verts_length : forall E s, length (verts E s) = S (2 * length E).
Proof.
  intros. unfold verts. cbn [length]. f_equal. induction E; [reflexivity|]. cbn [flat_map app length]. rewrite IHE. lia.
Qed.

Lemma uedge_verts : forall E s v w, uedge E v w -> In w (verts E s).
Proof.
  intros E s v w [H|H]; right; apply in_flat_map.
  - exists (v, w). split; [assumption|]. right. left. reflexivity.
  - exists (w, v). split; [assumption|]. left. reflexivity.
Qed.

Lemma closure_incl_verts : forall E s fuel S, incl S (verts E s) -> incl (closure E fuel S) (verts E s).
Proof.
  induction fuel; intros S H; cbn [closure]; [assumption|]. apply IHfuel. intros x Hx.
  apply expand_in in Hx. destruct Hx as [Hx|[v [_ Hvx]]]; [apply H; assumption|]. apply uedge_verts with v. assumption.
Qed.

Lemma closure_nodup : forall E fuel S, NoDup S -> NoDup (closure E fuel S).
Proof.
  induction fuel; intros S H; cbn [closure]; [assumption|]. apply IHfuel. apply expand_nodup.
Qed.

Lemma closure_full_closed : forall E s, closed E (closure E (S (2 * length E)) [s]).
Proof.
  intros E s. assert (Hnd : NoDup [s]) by (constructor; [intros []|constructor]).
  destruct (closure_closed_or_big E (S (2 * length E)) [s] Hnd) as [H|H]; [assumption|exfalso].
  assert (Hle : (length (closure E (S (2 * length E)) [s]) <= length (verts E s))%nat).
  { apply NoDup_incl_length; [apply closure_nodup; assumption|].
    apply closure_incl_verts. intros x [<-|[]]. left. reflexivity. }
  rewrite verts_length in Hle. cbn [length] in H. lia.
Qed.

Lemma reach_b_correct : forall E s t, reach_b E s t = true <-> conn E s t.
Proof.
  intros E s t. unfold reach_b. rewrite existsb_exists. split.
  - intros [x [Hx Heq]]. apply Z.eqb_eq in Heq. subst x.
    apply closure_sound with (S (2 * length E)) [s]; [|assumption]. intros y [<-|[]]. apply conn_refl.
  - intros H. exists t. split; [|apply Z.eqb_refl].
    apply closed_complete with E s; [apply closure_full_closed| |assumption].
    apply closure_mono. left. reflexivity.
Qed.

Lemma is_bridge_b_correct : forall TE i, is_bridge_b TE i = true <-> bridge TE i.
Proof.
  intros TE i. unfold is_bridge_b, bridge. destruct (nth_error (ends TE) i) as [[l r]|].
  - rewrite negb_true_iff. split.
    + intros H. exists l, r. split; [reflexivity|]. intro Hc. apply reach_b_correct in Hc. congruence.
    + intros [l' [r' [Heq Hn]]]. inversion Heq; subst. apply not_true_is_false. intro Hr.
      apply Hn. apply reach_b_correct. assumption.
  - split; [discriminate|]. intros [l [r [H _]]]. discriminate.
Qed.
