(* Proofs about Model/MultiThr.v: every (threshold, clusters) entry produced by the incremental
   multi-threshold routine is the component-minimum labelling of the graph thresholded at that
   threshold; summary statistics are those of that partition. *)
From Coq Require Import ZArith List Bool Lia QArith Permutation Arith Lqa.
From Splinkv Require Import Base.Graph Model.CC Proofs.CCP Model.MultiThr.
Import ListNotations.
Open Scope Z_scope.

(* ------------------------------------------------------------------------------------ *)
(* sorting *)
Lemma insertQ_in x y l : In y (insertQ x l) <-> y = x \/ In y l.
Proof.
  induction l as [|a t IH]; cbn; [intuition|].
  destruct (Qle_bool x a); cbn; [intuition|]. rewrite IH. intuition.
Qed.

Lemma sortQ_in y l : In y (sortQ l) <-> In y l.
Proof.
  induction l as [|a t IH]; cbn; [tauto|]. rewrite insertQ_in, IH. intuition.
Qed.

Inductive sortedQ : list Q -> Prop :=
| sQ_nil : sortedQ []
| sQ_one x : sortedQ [x]
| sQ_cons x y l : (x <= y)%Q -> sortedQ (y :: l) -> sortedQ (x :: y :: l).

Lemma insertQ_sorted x l : sortedQ l -> sortedQ (insertQ x l).
Proof.
  induction 1 as [|a|a b l Hab Hs IH]; cbn.
  - constructor.
  - destruct (Qle_bool x a) eqn:E.
    + constructor; [now apply Qle_bool_iff|constructor].
    + constructor; [|constructor]. apply Qlt_le_weak. apply Qnot_le_lt. rewrite <- Qle_bool_iff. congruence.
  - destruct (Qle_bool x a) eqn:E.
    + constructor; [now apply Qle_bool_iff|]. now constructor.
    + cbn in IH. destruct (Qle_bool x b) eqn:E2.
      * constructor; [|exact IH]. apply Qlt_le_weak. apply Qnot_le_lt. rewrite <- Qle_bool_iff. congruence.
      * constructor; [exact Hab|exact IH].
Qed.

Lemma sortQ_sorted l : sortedQ (sortQ l).
Proof. induction l; cbn; [constructor|now apply insertQ_sorted]. Qed.

(* ------------------------------------------------------------------------------------ *)
(* min over nullable probabilities *)
Lemma Qmin'_le t a b : (t <= Qmin' a b)%Q <-> (t <= a)%Q /\ (t <= b)%Q.
Proof.
  unfold Qmin'. destruct (Qle_bool a b) eqn:E.
  - apply Qle_bool_iff in E. split; [|tauto]. intros H; split; [exact H|]. eapply Qle_trans; eauto.
  - assert (b < a)%Q by (apply Qnot_le_lt; rewrite <- Qle_bool_iff; congruence).
    split; [|tauto]. intros H'; split; [|exact H']. eapply Qle_trans; [exact H'|]. now apply Qlt_le_weak.
Qed.

Lemma min_opt_none l : min_opt l = None <-> forall p, ~ In (Some p) l.
Proof.
  induction l as [|[q|] l IH]; cbn [min_opt In].
  - split; [tauto|reflexivity].
  - split.
    + destruct (min_opt l); discriminate.
    + intros H. exfalso. apply (H q). now left.
  - rewrite IH. split; intros H p.
    + intros [Hp|Hp]; [discriminate|now apply (H p)].
    + intros Hp. apply (H p). now right.
Qed.

Lemma min_opt_some_ge t l : forall m, min_opt l = Some m ->
  ((t <= m)%Q <-> forall p, In (Some p) l -> (t <= p)%Q).
Proof.
  induction l as [|[q|] l IH]; cbn [min_opt In]; intros m Hm.
  - discriminate.
  - destruct (min_opt l) as [m0|] eqn:E.
    + injection Hm as <-. rewrite Qmin'_le, (IH m0 eq_refl). split.
      * intros [Hq Hall] p [Hp|Hp]; [injection Hp as <-; exact Hq|now apply Hall].
      * intros Hall. split; [apply Hall; now left|intros p Hp; apply Hall; now right].
    + injection Hm as <-. pose proof (proj1 (min_opt_none l) E) as Hn. split.
      * intros Hq p [Hp|Hp]; [injection Hp as <-; exact Hq|exfalso; now apply (Hn p)].
      * intros Hall. apply Hall. now left.
  - rewrite (IH m Hm). split; intros H p Hp.
    + destruct Hp as [Hp|Hp]; [discriminate|now apply H].
    + apply H. now right.
Qed.

Lemma min_opt_ge t' l :
  (t' <= 1)%Q ->
  (Qle_bool t' (match min_opt l with Some m => m | None => 1%Q end) = true <->
   forall p, In (Some p) l -> (t' <= p)%Q).
Proof.
  intros H1. rewrite Qle_bool_iff. destruct (min_opt l) as [m|] eqn:E.
  - now apply min_opt_some_ge.
  - pose proof (proj1 (min_opt_none l) E) as Hn. split; [|auto].
    intros _ p Hp. exfalso. now apply (Hn p).
Qed.

Lemma min_opt_ge_imp t' l :
  Qle_bool t' (match min_opt l with Some m => m | None => 1%Q end) = true ->
  forall p, In (Some p) l -> (t' <= p)%Q.
Proof.
  intros H. apply Qle_bool_iff in H. destruct (min_opt l) as [m|] eqn:E.
  - now apply (min_opt_some_ge t' l m E).
  - intros p Hp. exfalso. now apply (proj1 (min_opt_none l) E p).
Qed.

(* ------------------------------------------------------------------------------------ *)
(* the CTEs *)
Lemma left_join_probs_some side cc rel cid p :
  In (cid, Some p) (left_join_probs side cc rel) <->
  exists c e, In c cc /\ In e rel /\ fst c = side e /\ cid = snd c /\ p = snd e.
Proof.
  unfold left_join_probs. rewrite in_flat_map. split.
  - intros [c [Hc H]]. destruct (filter (fun e => fst c =? side e) rel) as [|e0 l] eqn:F.
    + destruct H as [H|[]]. discriminate.
    + rewrite <- F in H. apply in_map_iff in H. destruct H as [e [Eq He]]. injection Eq as E1 E2.
      apply filter_In in He. destruct He as [He Hs]. apply Z.eqb_eq in Hs. exists c, e. auto.
  - intros (c & e & Hc & He & Hs & -> & ->). exists c. split; [exact Hc|].
    assert (In e (filter (fun e => fst c =? side e) rel)) as Hin.
    { apply filter_In. split; [exact He|]. now apply Z.eqb_eq. }
    destruct (filter (fun e => fst c =? side e) rel) as [|e0 l] eqn:F; [destruct Hin|].
    apply in_map_iff. exists e. split; [reflexivity|exact Hin].
Qed.

Lemma group_probs_in cid cep x : In x (group_probs cid cep) <-> In (cid, x) cep.
Proof.
  unfold group_probs. rewrite in_map_iff. split.
  - intros [[c y] [Eq H]]. cbn in Eq. subst y. apply filter_In in H. destruct H as [H E].
    cbn in E. apply Z.eqb_eq in E. now subst.
  - intros H. exists (cid, x). split; [reflexivity|]. apply filter_In. split; [exact H|]. cbn. apply Z.eqb_refl.
Qed.

Lemma relevant_edges_in t edges a b p :
  In (a, b, p) (relevant_edges t edges) <-> In (a, b, p) edges /\ (t <= p)%Q.
Proof. unfold relevant_edges. rewrite filter_In. cbn. now rewrite Qle_bool_iff. Qed.

Lemma Et_in t edges a b :
  In (a, b) (thr_edges (Some t) edges) <-> exists p, In (a, b, p) edges /\ (t <= p)%Q.
Proof.
  rewrite thr_edges_in. split; intros [p [H1 H2]]; exists p; split; auto.
  - now apply (keep_edge_spec (Some t)) in H2.
  - now apply (keep_edge_spec (Some t)).
Qed.

Section Multi.
  Variable nodes : list Z.
  Variable edges : list (Z * Z * Q).
  Hypothesis nodes_nodup : NoDup nodes.
  Hypothesis edges_closed : forall a b p, In (a, b, p) edges -> In a nodes /\ In b nodes.

  Definition Et (t : Q) := thr_edges (Some t) edges.

  Definition good_cc (t : Q) (cc : list (Z * Z)) : Prop :=
    NoDup (map fst cc) /\ forall v c, In (v, c) cc <-> In v nodes /\ c = comp_min nodes (Et t) v.

  Lemma cluster_spec_in ns es t v c :
    In (v, c) (cluster_spec ns es t) <-> In v ns /\ c = comp_min ns (thr_edges (Some t) es) v.
  Proof.
    unfold cluster_spec. rewrite in_map_iff. split.
    - intros [u [Eq Hu]]. injection Eq as <- <-. auto.
    - intros [Hv ->]. eauto.
  Qed.

  Lemma cluster_spec_keys ns es t : map fst (cluster_spec ns es t) = ns.
  Proof. unfold cluster_spec. rewrite map_map. cbn. apply map_id. Qed.

  Lemma cluster_spec_good t : good_cc t (cluster_spec nodes edges t).
  Proof. split; [now rewrite cluster_spec_keys|apply cluster_spec_in]. Qed.

  Lemma Et_mono t t' a b : (t <= t')%Q -> adj (Et t') a b -> adj (Et t) a b.
  Proof.
    intros Hle [H|H]; [left|right]; apply Et_in in H; apply Et_in; destruct H as [p [H1 H2]];
      exists p; split; auto; eapply Qle_trans; eauto.
  Qed.

  Section Step.
    Variables t t' : Q.
    Variable cc : list (Z * Z).
    Hypothesis Hle : (t <= t')%Q.
    Hypothesis Hcc : good_cc t cc.

    Let cep := cluster_edge_probabilities cc (relevant_edges t edges).
    Let st := stable_clusters t' cep.
    Let sn := stable_nodes cc st.
    Let nip := nodes_in_play nodes sn.
    Let eip := edges_in_play edges nip.

    Lemma sn_in v c : In (v, c) sn <-> In (v, c) cc /\ In c st.
    Proof. unfold sn, stable_nodes. rewrite filter_In, memZ_iff. reflexivity. Qed.

    Lemma cep_incident w c a b p :
      In (w, c) cc -> In (a, b, p) edges -> (t <= p)%Q -> a = w \/ b = w -> In (c, Some p) cep.
    Proof.
      intros Hw He Hp Hi. unfold cep, cluster_edge_probabilities. rewrite in_app_iff.
      assert (Hr : In (a, b, p) (relevant_edges t edges)) by now apply relevant_edges_in.
      destruct Hi as [<-|<-]; [left|right]; apply left_join_probs_some.
      - exists (a, c), (a, b, p). cbn. tauto.
      - exists (b, c), (a, b, p). cbn. tauto.
    Qed.

    Lemma stable_probs c p : In c st -> In (c, Some p) cep -> (t' <= p)%Q.
    Proof.
      unfold st, stable_clusters. rewrite filter_In. intros [_ H] Hin.
      eapply min_opt_ge_imp; [exact H|]. now apply group_probs_in.
    Qed.

    Lemma cc_row v : In v nodes -> In (v, comp_min nodes (Et t) v) cc.
    Proof. intros Hv. apply Hcc. auto. Qed.

    Lemma adj_edge s a b : adj (Et s) a b ->
      exists p, (In (a, b, p) edges \/ In (b, a, p) edges) /\ (s <= p)%Q.
    Proof. intros [H|H]; apply Et_in in H; destruct H as [p [H1 H2]]; exists p; tauto. Qed.

    Lemma stable_conn v c w :
      In (v, c) sn -> conn nodes (Et t) v w -> conn nodes (Et t') v w.
    Proof.
      intros Hs C. apply sn_in in Hs. destruct Hs as [Hv Hst]. apply Hcc in Hv. destruct Hv as [Hv Hc].
      induction C as [v Hv'|v w x C IH Hx Ha]; [now constructor|].
      specialize (IH Hv Hc). eapply conn_step; [exact IH|exact Hx|].
      assert (Hw : In w nodes) by (eapply conn_in_r; eauto).
      assert (Hwc : In (w, c) cc).
      { apply Hcc. split; [exact Hw|]. rewrite Hc. now apply comp_min_eq_iff_conn. }
      destruct (adj_edge _ _ _ Ha) as [p [Hin Hp]].
      assert (Hp' : (t' <= p)%Q).
      { apply (stable_probs c p Hst). destruct Hin as [Hin|Hin]; eapply cep_incident; eauto. }
      destruct Hin as [Hin|Hin]; [left|right]; apply Et_in; eauto.
    Qed.

    Lemma stable_unchanged v c : In (v, c) sn -> In v nodes /\ c = comp_min nodes (Et t') v.
    Proof.
      intros Hs. pose proof Hs as Hs'. apply sn_in in Hs'. destruct Hs' as [Hv _].
      apply Hcc in Hv. destruct Hv as [Hv Hc]. split; [exact Hv|].
      apply comp_min_unique; [exact Hv|]. destruct (comp_min_spec nodes (Et t) v Hv) as [C L].
      rewrite <- Hc in C, L. split.
      - eapply stable_conn; eauto.
      - intros w Cw. apply L. eapply conn_mono; [|exact Cw]. intros a b. now apply Et_mono.
    Qed.

    Lemma nip_in v : In v nip <-> In v nodes /\ ~ In v (map fst sn).
    Proof. unfold nip, nodes_in_play. rewrite filter_In, negb_true_iff, memZ_false. reflexivity. Qed.

    Lemma nip_closed v x : In v nip -> In x nodes -> adj (Et t) v x -> In x nip.
    Proof.
      intros Hv Hx Ha. apply nip_in. split; [exact Hx|]. intros Hin.
      apply in_map_iff in Hin. destruct Hin as [[x' c] [Eq Hs]]. cbn in Eq. subst x'.
      apply nip_in in Hv. destruct Hv as [Hv Hn]. apply Hn.
      pose proof Hs as Hs'. apply sn_in in Hs'. destruct Hs' as [Hxc Hst]. apply Hcc in Hxc. destruct Hxc as [_ Hc].
      change v with (fst (v, c)). apply in_map. apply sn_in. split; [|exact Hst].
      apply Hcc. split; [exact Hv|]. rewrite Hc. symmetry. apply comp_min_eq_iff_conn; auto.
      now apply conn_edge.
    Qed.

    Notation E' := (thr_edges (Some t') eip).

    Lemma eip_in a b p : In (a, b, p) eip <-> In (a, b, p) edges /\ In a nip /\ In b nip.
    Proof. unfold eip, edges_in_play. rewrite filter_In, andb_true_iff, !memZ_iff. cbn. tauto. Qed.

    Lemma in_play_conn v w :
      In v nip -> (conn nip E' v w <-> conn nodes (Et t') v w).
    Proof.
      intros Hv. split.
      - apply conn_mono_nodes.
        + intros x Hx. apply nip_in in Hx. tauto.
        + intros a b [H|H]; [left|right]; apply Et_in in H; destruct H as [p [H1 H2]];
            apply eip_in in H1; apply Et_in; exists p; tauto.
      - intros C. assert (In w nip /\ conn nip E' v w) as [_ R]; [|exact R].
        induction C as [v Hv'|v w x C IH Hx Ha]; [split; [exact Hv|now constructor]|].
        destruct (IH Hv) as [Hw Cw].
        assert (Hxn : In x nip).
        { eapply nip_closed; [exact Hw|exact Hx|]. now apply (Et_mono t t'). }
        split; [exact Hxn|]. eapply conn_step; [exact Cw|exact Hxn|].
        destruct (adj_edge _ _ _ Ha) as [p [[Hin|Hin] Hp]]; [left|right]; apply Et_in; exists p;
          (split; [apply eip_in; tauto|exact Hp]).
    Qed.

    Lemma in_play_comp v : In v nip -> comp_min nip E' v = comp_min nodes (Et t') v.
    Proof.
      intros Hv. symmetry. apply comp_min_unique; [exact Hv|].
      assert (Hvn : In v nodes) by (apply nip_in in Hv; tauto).
      destruct (comp_min_spec nodes (Et t') v Hvn) as [C L]. split.
      - now apply in_play_conn.
      - intros w Cw. apply L. now apply in_play_conn.
    Qed.

    (* any table that labels exactly the in-play nodes with their in-play component minima can be
       unioned with the stable rows *)
    Definition inner_ok (inner : list (Z * Z)) : Prop :=
      NoDup (map fst inner) /\
      forall v c, In (v, c) inner <-> In v nip /\ c = comp_min nip E' v.

    Lemma union_good inner : inner_ok inner -> good_cc t' (sn ++ inner).
    Proof.
      intros [IN II]. split.
      - rewrite map_app. apply NoDup_app_intro.
        + unfold sn, stable_nodes. apply NoDup_map_filter. apply Hcc.
        + exact IN.
        + intros v H1 H2. apply in_map_iff in H2. destruct H2 as [[v' c] [Ev Hin]]. cbn in Ev. subst v'.
          apply II in Hin. destruct Hin as [Hn _]. apply nip_in in Hn. tauto.
      - intros v c. rewrite in_app_iff, II. split.
        + intros [Hs|[Hv ->]]; [now apply stable_unchanged|].
          split; [apply nip_in in Hv; tauto|now apply in_play_comp].
        + intros [Hv ->]. destruct (in_dec Z.eq_dec v (map fst sn)) as [Hin|Hnin].
          * left. apply in_map_iff in Hin. destruct Hin as [[v' c] [Eq Hs]]. cbn in Eq. subst v'.
            destruct (stable_unchanged v c Hs) as [_ <-]. exact Hs.
          * right. assert (In v nip) by (apply nip_in; tauto). split; [assumption|].
            symmetry. now apply in_play_comp.
    Qed.

    Lemma next_cc_good : good_cc t' (next_cc nodes edges t t' cc).
    Proof.
      unfold next_cc. fold cep. fold st. fold sn. fold nip. fold eip. apply union_good. split.
      - rewrite cluster_spec_keys. unfold nip, nodes_in_play. now apply NoDup_filter.
      - intros v c. apply cluster_spec_in.
    Qed.

    (* the in-play tables satisfy the hypotheses of C05 *)
    Lemma nip_hyps : NoDup nip /\ closed_edges nip E' /\
                     (forall a b p, In (a, b, p) eip -> In a nip /\ In b nip).
    Proof.
      split; [unfold nip, nodes_in_play; now apply NoDup_filter|]. split.
      - intros a b H. apply Et_in in H. destruct H as [p [H _]]. apply eip_in in H. tauto.
      - intros a b p H. apply eip_in in H. tauto.
    Qed.

    (* hence the C05 loop model can be used for the inner call: it terminates and gives the same rows *)
    Lemma next_cc_lm_good :
      exists cc', next_cc_lm nodes edges t t' cc = Some cc' /\ good_cc t' cc' /\
                  forall v c, In (v, c) cc' <-> In (v, c) (next_cc nodes edges t t' cc).
    Proof.
      unfold next_cc_lm. fold cep. fold st. fold sn. fold nip. fold eip.
      destruct nip_hyps as (_ & CL & _).
      destruct (solve_cc_total nip E' CL) as [out [Hout G]].
      unfold cluster_at_threshold. rewrite Hout. exists (sn ++ out). split; [reflexivity|].
      assert (OK : inner_ok out).
      { pose proof G as (ND & Hin & Hm). split; [exact ND|]. intros v c. split.
        - intros H. eapply good_output_comp_min; [exact G|exact H].
        - intros [Hv ->]. apply good_output_row; [exact G|exact Hv]. }
      pose proof (union_good out OK) as G1. split; [exact G1|].
      intros v c. destruct G1 as [_ G1]. destruct next_cc_good as [_ G2]. now rewrite G1, G2.
    Qed.
  End Step.

  Lemma multi_loop_good ts : forall t cc,
    sortedQ (t :: ts) -> good_cc t cc ->
    forall t'' cc'', In (t'', cc'') (multi_loop nodes edges t cc ts) -> good_cc t'' cc''.
  Proof.
    induction ts as [|t' rest IH]; intros t cc Hs Hg t'' cc'' Hin; [destruct Hin|].
    cbn [multi_loop] in Hin. inversion Hs; subst.
    assert (G' : good_cc t' (next_cc nodes edges t t' cc)) by now apply next_cc_good.
    destruct Hin as [Eq|Hin]; [injection Eq as <- <-; exact G'|].
    eapply IH; eauto.
  Qed.

  Theorem multi_good ts t cc : In (t, cc) (multi nodes edges ts) -> good_cc t cc.
  Proof.
    unfold multi. pose proof (sortQ_sorted ts) as Hs. destruct (sortQ ts) as [|t0 rest]; [intros []|].
    intros [Eq|Hin]; [injection Eq as <- <-; apply cluster_spec_good|].
    eapply multi_loop_good; eauto. apply cluster_spec_good.
  Qed.

  Lemma multi_loop_keys ts : forall t cc, map fst (multi_loop nodes edges t cc ts) = ts.
  Proof. induction ts as [|t' rest IH]; intros; cbn; [reflexivity|]. now rewrite IH. Qed.

  Lemma multi_keys ts : map fst (multi nodes edges ts) = sortQ ts.
  Proof.
    unfold multi. destruct (sortQ ts) as [|t0 rest]; [reflexivity|]. cbn. now rewrite multi_loop_keys.
  Qed.

  Theorem multi_covers ts t : In t ts -> exists cc, In (t, cc) (multi nodes edges ts).
  Proof.
    intros Hin. apply sortQ_in in Hin. rewrite <- multi_keys in Hin. apply in_map_iff in Hin.
    destruct Hin as [[t0 cc] [Eq H]]. cbn in Eq. subst t0. eauto.
  Qed.

  (* ---- the routine with the C05 loop model for every inner clustering call ---- *)
  Lemma good_cc_ext t cc1 cc2 :
    good_cc t cc1 -> NoDup (map fst cc2) -> (forall v c, In (v, c) cc2 <-> In (v, c) cc1) -> good_cc t cc2.
  Proof. intros [_ G] ND H. split; [exact ND|]. intros v c. now rewrite H. Qed.

  Lemma multi_loop_lm_good ts : forall t cc,
    sortedQ (t :: ts) -> good_cc t cc ->
    exists r, multi_loop_lm nodes edges t cc ts = Some r /\ map fst r = ts /\
              forall t'' cc'', In (t'', cc'') r -> good_cc t'' cc''.
  Proof.
    induction ts as [|t' rest IH]; intros t cc Hs Hg; cbn [multi_loop_lm].
    - exists []. split; [reflexivity|]. split; [reflexivity|]. intros ? ? [].
    - inversion Hs; subst.
      destruct (next_cc_lm_good t t' cc H1 Hg) as (cc' & E & G' & _). rewrite E.
      destruct (IH t' cc' H3 G') as (r & Er & Kr & Gr). rewrite Er.
      exists ((t', cc') :: r). split; [reflexivity|]. split; [cbn; now rewrite Kr|].
      intros t'' cc'' [Eq|Hin]; [injection Eq as <- <-; exact G'|now apply Gr].
  Qed.

  Hypothesis rows_closed : forall a b p, In (a, b, p) edges -> In a nodes /\ In b nodes.

  Theorem multi_lm_good ts :
    exists r, multi_lm nodes edges ts = Some r /\ map fst r = sortQ ts /\
              forall t cc, In (t, cc) r -> good_cc t cc.
  Proof.
    unfold multi_lm. pose proof (sortQ_sorted ts) as Hs. destruct (sortQ ts) as [|t0 rest].
    - exists []. split; [reflexivity|]. split; [reflexivity|]. intros ? ? [].
    - assert (CL : closed_edges nodes (Et t0)).
      { intros a b H. apply Et_in in H. destruct H as [p [H _]]. eapply rows_closed; eauto. }
      destruct (solve_cc_total nodes (Et t0) CL) as [cc0 [H0 G0]].
      unfold cluster_at_threshold. fold (Et t0). rewrite H0.
      assert (G : good_cc t0 cc0).
      { pose proof G0 as (ND & Hin & Hm). split; [exact ND|]. intros v c. split.
        - intros H. eapply good_output_comp_min; [exact G0|exact H].
        - intros [Hv ->]. apply good_output_row; [exact G0|exact Hv]. }
      destruct (multi_loop_lm_good rest t0 cc0 Hs G) as (r & Er & Kr & Gr). rewrite Er.
      exists ((t0, cc0) :: r). split; [reflexivity|]. split; [cbn; now rewrite Kr|].
      intros t cc [Eq|Hin]; [injection Eq as <- <-; exact G|now apply Gr].
  Qed.

  (* ---- summary statistics ---- *)
  Lemma count_perm (p : Z -> bool) l l' : Permutation l l' -> length (filter p l) = length (filter p l').
  Proof.
    induction 1; cbn; auto.
    - destruct (p x); cbn; congruence.
    - destruct (p x), (p y); cbn; auto.
    - congruence.
  Qed.

  Lemma good_cc_perm t cc : good_cc t cc -> Permutation (map fst cc) nodes.
  Proof.
    intros [ND H]. apply NoDup_Permutation; auto. intros v. split.
    - intros Hin. apply in_map_iff in Hin. destruct Hin as [[v' c] [Eq Hc]]. cbn in Eq. subst. apply H in Hc. tauto.
    - intros Hv. change v with (fst (v, comp_min nodes (Et t) v)). apply in_map. apply H. auto.
  Qed.

  Theorem cluster_sizes_spec t cc cid k :
    good_cc t cc -> In (cid, k) (cluster_sizes cc) ->
    (exists v, In v nodes /\ comp_min nodes (Et t) v = cid) /\
    k = length (filter (fun v => comp_min nodes (Et t) v =? cid) nodes).
  Proof.
    intros G Hin. unfold cluster_sizes in Hin. apply in_map_iff in Hin. destruct Hin as [c [Eq Hc]].
    injection Eq as -> <-. apply (proj1 (nodupZ_in _ _)) in Hc. apply in_map_iff in Hc. destruct Hc as [[v c] [Eq Hvc]].
    cbn in Eq. subst c. split.
    - apply G in Hvc. destruct Hvc as [Hv ->]. eauto.
    - rewrite <- (count_perm _ _ _ (good_cc_perm t cc G)).
      destruct G as [_ H].
      assert (H' : forall v c, In (v, c) cc -> c = comp_min nodes (Et t) v) by (intros; now apply H).
      clear H Hvc. induction cc as [|[u c] l IH]; cbn; [reflexivity|].
      assert (c = comp_min nodes (Et t) u) as -> by (apply H'; now left).
      destruct (comp_min nodes (Et t) u =? cid); cbn; rewrite IH; auto; intros; apply H'; now right.
  Qed.

  Theorem cluster_sizes_keys t cc :
    good_cc t cc -> NoDup (map fst (cluster_sizes cc)) /\
    forall cid, In cid (map fst (cluster_sizes cc)) <-> exists v, In v nodes /\ comp_min nodes (Et t) v = cid.
  Proof.
    intros G. unfold cluster_sizes. rewrite map_map. cbn. rewrite map_id. split; [apply NoDup_nodup|].
    intros cid. rewrite nodupZ_in, in_map_iff. split.
    - intros [[v c] [Eq H]]. cbn in Eq. subst c. apply G in H. destruct H as [Hv ->]. eauto.
    - intros [v [Hv <-]]. exists (v, comp_min nodes (Et t) v). split; [reflexivity|]. apply G. auto.
  Qed.

  Theorem cluster_sizes_total t cc :
    good_cc t cc -> fold_right Nat.add O (map snd (cluster_sizes cc)) = length nodes.
  Proof.
    intros G. rewrite <- (Permutation_length (good_cc_perm t cc G)), map_length.
    unfold cluster_sizes. rewrite map_map. cbn.
    assert (forall l, (forall c, In c (map snd cc) -> In c l) -> NoDup l ->
              fold_right Nat.add O (map (fun cid => length (filter (fun r => snd r =? cid) cc)) l) = length cc) as K.
    { clear G. induction cc as [|[u c] rest IH]; intros l Hl ND.
      - cbn. induction l; cbn; auto. apply IHl; [intros ? []|now inversion ND].
      - cbn [filter snd length].
        assert (Hc : In c l) by (apply Hl; now left).
        assert (IH' := IH l (fun c' H' => Hl c' (or_intror H')) ND).
        rewrite <- IH'. clear IH IH' Hl. induction l as [|a l IHl]; [destruct Hc|].
        inversion ND; subst. cbn [map fold_right]. destruct Hc as [->|Hc].
        + rewrite Z.eqb_refl. cbn [length].
          assert (forall l', ~ In c l' ->
                   map (fun cid => length (filter (fun r : Z * Z => snd r =? cid) ((u, c) :: rest))) l' =
                   map (fun cid => length (filter (fun r : Z * Z => snd r =? cid) rest)) l') as Same.
          { induction l' as [|b l' IHl']; intros Hn; cbn [map]; [reflexivity|].
            rewrite IHl' by (intros X; apply Hn; now right). f_equal. cbn [filter snd].
            destruct (Z.eqb_spec c b); [exfalso; apply Hn; now left|reflexivity]. }
          rewrite Same by assumption. lia.
        + destruct (Z.eqb_spec c a) as [->|Hne]; [contradiction|].
          rewrite (IHl H2 Hc). lia. }
    apply K; [|apply NoDup_nodup]. intros c Hc. now apply nodupZ_in.
  Qed.
End Multi.
