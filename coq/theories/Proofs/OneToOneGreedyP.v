(* Tie-free refinement: the SQL loop of one_to_one_clustering.py computes the partition of the
   sequential greedy procedure (Model/OneToOne.v, Section Greedy).  Consequences: final classes
   are connected through >= threshold edges inside the class. *)
From Coq Require Import List Bool ZArith QArith Lia Sorted.
From Splinkv Require Import Model.OneToOne Proofs.OneToOneP.
Import ListNotations.
Open Scope Z_scope.

(* ------------------------------------------------------------------ paths *)
Section Paths.
  Variable thr : option Q.
  Variable E : list edge.

  Lemma tedge_sym : forall v w, tedge thr E v w -> tedge thr E w v.
  Proof. intros v w (e & He & Ha & Hd). exists e. split; [assumption|]. split; [assumption|]. tauto. Qed.

  Lemma conn_weaken : forall (P Q : Z -> Prop) v u,
    (forall z, P z -> Q z) -> conn_in thr E P v u -> conn_in thr E Q v u.
  Proof.
    intros P Q v u HPQ H. induction H as [v Hv|v w u Hv Hvw Hwu IH].
    - apply conn_refl. auto.
    - apply conn_step with w; auto.
  Qed.

  Lemma conn_first : forall P v u, conn_in thr E P v u -> P v.
  Proof. intros P v u H. destruct H; assumption. Qed.

  Lemma conn_last : forall P v u, conn_in thr E P v u -> P u.
  Proof. intros P v u H. induction H; assumption. Qed.

  Lemma conn_trans : forall P v w u, conn_in thr E P v w -> conn_in thr E P w u -> conn_in thr E P v u.
  Proof.
    intros P v w u H1 H2. induction H1 as [v Hv|v x w Hv Hvx Hxw IH]; [assumption|].
    apply conn_step with x; auto.
  Qed.

  Lemma conn_sym : forall P v u, conn_in thr E P v u -> conn_in thr E P u v.
  Proof.
    intros P v u H. induction H as [v Hv|v w u Hv Hvw Hwu IH]; [apply conn_refl; assumption|].
    apply conn_trans with w; [assumption|].
    apply conn_step with v; [eapply conn_first; eassumption|apply tedge_sym; assumption|apply conn_refl; assumption].
  Qed.
End Paths.

(* ------------------------------------------------------------------ sorting by decreasing rank *)
Section Sorting.
  Variable le : rank_le.
  Hypothesis Hord : rank_order le.

  (* e1 is ranked strictly higher than e2 *)
  Definition hv (e1 e2 : edge) : Prop := le e2 e1 = true /\ le e1 e2 = false.

  Lemma insert_in : forall e l x, In x (insert_desc le e l) <-> x = e \/ In x l.
  Proof.
    induction l as [|y t IH]; intros x; cbn [insert_desc].
    - simpl. intuition.
    - destruct (le y e); cbn [In]; [intuition|]. rewrite IH. intuition.
  Qed.

  Lemma sort_in : forall l x, In x (sort_desc le l) <-> In x l.
  Proof.
    induction l as [|y t IH]; intros x; cbn [sort_desc]; [tauto|]. rewrite insert_in, IH. cbn [In]. intuition.
  Qed.

  Lemma insert_sorted : forall e l,
    StronglySorted hv l -> Forall (fun x => ~ (le x e = true /\ le e x = true)) l ->
    StronglySorted hv (insert_desc le e l).
  Proof.
    induction l as [|y t IH]; intros Hs Hd; cbn [insert_desc].
    - constructor; constructor.
    - inversion Hs as [|? ? Hst Hyt]; subst. inversion Hd as [|? ? Hye Hdt]; subst.
      destruct (le y e) eqn:El.
      + assert (Hey : le e y = false) by (destruct (le e y) eqn:E2; [exfalso; apply Hye; auto|reflexivity]).
        constructor; [assumption|]. constructor; [split; assumption|].
        rewrite Forall_forall in *. intros z Hz. destruct (Hyt z Hz) as [Hzy Hyz]. split.
        * apply (ro_trans le Hord) with y; assumption.
        * destruct (le e z) eqn:E3; [|reflexivity]. rewrite (ro_trans le Hord y e z El E3) in Hyz. discriminate.
      + assert (Hey : le e y = true) by (destruct (ro_total le Hord e y); [assumption|congruence]).
        constructor; [apply IH; assumption|]. rewrite Forall_forall in *. intros z Hz.
        apply insert_in in Hz. destruct Hz as [->|Hz]; [split; assumption|auto].
  Qed.

  Lemma strict_rank_filter : forall f l, strict_rank le l -> strict_rank le (filter f l).
  Proof.
    unfold strict_rank. induction l as [|x t IH]; intros H; cbn [filter]; [constructor|].
    inversion H as [|? ? Hx Ht]; subst. destruct (f x); [|auto].
    constructor; [|auto]. rewrite Forall_forall in *. intros y Hy. apply filter_In in Hy. apply Hx. tauto.
  Qed.

  Lemma sort_sorted : forall l, strict_rank le l -> StronglySorted hv (sort_desc le l).
  Proof.
    induction l as [|x t IH]; intros H; cbn [sort_desc]; [constructor|].
    inversion H as [|? ? Hx Ht]; subst. apply insert_sorted; [apply IH; assumption|].
    rewrite Forall_forall in *. intros y Hy. apply (proj1 (sort_in _ _)) in Hy. intros [H1 H2]. apply (Hx y Hy). auto.
  Qed.

  Lemma sorted_split : forall (L : list edge) e,
    StronglySorted hv L -> In e L ->
    exists L1 L2, L = L1 ++ e :: L2 /\ Forall (fun h => hv h e) L1.
  Proof.
    induction L as [|x t IH]; intros e Hs Hin; [contradiction|].
    inversion Hs as [|? ? Hst Hxt]; subst. destruct Hin as [->|Hin].
    - exists [], t. split; [reflexivity|constructor].
    - destruct (IH e Hst Hin) as (L1 & L2 & -> & HF). exists (x :: L1), L2. split; [reflexivity|].
      constructor; [|assumption]. rewrite Forall_forall in Hxt. apply Hxt. apply in_or_app. right. left. reflexivity.
  Qed.
End Sorting.

(* ------------------------------------------------------------------ the greedy procedure *)
Section GreedyFacts.
  Variable dfs : list Z.
  Variable nodes : list node.
  Hypothesis Hnd : NoDup (map n_id nodes).
  Notation gstep := (g_step dfs nodes).
  Notation gr := (greedy dfs nodes).

  Lemma greedy_snoc : forall L e x, gr (L ++ [e]) x = gstep (gr L) e x.
  Proof. intros. unfold greedy. rewrite fold_left_app. reflexivity. Qed.

  Lemma greedy_app : forall L1 L2, gr (L1 ++ L2) = fold_left gstep L2 (gr L1).
  Proof. intros. unfold greedy. apply fold_left_app. Qed.

  Lemma g_step_mono : forall cl e x y, cl x = cl y -> gstep cl e x = gstep cl e y.
  Proof.
    intros cl e x y H. unfold g_step.
    destruct ((cl (e_l e) =? cl (e_r e)) || g_conflict dfs nodes cl (cl (e_l e)) (cl (e_r e))); [assumption|].
    cbn beta. rewrite H. reflexivity.
  Qed.

  Lemma fold_mono : forall L cl x y, cl x = cl y -> fold_left gstep L cl x = fold_left gstep L cl y.
  Proof. induction L as [|e L IH]; intros cl x y H; cbn [fold_left]; [assumption|]. apply IH. apply g_step_mono. assumption. Qed.

  Lemma g_flag_true : forall cl c d,
    g_flag nodes cl c d = true <-> exists n, In n nodes /\ cl (n_id n) = c /\ n_sds n = d.
  Proof.
    intros. unfold g_flag. rewrite existsb_exists. split.
    - intros [n [Hn H]]. apply andb_true_iff in H. destruct H as [H1 H2]. apply Z.eqb_eq in H1, H2. eauto.
    - intros [n [Hn [H1 H2]]]. exists n. split; [assumption|]. rewrite H1, H2, !Z.eqb_refl. reflexivity.
  Qed.

  Lemma g_conflict_true : forall cl c1 c2,
    g_conflict dfs nodes cl c1 c2 = true <->
    exists d, In d dfs /\ g_flag nodes cl c1 d = true /\ g_flag nodes cl c2 d = true.
  Proof.
    intros. unfold g_conflict. rewrite existsb_exists. split.
    - intros [d [Hd H]]. apply andb_true_iff in H. eauto.
    - intros [d [Hd [H1 H2]]]. exists d. rewrite H1, H2. auto.
  Qed.

  (* greedy clusters never hold two records of one duplicate-free dataset *)
  Definition gdup (cl : lab) : Prop :=
    forall n1 n2, In n1 nodes -> In n2 nodes -> cl (n_id n1) = cl (n_id n2) ->
                  n_sds n1 = n_sds n2 -> In (n_sds n1) dfs -> n_id n1 = n_id n2.

  Lemma gdup_step : forall cl e, gdup cl -> gdup (gstep cl e).
  Proof.
    intros cl e H. unfold g_step.
    destruct ((cl (e_l e) =? cl (e_r e)) || g_conflict dfs nodes cl (cl (e_l e)) (cl (e_r e))) eqn:Ec; [assumption|].
    apply orb_false_iff in Ec. destruct Ec as [Hab Hcf]. apply Z.eqb_neq in Hab.
    set (a := cl (e_l e)) in *. set (b := cl (e_r e)) in *.
    intros n1 n2 H1 H2 Heq Hs Hd. cbn beta in Heq.
    destruct (cl (n_id n1) =? b) eqn:E1, (cl (n_id n2) =? b) eqn:E2.
    - apply Z.eqb_eq in E1, E2. apply H; auto. congruence.
    - exfalso. apply Z.eqb_eq in E1. assert (Hc : g_conflict dfs nodes cl a b = true); [|congruence].
      apply g_conflict_true. exists (n_sds n1). split; [assumption|]. split; apply g_flag_true.
      + exists n2. split; [assumption|]. split; [symmetry; exact Heq|symmetry; exact Hs].
      + exists n1. auto.
    - exfalso. apply Z.eqb_eq in E2. assert (Hc : g_conflict dfs nodes cl a b = true); [|congruence].
      apply g_conflict_true. exists (n_sds n1). split; [assumption|]. split; apply g_flag_true.
      + exists n1. auto.
      + exists n2. split; [assumption|]. split; [exact E2|symmetry; exact Hs].
    - apply H; auto.
  Qed.

  Lemma gdup_fold : forall L cl, gdup cl -> gdup (fold_left gstep L cl).
  Proof. induction L as [|e L IH]; intros cl H; cbn [fold_left]; [assumption|]. apply IH. apply gdup_step. assumption. Qed.

  Lemma gdup_greedy : forall L, gdup (gr L).
  Proof.
    intros L. apply gdup_fold. intros n1 n2 _ _ Heq _ _. exact Heq.
  Qed.

  (* separation: two members of one greedy cluster on different sides of a cut are linked by a
     processed edge of that cluster that crosses the cut *)
  Lemma sep : forall (S : Z -> bool) L x x',
    gr L x = gr L x' -> S x = true -> S x' = false ->
    exists h, In h L /\ gr L (e_l h) = gr L x /\ gr L (e_r h) = gr L x /\ S (e_l h) <> S (e_r h).
  Proof.
    intros S L. induction L as [|e L IH] using rev_ind; intros x x' Heq Hx Hx'.
    - unfold greedy in Heq. cbn in Heq. subst. congruence.
    - rewrite !greedy_snoc in Heq. setoid_rewrite greedy_snoc. set (cl := gr L) in *.
      assert (Hlift : forall y y', cl y = cl y' -> S y = true -> S y' = false -> gstep cl e y = gstep cl e x ->
                exists h, In h (L ++ [e]) /\ gstep cl e (e_l h) = gstep cl e x /\ gstep cl e (e_r h) = gstep cl e x /\ S (e_l h) <> S (e_r h)).
      { intros y y' Hc Hy Hy' Hyx. destruct (IH y y' Hc Hy Hy') as (h & Hin & Hl & Hr & HS).
        exists h. split; [apply in_or_app; left; assumption|].
        split; [rewrite <- Hyx; apply g_step_mono; assumption|].
        split; [rewrite <- Hyx; apply g_step_mono; assumption|assumption]. }
      unfold g_step in Heq |- *. fold cl in Heq |- *.
      destruct ((cl (e_l e) =? cl (e_r e)) || g_conflict dfs nodes cl (cl (e_l e)) (cl (e_r e))) eqn:Ec.
      + destruct (IH x x' Heq Hx Hx') as (h & Hin & Hl & Hr & HS). exists h.
        split; [apply in_or_app; left; assumption|auto].
      + apply orb_false_iff in Ec. destruct Ec as [Hab Hcf]. apply Z.eqb_neq in Hab.
        set (a := cl (e_l e)) in *. set (b := cl (e_r e)) in *. cbn beta in Heq.
        assert (Hstep : forall z, gstep cl e z = if cl z =? b then a else cl z).
        { intros z. unfold g_step. fold cl. fold a. fold b.
          destruct ((a =? b) || g_conflict dfs nodes cl a b) eqn:Ec'; [|reflexivity].
          exfalso. apply orb_true_iff in Ec'. destruct Ec' as [H|H].
          - apply Z.eqb_eq in H. contradiction.
          - congruence. }
        assert (Hgoal : exists h, In h (L ++ [e]) /\ gstep cl e (e_l h) = gstep cl e x /\
                                  gstep cl e (e_r h) = gstep cl e x /\ S (e_l h) <> S (e_r h)).
        { assert (He_in : In e (L ++ [e])) by (apply in_or_app; right; left; reflexivity).
          assert (Hi : gstep cl e (e_l e) = a).
          { rewrite Hstep. fold a. destruct (a =? b) eqn:E; [apply Z.eqb_eq in E; contradiction|reflexivity]. }
          assert (Hj : gstep cl e (e_r e) = a) by (rewrite Hstep; fold b; rewrite Z.eqb_refl; reflexivity).
          destruct (cl x =? b) eqn:E1, (cl x' =? b) eqn:E2.
          * apply Z.eqb_eq in E1, E2. apply (Hlift x x'); auto; try congruence.
          * (* x in the b-cluster, x' in the a-cluster *)
            apply Z.eqb_eq in E1. assert (Hxa : gstep cl e x = a) by (rewrite Hstep, E1, Z.eqb_refl; reflexivity).
            destruct (S (e_r e)) eqn:Sj.
            -- destruct (S (e_l e)) eqn:Si.
               ++ destruct (IH (e_l e) x') as (h & Hin & Hl & Hr & HS); [fold cl; fold a; congruence|assumption|assumption|].
                  exists h. split; [apply in_or_app; left; assumption|]. fold cl in Hl, Hr.
                  split; [rewrite Hxa, <- Hi; apply g_step_mono; assumption|].
                  split; [rewrite Hxa, <- Hi; apply g_step_mono; assumption|assumption].
               ++ exists e. split; [assumption|]. rewrite Hi, Hj, Hxa. repeat split; congruence.
            -- apply (Hlift x (e_r e)); auto; try (fold b; congruence).
          * (* x in the a-cluster, x' in the b-cluster *)
            apply Z.eqb_eq in E2. assert (Hcx : cl x = a) by exact Heq.
            assert (Hxa : gstep cl e x = a) by (rewrite Hstep, E1; exact Heq).
            destruct (S (e_l e)) eqn:Si.
            -- destruct (S (e_r e)) eqn:Sj.
               ++ destruct (IH (e_r e) x') as (h & Hin & Hl & Hr & HS); [fold cl; fold b; congruence|assumption|assumption|].
                  exists h. split; [apply in_or_app; left; assumption|]. fold cl in Hl, Hr.
                  split; [rewrite Hxa, <- Hj; apply g_step_mono; assumption|].
                  split; [rewrite Hxa, <- Hj; apply g_step_mono; assumption|assumption].
               ++ exists e. split; [assumption|]. rewrite Hi, Hj, Hxa. repeat split; congruence.
            -- apply (Hlift x (e_l e)); auto; try (fold a; congruence).
          * apply (Hlift x x'); auto. }
        destruct Hgoal as (h & Hin & Hl & Hr & HS). exists h. rewrite !Hstep in Hl, Hr. auto.
  Qed.
End GreedyFacts.

(* ------------------------------------------------------------------ greedy clusters are path-connected inside themselves *)
Section GreedyConn.
  Variable dfs : list Z.
  Variable nodes : list node.
  Variable thr : option Q.
  Variable E : list edge.
  Notation gstep := (g_step dfs nodes).
  Notation gr := (greedy dfs nodes).

  Definition okedge (e : edge) : Prop :=
    In e E /\ above thr (e_p e) = true /\ is_node nodes (e_l e) = true /\ is_node nodes (e_r e) = true.

  Lemma okedge_tedge : forall e, okedge e -> tedge thr E (e_l e) (e_r e).
  Proof. intros e (He & Ha & _ & _). exists e. split; [assumption|]. split; [assumption|]. left. auto. Qed.

  Lemma gconn : forall L, Forall okedge L -> forall x x',
    is_node nodes x = true -> is_node nodes x' = true -> gr L x = gr L x' ->
    conn_in thr E (fun z => is_node nodes z = true /\ gr L z = gr L x) x x'.
  Proof.
    induction L as [|e L IH] using rev_ind; intros Hok x x' Hnx Hnx' Heq.
    - unfold greedy in Heq. cbn in Heq. subst x'. apply conn_refl. auto.
    - apply Forall_app in Hok. destruct Hok as [HokL Hoke]. inversion Hoke as [|? ? Hokedge _]; subst.
      specialize (IH HokL). set (cl := gr L) in *.
      apply conn_weaken with (P := fun z => is_node nodes z = true /\ gstep cl e z = gstep cl e x).
      { intros z [Hz Hg]. split; [assumption|]. rewrite !greedy_snoc. exact Hg. }
      rewrite !greedy_snoc in Heq. fold cl in Heq.
      assert (Hlift : forall y y', is_node nodes y = true -> is_node nodes y' = true -> cl y = cl y' ->
                gstep cl e y = gstep cl e x ->
                conn_in thr E (fun z => is_node nodes z = true /\ gstep cl e z = gstep cl e x) y y').
      { intros y y' Hy Hy' Hc Hyx. apply conn_weaken with (P := fun z => is_node nodes z = true /\ cl z = cl y).
        - intros z [Hz Hg]. split; [assumption|]. rewrite <- Hyx. apply g_step_mono. assumption.
        - apply IH; assumption. }
      destruct ((cl (e_l e) =? cl (e_r e)) || g_conflict dfs nodes cl (cl (e_l e)) (cl (e_r e))) eqn:Ec.
      + assert (Hstep : forall z, gstep cl e z = cl z) by (intros z; unfold g_step; rewrite Ec; reflexivity).
        apply Hlift; auto. rewrite !Hstep in Heq. exact Heq.
      + assert (Hstep : forall z, gstep cl e z = if cl z =? cl (e_r e) then cl (e_l e) else cl z)
          by (intros z; unfold g_step; rewrite Ec; reflexivity).
        apply orb_false_iff in Ec. destruct Ec as [Hab _]. apply Z.eqb_neq in Hab.
        set (a := cl (e_l e)) in *. set (b := cl (e_r e)) in *.
        destruct Hokedge as (HeE & Hea & Hni & Hnj).
        assert (Hi : gstep cl e (e_l e) = a).
        { rewrite Hstep. fold a. destruct (a =? b) eqn:Eab; [apply Z.eqb_eq in Eab; contradiction|reflexivity]. }
        assert (Hj : gstep cl e (e_r e) = a) by (rewrite Hstep; fold b; rewrite Z.eqb_refl; reflexivity).
        assert (Hte : tedge thr E (e_l e) (e_r e)) by (exists e; auto).
        rewrite !Hstep in Heq.
        destruct (cl x =? b) eqn:E1, (cl x' =? b) eqn:E2.
        * apply Z.eqb_eq in E1, E2. apply Hlift; auto. congruence.
        * apply Z.eqb_eq in E1. assert (Hxa : gstep cl e x = a) by (rewrite Hstep, E1, Z.eqb_refl; reflexivity).
          apply conn_trans with (e_r e); [apply Hlift; auto; fold b; congruence|].
          apply conn_step with (e_l e); [split; [assumption|congruence]|apply tedge_sym; assumption|].
          apply Hlift; auto; try (fold a; congruence).
        * apply Z.eqb_eq in E2. assert (Hxa : gstep cl e x = a) by (rewrite Hstep, E1; exact Heq).
          apply conn_trans with (e_l e); [apply Hlift; auto; fold a; congruence|].
          apply conn_step with (e_r e); [split; [assumption|congruence]|assumption|].
          apply Hlift; auto; try (fold b; congruence).
        * apply Hlift; auto.
  Qed.
End GreedyConn.

(* ------------------------------------------------------------------ the loop stays inside the greedy clusters *)
Lemma is_node_true : forall nodes v, is_node nodes v = true <-> exists s, In (v, s) nodes.
Proof.
  intros. unfold is_node. rewrite existsb_exists. split.
  - intros [[v0 s] [Hin H]]. apply Z.eqb_eq in H. unfold n_id in H. cbn in H. subst. eauto.
  - intros [s Hin]. exists (v, s). split; [assumption|]. unfold n_id. cbn. apply Z.eqb_refl.
Qed.

Definition in_classb (t : list reprow) (c x : Z) : bool :=
  existsb (fun r => (rr_node r =? x) && (rr_rep r =? c)) t.

Lemma in_classb_true : forall t c x, in_classb t c x = true <-> exists s, In (x, c, s) t.
Proof.
  intros. unfold in_classb. rewrite existsb_exists. split.
  - intros [[[x0 c0] s] [Hin H]]. apply andb_true_iff in H. destruct H as [H1 H2].
    apply Z.eqb_eq in H1, H2. unfold rr_node, rr_rep in *. cbn in *. subst. eauto.
  - intros [s Hin]. exists (x, c, s). split; [assumption|]. unfold rr_node, rr_rep. cbn. rewrite !Z.eqb_refl. reflexivity.
Qed.

Section Refinement.
  Variable dfs : list Z.
  Variable thr : option Q.
  Variable nodes : list node.
  Variable E : list edge.
  Variable le : rank_le.
  Hypothesis Hord : rank_order le.
  Hypothesis Hnd0 : NoDup (map n_id nodes).
  Hypothesis Htf : strict_rank le E.
  Variables chl chr : chooser.
  Hypothesis Hl : rank1_ok_for le chl.
  Hypothesis Hr : rank1_ok_for le chr.

  Let L := sort_desc le (filter (usable thr nodes) E).
  Let G := greedy dfs nodes L.
  Let nbs := df_neighbours thr E.
  Notation gstep := (g_step dfs nodes).

  Lemma L_in : forall e, In e L <-> In e E /\ usable thr nodes e = true.
  Proof. intros. unfold L. rewrite sort_in, filter_In. tauto. Qed.

  Lemma L_sorted : StronglySorted (hv le) L.
  Proof. unfold L. apply sort_sorted; [assumption|]. apply strict_rank_filter. assumption. Qed.

  Lemma usable_ok : forall e, In e E -> usable thr nodes e = true -> okedge nodes thr E e.
  Proof.
    intros e He Hu. unfold usable in Hu. apply andb_true_iff in Hu. destruct Hu as [Hu H3].
    apply andb_true_iff in Hu. destruct Hu as [H1 H2]. unfold okedge. auto.
  Qed.

  Lemma L_ok : Forall (okedge nodes thr E) L.
  Proof. apply Forall_forall. intros e He. apply L_in in He. destruct He. apply usable_ok; assumption. Qed.

  Definition recs (t : list reprow) : Prop := forall v s, In (v, s) nodes <-> exists c, In (v, c, s) t.
  Definition Minv (t : list reprow) : Prop :=
    forall v w c s s', In (v, c, s) t -> In (w, c, s') t -> G v = G w.

  Section State.
    Variable it : nat.
    Variable t : list reprow.
    Hypothesis Hnd : NoDup (map rr_node t).
    Hypothesis Hrecs : recs t.
    Hypothesis HM : Minv t.

    Let rows := candidates dfs nbs t.
    Let acc := df_neighbours_k dfs nbs chl chr it t.

    Lemma flags_disjoint_same_G : forall x X sx z Zc sz,
      In (x, X, sx) t -> In (z, Zc, sz) t -> X <> Zc -> G x = G z -> no_shared dfs t X Zc.
    Proof.
      intros x X sx z Zc sz Hx Hz Hne HG d Hd [H1 H2].
      apply contains_flag_true in H1, H2.
      destruct H1 as [[[x1 c1] s1] [Hr1 [Hc1 Hs1]]], H2 as [[[z1 c2] s2] [Hr2 [Hc2 Hs2]]].
      unfold rr_rep, rr_sds in *. cbn [fst snd] in *. subst c1 s1 c2 s2.
      assert (HG1 : G x1 = G z1).
      { rewrite (HM x1 x X d sx Hr1 Hx), (HM z1 z Zc d sz Hr2 Hz). exact HG. }
      assert (Hn1 : In (x1, d) nodes) by (apply Hrecs; eauto).
      assert (Hn2 : In (z1, d) nodes) by (apply Hrecs; eauto).
      pose proof (gdup_greedy dfs nodes L (x1, d) (z1, d) Hn1 Hn2 HG1 eq_refl Hd) as Hid.
      unfold n_id in Hid. cbn in Hid. subst z1.
      assert (Heq : (x1, X, d) = (x1, Zc, d)) by (apply nodup_key_unique with t; auto).
      inversion Heq. contradiction.
    Qed.

    Lemma cross_is_candidate : forall e h1 X s1 h2 Zc s2,
      In e E -> above thr (e_p e) = true ->
      In (h1, X, s1) t -> In (h2, Zc, s2) t -> X <> Zc -> G h1 = G h2 ->
      ((e_l e = h1 /\ e_r e = h2) \/ (e_l e = h2 /\ e_r e = h1)) ->
      exists r, In r rows /\ c_lrep r = X /\ req e (row_edge r).
    Proof.
      intros e h1 X s1 h2 Zc s2 He Ha H1 H2 Hne HG Hd.
      pose proof (flags_disjoint_same_G _ _ _ _ _ _ H1 H2 Hne HG) as Hns.
      destruct (in_indexed E 0 e He) as [i Hi].
      destruct e as [[el er] ep]. unfold e_l, e_r, e_p in *. cbn [fst snd] in *.
      destruct Hd as [[Hl1 Hr1]|[Hl1 Hr1]]; subst.
      - eexists. split; [apply candidates_in; exists (fwd i (h1, h2, ep)), (h1, X, s1), (h2, Zc, s2);
          split; [apply nbs_in; exists i, (h1, h2, ep); auto|]; repeat (split; [first [assumption|reflexivity]|]); reflexivity|].
        cbn. split; [reflexivity|]. left. reflexivity.
      - eexists. split; [apply candidates_in; exists (bwd i (h2, h1, ep)), (h1, X, s1), (h2, Zc, s2);
          split; [apply nbs_in; exists i, (h2, h1, ep); auto|]; repeat (split; [first [assumption|reflexivity]|]); reflexivity|].
        cbn. split; [reflexivity|]. right. reflexivity.
    Qed.

    Lemma same_row_edge : forall a b, In a rows -> In b rows -> same_row a b = true -> row_edge a = row_edge b.
    Proof.
      intros a b Ha Hb Hs.
      destruct (cand_prov dfs thr E t a Ha) as (i & e & _ & _ & Hie & _ & _ & _ & _ & _ & _ & _ & Hpa & _ & _ & Hda).
      destruct (cand_prov dfs thr E t b Hb) as (j & e' & _ & _ & Hje & _ & _ & _ & _ & _ & _ & _ & Hpb & _ & _ & Hdb).
      pose proof (same_row_node a b Hs) as [Hn Hb'].
      unfold same_row in Hs. apply andb_true_iff in Hs. destruct Hs as [Hs _].
      apply andb_true_iff in Hs. destruct Hs as [Hs _]. apply andb_true_iff in Hs. destruct Hs as [Hrid _].
      unfold rid_eqb in Hrid. apply andb_true_iff in Hrid. destruct Hrid as [Hi Hdir].
      apply Nat.eqb_eq in Hi. apply eqb_prop in Hdir.
      assert (Hij : i = j).
      { destruct Hda as [(Ha1 & _)|(Ha1 & _)], Hdb as [(Hb1 & _)|(Hb1 & _)]; rewrite Ha1, Hb1 in Hi; cbn in Hi; assumption. }
      subst j. assert (e = e') by (apply (indexed_fun E 0 i); assumption). subst e'.
      unfold row_edge. rewrite Hn, Hb', Hpa, Hpb. reflexivity.
    Qed.

    Lemma acc_p_max_l : forall a r, In a acc -> In r rows -> c_lrep r = c_lrep a -> le (row_edge r) (row_edge a) = true.
    Proof.
      intros a r Ha Hr' Hlr. destruct (acc_in _ _ _ _ _ _ _ Ha) as (Hc & Hsl & _). fold rows in Hsl, Hc.
      assert (Hin : In r (part_l rows (c_lrep a))) by (apply filter_In; split; [assumption|apply Z.eqb_eq; assumption]).
      assert (Hne : part_l rows (c_lrep a) <> []) by (intro H; rewrite H in Hin; exact Hin).
      destruct (Hl it (c_lrep a) _ Hne) as [Hch Hmax].
      rewrite (same_row_edge a _ Hc (proj1 (proj1 (filter_In _ _ _) Hch)) Hsl). apply Hmax. assumption.
    Qed.

    Lemma acc_p_max_r : forall a r, In a acc -> In r rows -> c_rrep r = c_rrep a -> le (row_edge r) (row_edge a) = true.
    Proof.
      intros a r Ha Hr' Hlr. destruct (acc_in _ _ _ _ _ _ _ Ha) as (Hc & _ & Hsr). fold rows in Hsr, Hc.
      assert (Hin : In r (part_r rows (c_rrep a))) by (apply filter_In; split; [assumption|apply Z.eqb_eq; assumption]).
      assert (Hne : part_r rows (c_rrep a) <> []) by (intro H; rewrite H in Hin; exact Hin).
      destruct (Hr it (c_rrep a) _ Hne) as [Hch Hmax].
      rewrite (same_row_edge a _ Hc (proj1 (proj1 (filter_In _ _ _) Hch)) Hsr). apply Hmax. assumption.
    Qed.

    Lemma acc_p_max_leaving_r : forall a r, In a acc -> In r rows -> c_lrep r = c_rrep a -> le (row_edge r) (row_edge a) = true.
    Proof.
      intros a r Ha Hr' Hlr. destruct (mirror_in dfs thr E t r Hr') as (r' & Hr'' & Hn' & Hb' & _ & Hrr & Hp).
      rewrite <- (le_req le Hord (row_edge r) (row_edge a) (row_edge r') (row_edge a) (mirror_req r r' Hn' Hb' Hp) (or_introl eq_refl)).
      apply acc_p_max_r; auto. congruence.
    Qed.

    (* a record in the greedy cluster (at the time the edge e0 is processed) of a record i0 lies
       in i0's class, provided no candidate row leaving that class is heavier than e0 *)
    Lemma in_class_of_cut : forall L1 e0 L2 i0 Ci s0 n1 s1,
      L = L1 ++ e0 :: L2 -> Forall (fun h => hv le h e0) L1 ->
      In (i0, Ci, s0) t -> (forall r, In r rows -> c_lrep r = Ci -> le (row_edge r) e0 = true) ->
      In (n1, s1) nodes -> greedy dfs nodes L1 n1 = greedy dfs nodes L1 i0 ->
      In (n1, Ci, s1) t.
    Proof.
      intros L1 e0 L2 i0 Ci s0 n1 s1 HL Hheavy Hi0 Hmax Hn1 Hcl.
      destruct (proj1 (Hrecs n1 s1) Hn1) as [c1 Hc1].
      destruct (Z.eq_dec c1 Ci) as [->|Hne]; [assumption|exfalso].
      set (S := in_classb t Ci).
      assert (HSi : S i0 = true) by (apply in_classb_true; eauto).
      assert (HSn : S n1 = false).
      { apply not_true_is_false. intro H. apply in_classb_true in H. destruct H as [s' Hs'].
        assert (Heq : (n1, Ci, s') = (n1, c1, s1)) by (apply nodup_key_unique with t; auto).
        inversion Heq. congruence. }
      destruct (sep dfs nodes S L1 i0 n1 (eq_sym Hcl) HSi HSn) as (h & Hh & Hhl & Hhr & HS).
      assert (HhL : In h L) by (rewrite HL; apply in_or_app; left; assumption).
      apply L_in in HhL. destruct HhL as [HhE Hhu].
      destruct (usable_ok h HhE Hhu) as (_ & Hha & Hnl & Hnr).
      rewrite Forall_forall in Hheavy. pose proof (Hheavy h Hh) as [_ Hp].
      assert (HG : G (e_l h) = G (e_r h)).
      { unfold G. rewrite HL. rewrite greedy_app. apply fold_mono. congruence. }
      apply is_node_true in Hnl, Hnr. destruct Hnl as [sl Hnl], Hnr as [sr Hnr].
      destruct (proj1 (Hrecs _ _) Hnl) as [cl' Hcl'], (proj1 (Hrecs _ _) Hnr) as [cr' Hcr'].
      destruct (S (e_l h)) eqn:Sl, (S (e_r h)) eqn:Sr; try congruence.
      - apply in_classb_true in Sl. destruct Sl as [sl' Hsl'].
        assert (Hcr_ne : Ci <> cr').
        { intro Heq. subst cr'. assert (S (e_r h) = true) by (apply in_classb_true; eauto). congruence. }
        destruct (cross_is_candidate h (e_l h) Ci sl' (e_r h) cr' sr HhE Hha Hsl' Hcr' Hcr_ne HG) as (r & Hr1 & Hr2 & Hr3); [left; auto|].
        pose proof (Hmax r Hr1 Hr2) as Hle.
        rewrite (le_req le Hord h e0 (row_edge r) e0 Hr3 (or_introl eq_refl)) in Hle. congruence.
      - apply in_classb_true in Sr. destruct Sr as [sr' Hsr'].
        assert (Hcl_ne : Ci <> cl').
        { intro Heq. subst cl'. assert (S (e_l h) = true) by (apply in_classb_true; eauto). congruence. }
        destruct (cross_is_candidate h (e_r h) Ci sr' (e_l h) cl' sl HhE Hha Hsr' Hcl' Hcl_ne (eq_sym HG)) as (r & Hr1 & Hr2 & Hr3); [right; auto|].
        pose proof (Hmax r Hr1 Hr2) as Hle.
        rewrite (le_req le Hord h e0 (row_edge r) e0 Hr3 (or_introl eq_refl)) in Hle. congruence.
    Qed.

    (* KEY: an accepted row joins two records of one greedy cluster *)
    Lemma accepted_same_G : forall a, In a acc -> G (c_node a) = G (c_nb a).
    Proof.
      intros a Ha. destruct (acc_in _ _ _ _ _ _ _ Ha) as (Hc & _ & _).
      destruct (cand_prov dfs thr E t a Hc)
        as (i & e & rl & rr & Hie & Hab & Hrl & Hrr & Hla & Hra & Hne & Hns & Hpa & Hna & Hba & Hd).
      apply indexed_bounds in Hie. destruct Hie as [_ HeE].
      destruct rl as [[u X] su], rr as [[y Y] sy]. unfold rr_rep, rr_node in *. cbn [fst snd] in *.
      assert (Hnu : In (u, su) nodes) by (apply Hrecs; eauto).
      assert (Hny : In (y, sy) nodes) by (apply Hrecs; eauto).
      assert (Hends : (e_l e = u /\ e_r e = y) \/ (e_l e = y /\ e_r e = u)).
      { destruct Hd as [(_ & H1 & H2)|(_ & H1 & H2)]; [left|right]; split; congruence. }
      assert (Hu : usable thr nodes e = true).
      { unfold usable. rewrite Hab. cbn [andb].
        destruct Hends as [[-> ->]|[-> ->]]; apply andb_true_iff; split; apply is_node_true; eauto. }
      assert (HeL : In e L) by (apply L_in; auto).
      destruct (sorted_split le L e L_sorted HeL) as (L1 & L2 & HL & Hheavy).
      assert (HGe : G (e_l e) = G (e_r e)).
      { unfold G. rewrite HL. rewrite greedy_app. cbn [fold_left]. apply fold_mono.
        set (cl1 := greedy dfs nodes L1). unfold g_step. fold cl1.
        destruct ((cl1 (e_l e) =? cl1 (e_r e)) || g_conflict dfs nodes cl1 (cl1 (e_l e)) (cl1 (e_r e))) eqn:Ec.
        - apply orb_true_iff in Ec. destruct Ec as [Ec|Ec]; [apply Z.eqb_eq; exact Ec|exfalso].
          apply g_conflict_true in Ec. destruct Ec as (d & Hd' & Hf1 & Hf2).
          apply g_flag_true in Hf1, Hf2.
          destruct Hf1 as ([n1 s1] & Hn1 & Hc1 & Hs1), Hf2 as ([n2 s2] & Hn2 & Hc2 & Hs2).
          unfold n_id, n_sds in *. cbn [fst snd] in *. subst s1 s2.
          assert (Hqa : req e (row_edge a)) by (apply (cand_req a i e Hpa Hd)).
          assert (HmaxX : forall r, In r rows -> c_lrep r = X -> le (row_edge r) e = true).
          { intros r Hr1 Hr2. rewrite <- (le_req le Hord (row_edge r) e (row_edge r) (row_edge a) (or_introl eq_refl) Hqa).
            apply acc_p_max_l; auto. congruence. }
          assert (HmaxY : forall r, In r rows -> c_lrep r = Y -> le (row_edge r) e = true).
          { intros r Hr1 Hr2. rewrite <- (le_req le Hord (row_edge r) e (row_edge r) (row_edge a) (or_introl eq_refl) Hqa).
            apply acc_p_max_leaving_r; auto. congruence. }
          destruct Hends as [[Hel Her]|[Hel Her]].
          + rewrite Hel in Hc1. rewrite Her in Hc2.
            pose proof (in_class_of_cut L1 e L2 u X su n1 d HL Hheavy Hrl HmaxX Hn1 Hc1) as H1.
            pose proof (in_class_of_cut L1 e L2 y Y sy n2 d HL Hheavy Hrr HmaxY Hn2 Hc2) as H2.
            apply (Hns d Hd'). split; apply contains_flag_true; [exists (n1, X, d)|exists (n2, Y, d)]; auto.
          + rewrite Hel in Hc1. rewrite Her in Hc2.
            pose proof (in_class_of_cut L1 e L2 y Y sy n1 d HL Hheavy Hrr HmaxY Hn1 Hc1) as H1.
            pose proof (in_class_of_cut L1 e L2 u X su n2 d HL Hheavy Hrl HmaxX Hn2 Hc2) as H2.
            apply (Hns d Hd'). split; apply contains_flag_true; [exists (n2, X, d)|exists (n1, Y, d)]; auto.
        - apply orb_false_iff in Ec. destruct Ec as [Ec _]. cbn beta. rewrite Ec, Z.eqb_refl. reflexivity. }
      rewrite Hna, Hba. destruct Hends as [[<- <-]|[<- <-]]; [exact HGe|symmetry; exact HGe].
    Qed.

    Lemma Minv_step : Minv (strip (oto_step dfs nbs chl chr it t)).
    Proof.
      intros v w c s s' Hv Hw. apply strip_step_in in Hv, Hw.
      destruct Hv as [cv [Hpv Hcv]], Hw as [cw [Hpw Hcw]].
      assert (Hcase : forall x cx sx, In (x, cx, sx) t -> c = minl (vals dfs nbs chl chr it t x) ->
                exists y sy, In (y, c, sy) t /\ G x = G y).
      { intros x cx sx Hpx Hcx.
        destruct (new_rep_cases dfs nbs chl chr it t Hnd x cx sx Hpx) as [E1|(a & r & Ha & Hr' & Hn & Hb & Hrep)].
        - exists x, sx. split; [|reflexivity]. rewrite Hcx, E1. exact Hpx.
        - destruct r as [[y cy] sy]. unfold rr_node, rr_rep in *. cbn [fst snd] in *.
          exists y, sy. split; [rewrite Hcx, <- Hrep; exact Hr'|].
          rewrite <- Hn, <- Hb. apply accepted_same_G. exact Ha. }
      destruct (Hcase v cv s Hpv Hcv) as (y1 & sy1 & Hy1 & HG1).
      destruct (Hcase w cw s' Hpw Hcw) as (y2 & sy2 & Hy2 & HG2).
      rewrite HG1, HG2. apply (HM y1 y2 c sy1 sy2 Hy1 Hy2).
    Qed.
  End State.

  (* ---------------------------------------------------------------- through the loop *)
  Let init := df_representatives nodes.
  Definition inv2 (t : list reprow) : Prop := inv dfs init t /\ Minv t.

  Lemma recs_of_inv : forall t, inv dfs init t -> recs t.
  Proof.
    intros t (_ & Hsame & _) v s. unfold init in Hsame. rewrite init_records. apply Hsame.
  Qed.

  Lemma inv2_init : inv2 init.
  Proof.
    split; [apply inv_init; assumption|].
    intros v w c s s' Hv Hw. unfold init, df_representatives in Hv, Hw. apply in_map_iff in Hv, Hw.
    destruct Hv as [n1 [H1 _]], Hw as [n2 [H2 _]]. inversion H1; inversion H2; subst. congruence.
  Qed.

  Lemma inv2_step : forall it t, inv2 t -> inv2 (strip (oto_step dfs nbs chl chr it t)).
  Proof.
    intros it t [Hi HM]. split; [apply inv_step; assumption|].
    apply Minv_step; [apply Hi|apply recs_of_inv; assumption|assumption].
  Qed.

  Lemma inv2_loop : forall fuel it t out,
    inv2 t -> oto_loop dfs nbs chl chr fuel it t = Some out -> inv2 out.
  Proof.
    induction fuel; intros it t out Hi H; cbn [oto_loop] in H; [discriminate|].
    destruct (Nat.eqb _ 0).
    - inversion H; subst. apply inv2_step. assumption.
    - eapply IHfuel; [|exact H]. apply inv2_step. assumption.
  Qed.

  Lemma inv2_iter : forall k it t, inv2 t -> inv2 (oto_iter dfs nbs chl chr k it t).
  Proof. induction k; intros it t H; cbn [oto_iter]; [assumption|]. apply IHk. apply inv2_step. assumption. Qed.

  (* the label of a class is a record of the same greedy cluster, not above any member *)
  Definition Ninv (t : list reprow) : Prop :=
    forall v c s, In (v, c, s) t -> G v = G c /\ c <= v /\ is_node nodes c = true.

  Lemma Ninv_init : Ninv init.
  Proof.
    intros v c s Hin. unfold init, df_representatives in Hin. apply in_map_iff in Hin.
    destruct Hin as [[n sn] [Heq Hn]]. unfold n_id, n_sds in Heq. cbn [fst snd] in Heq. inversion Heq; subst.
    split; [reflexivity|]. split; [lia|]. apply is_node_true. eauto.
  Qed.

  Lemma Ninv_step : forall it t, inv2 t -> Ninv t -> Ninv (strip (oto_step dfs nbs chl chr it t)).
  Proof.
    intros it t [Hi HM] HN v c s Hin. pose proof Hi as (Hnd & _ & _).
    apply strip_step_in in Hin. destruct Hin as [c0 [Hp ->]].
    pose proof (new_rep_le dfs nbs chl chr it t v c0 s Hp) as Hle.
    destruct (HN v c0 s Hp) as (HG0 & Hc0 & Hn0).
    destruct (new_rep_cases dfs nbs chl chr it t Hnd v c0 s Hp) as [E1|(a & r & Ha & Hr' & Hn & Hb & Hrep)].
    - rewrite E1. auto.
    - destruct r as [[y cy] sy]. unfold rr_node, rr_rep in *. cbn [fst snd] in *. rewrite <- Hrep.
      destruct (HN y cy sy Hr') as (HGy & _ & Hny). split; [|split; [lia|assumption]].
      rewrite <- HGy, <- Hn, <- Hb. apply (accepted_same_G it t Hnd (recs_of_inv t Hi) HM). exact Ha.
  Qed.

  Lemma Ninv_loop : forall fuel it t out,
    inv2 t -> Ninv t -> oto_loop dfs nbs chl chr fuel it t = Some out -> Ninv out.
  Proof.
    induction fuel; intros it t out Hi HN H; cbn [oto_loop] in H; [discriminate|].
    destruct (Nat.eqb _ 0).
    - inversion H; subst. apply Ninv_step; assumption.
    - eapply IHfuel; [| |exact H]; [apply inv2_step|apply Ninv_step]; assumption.
  Qed.

  Section Exit.
    Variable fuel : nat.
    Variable out : list reprow.
    Hypothesis Hloop : oto_loop dfs nbs chl chr fuel 1 init = Some out.

    Lemma out_inv2 : inv2 out.
    Proof. apply (inv2_loop fuel 1 init out inv2_init Hloop). Qed.

    (* the final partition IS the greedy partition *)
    Lemma refines_greedy_exit : forall v c s w c' s',
      In (v, c, s) out -> In (w, c', s') out -> (c = c' <-> G v = G w).
    Proof.
      intros v c s w c' s' Hv Hw. destruct out_inv2 as [Hi HM]. pose proof Hi as (Hnd & _ & _).
      pose proof (recs_of_inv out Hi) as Hrecs. split.
      - intros <-. apply (HM v w c s s' Hv Hw).
      - intros HG. destruct (Z.eq_dec c c') as [Heq|Hne]; [assumption|exfalso].
        set (S := in_classb out c).
        assert (HSv : S v = true) by (apply in_classb_true; eauto).
        assert (HSw : S w = false).
        { apply not_true_is_false. intro H. apply in_classb_true in H. destruct H as [s2 Hs2].
          assert (Heq : (w, c, s2) = (w, c', s')) by (apply nodup_key_unique with out; auto).
          inversion Heq. contradiction. }
        destruct (sep dfs nodes S L v w HG HSv HSw) as (h & Hh & Hhl & Hhr & HS). fold G in Hhl, Hhr.
        apply L_in in Hh. destruct Hh as [HhE Hhu].
        destruct (usable_ok h HhE Hhu) as (_ & Hha & Hnl & Hnr).
        apply is_node_true in Hnl, Hnr. destruct Hnl as [sl Hnl], Hnr as [sr Hnr].
        destruct (proj1 (Hrecs _ _) Hnl) as [cl' Hcl'], (proj1 (Hrecs _ _) Hnr) as [cr' Hcr'].
        assert (HGh : G (e_l h) = G (e_r h)) by congruence.
        assert (Hne' : cl' <> cr').
        { intro Heq. subst cr'. apply HS. unfold S.
          destruct (in_classb out c (e_l h)) eqn:E1.
          - apply in_classb_true in E1. destruct E1 as [s1 Hs1].
            assert (Hx : (e_l h, c, s1) = (e_l h, cl', sl)) by (apply nodup_key_unique with out; auto).
            inversion Hx; subst. symmetry. apply in_classb_true. eauto.
          - symmetry. apply not_true_is_false. intro E2. apply in_classb_true in E2. destruct E2 as [s2 Hs2].
            assert (Hx : (e_r h, c, s2) = (e_r h, cl', sr)) by (apply nodup_key_unique with out; auto).
            inversion Hx; subst. assert (in_classb out cl' (e_l h) = true) by (apply in_classb_true; eauto). congruence. }
        pose proof (flags_disjoint_same_G out Hnd Hrecs HM _ _ _ _ _ _ Hcl' Hcr' Hne' HGh) as Hns.
        apply (maximal_ranked le Hord dfs thr chl chr fuel nodes E out Hnd0 Htf Hl Hr Hloop (e_l h) (e_r h)).
        split.
        + exists h. split; [assumption|]. split; [assumption|]. left. auto.
        + exists cl', cr', sl, sr. split; [assumption|]. split; [assumption|]. split; [assumption|]. exact Hns.
    Qed.

    Lemma connected_tiefree_exit : forall v w c s s',
      In (v, c, s) out -> In (w, c, s') out -> conn_in thr E (in_class out c) v w.
    Proof.
      intros v w c s s' Hv Hw. destruct out_inv2 as [Hi HM].
      pose proof (recs_of_inv out Hi) as Hrecs.
      assert (Hnv : is_node nodes v = true) by (apply is_node_true; exists s; apply Hrecs; eauto).
      assert (Hnw : is_node nodes w = true) by (apply is_node_true; exists s'; apply Hrecs; eauto).
      pose proof (gconn dfs nodes thr E L L_ok v w Hnv Hnw (HM v w c s s' Hv Hw)) as Hc. fold G in Hc.
      apply conn_weaken with (P := fun z => is_node nodes z = true /\ G z = G v); [|exact Hc].
      intros z [Hz HGz]. apply is_node_true in Hz. destruct Hz as [sz Hz].
      destruct (proj1 (Hrecs _ _) Hz) as [cz Hcz]. exists sz.
      assert (cz = c) by (apply (proj2 (refines_greedy_exit z cz sz v c s Hcz Hv)); exact HGz).
      subst. assumption.
    Qed.
    (* the cluster id is the least record of the cluster (and belongs to it) *)
    Lemma cluster_id_is_min_exit : forall v c s, In (v, c, s) out ->
      (exists sc, In (c, c, sc) out) /\ forall w s', In (w, c, s') out -> c <= w.
    Proof.
      intros v c s Hv. pose proof (Ninv_loop fuel 1 init out inv2_init Ninv_init Hloop) as HN.
      destruct out_inv2 as [Hi HM]. pose proof (recs_of_inv out Hi) as Hrecs. split.
      - destruct (HN v c s Hv) as (HG & _ & Hn). apply is_node_true in Hn. destruct Hn as [sc Hn].
        destruct (proj1 (Hrecs _ _) Hn) as [c' Hc']. exists sc.
        assert (c' = c) by (apply (proj2 (refines_greedy_exit c c' sc v c s Hc' Hv)); symmetry; exact HG).
        subst. assumption.
      - intros w s' Hw. apply (HN w c s' Hw).
    Qed.
  End Exit.
End Refinement.

(* ------------------------------------------------------------------ closed forms *)
Lemma refines_greedy_ranked : forall le, rank_order le -> forall dfs thr (chl chr : chooser) fuel nodes E out,
  NoDup (map n_id nodes) -> strict_rank le E -> rank1_ok_for le chl -> rank1_ok_for le chr ->
  oto_loop dfs (df_neighbours thr E) chl chr fuel 1 (df_representatives nodes) = Some out ->
  forall v c s w c' s', In (v, c, s) out -> In (w, c', s') out ->
    (c = c' <-> greedy_clusters le dfs thr nodes E v = greedy_clusters le dfs thr nodes E w).
Proof.
  intros le Hord dfs thr chl chr fuel nodes E out Hnd Htf Hl Hr Hloop.
  apply (refines_greedy_exit dfs thr nodes E le Hord Hnd Htf chl chr Hl Hr fuel out Hloop).
Qed.

Lemma connected_ranked : forall le, rank_order le -> forall dfs thr (chl chr : chooser) fuel nodes E out,
  NoDup (map n_id nodes) -> strict_rank le E -> rank1_ok_for le chl -> rank1_ok_for le chr ->
  oto_loop dfs (df_neighbours thr E) chl chr fuel 1 (df_representatives nodes) = Some out ->
  forall v w c s s', In (v, c, s) out -> In (w, c, s') out -> conn_in thr E (in_class out c) v w.
Proof.
  intros le Hord dfs thr chl chr fuel nodes E out Hnd Htf Hl Hr Hloop.
  apply (connected_tiefree_exit dfs thr nodes E le Hord Hnd Htf chl chr Hl Hr fuel out Hloop).
Qed.

Lemma cluster_id_is_min_ranked : forall le, rank_order le -> forall dfs thr (chl chr : chooser) fuel nodes E out,
  NoDup (map n_id nodes) -> strict_rank le E -> rank1_ok_for le chl -> rank1_ok_for le chr ->
  oto_loop dfs (df_neighbours thr E) chl chr fuel 1 (df_representatives nodes) = Some out ->
  forall v c s, In (v, c, s) out ->
    (exists sc, In (c, c, sc) out) /\ forall w s', In (w, c, s') out -> c <= w.
Proof.
  intros le Hord dfs thr chl chr fuel nodes E out Hnd Htf Hl Hr Hloop.
  apply (cluster_id_is_min_exit dfs thr nodes E le Hord Hnd Htf chl chr Hl Hr fuel out Hloop).
Qed.

(* order by match_probability desc, pairwise distinct probabilities *)
Lemma refines_greedy : forall dfs thr (chl chr : chooser) fuel nodes E out,
  NoDup (map n_id nodes) -> tie_free E -> rank1_ok chl -> rank1_ok chr ->
  oto_loop dfs (df_neighbours thr E) chl chr fuel 1 (df_representatives nodes) = Some out ->
  forall v c s w c' s', In (v, c, s) out -> In (w, c', s') out ->
    (c = c' <-> greedy_clusters le_prob dfs thr nodes E v = greedy_clusters le_prob dfs thr nodes E w).
Proof.
  intros dfs thr chl chr fuel nodes E out Hnd Htf Hl Hr.
  apply (refines_greedy_ranked le_prob le_prob_order); auto using tie_free_strict, rank1_ok_prob.
Qed.

Lemma connected_tiefree : forall dfs thr (chl chr : chooser) fuel nodes E out,
  NoDup (map n_id nodes) -> tie_free E -> rank1_ok chl -> rank1_ok chr ->
  oto_loop dfs (df_neighbours thr E) chl chr fuel 1 (df_representatives nodes) = Some out ->
  forall v w c s s', In (v, c, s) out -> In (w, c, s') out -> conn_in thr E (in_class out c) v w.
Proof.
  intros dfs thr chl chr fuel nodes E out Hnd Htf Hl Hr.
  apply (connected_ranked le_prob le_prob_order); auto using tie_free_strict, rank1_ok_prob.
Qed.

(* order by match_probability desc, least(ids), greatest(ids): ties in probability allowed, as long
   as no pair of records is listed twice with the same probability *)
Lemma connected_tiebreak : forall dfs thr (chl chr : chooser) fuel nodes E out,
  NoDup (map n_id nodes) -> nodup_pairs E -> rank1_ok_for le_tiebreak chl -> rank1_ok_for le_tiebreak chr ->
  oto_loop dfs (df_neighbours thr E) chl chr fuel 1 (df_representatives nodes) = Some out ->
  forall v w c s s', In (v, c, s) out -> In (w, c, s') out -> conn_in thr E (in_class out c) v w.
Proof.
  intros dfs thr chl chr fuel nodes E out Hnd Htf Hl Hr.
  apply (connected_ranked le_tiebreak le_tiebreak_order); auto using nodup_pairs_strict.
Qed.

Lemma maximal_tiebreak : forall dfs thr (chl chr : chooser) fuel nodes E out,
  NoDup (map n_id nodes) -> nodup_pairs E -> rank1_ok_for le_tiebreak chl -> rank1_ok_for le_tiebreak chr ->
  oto_loop dfs (df_neighbours thr E) chl chr fuel 1 (df_representatives nodes) = Some out ->
  forall v w, ~ admissible_cross dfs thr E out v w.
Proof.
  intros dfs thr chl chr fuel nodes E out Hnd Htf Hl Hr.
  apply (maximal_ranked le_tiebreak le_tiebreak_order); auto using nodup_pairs_strict.
Qed.

Lemma refines_greedy_tiebreak : forall dfs thr (chl chr : chooser) fuel nodes E out,
  NoDup (map n_id nodes) -> nodup_pairs E -> rank1_ok_for le_tiebreak chl -> rank1_ok_for le_tiebreak chr ->
  oto_loop dfs (df_neighbours thr E) chl chr fuel 1 (df_representatives nodes) = Some out ->
  forall v c s w c' s', In (v, c, s) out -> In (w, c', s') out ->
    (c = c' <-> greedy_clusters le_tiebreak dfs thr nodes E v = greedy_clusters le_tiebreak dfs thr nodes E w).
Proof.
  intros dfs thr chl chr fuel nodes E out Hnd Htf Hl Hr.
  apply (refines_greedy_ranked le_tiebreak le_tiebreak_order); auto using nodup_pairs_strict.
Qed.
