(* Axiom-free lemmas about the EM model (Model/EM.v): the SQL-shaped M-step is the reference EM,
   normalisation, fixed parameters, agreement-pattern path, deactivation, median aggregation,
   blocking-adjusted prior.  The generic sumQ / group-by lemmas are shared with
   Proofs/EMLikelihood.v (everything used from there is proved over Q, without the reals). *)
From Coq Require Import String Ascii.
From Coq Require Import List ZArith QArith Qreduction Qabs Bool Arith Lia Permutation Sorted Lqa.
From Splinkv Require Import Model.EM Proofs.EMLikelihood.
Import ListNotations.
Open Scope Q_scope.

(* ------------------------------------------------------------------------------------ *)
(* 1. SQL-shaped M-step = reference EM                                                   *)
(* ------------------------------------------------------------------------------------ *)

Lemma mapi_from_ext {A B : Type} (f g : nat -> A -> B) l : forall k,
  (forall i x, In x l -> f i x = g i x) -> mapi_from f k l = mapi_from g k l.
Proof.
  induction l as [|x t IH]; intros k H; cbn; [reflexivity|].
  rewrite (H k x (or_introl eq_refl)), (IH (S k)); [reflexivity|].
  intros i y Hy. apply H. right. exact Hy.
Qed.

Lemma new_m_ref fl i sc l : lv_val l <> (-1)%Z ->
  new_m fl (props_tbl i sc) l = (if fix_m fl || lv_fixm l then lv_m l else ref_m i (lv_val l) sc).
Proof.
  intros Hv. unfold new_m, ref_m. destruct (fix_m fl || lv_fixm l); [reflexivity|].
  destruct (observed i (lv_val l) sc) eqn:O.
  - rewrite (lookup_props i sc (lv_val l) O Hv). cbn [cr_m fst snd]. f_equal.
    apply Qred_complete. rewrite tbl_sum_m. reflexivity.
  - rewrite (lookup_unobserved i sc (lv_val l) O). reflexivity.
Qed.

Lemma new_u_ref fl i sc l : lv_val l <> (-1)%Z ->
  new_u fl (props_tbl i sc) l = (if fix_u fl || lv_fixu l then lv_u l else ref_u i (lv_val l) sc).
Proof.
  intros Hv. unfold new_u, ref_u. destruct (fix_u fl || lv_fixu l); [reflexivity|].
  destruct (observed i (lv_val l) sc) eqn:O.
  - rewrite (lookup_props i sc (lv_val l) O Hv). cbn [cr_u fst snd]. f_equal.
    apply Qred_complete. rewrite tbl_sum_u. reflexivity.
  - rewrite (lookup_unobserved i sc (lv_val l) O). reflexivity.
Qed.

Definition no_null_values (p : params) : Prop :=
  forall c l, In c (cmps p) -> In l c -> lv_val l <> (-1)%Z.

Theorem mstep_is_reference_em fl p sc : no_null_values p -> mstep fl p sc = ref_mstep fl p sc.
Proof.
  intros H. unfold mstep, ref_mstep, lambda_new. f_equal.
  apply mapi_from_ext. intros i c Hc. apply map_ext_in. intros l Hl.
  unfold upd_level, ref_level. rewrite new_m_ref, new_u_ref by (eapply H; eauto). reflexivity.
Qed.

(* ------------------------------------------------------------------------------------ *)
(* 2. Normalisation                                                                      *)
(* ------------------------------------------------------------------------------------ *)

Definition pnum (v : pval) : Q := match v with Val q => q | NotObserved => 0 end.

Definition cmp_covers (i : nat) (sc : list srow) (c : cmp) : Prop :=
  NoDup (map lv_val c) /\ ~ In (-1)%Z (map lv_val c) /\
  (forall r, In r sc -> gi i r = (-1)%Z \/ In (gi i r) (map lv_val c)).

Lemma ref_term i sc (term : srow -> Q) v (D : Q) :
  pnum (if observed i v sc then Val (Qred (sumQ term (rows_at i v sc) / D)) else NotObserved)
  == sumQ term (rows_at i v sc) / D.
Proof.
  destruct (observed i v sc) eqn:O; cbn [pnum].
  - apply Qred_correct.
  - rewrite (rows_at_nil i v sc O), sumQ_nil. unfold Qdiv. ring.
Qed.

Theorem m_sums_to_one fl i sc c :
  cmp_covers i sc c -> fix_m fl = false -> (forall l, In l c -> lv_fixm l = false) ->
  ~ sumQ mterm (nonnull i sc) == 0 ->
  sumQ (fun l => pnum (new_m fl (props_tbl i sc) l)) c == 1.
Proof.
  intros (Hnd & Hn1 & Hcov) Hf Hlf HD.
  rewrite (sumQ_ext _ (fun l => sumQ mterm (rows_at i (lv_val l) sc) * / sumQ mterm (nonnull i sc))).
  - rewrite sumQ_scale_r, <- (sumQ_map lv_val (fun v => sumQ mterm (rows_at i v sc))).
    rewrite (group_vals i sc mterm (map lv_val c) Hnd Hn1 Hcov). field. exact HD.
  - intros l Hl. rewrite new_m_ref.
    + rewrite Hf, (Hlf l Hl). cbn [orb]. unfold ref_m. apply ref_term.
    + intros E. apply Hn1. rewrite <- E. apply in_map. exact Hl.
Qed.

Theorem u_sums_to_one fl i sc c :
  cmp_covers i sc c -> fix_u fl = false -> (forall l, In l c -> lv_fixu l = false) ->
  ~ sumQ uterm (nonnull i sc) == 0 ->
  sumQ (fun l => pnum (new_u fl (props_tbl i sc) l)) c == 1.
Proof.
  intros (Hnd & Hn1 & Hcov) Hf Hlf HD.
  rewrite (sumQ_ext _ (fun l => sumQ uterm (rows_at i (lv_val l) sc) * / sumQ uterm (nonnull i sc))).
  - rewrite sumQ_scale_r, <- (sumQ_map lv_val (fun v => sumQ uterm (rows_at i v sc))).
    rewrite (group_vals i sc uterm (map lv_val c) Hnd Hn1 Hcov). field. exact HD.
  - intros l Hl. rewrite new_u_ref.
    + rewrite Hf, (Hlf l Hl). cbn [orb]. unfold ref_u. apply ref_term.
    + intros E. apply Hn1. rewrite <- E. apply in_map. exact Hl.
Qed.

(* what the readers see (NotObserved reads 1e-6): the excess is exactly 1e-6 per level that the
   training pairs never showed *)
Definition unobserved_count (i : nat) (sc : list srow) (c : cmp) : Q :=
  sumQ (fun l => if observed i (lv_val l) sc then 0 else 1) c.

Theorem m_read_sums fl i sc c :
  cmp_covers i sc c -> fix_m fl = false -> (forall l, In l c -> lv_fixm l = false) ->
  ~ sumQ mterm (nonnull i sc) == 0 ->
  sumQ (fun l => rd (new_m fl (props_tbl i sc) l)) c == 1 + not_observed_read * unobserved_count i sc c.
Proof.
  intros Hc Hf Hlf HD. rewrite <- (m_sums_to_one fl i sc c Hc Hf Hlf HD).
  unfold unobserved_count. rewrite <- sumQ_scale_l, <- sumQ_plus. apply sumQ_ext. intros l Hl.
  destruct Hc as (_ & Hn1 & _).
  rewrite new_m_ref by (intros E; apply Hn1; rewrite <- E; apply in_map; exact Hl).
  rewrite Hf, (Hlf l Hl). cbn [orb]. unfold ref_m. destruct (observed i (lv_val l) sc); cbn [rd pnum]; ring.
Qed.

(* ------------------------------------------------------------------------------------ *)
(* 3. Fixed parameters do not move                                                       *)
(* ------------------------------------------------------------------------------------ *)

Lemma upd_level_fixed_m fl t l : fix_m fl = true \/ lv_fixm l = true -> lv_m (upd_level fl t l) = lv_m l.
Proof. intros [H|H]; cbn; unfold new_m; rewrite H; [reflexivity|rewrite orb_true_r; reflexivity]. Qed.
Lemma upd_level_fixed_u fl t l : fix_u fl = true \/ lv_fixu l = true -> lv_u (upd_level fl t l) = lv_u l.
Proof. intros [H|H]; cbn; unfold new_u; rewrite H; [reflexivity|rewrite orb_true_r; reflexivity]. Qed.

Lemma mstep_level fl p sc i c k l :
  nth_error (cmps p) i = Some c -> nth_error c k = Some l ->
  exists c', nth_error (cmps (mstep fl p sc)) i = Some c' /\
             nth_error c' k = Some (upd_level fl (props_tbl i sc) l).
Proof.
  intros Hc Hl. exists (updF fl sc i c). split.
  - rewrite mstep_cmps, nth_error_mapi, Hc. reflexivity.
  - unfold updF. rewrite nth_error_map, Hl. reflexivity.
Qed.

Theorem fixed_do_not_move fl p sc :
  (fix_lam fl = true -> lam (mstep fl p sc) = lam p) /\
  (forall i c k l, nth_error (cmps p) i = Some c -> nth_error c k = Some l ->
     exists c' l', nth_error (cmps (mstep fl p sc)) i = Some c' /\ nth_error c' k = Some l' /\
       lv_val l' = lv_val l /\
       (fix_m fl = true \/ lv_fixm l = true -> lv_m l' = lv_m l) /\
       (fix_u fl = true \/ lv_fixu l = true -> lv_u l' = lv_u l)).
Proof.
  split.
  - intros H. cbn. rewrite H. reflexivity.
  - intros i c k l Hc Hl. destruct (mstep_level fl p sc i c k l Hc Hl) as (c' & H1 & H2).
    exists c', (upd_level fl (props_tbl i sc) l). repeat split; auto.
    + apply upd_level_fixed_m.
    + apply upd_level_fixed_u.
Qed.

Lemma length_mapi_from {A B : Type} (f : nat -> A -> B) l : forall k, length (mapi_from f k l) = length l.
Proof. induction l; intros; cbn; [reflexivity|rewrite IHl; reflexivity]. Qed.

Lemma em_history_all (P : params -> Prop) fl conv data :
  (forall p, P p -> P (em_step fl p data)) ->
  forall fuel p, P p -> Forall P (em_history fl conv fuel p data).
Proof.
  intros Hstep. induction fuel as [|k IH]; intros p Hp; cbn.
  - constructor; [exact Hp|constructor].
  - destruct (Qlt_bool _ _).
    + repeat constructor; auto.
    + constructor; [exact Hp|]. apply IH. apply Hstep. exact Hp.
Qed.

(* along a whole session: with fix_lam the prior never moves; with fix_m (fix_u) no m (u) moves *)
Theorem fixed_along_history fl conv fuel p data :
  (fix_lam fl = true -> Forall (fun q => lam q = lam p) (em_history fl conv fuel p data)) /\
  (fix_m fl = true -> Forall (fun q => map (map lv_m) (cmps q) = map (map lv_m) (cmps p)) (em_history fl conv fuel p data)) /\
  (fix_u fl = true -> Forall (fun q => map (map lv_u) (cmps q) = map (map lv_u) (cmps p)) (em_history fl conv fuel p data)).
Proof.
  assert (G : forall (proj : level -> pval),
            (forall t l, proj (upd_level fl t l) = proj l) ->
            forall q sc, map (map proj) (cmps (mstep fl q sc)) = map (map proj) (cmps q)).
  { intros proj Hp q sc. rewrite mstep_cmps. generalize 0%nat. induction (cmps q) as [|c t IH]; intros k; cbn; [reflexivity|].
    rewrite IH. f_equal. unfold updF. rewrite map_map. apply map_ext. intros l. apply Hp. }
  repeat split; intros H; apply em_history_all; try reflexivity.
  - intros q Hq. unfold em_step. cbn. rewrite H. exact Hq.
  - intros q Hq. unfold em_step. rewrite G; [exact Hq|]. intros t l. apply upd_level_fixed_m. left. exact H.
  - intros q Hq. unfold em_step. rewrite G; [exact Hq|]. intros t l. apply upd_level_fixed_u. left. exact H.
Qed.

(* ------------------------------------------------------------------------------------ *)
(* 4. Agreement-pattern path = row-wise path                                             *)
(* ------------------------------------------------------------------------------------ *)

Lemma gvec_eqb_true a b : gvec_eqb a b = true <-> a = b.
Proof. unfold gvec_eqb. destruct (list_eq_dec Z.eq_dec a b); split; congruence. Qed.
Lemma gvec_eqb_sym a b : gvec_eqb a b = gvec_eqb b a.
Proof. apply bool_eq_iff. rewrite !gvec_eqb_true. split; congruence. Qed.

Definition cnt (g : list Z) (rows : list (list Z)) : nat := length (filter (gvec_eqb g) rows).

Lemma sumQ_ite_gvec (x : list Z) (F : list Z -> Q) ks :
  NoDup ks ->
  sumQ (fun k => if gvec_eqb k x then F k else 0) ks == if existsb (gvec_eqb x) ks then F x else 0.
Proof.
  induction 1 as [|v t Hv _ IH]; sq; cbn [existsb]; [reflexivity|].
  rewrite (gvec_eqb_sym x v). destruct (gvec_eqb v x) eqn:E; cbn [orb].
  - apply gvec_eqb_true in E. subst v.
    rewrite sumQ_zero; [ring|]. intros y Hy. destruct (gvec_eqb y x) eqn:E'; [|reflexivity].
    apply gvec_eqb_true in E'. subst y. contradiction.
  - rewrite IH. ring.
Qed.

Lemma group_count (F : list Z -> Q) ks rows :
  NoDup ks ->
  sumQ (fun k => F k * inject_Z (Z.of_nat (cnt k rows))) ks
  == sumQ F (filter (fun x => existsb (gvec_eqb x) ks) rows).
Proof.
  intros Hnd. induction rows as [|x t IH].
  - cbn [filter]. sq. apply sumQ_zero. intros k _. unfold cnt. cbn. ring.
  - rewrite (sumQ_ext _ (fun k => (if gvec_eqb k x then F k else 0) + F k * inject_Z (Z.of_nat (cnt k t)))).
    + rewrite sumQ_plus, IH, (sumQ_ite_gvec x F ks Hnd). cbn [filter].
      destruct (existsb (gvec_eqb x) ks); sq; ring.
    + intros k _. unfold cnt. cbn [filter]. destruct (gvec_eqb k x); cbn [length]; [|ring].
      rewrite Nat2Z.inj_succ. unfold Z.succ. rewrite inject_Z_plus. ring.
Qed.

Lemma cnt_pos g rows : In g rows -> (1 <= cnt g rows)%nat.
Proof.
  intros H. unfold cnt. assert (In g (filter (gvec_eqb g) rows)) as H1.
  { apply filter_In. split; [exact H|]. apply gvec_eqb_true. reflexivity. }
  destruct (filter (gvec_eqb g) rows); [destruct H1|cbn; lia].
Qed.

Lemma pos_of_nat_Z n : (1 <= n)%nat -> Zpos (Pos.of_nat n) = Z.of_nat n.
Proof. intros H. destruct n; [lia|]. rewrite <- Pos.of_nat_succ. rewrite Zpos_P_of_succ_nat. lia. Qed.

Definition sums_agree (term : srow -> Q) (sc1 sc2 : list srow) : Prop :=
  forall q : list Z -> bool,
    sumQ term (filter (fun r => q (sg r)) sc1) == sumQ term (filter (fun r => q (sg r)) sc2).

(* a term that is linear in the weight: term (g, w, p) == F g p * w *)
Lemma pattern_sums (term : srow -> Q) (post : list Z -> Q) rows :
  (forall g w, term (g, w, post g) == term (g, 1, post g) * w) ->
  sums_agree term (map (fun x : list Z * positive => (fst x, inject_Z (Zpos (snd x)), post (fst x))) (count_patterns rows))
                  (map (fun g => (g, 1, post g)) rows).
Proof.
  intros Hlin q. unfold count_patterns.
  rewrite map_map. cbn [fst snd].
  rewrite !filter_map_comm, !sumQ_map. cbn [sg fst snd].
  set (ks := filter q (nodup (list_eq_dec Z.eq_dec) rows)).
  assert (Hnd : NoDup ks) by (apply NoDup_filter, NoDup_nodup).
  rewrite (sumQ_ext _ (fun k => term (k, 1, post k) * inject_Z (Z.of_nat (cnt k rows)))).
  - rewrite (group_count (fun k => term (k, 1, post k)) ks rows Hnd).
    assert (E : filter (fun x => existsb (gvec_eqb x) ks) rows = filter q rows).
    { apply filter_ext_in. intros x Hx. apply bool_eq_iff. rewrite existsb_exists. split.
      - intros (y & Hy & Exy). apply gvec_eqb_true in Exy. subst y. apply filter_In in Hy. tauto.
      - intros Hq. exists x. split; [|apply gvec_eqb_true; reflexivity].
        apply filter_In. split; [apply nodup_In; exact Hx|exact Hq]. }
    rewrite E. reflexivity.
  - intros k Hk. apply filter_In in Hk as [Hk _]. apply nodup_In in Hk.
    rewrite Hlin. fold (cnt k rows). rewrite (pos_of_nat_Z _ (cnt_pos k rows Hk)). reflexivity.
Qed.

Lemma filter_true {A : Type} (l : list A) : filter (fun _ => true) l = l.
Proof. induction l; cbn; congruence. Qed.

Lemma Qdiv_compat a a' b b' : a == a' -> b == b' -> Qred (a / b) = Qred (a' / b').
Proof. intros Ha Hb. apply Qred_complete. rewrite Ha, Hb. reflexivity. Qed.

Lemma ref_mstep_ext fl p sc1 sc2 :
  sums_agree mterm sc1 sc2 -> sums_agree uterm sc1 sc2 -> sums_agree sw sc1 sc2 ->
  (forall i v, observed i v sc1 = observed i v sc2) ->
  ref_mstep fl p sc1 = ref_mstep fl p sc2.
Proof.
  intros Hm Hu Hw Ho. unfold ref_mstep. f_equal.
  - destruct (fix_lam fl); [reflexivity|]. apply Qdiv_compat.
    + specialize (Hm (fun _ => true)). rewrite !filter_true in Hm. exact Hm.
    + specialize (Hw (fun _ => true)). rewrite !filter_true in Hw. exact Hw.
  - apply mapi_from_ext. intros i c _. apply map_ext. intros l. unfold ref_level. f_equal.
    + destruct (fix_m fl || lv_fixm l); [reflexivity|]. unfold ref_m. rewrite Ho.
      destruct (observed i (lv_val l) sc2); [|reflexivity]. f_equal. apply Qdiv_compat.
      * apply (Hm (fun g => Z.eqb (nth i g (-1)%Z) (lv_val l))).
      * apply (Hm (fun g => negb (Z.eqb (nth i g (-1)%Z) (-1)))).
    + destruct (fix_u fl || lv_fixu l); [reflexivity|]. unfold ref_u. rewrite Ho.
      destruct (observed i (lv_val l) sc2); [|reflexivity]. f_equal. apply Qdiv_compat.
      * apply (Hu (fun g => Z.eqb (nth i g (-1)%Z) (lv_val l))).
      * apply (Hu (fun g => negb (Z.eqb (nth i g (-1)%Z) (-1)))).
Qed.

Theorem pattern_path_eq_rowwise fl p rows :
  no_null_values p ->
  mstep fl p (estep p (pattern_data (count_patterns rows))) = mstep fl p (estep p (rowwise_data rows)).
Proof.
  intros Hnn. rewrite !mstep_is_reference_em by exact Hnn.
  unfold estep, pattern_data, rowwise_data. rewrite !map_map. cbn [dg dw dtf fst snd].
  set (post := fun g => posterior p g []).
  apply ref_mstep_ext.
  - apply (pattern_sums mterm post). intros g w. unfold mterm. cbn. ring.
  - apply (pattern_sums uterm post). intros g w. unfold uterm. cbn. ring.
  - apply (pattern_sums sw post). intros g w. unfold sw. cbn. ring.
  - intros i v. apply bool_eq_iff. rewrite !observed_true. unfold count_patterns. split.
    + intros (r & Hr & E). apply in_map_iff in Hr as (x & <- & Hx). apply in_map_iff in Hx as (g & <- & Hg).
      apply nodup_In in Hg. exists (g, 1, post g). split; [|exact E]. apply in_map_iff. exists g. tauto.
    + intros (r & Hr & E). apply in_map_iff in Hr as (g & <- & Hg).
      exists (g, inject_Z (Zpos (Pos.of_nat (length (filter (gvec_eqb g) rows)))), post g). split; [|exact E].
      apply in_map_iff. exists (g, Pos.of_nat (length (filter (gvec_eqb g) rows))). split; [reflexivity|].
      apply in_map_iff. exists g. split; [reflexivity|]. apply nodup_In. exact Hg.
Qed.

(* ------------------------------------------------------------------------------------ *)
(* 5. Deactivated comparisons                                                            *)
(* ------------------------------------------------------------------------------------ *)

Lemma append_trained_deact fl br : forall cs finals k c,
  nth_error cs k = Some c -> deactivated br c = true ->
  nth_error (append_trained fl br finals cs) k = Some c.
Proof.
  induction cs as [|a t IH]; intros finals k c Hk Hd; [destruct k; discriminate|].
  cbn [append_trained]. destruct k as [|k]; cbn [nth_error] in *.
  - injection Hk as ->. rewrite Hd. reflexivity.
  - destruct (deactivated br a); [apply IH; assumption|].
    destruct finals; cbn [nth_error]; apply IH; assumption.
Qed.

Theorem deactivated_untouched nl nb fl conv n br data m k c :
  nth_error (md_cmps m) k = Some c -> deactivated br c = true ->
  nth_error (md_cmps (session nl nb fl conv n br data m)) k = Some (populate_cmp c).
Proof.
  intros Hk Hd. unfold session, finish_session, populate. cbn [md_cmps].
  rewrite nth_error_map, (append_trained_deact fl br _ _ k c Hk Hd). reflexivity.
Qed.

Lemma populate_level_idem l : populate_level (populate_level l) = populate_level l.
Proof.
  unfold populate_level. cbn [ml_lv ml_tm ml_tu ml_exact lv_m lv_u lv_fixm lv_fixu lv_val lv_tfu]. f_equal. f_equal.
  - destruct (median (numeric (ml_tm l))); [destruct (lv_fixm (ml_lv l))|]; reflexivity.
  - destruct (median (numeric (ml_tu l))); [destruct (lv_fixu (ml_lv l))|]; reflexivity.
Qed.

Lemma populate_cmp_idem c : populate_cmp (populate_cmp c) = populate_cmp c.
Proof.
  unfold populate_cmp. cbn. f_equal. rewrite map_map. apply map_ext. apply populate_level_idem.
Qed.

Theorem trained_only_active nl nb br m :
  cmps (start_params nl nb br m)
  = map (fun c => map ml_lv (mc_levels c)) (filter (fun c => negb (deactivated br c)) (md_cmps m)).
Proof. reflexivity. Qed.

(* ------------------------------------------------------------------------------------ *)
(* 6. Median aggregation                                                                 *)
(* ------------------------------------------------------------------------------------ *)

Lemma qinsert_perm x l : Permutation (qinsert x l) (x :: l).
Proof.
  induction l as [|y t IH]; cbn; [reflexivity|]. destruct (Qle_bool x y); [reflexivity|].
  rewrite IH. apply perm_swap.
Qed.

Lemma qsort_perm l : Permutation (qsort l) l.
Proof. induction l as [|x t IH]; cbn; [reflexivity|]. rewrite qinsert_perm, IH. reflexivity. Qed.

Lemma qinsert_sorted x l : StronglySorted Qle l -> StronglySorted Qle (qinsert x l).
Proof.
  induction 1 as [|y t Hs IH Hall]; cbn.
  - repeat constructor.
  - destruct (Qle_bool x y) eqn:E.
    + apply Qle_bool_iff in E. constructor; [constructor; assumption|].
      constructor; [exact E|]. eapply Forall_impl; [|exact Hall]. intros z Hz. eapply Qle_trans; eassumption.
    + assert (y <= x).
      { apply Qlt_le_weak, Qnot_le_lt. intros N. apply Qle_bool_iff in N. congruence. }
      constructor; [exact IH|]. apply Forall_forall. intros z Hz.
      apply (Permutation_in _ (qinsert_perm x t)) in Hz. destruct Hz as [<-|Hz]; [assumption|].
      rewrite Forall_forall in Hall. apply Hall. exact Hz.
Qed.

Lemma qsort_sorted l : StronglySorted Qle (qsort l).
Proof. induction l; cbn; [constructor|apply qinsert_sorted; assumption]. Qed.

Lemma sorted_unique l1 : forall l2,
  StronglySorted Qle l1 -> StronglySorted Qle l2 -> Permutation l1 l2 ->
  (forall x, In x l1 -> Qred x = x) -> l1 = l2.
Proof.
  induction l1 as [|a t IH]; intros l2 S1 S2 P R.
  - apply Permutation_nil in P. congruence.
  - destruct l2 as [|b t2]; [apply Permutation_sym, Permutation_nil in P; discriminate|].
    inversion S1 as [|? ? S1' F1]; subst. inversion S2 as [|? ? S2' F2]; subst.
    assert (Hab : a <= b).
    { assert (In b (a :: t)) as [->|Hb] by (eapply Permutation_in; [apply Permutation_sym; exact P|left; reflexivity]).
      - apply Qle_refl. - rewrite Forall_forall in F1. apply F1. exact Hb. }
    assert (Hba : b <= a).
    { assert (In a (b :: t2)) as [->|Ha] by (eapply Permutation_in; [exact P|left; reflexivity]).
      - apply Qle_refl. - rewrite Forall_forall in F2. apply F2. exact Ha. }
    assert (E : a = b).
    { rewrite <- (R a (or_introl eq_refl)).
      assert (In b (a :: t)) as Hb by (eapply Permutation_in; [apply Permutation_sym; exact P|left; reflexivity]).
      rewrite <- (R b Hb). apply Qred_complete. apply Qle_antisym; assumption. }
    subst b. f_equal. apply IH; auto.
    + eapply Permutation_cons_inv. exact P.
    + intros x Hx. apply R. right. exact Hx.
Qed.

Theorem median_perm l l' :
  Permutation l l' -> (forall x, In x l -> Qred x = x) -> median l = median l'.
Proof.
  intros P R. unfold median. replace (qsort l') with (qsort l); [reflexivity|].
  apply sorted_unique; try apply qsort_sorted.
  - etransitivity; [apply qsort_perm|]. etransitivity; [exact P|]. apply Permutation_sym, qsort_perm.
  - intros x Hx. apply R. eapply Permutation_in; [apply qsort_perm|exact Hx].
Qed.

Lemma numeric_reduced l x : In x (numeric l) -> Qred x = x.
Proof.
  unfold numeric. rewrite in_flat_map. intros ([q|] & _ & H); [|destruct H].
  destruct H as [<-|[]]. apply Qred_complete, Qred_correct.
Qed.

Lemma numeric_perm l l' : Permutation l l' -> Permutation (numeric l) (numeric l').
Proof.
  unfold numeric. induction 1; cbn.
  - reflexivity.
  - apply Permutation_app_head. assumption.
  - rewrite !app_assoc. apply Permutation_app_tail. apply Permutation_app_comm.
  - etransitivity; eassumption.
Qed.

(* the aggregated value does not depend on the order in which the sessions ran *)
Theorem median_aggregation_order l l' : Permutation l l' -> median (numeric l) = median (numeric l').
Proof. intros P. apply median_perm; [apply numeric_perm; exact P|apply numeric_reduced]. Qed.

(* after any session every level whose m (u) is not level-fixed and has at least one numeric
   estimate carries the median of its numeric estimates *)
Theorem session_sets_medians fl br final m c l :
  In c (md_cmps (finish_session fl br final m)) -> In l (mc_levels c) ->
  (forall q, lv_fixm (ml_lv l) = false -> median (numeric (ml_tm l)) = Some q -> lv_m (ml_lv l) = Val q) /\
  (forall q, lv_fixu (ml_lv l) = false -> median (numeric (ml_tu l)) = Some q -> lv_u (ml_lv l) = Val q).
Proof.
  unfold finish_session, populate. cbn [md_cmps]. intros Hc Hl.
  apply in_map_iff in Hc as (c0 & <- & _). cbn [populate_cmp mc_levels] in Hl.
  apply in_map_iff in Hl as (l0 & <- & _). unfold populate_level.
  cbn [ml_lv ml_tm ml_tu ml_exact lv_m lv_u lv_fixm lv_fixu lv_val lv_tfu].
  split; intros q Hf Hm; rewrite Hm, Hf; reflexivity.
Qed.

(* the estimates of the active comparisons: each gets exactly the session's final value appended *)
Lemma deactivated_append fl br f c : deactivated br (append_cmp fl f c) = deactivated br c.
Proof. reflexivity. Qed.

Theorem active_get_final_appended fl br : forall cs finals,
  length finals = length (filter (fun c => negb (deactivated br c)) cs) ->
  filter (fun c => negb (deactivated br c)) (append_trained fl br finals cs)
  = map (fun fc => append_cmp fl (fst fc) (snd fc))
        (combine finals (filter (fun c => negb (deactivated br c)) cs)).
Proof.
  induction cs as [|a t IH]; intros finals Hlen; cbn [append_trained filter].
  - destruct finals; reflexivity.
  - cbn [filter] in Hlen. destruct (deactivated br a) eqn:D; cbn [negb] in *.
    + cbn [filter]. rewrite D. cbn [negb]. apply IH. exact Hlen.
    + destruct finals as [|f ft]; [discriminate|]. cbn [filter]. rewrite deactivated_append, D. cbn [negb combine map fst snd].
      f_equal. apply IH. cbn [length] in Hlen. lia.
Qed.

(* ------------------------------------------------------------------------------------ *)
(* 7. Blocking-adjusted prior: lower-casing both sides = comparing the names as they are, *)
(*    whenever no two distinct names involved collide in lower case                      *)
(* ------------------------------------------------------------------------------------ *)
Section PriorNames.
Variable f : string -> string.
Variable S : list string.
Hypothesis f_inj : forall x y, In x S -> In y S -> f x = f y -> x = y.

Lemma smem_map x l : In x S -> incl l S -> smem (f x) (map f l) = smem x l.
Proof.
  intros Hx Hl. unfold smem. induction l as [|y t IH]; cbn; [reflexivity|].
  rewrite IH by (intros z Hz; apply Hl; right; exact Hz). f_equal.
  apply bool_eq_iff. rewrite !String.eqb_eq. split; [|congruence].
  apply f_inj; [exact Hx|apply Hl; left; reflexivity].
Qed.

Lemma ssubset_map a b : incl a S -> incl b S -> ssubset (map f a) (map f b) = ssubset a b.
Proof.
  intros Ha Hb. unfold ssubset. induction a as [|x t IH]; cbn; [reflexivity|].
  rewrite smem_map by (auto; apply Ha; left; reflexivity).
  rewrite IH by (intros z Hz; apply Ha; right; exact Hz). reflexivity.
Qed.

Lemma sminus_map a b : incl a S -> incl b S -> sminus (map f b) (map f a) = map f (sminus b a).
Proof.
  intros Ha Hb. unfold sminus. induction b as [|x t IH]; cbn; [reflexivity|].
  rewrite smem_map by (auto; apply Hb; left; reflexivity).
  rewrite IH by (intros z Hz; apply Hb; right; exact Hz).
  destruct (smem x a); reflexivity.
Qed.

Lemma sminus_incl a b : incl b S -> incl (sminus b a) S.
Proof. intros Hb z Hz. apply Hb. unfold sminus in Hz. apply filter_In in Hz. tauto. Qed.

Definition gmap {X : Type} (c : list string * X) : list string * X := (map f (fst c), snd c).

Lemma greedy_map {X : Type} (cands : list (list string * X)) : forall cols,
  (forall c, In c cands -> incl (fst c) S) -> incl cols S ->
  greedy (map gmap cands) (map f cols) = greedy cands cols.
Proof.
  induction cands as [|[ec x] t IH]; intros cols Hc Hcols; [reflexivity|].
  cbn [map greedy]. unfold gmap at 1. cbn [fst snd].
  assert (Hec : incl ec S) by (apply (Hc (ec, x)); left; reflexivity).
  assert (Ht : forall c, In c t -> incl (fst c) S) by (intros c Hin; apply Hc; right; exact Hin).
  rewrite ssubset_map by assumption. destruct (ssubset ec cols).
  - rewrite sminus_map by assumption. rewrite IH; [reflexivity|exact Ht|apply sminus_incl; exact Hcols].
  - apply IH; assumption.
Qed.

Lemma gmap_len {X : Type} (c : list string * X) : length (fst (gmap c)) = length (fst c).
Proof. unfold gmap. cbn [fst]. apply map_length. Qed.

Lemma sinsert_map {X : Type} (c : list string * X) l : sinsert (gmap c) (map gmap l) = map gmap (sinsert c l).
Proof.
  induction l as [|y t IH]; [reflexivity|]. cbn [map sinsert]. rewrite !gmap_len.
  destruct (Nat.leb (length (fst y)) (length (fst c))); cbn [map]; [reflexivity|]. rewrite IH. reflexivity.
Qed.

Lemma ssort_map {X : Type} (l : list (list string * X)) : ssort (map gmap l) = map gmap (ssort l).
Proof. unfold ssort. induction l as [|c t IH]; cbn; [reflexivity|]. rewrite IH. apply sinsert_map. Qed.

Lemma sinsert_In {X : Type} (c d : list string * X) l : In d (sinsert c l) -> d = c \/ In d l.
Proof.
  induction l as [|y t IH]; cbn [sinsert]; [cbn; intuition|].
  destruct (Nat.leb (length (fst y)) (length (fst c))); cbn [In]; [intuition|]. intros [H|H]; [auto|]. destruct (IH H); auto.
Qed.

Lemma ssort_In {X : Type} (d : list string * X) l : In d (ssort l) -> In d l.
Proof.
  unfold ssort. induction l as [|c t IH]; cbn; [auto|]. intros H. apply sinsert_In in H. destruct H; [left; congruence|right; auto].
Qed.
End PriorNames.

Lemma map_flat_map {A B C : Type} (g : B -> C) (h : A -> list B) l :
  map g (flat_map h l) = flat_map (fun x => map g (h x)) l.
Proof. induction l; cbn; [reflexivity|]. rewrite map_app, IHl. reflexivity. Qed.

Lemma exact_cands_map f m : exact_cands m f = map (gmap f) (exact_cands m (fun s => s)).
Proof.
  unfold exact_cands. rewrite map_flat_map. apply flat_map_ext. intros c.
  rewrite map_flat_map. apply flat_map_ext. intros l. destruct (ml_exact l); [|reflexivity].
  cbn. unfold gmap. cbn. rewrite map_map. reflexivity.
Qed.

Definition names_involved (br : list string) (m : model) : list string :=
  br ++ flat_map fst (exact_cands m (fun s => s)).

Theorem prior_adjustment_names f br m :
  (forall x y, In x (names_involved br m) -> In y (names_involved br m) -> f x = f y -> x = y) ->
  adjusted_prior f f br m = adjusted_prior (fun s => s) (fun s => s) br m.
Proof.
  intros Hinj. unfold adjusted_prior, levels_for_rule. f_equal. f_equal.
  rewrite (exact_cands_map f), ssort_map, map_id.
  apply (greedy_map f (names_involved br m) Hinj).
  - intros c Hc. apply ssort_In in Hc. intros z Hz. unfold names_involved. apply in_or_app. right.
    apply in_flat_map. exists c. split; assumption.
  - intros z Hz. unfold names_involved. apply in_or_app. left. exact Hz.
Qed.

(* ------------------------------------------------------------------------------------ *)
(* 8. Invariance under re-presentation: row order, table order, comparison labels         *)
(* ------------------------------------------------------------------------------------ *)

Lemma sumQ_perm {A : Type} (f : A -> Q) l l' : Permutation l l' -> sumQ f l == sumQ f l'.
Proof.
  induction 1 as [|x l l' _ IH|x y l|l l' l'' _ IH1 _ IH2].
  - reflexivity.
  - rewrite !sumQ_cons, IH. reflexivity.
  - rewrite !sumQ_cons. ring.
  - rewrite IH1. exact IH2.
Qed.

Lemma filter_perm {A : Type} (f : A -> bool) l l' : Permutation l l' -> Permutation (filter f l) (filter f l').
Proof.
  induction 1 as [|x l l' _ IH|x y l|l l' l'' _ IH1 _ IH2]; cbn [filter].
  - constructor.
  - destruct (f x); [constructor|]; exact IH.
  - destruct (f x), (f y); try reflexivity. apply perm_swap.
  - etransitivity; eassumption.
Qed.

Lemma sums_agree_perm (term : srow -> Q) sc sc' : Permutation sc sc' -> sums_agree term sc sc'.
Proof. intros P q. apply sumQ_perm, filter_perm. exact P. Qed.

Lemma observed_perm i v sc sc' : Permutation sc sc' -> observed i v sc = observed i v sc'.
Proof.
  intros P. apply bool_eq_iff. rewrite !observed_true.
  split; intros (r & Hr & E); exists r; split; auto;
    [eapply Permutation_in; [exact P|exact Hr]|eapply Permutation_in; [apply Permutation_sym; exact P|exact Hr]].
Qed.

(* the order of the scored rows is irrelevant to the M-step *)
Theorem mstep_perm_invariant fl p sc sc' :
  no_null_values p -> Permutation sc sc' -> mstep fl p sc = mstep fl p sc'.
Proof.
  intros Hnn P. rewrite !mstep_is_reference_em by exact Hnn.
  apply ref_mstep_ext; try (apply sums_agree_perm; exact P).
  intros i v. apply observed_perm. exact P.
Qed.

Theorem em_step_perm_invariant fl p data data' :
  no_null_values p -> Permutation data data' -> em_step fl p data = em_step fl p data'.
Proof.
  intros Hnn P. unfold em_step. apply mstep_perm_invariant; [exact Hnn|].
  unfold estep. apply Permutation_map. exact P.
Qed.

Lemma no_null_values_mstep fl p sc : no_null_values p -> no_null_values (mstep fl p sc).
Proof.
  intros Hnn c' l' Hc' Hl'. apply mstep_In in Hc' as (i & c & _ & Hc & ->).
  unfold updF in Hl'. apply in_map_iff in Hl' as (l & <- & Hl). cbn [lv_val upd_level].
  exact (Hnn c l Hc Hl).
Qed.

Lemma no_null_values_em_step fl p data : no_null_values p -> no_null_values (em_step fl p data).
Proof. apply no_null_values_mstep. Qed.

Theorem em_history_perm_invariant fl conv fuel : forall p data data',
  no_null_values p -> Permutation data data' ->
  em_history fl conv fuel p data = em_history fl conv fuel p data'.
Proof.
  induction fuel as [|k IH]; intros p data data' Hnn P; cbn [em_history]; [reflexivity|].
  cbv zeta. rewrite <- (em_step_perm_invariant fl p data data' Hnn P).
  destruct (Qlt_bool _ _); [reflexivity|]. f_equal.
  apply IH; [apply no_null_values_em_step; exact Hnn|exact P].
Qed.

(* GROUP BY all gammas: the table of agreement patterns of permuted rows is a permutation *)
Theorem count_patterns_perm rows rows' :
  Permutation rows rows' -> Permutation (count_patterns rows) (count_patterns rows').
Proof.
  intros P. unfold count_patterns.
  rewrite (map_ext (fun g => (g, Pos.of_nat (length (filter (gvec_eqb g) rows))))
                   (fun g => (g, Pos.of_nat (length (filter (gvec_eqb g) rows'))))).
  - apply Permutation_map. apply NoDup_Permutation; try apply NoDup_nodup.
    intros g. rewrite !nodup_In. split; apply Permutation_in; [exact P|apply Permutation_sym; exact P].
  - intros g. do 2 f_equal. apply Permutation_length, filter_perm. exact P.
Qed.

Theorem pattern_table_perm_invariant fl p pc pc' :
  no_null_values p -> Permutation pc pc' ->
  em_step fl p (pattern_data pc) = em_step fl p (pattern_data pc').
Proof.
  intros Hnn P. apply em_step_perm_invariant; [exact Hnn|].
  unfold pattern_data. apply Permutation_map. exact P.
Qed.

(* --- relabelling the comparisons --- *)

Definition reorder {A : Type} (d : A) (pi : list nat) (l : list A) : list A := map (fun i => nth i l d) pi.

Definition relabel_params (pi : list nat) (p : params) : params :=
  {| lam := lam p; cmps := reorder [] pi (cmps p) |}.
Definition relabel_srow (pi : list nat) (r : srow) : srow := (reorder (-1)%Z pi (sg r), sw r, sp r).
Definition relabel_drow (pi : list nat) (r : drow) : drow :=
  (reorder (-1)%Z pi (dg r), dw r, reorder None pi (dtf r)).

Lemma nth_reorder {A : Type} (d : A) pi l j : (j < length pi)%nat -> nth j (reorder d pi l) d = nth (nth j pi O) l d.
Proof.
  intros Hj. unfold reorder.
  rewrite (nth_indep _ d (nth O l d)) by (rewrite map_length; exact Hj).
  apply (map_nth (fun i => nth i l d)).
Qed.

Lemma gi_relabel pi j r : (j < length pi)%nat -> gi j (relabel_srow pi r) = gi (nth j pi O) r.
Proof. intros Hj. unfold gi, relabel_srow. cbn [sg fst]. apply nth_reorder. exact Hj. Qed.

Lemma sumQ_ext_eq {A : Type} (f g : A -> Q) l : (forall x, f x = g x) -> sumQ f l = sumQ g l.
Proof. intros H. induction l as [|x t IH]; [reflexivity|]. rewrite !sumQ_cons_eq, H, IH. reflexivity. Qed.

Lemma sumQ_relabel (term : srow -> Q) pi l :
  (forall r, term (relabel_srow pi r) = term r) -> sumQ term (map (relabel_srow pi) l) = sumQ term l.
Proof. intros H. rewrite sumQ_map. apply sumQ_ext_eq. exact H. Qed.

Lemma rows_at_relabel pi j v sc : (j < length pi)%nat ->
  rows_at j v (map (relabel_srow pi) sc) = map (relabel_srow pi) (rows_at (nth j pi O) v sc).
Proof.
  intros Hj. unfold rows_at. rewrite filter_map_comm. f_equal. apply filter_ext. intros r.
  rewrite gi_relabel by exact Hj. reflexivity.
Qed.

Lemma keys_relabel pi j sc : (j < length pi)%nat ->
  keys j (map (relabel_srow pi) sc) = keys (nth j pi O) sc.
Proof.
  intros Hj. unfold keys. rewrite map_map. f_equal. apply map_ext. intros r. apply gi_relabel. exact Hj.
Qed.

Lemma props_tbl_relabel pi j sc : (j < length pi)%nat ->
  props_tbl j (map (relabel_srow pi) sc) = props_tbl (nth j pi O) sc.
Proof.
  intros Hj.
  assert (E : counts_tbl j (map (relabel_srow pi) sc) = counts_tbl (nth j pi O) sc).
  { unfold counts_tbl. rewrite keys_relabel by exact Hj. apply map_ext. intros v.
    rewrite rows_at_relabel by exact Hj. rewrite !sumQ_relabel by reflexivity. reflexivity. }
  unfold props_tbl. rewrite E. reflexivity.
Qed.

Lemma nth_mapi_from {A B : Type} (F : nat -> list A -> list B) (l : list (list A)) :
  (forall i, F i [] = []) -> forall k i, nth i (mapi_from F k l) [] = F (k + i)%nat (nth i l []).
Proof.
  intros HF. induction l as [|x t IH]; intros k i; cbn [mapi_from].
  - destruct i; cbn; rewrite HF; reflexivity.
  - destruct i as [|i]; cbn [nth]; [rewrite Nat.add_0_r; reflexivity|].
    rewrite IH. f_equal. lia.
Qed.

Lemma mapi_from_reorder {A B : Type} (G : nat -> A -> B) (H : nat -> B) (h : nat -> A) pi :
  (forall j, (j < length pi)%nat -> G j (h (nth j pi O)) = H (nth j pi O)) ->
  mapi_from G 0 (map h pi) = map H pi.
Proof.
  intros E.
  assert (Gen : forall suf pre, pi = pre ++ suf -> mapi_from G (length pre) (map h suf) = map H suf).
  { induction suf as [|x t IH]; intros pre Hpi; cbn [map mapi_from]; [reflexivity|]. f_equal.
    - specialize (E (length pre)). rewrite Hpi, nth_middle in E. apply E. rewrite app_length. cbn. lia.
    - specialize (IH (pre ++ [x])). rewrite app_length, Nat.add_1_r in IH. apply IH.
      rewrite <- app_assoc. exact Hpi. }
  apply (Gen pi []). reflexivity.
Qed.

(* relabelling the comparisons (and the gamma columns accordingly) relabels the M-step's output;
   no hypothesis on pi: an index beyond the end reads as an empty comparison / null gamma *)
Theorem mstep_relabel_invariant fl pi p sc :
  cmps (mstep fl (relabel_params pi p) (map (relabel_srow pi) sc)) = reorder [] pi (cmps (mstep fl p sc)) /\
  lam (mstep fl (relabel_params pi p) (map (relabel_srow pi) sc)) = lam (mstep fl p sc).
Proof.
  split.
  - rewrite !mstep_cmps. unfold relabel_params, reorder. cbn [cmps].
    apply mapi_from_reorder. intros j Hj.
    rewrite (nth_mapi_from (updF fl sc) (cmps p)) by reflexivity. cbn [Nat.add].
    unfold updF. rewrite props_tbl_relabel by exact Hj. reflexivity.
  - cbn [mstep lam relabel_params]. destruct (fix_lam fl); [reflexivity|]. f_equal.
    unfold lambda_new. rewrite !sumQ_relabel by reflexivity. reflexivity.
Qed.

(* the E-step under relabelling: the Bayes factors are multiplied in another order *)
Definition prodq (f : nat -> Q) (l : list nat) : Q := fold_right (fun x a => f x * a) 1 l.

Lemma prodq_perm f l l' : Permutation l l' -> prodq f l == prodq f l'.
Proof.
  induction 1 as [|x l l' _ IH|x y l|l l' l'' _ IH1 _ IH2]; cbn [prodq fold_right].
  - reflexivity.
  - fold (prodq f l). fold (prodq f l'). rewrite IH. reflexivity.
  - ring.
  - rewrite IH1. exact IH2.
Qed.

Lemma prodq_ext f g l : (forall x, In x l -> f x == g x) -> prodq f l == prodq g l.
Proof.
  induction l as [|x t IH]; intros H; cbn [prodq fold_right]; [reflexivity|].
  fold (prodq f t). fold (prodq g t).
  rewrite (H x (or_introl eq_refl)), IH by (intros y Hy; apply H; right; exact Hy). reflexivity.
Qed.

Lemma prodq_ext_eq f g l : (forall x, f x = g x) -> prodq f l = prodq g l.
Proof. intros H. induction l as [|x t IH]; cbn; [reflexivity|]. unfold prodq in IH. rewrite H, IH. reflexivity. Qed.

Lemma prodq_map f (h : nat -> nat) l : prodq f (map h l) = prodq (fun x => f (h x)) l.
Proof. induction l as [|x t IH]; cbn; [reflexivity|]. unfold prodq in IH. rewrite IH. reflexivity. Qed.

Definition bf_at (cs : list cmp) (g : list Z) (tf : list (option Q)) (k : nat) : Q :=
  bf_cmp (nth k cs []) (nth k g (-1)%Z) (nth k tf None).

Lemma nth_S_tl {A : Type} (d : A) k l : nth (S k) l d = nth k (tl l) d.
Proof. destruct l; [destruct k; reflexivity|reflexivity]. Qed.

Lemma bf_prod_seq cs : forall g tf, bf_prod cs g tf = prodq (bf_at cs g tf) (seq 0 (length cs)).
Proof.
  induction cs as [|c t IH]; intros g tf; [reflexivity|].
  cbn [bf_prod length seq prodq fold_right]. fold (prodq (bf_at (c :: t) g tf) (seq 1 (length t))).
  rewrite <- seq_shift, prodq_map, IH. f_equal.
  - unfold bf_at. cbn [nth]. destruct g, tf; reflexivity.
  - apply prodq_ext_eq. intros k. unfold bf_at. rewrite !nth_S_tl. reflexivity.
Qed.

Lemma map_nth_seq {A : Type} (d : A) l : map (fun j => nth j l d) (seq 0 (length l)) = l.
Proof.
  induction l as [|x t IH]; cbn [length seq map nth]; [reflexivity|]. f_equal.
  rewrite <- seq_shift, map_map. exact IH.
Qed.

Lemma bf_prod_relabel pi cs g tf :
  Permutation pi (seq 0 (length cs)) ->
  bf_prod (reorder [] pi cs) (reorder (-1)%Z pi g) (reorder None pi tf) == bf_prod cs g tf.
Proof.
  intros P. rewrite !bf_prod_seq. unfold reorder at 4. rewrite map_length.
  rewrite (prodq_ext _ (fun j => bf_at cs g tf (nth j pi O))).
  - rewrite <- (prodq_map (bf_at cs g tf) (fun j => nth j pi O)), map_nth_seq. apply prodq_perm. exact P.
  - intros j Hj. apply in_seq in Hj. unfold bf_at. rewrite !nth_reorder by lia. reflexivity.
Qed.

Lemma posterior_relabel pi p g tf :
  Permutation pi (seq 0 (length (cmps p))) ->
  posterior (relabel_params pi p) (reorder (-1)%Z pi g) (reorder None pi tf) == posterior p g tf.
Proof.
  intros P. unfold posterior. cbn [lam cmps relabel_params].
  destruct (Qeq_bool (lam p) 1); [reflexivity|]. cbv zeta. rewrite (bf_prod_relabel pi _ g tf P). reflexivity.
Qed.

(* the M-step tolerates match probabilities that agree up to == *)
Definition srow_eqv (r1 r2 : srow) : Prop := sg r1 = sg r2 /\ sw r1 = sw r2 /\ sp r1 == sp r2.

Lemma sums_agree_eqv (term : srow -> Q) sc1 sc2 :
  (forall r1 r2, srow_eqv r1 r2 -> term r1 == term r2) ->
  Forall2 srow_eqv sc1 sc2 -> sums_agree term sc1 sc2.
Proof.
  intros Ht F q. induction F as [|r1 r2 l1 l2 Hr _ IH]; cbn [filter]; [reflexivity|].
  pose proof Hr as (Hg & _ & _). rewrite Hg. destruct (q (sg r2)); [|exact IH].
  rewrite !sumQ_cons, (Ht r1 r2 Hr), IH. reflexivity.
Qed.

Lemma observed_eqv i v sc1 sc2 : Forall2 srow_eqv sc1 sc2 -> observed i v sc1 = observed i v sc2.
Proof.
  unfold observed. induction 1 as [|r1 r2 l1 l2 (Hg & _ & _) _ IH]; cbn [existsb]; [reflexivity|].
  unfold gi at 1 3. rewrite Hg, IH. reflexivity.
Qed.

Lemma mstep_eqv fl p sc1 sc2 :
  no_null_values p -> Forall2 srow_eqv sc1 sc2 -> mstep fl p sc1 = mstep fl p sc2.
Proof.
  intros Hnn F. rewrite !mstep_is_reference_em by exact Hnn. apply ref_mstep_ext.
  - apply sums_agree_eqv; [|exact F]. intros r1 r2 (_ & Hw & Hp). unfold mterm. rewrite Hw, Hp. reflexivity.
  - apply sums_agree_eqv; [|exact F]. intros r1 r2 (_ & Hw & Hp). unfold uterm. rewrite Hw, Hp. reflexivity.
  - apply sums_agree_eqv; [|exact F]. intros r1 r2 (_ & Hw & _). rewrite Hw. reflexivity.
  - intros i v. apply observed_eqv. exact F.
Qed.

Lemma no_null_values_relabel pi p : no_null_values p -> no_null_values (relabel_params pi p).
Proof.
  intros Hnn c l Hc Hl. unfold relabel_params, reorder in Hc. cbn [cmps] in Hc.
  apply in_map_iff in Hc as (i & <- & _). cbn beta in Hl.
  destruct (@nth_in_or_default (list level) i (cmps p) []) as [Hin|E].
  - exact (Hnn _ l Hin Hl).
  - rewrite E in Hl. destruct Hl.
Qed.

Lemma estep_relabel pi p data :
  Permutation pi (seq 0 (length (cmps p))) ->
  Forall2 srow_eqv (estep (relabel_params pi p) (map (relabel_drow pi) data))
                   (map (relabel_srow pi) (estep p data)).
Proof.
  intros P. unfold estep. induction data as [|r t IH]; cbn [map]; constructor; [|exact IH].
  split; [reflexivity|]. split; [reflexivity|].
  cbn [sp snd relabel_drow relabel_srow dg dtf fst]. apply posterior_relabel. exact P.
Qed.

(* relabelling the comparisons of the model and the gamma / term-frequency columns of the data
   accordingly relabels the result of a whole EM step *)
Theorem em_step_relabel_invariant fl pi p data :
  no_null_values p -> Permutation pi (seq 0 (length (cmps p))) ->
  cmps (em_step fl (relabel_params pi p) (map (relabel_drow pi) data))
  = reorder [] pi (cmps (em_step fl p data)) /\
  lam (em_step fl (relabel_params pi p) (map (relabel_drow pi) data)) = lam (em_step fl p data).
Proof.
  intros Hnn P. unfold em_step.
  rewrite (mstep_eqv fl _ _ _ (no_null_values_relabel pi p Hnn) (estep_relabel pi p data P)).
  apply mstep_relabel_invariant.
Qed.

(* hence along the whole history *)
Lemma relabel_em_step_params fl pi p data :
  no_null_values p -> Permutation pi (seq 0 (length (cmps p))) ->
  em_step fl (relabel_params pi p) (map (relabel_drow pi) data) = relabel_params pi (em_step fl p data).
Proof.
  intros Hnn P. destruct (em_step_relabel_invariant fl pi p data Hnn P) as [E1 E2].
  destruct (em_step fl (relabel_params pi p) (map (relabel_drow pi) data)) as [l c]. cbn in E1, E2.
  unfold relabel_params. rewrite E1, E2. reflexivity.
Qed.

(* ------------------------------------------------------------------------------------ *)
(* 9. The M-step writes genuine quotients                                                *)
(* ------------------------------------------------------------------------------------ *)

(* With a zero denominator both sides below would still agree, through x / 0 = 0 in Q, whereas
   the SQL engines yield NULL / NaN there; the hypothesis excludes that case, so the statement is
   about a genuine quotient. *)
Theorem mstep_reference_nonzero fl p sc i c k l :
  nth_error (cmps p) i = Some c -> nth_error c k = Some l ->
  lv_val l <> (-1)%Z -> observed i (lv_val l) sc = true ->
  exists c' l', nth_error (cmps (mstep fl p sc)) i = Some c' /\ nth_error c' k = Some l' /\
    lv_val l' = lv_val l /\
    (fix_m fl = false -> lv_fixm l = false -> ~ sumQ mterm (nonnull i sc) == 0 ->
     rd (lv_m l') == sumQ mterm (rows_at i (lv_val l) sc) / sumQ mterm (nonnull i sc)) /\
    (fix_u fl = false -> lv_fixu l = false -> ~ sumQ uterm (nonnull i sc) == 0 ->
     rd (lv_u l') == sumQ uterm (rows_at i (lv_val l) sc) / sumQ uterm (nonnull i sc)).
Proof.
  intros Hc Hl Hv Ho. destruct (mstep_level fl p sc i c k l Hc Hl) as (c' & H1 & H2).
  exists c', (upd_level fl (props_tbl i sc) l). split; [exact H1|]. split; [exact H2|].
  split; [reflexivity|]. cbn [lv_m lv_u upd_level]. split; intros F1 F2 _.
  - apply new_m_observed; assumption.
  - apply new_u_observed; assumption.
Qed.

(* ------------------------------------------------------------------------------------ *)
(* 10. What a session appends, position by position                                      *)
(* ------------------------------------------------------------------------------------ *)

Definition is_active (br : list string) (c : mcmp) : bool := negb (deactivated br c).
Definition active_before (br : list string) (k : nat) (cs : list mcmp) : nat :=
  length (filter (is_active br) (firstn k cs)).

Lemma append_trained_active fl br : forall cs finals k c,
  nth_error cs k = Some c -> deactivated br c = false ->
  (active_before br k cs < length finals)%nat ->
  nth_error (append_trained fl br finals cs) k = Some (append_cmp fl (nth (active_before br k cs) finals []) c).
Proof.
  unfold active_before, is_active.
  induction cs as [|a t IH]; intros finals k c Hk Hd Hlen; [destruct k; discriminate|].
  cbn [append_trained]. destruct k as [|k]; cbn [nth_error firstn filter] in *.
  - injection Hk as ->. rewrite Hd. destruct finals as [|f ft]; [cbn in Hlen; lia|]. reflexivity.
  - destruct (deactivated br a); cbn [negb] in *.
    + cbn [nth_error]. apply IH; assumption.
    + cbn [length] in *. destruct finals as [|f ft]; [cbn in Hlen; lia|]. cbn [nth_error nth length] in *.
      apply IH; [assumption|assumption|lia].
Qed.

Lemma nth_active br : forall cs k c,
  nth_error cs k = Some c -> deactivated br c = false ->
  nth_error (filter (is_active br) cs) (active_before br k cs) = Some c.
Proof.
  unfold active_before, is_active.
  induction cs as [|a t IH]; intros k c Hk Hd; [destruct k; discriminate|].
  destruct k as [|k]; cbn [nth_error firstn filter] in *.
  - injection Hk as ->. rewrite Hd. reflexivity.
  - destruct (deactivated br a); cbn [negb length nth_error]; apply IH; assumption.
Qed.

(* the EM iterations keep the shape of the model: comparisons, levels, level values *)
Definition shape (p : params) : list (list Z) := map (fun c : cmp => map lv_val c) (cmps p).

Lemma shape_em_step fl p data : shape (em_step fl p data) = shape p.
Proof.
  unfold shape, em_step. rewrite mstep_cmps. generalize 0%nat.
  induction (cmps p) as [|c t IH]; intros k; cbn [mapi_from map]; [reflexivity|].
  rewrite IH. f_equal. apply updF_vals.
Qed.

Lemma Forall_last {A : Type} (P : A -> Prop) l d : Forall P l -> P d -> P (last l d).
Proof.
  induction 1 as [|x t Hx _ IH]; intros Hd; [exact Hd|]. destruct t; [exact Hx|]. apply IH. exact Hd.
Qed.

Lemma shape_last_history fl conv fuel p data :
  shape (last (em_history fl conv fuel p data) p) = shape p.
Proof.
  apply Forall_last; [|reflexivity].
  apply (em_history_all (fun q => shape q = shape p)); [|reflexivity].
  intros q Hq. rewrite shape_em_step. exact Hq.
Qed.

Lemma nth_error_combine {A B : Type} (l1 : list A) (l2 : list B) : forall j a b,
  nth_error l1 j = Some a -> nth_error l2 j = Some b -> nth_error (combine l1 l2) j = Some (a, b).
Proof.
  revert l2. induction l1 as [|x t IH]; intros l2 j a b H1 H2; [destruct j; discriminate|].
  destruct l2 as [|y t2]; [destruct j; discriminate|].
  destruct j as [|j]; cbn in *; [congruence|]. apply IH; assumption.
Qed.

Theorem session_appends_final_values nl nb fl conv n br data m k c :
  nth_error (md_cmps m) k = Some c ->
  let start := start_params nl nb br m in
  let final := last (em_history fl conv n start data) start in
  exists c', nth_error (md_cmps (session nl nb fl conv n br data m)) k = Some c' /\
    (deactivated br c = true ->
       map ml_tm (mc_levels c') = map ml_tm (mc_levels c) /\
       map ml_tu (mc_levels c') = map ml_tu (mc_levels c)) /\
    (deactivated br c = false ->
       exists f, nth_error (cmps final) (active_before br k (md_cmps m)) = Some f /\
         length (mc_levels c') = length (mc_levels c) /\
         forall j l, nth_error (mc_levels c) j = Some l ->
           exists fj l', nth_error f j = Some fj /\ nth_error (mc_levels c') j = Some l' /\
             lv_val fj = lv_val (ml_lv l) /\
             ml_tm l' = (if fix_m fl then ml_tm l else ml_tm l ++ [lv_m fj]) /\
             ml_tu l' = (if fix_u fl then ml_tu l else ml_tu l ++ [lv_u fj])).
Proof.
  intros Hk start final. destruct (deactivated br c) eqn:D.
  - exists (populate_cmp c). split; [apply deactivated_untouched; assumption|].
    split; [|discriminate]. intros _. cbn [populate_cmp mc_levels]. rewrite !map_map. split; reflexivity.
  - set (a := active_before br k (md_cmps m)).
    assert (Hsh : shape final = shape start) by apply shape_last_history.
    assert (Hca : nth_error (cmps start) a = Some (map ml_lv (mc_levels c))).
    { unfold start, start_params, active_cmps. cbn [cmps]. rewrite nth_error_map.
      fold (is_active br). unfold a. rewrite (nth_active br _ k c Hk D). reflexivity. }
    assert (Hfa : exists f : cmp, nth_error (cmps final) a = Some f /\ map lv_val f = map lv_val (map ml_lv (mc_levels c))).
    { assert (E : nth_error (shape final) a = Some (map lv_val (map ml_lv (mc_levels c)))).
      { rewrite Hsh. unfold shape. rewrite nth_error_map, Hca. reflexivity. }
      unfold shape in E. rewrite nth_error_map in E.
      destruct (nth_error (cmps final) a) as [f|]; [|discriminate]. exists f. split; [reflexivity|].
      cbn in E. congruence. }
    destruct Hfa as (f & Hf & Hvals).
    assert (Hlt : (a < length (cmps final))%nat) by (apply nth_error_Some; rewrite Hf; discriminate).
    exists (populate_cmp (append_cmp fl f c)). split.
    { unfold session, finish_session, populate. cbn [md_cmps]. fold start. fold final.
      rewrite nth_error_map, (append_trained_active fl br _ _ k c Hk D Hlt). fold a.
      cbn [option_map]. do 3 f_equal. exact (nth_error_nth (cmps final) a [] Hf). }
    split; [discriminate|]. intros _. exists f. split; [exact Hf|].
    assert (Hlen : length f = length (mc_levels c)).
    { apply (f_equal (@length Z)) in Hvals. rewrite !map_length in Hvals. exact Hvals. }
    split.
    { cbn [populate_cmp append_cmp mc_levels]. rewrite !map_length, combine_length. lia. }
    intros j l Hj.
    assert (Hfj : exists fj, nth_error f j = Some fj).
    { destruct (nth_error f j) eqn:E; [eauto|]. apply nth_error_None in E.
      assert (j < length (mc_levels c))%nat by (apply nth_error_Some; rewrite Hj; discriminate). lia. }
    destruct Hfj as [fj Hfj]. exists fj, (populate_level (append_level fl fj l)).
    split; [exact Hfj|]. split.
    { cbn [populate_cmp append_cmp mc_levels]. rewrite !nth_error_map.
      rewrite (nth_error_combine _ _ j fj l Hfj Hj). reflexivity. }
    split.
    { assert (E : nth_error (map lv_val f) j = nth_error (map lv_val (map ml_lv (mc_levels c))) j) by (rewrite Hvals; reflexivity).
      rewrite map_map, !nth_error_map, Hfj, Hj in E. cbn in E. congruence. }
    cbn [populate_level append_level ml_tm ml_tu]. split; reflexivity.
Qed.

(* ------------------------------------------------------------------------------------ *)
(* 11. The exact-match levels a blocking rule implies: specification of the greedy choice *)
(* ------------------------------------------------------------------------------------ *)

Lemma smem_In x l : smem x l = true <-> In x l.
Proof.
  unfold smem. rewrite existsb_exists. split.
  - intros (y & Hy & E). apply String.eqb_eq in E. subst y. exact Hy.
  - intros H. exists x. split; [exact H|apply String.eqb_refl].
Qed.
Lemma smem_false x l : smem x l = false <-> ~ In x l.
Proof. rewrite <- smem_In. destruct (smem x l); split; congruence. Qed.

Lemma ssubset_spec a b : ssubset a b = true <-> forall s, In s a -> In s b.
Proof.
  unfold ssubset. rewrite forallb_forall. split; intros H s Hs.
  - apply smem_In. apply H. exact Hs.
  - apply smem_In. apply H. exact Hs.
Qed.

Lemma sminus_In s b a : In s (sminus b a) <-> In s b /\ ~ In s a.
Proof. unfold sminus. rewrite filter_In, negb_true_iff, smem_false. tauto. Qed.

(* the greedy selection, keeping the column sets of what it selects *)
Fixpoint greedy_pairs {X : Type} (cands : list (list string * X)) (cols : list string) : list (list string * X) :=
  match cands with
  | [] => []
  | (ec, x) :: t => if ssubset ec cols then (ec, x) :: greedy_pairs t (sminus cols ec) else greedy_pairs t cols
  end.

Lemma greedy_pairs_snd {X : Type} (cands : list (list string * X)) : forall cols,
  map snd (greedy_pairs cands cols) = greedy cands cols.
Proof.
  induction cands as [|[ec x] t IH]; intros cols; cbn [greedy_pairs greedy map]; [reflexivity|].
  destruct (ssubset ec cols); cbn [map snd]; rewrite IH; reflexivity.
Qed.

Inductive subseq {A : Type} : list A -> list A -> Prop :=
| subseq_nil : subseq [] []
| subseq_keep x l l' : subseq l l' -> subseq (x :: l) (x :: l')
| subseq_skip x l l' : subseq l l' -> subseq l (x :: l').

Lemma subseq_In {A : Type} (l l' : list A) x : subseq l l' -> In x l -> In x l'.
Proof. induction 1; cbn; intuition. Qed.

Lemma greedy_pairs_subseq {X : Type} (cands : list (list string * X)) : forall cols,
  subseq (greedy_pairs cands cols) cands.
Proof.
  induction cands as [|[ec x] t IH]; intros cols; cbn [greedy_pairs]; [constructor|].
  destruct (ssubset ec cols); constructor; apply IH.
Qed.

Lemma greedy_pairs_within {X : Type} (cands : list (list string * X)) : forall cols a,
  In a (greedy_pairs cands cols) -> forall s, In s (fst a) -> In s cols.
Proof.
  induction cands as [|[ec x] t IH]; intros cols a Ha s Hs; cbn [greedy_pairs] in Ha; [destruct Ha|].
  destruct (ssubset ec cols) eqn:E.
  - destruct Ha as [<-|Ha].
    + cbn [fst] in Hs. apply (proj1 (ssubset_spec ec cols) E). exact Hs.
    + apply (IH _ a Ha s) in Hs. apply sminus_In in Hs. tauto.
  - apply (IH _ a Ha s Hs).
Qed.

Definition cols_disjoint {X : Type} (a b : list string * X) : Prop :=
  forall s, smem s (fst a) = true -> smem s (fst b) = false.

(* soundness: what is selected are candidates whose columns are all rule columns, taken in the
   order of the candidate list, with pairwise disjoint column sets *)
Theorem greedy_sound {X : Type} (cands : list (list string * X)) (cols : list string) :
  map snd (greedy_pairs cands cols) = greedy cands cols /\
  subseq (greedy_pairs cands cols) cands /\
  (forall a, In a (greedy_pairs cands cols) -> In a cands /\ ssubset (fst a) cols = true) /\
  ForallOrdPairs cols_disjoint (greedy_pairs cands cols).
Proof.
  split; [apply greedy_pairs_snd|]. split; [apply greedy_pairs_subseq|]. split.
  - intros a Ha. split; [eapply subseq_In; [apply greedy_pairs_subseq|exact Ha]|].
    apply ssubset_spec. apply (greedy_pairs_within cands cols a Ha).
  - revert cols. induction cands as [|[ec x] t IH]; intros cols; cbn [greedy_pairs]; [constructor|].
    destruct (ssubset ec cols); [|apply IH]. constructor; [|apply IH].
    apply Forall_forall. intros b Hb s Hs. cbn [fst] in Hs. apply smem_In in Hs. apply smem_false. intros Hsb.
    apply (greedy_pairs_within t _ b Hb s) in Hsb. apply sminus_In in Hsb. tauto.
Qed.

(* completeness: a candidate all of whose columns are rule columns is selected unless one of its
   columns is used by a level selected before it *)
Theorem greedy_complete_single {X : Type} (pre post : list (list string * X)) ec x cols :
  ssubset ec cols = true ->
  (forall a, In a (greedy_pairs pre cols) -> forall s, In s ec -> ~ In s (fst a)) ->
  In (ec, x) (greedy_pairs (pre ++ (ec, x) :: post) cols).
Proof.
  revert cols. induction pre as [|[e0 x0] t IH]; intros cols Hsub Hfree; cbn [app greedy_pairs].
  - rewrite Hsub. left. reflexivity.
  - cbn [greedy_pairs] in Hfree. destruct (ssubset e0 cols) eqn:E0.
    + right. apply IH.
      * apply ssubset_spec. intros s Hs. apply sminus_In. split.
        -- apply (proj1 (ssubset_spec ec cols) Hsub). exact Hs.
        -- apply (Hfree (e0, x0) (or_introl eq_refl) s Hs).
      * intros a Ha. apply Hfree. right. exact Ha.
    + apply IH; assumption.
Qed.

(* every rule column that has a single-column exact-match level is accounted for *)
Theorem greedy_covers_single_columns {X : Type} (cands : list (list string * X)) c x : forall cols,
  In ([c], x) cands -> In c cols ->
  exists a, In a (greedy_pairs cands cols) /\ In c (fst a).
Proof.
  induction cands as [|[e0 x0] t IH]; intros cols Hin Hc; [destruct Hin|]. cbn [greedy_pairs].
  destruct (ssubset e0 cols) eqn:E0.
  - destruct (smem c e0) eqn:M.
    + exists (e0, x0). split; [left; reflexivity|apply smem_In; exact M].
    + destruct Hin as [E|Hin].
      * inversion E; subst. cbn in M. rewrite String.eqb_refl in M. discriminate.
      * destruct (IH (sminus cols e0) Hin) as (a & Ha & Hca).
        { apply sminus_In. split; [exact Hc|apply smem_false; exact M]. }
        exists a. split; [right; exact Ha|exact Hca].
  - destruct Hin as [E|Hin].
    + inversion E; subst. exfalso.
      assert (ssubset [c] cols = true) by (apply ssubset_spec; intros s [<-|[]]; exact Hc). congruence.
    + apply IH; assumption.
Qed.

(* ssort: a permutation of the candidates in descending order of the number of columns, so a
   multi-column level is considered before any level with fewer columns *)
Definition longer_first {X : Type} (a b : list string * X) : Prop := (length (fst b) <= length (fst a))%nat.

Lemma sinsert_perm {X : Type} (x : list string * X) l : Permutation (sinsert x l) (x :: l).
Proof.
  induction l as [|y t IH]; cbn [sinsert]; [reflexivity|].
  destruct (Nat.leb (length (fst y)) (length (fst x))); [reflexivity|]. rewrite IH. apply perm_swap.
Qed.

Lemma ssort_perm {X : Type} (l : list (list string * X)) : Permutation (ssort l) l.
Proof. unfold ssort. induction l as [|x t IH]; cbn; [reflexivity|]. rewrite sinsert_perm, IH. reflexivity. Qed.

Lemma sinsert_sorted {X : Type} (x : list string * X) l :
  StronglySorted longer_first l -> StronglySorted longer_first (sinsert x l).
Proof.
  induction 1 as [|y t Hs IH Hall]; cbn [sinsert].
  - repeat constructor.
  - destruct (Nat.leb (length (fst y)) (length (fst x))) eqn:E.
    + apply Nat.leb_le in E. constructor; [constructor; assumption|].
      constructor; [unfold longer_first; lia|]. eapply Forall_impl; [|exact Hall].
      intros z Hz. unfold longer_first in *. lia.
    + apply Nat.leb_gt in E. constructor; [exact IH|]. apply Forall_forall. intros z Hz.
      apply (Permutation_in _ (sinsert_perm x t)) in Hz. destruct Hz as [<-|Hz]; [unfold longer_first; lia|].
      rewrite Forall_forall in Hall. apply Hall. exact Hz.
Qed.

Theorem greedy_prefers_larger {X : Type} (l : list (list string * X)) :
  Permutation (ssort l) l /\ StronglySorted longer_first (ssort l).
Proof.
  split; [apply ssort_perm|]. unfold ssort. induction l as [|x t IH]; cbn; [constructor|].
  apply sinsert_sorted. exact IH.
Qed.

(* applied to the levels the blocking-adjusted prior multiplies in *)
Definition rule_selection (nl nb : string -> string) (br : list string) (m : model) : list (list string * level) :=
  greedy_pairs (ssort (exact_cands m nl)) (map nb br).

Theorem levels_for_rule_sound nl nb br m :
  map snd (rule_selection nl nb br m) = levels_for_rule nl nb br m /\
  subseq (rule_selection nl nb br m) (ssort (exact_cands m nl)) /\
  (forall a, In a (rule_selection nl nb br m) ->
     In a (exact_cands m nl) /\ ssubset (fst a) (map nb br) = true) /\
  ForallOrdPairs cols_disjoint (rule_selection nl nb br m).
Proof.
  unfold rule_selection, levels_for_rule.
  destruct (greedy_sound (ssort (exact_cands m nl)) (map nb br)) as (H1 & H2 & H3 & H4).
  split; [exact H1|]. split; [exact H2|]. split; [|exact H4].
  intros a Ha. destruct (H3 a Ha) as [Hin Hs]. split; [apply ssort_In; exact Hin|exact Hs].
Qed.

Theorem levels_for_rule_complete nl nb br m :
  (forall pre post ec x,
     ssort (exact_cands m nl) = pre ++ (ec, x) :: post ->
     ssubset ec (map nb br) = true ->
     (forall a, In a (greedy_pairs pre (map nb br)) -> forall s, In s ec -> ~ In s (fst a)) ->
     In x (levels_for_rule nl nb br m)) /\
  (forall c x, In ([c], x) (exact_cands m nl) -> In c (map nb br) ->
     exists a, In a (rule_selection nl nb br m) /\ In c (fst a)).
Proof.
  split.
  - intros pre post ec x E Hs Hfree. unfold levels_for_rule. rewrite <- greedy_pairs_snd, E.
    apply in_map_iff. exists (ec, x). split; [reflexivity|]. apply greedy_complete_single; assumption.
  - intros c x Hin Hc. unfold rule_selection. apply (greedy_covers_single_columns _ c x); [|exact Hc].
    eapply Permutation_in; [apply Permutation_sym, ssort_perm|exact Hin].
Qed.

Theorem levels_for_rule_prefers_larger nl m :
  Permutation (ssort (exact_cands m nl)) (exact_cands m nl) /\
  StronglySorted longer_first (ssort (exact_cands m nl)).
Proof. apply greedy_prefers_larger. Qed.
