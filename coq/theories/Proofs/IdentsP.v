(* Proofs for Model/Idents.v: string lemmas (anchored suffix strip, lower, quoting) and the
   commutation of the name-level decisions with column renamings. *)
From Coq Require Import List Bool Arith String Ascii Lia.
From Splinkv Require Import Model.Idents.
Import ListNotations.
Open Scope string_scope.
Open Scope list_scope.

Local Notation "a +++ b" := (String.append a b) (at level 60, right associativity).

(* ------------------------------------------------------------------ strings *)
Lemma lower_app : forall a b, lower (a +++ b) = lower a +++ lower b.
Proof. induction a as [|c a IH]; intro b; simpl; [reflexivity|]. rewrite IH. reflexivity. Qed.

Lemma chop2_app2 : forall s a b, chop2 (s +++ String a (String b EmptyString)) = s.
Proof.
  induction s as [|c s IH]; intros a b; [reflexivity|].
  change (String c s +++ String a (String b EmptyString)) with (String c (s +++ String a (String b EmptyString))).
  specialize (IH a b). destruct s as [|d s]; [reflexivity|].
  destruct s as [|e s]; [reflexivity|].
  simpl in *. rewrite IH. reflexivity.
Qed.

Lemma strip_end_app : forall (ci : bool) s b, (if ci then is_lr_ci b else is_lr b) = true ->
  strip_end ci (s +++ String us (String b EmptyString)) = s.
Proof.
  intros ci s b Hb. induction s as [|c s IH].
  - simpl. try rewrite Ascii.eqb_refl. simpl. rewrite Hb. reflexivity.
  - change (String c s +++ String us (String b EmptyString)) with (String c (s +++ String us (String b EmptyString))).
    destruct s as [|d s]; [simpl; rewrite Hb; reflexivity|].
    destruct s as [|e s].
    + simpl. rewrite Hb. reflexivity.
    + simpl in *. rewrite IH. reflexivity.
Qed.

Lemma apply_strip_l : forall op s, strip_anchored op = true -> apply_strip op (s +++ "_l") = s.
Proof.
  intros op s H. destruct op as [|ci| |]; try discriminate; simpl.
  - apply (chop2_app2 s "_"%char "l"%char).
  - apply (strip_end_app ci s "l"%char). destruct ci; reflexivity.
Qed.
Lemma apply_strip_r : forall op s, strip_anchored op = true -> apply_strip op (s +++ "_r") = s.
Proof.
  intros op s H. destruct op as [|ci| |]; try discriminate; simpl.
  - apply (chop2_app2 s "_"%char "r"%char).
  - apply (strip_end_app ci s "r"%char). destruct ci; reflexivity.
Qed.

Lemma lower_sfx_l : forall s, lower (s +++ "_l") = lower s +++ "_l".
Proof. intro. rewrite lower_app. reflexivity. Qed.
Lemma lower_sfx_r : forall s, lower (s +++ "_r") = lower s +++ "_r".
Proof. intro. rewrite lower_app. reflexivity. Qed.

(* quoting round trip *)
Lemma undbl_dbl : forall q s, undbl_to_close q (dbl q s +++ String q EmptyString) = Some s.
Proof.
  intros q. induction s as [|c s IH]; simpl.
  - rewrite Ascii.eqb_refl. reflexivity.
  - destruct (Ascii.eqb c q) eqn:E.
    + apply Ascii.eqb_eq in E. subst c. simpl. rewrite !Ascii.eqb_refl. rewrite IH. reflexivity.
    + simpl. rewrite E. rewrite IH. reflexivity.
Qed.

Theorem unquote_quote : forall q s, unquote q (quote q s) = Some s.
Proof. intros. unfold unquote, quote. rewrite Ascii.eqb_refl. apply undbl_dbl. Qed.

Theorem column_name_of_quote : forall q s, column_name_of q (quote q s) = s.
Proof. intros. unfold column_name_of. rewrite unquote_quote. reflexivity. Qed.

(* settings -> SQL text -> parsed identifier -> back to the column, for EVERY column name *)
Theorem name_l_roundtrip : forall o q raw op,
  strip_anchored op = true -> o_suffix_l o = "_l" ->
  option_map (apply_strip op) (unquote q (name_l o q raw)) = Some (column_name_of q raw).
Proof.
  intros o q raw op Hop Hs. unfold name_l. rewrite unquote_quote, Hs. simpl.
  rewrite apply_strip_l by exact Hop. reflexivity.
Qed.
Theorem name_r_roundtrip : forall o q raw op,
  strip_anchored op = true -> o_suffix_r o = "_r" ->
  option_map (apply_strip op) (unquote q (name_r o q raw)) = Some (column_name_of q raw).
Proof.
  intros o q raw op Hop Hs. unfold name_r. rewrite unquote_quote, Hs. simpl.
  rewrite apply_strip_r by exact Hop. reflexivity.
Qed.

(* ------------------------------------------------------------------ lists of strings *)
Lemma mem_str_In : forall a l, mem_str a l = true <-> In a l.
Proof.
  induction l as [|x l IH]; simpl; [split; [discriminate|tauto]|].
  rewrite orb_true_iff, IH. split; intros [H|H]; auto.
  - left. apply String.eqb_eq in H. auto.
  - left. subst. apply String.eqb_refl.
Qed.

Lemma In_dedupe : forall l y, In y (dedupe l) <-> In y l.
Proof.
  induction l as [|x l IH]; intro y; simpl; [tauto|].
  rewrite filter_In, IH. split.
  - intros [H|[H _]]; auto.
  - intros [H|H]; [left; exact H|].
    destruct (String.eqb x y) eqn:E.
    + left. apply String.eqb_eq. exact E.
    + right. split; [exact H|]. reflexivity.
Qed.

(* ------------------------------------------------------------------ what ops_good gives *)
Lemma ops_good_inv : forall o, ops_good o = true ->
  o_deact_attr o = AColumnName /\ o_deact_lower_cc o = true /\ o_deact_lower_br o = true /\
  strip_anchored (o_incol_strip o) = true /\ o_prior_lower_br o = true /\ o_cond_lower o = true /\
  strip_anchored (o_isexact_strip o) = true /\ strip_anchored (o_exact_strip o) = true /\
  o_suffix_l o = "_l" /\ o_suffix_r o = "_r".
Proof.
  intros o H. unfold ops_good in H. repeat (apply andb_true_iff in H; destruct H as [H ?]).
  repeat split; try assumption.
  - destruct (o_deact_attr o); [reflexivity|discriminate].
  - apply String.eqb_eq. assumption.
  - apply String.eqb_eq. assumption.
Qed.

(* ------------------------------------------------------------------ (a) deactivation *)
Definition rho_ok (U : list string) (rho : string -> string) : Prop :=
  forall a b, In a U -> In b U -> (lower a = lower b <-> lower (rho a) = lower (rho b)).

Lemma level_input_cols_spec : forall o rho a y, strip_anchored (o_incol_strip o) = true ->
  (In y (level_input_cols o (render_level rho a)) <-> exists x, In x (alevel_cols a) /\ y = rho x).
Proof.
  intros o rho a y Hs. unfold level_input_cols.
  assert (Hflat : forall cols,
    In y (map (apply_strip (o_incol_strip o)) (flat_map (lr rho) cols)) <-> exists x, In x cols /\ y = rho x).
  { induction cols as [|c cols IH]; simpl.
    - split; [tauto|intros [x [[] _]]].
    - unfold sfx. rewrite apply_strip_l, apply_strip_r by exact Hs. rewrite IH. split.
      + intros [H|[H|[x [Hx Hy]]]]; [exists c; auto|exists c; auto|exists x; auto].
      + intros [x [[Hx|Hx] Hy]]; [subst; auto|right; right; exists x; auto]. }
  destruct a as [cols|cols|cols|]; simpl.
  - rewrite In_dedupe. unfold level_ids. simpl. rewrite app_nil_r. apply Hflat.
  - rewrite In_dedupe. unfold level_ids. simpl.
    induction cols as [|c cols IH]; simpl.
    + split; [tauto|intros [x [[] _]]].
    + unfold sfx. rewrite apply_strip_l, apply_strip_r by exact Hs. rewrite IH. split.
      * intros [H|[H|[x [Hx Hy]]]]; [exists c; auto|exists c; auto|exists x; auto].
      * intros [x [[Hx|Hx] Hy]]; [subst; auto|right; right; exists x; auto].
  - rewrite In_dedupe. unfold level_ids. simpl. rewrite app_nil_r. apply Hflat.
  - split; [tauto|intros [x [[] _]]].
Qed.

Lemma cc_cols_spec : forall o rho c y, strip_anchored (o_incol_strip o) = true ->
  (In y (cc_cols o (render rho c)) <-> exists x, In x (acomparison_cols c) /\ y = rho x).
Proof.
  intros o rho c y Hs. unfold cc_cols, render, acomparison_cols. rewrite In_dedupe.
  rewrite in_flat_map. split.
  - intros [lv [Hlv Hy]]. apply in_map_iff in Hlv. destruct Hlv as [a [Ha Hin]]. subst lv.
    apply (level_input_cols_spec o rho a y Hs) in Hy. destruct Hy as [x [Hx Hy]].
    exists x. split; [|exact Hy]. apply in_flat_map. exists a. auto.
  - intros [x [Hx Hy]]. apply in_flat_map in Hx. destruct Hx as [a [Ha Hx]].
    exists (render_level rho a). split; [apply in_map; exact Ha|].
    apply (level_input_cols_spec o rho a y Hs). exists x. auto.
Qed.

Lemma deactivates_spec : forall o q rho br c, ops_good o = true ->
  (deactivates o q (map rho br) (render rho c) = true <->
   exists b x, In b br /\ In x (acomparison_cols c) /\ lower (rho b) = lower (rho x)).
Proof.
  intros o q rho br c Hg. destruct (ops_good_inv o Hg) as (Ha & Hcc & Hbr & Hs & _).
  unfold deactivates. rewrite Ha, Hcc, Hbr. simpl. rewrite existsb_exists. split.
  - intros [b' [Hb' Hm]]. apply in_map_iff in Hb'. destruct Hb' as [b [Hb Hin]]. subst b'.
    apply mem_str_In in Hm. apply in_map_iff in Hm. destruct Hm as [y [Hy Hiny]].
    apply (cc_cols_spec o rho c y Hs) in Hiny. destruct Hiny as [x [Hx Hyx]]. subst y.
    exists b, x. auto.
  - intros [b [x [Hb [Hx He]]]]. exists (rho b). split; [apply in_map; exact Hb|].
    apply mem_str_In. apply in_map_iff. exists (rho x). split; [symmetry; exact He|].
    apply (cc_cols_spec o rho c (rho x) Hs). exists x. auto.
Qed.

Theorem rename_commutes_deactivation :
  forall o q U rho br c, ops_good o = true -> rho_ok U rho ->
    incl br U -> incl (acomparison_cols c) U ->
    deactivates o q (map rho br) (render rho c) = deactivates o q br (render (fun x => x) c).
Proof.
  intros o q U rho br c Hg Hr Hb Hc. apply eq_true_iff_eq.
  pose proof (deactivates_spec o q rho br c Hg) as H1.
  pose proof (deactivates_spec o q (fun x => x) br c Hg) as H2. rewrite map_id in H2.
  rewrite H1, H2. split; intros [b [x [Hib [Hix He]]]]; exists b, x; repeat split; auto;
    apply (Hr b x (Hb b Hib) (Hc x Hix)); exact He.
Qed.

(* ------------------------------------------------------------------ (b) levels for the rule *)
Definition text_ok (o : ops) (U : list string) (rho : string -> string) : Prop :=
  o_exact_text o = IdName \/ forall x, In x U -> starts_with_digit (rho x) = false.

Lemma starts_with_digit_lower_sfx : forall s suf,
  starts_with_digit suf = false -> starts_with_digit s = false ->
  starts_with_digit (lower s +++ suf) = false.
Proof.
  intros s suf Hsuf Hs. destruct s as [|c s]; [exact Hsuf|]. simpl in *.
  unfold lower_ascii. destruct (is_upper c) eqn:Eu; [|exact Hs].
  unfold is_upper, is_digit in *. rewrite nat_ascii_embedding.
  - apply andb_true_iff in Eu. destruct Eu as [E1 E2]. apply Nat.leb_le in E1. apply Nat.leb_le in E2.
    apply andb_false_iff. right. apply Nat.leb_gt. lia.
  - apply andb_true_iff in Eu. destruct Eu as [E1 E2]. apply Nat.leb_le in E2. lia.
Qed.

Lemma ident_sql_id : forall o q U rho x suf, text_ok o U rho -> In x U ->
  starts_with_digit suf = false ->
  ident_sql o q (lower (rho x) +++ suf) = lower (rho x) +++ suf.
Proof.
  intros o q U rho x suf [Ht|Ht] Hx Hsuf; unfold ident_sql.
  - rewrite Ht. reflexivity.
  - destruct (o_exact_text o); [reflexivity|]. unfold sql_unquoted.
    rewrite starts_with_digit_lower_sfx; auto.
Qed.

(* the exact levels of abstract comparisons, with column names transformed by f *)
Fixpoint aexact_of (f : string -> string) (ci li : nat) (c : acomparison) : list (nat * nat * list string) :=
  match c with
  | [] => []
  | a :: r => (match a with
               | AExact (x :: cols) => [(ci, li, map f (x :: cols))]
               | _ => []
               end) ++ aexact_of f ci (S li) r
  end.
Fixpoint aexact (f : string -> string) (ci : nat) (cs : list acomparison) :=
  match cs with [] => [] | c :: r => aexact_of f ci 0 c ++ aexact f (S ci) r end.

Lemma level_is_exact_render : forall o rho a, ops_good o = true ->
  level_is_exact o (render_level rho a) = match a with AExact (_ :: _) => true | _ => false end.
Proof.
  intros o rho a Hg. destruct (ops_good_inv o Hg) as (_ & _ & _ & _ & _ & Hl & Hs & _).
  unfold level_is_exact. destruct a as [cols|cols|cols|]; simpl; try reflexivity.
  destruct cols as [|x cols]; [reflexivity|].
  change (forallb (clause_is_exact o) (map (fun c => CEq (sfx rho c "_l") (sfx rho c "_r")) (x :: cols)) = true).
  apply forallb_forall. intros cl Hcl. apply in_map_iff in Hcl. destruct Hcl as [c [Hc _]]. subst cl.
  unfold clause_is_exact, sfx. rewrite Hl. simpl. rewrite lower_sfx_l, lower_sfx_r.
  rewrite apply_strip_l, apply_strip_r by exact Hs. apply String.eqb_refl.
Qed.

Lemma level_colnames_render : forall o q U rho cols, ops_good o = true -> text_ok o U rho ->
  incl cols U ->
  level_colnames o q (render_level rho (AExact cols)) = Some (map (fun c => lower (rho c)) cols).
Proof.
  intros o q U rho cols Hg Ht. destruct (ops_good_inv o Hg) as (_ & _ & _ & _ & _ & Hl & _ & Hs & _).
  unfold level_colnames. simpl lv_clauses. induction cols as [|c cols IH]; intro Hin; [reflexivity|].
  cbn [map all_some].
  assert (Hc : In c U) by (apply Hin; left; reflexivity).
  assert (Hcl : clause_colname o q (CEq (sfx rho c "_l") (sfx rho c "_r")) = Some (lower (rho c))).
  { unfold clause_colname, sfx, low. rewrite Hl. rewrite lower_sfx_l, lower_sfx_r.
    rewrite (ident_sql_id o q U rho c "_l" Ht Hc eq_refl), (ident_sql_id o q U rho c "_r" Ht Hc eq_refl).
    rewrite apply_strip_l, apply_strip_r by exact Hs. rewrite String.eqb_refl. reflexivity. }
  rewrite Hcl. rewrite IH; [reflexivity|]. intros z Hz. apply Hin. right. exact Hz.
Qed.

Lemma all_some_app : forall (A : Type) (a b : list (option A)) x y,
  all_some a = Some x -> all_some b = Some y -> all_some (a ++ b) = Some (x ++ y).
Proof.
  induction a as [|[v|] a IH]; simpl; intros b x y Ha Hb.
  - inversion Ha. exact Hb.
  - destruct (all_some a) as [x'|] eqn:E; [|discriminate]. inversion Ha; subst.
    rewrite (IH b x' y eq_refl Hb). reflexivity.
  - discriminate.
Qed.

Lemma acc_head : forall a c z, In z (alevel_cols a) -> In z (acomparison_cols (a :: c)).
Proof. intros. unfold acomparison_cols. cbn [flat_map]. apply in_or_app. left. assumption. Qed.
Lemma acc_tail : forall a c z, In z (acomparison_cols c) -> In z (acomparison_cols (a :: c)).
Proof. intros. unfold acomparison_cols in *. cbn [flat_map]. apply in_or_app. right. assumption. Qed.

Lemma exact_levels_of_render : forall o q U rho c ci li, ops_good o = true -> text_ok o U rho ->
  incl (acomparison_cols c) U ->
  all_some (exact_levels_of o q ci li (render rho c)) = Some (aexact_of (fun x => lower (rho x)) ci li c).
Proof.
  intros o q U rho c ci li Hg Ht. revert li. induction c as [|a c IH]; intros li Hin; [reflexivity|].
  simpl. apply all_some_app.
  - rewrite (level_is_exact_render o rho a Hg). destruct a as [cols|cols|cols|]; try reflexivity.
    destruct cols as [|x cols]; [reflexivity|].
    rewrite (level_colnames_render o q U rho (x :: cols) Hg Ht); [reflexivity|].
    intros z Hz. apply Hin. apply acc_head. exact Hz.
  - apply IH. intros z Hz. apply Hin. apply acc_tail. exact Hz.
Qed.

Lemma exact_levels_render : forall o q U rho cs ci, ops_good o = true -> text_ok o U rho ->
  incl (flat_map acomparison_cols cs) U ->
  all_some (exact_levels o q ci (map (render rho) cs)) = Some (aexact (fun x => lower (rho x)) ci cs).
Proof.
  intros o q U rho cs. induction cs as [|c cs IH]; intros ci Hg Ht Hin; [reflexivity|].
  simpl. apply all_some_app.
  - apply (exact_levels_of_render o q U); auto. intros z Hz. apply Hin. simpl. apply in_or_app. left. exact Hz.
  - apply IH; auto. intros z Hz. apply Hin. simpl. apply in_or_app. right. exact Hz.
Qed.

(* two lists of names that correspond through the renaming *)
Definition R (U : list string) (rho : string -> string) (a a' : string) : Prop :=
  exists x, In x U /\ a = lower x /\ a' = lower (rho x).

Lemma R_biunique : forall U rho a a' b b', rho_ok U rho -> R U rho a a' -> R U rho b b' ->
  (a = b <-> a' = b').
Proof.
  intros U rho a a' b b' Hr [x [Hx [Ha Ha']]] [y [Hy [Hb Hb']]]. subst. apply Hr; assumption.
Qed.

Lemma eqb_R : forall U rho a a' b b', rho_ok U rho -> R U rho a a' -> R U rho b b' ->
  String.eqb a b = String.eqb a' b'.
Proof.
  intros. apply eq_true_iff_eq. rewrite !String.eqb_eq. eapply R_biunique; eauto.
Qed.

Lemma mem_R : forall U rho a a' l l', rho_ok U rho -> R U rho a a' -> Forall2 (R U rho) l l' ->
  mem_str a l = mem_str a' l'.
Proof.
  intros U rho a a' l l' Hr Ha HF. induction HF as [|b b' l l' Hb HF IH]; [reflexivity|].
  simpl. rewrite IH. rewrite (eqb_R U rho a a' b b' Hr Ha Hb). reflexivity.
Qed.

Lemma subset_R : forall U rho c c' l l', rho_ok U rho -> Forall2 (R U rho) c c' -> Forall2 (R U rho) l l' ->
  subset c l = subset c' l'.
Proof.
  intros U rho c c' l l' Hr Hc Hl. unfold subset. induction Hc as [|a a' c c' Ha Hc IH]; [reflexivity|].
  simpl. rewrite IH. rewrite (mem_R U rho a a' l l' Hr Ha Hl). reflexivity.
Qed.

Lemma filter_R : forall U rho (p p' : string -> bool) l l',
  Forall2 (R U rho) l l' -> (forall a a', R U rho a a' -> p a = p' a') ->
  Forall2 (R U rho) (filter p l) (filter p' l').
Proof.
  intros U rho p p' l l' HF Hp. induction HF as [|a a' l l' Ha HF IH]; [constructor|].
  simpl. rewrite (Hp a a' Ha). destruct (p' a'); [constructor; assumption|assumption].
Qed.

Lemma remove_all_R : forall U rho c c' l l', rho_ok U rho -> Forall2 (R U rho) c c' -> Forall2 (R U rho) l l' ->
  Forall2 (R U rho) (remove_all c l) (remove_all c' l').
Proof.
  intros U rho c c' l l' Hr Hc Hl. unfold remove_all. apply filter_R; [exact Hl|].
  intros a a' Ha. rewrite (mem_R U rho a a' c c' Hr Ha Hc). reflexivity.
Qed.

Lemma dedupe_R : forall U rho l l', rho_ok U rho -> Forall2 (R U rho) l l' ->
  Forall2 (R U rho) (dedupe l) (dedupe l').
Proof.
  intros U rho l l' Hr HF. induction HF as [|a a' l l' Ha HF IH]; [constructor|].
  simpl. constructor; [exact Ha|]. apply filter_R; [exact IH|].
  intros b b' Hb. rewrite (eqb_R U rho a a' b b' Hr Ha Hb). reflexivity.
Qed.

(* triples that correspond: same indices, corresponding column names *)
Definition RT (U : list string) (rho : string -> string) (t t' : nat * nat * list string) : Prop :=
  fst t = fst t' /\ Forall2 (R U rho) (snd t) (snd t').

Lemma RT_klen : forall U rho t t', RT U rho t t' -> klen t = klen t'.
Proof. intros U rho t t' [_ H]. unfold klen. induction H; simpl; auto. Qed.

Lemma insert_RT : forall U rho t t' l l', RT U rho t t' -> Forall2 (RT U rho) l l' ->
  Forall2 (RT U rho) (insert_desc t l) (insert_desc t' l').
Proof.
  intros U rho t t' l l' Ht HF. induction HF as [|y y' l l' Hy HF IH]; simpl.
  - constructor; [exact Ht|constructor].
  - rewrite (RT_klen _ _ _ _ Ht), (RT_klen _ _ _ _ Hy).
    destruct (Nat.ltb (klen t') (klen y')).
    + constructor; assumption.
    + constructor; [exact Ht|]. constructor; assumption.
Qed.

Lemma sort_RT : forall U rho l l', Forall2 (RT U rho) l l' -> Forall2 (RT U rho) (sort_desc l) (sort_desc l').
Proof.
  intros U rho l l' HF. unfold sort_desc. induction HF; simpl; [constructor|]. apply insert_RT; assumption.
Qed.

Lemma greedy_RT : forall U rho l l', rho_ok U rho -> Forall2 (RT U rho) l l' ->
  forall B B', Forall2 (R U rho) B B' -> greedy B l = greedy B' l'.
Proof.
  intros U rho l l' Hr HF. induction HF as [|t t' l l' Ht HF IH]; intros B B' HB; [reflexivity|].
  destruct t as [[ci li] cn], t' as [[ci' li'] cn']. destruct Ht as [Hi Hc]. simpl in Hi, Hc.
  inversion Hi; subst ci' li'. simpl.
  rewrite (subset_R U rho cn cn' B B' Hr Hc HB). destruct (subset cn' B').
  - f_equal. apply IH. apply remove_all_R; assumption.
  - apply IH. exact HB.
Qed.

Lemma map_R : forall U rho l, incl l U ->
  Forall2 (R U rho) (map (fun x => lower x) l) (map (fun x => lower (rho x)) l).
Proof.
  intros U rho l. induction l as [|y l IH]; intro Hc; [constructor|]. simpl. apply Forall2_cons.
  - exists y. split; [apply Hc; left; reflexivity|auto].
  - apply IH. intros z Hz. apply Hc. right. exact Hz.
Qed.

Lemma aexact_of_RT : forall U rho c ci li, incl (acomparison_cols c) U ->
  Forall2 (RT U rho) (aexact_of (fun x => lower x) ci li c) (aexact_of (fun x => lower (rho x)) ci li c).
Proof.
  intros U rho c ci. induction c as [|a c IH]; intros li Hin; [constructor|].
  simpl. apply Forall2_app.
  - destruct a as [cols|cols|cols|]; try constructor. destruct cols as [|x cols]; [constructor|].
    constructor; [|constructor]. split; [reflexivity|]. simpl snd.
    assert (Hc : incl (x :: cols) U).
    { intros z Hz. apply Hin. apply (acc_head (AExact (x :: cols))). exact Hz. }
    exact (map_R U rho (x :: cols) Hc).
  - apply IH. intros z Hz. apply Hin. apply acc_tail. exact Hz.
Qed.

Lemma aexact_RT : forall U rho cs ci, incl (flat_map acomparison_cols cs) U ->
  Forall2 (RT U rho) (aexact (fun x => lower x) ci cs) (aexact (fun x => lower (rho x)) ci cs).
Proof.
  intros U rho cs. induction cs as [|c cs IH]; intros ci Hin; [constructor|].
  simpl. apply Forall2_app.
  - apply aexact_of_RT. intros z Hz. apply Hin. simpl. apply in_or_app. left. exact Hz.
  - apply IH. intros z Hz. apply Hin. simpl. apply in_or_app. right. exact Hz.
Qed.

Lemma map_lower_R : forall U rho br, incl br U ->
  Forall2 (R U rho) (map lower br) (map lower (map rho br)).
Proof.
  intros U rho br. induction br as [|b br IH]; intro Hin; [constructor|]. simpl. constructor.
  - exists b. split; [apply Hin; left; reflexivity|auto].
  - apply IH. intros z Hz. apply Hin. right. exact Hz.
Qed.

Lemma text_ok_id : forall o U rho, text_ok o U rho ->
  (forall x, In x U -> starts_with_digit x = false) \/ o_exact_text o = IdName -> text_ok o U (fun x => x).
Proof. intros o U rho _ [H|H]; [right; exact H|left; exact H]. Qed.

Theorem rename_commutes_levels_for_rule :
  forall o q U rho br cs, ops_good o = true -> rho_ok U rho ->
    text_ok o U rho -> text_ok o U (fun x => x) ->
    incl br U -> incl (flat_map acomparison_cols cs) U ->
    levels_for_rule o q (map rho br) (map (render rho) cs) =
    levels_for_rule o q br (map (render (fun x => x)) cs).
Proof.
  intros o q U rho br cs Hg Hr Ht Ht0 Hb Hc. unfold levels_for_rule.
  rewrite (exact_levels_render o q U rho cs 0 Hg Ht Hc).
  rewrite (exact_levels_render o q U (fun x => x) cs 0 Hg Ht0 Hc).
  destruct (ops_good_inv o Hg) as (_ & _ & _ & _ & Hp & _). rewrite Hp. simpl. f_equal. symmetry.
  apply (greedy_RT U rho); [exact Hr| |].
  - apply sort_RT. apply aexact_RT. exact Hc.
  - apply dedupe_R; [exact Hr|]. apply map_lower_R. exact Hb.
Qed.

(* ------------------------------------------------------------------ (c) derived column names *)
Lemma dedupe_const : forall (x : string) l, (forall y, In y l -> y = x) -> l <> [] -> dedupe l = [x].
Proof.
  intros x l. induction l as [|a l IH]; intros H Hne; [congruence|].
  simpl. assert (a = x) by (apply H; left; reflexivity). subst a. f_equal.
  destruct l as [|b l]; [reflexivity|].
  rewrite IH; [|intros y Hy; apply H; right; exact Hy|discriminate].
  simpl. rewrite String.eqb_refl. reflexivity.
Qed.

Theorem single_column_names : forall o q rho c pre, strip_anchored (o_incol_strip o) = true ->
  let cmp := render rho [ANull [c]; AExact [c]; AElse] in
  cc_cols o cmp = [rho c] /\
  default_output_name o q cmp = Some (attr_of o q (o_out_attr o) (rho c)) /\
  option_map (gamma_name o pre) (default_output_name o q cmp)
    = Some (prefixed o pre (attr_of o q (o_out_attr o) (rho c))).
Proof.
  intros o q rho c pre Hs cmp.
  assert (H : cc_cols o cmp = [rho c]).
  { unfold cc_cols, cmp, render. simpl. unfold level_input_cols. simpl. unfold level_ids. simpl.
    unfold sfx. rewrite !apply_strip_l, !apply_strip_r by exact Hs. simpl.
    rewrite !String.eqb_refl. simpl. rewrite !String.eqb_refl. reflexivity. }
  split; [exact H|]. unfold default_output_name. rewrite H. split; reflexivity.
Qed.
