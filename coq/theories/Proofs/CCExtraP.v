(* Composite ids, match-weight thresholds, and what happens outside the closed_edges precondition. *)
From Coq Require Import ZArith List Bool Lia QArith Lqa String Ascii.
From Splinkv Require Import Base.Graph Model.CC Proofs.CCP.
Import ListNotations.

(* ---- composite ids ---- *)
Open Scope string_scope.

Lemma append_inj_l (p a b : string) : p ++ a = p ++ b -> a = b.
Proof. induction p as [|c p IH]; cbn; [auto|]. intros H. injection H as H. auto. Qed.

(* injective as soon as the source dataset names contain no '-' (the first '-' of the composite then
   marks the end of the dataset name) *)
Lemma composite_id_inj s1 u1 s2 u2 :
  has_char "-"%char s1 = false -> has_char "-"%char s2 = false ->
  composite_id s1 u1 = composite_id s2 u2 -> s1 = s2 /\ u1 = u2.
Proof.
  unfold composite_id, composite_sep. revert s2. induction s1 as [|a s1 IH]; intros [|b s2] H1 H2 E; cbn in *.
  - split; [reflexivity|]. injection E as E. exact E.
  - injection E as E0 _. subst b. cbn in H2. discriminate H2.
  - injection E as E0 _. subst a. cbn in H1. discriminate H1.
  - injection E as E0 E. subst b. apply orb_false_iff in H1. apply orb_false_iff in H2.
    destruct (IH s2 (proj2 H1) (proj2 H2) E) as [-> ->]. auto.
Qed.

(* ---- match weight = its probability, for the clustering ---- *)
Open Scope Z_scope.

Lemma weight_to_prob_lt_1 w : (weight_to_prob w < 1)%Q.
Proof.
  unfold weight_to_prob. pose proof (pow2Q_pos w) as Hb. set (b := pow2Q w) in *.
  apply Qlt_shift_div_r; lra.
Qed.

Lemma keep_edge_weight_eq w e :
  (0 <= snd e)%Q -> (snd e <= 1)%Q -> keep_edge (Some (weight_to_prob w)) e = keep_edge_weight w e.
Proof.
  intros H0 H1. unfold keep_edge, keep_edge_weight. destruct (Qeq_bool (snd e) 1) eqn:E1.
  - apply Qeq_bool_iff in E1. apply Qle_bool_iff. rewrite E1. apply Qlt_le_weak, weight_to_prob_lt_1.
  - assert (Hlt : (snd e < 1)%Q).
    { apply Qle_lteq in H1. destruct H1 as [H1|H1]; [exact H1|]. apply Qeq_bool_iff in H1. congruence. }
    pose proof (weight_threshold_equiv w (snd e) H0 Hlt) as EQ.
    destruct (Qle_bool (weight_to_prob w) (snd e)) eqn:A, (Qle_bool (pow2Q w) (snd e / (1 - snd e))) eqn:B; auto.
    + apply Qle_bool_iff in A. apply EQ in A. apply Qle_bool_iff in A. congruence.
    + apply Qle_bool_iff in B. apply EQ in B. apply Qle_bool_iff in B. congruence.
Qed.

Lemma thr_edges_weight w edges :
  (forall e, In e edges -> (0 <= snd e)%Q /\ (snd e <= 1)%Q) ->
  thr_edges (Some (weight_to_prob w)) edges = weight_edges w edges.
Proof.
  intros H. unfold thr_edges, weight_edges. f_equal. apply filter_ext_in.
  intros e He. destruct (H e He). now apply keep_edge_weight_eq.
Qed.

(* ---- NULL probabilities ---- *)
Lemma thr_edges_n_some t edges : thr_edges_n (Some t) edges = thr_edges (Some t) (non_null edges).
Proof.
  unfold thr_edges_n, thr_edges, non_null. induction edges as [|[ab [p|]] l IH]; cbn; [reflexivity| |exact IH].
  unfold keep_edge. cbn. destruct (Qle_bool t p); cbn; [f_equal|]; exact IH.
Qed.

Lemma thr_edges_n_none edges : thr_edges_n None edges = map fst edges.
Proof. unfold thr_edges_n. f_equal. induction edges as [|e l IH]; cbn; [reflexivity|]. now rewrite IH. Qed.

Lemma thr_edges_n_in t edges a b :
  In (a, b) (thr_edges_n (Some t) edges) <-> exists p, In (a, b, Some p) edges /\ (t <= p)%Q.
Proof.
  unfold thr_edges_n. rewrite in_map_iff. split.
  - intros [[[a' b'] [p|]] [E H]]; cbn in E; injection E as -> ->; apply filter_In in H; destruct H as [H K]; cbn in K.
    + exists p. split; [exact H|now apply Qle_bool_iff].
    + discriminate K.
  - intros [p [H K]]. exists (a, b, Some p). split; [reflexivity|]. apply filter_In. split; [exact H|].
    cbn. now apply Qle_bool_iff.
Qed.
