From Coq Require Import String Bool ZArith QArith Qabs Lia List.
From Splinkv Require Import Base.TV Model.SqlExpr Model.Levels Proofs.LevelsP Model.Backends.
Import ListNotations.
Local Open Scope Q_scope.

(* two implementations within e1 / e2 of one model value are within e1 + e2 of each other *)
Lemma agree_via_model (m a b e1 e2 : Q) :
  Qabs (a - m) <= e1 -> Qabs (b - m) <= e2 -> Qabs (a - b) <= e1 + e2.
Proof.
  intros Ha Hb.
  assert (E : a - b == (a - m) + - (b - m)) by ring.
  rewrite E. eapply Qle_trans; [apply Qabs_triangle|].
  rewrite Qabs_opp. now apply Qplus_le_compat.
Qed.

Lemma close_spec tol r x : close tol r x = true <-> Qabs (x - r) <= tol * scale r.
Proof. unfold close. apply Qle_bool_iff. Qed.

Lemma scale_pos r : 1 <= scale r.
Proof.
  unfold scale. destruct (Qle_bool 1 (Qabs r)) eqn:E; [now apply Qle_bool_iff|apply Qle_refl].
Qed.

(* each backend close to the reference => the two backends agree within twice the tolerance *)
Lemma close_two_backends tol r a b :
  close tol r a = true -> close tol r b = true -> Qabs (a - b) <= 2 * tol * scale r.
Proof.
  intros Ha Hb. apply close_spec in Ha. apply close_spec in Hb.
  eapply Qle_trans; [eapply agree_via_model; eauto|].
  assert (E : tol * scale r + tol * scale r == 2 * tol * scale r) by ring.
  rewrite E. apply Qle_refl.
Qed.

Lemma all_close_spec tol l : all_close tol l = true <-> Forall (fun rx => Qabs (snd rx - fst rx) <= tol * scale (fst rx)) l.
Proof.
  unfold all_close. rewrite forallb_forall, Forall_forall. split; intros H x Hx; apply close_spec; auto.
Qed.

(* discrete results: agreeing with one deterministic model means agreeing with each other *)
Lemma agree_via_model_discrete (X Y : Type) (model i1 i2 : X -> Y) x :
  i1 x = model x -> i2 x = model x -> i1 x = i2 x.
Proof. congruence. Qed.

Lemma zlist_eqb_eq a : forall b, zlist_eqb a b = true <-> a = b.
Proof.
  induction a as [|x a IH]; intros [|y b]; cbn; split; try discriminate; auto.
  - intros H. apply andb_true_iff in H as [H1 H2]. apply Z.eqb_eq in H1. apply IH in H2. congruence.
  - intros [= -> ->]. rewrite Z.eqb_refl. now apply IH.
Qed.
Lemma zrows_eqb_eq a : forall b, zrows_eqb a b = true <-> a = b.
Proof.
  induction a as [|x a IH]; intros [|y b]; cbn; split; try discriminate; auto.
  - intros H. apply andb_true_iff in H as [H1 H2]. apply zlist_eqb_eq in H1. apply IH in H2. congruence.
  - intros [= -> ->]. apply andb_true_iff. split; [now apply zlist_eqb_eq|now apply IH].
Qed.

Lemma same_partition_sound a b : same_partition a b = true ->
  length a = length b /\
  forall i j xa xb ya yb,
    nth_error a i = Some xa -> nth_error b i = Some xb -> nth_error a j = Some ya -> nth_error b j = Some yb ->
    (xa = ya <-> xb = yb).
Proof.
  unfold same_partition. intros H. apply andb_true_iff in H as [Hl H]. apply Nat.eqb_eq in Hl.
  split; [exact Hl|]. intros i j xa xb ya yb Hia Hib Hja Hjb.
  rewrite forallb_forall in H.
  assert (Hin : forall k x y, nth_error a k = Some x -> nth_error b k = Some y -> In (x, y) (combine a b)).
  { clear. revert b. induction a as [|u a IH]; intros b k x y Ha Hb; [destruct k; discriminate|].
    destruct b as [|v b]; [destruct k; discriminate|]. destruct k as [|k]; cbn in *.
    - left. congruence.
    - right. eapply IH; eauto. }
  specialize (H _ (Hin i xa xb Hia Hib)). rewrite forallb_forall in H.
  specialize (H _ (Hin j ya yb Hja Hjb)). cbn in H. apply Bool.eqb_prop in H.
  rewrite <- !Z.eqb_eq. rewrite H. tauto.
Qed.

Lemma dialect_table_ok_sound t : dialect_table_ok t = true ->
  forall d es e, In (d, es) t -> In e es ->
    f_registered e = true /\ (f_ge e = true -> f_kind e = Similarity) /\ (f_ge e = false -> f_kind e = Distance).
Proof.
  unfold dialect_table_ok. rewrite forallb_forall. intros H d es e Hd He.
  specialize (H _ Hd). cbn in H. rewrite forallb_forall in H. specialize (H _ He).
  unfold entry_ok in H. apply andb_true_iff in H as [H1 H2]. split; [exact H1|].
  destruct (f_ge e), (f_kind e); cbn in H2; try discriminate; split; congruence.
Qed.

Lemma bad_entries_nil t : dialect_table_ok t = true -> bad_entries t = [].
Proof.
  unfold dialect_table_ok, bad_entries. intros H. rewrite forallb_forall in H.
  induction t as [|[d es] t IH]; [reflexivity|]. cbn.
  assert (Hd : forallb entry_ok es = true) by (apply (H (d, es)); now left).
  assert (E : filter (fun e => negb (entry_ok e)) es = []).
  { clear -Hd. induction es as [|e es IH]; [reflexivity|]. cbn in *. apply andb_true_iff in Hd as [H1 H2].
    rewrite H1. cbn. auto. }
  rewrite E. cbn. apply IH. intros x Hx. apply H. now right.
Qed.

(* a distance registered under a name used with `>=` inverts the level: for a similarity s in [0,1]
   the condition (1 - s) >= t is s <= 1 - t *)
Lemma distance_under_ge_inverts (s t : Q) : Qle_bool t (1 - s) = Qle_bool s (1 - t).
Proof.
  destruct (Qle_bool t (1 - s)) eqn:E1, (Qle_bool s (1 - t)) eqn:E2; auto.
  - apply Qle_bool_iff in E1. assert (s <= 1 - t).
    { apply Qplus_le_l with (z := t). apply Qplus_le_l with (z := s) in E1.
      assert (A : 1 - t + t == 1) by ring. assert (B : 1 - s + s == 1) by ring.
      rewrite A. rewrite B in E1. rewrite Qplus_comm. exact E1. }
    apply Qle_bool_iff in H. congruence.
  - apply Qle_bool_iff in E2. assert (t <= 1 - s).
    { apply Qplus_le_l with (z := s). apply Qplus_le_l with (z := t) in E2.
      assert (A : 1 - t + t == 1) by ring. assert (B : 1 - s + s == 1) by ring.
      rewrite B. rewrite A in E2. rewrite Qplus_comm. exact E2. }
    apply Qle_bool_iff in H. congruence.
Qed.

(* ---- renaming by synonyms preserves meaning when the interpretation respects the table ---- *)
Definition respects (fenv : string -> list val -> val) (syn : list (string * string)) : Prop :=
  forall f args, fenv (canon syn f) args = fenv f args.

Lemma eval_rename P fenv env syn : respects fenv syn -> forall e, eval P fenv env (rename syn e) = eval P fenv env e.
Proof.
  intros Hr e. induction e using expr_ind2; cbn [rename eval]; try congruence.
  - rewrite IHe. clear IHe. induction H as [|[c v] t [Hc Hv] Ht IH]; cbn [map]; [reflexivity|].
    cbn [fst snd] in *. rewrite Hc, Hv, IH. reflexivity.
  - rewrite Hr. f_equal. induction H as [|x t Hx Ht IH]; cbn [map]; [reflexivity|]. now rewrite Hx, IH.
  - rewrite IHe1, IHe2. destruct (eval P fenv env e1); try reflexivity. destruct (eval P fenv env e2); try reflexivity.
    f_equal. apply map_ext. intros xy. apply Hr.
Qed.

Lemma same_modulo_sound syn e1 e2 : same_modulo syn e1 e2 = true ->
  forall P fenv env, respects fenv syn -> eval P fenv env e1 = eval P fenv env e2.
Proof.
  unfold same_modulo. intros H P fenv env Hr. apply expr_eqb_eq in H.
  rewrite <- (eval_strip P fenv env e1), <- (eval_strip P fenv env e2).
  rewrite <- (eval_rename P fenv env syn Hr (strip e1)), <- (eval_rename P fenv env syn Hr (strip e2)).
  now rewrite H.
Qed.

Local Open Scope string_scope.
(* the part of the table that is verified: each synonym with an executable meaning has the SAME `builtin` as its canonical
   name (not merely the same default for unknown names), and that meaning is defined and not NULL on some arguments *)
Lemma builtin_respects_synonyms : forall f args, builtin (canon synonyms_builtin f) args = builtin f args.
Proof.
  intros f args. unfold synonyms_builtin. cbn [canon].
  destruct (String.eqb_spec f "jaro_sim") as [->|N1]; [reflexivity|].
  destruct (String.eqb_spec f "jaro_winkler") as [->|N2]; [reflexivity|].
  destruct (String.eqb_spec f "size") as [->|N3]; [reflexivity|].
  destruct (String.eqb_spec f "array_intersect") as [->|N4]; [reflexivity|].
  reflexivity.
Qed.
Lemma synonyms_builtin_defined : forall a b, In (a, b) synonyms_builtin ->
  exists args v, builtin a args = Some v /\ builtin b args = Some v /\ v <> VNull.
Proof.
  intros a b H. unfold synonyms_builtin in H. cbn in H.
  destruct H as [E|[E|[E|[E|[]]]]]; injection E as <- <-.
  - exists [VStr "martha"; VStr "marhta"]. eexists. repeat split; try (vm_compute; reflexivity). discriminate.
  - exists [VStr "martha"; VStr "marhta"]. eexists. repeat split; try (vm_compute; reflexivity). discriminate.
  - exists [VArr ["a"; "b"]]. eexists. repeat split; try (vm_compute; reflexivity). discriminate.
  - exists [VArr ["a"; "b"]; VArr ["b"; "c"]]. eexists. repeat split; try (vm_compute; reflexivity). discriminate.
Qed.
(* an interpretation extends the verified part to the X-only synonyms exactly when it identifies those names *)
Lemma respects_app fenv s1 s2 :
  (forall f, In f (map fst s1) -> ~ In f (map fst s2)) ->
  (forall f, In f (map snd s1) -> ~ In f (map fst s2)) ->
  respects fenv s1 -> respects fenv s2 -> respects fenv (s1 ++ s2).
Proof.
  intros D1 D2 H1 H2 f args. unfold respects in *.
  assert (E : forall l, canon (l ++ s2) f = (if existsb (String.eqb f) (map fst l) then canon l f else canon s2 f)).
  { induction l as [|[a b] t IH]; cbn; [reflexivity|]. destruct (String.eqb f a); [reflexivity|]. apply IH. }
  rewrite E. destruct (existsb (String.eqb f) (map fst s1)); auto.
Qed.
