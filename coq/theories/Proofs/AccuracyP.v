(* Lemmas about Model/Accuracy.v (truth-space table = recount; prediction errors). *)
From Coq Require Import List Bool ZArith QArith Qround Lia Sorting.Sorted Arith.
From Splinkv Require Import Base.TV Base.GroupBy Base.CumSum Model.BlockAnalysis Model.Accuracy.
From Coq Require Strings.String.
Import String.StringSyntax.
Import ListNotations.
Local Open Scope Z_scope.

(* ------------------------------------------------------------------ order on Q as booleans *)
Lemma Qleb_total a b : Qle_bool a b = true \/ Qle_bool b a = true.
Proof.
  rewrite !Qle_bool_iff. destruct (Qlt_le_dec a b) as [H|H];
    [left; apply Qlt_le_weak; exact H|right; exact H].
Qed.
Lemma Qleb_trans a b c : Qle_bool a b = true -> Qle_bool b c = true -> Qle_bool a c = true.
Proof. rewrite !Qle_bool_iff. apply Qle_trans. Qed.
Lemma ltk_Qlt a b : ltk Qle_bool a b = true <-> (a < b)%Q.
Proof.
  unfold ltk. rewrite andb_true_iff, negb_true_iff, Qle_bool_iff. split.
  - intros [H1 H2]. apply Qnot_le_lt. intros H. apply Qle_bool_iff in H. congruence.
  - intros H. split; [apply Qlt_le_weak; exact H|].
    destruct (Qle_bool b a) eqn:E; [|reflexivity]. apply Qle_bool_iff in E.
    exfalso. eapply Qlt_not_le; eauto.
Qed.
Lemma eqk_Qeq a b : eqk Qle_bool a b = true <-> (a == b)%Q.
Proof.
  unfold eqk. rewrite andb_true_iff, !Qle_bool_iff. split.
  - intros [H1 H2]. apply Qle_antisym; assumption.
  - intros H. rewrite H. split; apply Qle_refl.
Qed.

(* ------------------------------------------------------------------ generic list facts *)
Lemma sum_by_map {A B} (h : B -> Z) (mk : A -> B) l :
  sum_by h (map mk l) = sum_by (fun x => h (mk x)) l.
Proof. unfold sum_by. rewrite map_map. reflexivity. Qed.
Lemma filter_map_comm {A B} (q : B -> bool) (mk : A -> B) l :
  filter q (map mk l) = map mk (filter (fun x => q (mk x)) l).
Proof.
  induction l as [|x t IH]; [reflexivity|]. cbn. destruct (q (mk x)); cbn; rewrite IH; reflexivity.
Qed.
Lemma sum_by_filter_as_sumZ {A} (h : A -> Z) (q : A -> bool) l :
  sum_by h (filter q l) = sumZ (map (fun k => if q k then h k else 0) l).
Proof.
  induction l as [|x t IH]; [reflexivity|]. cbn [filter map sumZ].
  destruct (q x); [rewrite sum_by_cons|]; rewrite IH; lia.
Qed.
Lemma StronglySorted_map {A B} (R : B -> B -> Prop) (f : A -> B) l :
  StronglySorted (fun a b => R (f a) (f b)) l -> StronglySorted R (map f l).
Proof.
  induction 1 as [|a l Hs IH Ha]; cbn; constructor; [exact IH|].
  rewrite Forall_forall in *. intros y Hy. apply in_map_iff in Hy. destruct Hy as (x & <- & Hx).
  apply Ha. exact Hx.
Qed.
Lemma StronglySorted_impl {A} (R R' : A -> A -> Prop) l :
  (forall a b, R a b -> R' a b) -> StronglySorted R l -> StronglySorted R' l.
Proof.
  intros HR. induction 1 as [|a l Hs IH Ha]; constructor; [exact IH|].
  rewrite Forall_forall in *. intros y Hy. apply HR, Ha, Hy.
Qed.
Lemma StronglySorted_filter {A} (R : A -> A -> Prop) (p : A -> bool) l :
  StronglySorted R l -> StronglySorted R (filter p l).
Proof.
  induction 1 as [|a l Hs IH Ha]; cbn; [constructor|]. destruct (p a); [|exact IH].
  constructor; [exact IH|]. rewrite Forall_forall in *. intros y Hy. apply filter_In in Hy.
  apply Ha. tauto.
Qed.
Lemma countZ_split {A} (p q : A -> bool) l :
  countZ q l = countZ (fun x => p x && q x) l + countZ (fun x => negb (p x) && q x) l.
Proof.
  unfold countZ. induction l as [|x t IH]; [reflexivity|]. cbn [filter].
  destruct (p x), (q x); cbn [andb negb length]; lia.
Qed.
Lemma countZ_ext {A} (p q : A -> bool) l : (forall x, In x l -> p x = q x) -> countZ p l = countZ q l.
Proof.
  unfold countZ. induction l as [|x t IH]; intros H; [reflexivity|]. cbn [filter].
  rewrite (H x) by (left; reflexivity). assert (IH' := IH (fun y Hy => H y (or_intror Hy))).
  destruct (q x); cbn [length]; lia.
Qed.
Lemma countZ_mono {A} (p q : A -> bool) l :
  (forall x, In x l -> p x = true -> q x = true) -> countZ p l <= countZ q l.
Proof.
  unfold countZ. induction l as [|x t IH]; intros H; [reflexivity|]. cbn [filter].
  assert (IH' := IH (fun y Hy => H y (or_intror Hy))).
  destruct (p x) eqn:Ep.
  - rewrite (H x (or_introl eq_refl) Ep). cbn [length]. lia.
  - destruct (q x); cbn [length]; lia.
Qed.
Lemma countZ_nonneg {A} (p : A -> bool) l : 0 <= countZ p l.
Proof. unfold countZ. lia. Qed.
Lemma countZ_all {A} (p : A -> bool) l :
  countZ p l + countZ (fun x => negb (p x)) l = Z.of_nat (length l).
Proof.
  unfold countZ. induction l as [|x t IH]; [reflexivity|]. cbn [filter].
  destruct (p x); cbn [negb length]; lia.
Qed.

(* ------------------------------------------------------------------ the truth-space table *)
Section TruthTable.
  Variable thr_actual : Q.
  Variable rnd : Q -> Q.
  Variable zero_unfound : bool.
  Variable total_labels : option Z.
  Variable rows : list lrow.

  Let adj := adj_score rnd zero_unfound.
  Let pos := is_pos thr_actual.

  Definition mk_adj (r : lrow) : adjrow :=
    let p := {| pn_src := r; truth_threshold := rnd (score r);
                clerical_positive := if is_pos thr_actual r then 1 else 0;
                clerical_negative := if is_pos thr_actual r then 0 else 1 |} in
    {| a_pn := p; truth_threshold_adj := tt_adj zero_unfound p |}.
  Definition adjl : list adjrow :=
    labels_with_pos_neg_tt_adj zero_unfound (labels_with_pos_neg thr_actual rnd rows).
  Definition G : list grow := labels_with_pos_neg_grouped adjl.

  Lemma adjl_map : adjl = map mk_adj rows.
  Proof. unfold adjl, labels_with_pos_neg_tt_adj, labels_with_pos_neg. rewrite map_map. reflexivity. Qed.
  Lemma key_mk_adj r : truth_threshold_adj (mk_adj r) = adj r.
  Proof. reflexivity. Qed.
  Lemma pos_mk_adj r : a_pos (mk_adj r) = if pos r then 1 else 0.
  Proof. reflexivity. Qed.
  Lemma neg_mk_adj r : a_neg (mk_adj r) = if negb (pos r) then 1 else 0.
  Proof. unfold a_neg, mk_adj, pos. cbn. destruct (is_pos thr_actual r); reflexivity. Qed.

  Definition mk_g (k : Q) : grow :=
    let m := members truth_threshold_adj Qle_bool adjl k in
    {| g_thr := k; num_records_in_row := sum_by (fun _ => 1) m;
       g_pos := sum_by a_pos m; g_neg := sum_by a_neg m |}.
  Lemma G_map : G = map mk_g (group_keys truth_threshold_adj Qle_bool adjl).
  Proof. reflexivity. Qed.

  Lemma G_sorted : SortedR g_thr Qle_bool G.
  Proof.
    rewrite G_map. unfold SortedR. apply StronglySorted_map. cbn [mk_g g_thr].
    exact (group_keys_sorted truth_threshold_adj Qle_bool Qleb_total Qleb_trans adjl).
  Qed.

  (* re-aggregating a grouped measure over the groups selected by a key predicate equals
     aggregating the raw rows selected by the same predicate *)
  Lemma G_sum (h : grow -> Z) (f : adjrow -> Z) (p : Q -> bool) :
    (forall k, h (mk_g k) = sum_by f (members truth_threshold_adj Qle_bool adjl k)) ->
    (forall a b, eqk Qle_bool a b = true -> p a = p b) ->
    sum_by h (filter (fun y => p (g_thr y)) G)
    = sum_by f (filter (fun a => p (truth_threshold_adj a)) adjl).
  Proof.
    intros Hh Hp. rewrite G_map, filter_map_comm, sum_by_map, sum_by_filter_as_sumZ. cbn [mk_g g_thr].
    rewrite <- (sum_over_groups truth_threshold_adj Qle_bool Qleb_total Qleb_trans p f adjl Hp).
    f_equal. apply map_ext. intros k. rewrite Hh. reflexivity.
  Qed.
  Lemma G_total (h : grow -> Z) (f : adjrow -> Z) :
    (forall k, h (mk_g k) = sum_by f (members truth_threshold_adj Qle_bool adjl k)) ->
    sum_by h G = sum_by f adjl.
  Proof.
    intros Hh. rewrite G_map, sum_by_map.
    rewrite <- (sum_all_groups truth_threshold_adj Qle_bool Qleb_total Qleb_trans f adjl).
    unfold sum_by. f_equal. apply map_ext. intros k. apply Hh.
  Qed.

  (* from sums over adjl to counts over the input rows *)
  Lemma adjl_count (f : adjrow -> Z) (c : lrow -> bool) (p : Q -> bool) :
    (forall r, f (mk_adj r) = if c r then 1 else 0) ->
    sum_by f (filter (fun a => p (truth_threshold_adj a)) adjl)
    = countZ (fun r => c r && p (adj r)) rows.
  Proof.
    intros Hf. rewrite adjl_map, filter_map_comm, sum_by_map.
    rewrite (sum_by_ext _ (fun r => if c r then 1 else 0)) by (intros; apply Hf).
    rewrite sum_by_filter_ind01. apply countZ_ext. intros r _. rewrite key_mk_adj. reflexivity.
  Qed.
  Lemma adjl_count_all (f : adjrow -> Z) (c : lrow -> bool) :
    (forall r, f (mk_adj r) = if c r then 1 else 0) ->
    sum_by f adjl = countZ c rows.
  Proof.
    intros Hf. rewrite adjl_map, sum_by_map.
    rewrite (sum_by_ext _ (fun r => if c r then 1 else 0)) by (intros; apply Hf).
    apply sum_by_ind01.
  Qed.

  Lemma leb_compat_r t a b : eqk Qle_bool a b = true -> Qle_bool t a = Qle_bool t b.
  Proof. apply (eqk_leb_r Qle_bool Qleb_trans). Qed.
  Lemma nleb_compat_r t a b : eqk Qle_bool a b = true -> negb (Qle_bool t a) = negb (Qle_bool t b).
  Proof. intros H. rewrite (leb_compat_r t a b H). reflexivity. Qed.

  Definition extra : Z :=
    match total_labels with None => 0 | Some tl => tl - sum_by g_pos G - sum_by g_neg G end.

  (* shape of a reported row in terms of its frame of the grouped table *)
  Lemma table_row_frame t :
    In t (truth_space_table thr_actual rnd zero_unfound total_labels rows) ->
    Qle_bool min_reported (thr t) = true /\
    exists pre x post, In (pre, x, post) (frames G) /\
      thr t = g_thr x /\
      TP t = sum_by g_pos (x :: post) /\
      FP t = sum_by num_records_in_row (x :: post) - sum_by g_pos (x :: post) /\
      FN t = sum_by num_records_in_row pre - sum_by g_neg pre /\
      TN t = sum_by g_neg pre + extra /\
      P t = sum_by g_pos G /\
      N t = sum_by g_neg G + extra /\
      total t = sum_by num_records_in_row G + (match total_labels with None => 0
              | Some tl => tl - sum_by num_records_in_row G end).
  Proof.
    unfold truth_space_table. fold adjl. fold G. intros H. apply filter_In in H. destruct H as [H Hf].
    split; [exact Hf|]. clear Hf.
    unfold labels_with_pos_neg_grouped_with_truth_stats in H. apply in_map_iff in H.
    destruct H as (s & <- & Hs). unfold extra.
    destruct total_labels as [tl|]; cbn [labels_with_pos_neg_grouped_with_stats_adj] in Hs.
    - apply in_map_iff in Hs. destruct Hs as (s0 & <- & Hs0).
      unfold labels_with_pos_neg_grouped_with_stats in Hs0. apply in_map_iff in Hs0.
      destruct Hs0 as ([[pre x] post] & <- & Hfr). exists pre, x, post. split; [exact Hfr|].
      cbn. rewrite !sum_by_app, !sum_by_cons. change (sum_by g_neg []) with 0.
      change (sum_by num_records_in_row []) with 0. repeat split; lia.
    - unfold labels_with_pos_neg_grouped_with_stats in Hs. apply in_map_iff in Hs.
      destruct Hs as ([[pre x] post] & <- & Hfr). exists pre, x, post. split; [exact Hfr|].
      cbn. rewrite !sum_by_app, !sum_by_cons. change (sum_by g_neg []) with 0.
      change (sum_by num_records_in_row []) with 0. repeat split; lia.
  Qed.

  Lemma num_mk k : num_records_in_row (mk_g k)
                   = sum_by (fun _ => 1) (members truth_threshold_adj Qle_bool adjl k).
  Proof. reflexivity. Qed.
  Lemma pos_mk k : g_pos (mk_g k) = sum_by a_pos (members truth_threshold_adj Qle_bool adjl k).
  Proof. reflexivity. Qed.
  Lemma neg_mk k : g_neg (mk_g k) = sum_by a_neg (members truth_threshold_adj Qle_bool adjl k).
  Proof. reflexivity. Qed.

  Lemma one_mk_adj r : (fun _ : adjrow => 1) (mk_adj r) = if (fun _ : lrow => true) r then 1 else 0.
  Proof. reflexivity. Qed.

  Lemma totals :
    sum_by g_pos G = countZ pos rows /\
    sum_by g_neg G = countZ (fun r => negb (pos r)) rows /\
    sum_by num_records_in_row G = Z.of_nat (length rows).
  Proof.
    repeat split.
    - rewrite (G_total g_pos a_pos pos_mk). apply adjl_count_all. exact pos_mk_adj.
    - rewrite (G_total g_neg a_neg neg_mk). apply adjl_count_all. exact neg_mk_adj.
    - rewrite (G_total num_records_in_row (fun _ => 1) num_mk), adjl_map, sum_by_map, sum_by_one.
      reflexivity.
  Qed.

  Lemma extra_is_ghosts : extra = ghosts total_labels rows.
  Proof.
    unfold extra, ghosts. destruct total_labels as [tl|]; [|reflexivity].
    destruct totals as (Hp & Hn & _). rewrite Hp, Hn. pose proof (countZ_all pos rows). lia.
  Qed.

  (* THE RECOUNT *)
  Lemma table_row_recount t :
    In t (truth_space_table thr_actual rnd zero_unfound total_labels rows) ->
    TP t = countZ (fun r => pos r && Qle_bool (thr t) (adj r)) rows /\
    FP t = countZ (fun r => negb (pos r) && Qle_bool (thr t) (adj r)) rows /\
    FN t = countZ (fun r => pos r && negb (Qle_bool (thr t) (adj r))) rows /\
    TN t = countZ (fun r => negb (pos r) && negb (Qle_bool (thr t) (adj r))) rows
           + ghosts total_labels rows /\
    P t = countZ pos rows /\
    N t = countZ (fun r => negb (pos r)) rows + ghosts total_labels rows /\
    total t = Z.of_nat (length rows) + ghosts total_labels rows.
  Proof.
    intros Ht. destruct (table_row_frame t Ht) as (_ & pre & x & post & Hfr & Hthr & HTP & HFP & HFN & HTN & HP & HN & Htot).
    rewrite Hthr. rewrite extra_is_ghosts in *. destruct totals as (Hp & Hn & Hl).
    pose proof G_sorted as Hs.
    (* descending windows *)
    assert (Dpos : sum_by g_pos (x :: post)
                   = countZ (fun r => pos r && Qle_bool (g_thr x) (adj r)) rows).
    { rewrite (frame_desc_is_filter g_thr Qle_bool Qleb_total g_pos G pre x post Hs Hfr).
      rewrite (G_sum g_pos a_pos (Qle_bool (g_thr x)) pos_mk (leb_compat_r (g_thr x))).
      apply (adjl_count a_pos pos (Qle_bool (g_thr x))). exact pos_mk_adj. }
    assert (Dnum : sum_by num_records_in_row (x :: post)
                   = countZ (fun r => true && Qle_bool (g_thr x) (adj r)) rows).
    { rewrite (frame_desc_is_filter g_thr Qle_bool Qleb_total num_records_in_row G pre x post Hs Hfr).
      rewrite (G_sum num_records_in_row (fun _ => 1) (Qle_bool (g_thr x)) num_mk (leb_compat_r (g_thr x))).
      apply (adjl_count (fun _ => 1) (fun _ => true) (Qle_bool (g_thr x))). exact one_mk_adj. }
    (* ascending windows, strictly below *)
    assert (Aneg : sum_by g_neg pre
                   = countZ (fun r => negb (pos r) && negb (Qle_bool (g_thr x) (adj r))) rows).
    { rewrite (frame_below_is_filter g_thr Qle_bool Qleb_total g_neg G pre x post Hs Hfr).
      rewrite (G_sum g_neg a_neg (fun k => negb (Qle_bool (g_thr x) k)) neg_mk (nleb_compat_r (g_thr x))).
      apply (adjl_count a_neg (fun r => negb (pos r)) (fun k => negb (Qle_bool (g_thr x) k))).
      exact neg_mk_adj. }
    assert (Anum : sum_by num_records_in_row pre
                   = countZ (fun r => true && negb (Qle_bool (g_thr x) (adj r))) rows).
    { rewrite (frame_below_is_filter g_thr Qle_bool Qleb_total num_records_in_row G pre x post Hs Hfr).
      rewrite (G_sum num_records_in_row (fun _ => 1) (fun k => negb (Qle_bool (g_thr x) k)) num_mk (nleb_compat_r (g_thr x))).
      apply (adjl_count (fun _ => 1) (fun _ => true) (fun k => negb (Qle_bool (g_thr x) k))).
      exact one_mk_adj. }
    pose proof (countZ_split pos (fun r => Qle_bool (g_thr x) (adj r)) rows) as S1.
    pose proof (countZ_split pos (fun r => negb (Qle_bool (g_thr x) (adj r))) rows) as S2.
    cbn [andb] in Dnum, Anum.
    repeat split; try lia.
    all: destruct total_labels as [tl|]; unfold ghosts in *; try lia.
  Qed.

  (* which thresholds are reported *)
  Lemma table_thresholds_sorted :
    StronglySorted (fun a b => (thr a < thr b)%Q)
                   (truth_space_table thr_actual rnd zero_unfound total_labels rows).
  Proof.
    unfold truth_space_table. fold adjl. fold G. apply StronglySorted_filter.
    pose proof G_sorted as Hs. unfold SortedR in Hs.
    assert (Hfr : StronglySorted (fun a b : list grow * grow * list grow =>
                     (g_thr (snd (fst a)) < g_thr (snd (fst b)))%Q) (frames G)).
    { assert (Hm := frames_rows G). revert Hm Hs. generalize (frames G) as fs. generalize G as g.
      intros g fs. revert g. induction fs as [|fr fs IH]; intros g Hm Hs; [constructor|].
      destruct g as [|y g]; [discriminate|]. cbn [map] in Hm. injection Hm as Hy Hg.
      inversion Hs as [|? ? Hs' Hf]; subst y. constructor; [eapply IH; eauto|].
      rewrite Forall_forall in *. intros fr' Hfr'. apply ltk_Qlt. apply Hf.
      rewrite <- Hg. apply in_map_iff. exists fr'. split; [reflexivity|exact Hfr']. }
    unfold labels_with_pos_neg_grouped_with_truth_stats.
    apply StronglySorted_map.
    assert (Hst : StronglySorted (fun a b => (s_thr a < s_thr b)%Q)
                                 (labels_with_pos_neg_grouped_with_stats G)).
    { unfold labels_with_pos_neg_grouped_with_stats. apply StronglySorted_map.
      eapply StronglySorted_impl; [|exact Hfr]. intros [[p1 x1] q1] [[p2 x2] q2]. cbn. tauto. }
    destruct total_labels as [tl|]; cbn [labels_with_pos_neg_grouped_with_stats_adj thr].
    - apply StronglySorted_map. cbn [s_thr]. exact Hst.
    - exact Hst.
  Qed.

  Lemma table_threshold_from t :
    In t (truth_space_table thr_actual rnd zero_unfound total_labels rows) ->
    exists r, In r rows /\ thr t = adj r.
  Proof.
    intros Ht. destruct (table_row_frame t Ht) as (_ & pre & x & post & Hfr & Hthr & _).
    apply frames_spec in Hfr. assert (Hx : In x G) by (rewrite Hfr; apply in_or_app; right; left; reflexivity).
    rewrite G_map in Hx. apply in_map_iff in Hx. destruct Hx as (k & <- & Hk).
    apply group_keys_from in Hk. destruct Hk as (a & Ha & ->). rewrite adjl_map in Ha.
    apply in_map_iff in Ha. destruct Ha as (r & <- & Hr). exists r. split; [exact Hr|].
    rewrite Hthr. reflexivity.
  Qed.

  Lemma table_threshold_complete r :
    In r rows -> Qle_bool min_reported (adj r) = true ->
    exists t, In t (truth_space_table thr_actual rnd zero_unfound total_labels rows) /\ (thr t == adj r)%Q.
  Proof.
    intros Hr Hmin.
    assert (Ha : In (mk_adj r) adjl) by (rewrite adjl_map; apply in_map; exact Hr).
    destruct (group_keys_cover truth_threshold_adj Qle_bool Qleb_total Qleb_trans adjl _ Ha) as (k & Hk & He).
    rewrite key_mk_adj in He.
    assert (Hg : In (mk_g k) G) by (rewrite G_map; apply in_map; exact Hk).
    destruct (frames_complete G (mk_g k) Hg) as (pre & post & Hfr).
    unfold truth_space_table. fold adjl. fold G.
    set (s := labels_with_pos_neg_grouped_with_stats G).
    assert (Hs : exists s0, In s0 s /\ s_thr s0 = k).
    { eexists. split; [apply in_map_iff; exists (pre, mk_g k, post); split; [reflexivity|exact Hfr]|reflexivity]. }
    destruct Hs as (s0 & Hs0 & Hk0).
    assert (Hs' : exists s1, In s1 (labels_with_pos_neg_grouped_with_stats_adj total_labels s) /\ s_thr s1 = k).
    { destruct total_labels as [tl|]; cbn [labels_with_pos_neg_grouped_with_stats_adj].
      - eexists. split; [apply in_map; exact Hs0|exact Hk0].
      - exists s0. tauto. }
    destruct Hs' as (s1 & Hs1 & Hk1).
    eexists. split.
    - apply filter_In. split; [apply in_map; exact Hs1|]. cbn [thr]. rewrite Hk1.
      rewrite <- Hmin. symmetry. apply leb_compat_r. rewrite eqk_sym. exact He.
    - cbn [thr]. rewrite Hk1. apply eqk_Qeq. exact He.
  Qed.
End TruthTable.

(* ------------------------------------------------------------------ corollaries of the recount *)
Lemma table_row_conservation :
  forall thr_actual rnd zero_unfound total_labels rows t,
    In t (truth_space_table thr_actual rnd zero_unfound total_labels rows) ->
    TP t + FN t = P t /\ TN t + FP t = N t /\ P t + N t = total t /\
    total t = match total_labels with Some tl => tl | None => Z.of_nat (length rows) end.
Proof.
  intros ta rnd zu tl rows t Ht.
  destruct (table_row_recount ta rnd zu tl rows t Ht) as (H1 & H2 & H3 & H4 & H5 & H6 & H7).
  pose proof (countZ_split (is_pos ta) (fun r => Qle_bool (thr t) (adj_score rnd zu r)) rows) as S1.
  pose proof (countZ_split (is_pos ta) (fun r => negb (Qle_bool (thr t) (adj_score rnd zu r))) rows) as S2.
  pose proof (countZ_all (fun r => Qle_bool (thr t) (adj_score rnd zu r)) rows) as S3.
  pose proof (countZ_all (is_pos ta) rows) as S4.
  pose proof (countZ_split (fun r => Qle_bool (thr t) (adj_score rnd zu r)) (is_pos ta) rows) as S5.
  pose proof (countZ_split (fun r => Qle_bool (thr t) (adj_score rnd zu r)) (fun r => negb (is_pos ta r)) rows) as S6.
  rewrite (countZ_ext (fun x => Qle_bool (thr t) (adj_score rnd zu x) && is_pos ta x)
                      (fun r => is_pos ta r && Qle_bool (thr t) (adj_score rnd zu r))) in S5
    by (intros; apply andb_comm).
  rewrite (countZ_ext (fun x => negb (Qle_bool (thr t) (adj_score rnd zu x)) && is_pos ta x)
                      (fun r => is_pos ta r && negb (Qle_bool (thr t) (adj_score rnd zu r)))) in S5
    by (intros; apply andb_comm).
  rewrite (countZ_ext (fun x => Qle_bool (thr t) (adj_score rnd zu x) && negb (is_pos ta x))
                      (fun r => negb (is_pos ta r) && Qle_bool (thr t) (adj_score rnd zu r))) in S6
    by (intros; apply andb_comm).
  rewrite (countZ_ext (fun x => negb (Qle_bool (thr t) (adj_score rnd zu x)) && negb (is_pos ta x))
                      (fun r => negb (is_pos ta r) && negb (Qle_bool (thr t) (adj_score rnd zu r)))) in S6
    by (intros; apply andb_comm).
  cbv zeta in *. destruct tl as [tl|]; unfold ghosts in *; lia.
Qed.

Lemma table_monotone :
  forall thr_actual rnd zero_unfound total_labels rows a b,
    In a (truth_space_table thr_actual rnd zero_unfound total_labels rows) ->
    In b (truth_space_table thr_actual rnd zero_unfound total_labels rows) ->
    (thr a <= thr b)%Q ->
    TP b <= TP a /\ FP b <= FP a /\ FN a <= FN b /\ TN a <= TN b.
Proof.
  intros ta rnd zu tl rows a b Ha Hb Hle.
  destruct (table_row_recount ta rnd zu tl rows a Ha) as (A1 & A2 & A3 & A4 & _).
  destruct (table_row_recount ta rnd zu tl rows b Hb) as (B1 & B2 & B3 & B4 & _).
  assert (Himp : forall r, Qle_bool (thr b) (adj_score rnd zu r) = true ->
                           Qle_bool (thr a) (adj_score rnd zu r) = true).
  { intros r H. apply Qle_bool_iff in H. apply Qle_bool_iff. eapply Qle_trans; eauto. }
  rewrite A1, A2, A3, A4, B1, B2, B3, B4. repeat split.
  - apply countZ_mono. intros r _. rewrite !andb_true_iff. intros [? ?]. auto.
  - apply countZ_mono. intros r _. rewrite !andb_true_iff. intros [? ?]. auto.
  - apply countZ_mono. intros r _. rewrite !andb_true_iff, !negb_true_iff. intros [? H]. split; [assumption|].
    destruct (Qle_bool (thr b) (adj_score rnd zu r)) eqn:E; [|reflexivity]. rewrite (Himp r E) in H. discriminate.
  - apply Z.add_le_mono_r. apply countZ_mono. intros r _. rewrite !andb_true_iff, !negb_true_iff.
    intros [? H]. split; [assumption|].
    destruct (Qle_bool (thr b) (adj_score rnd zu r)) eqn:E; [|reflexivity]. rewrite (Himp r E) in H. discriminate.
Qed.

Lemma unfound_predicted_negative :
  forall thr_actual rnd total_labels rows t r,
    In t (truth_space_table thr_actual rnd true total_labels rows) ->
    found r = false ->
    Qle_bool (thr t) (adj_score rnd true r) = false.
Proof.
  intros ta rnd tl rows t r Ht Hf. unfold adj_score. rewrite Hf.
  destruct (table_row_frame ta rnd true tl rows t Ht) as (Hmin & _).
  destruct (Qle_bool (thr t) unfound_score) eqn:E; [|reflexivity].
  apply Qle_bool_iff in E. apply Qle_bool_iff in Hmin.
  assert (H : (min_reported <= unfound_score)%Q) by (eapply Qle_trans; eauto).
  exfalso. revert H. unfold min_reported, unfound_score, Qle. cbn. lia.
Qed.

Lemma column_mode_recount :
  forall lt counts nrules thr_actual rnd zero_unfound preds tab t,
    truth_space_table_from_labels_column lt counts nrules thr_actual rnd zero_unfound preds = Some tab ->
    In t tab ->
    exists tl, cartesian lt counts = Some tl /\
      let rows := labels_with_predictions_from_column nrules preds in
      let unscored := tl - Z.of_nat (length preds) in
      let pos := is_pos thr_actual in
      let pred := fun r => Qle_bool (thr t) (adj_score rnd zero_unfound r) in
      TP t = countZ (fun r => pos r && pred r) rows /\
      FP t = countZ (fun r => negb (pos r) && pred r) rows /\
      FN t = countZ (fun r => pos r && negb (pred r)) rows /\
      TN t = countZ (fun r => negb (pos r) && negb (pred r)) rows + unscored /\
      total t = tl.
Proof.
  intros lt counts nrules ta rnd zu preds tab t Htab Ht. unfold truth_space_table_from_labels_column in Htab.
  destruct (cartesian lt counts) as [tl|]; [|discriminate]. injection Htab as <-. exists tl. split; [reflexivity|].
  destruct (table_row_recount ta rnd zu (Some tl) _ t Ht) as (H1 & H2 & H3 & H4 & H5 & H6 & H7).
  assert (Hlen : length (labels_with_predictions_from_column nrules preds) = length preds)
    by apply map_length.
  cbv zeta. unfold ghosts in *. rewrite Hlen in *. repeat split; try assumption. lia.
Qed.

(* ------------------------------------------------------------------ rounding *)
Lemma round_half_away_mono x y : (x <= y)%Q -> round_half_away x <= round_half_away y.
Proof.
  intros H. unfold round_half_away.
  destruct (Qle_bool 0 x) eqn:Ex, (Qle_bool 0 y) eqn:Ey.
  - apply Qfloor_resp_le. apply Qplus_le_l. exact H.
  - apply Qle_bool_iff in Ex. assert (Hy : (0 <= y)%Q) by (eapply Qle_trans; eauto).
    apply Qle_bool_iff in Hy. congruence.
  - (* x < 0 <= y *)
    assert (Hx : (x < 0)%Q).
    { apply Qnot_le_lt. intros Hc. apply Qle_bool_iff in Hc. congruence. }
    apply Qle_bool_iff in Ey.
    assert (H1 : Qceiling (x - (1 # 2)) <= 0).
    { change 0 with (Qceiling 0). apply Qceiling_resp_le.
      apply Qle_trans with x; [|apply Qlt_le_weak; exact Hx].
      rewrite <- (Qplus_0_r x) at 2. apply Qplus_le_r. discriminate. }
    assert (H2 : 0 <= Qfloor (y + (1 # 2))).
    { change 0 with (Qfloor 0). apply Qfloor_resp_le.
      apply Qle_trans with y; [exact Ey|].
      rewrite <- (Qplus_0_r y) at 1. apply Qplus_le_r. discriminate. }
    lia.
  - apply Qceiling_resp_le. apply Qplus_le_l. exact H.
Qed.

Lemma round_to_mono rm rd x y :
  (0 <= rm)%Q -> (0 < rd)%Q -> (x <= y)%Q -> (round_to rm rd x <= round_to rm rd y)%Q.
Proof.
  intros Hm Hr H. unfold round_to. rewrite !(Qmult_comm rm). apply Qmult_le_compat_r; [|exact Hm].
  rewrite <- Zle_Qle. apply round_half_away_mono.
  unfold Qdiv. apply Qmult_le_compat_r; [exact H|]. apply Qlt_le_weak, Qinv_lt_0_compat, Hr.
Qed.

(* ------------------------------------------------------------------ lower id to the left *)
Lemma lower_id_oriented ls x :
  In x (lower_id_to_left_hand_side ls) -> (id_l x <= id_r x)%nat.
Proof.
  unfold lower_id_to_left_hand_side. intros H. apply in_map_iff in H. destruct H as (y & <- & _).
  destruct (Nat.ltb_spec (id_l y) (id_r y)); cbn; lia.
Qed.
Lemma lower_id_same_pair ls :
  Forall2 (fun x y => cms y = cms x /\
                      ((id_l y = id_l x /\ id_r y = id_r x) \/ (id_l y = id_r x /\ id_r y = id_l x)))
          ls (lower_id_to_left_hand_side ls).
Proof.
  induction ls as [|x t IH]; cbn [lower_id_to_left_hand_side map]; [constructor|].
  constructor; [|exact IH].
  destruct (Nat.ltb (id_l x) (id_r x)); cbn; split; auto.
Qed.
Lemma block_from_labels_unique_ids recs ls :
  NoDup recs ->
  block_from_labels recs ls
  = filter (fun x => existsb (Nat.eqb (id_l x)) recs && existsb (Nat.eqb (id_r x)) recs)
           (lower_id_to_left_hand_side ls).
Proof.
  intros Hnd. unfold block_from_labels. generalize (lower_id_to_left_hand_side ls) as l.
  assert (Hone : forall n, filter (Nat.eqb n) recs = if existsb (Nat.eqb n) recs then [n] else []).
  { intros n. induction Hnd as [|a l Ha Hl IH]; [reflexivity|]. cbn.
    destruct (Nat.eqb_spec n a) as [->|Hne]; cbn.
    - assert (Hf : filter (Nat.eqb a) l = []).
      { clear IH Hl. induction l as [|b l IHl]; [reflexivity|]. cbn.
        destruct (Nat.eqb_spec a b) as [->|Hab]; [exfalso; apply Ha; left; reflexivity|].
        apply IHl. intros Hc. apply Ha. right. exact Hc. }
      rewrite Hf. reflexivity.
    - exact IH. }
  induction l as [|x t IH]; [reflexivity|]. cbn [flat_map filter]. rewrite IH, !Hone.
  destruct (existsb (Nat.eqb (id_l x)) recs), (existsb (Nat.eqb (id_r x)) recs); reflexivity.
Qed.

(* ------------------------------------------------------------------ prediction errors *)
Lemma prediction_errors_spec column_mode inc_fp inc_fn t rows e st :
  In (e, st) (prediction_errors column_mode inc_fp inc_fn t rows) <->
  In e rows /\
  let fp := isT (false_positive t e) in
  let fn := isT ((if column_mode then false_negative_column t else false_negative_table t) e) in
  ((inc_fp && fp) || (inc_fn && fn)) = true /\
  st = (if fp then Some StFP else if fn then Some StFN else None).
Proof.
  unfold prediction_errors. rewrite in_map_iff. split.
  - intros (e' & Heq & Hin). inversion Heq; subst. clear Heq. apply filter_In in Hin.
    destruct Hin as [Hin Hw]. split; [exact Hin|]. cbn zeta. split; [|reflexivity].
    unfold where_condition in Hw. destruct inc_fp, inc_fn; cbn [andb orb];
      rewrite ?isT_or3 in Hw; try exact Hw; try discriminate.
    rewrite orb_false_r. exact Hw.
  - intros (Hin & Hc & ->). exists e. split; [reflexivity|]. apply filter_In. split; [exact Hin|].
    unfold where_condition. destruct inc_fp, inc_fn; cbn [andb orb] in Hc;
      rewrite ?isT_or3; try exact Hc; try discriminate.
    rewrite orb_false_r in Hc. exact Hc.
Qed.

Lemma prediction_errors_sublist column_mode inc_fp inc_fn t rows :
  map fst (prediction_errors column_mode inc_fp inc_fn t rows)
  = filter (fun e => isT (where_condition (false_positive t)
                            (if column_mode then false_negative_column t else false_negative_table t)
                            inc_fp inc_fn e)) rows.
Proof. unfold prediction_errors. rewrite map_map. cbn. apply map_id. Qed.

Lemma fp_fn_disjoint (column_mode : bool) (t : Q) (e : erow) :
  isT (false_positive t e) = true ->
  isT ((if column_mode then false_negative_column t else false_negative_table t) e) = false.
Proof.
  destruct column_mode;
    unfold false_positive, false_negative_column, false_negative_table, oq_lt, oq_gt, q_lt;
    rewrite ?isT_or3, !isT_and3;
    (destruct (e_cms e) as [c|]; [|cbn; intros; discriminate]);
    rewrite !isT_of_bool, !andb_true_iff, !negb_true_iff; intros [H1 H2];
    (assert (Hc : Qle_bool c t = true)
      by (destruct (Qleb_total c t) as [H|H]; [exact H|congruence]));
    rewrite Hc; reflexivity.
Qed.

(* unfolded meaning of the three-valued conditions *)
Lemma false_positive_iff t e :
  isT (false_positive t e) = true <->
  exists c, e_cms e = Some c /\ (c < t)%Q /\ (t < e_prob e)%Q.
Proof.
  unfold false_positive, oq_lt, q_lt. rewrite isT_and3. destruct (e_cms e) as [c|].
  - rewrite !isT_of_bool, andb_true_iff, !negb_true_iff. split.
    + intros [H1 H2]. exists c. split; [reflexivity|split].
      * apply Qnot_le_lt. intros H. apply Qle_bool_iff in H. congruence.
      * apply Qnot_le_lt. intros H. apply Qle_bool_iff in H. congruence.
    + intros (c' & Hc & H1 & H2). inversion Hc; subst. split.
      * destruct (Qle_bool t c') eqn:E; [|reflexivity]. apply Qle_bool_iff in E.
        exfalso. eapply Qlt_not_le; [|exact E]; assumption.
      * destruct (Qle_bool (e_prob e) t) eqn:E; [|reflexivity]. apply Qle_bool_iff in E.
        exfalso. eapply Qlt_not_le; [|exact E]; assumption.
  - cbn. split; [discriminate|]. intros (c & Hc & _). discriminate.
Qed.
Lemma false_negative_table_iff t e :
  isT (false_negative_table t e) = true <->
  exists c, e_cms e = Some c /\ (t < c)%Q /\ (e_prob e < t)%Q.
Proof.
  unfold false_negative_table, oq_gt, q_lt. rewrite isT_and3. destruct (e_cms e) as [c|].
  - rewrite !isT_of_bool, andb_true_iff, !negb_true_iff. split.
    + intros [H1 H2]. exists c. split; [reflexivity|split].
      * apply Qnot_le_lt. intros H. apply Qle_bool_iff in H. congruence.
      * apply Qnot_le_lt. intros H. apply Qle_bool_iff in H. congruence.
    + intros (c' & Hc & H1 & H2). inversion Hc; subst. split.
      * destruct (Qle_bool c' t) eqn:E; [|reflexivity]. apply Qle_bool_iff in E.
        exfalso. eapply Qlt_not_le; [|exact E]; assumption.
      * destruct (Qle_bool t (e_prob e)) eqn:E; [|reflexivity]. apply Qle_bool_iff in E.
        exfalso. eapply Qlt_not_le; [|exact E]; assumption.
  - cbn. split; [discriminate|]. intros (c & Hc & _). discriminate.
Qed.
Lemma false_negative_column_iff t e :
  isT (false_negative_column t e) = true <->
  exists c, e_cms e = Some c /\ (t < c)%Q /\ ((e_prob e < t)%Q \/ e_found e = false).
Proof.
  unfold false_negative_column, oq_gt, q_lt. rewrite isT_or3, !isT_and3. destruct (e_cms e) as [c|].
  - rewrite !isT_of_bool, <- andb_orb_distrib_r, andb_true_iff, orb_true_iff,
      !negb_true_iff. split.
    + intros [H1 H2]. exists c. split; [reflexivity|split].
      * apply Qnot_le_lt. intros H. apply Qle_bool_iff in H. congruence.
      * destruct H2 as [H2|H2]; [left|right; exact H2].
        apply Qnot_le_lt. intros H. apply Qle_bool_iff in H. congruence.
    + intros (c' & Hc & H1 & H2). inversion Hc; subst. split.
      * destruct (Qle_bool c' t) eqn:E; [|reflexivity]. apply Qle_bool_iff in E.
        exfalso. eapply Qlt_not_le; [|exact E]; assumption.
      * destruct H2 as [H2|H2]; [left|right; exact H2].
        destruct (Qle_bool t (e_prob e)) eqn:E; [|reflexivity]. apply Qle_bool_iff in E.
        exfalso. eapply Qlt_not_le; [|exact E]; assumption.
  - cbn. split; [discriminate|]. intros (c & Hc & _). discriminate.
Qed.

(* ------------------------------------------------------------------ derived rates *)
Lemma rates_closed_form :
  forall t : trow,
    let q := fun z : Z => inject_Z z in
    let rate := fun name => match lookup_rate name rate_defs with Some e => aeval t e | None => None end in
    let TPq := q (TP t) in let TNq := q (TN t) in let FPq := q (FP t) in let FNq := q (FN t) in
    let Pq := q (P t) in let Nq := q (N t) in let Tq := q (total t) in
    let div := fun a b : Q => if Qeq_bool b 0 then None else Some (a / b)%Q in
    rate "P_rate"%string = div Pq Tq /\
    rate "N_rate"%string = div Nq Tq /\
    rate "tp_rate"%string = div TPq Pq /\
    rate "tn_rate"%string = div TNq Nq /\
    rate "fp_rate"%string = div FPq Nq /\
    rate "fn_rate"%string = div FNq Pq /\
    rate "precision"%string = (if Qeq_bool (TPq + FPq)%Q 0 then Some 1%Q else Some (TPq / (TPq + FPq))%Q) /\
    rate "recall"%string = div TPq Pq /\
    rate "specificity"%string = div TNq Nq /\
    rate "npv"%string = (if Qeq_bool (TNq + FNq)%Q 0 then Some 1%Q else Some (TNq / (TNq + FNq))%Q) /\
    rate "accuracy"%string = div (TPq + TNq)%Q (Pq + Nq)%Q /\
    rate "f1"%string = div (inject_Z 2 * TPq)%Q (inject_Z 2 * TPq + FNq + FPq)%Q /\
    rate "f2"%string = div (inject_Z 5 * TPq)%Q (inject_Z 5 * TPq + inject_Z 4 * FNq + FPq)%Q /\
    rate "f0_5"%string = div ((5 # 4) * TPq)%Q ((5 # 4) * TPq + (1 # 4) * FNq + FPq)%Q /\
    rate "p4"%string = div (inject_Z 4 * TPq * TNq)%Q (inject_Z 4 * TPq * TNq + (TPq + TNq) * (FPq + FNq))%Q /\
    rate "phi"%string =
      (if Qeq_bool (TNq + FNq)%Q 0 || Qeq_bool (TPq + FPq)%Q 0 || Qeq_bool Pq 0 || Qeq_bool Nq 0 then Some 0%Q
       else match Qsqrt_exact ((TPq + FPq) * Pq * Nq * (TNq + FNq))%Q with
            | Some s => div (TPq * TNq - FPq * FNq)%Q s
            | None => None          (* irrational square root: outside the exact model, compared numerically in X *)
            end).
Proof.
  intros t. cbv zeta. unfold lookup_rate, rate_defs. cbn [String.eqb Ascii.eqb Bool.eqb].
  cbn [aeval existsb V C var_of]. rewrite ?orb_false_r.
  change (var_of t vTP) with (inject_Z (TP t)). change (var_of t vTN) with (inject_Z (TN t)).
  change (var_of t vFP) with (inject_Z (FP t)). change (var_of t vFN) with (inject_Z (FN t)).
  change (var_of t vP) with (inject_Z (P t)). change (var_of t vN) with (inject_Z (N t)).
  change (var_of t vTotal) with (inject_Z (total t)).
  repeat split.
  - destruct (Qeq_bool (inject_Z (TP t) + inject_Z (FP t))%Q 0); reflexivity.
  - destruct (Qeq_bool (inject_Z (TN t) + inject_Z (FN t))%Q 0); reflexivity.
  - rewrite <- !orb_assoc.
    destruct (Qeq_bool (inject_Z (TN t) + inject_Z (FN t))%Q 0 || (Qeq_bool (inject_Z (TP t) + inject_Z (FP t))%Q 0
              || (Qeq_bool (inject_Z (P t)) 0 || Qeq_bool (inject_Z (N t)) 0))); [reflexivity|].
    destruct (Qsqrt_exact ((inject_Z (TP t) + inject_Z (FP t)) * inject_Z (P t) * inject_Z (N t) * (inject_Z (TN t) + inject_Z (FN t)))%Q); reflexivity.
Qed.

(* ================================================================== invariance (C13) *)
From Coq Require Import Sorting.Permutation.

Lemma Qleb_compat_l' x p p' : (p == p')%Q -> Qle_bool p x = Qle_bool p' x.
Proof.
  intros E. destruct (Qle_bool p x) eqn:A, (Qle_bool p' x) eqn:B; try reflexivity.
  - apply Qle_bool_iff in A. rewrite E in A. apply Qle_bool_iff in A. congruence.
  - apply Qle_bool_iff in B. rewrite <- E in B. apply Qle_bool_iff in B. congruence.
Qed.

(* Permutation of the labelled pairs: every reported row has a counterpart with an equal
   threshold and the same seven counts (and conversely, Permutation being symmetric). *)
Lemma truth_space_table_perm thr_actual rnd zero_unfound total_labels rows rows' t :
  Permutation rows rows' ->
  In t (truth_space_table thr_actual rnd zero_unfound total_labels rows) ->
  exists t', In t' (truth_space_table thr_actual rnd zero_unfound total_labels rows') /\
    (thr t' == thr t)%Q /\ TP t' = TP t /\ FP t' = FP t /\ FN t' = FN t /\ TN t' = TN t /\
    P t' = P t /\ N t' = N t /\ total t' = total t.
Proof.
  intros Hp Ht.
  destruct (table_threshold_from _ _ _ _ _ t Ht) as (r & Hr & Hthr).
  destruct (table_row_frame _ _ _ _ _ t Ht) as (Hmin & _).
  assert (Hr' : In r rows') by (eapply Permutation_in; eauto).
  rewrite Hthr in Hmin.
  destruct (table_threshold_complete thr_actual rnd zero_unfound total_labels rows' r Hr' Hmin) as (t' & Ht' & Hq).
  exists t'. split; [exact Ht'|]. rewrite <- Hthr in Hq. split; [exact Hq|].
  destruct (table_row_recount _ _ _ _ _ t Ht) as (A1 & A2 & A3 & A4 & A5 & A6 & A7).
  destruct (table_row_recount _ _ _ _ _ t' Ht') as (B1 & B2 & B3 & B4 & B5 & B6 & B7).
  assert (Hg : ghosts total_labels rows' = ghosts total_labels rows).
  { unfold ghosts. destruct total_labels; [|reflexivity]. rewrite (Permutation_length Hp). reflexivity. }
  assert (Hc : forall c : lrow -> bool -> bool,
             countZ (fun r0 => c r0 (Qle_bool (thr t') (adj_score rnd zero_unfound r0))) rows'
             = countZ (fun r0 => c r0 (Qle_bool (thr t) (adj_score rnd zero_unfound r0))) rows).
  { intros c. rewrite <- (countZ_perm _ _ _ Hp). apply countZ_ext. intros x _.
    rewrite (Qleb_compat_l' _ _ _ Hq). reflexivity. }
  pose proof (Hc (fun r0 b => is_pos thr_actual r0 && b)) as C1.
  pose proof (Hc (fun r0 b => negb (is_pos thr_actual r0) && b)) as C2.
  pose proof (Hc (fun r0 b => is_pos thr_actual r0 && negb b)) as C3.
  pose proof (Hc (fun r0 b => negb (is_pos thr_actual r0) && negb b)) as C4.
  cbv beta in C1, C2, C3, C4.
  pose proof (countZ_perm (is_pos thr_actual) _ _ Hp) as C5.
  pose proof (countZ_perm (fun r0 => negb (is_pos thr_actual r0)) _ _ Hp) as C6.
  pose proof (Permutation_length Hp) as C7.
  repeat split.
  - rewrite A1, B1. exact C1.
  - rewrite A2, B2. exact C2.
  - rewrite A3, B3. exact C3.
  - rewrite A4, B4, Hg, C4. reflexivity.
  - rewrite A5, B5. symmetry. exact C5.
  - rewrite A6, B6, Hg, C6. reflexivity.
  - rewrite A7, B7, Hg, C7. reflexivity.
Qed.

Lemma flat_map_perm_pointwise {A B} (g g' : A -> list B) l :
  (forall x, Permutation (g x) (g' x)) -> Permutation (flat_map g l) (flat_map g' l).
Proof. intros H. induction l as [|x t IH]; cbn; [constructor|]. apply Permutation_app; [apply H|exact IH]. Qed.

(* labels-table mode: Permutation of the label rows *)
Lemma labels_with_predictions_perm scoref foundf recs ls ls' :
  Permutation ls ls' ->
  Permutation (labels_with_predictions_from_table scoref foundf recs ls)
              (labels_with_predictions_from_table scoref foundf recs ls').
Proof.
  intros H. unfold labels_with_predictions_from_table, block_from_labels, lower_id_to_left_hand_side.
  apply Permutation_map. apply flat_map_perm. apply Permutation_map. exact H.
Qed.
(* label-column mode: Permutation of the scored pairs *)
Lemma labels_with_predictions_column_perm nrules preds preds' :
  Permutation preds preds' ->
  Permutation (labels_with_predictions_from_column nrules preds) (labels_with_predictions_from_column nrules preds').
Proof. apply Permutation_map. Qed.

Lemma prediction_errors_perm column_mode inc_fp inc_fn t rows rows' :
  Permutation rows rows' ->
  Permutation (prediction_errors column_mode inc_fp inc_fn t rows) (prediction_errors column_mode inc_fp inc_fn t rows').
Proof. intros H. unfold prediction_errors. apply Permutation_map. apply filter_perm. exact H. Qed.

(* labels-table mode: an order-preserving relabelling of the ids (phi strictly monotone, hence
   injective) with scores and found flags transported along it leaves the labelled pairs - and
   therefore the truth table - unchanged *)
Definition relabel (phi : nat -> nat) (x : label) : label :=
  {| id_l := phi (id_l x); id_r := phi (id_r x); cms := cms x |}.

Lemma filter_eqb_map phi n (recs : list nat) :
  (forall a b, phi a = phi b -> a = b) ->
  filter (Nat.eqb (phi n)) (map phi recs) = map phi (filter (Nat.eqb n) recs).
Proof.
  intros Hinj. induction recs as [|a t IH]; [reflexivity|]. cbn.
  destruct (Nat.eqb_spec n a) as [->|Hne].
  - rewrite Nat.eqb_refl. cbn. rewrite IH. reflexivity.
  - destruct (Nat.eqb_spec (phi n) (phi a)) as [E|_]; [apply Hinj in E; contradiction|exact IH].
Qed.

Lemma relabel_labels_table phi scoref foundf scoref' foundf' recs ls :
  (forall a b, (a < b)%nat -> (phi a < phi b)%nat) ->
  (forall a b, scoref' (phi a) (phi b) = scoref a b) ->
  (forall a b, foundf' (phi a) (phi b) = foundf a b) ->
  labels_with_predictions_from_table scoref' foundf' (map phi recs) (map (relabel phi) ls)
  = labels_with_predictions_from_table scoref foundf recs ls.
Proof.
  intros Hmono Hs Hf.
  assert (Hinj : forall a b, phi a = phi b -> a = b).
  { intros a b E. destruct (Nat.lt_trichotomy a b) as [H|[H|H]]; [apply Hmono in H; lia|exact H|apply Hmono in H; lia]. }
  assert (Hlt : forall a b, Nat.ltb (phi a) (phi b) = Nat.ltb a b).
  { intros a b. destruct (Nat.ltb_spec a b) as [H|H].
    - apply Nat.ltb_lt, Hmono, H.
    - apply Nat.ltb_ge. destruct (Nat.eq_dec a b) as [->|Hne]; [lia|]. assert (b < a)%nat by lia.
      apply Hmono in H0. lia. }
  unfold labels_with_predictions_from_table.
  assert (L1 : lower_id_to_left_hand_side (map (relabel phi) ls) = map (relabel phi) (lower_id_to_left_hand_side ls)).
  { unfold lower_id_to_left_hand_side. rewrite !map_map. apply map_ext. intros x.
    cbn [relabel id_l id_r cms]. rewrite Hlt. destruct (Nat.ltb (id_l x) (id_r x)); reflexivity. }
  assert (L3 : forall y,
             flat_map (fun l => map (fun r => relabel phi y) (filter (Nat.eqb (id_r (relabel phi y))) (map phi recs)))
                      (filter (Nat.eqb (id_l (relabel phi y))) (map phi recs))
             = map (relabel phi)
                   (flat_map (fun l => map (fun r => y) (filter (Nat.eqb (id_r y)) recs)) (filter (Nat.eqb (id_l y)) recs))).
  { intros y. cbn [relabel id_l id_r]. rewrite !filter_eqb_map by exact Hinj.
    generalize (filter (Nat.eqb (id_l y)) recs) as fl. generalize (filter (Nat.eqb (id_r y)) recs) as fr.
    intros fr fl. induction fl as [|a fl IHl]; [reflexivity|]. cbn [map flat_map]. rewrite map_app, IHl. f_equal.
    rewrite !map_map. reflexivity. }
  assert (Hb : block_from_labels (map phi recs) (map (relabel phi) ls) = map (relabel phi) (block_from_labels recs ls)).
  { unfold block_from_labels. rewrite L1. generalize (lower_id_to_left_hand_side ls) as ys. intros ys.
    induction ys as [|y t IH]; [reflexivity|]. cbn [map flat_map]. rewrite map_app, <- IH. f_equal. apply L3. }
  rewrite Hb, map_map. apply map_ext. intros x. cbn [relabel id_l id_r cms]. rewrite Hs, Hf. reflexivity.
Qed.

(* ================================================================== prediction errors vs the truth table *)
Definition erow_of (probf : lrow -> Q) (r : lrow) : erow :=
  {| e_key := 0%nat; e_cms := clerical r; e_prob := probf r; e_found := found r |}.
Definition is_status (s : status) (x : erow * option status) : bool :=
  match snd x, s with Some StFP, StFP => true | Some StFN, StFN => true | _, _ => false end.

Lemma countZ_map' {A B} (q : B -> bool) (g : A -> B) l : countZ q (map g l) = countZ (fun x => q (g x)) l.
Proof. unfold countZ. rewrite filter_map_swap, map_length. reflexivity. Qed.
Lemma countZ_filter' {A} (p q : A -> bool) l : countZ p (filter q l) = countZ (fun x => p x && q x) l.
Proof. unfold countZ. rewrite filter_filter_and. reflexivity. Qed.

Section ErrorsVsTable.
  Variable column_mode : bool.
  Variable t : Q.
  Let fn := if column_mode then false_negative_column t else false_negative_table t.

  Lemma count_returned_fp es :
    countZ (is_status StFP) (prediction_errors column_mode true true t es)
    = countZ (fun e => isT (false_positive t e)) es.
  Proof.
    unfold prediction_errors. rewrite countZ_map', countZ_filter'. apply countZ_ext. intros e _.
    unfold is_status, truth_status, where_condition. cbn [snd]. rewrite isT_or3.
    destruct (isT (false_positive t e)); [reflexivity|].
    destruct (isT ((if column_mode then false_negative_column t else false_negative_table t) e)); reflexivity.
  Qed.
  Lemma count_returned_fn es :
    countZ (is_status StFN) (prediction_errors column_mode true true t es)
    = countZ (fun e => isT (fn e)) es.
  Proof.
    unfold prediction_errors. rewrite countZ_map', countZ_filter'. apply countZ_ext. intros e _.
    unfold is_status, truth_status, where_condition, fn. cbn [snd]. rewrite isT_or3.
    destruct (isT (false_positive t e)) eqn:E.
    - rewrite (fp_fn_disjoint column_mode t e E). reflexivity.
    - destruct (isT ((if column_mode then false_negative_column t else false_negative_table t) e)); reflexivity.
  Qed.
End ErrorsVsTable.

(* pointwise: with a non-NULL clerical score the FP condition of prediction_errors IS the truth
   table's "clerical negative and predicted positive" as soon as the row threshold separates the
   pairs exactly as match_probability > t does *)
Lemma fp_pointwise t probf (pred : lrow -> bool) r c :
  clerical r = Some c ->
  pred r = negb (Qle_bool (probf r) t) ->
  isT (false_positive t (erow_of probf r)) = negb (is_pos t r) && pred r.
Proof.
  intros Hc Hp. unfold false_positive, oq_lt, q_lt, is_pos, erow_of. cbn [e_cms e_prob]. rewrite Hc, Hp.
  rewrite isT_and3, !isT_of_bool. reflexivity.
Qed.
Lemma Qleb_antisym_bool a b : ~ (a == b)%Q -> Qle_bool a b = negb (Qle_bool b a).
Proof.
  intros Hne. destruct (Qle_bool a b) eqn:E1, (Qle_bool b a) eqn:E2; try reflexivity.
  - apply Qle_bool_iff in E1. apply Qle_bool_iff in E2. exfalso. apply Hne. apply Qle_antisym; assumption.
  - destruct (Qleb_total a b); congruence.
Qed.
Lemma fn_pointwise column_mode t probf (pred : lrow -> bool) r c :
  clerical r = Some c -> ~ (c == t)%Q -> ~ (probf r == t)%Q ->
  pred r = negb (Qle_bool (probf r) t) ->
  (column_mode = true -> found r = false -> pred r = false) ->
  isT ((if column_mode then false_negative_column t else false_negative_table t) (erow_of probf r))
  = is_pos t r && negb (pred r).
Proof.
  intros Hc Hct Hpt Hp Hu. unfold is_pos. rewrite Hc.
  assert (E1 : negb (Qle_bool c t) = Qle_bool t c) by (rewrite (Qleb_antisym_bool c t Hct), negb_involutive; reflexivity).
  assert (E2 : negb (Qle_bool t (probf r)) = Qle_bool (probf r) t).
  { rewrite (Qleb_antisym_bool t (probf r)), negb_involutive; [reflexivity|]. intros E. apply Hpt. symmetry. exact E. }
  destruct column_mode.
  - unfold false_negative_column, oq_gt, q_lt, erow_of. cbn [e_cms e_prob e_found]. rewrite Hc.
    rewrite isT_or3, !isT_and3, !isT_of_bool, E1, E2, Hp, negb_involutive.
    destruct (found r) eqn:Ef; cbn [negb]; [rewrite andb_false_r, orb_false_r; reflexivity|].
    specialize (Hu eq_refl eq_refl). rewrite Hp in Hu. apply negb_false_iff in Hu. rewrite Hu.
    destruct (Qle_bool t c); reflexivity.
  - unfold false_negative_table, oq_gt, q_lt, erow_of. cbn [e_cms e_prob]. rewrite Hc.
    rewrite isT_and3, !isT_of_bool, E1, E2, Hp, negb_involutive. reflexivity.
Qed.

(* THE BRIDGE: at a reported row whose threshold separates the pairs exactly as
   match_probability > t does, with no NULL label and no tie at t, the rows prediction_errors
   returns as FP / FN are as many as the truth table's FP / FN of that row *)
Lemma prediction_errors_match_truth_table column_mode t rnd zero_unfound total_labels rows probf row :
  In row (truth_space_table t rnd zero_unfound total_labels rows) ->
  (column_mode = true -> zero_unfound = true) ->
  (forall r, In r rows -> Qle_bool (thr row) (adj_score rnd zero_unfound r) = negb (Qle_bool (probf r) t)) ->
  (forall r, In r rows -> exists c, clerical r = Some c /\ ~ (c == t)%Q) ->
  (forall r, In r rows -> ~ (probf r == t)%Q) ->
  let returned := prediction_errors column_mode true true t (map (erow_of probf) rows) in
  countZ (is_status StFP) returned = FP row /\ countZ (is_status StFN) returned = FN row.
Proof.
  intros Hrow Hcm Hsep Hlab Hprob. cbv zeta.
  destruct (table_row_recount _ _ _ _ _ row Hrow) as (_ & HFP & HFN & _).
  rewrite count_returned_fp, count_returned_fn, !countZ_map', HFP, HFN. split.
  - apply countZ_ext. intros r Hr. destruct (Hlab r Hr) as (c & Hc & _).
    apply (fp_pointwise t probf (fun r0 => Qle_bool (thr row) (adj_score rnd zero_unfound r0)) r c Hc (Hsep r Hr)).
  - apply countZ_ext. intros r Hr. destruct (Hlab r Hr) as (c & Hc & Hct).
    apply (fn_pointwise column_mode t probf (fun r0 => Qle_bool (thr row) (adj_score rnd zero_unfound r0)) r c Hc Hct (Hprob r Hr) (Hsep r Hr)).
    intros Hcol Hf. rewrite (Hcm Hcol) in *. eapply unfound_predicted_negative; eauto.
Qed.

(* ... and exactly what happens where the hypotheses fail *)
Lemma prediction_errors_ties_and_nulls t e :
  (e_cms e = None -> isT (false_positive t e) = false /\ isT (false_negative_table t e) = false
                     /\ isT (false_negative_column t e) = false) /\
  (forall c, e_cms e = Some c -> (c == t)%Q ->
     isT (false_positive t e) = false /\ isT (false_negative_table t e) = false /\ isT (false_negative_column t e) = false) /\
  ((e_prob e == t)%Q ->
     isT (false_positive t e) = false /\ isT (false_negative_table t e) = false /\
     (isT (false_negative_column t e) = true <-> exists c, e_cms e = Some c /\ (t < c)%Q /\ e_found e = false)).
Proof.
  split; [|split].
  - intros Hn. unfold false_positive, false_negative_table, false_negative_column, oq_lt, oq_gt. rewrite Hn.
    rewrite isT_or3, !isT_and3. cbn. auto.
  - intros c Hc Hq. unfold false_positive, false_negative_table, false_negative_column, oq_lt, oq_gt. rewrite Hc.
    rewrite isT_or3, !isT_and3, !isT_of_bool.
    assert (A : Qle_bool t c = true) by (apply Qle_bool_iff; rewrite Hq; apply Qle_refl).
    assert (B : Qle_bool c t = true) by (apply Qle_bool_iff; rewrite Hq; apply Qle_refl).
    rewrite A, B. cbn. auto.
  - intros Hq.
    assert (A : Qle_bool t (e_prob e) = true) by (apply Qle_bool_iff; rewrite Hq; apply Qle_refl).
    assert (B : Qle_bool (e_prob e) t = true) by (apply Qle_bool_iff; rewrite Hq; apply Qle_refl).
    split; [|split].
    + unfold false_positive, q_lt. rewrite isT_and3, isT_of_bool, B. cbn. apply andb_false_r.
    + unfold false_negative_table, q_lt. rewrite isT_and3, isT_of_bool, A. cbn. apply andb_false_r.
    + rewrite false_negative_column_iff. split.
      * intros (c & Hc & Hlt & [Hp|Hf]); [|eauto]. exfalso. rewrite Hq in Hp. eapply Qlt_irrefl; eauto.
      * intros (c & Hc & Hlt & Hf). eauto.
Qed.

(* ================================================================== rate trees *)
Lemma aexp_eqb_eq : forall a b, aexp_eqb a b = true -> a = b.
Proof.
  fix IH 1. intros a b. destruct a, b; cbn [aexp_eqb]; try discriminate; intros H.
  - destruct v, v0; try discriminate; reflexivity.
  - destruct q as [n d], q0 as [n' d']. unfold Q_syn_eqb in H. cbn in H. apply andb_true_iff in H. destruct H as [H1 H2].
    apply Z.eqb_eq in H1. apply Pos.eqb_eq in H2. subst. reflexivity.
  - apply andb_true_iff in H. destruct H as [H1 H2]. f_equal; apply IH; assumption.
  - apply andb_true_iff in H. destruct H as [H1 H2]. f_equal; apply IH; assumption.
  - apply andb_true_iff in H. destruct H as [H1 H2]. f_equal; apply IH; assumption.
  - apply andb_true_iff in H. destruct H as [H1 H2]. f_equal; apply IH; assumption.
  - f_equal. apply IH. exact H.
  - apply andb_true_iff in H. destruct H as [H H3]. apply andb_true_iff in H. destruct H as [H1 H2].
    f_equal; [|apply IH; assumption|apply IH; assumption].
    revert zs0 H1. induction zs as [|x l IHl]; intros [|y m] Hgo; try discriminate; [reflexivity|].
    apply andb_true_iff in Hgo. destruct Hgo as [Hx Hl]. f_equal; [apply IH; exact Hx|apply IHl; exact Hl].
Qed.
